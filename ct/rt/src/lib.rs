//! Recorder for the C01 trace comparison. This crate is compiled WITHOUT the SanitizerCoverage pass
//! (see ../rustc-wrap.sh), so nothing in here is instrumented and the callbacks cannot recurse.
//!
//! * `__sanitizer_cov_*` callbacks append (kind, value) events to a global trace while recording is on;
//! * a `#[global_allocator]` that serves the code under observation from a bump arena which is reset
//!   before every run (so heap addresses of two runs are comparable) and everything else from `System`;
//! * fixed static input slots; address normalisation (slot / arena / stack / image relative);
//! * the driver: reads cases, runs secret assignment 1 (stored) and 2 (compared on the fly), prints
//!   hashes, the first differing event and, for a difference, the symbolised call stacks at that event.
#![allow(static_mut_refs)]
#![allow(clippy::missing_safety_doc)]

use std::alloc::{GlobalAlloc, Layout, System};
use std::io::{BufRead, Write};

// ------------------------------------------------------------------------------------------------
// event kinds
pub const K_EDGE: u8 = 1; // control-flow edge (pc-guard index)
pub const K_GEP: u8 = 2; // non-constant index of an address computation
pub const K_DIV4: u8 = 3; // divisor of a 32-bit hardware division
pub const K_DIV8: u8 = 4; // divisor of a 64-bit hardware division
pub const K_LOAD: u8 = 0x10; // | log2(size): address read
pub const K_STORE: u8 = 0x20; // | log2(size): address written

fn kind_name(k: u8) -> String {
    match k {
        K_EDGE => "edge".into(),
        K_GEP => "gep".into(),
        K_DIV4 => "div32".into(),
        K_DIV8 => "div64".into(),
        _ if k & 0xf0 == K_LOAD => format!("load{}", 1u32 << (k & 0xf)),
        _ if k & 0xf0 == K_STORE => format!("store{}", 1u32 << (k & 0xf)),
        0 => "end-of-trace".into(),
        _ => format!("kind{}", k),
    }
}

// ------------------------------------------------------------------------------------------------
// global state (single-threaded program)
const CAP: usize = 1 << 24; // stored prefix of run 1 (events); the hash covers everything
static mut KINDS: [u8; CAP] = [0; CAP];
static mut VALS: [u64; CAP] = [0; CAP];

static mut REC: bool = false;
static mut COMPARE: bool = false; // run 2: compare on the fly against the stored run 1
static mut N: usize = 0; // events of the current run
static mut N1: usize = 0; // events of run 1
static mut HASH: u64 = 0;
static mut FIRST_DIFF: usize = usize::MAX;
static mut DIFF_EV: (u8, u64) = (0, 0);
static mut BREAK_AT: usize = usize::MAX;
static mut BREAK_BT: Option<String> = None;
static mut STACK_TOP: usize = 0;
static mut NGUARDS: u32 = 0;

// fixed input slots
pub const NSLOT: usize = 8;
pub const SLOT_WORDS: usize = 160;
#[repr(align(64))]
pub struct Slots(pub [[u64; SLOT_WORDS]; NSLOT]);
pub static mut SLOTS: Slots = Slots([[0; SLOT_WORDS]; NSLOT]);
pub static mut SLOT_LEN: [usize; NSLOT] = [0; NSLOT];
/// fixed output slot: results are moved here (outside the recorded region) so that they are "used"
pub static mut SINK: u64 = 0;

// ------------------------------------------------------------------------------------------------
// allocator
const ARENA_SIZE: usize = 1 << 26;
#[repr(align(4096))]
struct Arena([u8; ARENA_SIZE]);
static mut ARENA: Arena = Arena([0; ARENA_SIZE]);
static mut ARENA_OFF: usize = 0;
static mut ARENA_ON: bool = false;
static mut ARENA_HIGH: usize = 0;

pub struct Bump;
#[global_allocator]
static GLOBAL: Bump = Bump;

#[inline(always)]
fn arena_base() -> usize {
    unsafe { ARENA.0.as_ptr() as usize }
}

unsafe impl GlobalAlloc for Bump {
    unsafe fn alloc(&self, l: Layout) -> *mut u8 {
        unsafe {
            if ARENA_ON {
                let a = l.align().max(16);
                let off = (ARENA_OFF + a - 1) & !(a - 1);
                if off + l.size() > ARENA_SIZE {
                    return core::ptr::null_mut();
                }
                ARENA_OFF = off + l.size();
                if ARENA_OFF > ARENA_HIGH {
                    ARENA_HIGH = ARENA_OFF;
                }
                (arena_base() + off) as *mut u8
            } else {
                System.alloc(l)
            }
        }
    }
    unsafe fn dealloc(&self, p: *mut u8, l: Layout) {
        let a = p as usize;
        if a >= arena_base() && a < arena_base() + ARENA_SIZE {
            return; // bump arena: freed wholesale by arena_reset()
        }
        unsafe { System.dealloc(p, l) }
    }
    // alloc_zeroed / realloc: the GlobalAlloc defaults (alloc + write_bytes / alloc + copy + dealloc)
}

/// Start serving allocations from the (reset, zeroed up to the previous high-water mark) arena.
pub fn arena_begin() {
    unsafe {
        let hi = ARENA_HIGH;
        core::ptr::write_bytes(ARENA.0.as_mut_ptr(), 0, hi);
        ARENA_OFF = 0;
        ARENA_HIGH = 0;
        ARENA_ON = true;
    }
}
pub fn arena_end() {
    unsafe {
        ARENA_ON = false;
    }
}

// ------------------------------------------------------------------------------------------------
// address normalisation: the same logical location gets the same value in every run and process
static IMAGE_ANCHOR: u8 = 0;

#[inline(always)]
fn norm(addr: usize) -> u64 {
    unsafe {
        let s0 = SLOTS.0.as_ptr() as usize;
        if addr >= s0 && addr < s0 + NSLOT * SLOT_WORDS * 8 {
            return (1u64 << 60) | (addr - s0) as u64;
        }
        let a0 = arena_base();
        if addr >= a0 && addr < a0 + ARENA_SIZE {
            return (2u64 << 60) | (addr - a0) as u64;
        }
        let top = STACK_TOP;
        if addr <= top && top - addr < (64 << 20) {
            return (3u64 << 60) | (top - addr) as u64;
        }
        let img = &IMAGE_ANCHOR as *const u8 as usize;
        (4u64 << 60) | ((addr.wrapping_sub(img) as u64) & ((1u64 << 60) - 1))
    }
}

fn val_fmt(k: u8, v: u64) -> String {
    if k & 0xf0 == K_LOAD || k & 0xf0 == K_STORE {
        let off = v & ((1u64 << 60) - 1);
        match v >> 60 {
            1 => format!("slot{}+{:#x}", off as usize / (SLOT_WORDS * 8), off as usize % (SLOT_WORDS * 8)),
            2 => format!("heap+{:#x}", off),
            3 => format!("stack-{:#x}", off),
            _ => format!("image{:+#x}", ((off << 4) as i64) >> 4),
        }
    } else {
        format!("{:#x}", v)
    }
}

// ------------------------------------------------------------------------------------------------
// event sink
#[inline(always)]
unsafe fn ev(k: u8, v: u64) {
    unsafe {
        if !REC {
            return;
        }
        let i = N;
        N = i + 1;
        // FNV-1a style mix over (kind, value)
        let mut h = HASH;
        h = (h ^ (k as u64)).wrapping_mul(0x100000001b3);
        h = (h ^ v).wrapping_mul(0x100000001b3);
        h ^= h >> 29;
        HASH = h;
        if COMPARE {
            if FIRST_DIFF == usize::MAX && i < CAP && (i >= N1 || KINDS[i] != k || VALS[i] != v) {
                FIRST_DIFF = i;
                DIFF_EV = (k, v);
            }
        } else if i < CAP {
            KINDS[i] = k;
            VALS[i] = v;
        }
        if i == BREAK_AT {
            capture_bt();
        }
    }
}

#[inline(never)]
#[cold]
unsafe fn capture_bt() {
    unsafe {
        let (r, a) = (REC, ARENA_ON);
        REC = false;
        ARENA_ON = false;
        let bt = std::backtrace::Backtrace::force_capture();
        BREAK_BT = Some(format!("{}", bt));
        ARENA_ON = a;
        REC = r;
    }
}

#[unsafe(no_mangle)]
pub unsafe extern "C" fn __sanitizer_cov_trace_pc_guard_init(start: *mut u32, stop: *mut u32) {
    unsafe {
        if start == stop || *start != 0 {
            return;
        }
        let mut p = start;
        while p < stop {
            NGUARDS += 1;
            *p = NGUARDS;
            p = p.add(1);
        }
    }
}
#[unsafe(no_mangle)]
pub unsafe extern "C" fn __sanitizer_cov_trace_pc_guard(g: *mut u32) {
    unsafe { ev(K_EDGE, *g as u64) }
}
#[unsafe(no_mangle)]
pub unsafe extern "C" fn __sanitizer_cov_trace_div4(v: u32) {
    unsafe { ev(K_DIV4, v as u64) }
}
#[unsafe(no_mangle)]
pub unsafe extern "C" fn __sanitizer_cov_trace_div8(v: u64) {
    unsafe { ev(K_DIV8, v) }
}
#[unsafe(no_mangle)]
pub unsafe extern "C" fn __sanitizer_cov_trace_gep(v: usize) {
    unsafe { ev(K_GEP, v as u64) }
}
macro_rules! ldst {
    ($($name:ident, $k:expr;)*) => {$(
        #[unsafe(no_mangle)]
        pub unsafe extern "C" fn $name(p: *const u8) {
            unsafe { if REC { ev($k, norm(p as usize)) } }
        }
    )*};
}
ldst! {
    __sanitizer_cov_load1, K_LOAD | 0; __sanitizer_cov_load2, K_LOAD | 1; __sanitizer_cov_load4, K_LOAD | 2;
    __sanitizer_cov_load8, K_LOAD | 3; __sanitizer_cov_load16, K_LOAD | 4;
    __sanitizer_cov_store1, K_STORE | 0; __sanitizer_cov_store2, K_STORE | 1; __sanitizer_cov_store4, K_STORE | 2;
    __sanitizer_cov_store8, K_STORE | 3; __sanitizer_cov_store16, K_STORE | 4;
}
// comparison / switch tracing is not requested; defined so that a build with them still links
#[unsafe(no_mangle)]
pub unsafe extern "C" fn __sanitizer_cov_trace_pc_indir(callee: usize) {
    unsafe { if REC { ev(7, norm(callee)) } }
}

// ------------------------------------------------------------------------------------------------
// recording window (called by the instrumented wrappers crate)
#[inline(never)]
pub fn start() {
    unsafe {
        let marker = 0u8;
        // stack addresses are reported relative to a point 64 KiB above this frame
        STACK_TOP = (&marker as *const u8 as usize) + 0x10000;
        N = 0;
        HASH = 0xcbf29ce484222325;
        REC = true;
    }
}
#[inline(never)]
pub fn stop() {
    unsafe {
        REC = false;
    }
}

pub fn slot(i: usize) -> &'static [u64] {
    unsafe { &SLOTS.0[i][..SLOT_LEN[i]] }
}
pub fn slot_ptr(i: usize) -> *const u64 {
    unsafe { SLOTS.0[i].as_ptr() }
}
pub fn slot_len(i: usize) -> usize {
    unsafe { SLOT_LEN[i] }
}

// ------------------------------------------------------------------------------------------------
// driver
pub struct Op {
    pub name: String,
    /// "ct" (constant-time: no operand may influence the trace) or "vt" (documented variable-time control)
    pub class: &'static str,
    /// one descriptor per argument, `role:kind[:n[:ref]]`, role p(ublic) / s(ecret) / v(artime-documented operand)
    pub args: Vec<String>,
    /// prepares typed inputs from the slots (unrecorded), then records exactly one call of the wrapper
    pub run: fn(),
}

fn parse_args(s: &str) -> Vec<Vec<u64>> {
    if s.is_empty() {
        return vec![];
    }
    s.split(';')
        .map(|a| {
            if a == "-" || a.is_empty() {
                vec![]
            } else {
                a.split(',').map(|w| u64::from_str_radix(w, 16).expect("bad hex word")).collect()
            }
        })
        .collect()
}

fn load_slots(args: &[Vec<u64>]) {
    unsafe {
        assert!(args.len() <= NSLOT, "too many arguments");
        for i in 0..NSLOT {
            SLOTS.0[i] = [0; SLOT_WORDS];
            SLOT_LEN[i] = 0;
        }
        for (i, a) in args.iter().enumerate() {
            assert!(a.len() <= SLOT_WORDS, "argument too long");
            SLOTS.0[i][..a.len()].copy_from_slice(a);
            SLOT_LEN[i] = a.len();
        }
    }
}

/// One run: slots loaded, arena reset, `op.run` (which records one wrapper call). Returns false on panic.
fn one_run(op: &Op, args: &[Vec<u64>]) -> bool {
    load_slots(args);
    arena_begin();
    let r = std::panic::catch_unwind(|| (op.run)());
    unsafe {
        REC = false;
    }
    arena_end();
    r.is_ok()
}

fn frames(bt: &str) -> String {
    // keep "function (file:line)" of the frames between the callback and the driver
    let mut out: Vec<String> = vec![];
    let mut cur: Option<String> = None;
    for l in bt.lines() {
        let t = l.trim();
        if let Some(rest) = t.strip_prefix("at ") {
            if let Some(c) = cur.take() {
                out.push(format!("{} ({})", c, shorten(rest)));
            }
        } else if let Some(p) = t.find(": ") {
            if let Some(c) = cur.take() {
                out.push(c);
            }
            if t[..p].chars().all(|c| c.is_ascii_digit()) {
                cur = Some(t[p + 2..].to_string());
            }
        }
    }
    if let Some(c) = cur.take() {
        out.push(c);
    }
    // drop the recorder's own frames (top) and everything from the recording window outwards (bottom)
    let hi = out
        .iter()
        .position(|f| f.contains("ct/src/") && (f.starts_with("rec<") || f.starts_with("rec ")))
        .unwrap_or(out.len());
    let sel: Vec<String> = out[..hi]
        .iter()
        .filter(|f| !f.contains("rt/src/lib.rs") && !f.contains("ctrt::") && !f.contains("__sanitizer_cov") && !f.contains("std::backtrace"))
        .cloned()
        .collect();
    sel.join(" <- ")
}

fn shorten(p: &str) -> String {
    let p = p.trim();
    if let Some(i) = p.find("/src/") {
        // keep the path from the crate directory on
        let head = &p[..i];
        let krate = head.rsplit('/').next().unwrap_or("");
        return format!("{}{}", krate, &p[i..]);
    }
    p.to_string()
}

pub fn driver(ops: &[Op]) {
    let argv: Vec<String> = std::env::args().collect();
    if argv.len() > 1 && argv[1] == "--list" {
        for o in ops {
            println!("{}\t{}\t{}", o.name, o.class, o.args.join(" "));
        }
        return;
    }
    let dump = argv.len() > 1 && argv[1] == "--dump";
    if std::env::var("CT_PANIC_MSG").is_err() { std::panic::set_hook(Box::new(|_| {})); }
    let stdin = std::io::stdin();
    let stdout = std::io::stdout();
    let mut out = std::io::BufWriter::new(stdout.lock());
    for line in stdin.lock().lines() {
        let line = match line {
            Ok(l) => l,
            Err(_) => break,
        };
        let f: Vec<&str> = line.split('\t').collect();
        if f.len() < 4 {
            continue;
        }
        let (id, name) = (f[0], f[1]);
        let op = match ops.iter().find(|o| o.name == name) {
            Some(o) => o,
            None => {
                let _ = writeln!(out, "{}\tunsupported", id);
                continue;
            }
        };
        let a1 = parse_args(f[2]);
        let a2 = parse_args(f[3]);
        unsafe {
            // run 1: stored
            COMPARE = false;
            FIRST_DIFF = usize::MAX;
            BREAK_AT = usize::MAX;
            if !one_run(op, &a1) {
                let _ = writeln!(out, "{}\tpanic\t1", id);
                continue;
            }
            let (n1, h1) = (N, HASH);
            N1 = n1;
            if dump {
                for i in 0..n1.min(CAP) {
                    let _ = writeln!(out, "#1 {} {} {}", i, kind_name(KINDS[i]), val_fmt(KINDS[i], VALS[i]));
                }
            }
            // run 2: compared on the fly
            COMPARE = true;
            if !one_run(op, &a2) {
                let _ = writeln!(out, "{}\tpanic\t2", id);
                continue;
            }
            COMPARE = false;
            let (n2, h2) = (N, HASH);
            let mut fd = FIRST_DIFF;
            if fd == usize::MAX && n2 < n1 {
                fd = n2; // run 2 is a proper prefix of run 1
            }
            if fd == usize::MAX && (n1 != n2 || h1 != h2) {
                fd = CAP; // differs beyond the stored prefix
            }
            if fd == usize::MAX {
                let _ = writeln!(out, "{}\tsame\t{}\t{:016x}", id, n1, h1);
                continue;
            }
            let e1 = if fd < n1.min(CAP) { (KINDS[fd], VALS[fd]) } else { (0, 0) };
            let e2 = if fd < n2 && FIRST_DIFF != usize::MAX { DIFF_EV } else { (0, 0) };
            // symbolise: rerun both assignments and capture the call stack at event `fd`
            let mut bts = [String::new(), String::new()];
            if fd < CAP {
                for (k, a) in [&a1, &a2].iter().enumerate() {
                    COMPARE = true; // do not overwrite the stored trace
                    FIRST_DIFF = 0; // and do not search again
                    BREAK_AT = fd;
                    BREAK_BT = None;
                    let _ = one_run(op, a);
                    BREAK_AT = usize::MAX;
                    if let Some(b) = BREAK_BT.take() {
                        bts[k] = frames(&b);
                    }
                }
                COMPARE = false;
            }
            let _ = writeln!(
                out,
                "{}\tdiff\t{}\t{:016x}\t{}\t{:016x}\t{}\t{} {}\t{} {}\t{}\t{}",
                id, n1, h1, n2, h2, fd,
                kind_name(e1.0), val_fmt(e1.0, e1.1),
                kind_name(e2.0), val_fmt(e2.0, e2.1),
                bts[0], bts[1]
            );
        }
    }
    let _ = out.flush();
}

pub fn nguards() -> u32 {
    unsafe { NGUARDS }
}
