#!/bin/sh
# RUSTC_WRAPPER for the C01 machine-code binary: the same crates and profile as the trace binary, but NO
# instrumentation pass -- this is the optimized build a user of the crate gets.
rustc="$1"; shift
name=""
prev=""
for a in "$@"; do
  if [ "$prev" = "--crate-name" ]; then name="$a"; fi
  prev="$a"
done
case "$name" in
  crypto_bigint|subtle|cbct)
    exec "$rustc" "$@" --cfg crypto_bigint_verif
    ;;
  *)
    exec "$rustc" "$@"
    ;;
esac
