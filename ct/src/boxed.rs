//! BoxedUint wrappers; the precision (limb count = slot length) is a public parameter.
//! Registered at 4 and 17 limbs (the same code; the descriptors carry the width for the generator).
use crate::*;
use subtle::{Choice, ConstantTimeEq, ConstantTimeGreater, ConstantTimeLess, CtOption};

pub fn reg(v: &mut Vec<Op>) {
    reg_n(v, 4);
    reg_n(v, 17);
}

macro_rules! bop {
    ($v:ident, $n:expr, $name:expr, $class:literal, [$($d:expr),*], ($($p:ident : $t:ty = $init:expr),*) -> $r:ty $body:block) => {
        op!($v, "boxed", $n, $name, $class, [$($d),*], ($($p : $t = $init),*) -> $r $body)
    };
}

fn reg_n(v: &mut Vec<Op>, n: usize) {
    type BU = BoxedUint;
    // ---- add / sub / neg / mul
    bop!(v, n, "adc", "ct", ["s:u", "s:u", "s:w"], (a: BU = bx(0), b: BU = bx(1), c: Limb = lb(2)) -> (BU, Limb) { a.adc(b, *c) });
    bop!(v, n, "sbb", "ct", ["s:u", "s:u", "s:w"], (a: BU = bx(0), b: BU = bx(1), c: Limb = lb(2)) -> (BU, Limb) { a.sbb(b, *c) });
    bop!(v, n, "wrapping_add", "ct", ["s:u", "s:u"], (a: BU = bx(0), b: BU = bx(1)) -> BU { a.wrapping_add(b) });
    bop!(v, n, "wrapping_sub", "ct", ["s:u", "s:u"], (a: BU = bx(0), b: BU = bx(1)) -> BU { a.wrapping_sub(b) });
    bop!(v, n, "checked_add", "ct", ["s:u", "s:u"], (a: BU = bx(0), b: BU = bx(1)) -> CtOption<BU> { CheckedAdd::checked_add(a, b) });
    bop!(v, n, "checked_sub", "ct", ["s:u", "s:u"], (a: BU = bx(0), b: BU = bx(1)) -> CtOption<BU> { CheckedSub::checked_sub(a, b) });
    bop!(v, n, "wrapping_neg", "ct", ["s:u"], (a: BU = bx(0)) -> BU { a.wrapping_neg() });
    bop!(v, n, "mul", "ct", ["s:u", "s:u"], (a: BU = bx(0), b: BU = bx(1)) -> BU { a.mul(b) });
    bop!(v, n, "wrapping_mul", "ct", ["s:u", "s:u"], (a: BU = bx(0), b: BU = bx(1)) -> BU { a.wrapping_mul(b) });
    bop!(v, n, "checked_mul", "ct", ["s:u", "s:u"], (a: BU = bx(0), b: BU = bx(1)) -> CtOption<BU> { CheckedMul::checked_mul(a, b) });
    bop!(v, n, "square", "ct", ["s:u"], (a: BU = bx(0)) -> BU { a.square() });
    // ---- comparison / selection
    bop!(v, n, "ct_eq", "ct", ["s:u", "s:u"], (a: BU = bx(0), b: BU = bx(1)) -> Choice { a.ct_eq(b) });
    bop!(v, n, "ct_lt", "ct", ["s:u", "s:u"], (a: BU = bx(0), b: BU = bx(1)) -> Choice { a.ct_lt(b) });
    bop!(v, n, "ct_gt", "ct", ["s:u", "s:u"], (a: BU = bx(0), b: BU = bx(1)) -> Choice { a.ct_gt(b) });
    bop!(v, n, "cmp", "ct", ["s:u", "s:u"], (a: BU = bx(0), b: BU = bx(1)) -> core::cmp::Ordering { Ord::cmp(a, b) });
    bop!(v, n, "eq", "ct", ["s:u", "s:u"], (a: BU = bx(0), b: BU = bx(1)) -> bool { a == b });
    bop!(v, n, "is_zero", "ct", ["s:u"], (a: BU = bx(0)) -> Choice { a.is_zero() });
    bop!(v, n, "is_one", "ct", ["s:u"], (a: BU = bx(0)) -> Choice { a.is_one() });
    bop!(v, n, "is_odd", "ct", ["s:u"], (a: BU = bx(0)) -> Choice { a.is_odd() });
    bop!(v, n, "to_odd", "ct", ["s:u"], (a: BU = bx(0)) -> CtOption<Odd<BU>> { a.to_odd() });
    bop!(v, n, "nonzero_new", "ct", ["s:u"], (a: BU = bx(0)) -> CtOption<NonZero<BU>> { NonZero::new(a.clone()) });
    bop!(v, n, "ct_select", "ct", ["s:u", "s:u", "s:c"], (a: BU = bx(0), b: BU = bx(1), c: Choice = ch(2)) -> BU { BU::ct_select(a, b, *c) });
    bop!(v, n, "ct_assign", "ct", ["s:u", "s:u", "s:c"], (a: BU = bx(0), b: BU = bx(1), c: Choice = ch(2)) -> BU { let mut x = a.clone(); x.ct_assign(b, *c); x });
    bop!(v, n, "ct_swap", "ct", ["s:u", "s:u", "s:c"], (a: BU = bx(0), b: BU = bx(1), c: Choice = ch(2)) -> (BU, BU) { let (mut x, mut y) = (a.clone(), b.clone()); BU::ct_swap(&mut x, &mut y, *c); (x, y) });
    bop!(v, n, "conditional_negate", "ct", ["s:u", "s:c"], (a: BU = bx(0), c: Choice = ch(1)) -> BU { use subtle::ConditionallyNegatable; let mut x = a.clone(); x.conditional_negate(*c); x });
    bop!(v, n, "not", "ct", ["s:u"], (a: BU = bx(0)) -> BU { a.not() });
    bop!(v, n, "bitand", "ct", ["s:u", "s:u"], (a: BU = bx(0), b: BU = bx(1)) -> BU { a.bitand(b) });
    // ---- bit queries
    bop!(v, n, "bit", "ct", ["s:u", "s:shx"], (a: BU = bx(0), i: u32 = w32(1)) -> Choice { a.bit(*i) });
    bop!(v, n, "bits", "ct", ["s:u"], (a: BU = bx(0)) -> u32 { a.bits() });
    bop!(v, n, "leading_zeros", "ct", ["s:u"], (a: BU = bx(0)) -> u32 { a.leading_zeros() });
    bop!(v, n, "trailing_zeros", "ct", ["s:u"], (a: BU = bx(0)) -> u32 { a.trailing_zeros() });
    bop!(v, n, "trailing_ones", "ct", ["s:u"], (a: BU = bx(0)) -> u32 { a.trailing_ones() });
    // ---- shifts by a secret amount
    bop!(v, n, "shl", "ct", ["s:u", "s:sh"], (a: BU = bx(0), s: u32 = w32(1)) -> BU { a.shl(*s) });
    bop!(v, n, "shr", "ct", ["s:u", "s:sh"], (a: BU = bx(0), s: u32 = w32(1)) -> BU { a.shr(*s) });
    bop!(v, n, "overflowing_shl", "ct", ["s:u", "s:shx"], (a: BU = bx(0), s: u32 = w32(1)) -> (BU, Choice) { a.overflowing_shl(*s) });
    bop!(v, n, "overflowing_shr", "ct", ["s:u", "s:shx"], (a: BU = bx(0), s: u32 = w32(1)) -> (BU, Choice) { a.overflowing_shr(*s) });
    bop!(v, n, "wrapping_shl", "ct", ["s:u", "s:shx"], (a: BU = bx(0), s: u32 = w32(1)) -> BU { a.wrapping_shl(*s) });
    bop!(v, n, "wrapping_shr", "ct", ["s:u", "s:shx"], (a: BU = bx(0), s: u32 = w32(1)) -> BU { a.wrapping_shr(*s) });
    bop!(v, n, "shl_assign", "ct", ["s:u", "s:sh"], (a: BU = bx(0), s: u32 = w32(1)) -> BU { let mut x = a.clone(); x.shl_assign(*s); x });
    bop!(v, n, "shr_assign", "ct", ["s:u", "s:sh"], (a: BU = bx(0), s: u32 = w32(1)) -> BU { let mut x = a.clone(); x.shr_assign(*s); x });
    // ---- division
    bop!(v, n, "div_rem", "ct", ["s:u", "s:nz"], (a: BU = bx(0), b: NonZero<BU> = bnz(1)) -> (BU, BU) { a.div_rem(b) });
    bop!(v, n, "rem", "ct", ["s:u", "s:nz"], (a: BU = bx(0), b: NonZero<BU> = bnz(1)) -> BU { a.rem(b) });
    bop!(v, n, "wrapping_div", "ct", ["s:u", "s:nz"], (a: BU = bx(0), b: NonZero<BU> = bnz(1)) -> BU { a.wrapping_div(b) });
    bop!(v, n, "checked_div", "ct", ["s:u", "s:u"], (a: BU = bx(0), b: BU = bx(1)) -> CtOption<BU> { a.checked_div(b) });
    bop!(v, n, "div_op", "ct", ["s:u", "s:nz"], (a: BU = bx(0), b: NonZero<BU> = bnz(1)) -> BU { a / b });
    bop!(v, n, "rem_op", "ct", ["s:u", "s:nz"], (a: BU = bx(0), b: NonZero<BU> = bnz(1)) -> BU { a % b });
    bop!(v, n, "div_rem_limb", "ct", ["s:u", "s:nzw"], (a: BU = bx(0), b: NonZero<Limb> = nzl(1)) -> (BU, Limb) { a.div_rem_limb(*b) });
    bop!(v, n, "rem_limb", "ct", ["s:u", "s:nzw"], (a: BU = bx(0), b: NonZero<Limb> = nzl(1)) -> Limb { a.rem_limb(*b) });
    // ---- modular arithmetic
    bop!(v, n, "add_mod", "ct", ["s:lt2", "s:lt2", "s:nz"], (a: BU = bx(0), b: BU = bx(1), p: BU = bx(2)) -> BU { a.add_mod(b, p) });
    bop!(v, n, "sub_mod", "ct", ["s:lt2", "s:lt2", "s:nz"], (a: BU = bx(0), b: BU = bx(1), p: BU = bx(2)) -> BU { a.sub_mod(b, p) });
    bop!(v, n, "neg_mod", "ct", ["s:lt1", "s:nz"], (a: BU = bx(0), p: BU = bx(1)) -> BU { a.neg_mod(p) });
    bop!(v, n, "double_mod", "ct", ["s:lt1", "s:nz"], (a: BU = bx(0), p: BU = bx(1)) -> BU { a.double_mod(p) });
    bop!(v, n, "mul_mod", "ct", ["s:lt2", "s:lt2", "p:odd3"], (a: BU = bx(0), b: BU = bx(1), p: BU = bx(2)) -> BU { a.mul_mod(b, p) });
    bop!(v, n, "sub_mod_special", "ct", ["s:ltc2", "s:ltc2", "p:cw"], (a: BU = bx(0), b: BU = bx(1), c: Limb = lb(2)) -> BU { a.sub_mod_special(b, *c) });
    bop!(v, n, "neg_mod_special", "ct", ["s:ltc1", "p:cw"], (a: BU = bx(0), c: Limb = lb(1)) -> BU { a.neg_mod_special(*c) });
    bop!(v, n, "mul_mod_special", "ct", ["s:ltc2", "s:ltc2", "p:cw"], (a: BU = bx(0), b: BU = bx(1), c: Limb = lb(2)) -> BU { a.mul_mod_special(b, *c) });
    // ---- inversion, gcd, square root
    bop!(v, n, "inv_mod2k", "ct", ["s:u", "s:k"], (a: BU = bx(0), k: u32 = w32(1)) -> (BU, Choice) { a.inv_mod2k(*k) });
    bop!(v, n, "inv_odd_mod", "ct", ["s:u", "p:odd"], (a: BU = bx(0), m: Odd<BU> = bod(1)) -> CtOption<BU> { a.inv_odd_mod(m) });
    bop!(v, n, "inv_mod", "ct", ["s:u", "p:nz"], (a: BU = bx(0), m: BU = bx(1)) -> CtOption<BU> { a.inv_mod(m) });
    bop!(v, n, "gcd", "ct", ["s:u", "s:u"], (a: BU = bx(0), b: BU = bx(1)) -> BU { Gcd::gcd(a, b) });
    bop!(v, n, "sqrt", "ct", ["s:u"], (a: BU = bx(0)) -> BU { a.sqrt() });
    bop!(v, n, "checked_sqrt", "ct", ["s:u"], (a: BU = bx(0)) -> CtOption<BU> { a.checked_sqrt() });
    // ---- encoding
    bop!(v, n, "to_be_bytes", "ct", ["s:u"], (a: BU = bx(0)) -> Box<[u8]> { a.to_be_bytes() });
    bop!(v, n, "from_be_slice", "ct", ["s:u"], (b: Box<[u8]> = bx(0).to_be_bytes()) -> BU { BU::from_be_slice(b, (b.len() * 8) as u32).unwrap() });
    // ---- documented variable-time controls
    bop!(v, n, "shl_vartime", "vt", ["s:u", "v:shx"], (a: BU = bx(0), s: u32 = w32(1)) -> Option<BU> { a.shl_vartime(*s) });
    bop!(v, n, "shr_vartime", "vt", ["s:u", "v:shx"], (a: BU = bx(0), s: u32 = w32(1)) -> Option<BU> { a.shr_vartime(*s) });
    bop!(v, n, "wrapping_shl_vartime", "vt", ["s:u", "v:shx"], (a: BU = bx(0), s: u32 = w32(1)) -> BU { a.wrapping_shl_vartime(*s) });
    bop!(v, n, "bit_vartime", "vt", ["s:u", "v:shx"], (a: BU = bx(0), i: u32 = w32(1)) -> bool { a.bit_vartime(*i) });
    bop!(v, n, "bits_vartime", "vt", ["v:u"], (a: BU = bx(0)) -> u32 { a.bits_vartime() });
    bop!(v, n, "trailing_zeros_vartime", "vt", ["v:u"], (a: BU = bx(0)) -> u32 { a.trailing_zeros_vartime() });
    bop!(v, n, "cmp_vartime", "vt", ["v:u", "v:u"], (a: BU = bx(0), b: BU = bx(1)) -> core::cmp::Ordering { a.cmp_vartime(b) });
    bop!(v, n, "div_rem_vartime", "vt", ["s:u", "v:nz"], (a: BU = bx(0), b: NonZero<BU> = bnz(1)) -> (BU, BU) { a.div_rem_vartime(b) });
    bop!(v, n, "rem_vartime", "vt", ["s:u", "v:nz"], (a: BU = bx(0), b: NonZero<BU> = bnz(1)) -> BU { a.rem_vartime(b) });
    bop!(v, n, "inv_mod2k_vartime", "vt", ["s:u", "v:k"], (a: BU = bx(0), k: u32 = w32(1)) -> (BU, Choice) { a.inv_mod2k_vartime(*k) });
    bop!(v, n, "sqrt_vartime", "vt", ["v:u"], (a: BU = bx(0)) -> BU { a.sqrt_vartime() });
    bop!(v, n, "gcd_vartime", "vt", ["p:odd", "v:u"], (a: Odd<BU> = bod(0), b: BU = bx(1)) -> BU { Gcd::gcd_vartime(a, b) });
}
