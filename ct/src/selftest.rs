//! Instrument self-tests: deliberately data-dependent code, one per event kind. Registered as variable-time
//! controls; tools/vlib/c01.py fails the CHECKER (exit 2) if any of them is not seen to vary.
use crate::*;

static TABLE: [u64; 64] = {
    let mut t = [0u64; 64];
    let mut i = 0;
    while i < 64 {
        t[i] = (i as u64).wrapping_mul(0x9e3779b97f4a7c15);
        i += 1;
    }
    t
};

pub fn reg(v: &mut Vec<Op>) {
    // secret-dependent branch -> edge events
    op!(v, "selftest", 1, "branch", "vt", ["v:w"], (a: u64 = w(0)) -> u64 {
        if *a & 1 == 1 { black_box(u64::wrapping_mul(*a, 3)) + 1 } else { black_box(*a >> 1) }
    });
    // secret-dependent trip count -> edge events
    op!(v, "selftest", 1, "loop", "vt", ["v:w"], (a: u64 = w(0)) -> u64 {
        let mut x = *a | 1; let mut n = 0u64;
        while x & (1 << 63) == 0 { x = black_box(x << 1); n += 1; }
        n
    });
    // secret-dependent table index -> gep + load address events
    op!(v, "selftest", 1, "index", "vt", ["v:w"], (a: u64 = w(0)) -> u64 { TABLE[(*a & 63) as usize] });
    // secret-dependent store address
    op!(v, "selftest", 1, "store", "vt", ["v:w"], (a: u64 = w(0)) -> [u64; 8] { let mut t = [0u64; 8]; t[(*a & 7) as usize] = 1; black_box(t) });
    // hardware division with secret divisor -> div events
    op!(v, "selftest", 1, "div64", "vt", ["s:w", "v:nzw"], (a: u64 = w(0), b: u64 = w(1)) -> u64 { *a / *b });
    op!(v, "selftest", 1, "div32", "vt", ["s:w", "v:nzw"], (a: u64 = w(0), b: u64 = w(1)) -> u32 { (*a as u32) / ((*b as u32) | 1) });
    // heap allocation of secret-independent size, secret-dependent offset -> normalised heap address events
    op!(v, "selftest", 1, "heap", "vt", ["v:w"], (a: u64 = w(0)) -> u64 { let t: Vec<u64> = black_box(vec![7u64; 16]); t[(*a & 15) as usize] });
    // and a constant-time reference: must never vary
    op!(v, "selftest", 1, "masksel", "ct", ["s:w", "s:w", "s:w"], (a: u64 = w(0), b: u64 = w(1), c: u64 = w(2)) -> u64 {
        let m = (*c & 1).wrapping_neg(); *a ^ (m & (*a ^ *b))
    });
}
