//! Int<N> wrappers (N = 4, plus division at 2 limbs).
use crate::*;
use crypto_bigint::modular::SafeGcdInverter;
use subtle::{Choice, ConditionallySelectable, ConstantTimeEq, ConstantTimeGreater, ConstantTimeLess, CtOption};

pub fn reg(v: &mut Vec<Op>) {
    reg_n::<2>(v);
    reg_n::<4>(v);
    reg_inv::<4, 6>(v);
}

fn reg_n<const N: usize>(v: &mut Vec<Op>) {
    gop!(v, "int", "checked_add", "ct", ["s:i", "s:i"], (a: Int<N> = si::<N>(0), b: Int<N> = si::<N>(1)) -> ConstCtOption<Int<N>> { a.checked_add(b) });
    gop!(v, "int", "overflowing_add", "ct", ["s:i", "s:i"], (a: Int<N> = si::<N>(0), b: Int<N> = si::<N>(1)) -> (Int<N>, ConstChoice) { a.overflowing_add(b) });
    gop!(v, "int", "wrapping_add", "ct", ["s:i", "s:i"], (a: Int<N> = si::<N>(0), b: Int<N> = si::<N>(1)) -> Int<N> { a.wrapping_add(b) });
    gop!(v, "int", "checked_sub", "ct", ["s:i", "s:i"], (a: Int<N> = si::<N>(0), b: Int<N> = si::<N>(1)) -> CtOption<Int<N>> { CheckedSub::checked_sub(a, b) });
    gop!(v, "int", "wrapping_sub", "ct", ["s:i", "s:i"], (a: Int<N> = si::<N>(0), b: Int<N> = si::<N>(1)) -> Int<N> { WrappingSub::wrapping_sub(a, b) });
    gop!(v, "int", "wrapping_neg", "ct", ["s:i"], (a: Int<N> = si::<N>(0)) -> Int<N> { a.wrapping_neg() });
    gop!(v, "int", "overflowing_neg", "ct", ["s:i"], (a: Int<N> = si::<N>(0)) -> (Int<N>, ConstChoice) { a.overflowing_neg() });
    gop!(v, "int", "checked_neg", "ct", ["s:i"], (a: Int<N> = si::<N>(0)) -> ConstCtOption<Int<N>> { a.checked_neg() });
    gop!(v, "int", "wrapping_neg_if", "ct", ["s:i", "s:c"], (a: Int<N> = si::<N>(0), c: ConstChoice = cc(1)) -> Int<N> { a.wrapping_neg_if(*c) });
    gop!(v, "int", "abs_sign", "ct", ["s:i"], (a: Int<N> = si::<N>(0)) -> (Uint<N>, ConstChoice) { a.abs_sign() });
    gop!(v, "int", "abs", "ct", ["s:i"], (a: Int<N> = si::<N>(0)) -> Uint<N> { a.abs() });
    gop!(v, "int", "is_negative", "ct", ["s:i"], (a: Int<N> = si::<N>(0)) -> ConstChoice { a.is_negative() });
    gop!(v, "int", "is_min", "ct", ["s:i"], (a: Int<N> = si::<N>(0)) -> ConstChoice { a.is_min() });
    gop!(v, "int", "new_from_abs_sign", "ct", ["s:u", "s:c"], (a: Uint<N> = u::<N>(0), c: ConstChoice = cc(1)) -> ConstCtOption<Int<N>> { Int::new_from_abs_sign(*a, *c) });
    gop!(v, "int", "split_mul", "ct", ["s:i", "s:i"], (a: Int<N> = si::<N>(0), b: Int<N> = si::<N>(1)) -> (Uint<N>, Uint<N>, ConstChoice) { a.split_mul(b) });
    gop!(v, "int", "checked_mul", "ct", ["s:i", "s:i"], (a: Int<N> = si::<N>(0), b: Int<N> = si::<N>(1)) -> CtOption<Int<N>> { CheckedMul::checked_mul(a, b) });
    gop!(v, "int", "checked_square", "ct", ["s:i"], (a: Int<N> = si::<N>(0)) -> ConstCtOption<Uint<N>> { a.checked_square() });
    gop!(v, "int", "ct_eq", "ct", ["s:i", "s:i"], (a: Int<N> = si::<N>(0), b: Int<N> = si::<N>(1)) -> Choice { a.ct_eq(b) });
    gop!(v, "int", "ct_lt", "ct", ["s:i", "s:i"], (a: Int<N> = si::<N>(0), b: Int<N> = si::<N>(1)) -> Choice { a.ct_lt(b) });
    gop!(v, "int", "ct_gt", "ct", ["s:i", "s:i"], (a: Int<N> = si::<N>(0), b: Int<N> = si::<N>(1)) -> Choice { a.ct_gt(b) });
    gop!(v, "int", "cmp", "ct", ["s:i", "s:i"], (a: Int<N> = si::<N>(0), b: Int<N> = si::<N>(1)) -> core::cmp::Ordering { Ord::cmp(a, b) });
    gop!(v, "int", "conditional_select", "ct", ["s:i", "s:i", "s:c"], (a: Int<N> = si::<N>(0), b: Int<N> = si::<N>(1), c: Choice = ch(2)) -> Int<N> { Int::conditional_select(a, b, *c) });
    gop!(v, "int", "shl", "ct", ["s:i", "s:sh"], (a: Int<N> = si::<N>(0), s: u32 = w32(1)) -> Int<N> { a.shl(*s) });
    gop!(v, "int", "shr", "ct", ["s:i", "s:sh"], (a: Int<N> = si::<N>(0), s: u32 = w32(1)) -> Int<N> { a.shr(*s) });
    gop!(v, "int", "overflowing_shr", "ct", ["s:i", "s:shx"], (a: Int<N> = si::<N>(0), s: u32 = w32(1)) -> ConstCtOption<Int<N>> { a.overflowing_shr(*s) });
    gop!(v, "int", "wrapping_shr", "ct", ["s:i", "s:shx"], (a: Int<N> = si::<N>(0), s: u32 = w32(1)) -> Int<N> { a.wrapping_shr(*s) });
    // ---- division (NonZero consumers)
    gop!(v, "int", "checked_div_rem", "ct", ["s:i", "s:nzi"], (a: Int<N> = si::<N>(0), b: NonZero<Int<N>> = NonZero::new(si::<N>(1)).unwrap()) -> (ConstCtOption<Int<N>>, Int<N>) { a.checked_div_rem(b) });
    gop!(v, "int", "checked_div", "ct", ["s:i", "s:i"], (a: Int<N> = si::<N>(0), b: Int<N> = si::<N>(1)) -> CtOption<Int<N>> { a.checked_div(b) });
    gop!(v, "int", "rem", "ct", ["s:i", "s:nzi"], (a: Int<N> = si::<N>(0), b: NonZero<Int<N>> = NonZero::new(si::<N>(1)).unwrap()) -> Int<N> { a.rem(b) });
    gop!(v, "int", "checked_div_rem_floor", "ct", ["s:i", "s:nzi"], (a: Int<N> = si::<N>(0), b: NonZero<Int<N>> = NonZero::new(si::<N>(1)).unwrap()) -> (ConstCtOption<Int<N>>, Int<N>) { a.checked_div_rem_floor(b) });
    gop!(v, "int", "checked_div_floor", "ct", ["s:i", "s:i"], (a: Int<N> = si::<N>(0), b: Int<N> = si::<N>(1)) -> CtOption<Int<N>> { a.checked_div_floor(b) });
    gop!(v, "int", "div_rem_uint", "ct", ["s:i", "s:nz"], (a: Int<N> = si::<N>(0), b: NonZero<Uint<N>> = nz::<N>(1)) -> (Int<N>, Int<N>) { a.div_rem_uint(b) });
    gop!(v, "int", "rem_uint", "ct", ["s:i", "s:nz"], (a: Int<N> = si::<N>(0), b: NonZero<Uint<N>> = nz::<N>(1)) -> Int<N> { a.rem_uint(b) });
    gop!(v, "int", "div_rem_floor_uint", "ct", ["s:i", "s:nz"], (a: Int<N> = si::<N>(0), b: NonZero<Uint<N>> = nz::<N>(1)) -> (Int<N>, Uint<N>) { a.div_rem_floor_uint(b) });
    gop!(v, "int", "normalized_rem", "ct", ["s:i", "s:nz"], (a: Int<N> = si::<N>(0), b: NonZero<Uint<N>> = nz::<N>(1)) -> Uint<N> { a.normalized_rem(b) });
    // ---- controls
    gop!(v, "int", "cmp_vartime", "vt", ["v:i", "v:i"], (a: Int<N> = si::<N>(0), b: Int<N> = si::<N>(1)) -> core::cmp::Ordering { a.cmp_vartime(b) });
    gop!(v, "int", "checked_div_rem_vartime", "vt", ["s:i", "v:nzi"], (a: Int<N> = si::<N>(0), b: NonZero<Int<N>> = NonZero::new(si::<N>(1)).unwrap()) -> (ConstCtOption<Int<N>>, Int<N>) { a.checked_div_rem_vartime(b) });
    gop!(v, "int", "rem_vartime", "vt", ["s:i", "v:nzi"], (a: Int<N> = si::<N>(0), b: NonZero<Int<N>> = NonZero::new(si::<N>(1)).unwrap()) -> Int<N> { a.rem_vartime(b) });
    gop!(v, "int", "rem_uint_vartime", "vt", ["s:i", "v:nz"], (a: Int<N> = si::<N>(0), b: NonZero<Uint<N>> = nz::<N>(1)) -> Int<N> { a.rem_uint_vartime(b) });
    gop!(v, "int", "shr_vartime", "vt", ["s:i", "v:sh"], (a: Int<N> = si::<N>(0), s: u32 = w32(1)) -> Int<N> { a.shr_vartime(*s) });
}

fn reg_inv<const N: usize, const U: usize>(v: &mut Vec<Op>)
where
    Odd<Uint<N>>: PrecomputeInverter<Inverter = SafeGcdInverter<N, U>>,
{
    #[inline(never)]
    fn w_inv<const N: usize, const U: usize>(a: &Int<N>, m: &Odd<Uint<N>>) -> CtOption<Uint<N>>
    where
        Odd<Uint<N>>: PrecomputeInverter<Inverter = SafeGcdInverter<N, U>>,
    {
        a.inv_odd_mod(m)
    }
    v.push(Op {
        name: format!("int{}.inv_odd_mod", N),
        class: "ct",
        args: vec![format!("s:i:{}", N), format!("p:odd:{}", N)],
        run: || {
            let (a, m) = (si::<N>(0), od::<N>(1));
            rec(|| w_inv::<N, U>(black_box(&a), black_box(&m)))
        },
    });
    #[inline(never)]
    fn w_gcd<const N: usize, const U: usize>(a: &Int<N>, b: &Int<N>) -> Uint<N>
    where
        Odd<Uint<N>>: PrecomputeInverter<Inverter = SafeGcdInverter<N, U>>,
    {
        Gcd::gcd(a, b)
    }
    v.push(Op {
        name: format!("int{}.gcd", N),
        class: "ct",
        args: vec![format!("s:i:{}", N), format!("s:i:{}", N)],
        run: || {
            let (a, b) = (si::<N>(0), si::<N>(1));
            rec(|| w_gcd::<N, U>(black_box(&a), black_box(&b)))
        },
    });
}
