//! Limb wrappers.
use crate::*;
use subtle::{ConditionallySelectable, ConstantTimeEq, ConstantTimeGreater, ConstantTimeLess};

pub fn reg(v: &mut Vec<Op>) {
    op!(v, "limb", 1, "adc", "ct", ["s:w", "s:w", "s:w"], (a: Limb = lb(0), b: Limb = lb(1), c: Limb = lb(2)) -> (Limb, Limb) { a.adc(*b, *c) });
    op!(v, "limb", 1, "sbb", "ct", ["s:w", "s:w", "s:w"], (a: Limb = lb(0), b: Limb = lb(1), c: Limb = lb(2)) -> (Limb, Limb) { a.sbb(*b, *c) });
    op!(v, "limb", 1, "mac", "ct", ["s:w", "s:w", "s:w", "s:w"], (a: Limb = lb(0), b: Limb = lb(1), c: Limb = lb(2), d: Limb = lb(3)) -> (Limb, Limb) { a.mac(*b, *c, *d) });
    op!(v, "limb", 1, "overflowing_add", "ct", ["s:w", "s:w"], (a: Limb = lb(0), b: Limb = lb(1)) -> (Limb, Limb) { a.overflowing_add(*b) });
    op!(v, "limb", 1, "wrapping_add", "ct", ["s:w", "s:w"], (a: Limb = lb(0), b: Limb = lb(1)) -> Limb { a.wrapping_add(*b) });
    op!(v, "limb", 1, "wrapping_sub", "ct", ["s:w", "s:w"], (a: Limb = lb(0), b: Limb = lb(1)) -> Limb { a.wrapping_sub(*b) });
    op!(v, "limb", 1, "wrapping_mul", "ct", ["s:w", "s:w"], (a: Limb = lb(0), b: Limb = lb(1)) -> Limb { a.wrapping_mul(*b) });
    op!(v, "limb", 1, "wrapping_neg", "ct", ["s:w"], (a: Limb = lb(0)) -> Limb { a.wrapping_neg() });
    op!(v, "limb", 1, "saturating_add", "ct", ["s:w", "s:w"], (a: Limb = lb(0), b: Limb = lb(1)) -> Limb { a.saturating_add(*b) });
    op!(v, "limb", 1, "saturating_sub", "ct", ["s:w", "s:w"], (a: Limb = lb(0), b: Limb = lb(1)) -> Limb { a.saturating_sub(*b) });
    op!(v, "limb", 1, "saturating_mul", "ct", ["s:w", "s:w"], (a: Limb = lb(0), b: Limb = lb(1)) -> Limb { a.saturating_mul(*b) });
    op!(v, "limb", 1, "checked_add", "ct", ["s:w", "s:w"], (a: Limb = lb(0), b: Limb = lb(1)) -> subtle::CtOption<Limb> { CheckedAdd::checked_add(a, b) });
    op!(v, "limb", 1, "checked_sub", "ct", ["s:w", "s:w"], (a: Limb = lb(0), b: Limb = lb(1)) -> subtle::CtOption<Limb> { CheckedSub::checked_sub(a, b) });
    op!(v, "limb", 1, "checked_mul", "ct", ["s:w", "s:w"], (a: Limb = lb(0), b: Limb = lb(1)) -> subtle::CtOption<Limb> { CheckedMul::checked_mul(a, b) });
    op!(v, "limb", 1, "bits", "ct", ["s:w"], (a: Limb = lb(0)) -> u32 { a.bits() });
    op!(v, "limb", 1, "leading_zeros", "ct", ["s:w"], (a: Limb = lb(0)) -> u32 { a.leading_zeros() });
    op!(v, "limb", 1, "trailing_zeros", "ct", ["s:w"], (a: Limb = lb(0)) -> u32 { a.trailing_zeros() });
    op!(v, "limb", 1, "trailing_ones", "ct", ["s:w"], (a: Limb = lb(0)) -> u32 { a.trailing_ones() });
    op!(v, "limb", 1, "is_odd", "ct", ["s:w"], (a: Limb = lb(0)) -> subtle::Choice { a.is_odd() });
    op!(v, "limb", 1, "is_zero", "ct", ["s:w"], (a: Limb = lb(0)) -> subtle::Choice { Zero::is_zero(a) });
    op!(v, "limb", 1, "ct_eq", "ct", ["s:w", "s:w"], (a: Limb = lb(0), b: Limb = lb(1)) -> subtle::Choice { a.ct_eq(b) });
    op!(v, "limb", 1, "ct_lt", "ct", ["s:w", "s:w"], (a: Limb = lb(0), b: Limb = lb(1)) -> subtle::Choice { a.ct_lt(b) });
    op!(v, "limb", 1, "ct_gt", "ct", ["s:w", "s:w"], (a: Limb = lb(0), b: Limb = lb(1)) -> subtle::Choice { a.ct_gt(b) });
    op!(v, "limb", 1, "cmp", "ct", ["s:w", "s:w"], (a: Limb = lb(0), b: Limb = lb(1)) -> core::cmp::Ordering { Ord::cmp(a, b) });
    op!(v, "limb", 1, "eq", "ct", ["s:w", "s:w"], (a: Limb = lb(0), b: Limb = lb(1)) -> bool { a == b });
    op!(v, "limb", 1, "conditional_select", "ct", ["s:w", "s:w", "s:c"], (a: Limb = lb(0), b: Limb = lb(1), c: subtle::Choice = ch(2)) -> Limb { Limb::conditional_select(a, b, *c) });
    op!(v, "limb", 1, "shl", "ct", ["s:w", "p:shw"], (a: Limb = lb(0), s: u32 = w32(1)) -> Limb { a.shl(*s) });
    op!(v, "limb", 1, "shr", "ct", ["s:w", "p:shw"], (a: Limb = lb(0), s: u32 = w32(1)) -> Limb { a.shr(*s) });
}
