//! C01 trace binary: monomorphic #[inline(never)] wrappers around public crypto-bigint operations.
//! This crate, crypto-bigint and subtle are compiled at opt-level 3 with the LLVM SanitizerCoverage
//! pass appended (see rustc-wrap.sh); `ctrt` (recorder, allocator, driver) is not instrumented.
//!
//! Every entry: name, class ("ct": no operand may influence the trace; "vt": documented variable-time
//! control), one descriptor `role:kind:limbs` per argument (role p = public parameter, s = secret,
//! v = the operand the `_vartime` documentation names), and `run`, which builds the typed inputs from
//! the fixed slots (unrecorded) and records exactly one call of the wrapper.
#![allow(clippy::all)]
#![allow(unused_imports, dead_code, unused_macros, unused_variables)]
use core::hint::black_box;
use crypto_bigint::*;
use ctrt::Op;

mod boxed;
mod int;
mod limb;
mod monty;
mod uint;
mod selftest;

pub fn u<const N: usize>(i: usize) -> Uint<N> {
    let s = ctrt::slot(i);
    let mut w = [0u64; N];
    w.copy_from_slice(s);
    Uint::from_words(w)
}
pub fn si<const N: usize>(i: usize) -> Int<N> {
    u::<N>(i).as_int()
}
pub fn w(i: usize) -> u64 {
    ctrt::slot(i)[0]
}
pub fn w32(i: usize) -> u32 {
    ctrt::slot(i)[0] as u32
}
pub fn lb(i: usize) -> Limb {
    Limb(w(i))
}
pub fn nzl(i: usize) -> NonZero<Limb> {
    NonZero::new(Limb(w(i))).unwrap()
}
pub fn nz<const N: usize>(i: usize) -> NonZero<Uint<N>> {
    NonZero::new(u::<N>(i)).unwrap()
}
pub fn od<const N: usize>(i: usize) -> Odd<Uint<N>> {
    Odd::new(u::<N>(i)).unwrap()
}
pub fn ch(i: usize) -> subtle::Choice {
    subtle::Choice::from((w(i) & 1) as u8)
}
pub fn cc(i: usize) -> ConstChoice {
    ConstChoice::from(ch(i))
}
pub fn bx(i: usize) -> BoxedUint {
    BoxedUint::from_words(ctrt::slot(i).iter().copied())
}
pub fn bnz(i: usize) -> NonZero<BoxedUint> {
    NonZero::new(bx(i)).unwrap()
}
pub fn bod(i: usize) -> Odd<BoxedUint> {
    Odd::new(bx(i)).unwrap()
}

/// The recording window: exactly one call.
#[inline(always)]
pub fn rec<R>(f: impl FnOnce() -> R) {
    ctrt::start();
    let r = f();
    ctrt::stop();
    black_box(r);
}

/// `gop!(v, "uint", "name", "ct", ["s:u", ..], (a: Uint<N> = u::<N>(0), ..) -> R { body })`
/// inside a function generic over `const N: usize`: wrapper parameters are references to the prepared values.
#[macro_export]
macro_rules! gop {
    ($v:ident, $pfx:expr, $name:expr, $class:literal, [$($d:expr),*],
     ($($p:ident : $t:ty = $init:expr),*) -> $r:ty $body:block) => {{
        #[inline(never)]
        fn wrapper<const N: usize>($($p: &$t),*) -> $r $body
        $v.push(Op {
            name: format!("{}{}.{}", $pfx, N, $name),
            class: $class,
            args: vec![$(format!("{}:{}", $d, N)),*],
            run: || { $(let $p: $t = $init;)* $crate::rec(|| wrapper::<N>($(black_box(&$p)),*)) },
        });
    }};
}

/// Non-generic variant; `$n` only names the entry (limb count of the descriptors).
#[macro_export]
macro_rules! op {
    ($v:ident, $pfx:expr, $n:expr, $name:expr, $class:literal, [$($d:expr),*],
     ($($p:ident : $t:ty = $init:expr),*) -> $r:ty $body:block) => {{
        #[inline(never)]
        fn wrapper($($p: &$t),*) -> $r $body
        $v.push(Op {
            name: format!("{}{}.{}", $pfx, $n, $name),
            class: $class,
            args: vec![$(format!("{}:{}", $d, $n)),*],
            run: || { $(let $p: $t = $init;)* $crate::rec(|| wrapper($(black_box(&$p)),*)) },
        });
    }};
}

fn main() {
    let mut v: Vec<Op> = Vec::new();
    selftest::reg(&mut v);
    limb::reg(&mut v);
    uint::reg(&mut v);
    int::reg(&mut v);
    boxed::reg(&mut v);
    monty::reg(&mut v);
    ctrt::driver(&v);
}
