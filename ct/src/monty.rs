//! ConstMontyForm / MontyForm / BoxedMontyForm wrappers. The modulus (hence the Montgomery parameters) is a
//! public parameter; residues and exponents are secret; `exponent_bits` of pow_bounded_exp is public.
use crate::*;
use crypto_bigint::modular::{BoxedMontyForm, BoxedMontyParams, ConstMontyForm, ConstMontyParams, MontyForm, MontyParams, SafeGcdInverter};
use subtle::CtOption;

impl_modulus!(P256, U256, "ffffffff00000001000000000000000000000000ffffffffffffffffffffffff");
impl_modulus!(P192, U192, "fffffffffffffffffffffffffffffffeffffffffffffffff");
type C4 = ConstMontyForm<P256, 4>;
type C3 = ConstMontyForm<P192, 3>;

pub fn reg(v: &mut Vec<Op>) {
    reg_const(v);
    reg_dyn::<4, 8, 6>(v);
    reg_dyn::<16, 32, 18>(v);
    reg_boxed(v, 4);
    reg_boxed(v, 17);
}

/// argument descriptor of a residue below the fixed modulus: the generator knows the constant moduli by name
fn reg_const(v: &mut Vec<Op>) {
    macro_rules! cops {
        ($pfx:literal, $n:literal, $F:ty, $lt:literal) => {{
            type F = $F;
            fn f(i: usize) -> F { F::new(&u::<$n>(i)) }
            op!(v, $pfx, $n, "new", "ct", ["s:u"], (a: Uint<$n> = u::<$n>(0)) -> F { F::new(a) });
            op!(v, $pfx, $n, "retrieve", "ct", [$lt], (a: F = f(0)) -> Uint<$n> { a.retrieve() });
            op!(v, $pfx, $n, "add", "ct", [$lt, $lt], (a: F = f(0), b: F = f(1)) -> F { a.add(b) });
            op!(v, $pfx, $n, "sub", "ct", [$lt, $lt], (a: F = f(0), b: F = f(1)) -> F { a.sub(b) });
            op!(v, $pfx, $n, "neg", "ct", [$lt], (a: F = f(0)) -> F { a.neg() });
            op!(v, $pfx, $n, "double", "ct", [$lt], (a: F = f(0)) -> F { a.double() });
            op!(v, $pfx, $n, "div_by_2", "ct", [$lt], (a: F = f(0)) -> F { a.div_by_2() });
            op!(v, $pfx, $n, "mul", "ct", [$lt, $lt], (a: F = f(0), b: F = f(1)) -> F { a.mul(b) });
            op!(v, $pfx, $n, "square", "ct", [$lt], (a: F = f(0)) -> F { a.square() });
            op!(v, $pfx, $n, "pow", "ct", [$lt, "s:u"], (a: F = f(0), e: Uint<$n> = u::<$n>(1)) -> F { a.pow(e) });
            op!(v, $pfx, $n, "pow_bounded_exp", "ct", [$lt, "s:ub2", "p:bits"], (a: F = f(0), e: Uint<$n> = u::<$n>(1), k: u32 = w32(2)) -> F { a.pow_bounded_exp(e, *k) });
            op!(v, $pfx, $n, "inv", "ct", [$lt], (a: F = f(0)) -> ConstCtOption<F> { a.inv() });
            op!(v, $pfx, $n, "invert_trait", "ct", [$lt], (a: F = f(0)) -> CtOption<F> { Invert::invert(a) });
            op!(v, $pfx, $n, "inv_vartime", "vt", ["v:u"], (a: F = f(0)) -> ConstCtOption<F> { a.inv_vartime() });
        }};
    }
    cops!("constmonty", 4, C4, "s:u");
    cops!("constmonty", 3, C3, "s:u");
}

fn reg_dyn<const N: usize, const W: usize, const U: usize>(v: &mut Vec<Op>)
where
    Uint<N>: Concat<Output = Uint<W>>,
    Uint<W>: Split<Output = Uint<N>>,
    Odd<Uint<N>>: PrecomputeInverter<Inverter = SafeGcdInverter<N, U>, Output = Uint<N>>,
{
    macro_rules! dop {
        ($name:expr, $class:literal, [$($d:expr),*], ($($p:ident : $t:ty = $init:expr),*) -> $r:ty $body:block) => {{
            #[inline(never)]
            fn wrapper<const N: usize, const W: usize, const U: usize>($($p: &$t),*) -> $r
            where
                Uint<N>: Concat<Output = Uint<W>>,
                Uint<W>: Split<Output = Uint<N>>,
                Odd<Uint<N>>: PrecomputeInverter<Inverter = SafeGcdInverter<N, U>, Output = Uint<N>>,
            $body
            v.push(Op {
                name: format!("monty{}.{}", N, $name),
                class: $class,
                args: vec![$(format!("{}:{}", $d, N)),*],
                run: || { $(let $p: $t = $init;)* rec(|| wrapper::<N, W, U>($(black_box(&$p)),*)) },
            });
        }};
    }
    // slot layout: residues first, the public modulus LAST (index given per op)
    fn pr<const N: usize, const W: usize>(i: usize) -> MontyParams<N>
    where
        Uint<N>: Concat<Output = Uint<W>>,
        Uint<W>: Split<Output = Uint<N>>,
    {
        MontyParams::new(od::<N>(i))
    }
    fn f<const N: usize, const W: usize>(i: usize, m: usize) -> MontyForm<N>
    where
        Uint<N>: Concat<Output = Uint<W>>,
        Uint<W>: Split<Output = Uint<N>>,
    {
        MontyForm::new(&u::<N>(i), pr::<N, W>(m))
    }
    dop!("new", "ct", ["s:u", "p:odd3"], (a: Uint<N> = u::<N>(0), p: MontyParams<N> = pr::<N, W>(1)) -> MontyForm<N> { MontyForm::new(a, *p) });
    dop!("retrieve", "ct", ["s:lt1", "p:odd3"], (a: MontyForm<N> = f::<N, W>(0, 1)) -> Uint<N> { a.retrieve() });
    dop!("add", "ct", ["s:lt2", "s:lt2", "p:odd3"], (a: MontyForm<N> = f::<N, W>(0, 2), b: MontyForm<N> = f::<N, W>(1, 2)) -> MontyForm<N> { a.add(b) });
    dop!("sub", "ct", ["s:lt2", "s:lt2", "p:odd3"], (a: MontyForm<N> = f::<N, W>(0, 2), b: MontyForm<N> = f::<N, W>(1, 2)) -> MontyForm<N> { a.sub(b) });
    dop!("neg", "ct", ["s:lt1", "p:odd3"], (a: MontyForm<N> = f::<N, W>(0, 1)) -> MontyForm<N> { a.neg() });
    dop!("double", "ct", ["s:lt1", "p:odd3"], (a: MontyForm<N> = f::<N, W>(0, 1)) -> MontyForm<N> { a.double() });
    dop!("div_by_2", "ct", ["s:lt1", "p:odd3"], (a: MontyForm<N> = f::<N, W>(0, 1)) -> MontyForm<N> { a.div_by_2() });
    dop!("mul", "ct", ["s:lt2", "s:lt2", "p:odd3"], (a: MontyForm<N> = f::<N, W>(0, 2), b: MontyForm<N> = f::<N, W>(1, 2)) -> MontyForm<N> { a.mul(b) });
    dop!("mul_op", "ct", ["s:lt2", "s:lt2", "p:odd3"], (a: MontyForm<N> = f::<N, W>(0, 2), b: MontyForm<N> = f::<N, W>(1, 2)) -> MontyForm<N> { a * b });
    dop!("square", "ct", ["s:lt1", "p:odd3"], (a: MontyForm<N> = f::<N, W>(0, 1)) -> MontyForm<N> { a.square() });
    dop!("pow", "ct", ["s:lt2", "s:u", "p:odd3"], (a: MontyForm<N> = f::<N, W>(0, 2), e: Uint<N> = u::<N>(1)) -> MontyForm<N> { a.pow(e) });
    dop!("pow_bounded_exp", "ct", ["s:lt3", "s:ub2", "p:bits", "p:odd3"], (a: MontyForm<N> = f::<N, W>(0, 3), e: Uint<N> = u::<N>(1), k: u32 = w32(2)) -> MontyForm<N> { a.pow_bounded_exp(e, *k) });
    dop!("inv", "ct", ["s:lt1", "p:odd3"], (a: MontyForm<N> = f::<N, W>(0, 1)) -> ConstCtOption<MontyForm<N>> { a.inv() });
    dop!("invert_trait", "ct", ["s:lt1", "p:odd3"], (a: MontyForm<N> = f::<N, W>(0, 1)) -> CtOption<MontyForm<N>> { Invert::invert(a) });
    dop!("inv_vartime", "vt", ["v:lt1", "p:odd3"], (a: MontyForm<N> = f::<N, W>(0, 1)) -> ConstCtOption<MontyForm<N>> { a.inv_vartime() });
    dop!("params_new_vartime", "vt", ["v:odd3"], (m: Odd<Uint<N>> = od::<N>(0)) -> MontyParams<N> { MontyParams::new_vartime(*m) });
}

fn reg_boxed(v: &mut Vec<Op>, n: usize) {
    type F = BoxedMontyForm;
    fn pr(i: usize) -> BoxedMontyParams { BoxedMontyParams::new(bod(i)) }
    fn f(i: usize, m: usize) -> F { F::new(bx(i), pr(m)) }
    op!(v, "boxedmonty", n, "new", "ct", ["s:u", "p:odd3"], (a: BoxedUint = bx(0), p: BoxedMontyParams = pr(1)) -> F { F::new(a.clone(), p.clone()) });
    op!(v, "boxedmonty", n, "retrieve", "ct", ["s:lt1", "p:odd3"], (a: F = f(0, 1)) -> BoxedUint { a.retrieve() });
    op!(v, "boxedmonty", n, "add", "ct", ["s:lt2", "s:lt2", "p:odd3"], (a: F = f(0, 2), b: F = f(1, 2)) -> F { a.add(b) });
    op!(v, "boxedmonty", n, "sub", "ct", ["s:lt2", "s:lt2", "p:odd3"], (a: F = f(0, 2), b: F = f(1, 2)) -> F { a.sub(b) });
    op!(v, "boxedmonty", n, "neg", "ct", ["s:lt1", "p:odd3"], (a: F = f(0, 1)) -> F { a.neg() });
    op!(v, "boxedmonty", n, "double", "ct", ["s:lt1", "p:odd3"], (a: F = f(0, 1)) -> F { a.double() });
    op!(v, "boxedmonty", n, "div_by_2", "ct", ["s:lt1", "p:odd3"], (a: F = f(0, 1)) -> F { a.div_by_2() });
    op!(v, "boxedmonty", n, "mul", "ct", ["s:lt2", "s:lt2", "p:odd3"], (a: F = f(0, 2), b: F = f(1, 2)) -> F { a.mul(b) });
    op!(v, "boxedmonty", n, "square", "ct", ["s:lt1", "p:odd3"], (a: F = f(0, 1)) -> F { a.square() });
    op!(v, "boxedmonty", n, "pow", "ct", ["s:lt2", "s:u", "p:odd3"], (a: F = f(0, 2), e: BoxedUint = bx(1)) -> F { a.pow(e) });
    op!(v, "boxedmonty", n, "pow_bounded_exp", "ct", ["s:lt3", "s:ub2", "p:bits", "p:odd3"], (a: F = f(0, 3), e: BoxedUint = bx(1), k: u32 = w32(2)) -> F { a.pow_bounded_exp(e, *k) });
    op!(v, "boxedmonty", n, "invert", "ct", ["s:lt1", "p:odd3"], (a: F = f(0, 1)) -> CtOption<F> { a.invert() });
    op!(v, "boxedmonty", n, "invert_vartime", "vt", ["v:lt1", "p:odd3"], (a: F = f(0, 1)) -> CtOption<F> { a.invert_vartime() });
    op!(v, "boxedmonty", n, "params_new", "ct", ["s:odd3"], (m: Odd<BoxedUint> = bod(0)) -> BoxedMontyParams { BoxedMontyParams::new(m.clone()) });
    op!(v, "boxedmonty", n, "params_new_vartime", "vt", ["v:odd3"], (m: Odd<BoxedUint> = bod(0)) -> BoxedMontyParams { BoxedMontyParams::new_vartime(m.clone()) });
}
