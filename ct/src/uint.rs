//! Uint<N> wrappers (N = 1, 3, 4, 16; widening / inversion families at the sizes that implement them).
use crate::*;
use crypto_bigint::modular::SafeGcdInverter;
use subtle::{ConditionallySelectable, ConstantTimeEq, ConstantTimeGreater, ConstantTimeLess, CtOption};

pub fn reg(v: &mut Vec<Op>) {
    reg_n::<1>(v);
    reg_n::<3>(v);
    reg_n::<4>(v);
    reg_n::<16>(v);
    reg_wide::<4, 8>(v);
    reg_wide::<16, 32>(v);
    reg_inv::<3, 5>(v);
    reg_inv::<4, 6>(v);
    reg_inv::<16, 18>(v);
    reg_enc(v);
}

fn reg_n<const N: usize>(v: &mut Vec<Op>) {
    // ---- add / sub / neg
    gop!(v, "uint", "adc", "ct", ["s:u", "s:u", "s:w"], (a: Uint<N> = u::<N>(0), b: Uint<N> = u::<N>(1), c: Limb = lb(2)) -> (Uint<N>, Limb) { a.adc(b, *c) });
    gop!(v, "uint", "sbb", "ct", ["s:u", "s:u", "s:w"], (a: Uint<N> = u::<N>(0), b: Uint<N> = u::<N>(1), c: Limb = lb(2)) -> (Uint<N>, Limb) { a.sbb(b, *c) });
    gop!(v, "uint", "wrapping_add", "ct", ["s:u", "s:u"], (a: Uint<N> = u::<N>(0), b: Uint<N> = u::<N>(1)) -> Uint<N> { a.wrapping_add(b) });
    gop!(v, "uint", "wrapping_sub", "ct", ["s:u", "s:u"], (a: Uint<N> = u::<N>(0), b: Uint<N> = u::<N>(1)) -> Uint<N> { a.wrapping_sub(b) });
    gop!(v, "uint", "saturating_add", "ct", ["s:u", "s:u"], (a: Uint<N> = u::<N>(0), b: Uint<N> = u::<N>(1)) -> Uint<N> { a.saturating_add(b) });
    gop!(v, "uint", "saturating_sub", "ct", ["s:u", "s:u"], (a: Uint<N> = u::<N>(0), b: Uint<N> = u::<N>(1)) -> Uint<N> { a.saturating_sub(b) });
    gop!(v, "uint", "checked_add", "ct", ["s:u", "s:u"], (a: Uint<N> = u::<N>(0), b: Uint<N> = u::<N>(1)) -> CtOption<Uint<N>> { CheckedAdd::checked_add(a, b) });
    gop!(v, "uint", "checked_sub", "ct", ["s:u", "s:u"], (a: Uint<N> = u::<N>(0), b: Uint<N> = u::<N>(1)) -> CtOption<Uint<N>> { CheckedSub::checked_sub(a, b) });
    gop!(v, "uint", "wrapping_neg", "ct", ["s:u"], (a: Uint<N> = u::<N>(0)) -> Uint<N> { a.wrapping_neg() });
    gop!(v, "uint", "carrying_neg", "ct", ["s:u"], (a: Uint<N> = u::<N>(0)) -> (Uint<N>, ConstChoice) { a.carrying_neg() });
    gop!(v, "uint", "wrapping_neg_if", "ct", ["s:u", "s:c"], (a: Uint<N> = u::<N>(0), c: ConstChoice = cc(1)) -> Uint<N> { a.wrapping_neg_if(*c) });
    // ---- mul
    gop!(v, "uint", "split_mul", "ct", ["s:u", "s:u"], (a: Uint<N> = u::<N>(0), b: Uint<N> = u::<N>(1)) -> (Uint<N>, Uint<N>) { a.split_mul(b) });
    gop!(v, "uint", "wrapping_mul", "ct", ["s:u", "s:u"], (a: Uint<N> = u::<N>(0), b: Uint<N> = u::<N>(1)) -> Uint<N> { a.wrapping_mul(b) });
    gop!(v, "uint", "saturating_mul", "ct", ["s:u", "s:u"], (a: Uint<N> = u::<N>(0), b: Uint<N> = u::<N>(1)) -> Uint<N> { a.saturating_mul(b) });
    gop!(v, "uint", "checked_mul", "ct", ["s:u", "s:u"], (a: Uint<N> = u::<N>(0), b: Uint<N> = u::<N>(1)) -> CtOption<Uint<N>> { CheckedMul::checked_mul(a, b) });
    gop!(v, "uint", "square_wide", "ct", ["s:u"], (a: Uint<N> = u::<N>(0)) -> (Uint<N>, Uint<N>) { a.square_wide() });
    gop!(v, "uint", "wrapping_square", "ct", ["s:u"], (a: Uint<N> = u::<N>(0)) -> Uint<N> { a.wrapping_square() });
    gop!(v, "uint", "checked_square", "ct", ["s:u"], (a: Uint<N> = u::<N>(0)) -> ConstCtOption<Uint<N>> { a.checked_square() });
    gop!(v, "uint", "saturating_square", "ct", ["s:u"], (a: Uint<N> = u::<N>(0)) -> Uint<N> { a.saturating_square() });
    // ---- comparison / selection
    gop!(v, "uint", "ct_eq", "ct", ["s:u", "s:u"], (a: Uint<N> = u::<N>(0), b: Uint<N> = u::<N>(1)) -> subtle::Choice { a.ct_eq(b) });
    gop!(v, "uint", "ct_lt", "ct", ["s:u", "s:u"], (a: Uint<N> = u::<N>(0), b: Uint<N> = u::<N>(1)) -> subtle::Choice { a.ct_lt(b) });
    gop!(v, "uint", "ct_gt", "ct", ["s:u", "s:u"], (a: Uint<N> = u::<N>(0), b: Uint<N> = u::<N>(1)) -> subtle::Choice { a.ct_gt(b) });
    gop!(v, "uint", "cmp", "ct", ["s:u", "s:u"], (a: Uint<N> = u::<N>(0), b: Uint<N> = u::<N>(1)) -> core::cmp::Ordering { Ord::cmp(a, b) });
    gop!(v, "uint", "eq", "ct", ["s:u", "s:u"], (a: Uint<N> = u::<N>(0), b: Uint<N> = u::<N>(1)) -> bool { a == b });
    gop!(v, "uint", "is_zero", "ct", ["s:u"], (a: Uint<N> = u::<N>(0)) -> subtle::Choice { Zero::is_zero(a) });
    gop!(v, "uint", "is_odd", "ct", ["s:u"], (a: Uint<N> = u::<N>(0)) -> subtle::Choice { a.is_odd() });
    gop!(v, "uint", "to_nz", "ct", ["s:u"], (a: Uint<N> = u::<N>(0)) -> ConstCtOption<NonZero<Uint<N>>> { a.to_nz() });
    gop!(v, "uint", "to_odd", "ct", ["s:u"], (a: Uint<N> = u::<N>(0)) -> ConstCtOption<Odd<Uint<N>>> { a.to_odd() });
    gop!(v, "uint", "nonzero_new", "ct", ["s:u"], (a: Uint<N> = u::<N>(0)) -> CtOption<NonZero<Uint<N>>> { NonZero::new(*a) });
    gop!(v, "uint", "odd_new", "ct", ["s:u"], (a: Uint<N> = u::<N>(0)) -> CtOption<Odd<Uint<N>>> { Odd::new(*a) });
    gop!(v, "uint", "conditional_select", "ct", ["s:u", "s:u", "s:c"], (a: Uint<N> = u::<N>(0), b: Uint<N> = u::<N>(1), c: subtle::Choice = ch(2)) -> Uint<N> { Uint::conditional_select(a, b, *c) });
    gop!(v, "uint", "conditional_swap", "ct", ["s:u", "s:u", "s:c"], (a: Uint<N> = u::<N>(0), b: Uint<N> = u::<N>(1), c: subtle::Choice = ch(2)) -> (Uint<N>, Uint<N>) { let (mut x, mut y) = (*a, *b); Uint::conditional_swap(&mut x, &mut y, *c); (x, y) });
    gop!(v, "uint", "not", "ct", ["s:u"], (a: Uint<N> = u::<N>(0)) -> Uint<N> { a.not() });
    gop!(v, "uint", "bitand", "ct", ["s:u", "s:u"], (a: Uint<N> = u::<N>(0), b: Uint<N> = u::<N>(1)) -> Uint<N> { a.bitand(b) });
    gop!(v, "uint", "bitxor", "ct", ["s:u", "s:u"], (a: Uint<N> = u::<N>(0), b: Uint<N> = u::<N>(1)) -> Uint<N> { a.bitxor(b) });
    // ---- bit queries
    gop!(v, "uint", "bit", "ct", ["s:u", "s:shx"], (a: Uint<N> = u::<N>(0), i: u32 = w32(1)) -> ConstChoice { a.bit(*i) });
    gop!(v, "uint", "bits", "ct", ["s:u"], (a: Uint<N> = u::<N>(0)) -> u32 { a.bits() });
    gop!(v, "uint", "leading_zeros", "ct", ["s:u"], (a: Uint<N> = u::<N>(0)) -> u32 { a.leading_zeros() });
    gop!(v, "uint", "trailing_zeros", "ct", ["s:u"], (a: Uint<N> = u::<N>(0)) -> u32 { a.trailing_zeros() });
    gop!(v, "uint", "trailing_ones", "ct", ["s:u"], (a: Uint<N> = u::<N>(0)) -> u32 { a.trailing_ones() });
    // ---- shifts by a secret amount
    gop!(v, "uint", "shl", "ct", ["s:u", "s:sh"], (a: Uint<N> = u::<N>(0), s: u32 = w32(1)) -> Uint<N> { a.shl(*s) });
    gop!(v, "uint", "shr", "ct", ["s:u", "s:sh"], (a: Uint<N> = u::<N>(0), s: u32 = w32(1)) -> Uint<N> { a.shr(*s) });
    gop!(v, "uint", "overflowing_shl", "ct", ["s:u", "s:shx"], (a: Uint<N> = u::<N>(0), s: u32 = w32(1)) -> ConstCtOption<Uint<N>> { a.overflowing_shl(*s) });
    gop!(v, "uint", "overflowing_shr", "ct", ["s:u", "s:shx"], (a: Uint<N> = u::<N>(0), s: u32 = w32(1)) -> ConstCtOption<Uint<N>> { a.overflowing_shr(*s) });
    gop!(v, "uint", "wrapping_shl", "ct", ["s:u", "s:shx"], (a: Uint<N> = u::<N>(0), s: u32 = w32(1)) -> Uint<N> { a.wrapping_shl(*s) });
    gop!(v, "uint", "wrapping_shr", "ct", ["s:u", "s:shx"], (a: Uint<N> = u::<N>(0), s: u32 = w32(1)) -> Uint<N> { a.wrapping_shr(*s) });
    gop!(v, "uint", "shl_op", "ct", ["s:u", "s:sh"], (a: Uint<N> = u::<N>(0), s: u32 = w32(1)) -> Uint<N> { a << *s });
    gop!(v, "uint", "shr_op", "ct", ["s:u", "s:sh"], (a: Uint<N> = u::<N>(0), s: u32 = w32(1)) -> Uint<N> { a >> *s });
    // ---- division
    gop!(v, "uint", "div_rem", "ct", ["s:u", "s:nz"], (a: Uint<N> = u::<N>(0), b: NonZero<Uint<N>> = nz::<N>(1)) -> (Uint<N>, Uint<N>) { a.div_rem(b) });
    gop!(v, "uint", "rem", "ct", ["s:u", "s:nz"], (a: Uint<N> = u::<N>(0), b: NonZero<Uint<N>> = nz::<N>(1)) -> Uint<N> { a.rem(b) });
    gop!(v, "uint", "wrapping_div", "ct", ["s:u", "s:nz"], (a: Uint<N> = u::<N>(0), b: NonZero<Uint<N>> = nz::<N>(1)) -> Uint<N> { a.wrapping_div(b) });
    gop!(v, "uint", "div_op", "ct", ["s:u", "s:nz"], (a: Uint<N> = u::<N>(0), b: NonZero<Uint<N>> = nz::<N>(1)) -> Uint<N> { a / b });
    gop!(v, "uint", "rem_op", "ct", ["s:u", "s:nz"], (a: Uint<N> = u::<N>(0), b: NonZero<Uint<N>> = nz::<N>(1)) -> Uint<N> { a % b });
    gop!(v, "uint", "checked_div", "ct", ["s:u", "s:u"], (a: Uint<N> = u::<N>(0), b: Uint<N> = u::<N>(1)) -> CtOption<Uint<N>> { a.checked_div(b) });
    gop!(v, "uint", "checked_rem", "ct", ["s:u", "s:u"], (a: Uint<N> = u::<N>(0), b: Uint<N> = u::<N>(1)) -> CtOption<Uint<N>> { a.checked_rem(b) });
    gop!(v, "uint", "div_rem_limb", "ct", ["s:u", "s:nzw"], (a: Uint<N> = u::<N>(0), b: NonZero<Limb> = nzl(1)) -> (Uint<N>, Limb) { a.div_rem_limb(*b) });
    gop!(v, "uint", "rem_limb", "ct", ["s:u", "s:nzw"], (a: Uint<N> = u::<N>(0), b: NonZero<Limb> = nzl(1)) -> Limb { a.rem_limb(*b) });
    gop!(v, "uint", "div_rem_limb_with_reciprocal", "ct", ["s:u", "s:nzw"], (a: Uint<N> = u::<N>(0), r: Reciprocal = Reciprocal::new(nzl(1))) -> (Uint<N>, Limb) { a.div_rem_limb_with_reciprocal(r) });
    gop!(v, "uint", "reciprocal_new", "ct", ["s:nzw"], (b: NonZero<Limb> = nzl(0)) -> Reciprocal { Reciprocal::new(*b) });
    // ---- modular arithmetic with a secret modulus (not marked vartime)
    gop!(v, "uint", "add_mod", "ct", ["s:lt2", "s:lt2", "s:nz"], (a: Uint<N> = u::<N>(0), b: Uint<N> = u::<N>(1), p: Uint<N> = u::<N>(2)) -> Uint<N> { a.add_mod(b, p) });
    gop!(v, "uint", "sub_mod", "ct", ["s:lt2", "s:lt2", "s:nz"], (a: Uint<N> = u::<N>(0), b: Uint<N> = u::<N>(1), p: Uint<N> = u::<N>(2)) -> Uint<N> { a.sub_mod(b, p) });
    gop!(v, "uint", "neg_mod", "ct", ["s:lt1", "s:nz"], (a: Uint<N> = u::<N>(0), p: Uint<N> = u::<N>(1)) -> Uint<N> { a.neg_mod(p) });
    gop!(v, "uint", "double_mod", "ct", ["s:lt1", "s:nz"], (a: Uint<N> = u::<N>(0), p: Uint<N> = u::<N>(1)) -> Uint<N> { a.double_mod(p) });
    gop!(v, "uint", "add_mod_special", "ct", ["s:ltc2", "s:ltc2", "p:cw"], (a: Uint<N> = u::<N>(0), b: Uint<N> = u::<N>(1), c: Limb = lb(2)) -> Uint<N> { a.add_mod_special(b, *c) });
    gop!(v, "uint", "sub_mod_special", "ct", ["s:ltc2", "s:ltc2", "p:cw"], (a: Uint<N> = u::<N>(0), b: Uint<N> = u::<N>(1), c: Limb = lb(2)) -> Uint<N> { a.sub_mod_special(b, *c) });
    gop!(v, "uint", "neg_mod_special", "ct", ["s:ltc1", "p:cw"], (a: Uint<N> = u::<N>(0), c: Limb = lb(1)) -> Uint<N> { a.neg_mod_special(*c) });
    gop!(v, "uint", "mul_mod_special", "ct", ["s:ltc2", "s:ltc2", "p:cw"], (a: Uint<N> = u::<N>(0), b: Uint<N> = u::<N>(1), c: Limb = lb(2)) -> Uint<N> { a.mul_mod_special(b, *c) });
    // ---- inversion mod 2^k (k secret in the constant-time form), square root
    gop!(v, "uint", "inv_mod2k", "ct", ["s:u", "s:k"], (a: Uint<N> = u::<N>(0), k: u32 = w32(1)) -> ConstCtOption<Uint<N>> { a.inv_mod2k(*k) });
    gop!(v, "uint", "sqrt", "ct", ["s:u"], (a: Uint<N> = u::<N>(0)) -> Uint<N> { a.sqrt() });
    gop!(v, "uint", "checked_sqrt", "ct", ["s:u"], (a: Uint<N> = u::<N>(0)) -> CtOption<Uint<N>> { a.checked_sqrt() });
    // ---- documented variable-time controls: v = the operand the documentation names
    gop!(v, "uint", "shl_vartime", "vt", ["s:u", "v:sh"], (a: Uint<N> = u::<N>(0), s: u32 = w32(1)) -> Uint<N> { a.shl_vartime(*s) });
    gop!(v, "uint", "shr_vartime", "vt", ["s:u", "v:sh"], (a: Uint<N> = u::<N>(0), s: u32 = w32(1)) -> Uint<N> { a.shr_vartime(*s) });
    gop!(v, "uint", "overflowing_shl_vartime", "vt", ["s:u", "v:shx"], (a: Uint<N> = u::<N>(0), s: u32 = w32(1)) -> ConstCtOption<Uint<N>> { a.overflowing_shl_vartime(*s) });
    gop!(v, "uint", "wrapping_shr_vartime", "vt", ["s:u", "v:shx"], (a: Uint<N> = u::<N>(0), s: u32 = w32(1)) -> Uint<N> { a.wrapping_shr_vartime(*s) });
    gop!(v, "uint", "bit_vartime", "vt", ["s:u", "v:shx"], (a: Uint<N> = u::<N>(0), i: u32 = w32(1)) -> bool { a.bit_vartime(*i) });
    gop!(v, "uint", "bits_vartime", "vt", ["v:u"], (a: Uint<N> = u::<N>(0)) -> u32 { a.bits_vartime() });
    gop!(v, "uint", "trailing_zeros_vartime", "vt", ["v:u"], (a: Uint<N> = u::<N>(0)) -> u32 { a.trailing_zeros_vartime() });
    gop!(v, "uint", "trailing_ones_vartime", "vt", ["v:u"], (a: Uint<N> = u::<N>(0)) -> u32 { a.trailing_ones_vartime() });
    gop!(v, "uint", "cmp_vartime", "vt", ["v:u", "v:u"], (a: Uint<N> = u::<N>(0), b: Uint<N> = u::<N>(1)) -> core::cmp::Ordering { a.cmp_vartime(b) });
    gop!(v, "uint", "div_rem_vartime", "vt", ["s:u", "v:nz"], (a: Uint<N> = u::<N>(0), b: NonZero<Uint<N>> = nz::<N>(1)) -> (Uint<N>, Uint<N>) { a.div_rem_vartime(b) });
    gop!(v, "uint", "rem_vartime", "vt", ["s:u", "v:nz"], (a: Uint<N> = u::<N>(0), b: NonZero<Uint<N>> = nz::<N>(1)) -> Uint<N> { a.rem_vartime(b) });
    gop!(v, "uint", "rem_wide_vartime", "vt", ["s:u", "s:u", "v:nz"], (a: Uint<N> = u::<N>(0), b: Uint<N> = u::<N>(1), m: NonZero<Uint<N>> = nz::<N>(2)) -> Uint<N> { Uint::rem_wide_vartime((*a, *b), m) });
    gop!(v, "uint", "rem2k_vartime", "vt", ["s:u", "v:shx"], (a: Uint<N> = u::<N>(0), k: u32 = w32(1)) -> Uint<N> { a.rem2k_vartime(*k) });
    gop!(v, "uint", "mul_mod_vartime", "vt", ["s:u", "s:u", "v:nz"], (a: Uint<N> = u::<N>(0), b: Uint<N> = u::<N>(1), m: NonZero<Uint<N>> = nz::<N>(2)) -> Uint<N> { a.mul_mod_vartime(b, m) });
    gop!(v, "uint", "inv_mod2k_vartime", "vt", ["s:u", "v:k"], (a: Uint<N> = u::<N>(0), k: u32 = w32(1)) -> ConstCtOption<Uint<N>> { a.inv_mod2k_vartime(*k) });
    gop!(v, "uint", "sqrt_vartime", "vt", ["v:u"], (a: Uint<N> = u::<N>(0)) -> Uint<N> { a.sqrt_vartime() });
}

/// Families that need the double-width type.
fn reg_wide<const N: usize, const W: usize>(v: &mut Vec<Op>)
where
    Uint<N>: Concat<Output = Uint<W>>,
    Uint<W>: Split<Output = Uint<N>>,
{
    #[inline(never)]
    fn w_mul_mod<const N: usize, const W: usize>(a: &Uint<N>, b: &Uint<N>, p: &NonZero<Uint<N>>) -> Uint<N>
    where
        Uint<N>: Concat<Output = Uint<W>>,
        Uint<W>: Split<Output = Uint<N>>,
    {
        a.mul_mod(b, p)
    }
    v.push(Op {
        name: format!("uint{}.mul_mod", N),
        class: "ct",
        args: vec![format!("s:lt2:{}", N), format!("s:lt2:{}", N), format!("p:odd:{}", N)],
        run: || {
            let (a, b, p) = (u::<N>(0), u::<N>(1), nz::<N>(2));
            rec(|| w_mul_mod::<N, W>(black_box(&a), black_box(&b), black_box(&p)))
        },
    });
    #[inline(never)]
    fn w_params_new<const N: usize, const W: usize>(m: &Odd<Uint<N>>) -> modular::MontyParams<N>
    where
        Uint<N>: Concat<Output = Uint<W>>,
        Uint<W>: Split<Output = Uint<N>>,
    {
        modular::MontyParams::new(*m)
    }
    v.push(Op {
        name: format!("uint{}.monty_params_new", N),
        class: "ct",
        args: vec![format!("s:odd:{}", N)],
        run: || {
            let m = od::<N>(0);
            rec(|| w_params_new::<N, W>(black_box(&m)))
        },
    });
    #[inline(never)]
    fn w_widening_mul<const N: usize, const W: usize>(a: &Uint<N>, b: &Uint<N>) -> Uint<W>
    where
        Uint<N>: Concat<Output = Uint<W>>,
        Uint<W>: Split<Output = Uint<N>>,
    {
        a.widening_mul(b)
    }
    v.push(Op {
        name: format!("uint{}.widening_mul", N),
        class: "ct",
        args: vec![format!("s:u:{}", N), format!("s:u:{}", N)],
        run: || {
            let (a, b) = (u::<N>(0), u::<N>(1));
            rec(|| w_widening_mul::<N, W>(black_box(&a), black_box(&b)))
        },
    });
}

/// Families behind the safegcd inverter (sizes with a `PrecomputeInverter` impl).
fn reg_inv<const N: usize, const U: usize>(v: &mut Vec<Op>)
where
    Odd<Uint<N>>: PrecomputeInverter<Inverter = SafeGcdInverter<N, U>>,
{
    macro_rules! iop {
        ($name:expr, $class:literal, [$($d:expr),*], ($($p:ident : $t:ty = $init:expr),*) -> $r:ty $body:block) => {{
            #[inline(never)]
            fn wrapper<const N: usize, const U: usize>($($p: &$t),*) -> $r
            where Odd<Uint<N>>: PrecomputeInverter<Inverter = SafeGcdInverter<N, U>> $body
            v.push(Op {
                name: format!("uint{}.{}", N, $name),
                class: $class,
                args: vec![$(format!("{}:{}", $d, N)),*],
                run: || { $(let $p: $t = $init;)* rec(|| wrapper::<N, U>($(black_box(&$p)),*)) },
            });
        }};
    }
    iop!("inv_odd_mod", "ct", ["s:u", "p:odd"], (a: Uint<N> = u::<N>(0), m: Odd<Uint<N>> = od::<N>(1)) -> ConstCtOption<Uint<N>> { a.inv_odd_mod(m) });
    iop!("inv_odd_mod_secret_modulus", "ct", ["s:u", "s:odd"], (a: Uint<N> = u::<N>(0), m: Odd<Uint<N>> = od::<N>(1)) -> ConstCtOption<Uint<N>> { a.inv_odd_mod(m) });
    iop!("inv_mod", "ct", ["s:u", "p:nz"], (a: Uint<N> = u::<N>(0), m: Uint<N> = u::<N>(1)) -> ConstCtOption<Uint<N>> { a.inv_mod(m) });
    iop!("gcd", "ct", ["s:u", "s:u"], (a: Uint<N> = u::<N>(0), b: Uint<N> = u::<N>(1)) -> Uint<N> { a.gcd(b) });
    iop!("inverter_invert", "ct", ["s:u", "p:odd"], (a: Uint<N> = u::<N>(0), i: SafeGcdInverter<N, U> = od::<N>(1).precompute_inverter()) -> CtOption<Uint<N>> { i.invert(a) });
    iop!("inverter_invert_vartime", "vt", ["v:u", "p:odd"], (a: Uint<N> = u::<N>(0), i: SafeGcdInverter<N, U> = od::<N>(1).precompute_inverter()) -> CtOption<Uint<N>> { i.invert_vartime(a) });
    iop!("gcd_vartime", "vt", ["p:odd", "v:u"], (a: Odd<Uint<N>> = od::<N>(0), b: Uint<N> = u::<N>(1)) -> Uint<N> { a.gcd_vartime(b) });
}

/// 64 hex digits of slot `i` in ONE allocation of fixed size (the allocation pattern must not depend on the value)
fn hex64(i: usize) -> String {
    let mut h = String::with_capacity(64);
    for w in ctrt::slot(i).iter().rev() {
        for k in (0..16).rev() {
            h.push(char::from_digit(((w >> (4 * k)) & 15) as u32, 16).unwrap());
        }
    }
    h
}

fn reg_enc(v: &mut Vec<Op>) {
    op!(v, "uint", 4, "to_be_bytes", "ct", ["s:u"], (a: U256 = u::<4>(0)) -> [u8; 32] { Encoding::to_be_bytes(a) });
    op!(v, "uint", 4, "to_le_bytes", "ct", ["s:u"], (a: U256 = u::<4>(0)) -> [u8; 32] { Encoding::to_le_bytes(a) });
    op!(v, "uint", 4, "from_be_slice", "ct", ["s:u"], (a: [u8; 32] = Encoding::to_be_bytes(&u::<4>(0))) -> U256 { U256::from_be_slice(a) });
    op!(v, "uint", 4, "from_be_hex", "ct", ["s:u"], (h: String = hex64(0)) -> U256 { U256::from_be_hex(h.as_str()) });
    op!(v, "uint", 4, "from_le_hex", "ct", ["s:u"], (h: String = hex64(0)) -> U256 { U256::from_le_hex(h.as_str()) });
    op!(v, "uint", 4, "from_le_slice", "ct", ["s:u"], (a: [u8; 32] = Encoding::to_le_bytes(&u::<4>(0))) -> U256 { U256::from_le_slice(a) });
}
