#!/bin/sh
# RUSTC_WRAPPER for the C01 trace binary: cargo calls `rustc-wrap.sh <rustc> <args...>`.
# The crates under observation (crypto-bigint, subtle, the wrappers) get the LLVM SanitizerCoverage
# module pass appended to the -O3 pipeline; the recorder crate `ctrt` and everything else do not.
rustc="$1"; shift
name=""
prev=""
for a in "$@"; do
  if [ "$prev" = "--crate-name" ]; then name="$a"; fi
  prev="$a"
done
case "$name" in
  crypto_bigint|subtle|cbct)
    exec "$rustc" "$@" --cfg crypto_bigint_verif \
      -C passes=sancov-module \
      -C llvm-args=-sanitizer-coverage-level=3 \
      -C llvm-args=-sanitizer-coverage-trace-pc-guard \
      -C llvm-args=-sanitizer-coverage-trace-divs \
      -C llvm-args=-sanitizer-coverage-trace-geps \
      -C llvm-args=-sanitizer-coverage-trace-loads \
      -C llvm-args=-sanitizer-coverage-trace-stores
    ;;
  *)
    exec "$rustc" "$@"
    ;;
esac
