#!/usr/bin/env python3
"""scan_producers.py -- list, from the CURRENT crate source, every way the safe public API can hand out (or modify) a
`NonZero<..>` / `Odd<..>` value.  This is the tie for the quantifier "forall ways of producing NonZero<T> / Odd<T>" of
property C12: tools/vlib/c12.py compares this list with the committed producer table (tools/vlib/c12.py::PRODUCERS) and
fails the check when the source contains a producer the model does not know.

What is listed (test modules `#[cfg(test)] mod .. { }` are skipped, comments and string literals are blanked first):
  fn      every `fn` that is public API -- `pub fn` (not `pub(crate)` / `pub(super)`), a method of a trait impl, or a
          method declared in a `pub trait` -- whose RETURN TYPE mentions `NonZero` / `Odd`, or mentions `Self` while the
          Self type of the enclosing impl mentions `NonZero` / `Odd`;
  const   every `pub const` / trait-impl `const` / `pub static` whose type satisfies the same test;
  field   every `pub` field of a `pub struct` whose type mentions the wrappers;
  mut     every public / trait-impl method taking `&mut self` inside an `impl .. for NonZero<..> / Odd<..>` (or an
          inherent impl of them): a mutator can break the invariant of an existing value;
  derive  every derived trait on the struct definitions of `NonZero` and `Odd` that can create a value
          (Default, Clone, Copy; the other derives only read);
  macro   every exported `macro_rules!` whose body mentions the wrappers (macro-generated items), one entry per macro
          and wrapper-producing path called in its body;
  raw     every function (public or not) whose body builds a wrapper with the tuple constructor `NonZero(..)` /
          `Odd(..)` / `Self(..)` -- reported separately (`raw_sites`): they are the places where the invariant is
          established without a check, the model table names the public producer that reaches each of them.

Identity of an entry (stable across line moves): `<file>::<impl header or ->::<item name>`, e.g.
  src/odd.rs::impl<T> Odd<T>::new          src/non_zero.rs::impl<T> Default for NonZero<T>::default
Usage: scan_producers.py [--json] [--repo DIR]       (DIR defaults to $VERIF_REPO or /repo)"""
import json, os, re, sys

WRAP_RE = re.compile(r'\b(NonZero|Odd)\b')


def repo_dir():
    return os.environ.get('VERIF_REPO') or '/repo'


def blank_comments_and_strings(s):
    """Replace comments, string and char literals by spaces (newlines kept) so that braces inside them do not count."""
    out = []
    i, n = 0, len(s)
    while i < n:
        c = s[i]
        if s.startswith('//', i):
            j = s.find('\n', i)
            j = n if j < 0 else j
            out.append(' ' * (j - i)); i = j
        elif s.startswith('/*', i):
            depth, j = 1, i + 2
            while j < n and depth:
                if s.startswith('/*', j): depth += 1; j += 2
                elif s.startswith('*/', j): depth -= 1; j += 2
                else: j += 1
            out.append(''.join(ch if ch == '\n' else ' ' for ch in s[i:j])); i = j
        elif c == '"' or (c == 'r' and re.match(r'r#*"', s[i:i + 8]) and (i == 0 or not (s[i - 1].isalnum() or s[i - 1] == '_'))) \
                or (c == 'b' and i + 1 < n and s[i + 1] == '"' and (i == 0 or not (s[i - 1].isalnum() or s[i - 1] == '_'))):
            if c == 'b':
                out.append(' '); i += 1; c = '"'
            if c == 'r':
                m = re.match(r'r(#*)"', s[i:])
                close = '"' + m.group(1)
                j = s.find(close, i + len(m.group(0)))
                j = n if j < 0 else j + len(close)
            else:
                j = i + 1
                while j < n and s[j] != '"':
                    j += 2 if s[j] == '\\' else 1
                j = min(n, j + 1)
            out.append('"' + ''.join(ch if ch == '\n' else ' ' for ch in s[i + 1:j - 1]) + '"' if j - i >= 2 else ' ' * (j - i))
            i = j
        elif c == "'":
            # char literal or lifetime
            m = re.match(r"'(\\.[^']*|[^'\\])'", s[i:])
            if m:
                out.append(' ' * len(m.group(0))); i += len(m.group(0))
            else:
                out.append(c); i += 1
        else:
            out.append(c); i += 1
    return ''.join(out)


def norm(s):
    s = re.sub(r'#\s*\[[^\]]*\]', ' ', s)           # attributes
    s = re.sub(r'\s+', ' ', s).strip()
    return s


class Item:
    def __init__(self, kind, file, line, ctx, name, sig, why):
        self.kind, self.file, self.line, self.ctx, self.name, self.sig, self.why = kind, file, line, ctx, name, sig, why

    @property
    def ident(self):
        return '%s::%s::%s' % (self.file, self.ctx or '-', self.name)

    def to_json(self):
        return {'id': self.ident, 'kind': self.kind, 'file': self.file, 'line': self.line, 'context': self.ctx,
                'name': self.name, 'signature': self.sig, 'why': self.why}


def split_header_where(h):
    return re.split(r'\bwhere\b', h, 1)[0].strip()


def impl_self_type(header):
    """`impl<..> Trait for Type where ..` -> (trait or None, Type)."""
    h = split_header_where(header)
    h = re.sub(r'^(unsafe\s+)?impl\b', '', h).strip()
    if h.startswith('<'):
        depth = 0
        for k, ch in enumerate(h):
            if ch == '<': depth += 1
            elif ch == '>':
                depth -= 1
                if depth == 0:
                    h = h[k + 1:].strip(); break
    m = re.search(r'\bfor\b', h)
    # `for<'a>` HRTB does not occur in impl headers of this crate
    if m:
        return h[:m.start()].strip(), h[m.end():].strip()
    return None, h


def ret_type(sig):
    """Return type text of a fn signature (without where clause), '' if none."""
    s = split_header_where(sig)
    # find the parameter list: first '(' after `fn name<..>`
    m = re.search(r'\bfn\s+\w+', s)
    if not m:
        return ''
    k = m.end()
    # skip generics
    depth = 0
    while k < len(s):
        if s[k] == '<': depth += 1
        elif s[k] == '>': depth -= 1
        elif s[k] == '(' and depth == 0: break
        k += 1
    depth = 0
    while k < len(s):
        if s[k] == '(': depth += 1
        elif s[k] == ')':
            depth -= 1
            if depth == 0: break
        k += 1
    rest = s[k + 1:]
    m = re.match(r'\s*->\s*(.*)$', rest, re.S)
    return m.group(1).strip() if m else ''


def params(sig):
    m = re.search(r'\bfn\s+\w+', sig)
    if not m:
        return ''
    k = sig.find('(', m.end())
    depth, j = 0, k
    while j < len(sig):
        if sig[j] == '(': depth += 1
        elif sig[j] == ')':
            depth -= 1
            if depth == 0: break
        j += 1
    return sig[k + 1:j]


def scan_file(path, rel, items, raw_sites):
    src = open(path, encoding='utf-8').read()
    s = blank_comments_and_strings(src)
    n = len(s)
    # stack of blocks: dict(kind, header, skip, is_pub_trait)
    stack = []
    stmt_start = 0
    i = 0
    pending_cfg_test = False

    def line_of(pos):
        return s.count('\n', 0, pos) + 1

    def ctx():
        for b in reversed(stack):
            if b['kind'] in ('impl', 'trait', 'macro'):
                return b
        return None

    def skipping():
        return any(b['skip'] for b in stack)

    def handle_item(raw_header, pos, has_body, body_span=None):
        header = norm(raw_header)
        if not header or skipping():
            return
        c = ctx()
        in_macro = any(b['kind'] == 'macro' for b in stack)
        cname = c['header'] if c else ''
        trait, selfty = (None, '')
        in_trait_impl = in_trait_def = False
        if c and c['kind'] == 'impl':
            trait, selfty = impl_self_type(c['header'])
            in_trait_impl = trait is not None
            cname = split_header_where(c['header'])
        elif c and c['kind'] == 'trait':
            in_trait_def = True
            cname = split_header_where(c['header'])
            selfty = ''
        elif c and c['kind'] == 'macro':
            cname = c['header']
        self_wrapped = bool(WRAP_RE.search(selfty))
        # ---- functions
        m = re.search(r'^(?P<vis>pub(\s*\([^)]*\))?\s+)?(?P<q>(default\s+|const\s+|async\s+|unsafe\s+|extern\s+"[^"]*"\s+)*)fn\s+(?P<name>\w+)', header)
        if m:
            vis = (m.group('vis') or '').strip()
            public = (vis == 'pub') or in_trait_impl or (in_trait_def and c.get('pub'))
            rt = ret_type(header)
            mentions = bool(WRAP_RE.search(rt)) or (self_wrapped and re.search(r'\bSelf\b', rt))
            if public and mentions:
                items.append(Item('fn', rel, line_of(pos), cname, m.group('name'), header,
                                  'return type `%s`' % rt))
            pr = params(header)
            if public and self_wrapped and re.match(r'\s*&\s*(\'\w+\s+)?mut\s+self\b', pr):
                items.append(Item('mut', rel, line_of(pos), cname, m.group('name'), header, '&mut self on a wrapper'))
            # raw construction sites
            if has_body and body_span:
                body = s[body_span[0]:body_span[1]]
                pats = [r'\bNonZero\s*\(', r'\bOdd\s*\(', r'\bNonZero\s*::\s*<[^>]*>\s*\(', r'\bOdd\s*::\s*<[^>]*>\s*\(']
                if self_wrapped:
                    pats.append(r'\bSelf\s*\(')
                if any(re.search(p, body) for p in pats):
                    raw_sites.append({'id': '%s::%s::%s' % (rel, cname or '-', m.group('name')), 'file': rel,
                                      'line': line_of(pos), 'public': bool(public),
                                      'returns_wrapper': bool(mentions)})
            return
        # ---- constants / statics
        m = re.search(r'^(?P<vis>pub(\s*\([^)]*\))?\s+)?(const|static)\s+(mut\s+)?(?P<name>\w+)\s*:\s*(?P<ty>[^=;]+)', header)
        if m and not has_body:
            vis = (m.group('vis') or '').strip()
            public = (vis == 'pub') or in_trait_impl or (in_trait_def and c.get('pub'))
            ty = m.group('ty').strip()
            mentions = bool(WRAP_RE.search(ty)) or (self_wrapped and re.search(r'\bSelf\b', ty))
            if public and mentions:
                items.append(Item('const', rel, line_of(pos), cname, m.group('name'), header.split('=')[0].strip(),
                                  'type `%s`' % ty))
            return

    pdepth = 0
    while i < n:
        ch = s[i]
        if ch in '([':
            pdepth += 1; i += 1; continue
        if ch in ')]':
            pdepth = max(0, pdepth - 1); i += 1; continue
        if ch == ';' and pdepth > 0:
            i += 1; continue
        if ch in '{}':
            pdepth = 0
        if ch == '{':
            raw_header = s[stmt_start:i]
            header = norm(raw_header)
            attrs = raw_header
            kind, skip, extra = 'block', False, {}
            if re.search(r'#\s*\[\s*cfg\s*\(\s*(all\s*\(\s*)?test\b', attrs) and re.search(r'\bmod\s+\w+\s*$', header):
                kind, skip = 'mod', True
            elif re.search(r'^(pub(\s*\([^)]*\))?\s+)?mod\s+\w+$', header):
                kind = 'mod'
            elif re.search(r'^(unsafe\s+)?impl\b', header):
                kind = 'impl'
            elif re.search(r'^(pub(\s*\([^)]*\))?\s+)?(unsafe\s+)?trait\s+\w+', header):
                kind = 'trait'; extra['pub'] = header.startswith('pub ') and not header.startswith('pub(')
            elif re.search(r'^macro_rules\s*!\s*\w+$', header):
                kind = 'macro'
                extra['exported'] = bool(re.search(r'#\s*\[\s*macro_export\s*\]', attrs))
            elif re.search(r'^(pub(\s*\([^)]*\))?\s+)?struct\s+\w+', header):
                kind = 'struct'; extra['pub'] = header.startswith('pub ') and not header.startswith('pub(')
            if re.search(r'\bfn\s+\w+', header) and kind == 'block' and not re.search(r'^(let|if|else|match|while|for|loop|return)\b', header) \
                    and re.search(r'^(pub(\s*\([^)]*\))?\s+)?((default|const|async|unsafe)\s+|extern\s+"[^"]*"\s+)*fn\s+\w+', header):
                # function with body: find the matching brace
                depth, j = 0, i
                while j < n:
                    if s[j] == '{': depth += 1
                    elif s[j] == '}':
                        depth -= 1
                        if depth == 0: break
                    j += 1
                handle_item(raw_header, stmt_start + (len(raw_header) - len(raw_header.lstrip())), True, (i, j))
                # skip the body entirely (nested items inside fn bodies are not API)
                i = j + 1
                stmt_start = i
                continue
            cm = re.search(r'^(pub(\s*\([^)]*\))?\s+)?(const|static)\s+(mut\s+)?(\w+)\s*:[^=]*=', header)
            if cm and kind == 'block':
                # constant with a block initialiser: `const X: T = { .. };`
                depth, j = 0, i
                while j < n:
                    if s[j] == '{': depth += 1
                    elif s[j] == '}':
                        depth -= 1
                        if depth == 0: break
                    j += 1
                if not skipping():
                    handle_item(raw_header + '= 0', stmt_start + (len(raw_header) - len(raw_header.lstrip())), False)
                    body = s[i:j]
                    if re.search(r'\b(NonZero|Odd)\s*(::\s*<[^>]*>\s*)?\(', body):
                        c = ctx()
                        raw_sites.append({'id': '%s::%s::%s' % (rel, split_header_where(c['header']) if c else '-', cm.group(5)),
                                          'file': rel, 'line': line_of(i), 'public': False, 'returns_wrapper': False})
                k2 = s.find(';', j)
                i = (k2 if k2 >= 0 else j) + 1
                stmt_start = i
                continue
            b = {'kind': kind, 'header': header, 'skip': skip, 'start': i}
            b.update(extra)
            if kind == 'macro' and not skipping():
                # macro body: scanned as text below (fn / const items inside are found by the generic walk because
                # we keep walking inside it)
                body_end = i
                depth, j = 0, i
                while j < n:
                    if s[j] == '{': depth += 1
                    elif s[j] == '}':
                        depth -= 1
                        if depth == 0: break
                    j += 1
                body = s[i:j]
                if WRAP_RE.search(body):
                    name = header.split('!')[1].strip()
                    calls = sorted(set(re.sub(r'\s+', '', m.group(0)) for m in re.finditer(
                        r'\b(NonZero|Odd)\s*(::\s*<[^>]*>)?\s*(::\s*\w+)?\s*\(', body)))
                    for cl in calls or ['(mentions wrapper types only)']:
                        items.append(Item('macro', rel, line_of(i), 'macro_rules! ' + name, cl.rstrip('('), 'macro_rules! %s%s' % (name, ' (exported)' if extra.get('exported') else ''),
                                          'macro body calls `%s`' % cl))
            if kind == 'struct' and not skipping():
                depth, j = 0, i
                while j < n:
                    if s[j] == '{': depth += 1
                    elif s[j] == '}':
                        depth -= 1
                        if depth == 0: break
                    j += 1
                body = s[i + 1:j]
                if extra.get('pub'):
                    sname = re.search(r'struct\s+(\w+)', header).group(1)
                    for fm in re.finditer(r'(?:^|,|\n)\s*(?:#\s*\[[^\]]*\]\s*)*pub\s+(\w+)\s*:\s*([^,\n]+)', body):
                        if WRAP_RE.search(fm.group(2)):
                            items.append(Item('field', rel, line_of(i + 1 + fm.start()), 'struct ' + sname, fm.group(1),
                                              'pub %s: %s' % (fm.group(1), fm.group(2).strip()), 'public field'))
                i = j + 1
                stmt_start = i
                continue
            stack.append(b)
            i += 1
            stmt_start = i
            continue
        if ch == '}':
            if stack:
                stack.pop()
            i += 1
            stmt_start = i
            continue
        if ch == ';':
            raw_header = s[stmt_start:i]
            handle_item(raw_header, stmt_start + (len(raw_header) - len(raw_header.lstrip())), False)
            # tuple struct definitions with derives
            hd = norm(raw_header)
            m = re.search(r'^pub\s+struct\s+(NonZero|Odd)\b', hd)
            if m and not skipping():
                for dm in re.finditer(r'#\s*\[\s*derive\s*\(([^)]*)\)\s*\]', raw_header):
                    for tr in [t.strip() for t in dm.group(1).split(',') if t.strip()]:
                        if tr in ('Default', 'Clone', 'Copy'):
                            items.append(Item('derive', rel, line_of(stmt_start + dm.start()), 'struct ' + m.group(1), tr,
                                              '#[derive(%s)] on %s' % (tr, hd), 'derived trait creates values'))
                        elif tr not in ('Debug', 'Eq', 'Hash', 'PartialEq', 'PartialOrd', 'Ord'):
                            items.append(Item('derive', rel, line_of(stmt_start + dm.start()), 'struct ' + m.group(1), tr,
                                              '#[derive(%s)] on %s' % (tr, hd), 'unknown derived trait'))
                fm = re.search(r'\(\s*(pub(\s*\([^)]*\))?)?\s*\w', hd)
                vis = re.search(r'struct\s+\w+\s*(<[^>]*>)?\s*\(\s*(pub(\s*\([^)]*\))?)?', hd)
                if vis and vis.group(2) == 'pub':
                    items.append(Item('field', rel, line_of(stmt_start), 'struct ' + m.group(1), '0', hd, 'the wrapped field is public'))
            i += 1
            stmt_start = i
            continue
        i += 1


def scan(repo=None):
    repo = repo or repo_dir()
    items, raw_sites = [], []
    root = os.path.join(repo, 'src')
    for d, _, fs in sorted(os.walk(root)):
        for f in sorted(fs):
            if f.endswith('.rs'):
                p = os.path.join(d, f)
                scan_file(p, os.path.relpath(p, repo), items, raw_sites)
    # several impls with the same header in one file (e.g. `impl<T> NonZero<T>` blocks): identities may repeat for
    # overloaded names only if the name repeats too; make them unique with a numeric suffix in source order
    seen = {}
    out = []
    for it in items:
        k = (it.kind, it.ident)
        seen[k] = seen.get(k, 0) + 1
        if seen[k] > 1:
            it.name = '%s#%d' % (it.name, seen[k])
        out.append(it)
    return out, raw_sites


def main():
    args = sys.argv[1:]
    repo = None
    if '--repo' in args:
        repo = args[args.index('--repo') + 1]
    items, raw = scan(repo)
    if '--json' in args:
        json.dump({'producers': [i.to_json() for i in items], 'raw_sites': raw}, sys.stdout, indent=1)
        print()
        return
    for it in items:
        print('%-6s %s:%d  %s' % (it.kind, it.file, it.line, it.ident))
        print('         %s' % it.sig[:200])
    print('%d producers; %d raw construction sites:' % (len(items), len(raw)))
    for r in raw:
        print('  raw  %s:%d %s%s' % (r['file'], r['line'], r['id'], '' if r['public'] else '  (not public)'))


if __name__ == '__main__':
    main()
