"""Matchers for known_findings.json entries: each takes (case, impl, model, spec) and decides whether the
disagreement belongs to the *specific* recorded class (so other violations of the same property still alarm)."""


def f14_rem_uint_width(case, impl, model, spec):
    """F14: Int::div_rem_uint_vartime / rem_uint_vartime return the remainder as Int<RHS_LIMBS>; with a divisor
    type narrower than the dividend and a divisor >= 2^(64*RHS-1) the true remainder does not fit and is
    returned reinterpreted. Matches exactly: R < L and sign(n)*(|n| mod d) outside [-2^(64R-1), 2^(64R-1))."""
    if spec != 'err 1' or impl != model:
        return False
    n_l, d_l = case.args[0], case.args[1]
    L, R = len(n_l), len(d_l)
    if not R < L:
        return False
    n = sum(w << (64 * i) for i, w in enumerate(n_l))
    d = sum(w << (64 * i) for i, w in enumerate(d_l))
    if d == 0:
        return False
    if n >= 1 << (64 * L - 1):
        n -= 1 << (64 * L)
    r = abs(n) % d
    r = r if n >= 0 else -r
    return not (-(1 << (64 * R - 1)) <= r < (1 << (64 * R - 1)))


def f16_boxed_ct_select_precision(case, impl, model, spec):
    """F16: ConstantTimeSelect for BoxedUint (ct_select / ct_assign / ct_swap) on operands of different precision:
    release builds loop over the limbs of the first operand only (truncated operand, or for ct_swap a mixture of
    both operands, or an index panic when the second operand is shorter); debug builds hit a debug_assert.
    Matches exactly: the two boxed operands have different limb counts, the implementation behaves as the
    faithful model predicts (impl == model) and that differs from the documented result (spec)."""
    import re
    if not re.fullmatch(r'boxed\.(select(\.assign)?|swap)', case.rop):
        return False
    if len(case.args) != 3 or len(case.args[0]) == len(case.args[1]):
        return False
    return impl == model and impl != spec


def f25_zeroize_wrapper(case, impl, model, spec):
    """F25: Zeroize for NonZero<T> / Odd<T> writes zero into the wrapper in place. Matches exactly: a zeroize route of the
    C12 harness whose result is the all-zero value (the C12 check reports these cases through its extra_check with
    known='F25'; this matcher exists so that the entry is also usable for a case-level comparison)."""
    import re
    if not re.fullmatch(r'w\.(nz|odd)\.zeroize', case.rop) or not impl.startswith('ok '):
        return False
    first = impl[3:].split(';')[0]
    return all(int(w, 16) == 0 for w in first.split(','))
