(** C12: the wrappers NonZero<T> / Odd<T> (src/non_zero.rs, src/odd.rs and every other public item whose
    return type mentions them) for T in {Limb, Uint<N>, Int<N>, BoxedUint}.

    Every PRODUCER -- a way the safe public API hands out a wrapper value -- is one entry of the table
    [producers] below: its key (the model-op name used by the correspondence harness), which wrapper it returns,
    how many leading components of its result are wrapper values, which of its arguments are themselves wrapper
    values (they are valid by induction over the call history), which arguments are byte / character strings,
    the L0 model (follows the Rust code: the same gate -- CtOption / ConstCtOption / assert / rejection loop -- on the
    same predicate function) and the specification on plain integers.
    tools/scan_producers.py lists the producers of the CURRENT source; tools/vlib/c12.py maps each of them to a key
    of this table (or to the producer it delegates to) and the check fails when one is unmapped.

    Reused, not re-modelled: the predicates and selects of Model/Cmp.v (C06), the byte / hex / serde decoders of
    Model/Conv.v (C16), the RNG streams and samplers of Model/Rand.v (C19).

    A value is its little-endian limb list (Limb = one-element list); kinds: 0 Limb, 1 Uint<N>, 2 Int<N>, 3 BoxedUint. *)
From CB Require Export Model.Limbs Model.AddSub Model.Cmp Model.Conv Model.Rand.
Open Scope Z_scope. Open Scope list_scope.

Inductive wrapper := WNonZero | WOdd.

(* ------------------------------------------------------------------ the gates *)
(* subtle::CtOption::new(v, choice) observed through Option::from (is_some().unwrap_u8() == 1) *)
Definition w_ctopt (c : Z) (v : list Z) : outcome := if c =? 1 then Val [v] else NoneV.
(* ConstCtOption::new(v, cc) observed through Option::from / CtOption::from / is_some *)
Definition w_cctopt (cc : Z) (v : list Z) : outcome := if cc_true cc then Val [v] else NoneV.
(* `if cc.is_true_vartime() { v } else { panic!() }`, assert!(cc.is_true_vartime()), ConstCtOption::unwrap / expect *)
Definition w_ccpanic (cc : Z) (v : list Z) : outcome := if cc_true cc then Val [v] else PanicV.

(* ------------------------------------------------------------------ constructors *)
(* NonZero::new(n) = CtOption::new(Self(n), !n.is_zero())      (src/non_zero.rs:30-37)
   Zero::is_zero: Limb -> u64::ct_eq(0); Uint / Int -> ct_eq(&ZERO) = Uint::eq; BoxedUint -> limb-wise fold *)
Definition nz_new_limb (x : Z) : outcome := w_ctopt (ch_not (limb_is_zero x)) [x].
Definition nz_new_uint (a : list Z) : outcome := w_ctopt (ch_not (uint_is_zero a)) a.
Definition nz_new_boxed (a : list Z) : outcome := w_ctopt (ch_not (boxed_is_zero a)) a.
(* Limb::to_nz / Uint::to_nz / Int::to_nz = ConstCtOption::new(NonZero(self), self.is_nonzero()) *)
Definition nz_to_nz_limb (x : Z) : outcome := w_cctopt (limb_is_nonzero x) [x].
Definition nz_to_nz_uint (a : list Z) : outcome := w_cctopt (uint_is_nonzero a) a.
(* NonZero::<Limb>::new_unwrap / NonZero::<Uint>::new_unwrap ; to_nz().unwrap() / .expect(..) *)
Definition nz_new_unwrap_limb (x : Z) : outcome := w_ccpanic (limb_is_nonzero x) [x].
Definition nz_new_unwrap_uint (a : list Z) : outcome := w_ccpanic (uint_is_nonzero a) a.

(* Odd::new(n) = CtOption::new(Self(n), Integer::is_odd(&n))   (src/odd.rs:31-38, src/traits.rs:186) ;
   BoxedUint::to_odd is the same gate on a clone *)
Definition wodd_new (a : list Z) : outcome := w_ctopt (integer_is_odd a) a.
(* Uint::to_odd / Int::to_odd = ConstCtOption::new(Odd(self), self.is_odd())  (limbs[0] & 1) *)
Definition wodd_to_odd (a : list Z) : outcome := w_cctopt (uint_is_odd a) a.
Definition wodd_to_odd_unwrap (a : list Z) : outcome := w_ccpanic (uint_is_odd a) a.

(* ------------------------------------------------------------------ constants, Default *)
(* T::ONE / T::MAX of the Constants trait (compile-time constants: value level) *)
Definition w_one (k : Z) (n : nat) : list Z := if k =? 0 then [1] else one_limbs n.
Definition w_max (k : Z) (n : nat) : list Z :=
  if k =? 0 then [MAXW] else if k =? 2 then int_max n else maxs n.
(* impl<T: Constants> Default for NonZero<T> / for Odd<T> (repaired, tools/fix_C12_1.diff) = Self(T::ONE) *)
Definition w_default (k : Z) (n : nat) : list Z := w_one k n.
(* the unrepaired code: #[derive(Default)] on Odd<T> = Odd(T::default()) = Odd(ZERO) *)
Definition odd_default_derived (k : Z) (n : nat) : list Z := if k =? 0 then [0] else zeros n.

(* ------------------------------------------------------------------ From<core::num::NonZeroU*> *)
(* NonZero::<Limb>::from_u8 .. from_u64 = Self(Limb::from_uK(n.get())) *)
Definition nz_limb_from_prim (v : Z) : outcome := Val [[v]].
(* NonZero::<Uint<N>>::from_u8 .. from_u128 = Self(Uint::from_uK(n.get())) ; the Uint constructor asserts the width *)
Definition nz_uint_from_prim (bits : Z) (n : nat) (v : Z) : outcome :=
  vpanic (if bits =? 128 then uint_from_u128 n v else uint_from_small n v).

(* the primitive argument: a core::num::NonZeroU8..U64 is one word, a NonZeroU128 is [lo; hi] *)
Definition nz_prim_arg (bits : Z) (l : list Z) : option Z :=
  if bits =? 128 then (if Nat.leb (length l) 2 then Some (prim_val l) else None)
  else (if Nat.eqb (length l) 1 then Some (nthz l 0) else None).

(* ------------------------------------------------------------------ NonZero<Int>::abs_sign *)
(* let (abs, sign) = self.0.abs_sign(); (NonZero::<Uint>::new_unwrap(abs), sign) *)
Definition nz_int_abs_sign (a : list Z) : outcome :=
  let '(m, sg) := int_abs_sign a in
  if cc_true (uint_is_nonzero m) then Val [m; vbool (cc_true sg)] else PanicV.

(* ------------------------------------------------------------------ byte / array / hex decoders *)
(* NonZero::from_{be,le}_bytes(T::Repr), from_{be,le}_byte_array(ByteArray<T>) = Self::new(T::from_..(bytes)) ;
   for the Uint aliases both go through Uint::from_{be,le}_slice ([None] = its length assertion) *)
Definition nz_gate_uint (o : option (list Z)) : outcome :=
  match o with None => PanicV | Some r => nz_new_uint r end.
Definition nz_from_be_bytes (n : nat) (bs : list Z) : outcome := nz_gate_uint (uint_from_be_slice n bs).
Definition nz_from_le_bytes (n : nat) (bs : list Z) : outcome := nz_gate_uint (uint_from_le_slice n bs).
(* Limb: Repr = [u8; 8], Word::from_{be,le}_bytes *)
Definition nz_limb_from_be_bytes (bs : list Z) : outcome :=
  if Nat.eqb (length bs) 8 then nz_new_limb (word_from_be_bytes bs) else PanicV.
Definition nz_limb_from_le_bytes (bs : list Z) : outcome :=
  if Nat.eqb (length bs) 8 then nz_new_limb (word_from_le_bytes bs) else PanicV.
(* Odd::<Uint<N>>::from_{be,le}_hex : Uint::from_{be,le}_hex, then assert!(uint.is_odd().is_true_vartime()) *)
Definition odd_gate_hex (h : hexres) : outcome :=
  match h with HexOk r => w_ccpanic (uint_is_odd r) r | _ => PanicV end.
Definition odd_of_be_hex (n : nat) (cs : list Z) : outcome := odd_gate_hex (uint_from_be_hex n cs).
Definition odd_of_le_hex (n : nat) (cs : list Z) : outcome := odd_gate_hex (uint_from_le_hex n cs).

(* ------------------------------------------------------------------ conditional selection *)
(* ConditionallySelectable for NonZero<T> / Odd<T> = Self(T::conditional_select(&a.0, &b.0, choice)) ;
   conditional_assign / conditional_swap / ConstantTimeSelect::{ct_select, ct_assign, ct_swap} are the
   trait defaults on top of it *)
(* the two operands have the same type: equal limb counts (one limb for Limb) *)
Definition w_same_len (a b : list Z) (o : outcome) : outcome :=
  if Nat.eqb (length a) (length b) then o else Unsupported.
Definition w_limb_args (a b : list Z) (o : outcome) : outcome :=
  if Nat.eqb (length a) 1 && Nat.eqb (length b) 1 then o else Unsupported.
Definition w_select_limb (a b c : Z) : outcome := Val [[st_select a b c]].
Definition w_select (a b : list Z) (c : Z) : outcome := Val [ct_select_limbs a b c].
Definition w_swap (a b : list Z) (c : Z) : outcome :=
  let '(a', b') := ct_swap_limbs a b c in Val [a'; b'].

(* ------------------------------------------------------------------ serde Deserialize *)
(* error codes: 0 = the inner value does not decode, 1 = decoded but rejected ("zero" / "even") *)
Definition W_E_DECODE : Z := 0.
Definition W_E_INVALID : Z := 1.
(* NonZero: value.is_zero() -> Err(invalid_value) ; Odd: Self::new(value) none -> Err(invalid_value) *)
Definition nz_serde_uint (n : nat) (bs : list Z) : outcome :=
  match uint_serde_de n bs with
  | Val [r] => if uint_is_zero r =? 1 then ErrV W_E_INVALID else Val [r]
  | o => o
  end.
Definition odd_serde_uint (n : nat) (bs : list Z) : outcome :=
  match uint_serde_de n bs with
  | Val [r] => if integer_is_odd r =? 1 then Val [r] else ErrV W_E_INVALID
  | o => o
  end.
(* Limb = Word::deserialize: bincode fixint reads 8 little-endian bytes (trailing bytes are ignored) *)
Definition nz_serde_limb (bs : list Z) : outcome :=
  if Nat.ltb (length bs) 8 then ErrV W_E_DECODE
  else let x := word_from_le_bytes (firstn 8 bs) in
       if limb_is_zero x =? 1 then ErrV W_E_INVALID else Val [[x]].

(* ------------------------------------------------------------------ random generation: Model/Rand.v
   NonZero<T>::try_random = nonzero_uint_random (Limb: one word per attempt = n = 1; Int: Uint's words);
   Odd<Uint<N>>::try_random = odd_uint_random ; Odd<BoxedUint>::random = odd_boxed_random *)

(* ------------------------------------------------------------------ wrappers made from wrappers *)
(* Clone / Copy, Odd::as_nz_ref / AsRef<NonZero<T>> (pointer reinterpretation of the same value),
   MontyParams::new(m).modulus(), BoxedMontyParams::new(m).modulus(), From<Odd<Uint<N>>> for Odd<BoxedUint>
   (the same limbs) *)
Definition w_same (a : list Z) : outcome := Val [a].
(* NonZero<BoxedUint>::widen = NonZero(self.0.widen(bits_precision)) *)
Definition nz_boxed_widen (a : list Z) (p : Z) : outcome := vpanic (boxed_widen a p).

(* ------------------------------------------------------------------ specification helpers *)
Definition w_nzb (a : list Z) : bool := negb (eval a =? 0).
Definition w_oddb (a : list Z) : bool := Z.odd (eval a).
Definition w_validb (w : wrapper) (a : list Z) : bool := match w with WNonZero => w_nzb a | WOdd => w_oddb a end.
(* arguments that are words; values that are non-empty *)
Definition w_dom (a : list (list Z)) (k : outcome) : outcome := if forallb wfb a then k else Unsupported.
Definition wsp_gate (ok : bool) (bad : outcome) (n : nat) (x : Z) : outcome := if ok then Val [to_limbs n x] else bad.
Definition wsp_nz (bad : outcome) (a : list Z) : outcome :=
  match a with [] => Unsupported | _ => wsp_gate (w_nzb a) bad (length a) (eval a) end.
Definition wsp_od (bad : outcome) (a : list Z) : outcome :=
  match a with [] => Unsupported | _ => wsp_gate (w_oddb a) bad (length a) (eval a) end.
Definition wsp_scalar (a : list (list Z)) (i : nat) (k : outcome) : outcome :=
  if Nat.eqb (length (arg i a)) 1 then k else Unsupported.
Definition wsp_kind_n (k : Z) (n : nat) : option nat :=
  if k =? 0 then Some 1%nat else if (k =? 1) || (k =? 2) then (match n with O => None | _ => Some n end) else None.
Definition wsp_max_val (k : Z) (n : nat) : Z := if k =? 2 then Bn n / 2 - 1 else Bn n - 1.
Definition wsp_select (w : wrapper) (a b : list Z) (c : Z) : outcome :=
  if negb (Nat.eqb (length a) (length b)) || Nat.eqb (length a) 0 then Unsupported
  else if w_validb w a && w_validb w b then Val [if c =? 0 then a else b] else Unsupported.
Definition wsp_swap (w : wrapper) (a b : list Z) (c : Z) : outcome :=
  if negb (Nat.eqb (length a) (length b)) || Nat.eqb (length a) 0 then Unsupported
  else if w_validb w a && w_validb w b then (if c =? 0 then Val [a; b] else Val [b; a]) else Unsupported.
Definition wsp_same (w : wrapper) (a : list Z) : outcome :=
  match a with [] => Unsupported | _ => if w_validb w a then Val [a] else Unsupported end.
Definition wsp_prim_ok (bits v : Z) : bool :=
  ((bits =? 8) || (bits =? 16) || (bits =? 32) || (bits =? 64) || (bits =? 128)) && (0 <? v) && (v <? 2 ^ bits).
(* a well-formed serde payload: length field 8n, then exactly 8n bytes *)
Definition wsp_serde (w : wrapper) (n : nat) (bs : list Z) : outcome :=
  sp_bytes_arg bs (
    if Nat.ltb (length bs) (8 + 8 * n) then ErrV W_E_DECODE
    else if negb (horner 256 (rev (firstn 8 bs)) =? 8 * Z.of_nat n) then ErrV W_E_DECODE
    else if Nat.eqb (length bs) (8 + 8 * n) then
      let v := horner 256 (rev (skipn 8 bs)) in
      if (match w with WNonZero => negb (v =? 0) | WOdd => Z.odd v end) then Val [to_limbs n v] else ErrV W_E_INVALID
    else Unsupported).
Definition wsp_nz_bytes (le : bool) (n : nat) (bs : list Z) : outcome := sp_nonzero le n bs.
Definition wsp_odd_hex (le : bool) (n : nat) (cs : list Z) : outcome := sp_odd le n cs.

(* ------------------------------------------------------------------ the producer table *)
Open Scope string_scope. Open Scope Z_scope.

Record pentry := PE {
  pe_key : string;                   (* model-op name *)
  pe_out : wrapper;                  (* the wrapper type produced *)
  pe_nout : nat;                     (* how many leading components of the result are wrapper values *)
  pe_ins : list (nat * wrapper);     (* arguments that are wrapper values (valid by induction) *)
  pe_bytes : list nat;               (* arguments that are byte / character strings *)
  pe_model : opfn;
  pe_spec : opfn
}.

(* the kinds / widths for which a type exists: Limb; Uint<N>, Int<N> with N >= 1 *)
Definition w_typed (k : Z) (n : nat) (o : outcome) : outcome :=
  match wsp_kind_n k n with Some _ => o | None => Unsupported end.
Definition w_n (i : nat) (a : list (list Z)) : nat := Z.to_nat (sarg i a).
Definition w_rng (a : list (list Z)) : rnd_rng := Rng (arg 0 a) 0 0.

(* --- CtOption / ConstCtOption gated constructors: arg = the value --- *)
Definition pe_w_nz_new_limb : pentry :=
  PE "w.nz.new.limb" WNonZero 1 [] []
     (fun _ a => nz_new_limb (sarg 0 a))
     (fun _ a => w_dom a (wsp_scalar a 0 (wsp_nz NoneV (arg 0 a)))).

Definition pe_w_nz_new_uint : pentry :=
  PE "w.nz.new.uint" WNonZero 1 [] []
     (fun _ a => nz_new_uint (arg 0 a))
     (fun _ a => w_dom a (wsp_nz NoneV (arg 0 a))).

Definition pe_w_nz_new_boxed : pentry :=
  PE "w.nz.new.boxed" WNonZero 1 [] []
     (fun _ a => nz_new_boxed (arg 0 a))
     (fun _ a => w_dom a (wsp_nz NoneV (arg 0 a))).

Definition pe_w_nz_to_nz_limb : pentry :=
  PE "w.nz.to_nz.limb" WNonZero 1 [] []
     (fun _ a => nz_to_nz_limb (sarg 0 a))
     (fun _ a => w_dom a (wsp_scalar a 0 (wsp_nz NoneV (arg 0 a)))).

Definition pe_w_nz_to_nz_uint : pentry :=
  PE "w.nz.to_nz.uint" WNonZero 1 [] []
     (fun _ a => nz_to_nz_uint (arg 0 a))
     (fun _ a => w_dom a (wsp_nz NoneV (arg 0 a))).

Definition pe_w_nz_new_unwrap_limb : pentry :=
  PE "w.nz.new_unwrap.limb" WNonZero 1 [] []
     (fun _ a => nz_new_unwrap_limb (sarg 0 a))
     (fun _ a => w_dom a (wsp_scalar a 0 (wsp_nz PanicV (arg 0 a)))).

Definition pe_w_nz_new_unwrap_uint : pentry :=
  PE "w.nz.new_unwrap.uint" WNonZero 1 [] []
     (fun _ a => nz_new_unwrap_uint (arg 0 a))
     (fun _ a => w_dom a (wsp_nz PanicV (arg 0 a))).

Definition pe_w_odd_new : pentry :=
  PE "w.odd.new" WOdd 1 [] []
     (fun _ a => wodd_new (arg 0 a))
     (fun _ a => w_dom a (wsp_od NoneV (arg 0 a))).

Definition pe_w_odd_to_odd : pentry :=
  PE "w.odd.to_odd" WOdd 1 [] []
     (fun _ a => wodd_to_odd (arg 0 a))
     (fun _ a => w_dom a (wsp_od NoneV (arg 0 a))).

Definition pe_w_odd_to_odd_unwrap : pentry :=
  PE "w.odd.to_odd_unwrap" WOdd 1 [] []
     (fun _ a => wodd_to_odd_unwrap (arg 0 a))
     (fun _ a => w_dom a (wsp_od PanicV (arg 0 a))).

(* --- constants and Default: args = kind, limb count --- *)
Definition pe_w_nz_one : pentry :=
  PE "w.nz.one" WNonZero 1 [] []
     (fun _ a => w_typed (sarg 0 a) (w_n 1 a) (Val [w_one (sarg 0 a) (w_n 1 a)]))
     (fun _ a => match wsp_kind_n (sarg 0 a) (w_n 1 a) with Some n => Val [to_limbs n 1] | None => Unsupported end).

Definition pe_w_nz_max : pentry :=
  PE "w.nz.max" WNonZero 1 [] []
     (fun _ a => w_typed (sarg 0 a) (w_n 1 a) (Val [w_max (sarg 0 a) (w_n 1 a)]))
     (fun _ a => match wsp_kind_n (sarg 0 a) (w_n 1 a) with
                 | Some n => Val [to_limbs n (wsp_max_val (sarg 0 a) n)] | None => Unsupported end).

Definition pe_w_nz_default : pentry :=
  PE "w.nz.default" WNonZero 1 [] []
     (fun _ a => w_typed (sarg 0 a) (w_n 1 a) (Val [w_default (sarg 0 a) (w_n 1 a)]))
     (fun _ a => match wsp_kind_n (sarg 0 a) (w_n 1 a) with Some n => Val [to_limbs n 1] | None => Unsupported end).

Definition pe_w_odd_default : pentry :=
  PE "w.odd.default" WOdd 1 [] []
     (fun _ a => w_typed (sarg 0 a) (w_n 1 a) (Val [w_default (sarg 0 a) (w_n 1 a)]))
     (fun _ a => match wsp_kind_n (sarg 0 a) (w_n 1 a) with Some n => Val [to_limbs n 1] | None => Unsupported end).

(* --- From<core::num::NonZeroU*>: args = value [lo; hi], bits, (limb count) --- *)
Definition pe_w_nz_from_prim_limb : pentry :=
  PE "w.nz.from_prim.limb" WNonZero 1 [(0%nat, WNonZero)] []
     (fun _ a => match nz_prim_arg 64 (arg 0 a) with Some v => nz_limb_from_prim v | None => Unsupported end)
     (fun _ a => let bits := sarg 1 a in
                 match nz_prim_arg 64 (arg 0 a) with
                 | Some v => if wsp_prim_ok bits v && (bits <=? 64) then Val [to_limbs 1 v] else Unsupported
                 | None => Unsupported end).

Definition pe_w_nz_from_prim_uint : pentry :=
  PE "w.nz.from_prim.uint" WNonZero 1 [(0%nat, WNonZero)] []
     (fun _ a => match nz_prim_arg (sarg 1 a) (arg 0 a) with
                 | Some v => nz_uint_from_prim (sarg 1 a) (w_n 2 a) v | None => Unsupported end)
     (fun _ a => let bits := sarg 1 a in let n := w_n 2 a in
                 match nz_prim_arg bits (arg 0 a) with
                 | Some v => if negb (wsp_prim_ok bits v) then Unsupported
                             else if Nat.ltb n (if bits =? 128 then 2 else 1) then PanicV
                             else Val [to_limbs n v]
                 | None => Unsupported end).

(* --- NonZero<Int>::abs_sign: arg = a valid NonZero<Int>; result = magnitude, sign --- *)
Definition pe_w_nz_abs_sign : pentry :=
  PE "w.nz.abs_sign" WNonZero 1 [(0%nat, WNonZero)] []
     (fun _ a => nz_int_abs_sign (arg 0 a))
     (fun _ a => w_dom a (
        match arg 0 a with [] => Unsupported | _ =>
          if w_nzb (arg 0 a) then Val [to_limbs (ln 0 a) (Z.abs (seval (arg 0 a))); vbool (seval (arg 0 a) <? 0)]
          else Unsupported end)).

(* --- decoders: args = bytes / characters, limb count --- *)
Definition pe_w_nz_from_be_bytes : pentry :=
  PE "w.nz.from_be_bytes" WNonZero 1 [] [0%nat]
     (fun _ a => nz_from_be_bytes (w_n 1 a) (arg 0 a))
     (fun _ a => wsp_nz_bytes false (w_n 1 a) (arg 0 a)).

Definition pe_w_nz_from_le_bytes : pentry :=
  PE "w.nz.from_le_bytes" WNonZero 1 [] [0%nat]
     (fun _ a => nz_from_le_bytes (w_n 1 a) (arg 0 a))
     (fun _ a => wsp_nz_bytes true (w_n 1 a) (arg 0 a)).

Definition pe_w_nz_from_be_byte_array : pentry :=
  PE "w.nz.from_be_byte_array" WNonZero 1 [] [0%nat]
     (fun _ a => nz_from_be_bytes (w_n 1 a) (arg 0 a))
     (fun _ a => wsp_nz_bytes false (w_n 1 a) (arg 0 a)).

Definition pe_w_nz_from_le_byte_array : pentry :=
  PE "w.nz.from_le_byte_array" WNonZero 1 [] [0%nat]
     (fun _ a => nz_from_le_bytes (w_n 1 a) (arg 0 a))
     (fun _ a => wsp_nz_bytes true (w_n 1 a) (arg 0 a)).

Definition pe_w_nz_from_be_bytes_limb : pentry :=
  PE "w.nz.from_be_bytes.limb" WNonZero 1 [] [0%nat]
     (fun _ a => nz_limb_from_be_bytes (arg 0 a))
     (fun _ a => wsp_nz_bytes false 1 (arg 0 a)).

Definition pe_w_nz_from_le_bytes_limb : pentry :=
  PE "w.nz.from_le_bytes.limb" WNonZero 1 [] [0%nat]
     (fun _ a => nz_limb_from_le_bytes (arg 0 a))
     (fun _ a => wsp_nz_bytes true 1 (arg 0 a)).

Definition pe_w_odd_from_be_hex : pentry :=
  PE "w.odd.from_be_hex" WOdd 1 [] [0%nat]
     (fun _ a => odd_of_be_hex (w_n 1 a) (arg 0 a))
     (fun _ a => wsp_odd_hex false (w_n 1 a) (arg 0 a)).

Definition pe_w_odd_from_le_hex : pentry :=
  PE "w.odd.from_le_hex" WOdd 1 [] [0%nat]
     (fun _ a => odd_of_le_hex (w_n 1 a) (arg 0 a))
     (fun _ a => wsp_odd_hex true (w_n 1 a) (arg 0 a)).

(* --- conditional selection between valid values: args = a, b, choice --- *)
Definition pe_w_nz_select_limb : pentry :=
  PE "w.nz.select.limb" WNonZero 1 [(0%nat, WNonZero); (1%nat, WNonZero)] []
     (fun _ a => w_limb_args (arg 0 a) (arg 1 a) (w_select_limb (sarg 0 a) (sarg 1 a) (carg 2 a)))
     (fun _ a => w_dom a (wsp_scalar a 0 (wsp_select WNonZero (arg 0 a) (arg 1 a) (carg 2 a)))).

Definition pe_w_nz_select : pentry :=
  PE "w.nz.select" WNonZero 1 [(0%nat, WNonZero); (1%nat, WNonZero)] []
     (fun _ a => w_same_len (arg 0 a) (arg 1 a) (w_select (arg 0 a) (arg 1 a) (carg 2 a)))
     (fun _ a => w_dom a (wsp_select WNonZero (arg 0 a) (arg 1 a) (carg 2 a))).

Definition pe_w_nz_swap : pentry :=
  PE "w.nz.swap" WNonZero 2 [(0%nat, WNonZero); (1%nat, WNonZero)] []
     (fun _ a => w_same_len (arg 0 a) (arg 1 a) (w_swap (arg 0 a) (arg 1 a) (carg 2 a)))
     (fun _ a => w_dom a (wsp_swap WNonZero (arg 0 a) (arg 1 a) (carg 2 a))).

Definition pe_w_odd_select : pentry :=
  PE "w.odd.select" WOdd 1 [(0%nat, WOdd); (1%nat, WOdd)] []
     (fun _ a => w_same_len (arg 0 a) (arg 1 a) (w_select (arg 0 a) (arg 1 a) (carg 2 a)))
     (fun _ a => w_dom a (wsp_select WOdd (arg 0 a) (arg 1 a) (carg 2 a))).

Definition pe_w_odd_swap : pentry :=
  PE "w.odd.swap" WOdd 2 [(0%nat, WOdd); (1%nat, WOdd)] []
     (fun _ a => w_same_len (arg 0 a) (arg 1 a) (w_swap (arg 0 a) (arg 1 a) (carg 2 a)))
     (fun _ a => w_dom a (wsp_swap WOdd (arg 0 a) (arg 1 a) (carg 2 a))).

(* --- serde Deserialize (bincode): args = bytes, limb count --- *)
Definition pe_w_nz_serde_de : pentry :=
  PE "w.nz.serde_de" WNonZero 1 [] [0%nat]
     (fun _ a => nz_serde_uint (w_n 1 a) (arg 0 a))
     (fun _ a => wsp_serde WNonZero (w_n 1 a) (arg 0 a)).

Definition pe_w_odd_serde_de : pentry :=
  PE "w.odd.serde_de" WOdd 1 [] [0%nat]
     (fun _ a => odd_serde_uint (w_n 1 a) (arg 0 a))
     (fun _ a => wsp_serde WOdd (w_n 1 a) (arg 0 a)).

Definition pe_w_nz_serde_de_limb : pentry :=
  PE "w.nz.serde_de.limb" WNonZero 1 [] [0%nat]
     (fun _ a => nz_serde_limb (arg 0 a))
     (fun _ a => sp_bytes_arg (arg 0 a) (
        if Nat.ltb (ln 0 a) 8 then ErrV W_E_DECODE
        else if Nat.eqb (ln 0 a) 8 then
          let v := horner 256 (rev (arg 0 a)) in if v =? 0 then ErrV W_E_INVALID else Val [to_limbs 1 v]
        else Unsupported)).

(* --- random generation: args = stream words, limb count / bit length, fallible flag (Model/Rand.v);
       result = value, words consumed, bytes requested --- *)
Definition pe_w_nz_random : pentry :=
  PE "w.nz.random" WNonZero 1 [] []
     (fun _ a => if 0 <? sarg 1 a then rnd_out (sarg 2 a) (nonzero_uint_random (w_n 1 a) (w_rng a)) else Unsupported)
     (fun _ a => if 0 <? sarg 1 a then w_dom a (rnd_sp_out (w_n 1 a) (sarg 2 a) (sp_nonzero_random (w_n 1 a) (arg 0 a)))
                 else Unsupported).

Definition pe_w_odd_random : pentry :=
  PE "w.odd.random" WOdd 1 [] []
     (fun _ a => if 0 <? sarg 1 a then rnd_out (sarg 2 a) (odd_uint_random (w_n 1 a) (w_rng a)) else Unsupported)
     (fun _ a => if 0 <? sarg 1 a
                 then w_dom a (rnd_sp_out (w_n 1 a) (sarg 2 a) (sp_odd_sample (sp_random (w_n 1 a) (arg 0 a))))
                 else Unsupported).

Definition pe_w_odd_random_boxed : pentry :=
  PE "w.odd.random_boxed" WOdd 1 [] []
     (fun _ a => rnd_out 0 (odd_boxed_random (w_rng a) (sarg 1 a)))
     (fun _ a => let bl := sarg 1 a in
                 if (0 <? bl) && rnd_small bl
                 then w_dom a (rnd_sp_out (sp_boxed_limbs bl) 0 (sp_odd_sample (sp_random_bits (arg 0 a) bl)))
                 else Unsupported).

(* --- wrappers made from wrappers: arg = a valid wrapper --- *)
Definition pe_w_nz_same : pentry :=
  PE "w.nz.same" WNonZero 1 [(0%nat, WNonZero)] []
     (fun _ a => w_same (arg 0 a))
     (fun _ a => w_dom a (wsp_same WNonZero (arg 0 a))).

Definition pe_w_odd_same : pentry :=
  PE "w.odd.same" WOdd 1 [(0%nat, WOdd)] []
     (fun _ a => w_same (arg 0 a))
     (fun _ a => w_dom a (wsp_same WOdd (arg 0 a))).

Definition pe_w_odd_as_nz_ref : pentry :=
  PE "w.odd.as_nz_ref" WNonZero 1 [(0%nat, WOdd)] []
     (fun _ a => w_same (arg 0 a))
     (fun _ a => w_dom a (wsp_same WOdd (arg 0 a))).

Definition pe_w_nz_widen : pentry :=
  PE "w.nz.widen" WNonZero 1 [(0%nat, WNonZero)] []
     (fun _ a => nz_boxed_widen (arg 0 a) (sarg 1 a))
     (fun _ a => w_dom a (
        let p := sarg 1 a in
        match arg 0 a with [] => Unsupported | _ =>
          if negb (w_nzb (arg 0 a)) then Unsupported
          else if p <? 64 * Z.of_nat (ln 0 a) then PanicV else Val [to_limbs (sp_limbs_for p) (ev 0 a)] end)).

Definition producers : list pentry := [
  pe_w_nz_new_limb;
  pe_w_nz_new_uint;
  pe_w_nz_new_boxed;
  pe_w_nz_to_nz_limb;
  pe_w_nz_to_nz_uint;
  pe_w_nz_new_unwrap_limb;
  pe_w_nz_new_unwrap_uint;
  pe_w_odd_new;
  pe_w_odd_to_odd;
  pe_w_odd_to_odd_unwrap;
  pe_w_nz_one;
  pe_w_nz_max;
  pe_w_nz_default;
  pe_w_odd_default;
  pe_w_nz_from_prim_limb;
  pe_w_nz_from_prim_uint;
  pe_w_nz_abs_sign;
  pe_w_nz_from_be_bytes;
  pe_w_nz_from_le_bytes;
  pe_w_nz_from_be_byte_array;
  pe_w_nz_from_le_byte_array;
  pe_w_nz_from_be_bytes_limb;
  pe_w_nz_from_le_bytes_limb;
  pe_w_odd_from_be_hex;
  pe_w_odd_from_le_hex;
  pe_w_nz_select_limb;
  pe_w_nz_select;
  pe_w_nz_swap;
  pe_w_odd_select;
  pe_w_odd_swap;
  pe_w_nz_serde_de;
  pe_w_odd_serde_de;
  pe_w_nz_serde_de_limb;
  pe_w_nz_random;
  pe_w_odd_random;
  pe_w_odd_random_boxed;
  pe_w_nz_same;
  pe_w_odd_same;
  pe_w_odd_as_nz_ref;
  pe_w_nz_widen
].

Definition ops_wrappers_model : list (string * opfn) := map (fun e => (pe_key e, pe_model e)) producers.
Definition ops_wrappers_spec : list (string * opfn) := map (fun e => (pe_key e, pe_spec e)) producers.
