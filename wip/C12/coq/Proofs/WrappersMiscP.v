(** C12 proofs, part 5: corollaries in the form used by Props/C12.v. *)
From CB Require Import Model.Limbs Model.AddSub Model.Cmp Model.Conv Model.Rand Model.Wrappers
  Proofs.WordP Proofs.LimbsP Proofs.ConvDigitsP Proofs.ConvBoxedP Proofs.RandBaseP Proofs.RandModP Proofs.RandMiscP
  Proofs.WrappersP Proofs.WrappersValidP Proofs.WrappersTablesP.
From Coq Require Import ZArith Lia List Bool String.
Import ListNotations.
Open Scope Z_scope. Open Scope list_scope.
Notation length := List.length.

Lemma no_zero_divisor v : obtainable WNonZero v -> eval v <> 0.
Proof. intros H. exact (proj2 (obtainable_valid WNonZero v H)). Qed.
Lemma no_even_modulus v : obtainable WOdd v -> Z.odd (eval v) = true /\ eval v <> 0.
Proof.
  intros H. pose proof (proj2 (obtainable_valid WOdd v H)) as Ho. cbn [valid] in Ho. split; [assumption | apply odd_nonzero; assumption].
Qed.

Lemma nonzero_new_exact a : wf a ->
  nz_new_uint a = (if eval a =? 0 then NoneV else Val [a]) /\
  nz_new_boxed a = (if eval a =? 0 then NoneV else Val [a]) /\
  nz_to_nz_uint a = (if eval a =? 0 then NoneV else Val [a]) /\
  nz_new_unwrap_uint a = (if eval a =? 0 then PanicV else Val [a]).
Proof.
  intros H. split; [exact (nz_new_uint_eq a H)|]. split; [exact (nz_new_boxed_eq a H)|].
  split; [exact (nz_to_nz_uint_eq a H) | exact (nz_new_unwrap_uint_eq a H)].
Qed.
Lemma nonzero_limb_exact x : is_word x ->
  nz_new_limb x = (if x =? 0 then NoneV else Val [[x]]) /\
  nz_to_nz_limb x = (if x =? 0 then NoneV else Val [[x]]) /\
  nz_new_unwrap_limb x = (if x =? 0 then PanicV else Val [[x]]).
Proof.
  intros H. split; [exact (nz_new_limb_eq x H)|]. split; [exact (nz_to_nz_limb_eq x H) | exact (nz_new_unwrap_limb_eq x H)].
Qed.
Lemma odd_new_exact a : wf a ->
  wodd_new a = (if Z.odd (eval a) then Val [a] else NoneV) /\
  wodd_to_odd a = (if Z.odd (eval a) then Val [a] else NoneV) /\
  wodd_to_odd_unwrap a = (if Z.odd (eval a) then Val [a] else PanicV).
Proof.
  intros H. split; [exact (wodd_new_eq a H)|]. split; [exact (wodd_to_odd_eq a H) | exact (wodd_to_odd_unwrap_eq a H)].
Qed.

Lemma default_is_one k n m : wsp_kind_n k n = Some m ->
  w_default k n = to_limbs m 1 /\ wf (w_default k n) /\ eval (w_default k n) = 1.
Proof. intros H. split; [exact (w_one_eq k n m H) | exact (eval_w_one k n m H)]. Qed.

Lemma sp_nonzero_loop_zeros n : forall f k cnt, sp_nonzero_loop f n (zeros k) cnt = SpExhausted.
Proof.
  induction f as [|f IH]; intros k cnt; [reflexivity|]. cbn [sp_nonzero_loop].
  destruct (length (zeros k) <? n)%nat; [reflexivity|].
  assert (Hz : eval (firstn n (zeros k)) = 0).
  { pose proof (eval_firstn_skipn n (zeros k)) as He. rewrite eval_zeros in He.
    pose proof (eval_nonneg _ (wf_firstn n _ (wf_zeros k))). pose proof (eval_nonneg _ (wf_skipn n _ (wf_zeros k))).
    pose proof (Bn_pos (length (firstn n (zeros k)))).
    assert (0 <= Bn (length (firstn n (zeros k))) * eval (skipn n (zeros k))) by (apply Z.mul_nonneg_nonneg; lia). lia. }
  rewrite Hz. cbn [Z.eqb]. unfold zeros. rewrite skipn_repeat. apply IH.
Qed.

(** an all-zero stream never yields a NonZero: the sampler runs out of words (RNG error), whatever its length *)
Lemma random_all_zero_stream n k nw nb : (0 < n)%nat -> nonzero_uint_random n (Rng (zeros k) nw nb) = None.
Proof.
  intros Hn. pose proof (nonzero_uint_random_spec n (zeros k) nw nb Hn (wf_zeros k)) as H.
  unfold sp_nonzero_random in H. rewrite sp_nonzero_loop_zeros in H. unfold rnd_agrees in H.
  destruct (nonzero_uint_random n (Rng (zeros k) nw nb)) as [[v [rest nw' nb']]|]; [contradiction | reflexivity].
Qed.
