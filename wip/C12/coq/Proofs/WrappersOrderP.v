(** C12 proofs, part 4: the decoders return the positional value of the STATED byte order (and fail otherwise). *)
From CB Require Import Model.Limbs Model.AddSub Model.Cmp Model.Conv Model.Rand Model.Wrappers
  Proofs.WordP Proofs.LimbsP Proofs.ConvDigitsP Proofs.ConvBytesP Proofs.ConvHexP Proofs.ConvP
  Proofs.WrappersP Proofs.WrappersValidP.
From Coq Require Import ZArith Lia List Bool String.
Import ListNotations.
Open Scope Z_scope. Open Scope list_scope.
Notation length := List.length.

(* little-endian / big-endian positional value of a byte string *)
Definition le_value (bs : list Z) : Z := evalb 256 bs.
Definition be_value (bs : list Z) : Z := evalb 256 (rev bs).

Lemma to_limbs_eval_small n x : 0 <= x < Bn n -> eval (to_limbs n x) = x.
Proof. apply to_limbs_small. Qed.

Theorem decoder_order_bytes : forall n bs r, wfd 256 bs ->
  (nz_from_le_bytes n bs = Val [r] -> length bs = (8 * n)%nat /\ length r = n /\ eval r = le_value bs /\ eval r <> 0) /\
  (nz_from_be_bytes n bs = Val [r] -> length bs = (8 * n)%nat /\ length r = n /\ eval r = be_value bs /\ eval r <> 0) /\
  (nz_from_le_bytes n bs = NoneV -> length bs = (8 * n)%nat /\ le_value bs = 0) /\
  (nz_from_be_bytes n bs = NoneV -> length bs = (8 * n)%nat /\ be_value bs = 0).
Proof.
  intros n bs r Hw. unfold le_value, be_value.
  rewrite nz_from_le_bytes_eq, nz_from_be_bytes_eq by assumption.
  destruct (Nat.eqb_spec (length bs) (8 * n)) as [Hl|]; [|repeat split; discriminate].
  pose proof (evalb_bytes_bound n bs Hw Hl) as Hle.
  pose proof (evalb_bytes_bound n (rev bs) (wfd_rev 256 bs Hw) ltac:(rewrite rev_length; assumption)) as Hbe.
  split; [|split; [|split]].
  - destruct (Z.eqb_spec (evalb 256 bs) 0); [discriminate|]. intros E.
    assert (Hr : r = to_limbs n (evalb 256 bs)) by congruence. subst r.
    rewrite length_to_limbs, to_limbs_small by assumption. auto.
  - destruct (Z.eqb_spec (evalb 256 (rev bs)) 0); [discriminate|]. intros E.
    assert (Hr : r = to_limbs n (evalb 256 (rev bs))) by congruence. subst r.
    rewrite length_to_limbs, to_limbs_small by assumption. auto.
  - destruct (Z.eqb_spec (evalb 256 bs) 0); [auto | discriminate].
  - destruct (Z.eqb_spec (evalb 256 (rev bs)) 0); [auto | discriminate].
Qed.

Theorem decoder_order_limb : forall bs r, wfd 256 bs ->
  (nz_limb_from_le_bytes bs = Val [r] -> length bs = 8%nat /\ eval r = le_value bs /\ eval r <> 0) /\
  (nz_limb_from_be_bytes bs = Val [r] -> length bs = 8%nat /\ eval r = be_value bs /\ eval r <> 0).
Proof.
  intros bs r Hw. unfold le_value, be_value.
  rewrite nz_limb_from_le_bytes_eq, nz_limb_from_be_bytes_eq by assumption.
  destruct (Nat.eqb_spec (length bs) 8) as [Hl|]; [|split; discriminate].
  pose proof (evalb_bytes_bound 1 bs Hw Hl) as Hle.
  pose proof (evalb_bytes_bound 1 (rev bs) (wfd_rev 256 bs Hw) ltac:(rewrite rev_length; assumption)) as Hbe.
  split.
  - destruct (Z.eqb_spec (evalb 256 bs) 0); [discriminate|]. intros E.
    assert (Hr : r = to_limbs 1 (evalb 256 bs)) by congruence. subst r.
    rewrite to_limbs_small by assumption. auto.
  - destruct (Z.eqb_spec (evalb 256 (rev bs)) 0); [discriminate|]. intros E.
    assert (Hr : r = to_limbs 1 (evalb 256 (rev bs))) by congruence. subst r.
    rewrite to_limbs_small by assumption. auto.
Qed.

(** hex: [ds] are the digit values of the characters in string order; big-endian reads them as one base-16 numeral,
    little-endian reads the byte pairs (high nibble first within a byte) least significant byte first *)
Theorem decoder_order_hex : forall n cs r, wfd 256 cs ->
  (odd_of_be_hex n cs = Val [r] ->
     length cs = (16 * n)%nat /\ exists ds, hexvals cs = Some ds /\ length r = n /\
     eval r = evalb 16 (rev ds) /\ Z.odd (eval r) = true) /\
  (odd_of_le_hex n cs = Val [r] ->
     length cs = (16 * n)%nat /\ exists ds, hexvals cs = Some ds /\ length r = n /\
     eval r = evalb 256 (nib_pairs ds) /\ Z.odd (eval r) = true).
Proof.
  intros n cs r Hw. split; intros E.
  - pose proof (odd_of_hex_eq false n cs Hw) as H. cbv iota in H. rewrite H in E. clear H.
    destruct (Nat.eqb_spec (length cs) (16 * n)) as [Hl|]; [|discriminate]. split; [assumption|].
    destruct (hexvals cs) as [ds|] eqn:Hh; [|discriminate]. exists ds. split; [reflexivity|].
    destruct (Z.odd (hex_value false ds)) eqn:Ho; [|discriminate].
    assert (Hr : r = to_limbs n (hex_value false ds)) by congruence. subst r.
    pose proof (hex_value_bound false n cs ds Hl Hh) as Hb.
    rewrite length_to_limbs, to_limbs_small by assumption. unfold hex_value in *. auto.
  - pose proof (odd_of_hex_eq true n cs Hw) as H. cbv iota in H. rewrite H in E. clear H.
    destruct (Nat.eqb_spec (length cs) (16 * n)) as [Hl|]; [|discriminate]. split; [assumption|].
    destruct (hexvals cs) as [ds|] eqn:Hh; [|discriminate]. exists ds. split; [reflexivity|].
    destruct (Z.odd (hex_value true ds)) eqn:Ho; [|discriminate].
    assert (Hr : r = to_limbs n (hex_value true ds)) by congruence. subst r.
    pose proof (hex_value_bound true n cs ds Hl Hh) as Hb.
    rewrite length_to_limbs, to_limbs_small by assumption. unfold hex_value in *. auto.
Qed.

(** serde: the payload is little-endian; zero / even payloads are rejected with the "invalid value" error *)
Theorem decoder_order_serde : forall n bs r, wfd 256 bs ->
  (nz_serde_uint n bs = Val [r] ->
     evalb 256 (firstn 8 bs) = Z.of_nat (8 * n) /\ eval r = le_value (firstn (8 * n) (skipn 8 bs)) /\ eval r <> 0) /\
  (odd_serde_uint n bs = Val [r] ->
     evalb 256 (firstn 8 bs) = Z.of_nat (8 * n) /\ eval r = le_value (firstn (8 * n) (skipn 8 bs)) /\ Z.odd (eval r) = true).
Proof.
  intros n bs r Hw. unfold le_value. rewrite nz_serde_uint_eq, odd_serde_uint_eq by assumption.
  destruct (uint_serde_de n bs) as [[|r0 [|? ?]]| | | |] eqn:Es; try (split; intros E; discriminate E).
  destruct (serde_de_strict n bs r0 Hw Es) as (_ & Hlen & _ & _ & Her). split.
  - destruct (Z.eqb_spec (eval r0) 0); [discriminate|]. intros E. assert (r = r0) by congruence. subst. auto.
  - destruct (Z.odd (eval r0)) eqn:Eo; [|discriminate]. intros E. assert (r = r0) by congruence. subst. auto.
Qed.
