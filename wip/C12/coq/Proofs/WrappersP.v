(** C12 proofs, part 1: closed forms of the gates and of every producer of Model/Wrappers.v.
    Each producer function is rewritten into "if <plain predicate on the represented integer> then Val [value] else
    <failure>", for all limb counts; parts 2 and 3 derive validity and model = spec from these closed forms. *)
From CB Require Import Model.Limbs Model.AddSub Model.Cmp Model.Conv Model.Rand Model.Wrappers
  Proofs.WordP Proofs.LimbsP Proofs.AddSubP Proofs.WordPredP Proofs.CmpWordP Proofs.CmpP Proofs.CmpBoxedP Proofs.CmpIntP
  Proofs.ConvDigitsP Proofs.ConvBytesP Proofs.ConvHexP Proofs.ConvBoxedP Proofs.ConvCopyP Proofs.ConvP.
From Coq Require Import ZArith Lia List Bool String.
Import ListNotations.
Open Scope Z_scope. Open Scope list_scope.
Notation length := List.length.

(* ------------------------------------------------------------------ validity *)
Definition valid (w : wrapper) (v : list Z) : Prop :=
  match w with WNonZero => eval v <> 0 | WOdd => Z.odd (eval v) = true end.

Lemma odd_nonzero x : Z.odd x = true -> x <> 0.
Proof. intros H ->. discriminate. Qed.

Lemma valid_odd_nz v : valid WOdd v -> valid WNonZero v.
Proof. cbn [valid]. apply odd_nonzero. Qed.

Lemma w_validb_spec w v : w_validb w v = true <-> valid w v.
Proof.
  destruct w; cbn [w_validb valid]; unfold w_nzb, w_oddb.
  - rewrite negb_true_iff, Z.eqb_neq. tauto.
  - tauto.
Qed.

(* ------------------------------------------------------------------ well-formed argument lists *)
Definition w_wf_args (a : list (list Z)) : Prop := Forall wf a.

Lemma w_wf_arg i a : w_wf_args a -> wf (arg i a).
Proof.
  unfold w_wf_args, arg. intros H. revert i. induction H as [|x l Hx Hl IH]; intros i.
  - destruct i; apply wf_nil.
  - destruct i; [exact Hx | apply IH].
Qed.

Lemma w_sarg_word i a : w_wf_args a -> is_word (sarg i a).
Proof.
  intros H. pose proof (w_wf_arg i a H) as Hw. unfold sarg, arg in *.
  destruct (nth i a []) as [|x l]; cbn [nth].
  - unfold is_word. pose proof B_gt1. lia.
  - apply wf_cons in Hw. destruct Hw as [Hx _]. exact Hx.
Qed.

Lemma wf_wfb ls : wf ls -> wfb ls = true.
Proof.
  induction ls as [|x r IH]; intros H; [reflexivity|]. apply wf_cons in H. destruct H as [Hx Hr].
  unfold wfb in *. cbn [forallb]. rewrite IH by assumption. unfold is_wordb, is_word in *.
  destruct (Z.leb_spec 0 x); [|lia]. destruct (Z.ltb_spec x B); [reflexivity | lia].
Qed.

Lemma w_wf_args_forallb a : w_wf_args a -> forallb wfb a = true.
Proof.
  unfold w_wf_args. induction 1 as [|x l Hx Hl IH]; [reflexivity|]. cbn [forallb]. rewrite wf_wfb, IH by assumption. reflexivity.
Qed.

Lemma w_dom_ok a k : w_wf_args a -> w_dom a k = k.
Proof. intros H. unfold w_dom. rewrite w_wf_args_forallb by assumption. reflexivity. Qed.

Lemma sarg_arg1 i a x : arg i a = [x] -> sarg i a = x.
Proof. unfold sarg, arg. intros ->. reflexivity. Qed.

Lemma eval_single x : eval [x] = x.
Proof. cbn [eval]. lia. Qed.

(* ------------------------------------------------------------------ the gates on Choice / ConstChoice *)
Lemma w_ctopt_b2z (b : bool) v : w_ctopt (b2z b) v = if b then Val [v] else NoneV.
Proof. destruct b; reflexivity. Qed.
Lemma w_cctopt_choice (b : bool) v : w_cctopt (choice_of_bool b) v = if b then Val [v] else NoneV.
Proof. unfold w_cctopt. rewrite cc_true_choice. reflexivity. Qed.
Lemma w_ccpanic_choice (b : bool) v : w_ccpanic (choice_of_bool b) v = if b then Val [v] else PanicV.
Proof. unfold w_ccpanic. rewrite cc_true_choice. reflexivity. Qed.

(* ------------------------------------------------------------------ closed forms: constructors *)
Lemma nz_new_limb_eq x : is_word x -> nz_new_limb x = if x =? 0 then NoneV else Val [[x]].
Proof.
  intros Hx. unfold nz_new_limb. rewrite limb_is_zero_spec, ch_not_b2z, w_ctopt_b2z by assumption.
  destruct (x =? 0); reflexivity.
Qed.
Lemma nz_new_uint_eq a : wf a -> nz_new_uint a = if eval a =? 0 then NoneV else Val [a].
Proof.
  intros Ha. unfold nz_new_uint. rewrite uint_is_zero_spec, ch_not_b2z, w_ctopt_b2z by assumption.
  destruct (eval a =? 0); reflexivity.
Qed.
Lemma nz_new_boxed_eq a : wf a -> nz_new_boxed a = if eval a =? 0 then NoneV else Val [a].
Proof.
  intros Ha. unfold nz_new_boxed. rewrite boxed_is_zero_spec, ch_not_b2z, w_ctopt_b2z by assumption.
  destruct (eval a =? 0); reflexivity.
Qed.
Lemma nz_to_nz_limb_eq x : is_word x -> nz_to_nz_limb x = if x =? 0 then NoneV else Val [[x]].
Proof.
  intros Hx. unfold nz_to_nz_limb, limb_is_nonzero. rewrite from_word_nonzero_spec, w_cctopt_choice by assumption.
  destruct (x =? 0); reflexivity.
Qed.
Lemma nz_to_nz_uint_eq a : wf a -> nz_to_nz_uint a = if eval a =? 0 then NoneV else Val [a].
Proof.
  intros Ha. unfold nz_to_nz_uint. rewrite uint_is_nonzero_spec, w_cctopt_choice by assumption.
  destruct (eval a =? 0); reflexivity.
Qed.
Lemma nz_new_unwrap_limb_eq x : is_word x -> nz_new_unwrap_limb x = if x =? 0 then PanicV else Val [[x]].
Proof.
  intros Hx. unfold nz_new_unwrap_limb, limb_is_nonzero. rewrite from_word_nonzero_spec, w_ccpanic_choice by assumption.
  destruct (x =? 0); reflexivity.
Qed.
Lemma nz_new_unwrap_uint_eq a : wf a -> nz_new_unwrap_uint a = if eval a =? 0 then PanicV else Val [a].
Proof.
  intros Ha. unfold nz_new_unwrap_uint. rewrite uint_is_nonzero_spec, w_ccpanic_choice by assumption.
  destruct (eval a =? 0); reflexivity.
Qed.
Lemma wodd_new_eq a : wf a -> wodd_new a = if Z.odd (eval a) then Val [a] else NoneV.
Proof. intros Ha. unfold wodd_new. rewrite integer_is_odd_spec, w_ctopt_b2z by assumption. reflexivity. Qed.
Lemma wodd_to_odd_eq a : wf a -> wodd_to_odd a = if Z.odd (eval a) then Val [a] else NoneV.
Proof. intros Ha. unfold wodd_to_odd. rewrite uint_is_odd_spec, w_cctopt_choice by assumption. reflexivity. Qed.
Lemma wodd_to_odd_unwrap_eq a : wf a -> wodd_to_odd_unwrap a = if Z.odd (eval a) then Val [a] else PanicV.
Proof. intros Ha. unfold wodd_to_odd_unwrap. rewrite uint_is_odd_spec, w_ccpanic_choice by assumption. reflexivity. Qed.

(* ------------------------------------------------------------------ constants *)
Lemma w_kind_cases k n m : wsp_kind_n k n = Some m ->
  (k = 0 /\ m = 1%nat) \/ ((k = 1 \/ k = 2) /\ m = n /\ (1 <= n)%nat).
Proof.
  unfold wsp_kind_n. destruct (Z.eqb_spec k 0) as [->|]; [intros E; injection E as <-; auto|].
  destruct (Z.eqb_spec k 1) as [->|]; cbn [orb].
  - destruct n; [discriminate|]. intros E; injection E as <-. right. split; [auto|]. split; [reflexivity | lia].
  - destruct (Z.eqb_spec k 2) as [->|]; [|discriminate].
    destruct n; [discriminate|]. intros E; injection E as <-. right. split; [auto|]. split; [reflexivity | lia].
Qed.

Lemma to_limbs_1 n : (1 <= n)%nat -> to_limbs n 1 = one_limbs n.
Proof.
  intros Hn. symmetry. apply to_limbs_unique; [apply wf_one_limbs | apply length_one_limbs|].
  rewrite eval_one_limbs by lia. pose proof (Bn_pos n). destruct n; [lia|].
  rewrite Bn_S in *. pose proof B_gt1. pose proof (Bn_pos n). symmetry. apply Z.mod_small. nia.
Qed.

Lemma w_one_eq k n m : wsp_kind_n k n = Some m -> w_one k n = to_limbs m 1.
Proof.
  intros H. destruct (w_kind_cases k n m H) as [[-> ->]|[Hk [-> Hn]]]; unfold w_one.
  - cbn [Z.eqb Pos.eqb]. rewrite to_limbs_1 by lia. reflexivity.
  - destruct Hk as [-> | ->]; cbn [Z.eqb Pos.eqb]; rewrite to_limbs_1 by assumption; reflexivity.
Qed.

Lemma eval_w_one k n m : wsp_kind_n k n = Some m -> wf (w_one k n) /\ eval (w_one k n) = 1.
Proof.
  intros H. rewrite (w_one_eq k n m H). split; [apply wf_to_limbs|].
  rewrite eval_to_limbs. assert (1 <= m)%nat by (destruct (w_kind_cases k n m H) as [[_ ->]|[_ [-> ?]]]; lia).
  destruct m; [lia|]. rewrite Bn_S. pose proof B_gt1. pose proof (Bn_pos m). apply Z.mod_small. nia.
Qed.

Lemma eval_maxs n : eval (maxs n) = Bn n - 1.
Proof. unfold maxs. apply eval_repeat_MAXW. Qed.
Lemma wf_maxs n : wf (maxs n).
Proof. unfold maxs. apply wf_repeat. apply is_word_MAXW. Qed.
Lemma length_maxs n : length (maxs n) = n.
Proof. unfold maxs. apply repeat_length. Qed.

Lemma w_max_facts k n m : wsp_kind_n k n = Some m ->
  wf (w_max k n) /\ length (w_max k n) = m /\ eval (w_max k n) = wsp_max_val k m /\ 0 < wsp_max_val k m < Bn m.
Proof.
  intros H. destruct (w_kind_cases k n m H) as [[-> ->]|[Hk [-> Hn]]]; unfold w_max, wsp_max_val.
  - cbn [Z.eqb Pos.eqb]. split; [apply wf_cons; split; [apply is_word_MAXW | apply wf_nil]|]. split; [reflexivity|].
    rewrite eval_single. rewrite Bn_S, Bn_0, MAXW_val. pose proof B_gt1. lia.
  - destruct Hk as [-> | ->]; cbn [Z.eqb Pos.eqb].
    + split; [apply wf_maxs|]. split; [apply length_maxs|]. rewrite eval_maxs. split; [reflexivity|].
      destruct n; [lia|]. rewrite Bn_S. pose proof B_gt1. pose proof (Bn_pos n). nia.
    + destruct n as [|n']; [lia|]. split; [apply wf_int_max|]. split; [apply length_int_max|].
      rewrite eval_int_max. unfold half. split; [reflexivity|].
      assert (Hh : Bn (S n') / 2 = 2 ^ 63 * Bn n').
      { rewrite Bn_S, B_half. replace (2 * 2 ^ 63 * Bn n') with ((2 ^ 63 * Bn n') * 2) by ring. apply Z.div_mul. lia. }
      rewrite Hh. rewrite Bn_S, B_half. pose proof (Bn_pos n'). lia.
Qed.

(* ------------------------------------------------------------------ From<core::num::NonZeroU*> *)
Lemma nz_uint_from_prim_eq bits n v : 0 <= v < 2 ^ bits -> (bits = 128 \/ 0 <= bits <= 64) ->
  nz_uint_from_prim bits n v =
    if Nat.ltb n (if bits =? 128 then 2 else 1) then PanicV else Val [to_limbs n v].
Proof.
  intros Hv Hb. unfold nz_uint_from_prim, vpanic.
  destruct (Z.eqb_spec bits 128) as [->|Hne].
  - assert (Hv' : 0 <= v < B * B) by (rewrite B_val; change (2 ^ 64 * 2 ^ 64) with (2 ^ 128); assumption).
    destruct (uint_from_u128 n v) as [r|] eqn:E.
    + destruct (uint_from_u128_spec n v r Hv' E) as (Hn & Hw & Hl & He).
      destruct (Nat.ltb_spec n 2); [lia|]. do 2 f_equal. subst n. rewrite <- He. symmetry. apply to_limbs_eval. assumption.
    + apply uint_from_u128_panics in E. destruct (Nat.ltb_spec n 2); [reflexivity | lia].
  - assert (Hw : is_word v).
    { unfold is_word. split; [lia|]. destruct Hb as [|Hb]; [contradiction|]. rewrite B_val.
      apply Z.lt_le_trans with (2 ^ bits); [lia|]. apply Z.pow_le_mono_r; lia. }
    destruct n as [|n']; [reflexivity|]. cbn [uint_from_small Nat.ltb Nat.leb].
    do 2 f_equal. apply to_limbs_unique.
    + apply wf_cons. split; [assumption | apply wf_zeros].
    + cbn [length]. rewrite length_zeros. reflexivity.
    + cbn [eval]. rewrite eval_zeros. rewrite Bn_S. pose proof (Bn_pos n'). unfold is_word in Hw.
      symmetry. rewrite Z.mul_0_r, Z.add_0_r. apply Z.mod_small. nia.
Qed.

(* ------------------------------------------------------------------ NonZero<Int>::abs_sign *)
Lemma nz_int_abs_sign_eq a : wf a -> a <> [] -> eval a <> 0 ->
  nz_int_abs_sign a = Val [to_limbs (length a) (Z.abs (seval a)); vbool (seval a <? 0)] /\ Z.abs (seval a) <> 0 /\
  0 <= Z.abs (seval a) < Bn (length a).
Proof.
  intros Ha Hn Hz. unfold nz_int_abs_sign. destruct (int_abs_sign a) as [m sg] eqn:E.
  destruct (int_abs_sign_spec a m sg Ha Hn E) as (Hsg & Hm & Hwm & Hlm).
  assert (Hs : seval a <> 0) by (intros H0; apply (seval_zero_iff a Ha) in H0; contradiction).
  rewrite uint_is_nonzero_spec, cc_true_choice by assumption.
  destruct (Z.eqb_spec (eval m) 0) as [E0|_]; [lia|]. cbn [negb].
  pose proof (eval_bounds m Hwm) as Hb. rewrite Hlm, Hm in Hb.
  split; [|split; [lia | assumption]].
  rewrite Hsg, cc_true_choice. do 2 f_equal. rewrite <- Hm, <- Hlm. symmetry. apply to_limbs_eval. assumption.
Qed.

(* ------------------------------------------------------------------ byte decoders *)
Lemma bytes_ok_wfd bs : bytes_ok bs = true <-> wfd 256 bs.
Proof.
  unfold bytes_ok. induction bs as [|c r IH]; cbn [forallb]; [split; [intros; apply wfd_nil | reflexivity]|].
  rewrite andb_true_iff, IH, wfd_cons, andb_true_iff, Z.leb_le, Z.ltb_lt. tauto.
Qed.

Lemma to_limbs_of r n : wf r -> length r = n -> r = to_limbs n (eval r).
Proof. intros Hw <-. symmetry. apply to_limbs_eval. assumption. Qed.

Lemma nz_from_le_bytes_eq n bs : wfd 256 bs -> nz_from_le_bytes n bs =
  if Nat.eqb (length bs) (8 * n) then (if evalb 256 bs =? 0 then NoneV else Val [to_limbs n (evalb 256 bs)]) else PanicV.
Proof.
  intros Hw. unfold nz_from_le_bytes, nz_gate_uint. destruct (uint_from_le_slice n bs) as [r|] eqn:E.
  - destruct (from_le_slice_spec n bs r Hw E) as (Hl & Hwr & Hlr & Her).
    rewrite Hl, Nat.eqb_refl. rewrite nz_new_uint_eq by assumption. rewrite <- Her.
    rewrite <- (to_limbs_of r n) by assumption. reflexivity.
  - apply from_le_slice_len in E. destruct (Nat.eqb_spec (length bs) (8 * n)); [contradiction | reflexivity].
Qed.
Lemma nz_from_be_bytes_eq n bs : wfd 256 bs -> nz_from_be_bytes n bs =
  if Nat.eqb (length bs) (8 * n)
  then (if evalb 256 (rev bs) =? 0 then NoneV else Val [to_limbs n (evalb 256 (rev bs))]) else PanicV.
Proof.
  intros Hw. unfold nz_from_be_bytes, nz_gate_uint. destruct (uint_from_be_slice n bs) as [r|] eqn:E.
  - destruct (from_be_slice_spec n bs r Hw E) as (Hl & Hwr & Hlr & Her).
    rewrite Hl, Nat.eqb_refl. rewrite nz_new_uint_eq by assumption. rewrite <- Her.
    rewrite <- (to_limbs_of r n) by assumption. reflexivity.
  - apply from_be_slice_len in E. destruct (Nat.eqb_spec (length bs) (8 * n)); [contradiction | reflexivity].
Qed.

Lemma evalb8_word bs : wfd 256 bs -> length bs = 8%nat -> is_word (evalb 256 bs).
Proof.
  intros Hw Hl. pose proof (evalb_bounds 256 bs ltac:(lia) Hw) as Hb. rewrite Hl in Hb.
  unfold is_word. rewrite B_val. change (256 ^ Z.of_nat 8) with (2 ^ 64) in Hb. assumption.
Qed.
Lemma to_limbs_1_word x : is_word x -> to_limbs 1 x = [x].
Proof.
  intros Hx. symmetry. apply to_limbs_unique; [apply wf_cons; split; [assumption | apply wf_nil] | reflexivity|].
  rewrite eval_single, Bn_S, Bn_0, Z.mul_1_r. symmetry. apply Z.mod_small. assumption.
Qed.
Lemma nz_limb_from_le_bytes_eq bs : wfd 256 bs -> nz_limb_from_le_bytes bs =
  if Nat.eqb (length bs) 8 then (if evalb 256 bs =? 0 then NoneV else Val [to_limbs 1 (evalb 256 bs)]) else PanicV.
Proof.
  intros Hw. unfold nz_limb_from_le_bytes, word_from_le_bytes.
  destruct (Nat.eqb_spec (length bs) 8) as [Hl|]; [|reflexivity].
  pose proof (evalb8_word bs Hw Hl). rewrite nz_new_limb_eq, to_limbs_1_word by assumption. reflexivity.
Qed.
Lemma nz_limb_from_be_bytes_eq bs : wfd 256 bs -> nz_limb_from_be_bytes bs =
  if Nat.eqb (length bs) 8
  then (if evalb 256 (rev bs) =? 0 then NoneV else Val [to_limbs 1 (evalb 256 (rev bs))]) else PanicV.
Proof.
  intros Hw. unfold nz_limb_from_be_bytes, word_from_be_bytes.
  destruct (Nat.eqb_spec (length bs) 8) as [Hl|]; [|reflexivity].
  pose proof (evalb8_word (rev bs) (wfd_rev 256 bs Hw) ltac:(rewrite rev_length; assumption)).
  rewrite nz_new_limb_eq, to_limbs_1_word by assumption. reflexivity.
Qed.

(* ------------------------------------------------------------------ hex decoders *)
(* the value of a hex string under the two byte orders *)
Definition hex_value (le : bool) (ds : list Z) : Z := if le then evalb 256 (nib_pairs ds) else evalb 16 (rev ds).

Lemma odd_gate_hex_eq r : wf r -> odd_gate_hex (HexOk r) = if Z.odd (eval r) then Val [r] else PanicV.
Proof. intros Hr. unfold odd_gate_hex. rewrite uint_is_odd_spec, w_ccpanic_choice by assumption. reflexivity. Qed.

Lemma odd_of_hex_eq (le : bool) n cs : wfd 256 cs ->
  (if le then odd_of_le_hex n cs else odd_of_be_hex n cs) =
  if Nat.eqb (length cs) (16 * n) then
    match hexvals cs with
    | Some ds => if Z.odd (hex_value le ds) then Val [to_limbs n (hex_value le ds)] else PanicV
    | None => PanicV
    end
  else PanicV.
Proof.
  intros Hw. destruct le; unfold odd_of_le_hex, odd_of_be_hex, hex_value.
  - pose proof (from_le_hex_spec n cs Hw) as S. destruct (uint_from_le_hex n cs) as [r| |].
    + destruct S as (Hl & ds & Hh & Hwr & Hlr & Her). rewrite Hl, Nat.eqb_refl, Hh, odd_gate_hex_eq by assumption.
      rewrite <- Her, <- (to_limbs_of r n) by assumption. reflexivity.
    + destruct S as [Hl Hh]. rewrite Hl, Nat.eqb_refl, Hh. reflexivity.
    + destruct (Nat.eqb_spec (length cs) (16 * n)); [contradiction | reflexivity].
  - pose proof (from_be_hex_spec n cs Hw) as S. destruct (uint_from_be_hex n cs) as [r| |].
    + destruct S as (Hl & ds & Hh & Hwr & Hlr & Her). rewrite Hl, Nat.eqb_refl, Hh, odd_gate_hex_eq by assumption.
      rewrite <- Her, <- (to_limbs_of r n) by assumption. reflexivity.
    + destruct S as [Hl Hh]. rewrite Hl, Nat.eqb_refl, Hh. reflexivity.
    + destruct (Nat.eqb_spec (length cs) (16 * n)); [contradiction | reflexivity].
Qed.

(* ------------------------------------------------------------------ conditional selection *)
Lemma carg_b2z i a : carg i a = b2z (negb (sarg i a =? 0)).
Proof. reflexivity. Qed.

Lemma w_select_eq a b (c : bool) : wf a -> wf b -> length a = length b ->
  w_select a b (b2z c) = Val [if c then b else a].
Proof. intros. unfold w_select. rewrite ct_select_limbs_spec by assumption. reflexivity. Qed.
Lemma w_swap_eq a b (c : bool) : wf a -> wf b -> length a = length b ->
  w_swap a b (b2z c) = if c then Val [b; a] else Val [a; b].
Proof.
  intros. unfold w_swap. rewrite ct_swap_limbs_spec by assumption. unfold spec_select. destruct c; reflexivity.
Qed.
Lemma w_select_limb_eq x y (c : bool) : is_word x -> is_word y ->
  w_select_limb x y (b2z c) = Val [[if c then y else x]].
Proof. intros. unfold w_select_limb. rewrite st_select_spec by assumption. reflexivity. Qed.

(* ------------------------------------------------------------------ serde *)
Lemma uint_serde_de_eq n bs : wfd 256 bs -> uint_serde_de n bs =
  if Nat.ltb (length bs) 8 then ErrV 0
  else let len := evalb 256 (firstn 8 bs) in
       if Z.of_nat (length bs - 8) <? len then ErrV 0
       else if negb (len =? Z.of_nat (8 * n)) then ErrV 0
       else Val [to_limbs n (evalb 256 (firstn (8 * n) (skipn 8 bs)))].
Proof.
  intros Hw. unfold uint_serde_de, word_from_le_bytes.
  destruct (Nat.ltb_spec (length bs) 8); [reflexivity|]. cbv zeta. rewrite skipn_length.
  destruct (Z.ltb_spec (Z.of_nat (length bs - 8)) (evalb 256 (firstn 8 bs))); [reflexivity|].
  destruct (Z.eqb_spec (evalb 256 (firstn 8 bs)) (Z.of_nat (8 * n))) as [He|]; cbn [negb]; [|reflexivity].
  assert (Hl : length (firstn (8 * n) (skipn 8 bs)) = (8 * n)%nat).
  { rewrite firstn_length, skipn_length. lia. }
  assert (Hwf : wfd 256 (firstn (8 * n) (skipn 8 bs))) by (apply wfd_firstn, wfd_skipn; assumption).
  destruct (uint_from_le_slice n (firstn (8 * n) (skipn 8 bs))) as [r|] eqn:E.
  - destruct (from_le_slice_spec _ _ _ Hwf E) as (_ & Hwr & Hlr & Her).
    rewrite <- Her, <- (to_limbs_of r n) by assumption. reflexivity.
  - apply from_le_slice_len in E. contradiction.
Qed.

Lemma nz_serde_uint_eq n bs : wfd 256 bs -> nz_serde_uint n bs =
  match uint_serde_de n bs with
  | Val [r] => if eval r =? 0 then ErrV W_E_INVALID else Val [r]
  | o => o
  end.
Proof.
  intros Hw. unfold nz_serde_uint. destruct (uint_serde_de n bs) as [vs| | | |] eqn:E; try reflexivity.
  destruct vs as [|r [|? ?]]; try reflexivity.
  destruct (serde_de_strict n bs r Hw E) as (_ & _ & Hwr & _).
  rewrite uint_is_zero_spec by assumption. destruct (eval r =? 0); reflexivity.
Qed.
Lemma odd_serde_uint_eq n bs : wfd 256 bs -> odd_serde_uint n bs =
  match uint_serde_de n bs with
  | Val [r] => if Z.odd (eval r) then Val [r] else ErrV W_E_INVALID
  | o => o
  end.
Proof.
  intros Hw. unfold odd_serde_uint. destruct (uint_serde_de n bs) as [vs| | | |] eqn:E; try reflexivity.
  destruct vs as [|r [|? ?]]; try reflexivity.
  destruct (serde_de_strict n bs r Hw E) as (_ & _ & Hwr & _).
  rewrite integer_is_odd_spec by assumption. destruct (Z.odd (eval r)); reflexivity.
Qed.

Lemma nz_serde_limb_eq bs : wfd 256 bs -> nz_serde_limb bs =
  if Nat.ltb (length bs) 8 then ErrV W_E_DECODE
  else if evalb 256 (firstn 8 bs) =? 0 then ErrV W_E_INVALID else Val [to_limbs 1 (evalb 256 (firstn 8 bs))].
Proof.
  intros Hw. unfold nz_serde_limb, word_from_le_bytes. destruct (Nat.ltb_spec (length bs) 8); [reflexivity|].
  cbv zeta. assert (Hx : is_word (evalb 256 (firstn 8 bs))).
  { apply evalb8_word; [apply wfd_firstn; assumption | rewrite firstn_length; lia]. }
  rewrite limb_is_zero_spec, to_limbs_1_word by assumption. destruct (evalb 256 (firstn 8 bs) =? 0); reflexivity.
Qed.

(* ------------------------------------------------------------------ wrappers made from wrappers *)
Lemma nz_boxed_widen_eq a p : wf a -> a <> [] -> nz_boxed_widen a p =
  if p <? 64 * Z.of_nat (length a) then PanicV else Val [to_limbs (limbs_for_precision p) (eval a)].
Proof.
  intros Ha Hn. assert (Hl : (1 <= length a)%nat) by (destruct a; [congruence | cbn [length]; lia]).
  unfold nz_boxed_widen, vpanic. destruct (boxed_widen a p) as [r|] eqn:E.
  - destruct (boxed_widen_spec a p r Ha Hl E) as (Hp & Hwr & Hlr & Her).
    destruct (Z.ltb_spec p (64 * Z.of_nat (length a))); [lia|].
    rewrite <- Her, <- (to_limbs_of r _) by assumption. reflexivity.
  - apply boxed_widen_panics in E; [|assumption]. destruct (Z.ltb_spec p (64 * Z.of_nat (length a))); [reflexivity | lia].
Qed.
