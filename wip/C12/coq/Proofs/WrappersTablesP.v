(** C12 proofs, part 3: the table theorem.  For every entry of the producer table, the model and the specification
    agree on every well-formed argument list for which the specification is defined (spec <> Unsupported): so
    impl = model (sampled by the correspondence run) and model = spec (proved here) for all widths and values. *)
From CB Require Import Model.Limbs Model.AddSub Model.Cmp Model.Conv Model.Rand Model.Wrappers
  Proofs.WordP Proofs.LimbsP Proofs.AddSubP Proofs.WordPredP Proofs.CmpWordP Proofs.CmpP Proofs.CmpBoxedP Proofs.CmpIntP
  Proofs.ConvDigitsP Proofs.ConvBytesP Proofs.ConvHexP Proofs.ConvBoxedP Proofs.ConvCopyP Proofs.ConvP
  Proofs.RandBaseP Proofs.RandModP Proofs.RandBitsP Proofs.RandMiscP Proofs.WrappersP Proofs.WrappersValidP.
From Coq Require Import ZArith Lia List Bool String.
Import ListNotations.
Open Scope Z_scope. Open Scope list_scope.
Notation length := List.length.

Definition table_ok (p : pentry) : Prop :=
  forall dbg a, w_wf_args a -> pe_spec p dbg a <> Unsupported -> pe_model p dbg a = pe_spec p dbg a.

Ltac tb_open :=
  intros dbg a Hwf Hs; cbn [pe_model pe_spec] in *.

(* ------------------------------------------------------------------ the spec gates *)
Lemma wsp_nz_eq bad a : wf a -> a <> [] -> wsp_nz bad a = if eval a =? 0 then bad else Val [a].
Proof.
  intros Ha Hn. destruct a as [|x r]; [congruence|]. unfold wsp_nz, wsp_gate, w_nzb.
  rewrite to_limbs_eval by assumption. destruct (eval (x :: r) =? 0); reflexivity.
Qed.
Lemma wsp_od_eq bad a : wf a -> a <> [] -> wsp_od bad a = if Z.odd (eval a) then Val [a] else bad.
Proof.
  intros Ha Hn. destruct a as [|x r]; [congruence|]. unfold wsp_od, wsp_gate, w_oddb.
  rewrite to_limbs_eval by assumption. reflexivity.
Qed.
Lemma wsp_nz_defined bad a : wsp_nz bad a <> Unsupported -> a <> [].
Proof. intros H ->. apply H. reflexivity. Qed.
Lemma wsp_od_defined bad a : wsp_od bad a <> Unsupported -> a <> [].
Proof. intros H ->. apply H. reflexivity. Qed.

Lemma wsp_scalar_inv a i k : wsp_scalar a i k <> Unsupported -> length (arg i a) = 1%nat /\ wsp_scalar a i k = k.
Proof.
  unfold wsp_scalar. destruct (Nat.eqb_spec (length (arg i a)) 1); [auto | intros H; contradiction H; reflexivity].
Qed.

Lemma arg_single i a : length (arg i a) = 1%nat -> arg i a = [sarg i a].
Proof. intros H. rewrite (single_of_len1 _ H) at 1. reflexivity. Qed.

(* ------------------------------------------------------------------ gated constructors *)
Lemma tb_limb_gate (f : Z -> outcome) bad a :
  (forall x, is_word x -> f x = if x =? 0 then bad else Val [[x]]) ->
  w_wf_args a -> w_dom a (wsp_scalar a 0 (wsp_nz bad (arg 0 a))) <> Unsupported ->
  f (sarg 0 a) = w_dom a (wsp_scalar a 0 (wsp_nz bad (arg 0 a))).
Proof.
  intros Hf Hwf Hs. rewrite w_dom_ok in * by assumption.
  destruct (wsp_scalar_inv a 0 _ Hs) as [Hl Hk]. rewrite Hk. clear Hk Hs.
  pose proof (w_sarg_word 0 a Hwf) as Hx. rewrite (arg_single 0 a Hl).
  rewrite Hf by assumption. rewrite wsp_nz_eq by (try (apply wf_single; assumption); discriminate).
  rewrite eval_single. reflexivity.
Qed.

Lemma tb_nz_new_limb : table_ok pe_w_nz_new_limb.
Proof. unfold pe_w_nz_new_limb. tb_open. apply tb_limb_gate; [exact nz_new_limb_eq | assumption | assumption]. Qed.
Lemma tb_nz_to_nz_limb : table_ok pe_w_nz_to_nz_limb.
Proof. unfold pe_w_nz_to_nz_limb. tb_open. apply tb_limb_gate; [exact nz_to_nz_limb_eq | assumption | assumption]. Qed.
Lemma tb_nz_new_unwrap_limb : table_ok pe_w_nz_new_unwrap_limb.
Proof. unfold pe_w_nz_new_unwrap_limb. tb_open. apply tb_limb_gate; [exact nz_new_unwrap_limb_eq | assumption | assumption]. Qed.

Ltac tb_gate lem slem sdef :=
  tb_open; rewrite w_dom_ok in * by assumption;
  match goal with Hwf : w_wf_args ?a |- _ => pose proof (w_wf_arg 0 a Hwf) as Ha end;
  match goal with Hs : _ <> Unsupported |- _ => apply sdef in Hs end;
  rewrite lem, slem by assumption; reflexivity.

Lemma tb_nz_new_uint : table_ok pe_w_nz_new_uint.
Proof. unfold pe_w_nz_new_uint. tb_gate nz_new_uint_eq wsp_nz_eq wsp_nz_defined. Qed.
Lemma tb_nz_new_boxed : table_ok pe_w_nz_new_boxed.
Proof. unfold pe_w_nz_new_boxed. tb_gate nz_new_boxed_eq wsp_nz_eq wsp_nz_defined. Qed.
Lemma tb_nz_to_nz_uint : table_ok pe_w_nz_to_nz_uint.
Proof. unfold pe_w_nz_to_nz_uint. tb_gate nz_to_nz_uint_eq wsp_nz_eq wsp_nz_defined. Qed.
Lemma tb_nz_new_unwrap_uint : table_ok pe_w_nz_new_unwrap_uint.
Proof. unfold pe_w_nz_new_unwrap_uint. tb_gate nz_new_unwrap_uint_eq wsp_nz_eq wsp_nz_defined. Qed.
Lemma tb_odd_new : table_ok pe_w_odd_new.
Proof. unfold pe_w_odd_new. tb_gate wodd_new_eq wsp_od_eq wsp_od_defined. Qed.
Lemma tb_odd_to_odd : table_ok pe_w_odd_to_odd.
Proof. unfold pe_w_odd_to_odd. tb_gate wodd_to_odd_eq wsp_od_eq wsp_od_defined. Qed.
Lemma tb_odd_to_odd_unwrap : table_ok pe_w_odd_to_odd_unwrap.
Proof. unfold pe_w_odd_to_odd_unwrap. tb_gate wodd_to_odd_unwrap_eq wsp_od_eq wsp_od_defined. Qed.

(* ------------------------------------------------------------------ constants *)
Lemma tb_nz_one : table_ok pe_w_nz_one.
Proof.
  unfold pe_w_nz_one. tb_open. unfold w_typed. destruct (wsp_kind_n (sarg 0 a) (w_n 1 a)) as [m|] eqn:Hk; [|reflexivity].
  rewrite (w_one_eq _ _ m Hk). reflexivity.
Qed.
Lemma tb_nz_default : table_ok pe_w_nz_default.
Proof.
  unfold pe_w_nz_default. tb_open. unfold w_typed, w_default. destruct (wsp_kind_n (sarg 0 a) (w_n 1 a)) as [m|] eqn:Hk; [|reflexivity].
  rewrite (w_one_eq _ _ m Hk). reflexivity.
Qed.
Lemma tb_odd_default : table_ok pe_w_odd_default.
Proof.
  unfold pe_w_odd_default. tb_open. unfold w_typed, w_default. destruct (wsp_kind_n (sarg 0 a) (w_n 1 a)) as [m|] eqn:Hk; [|reflexivity].
  rewrite (w_one_eq _ _ m Hk). reflexivity.
Qed.
Lemma tb_nz_max : table_ok pe_w_nz_max.
Proof.
  unfold pe_w_nz_max. tb_open. unfold w_typed. destruct (wsp_kind_n (sarg 0 a) (w_n 1 a)) as [m|] eqn:Hk; [|reflexivity].
  destruct (w_max_facts _ _ m Hk) as (Hw & Hl & He & Hr). do 2 f_equal.
  apply to_limbs_unique; [assumption | assumption|]. rewrite He. symmetry. apply Z.mod_small. lia.
Qed.

(* ------------------------------------------------------------------ From<core::num::NonZeroU*> *)
Lemma wsp_prim_ok_inv bits v : wsp_prim_ok bits v = true ->
  (bits = 8 \/ bits = 16 \/ bits = 32 \/ bits = 64 \/ bits = 128) /\ 0 < v < 2 ^ bits.
Proof.
  unfold wsp_prim_ok. rewrite !andb_true_iff, !orb_true_iff, !Z.eqb_eq, !Z.ltb_lt. tauto.
Qed.

Lemma tb_nz_from_prim_limb : table_ok pe_w_nz_from_prim_limb.
Proof.
  unfold pe_w_nz_from_prim_limb. tb_open. cbv zeta in *.
  destruct (nz_prim_arg 64 (arg 0 a)) as [v|] eqn:Ev; [|reflexivity].
  destruct (nz_prim_arg_spec 64 _ v (w_wf_arg 0 a Hwf) Ev) as (_ & H0 & Hb). change (64 =? 128) with false in Hb. cbv iota in Hb.
  destruct (wsp_prim_ok (sarg 1 a) v && (sarg 1 a <=? 64)); [|contradiction Hs; reflexivity].
  unfold nz_limb_from_prim. rewrite to_limbs_1_word by (unfold is_word; lia). reflexivity.
Qed.
Lemma tb_nz_from_prim_uint : table_ok pe_w_nz_from_prim_uint.
Proof.
  unfold pe_w_nz_from_prim_uint. tb_open. cbv zeta in *.
  destruct (nz_prim_arg (sarg 1 a) (arg 0 a)) as [v|] eqn:Ev; [|reflexivity].
  destruct (wsp_prim_ok (sarg 1 a) v) eqn:Hok; cbn [negb] in *; [|contradiction Hs; reflexivity].
  destruct (wsp_prim_ok_inv _ _ Hok) as [Hbits Hv].
  apply nz_uint_from_prim_eq; [lia | lia].
Qed.

(* ------------------------------------------------------------------ abs_sign *)
Lemma tb_nz_abs_sign : table_ok pe_w_nz_abs_sign.
Proof.
  unfold pe_w_nz_abs_sign. tb_open. rewrite w_dom_ok in * by assumption. unfold ln.
  pose proof (w_wf_arg 0 a Hwf) as Ha.
  destruct (arg 0 a) as [|x r] eqn:Ea; [contradiction Hs; reflexivity|]. rewrite <- Ea in *.
  unfold w_nzb in *. destruct (Z.eqb_spec (eval (arg 0 a)) 0) as [|Hnz]; cbn [negb] in *; [contradiction Hs; reflexivity|].
  destruct (nz_int_abs_sign_eq (arg 0 a) Ha ltac:(rewrite Ea; discriminate) Hnz) as (Eq & _). exact Eq.
Qed.

(* ------------------------------------------------------------------ decoders *)
Lemma sp_bytes_arg_inv bs k : sp_bytes_arg bs k <> Unsupported -> wfd 256 bs /\ sp_bytes_arg bs k = k.
Proof.
  unfold sp_bytes_arg. destruct (bytes_ok bs) eqn:E; [|intros H; contradiction H; reflexivity].
  intros _. split; [apply bytes_ok_wfd; assumption | reflexivity].
Qed.

Lemma horner_rev b ds : horner b (rev ds) = evalb b ds.
Proof. rewrite horner_evalb, rev_involutive. reflexivity. Qed.

Lemma tb_nz_bytes_gen (le : bool) n bs :
  sp_nonzero le n bs <> Unsupported ->
  (if le then nz_from_le_bytes n bs else nz_from_be_bytes n bs) = sp_nonzero le n bs.
Proof.
  intros Hs. unfold sp_nonzero in *. destruct (sp_bytes_arg_inv _ _ Hs) as [Hw ->]. cbv zeta.
  destruct le.
  - rewrite nz_from_le_bytes_eq, horner_rev by assumption. reflexivity.
  - rewrite nz_from_be_bytes_eq, horner_evalb by assumption. reflexivity.
Qed.
Lemma tb_nz_from_be_bytes : table_ok pe_w_nz_from_be_bytes.
Proof. unfold pe_w_nz_from_be_bytes. tb_open. apply (tb_nz_bytes_gen false); assumption. Qed.
Lemma tb_nz_from_le_bytes : table_ok pe_w_nz_from_le_bytes.
Proof. unfold pe_w_nz_from_le_bytes. tb_open. apply (tb_nz_bytes_gen true); assumption. Qed.
Lemma tb_nz_from_be_byte_array : table_ok pe_w_nz_from_be_byte_array.
Proof. unfold pe_w_nz_from_be_byte_array. tb_open. apply (tb_nz_bytes_gen false); assumption. Qed.
Lemma tb_nz_from_le_byte_array : table_ok pe_w_nz_from_le_byte_array.
Proof. unfold pe_w_nz_from_le_byte_array. tb_open. apply (tb_nz_bytes_gen true); assumption. Qed.

Lemma tb_nz_from_be_bytes_limb : table_ok pe_w_nz_from_be_bytes_limb.
Proof.
  unfold pe_w_nz_from_be_bytes_limb. tb_open. unfold wsp_nz_bytes, sp_nonzero in *.
  destruct (sp_bytes_arg_inv _ _ Hs) as [Hw ->]. cbv zeta.
  rewrite nz_limb_from_be_bytes_eq, horner_evalb by assumption. reflexivity.
Qed.
Lemma tb_nz_from_le_bytes_limb : table_ok pe_w_nz_from_le_bytes_limb.
Proof.
  unfold pe_w_nz_from_le_bytes_limb. tb_open. unfold wsp_nz_bytes, sp_nonzero in *.
  destruct (sp_bytes_arg_inv _ _ Hs) as [Hw ->]. cbv zeta.
  rewrite nz_limb_from_le_bytes_eq, horner_rev by assumption. reflexivity.
Qed.

Lemma tb_odd_hex_gen (le : bool) n cs :
  sp_odd le n cs <> Unsupported ->
  (if le then odd_of_le_hex n cs else odd_of_be_hex n cs) = sp_odd le n cs.
Proof.
  intros Hs. unfold sp_odd in *. destruct (sp_bytes_arg_inv _ _ Hs) as [Hw ->].
  rewrite odd_of_hex_eq by assumption. unfold sp_hex_value, hex_value.
  destruct (Nat.eqb (length cs) (16 * n)); [|reflexivity].
  destruct (hexvals cs) as [ds|]; [|reflexivity].
  destruct le; [rewrite horner_rev | rewrite horner_evalb]; reflexivity.
Qed.
Lemma tb_odd_from_be_hex : table_ok pe_w_odd_from_be_hex.
Proof. unfold pe_w_odd_from_be_hex. tb_open. apply (tb_odd_hex_gen false); assumption. Qed.
Lemma tb_odd_from_le_hex : table_ok pe_w_odd_from_le_hex.
Proof. unfold pe_w_odd_from_le_hex. tb_open. apply (tb_odd_hex_gen true); assumption. Qed.

(* ------------------------------------------------------------------ selection *)
Lemma b2z_eqb0 (c : bool) : (b2z c =? 0) = negb c.
Proof. destruct c; reflexivity. Qed.

Lemma tb_select_gen w a b (c : bool) : wf a -> wf b ->
  wsp_select w a b (b2z c) <> Unsupported ->
  w_same_len a b (w_select a b (b2z c)) = wsp_select w a b (b2z c).
Proof.
  intros Ha Hb Hs. unfold wsp_select, w_same_len in *.
  destruct (Nat.eqb_spec (length a) (length b)) as [Hl|]; cbn [negb orb] in *; [|contradiction Hs; reflexivity].
  destruct (Nat.eqb (length a) 0); [contradiction Hs; reflexivity|].
  destruct (w_validb w a && w_validb w b); [|contradiction Hs; reflexivity].
  rewrite w_select_eq, b2z_eqb0 by assumption. destruct c; reflexivity.
Qed.
Lemma tb_swap_gen w a b (c : bool) : wf a -> wf b ->
  wsp_swap w a b (b2z c) <> Unsupported ->
  w_same_len a b (w_swap a b (b2z c)) = wsp_swap w a b (b2z c).
Proof.
  intros Ha Hb Hs. unfold wsp_swap, w_same_len in *.
  destruct (Nat.eqb_spec (length a) (length b)) as [Hl|]; cbn [negb orb] in *; [|contradiction Hs; reflexivity].
  destruct (Nat.eqb (length a) 0); [contradiction Hs; reflexivity|].
  destruct (w_validb w a && w_validb w b); [|contradiction Hs; reflexivity].
  rewrite w_swap_eq, b2z_eqb0 by assumption. destruct c; reflexivity.
Qed.

Lemma tb_nz_select : table_ok pe_w_nz_select.
Proof.
  unfold pe_w_nz_select. tb_open. rewrite w_dom_ok in * by assumption. destruct (carg_bool 2 a) as [c Hc]. rewrite Hc in *.
  apply tb_select_gen; auto using w_wf_arg.
Qed.
Lemma tb_odd_select : table_ok pe_w_odd_select.
Proof.
  unfold pe_w_odd_select. tb_open. rewrite w_dom_ok in * by assumption. destruct (carg_bool 2 a) as [c Hc]. rewrite Hc in *.
  apply tb_select_gen; auto using w_wf_arg.
Qed.
Lemma tb_nz_swap : table_ok pe_w_nz_swap.
Proof.
  unfold pe_w_nz_swap. tb_open. rewrite w_dom_ok in * by assumption. destruct (carg_bool 2 a) as [c Hc]. rewrite Hc in *.
  apply tb_swap_gen; auto using w_wf_arg.
Qed.
Lemma tb_odd_swap : table_ok pe_w_odd_swap.
Proof.
  unfold pe_w_odd_swap. tb_open. rewrite w_dom_ok in * by assumption. destruct (carg_bool 2 a) as [c Hc]. rewrite Hc in *.
  apply tb_swap_gen; auto using w_wf_arg.
Qed.

Lemma tb_nz_select_limb : table_ok pe_w_nz_select_limb.
Proof.
  unfold pe_w_nz_select_limb. tb_open. rewrite w_dom_ok in * by assumption.
  destruct (wsp_scalar_inv a 0 _ Hs) as [H0 Hk]. rewrite Hk in *. clear Hk.
  destruct (carg_bool 2 a) as [c Hc]. rewrite Hc in *.
  unfold wsp_select, w_limb_args in *. rewrite H0 in *.
  destruct (Nat.eqb_spec 1 (length (arg 1 a))) as [H1|]; cbn [negb orb Nat.eqb andb] in *; [|contradiction Hs; reflexivity].
  rewrite <- H1. cbn [Nat.eqb andb].
  destruct (w_validb WNonZero (arg 0 a) && w_validb WNonZero (arg 1 a)); [|contradiction Hs; reflexivity].
  rewrite w_select_limb_eq by (apply w_sarg_word; assumption). rewrite b2z_eqb0.
  rewrite (arg_single 0 a H0), (arg_single 1 a (eq_sym H1)). destruct c; reflexivity.
Qed.

(* ------------------------------------------------------------------ serde *)
(* the model decoder on the spec's domain (payloads that are too short, carry a wrong length field, or are exact) *)
Lemma serde_de_on_domain n bs : wfd 256 bs ->
  uint_serde_de n bs =
    if Nat.ltb (length bs) (8 + 8 * n) then ErrV 0
    else if negb (horner 256 (rev (firstn 8 bs)) =? 8 * Z.of_nat n) then ErrV 0
    else Val [to_limbs n (evalb 256 (firstn (8 * n) (skipn 8 bs)))].
Proof.
  intros Hw. rewrite uint_serde_de_eq by assumption. rewrite horner_rev. cbv zeta.
  destruct (Nat.ltb_spec (length bs) 8) as [H8|H8].
  - destruct (Nat.ltb_spec (length bs) (8 + 8 * n)); [reflexivity | lia].
  - destruct (Z.ltb_spec (Z.of_nat (length bs - 8)) (evalb 256 (firstn 8 bs))) as [Hlt|Hge].
    + destruct (Nat.ltb_spec (length bs) (8 + 8 * n)); [reflexivity|].
      destruct (Z.eqb_spec (evalb 256 (firstn 8 bs)) (8 * Z.of_nat n)); [lia | reflexivity].
    + replace (Z.of_nat (8 * n)) with (8 * Z.of_nat n) by lia.
      destruct (Z.eqb_spec (evalb 256 (firstn 8 bs)) (8 * Z.of_nat n)) as [He|]; cbn [negb].
      * destruct (Nat.ltb_spec (length bs) (8 + 8 * n)); [lia | reflexivity].
      * destruct (Nat.ltb_spec (length bs) (8 + 8 * n)); reflexivity.
Qed.

Lemma tb_serde_gen (w : wrapper) n bs : wsp_serde w n bs <> Unsupported ->
  (match w with WNonZero => nz_serde_uint n bs | WOdd => odd_serde_uint n bs end) = wsp_serde w n bs.
Proof.
  intros Hs. unfold wsp_serde in *. destruct (sp_bytes_arg_inv _ _ Hs) as [Hw Hk]. rewrite Hk in *. clear Hk.
  assert (Hm : (match w with WNonZero => nz_serde_uint n bs | WOdd => odd_serde_uint n bs end) =
               match uint_serde_de n bs with
               | Val [r] => if (match w with WNonZero => negb (eval r =? 0) | WOdd => Z.odd (eval r) end)
                            then Val [r] else ErrV W_E_INVALID
               | o => o end).
  { destruct w; [rewrite nz_serde_uint_eq | rewrite odd_serde_uint_eq]; try assumption;
      destruct (uint_serde_de n bs) as [[|r [|? ?]]| | | |]; try reflexivity.
    destruct (eval r =? 0); reflexivity. }
  rewrite Hm. clear Hm. rewrite serde_de_on_domain by assumption.
  destruct (Nat.ltb_spec (length bs) (8 + 8 * n)) as [|Hlen]; [reflexivity|].
  destruct (negb (horner 256 (rev (firstn 8 bs)) =? 8 * Z.of_nat n)); [reflexivity|].
  destruct (Nat.eqb_spec (length bs) (8 + 8 * n)) as [Hl|]; [|contradiction Hs; reflexivity].
  cbv zeta. rewrite horner_rev.
  assert (Hf : firstn (8 * n) (skipn 8 bs) = skipn 8 bs).
  { apply firstn_all2. rewrite skipn_length. lia. }
  rewrite Hf. set (v := evalb 256 (skipn 8 bs)).
  assert (Hb : 0 <= v < Bn n).
  { apply evalb_bytes_bound; [apply wfd_skipn; assumption | rewrite skipn_length; lia]. }
  rewrite to_limbs_small by assumption. reflexivity.
Qed.
Lemma tb_nz_serde_de : table_ok pe_w_nz_serde_de.
Proof. unfold pe_w_nz_serde_de. tb_open. apply (tb_serde_gen WNonZero); assumption. Qed.
Lemma tb_odd_serde_de : table_ok pe_w_odd_serde_de.
Proof. unfold pe_w_odd_serde_de. tb_open. apply (tb_serde_gen WOdd); assumption. Qed.

Lemma tb_nz_serde_de_limb : table_ok pe_w_nz_serde_de_limb.
Proof.
  unfold pe_w_nz_serde_de_limb. tb_open. destruct (sp_bytes_arg_inv _ _ Hs) as [Hw Hk]. rewrite Hk in *. clear Hk.
  rewrite nz_serde_limb_eq by assumption. unfold ln in *.
  destruct (Nat.ltb (length (arg 0 a)) 8); [reflexivity|].
  destruct (Nat.eqb_spec (length (arg 0 a)) 8) as [Hl|]; [|contradiction Hs; reflexivity].
  cbv zeta. rewrite horner_rev. rewrite firstn_all2 by lia. reflexivity.
Qed.

(* ------------------------------------------------------------------ random *)
Lemma rnd_agrees_out n ws f o s : rnd_agrees n ws 0 0 0 o s -> rnd_out f o = rnd_sp_out n f s.
Proof.
  unfold rnd_agrees, rnd_out, rnd_sp_out. destruct o as [[v [rest nw nb]]|], s as [x k b|]; try contradiction; [|reflexivity].
  intros (-> & _ & -> & -> & _). reflexivity.
Qed.

Lemma tb_nz_random : table_ok pe_w_nz_random.
Proof.
  unfold pe_w_nz_random. tb_open. destruct (Z.ltb_spec 0 (sarg 1 a)) as [Hp|]; [|reflexivity].
  rewrite w_dom_ok by assumption. unfold w_rng. apply (rnd_agrees_out _ (arg 0 a)).
  apply nonzero_uint_random_spec; [apply w_n_pos; assumption | apply (w_wf_arg 0 a Hwf)].
Qed.
Lemma tb_odd_random : table_ok pe_w_odd_random.
Proof.
  unfold pe_w_odd_random. tb_open. destruct (Z.ltb_spec 0 (sarg 1 a)) as [Hp|]; [|reflexivity].
  rewrite w_dom_ok by assumption. unfold w_rng. apply (rnd_agrees_out _ (arg 0 a)).
  apply odd_uint_random_spec; [apply (w_wf_arg 0 a Hwf) | apply w_n_pos; assumption].
Qed.

Lemma sp_boxed_limbs_eq bl : sp_boxed_limbs bl = rnd_boxed_limbs bl.
Proof. unfold sp_boxed_limbs, rnd_boxed_limbs. rewrite rnd_sp_ceil64. reflexivity. Qed.

(* Odd<BoxedUint>::random for bit_length >= 1: the RandomBits sample with its lowest bit forced to one *)
Lemma odd_boxed_random_agrees ws bl : wf ws -> 1 <= bl ->
  rnd_out 0 (odd_boxed_random (Rng ws 0 0) bl) = rnd_sp_out (sp_boxed_limbs bl) 0 (sp_odd_sample (sp_random_bits ws bl)).
Proof.
  intros Hws Hbl. destruct (odd_boxed_random (Rng ws 0 0) bl) as [[v r']|] eqn:E.
  - destruct (odd_boxed_random_valid ws 0 0 bl v r' Hws Hbl E) as (Hw & Hl & _ & Hr & He & ->).
    unfold sp_random_bits. unfold odd_boxed_random, boxed_random_bits in E.
    rewrite boxed_random_bits_spec in E by (try assumption; lia). rewrite Z.ltb_irrefl in E.
    unfold rnd_bits_expected, sp_random_bits in E.
    destruct (Z.ltb_spec (Z.of_nat (length ws)) (rnd_ceil bl 64)); [discriminate|].
    cbn [sp_odd_sample rnd_sp_out rnd_out]. destruct (Z.eqb_spec bl 0); [lia|].
    rewrite sp_boxed_limbs_eq, <- He, <- Hl, to_limbs_eval by assumption.
    unfold rnd_tail_bytes. rewrite !Z.add_0_l. reflexivity.
  - unfold odd_boxed_random, boxed_random_bits in E.
    rewrite boxed_random_bits_spec in E by (try assumption; lia). rewrite Z.ltb_irrefl in E.
    unfold rnd_bits_expected in E. destruct (sp_random_bits ws bl) as [x k b|] eqn:Es; [|reflexivity].
    exfalso. destruct (rnd_set_lsb (to_limbs (rnd_boxed_limbs bl) x)) as [v'|] eqn:El; [discriminate|].
    unfold rnd_set_lsb in El. destruct (to_limbs (rnd_boxed_limbs bl) x) as [|y t] eqn:Et; [|discriminate].
    apply (f_equal (@List.length Z)) in Et. rewrite length_to_limbs in Et. cbn [List.length] in Et.
    unfold rnd_boxed_limbs in Et. lia.
Qed.

Lemma tb_odd_random_boxed : table_ok pe_w_odd_random_boxed.
Proof.
  unfold pe_w_odd_random_boxed. tb_open. cbv zeta in *.
  destruct (Z.ltb_spec 0 (sarg 1 a)) as [Hp|]; cbn [andb] in *; [|contradiction Hs; reflexivity].
  destruct (rnd_small (sarg 1 a)); [|contradiction Hs; reflexivity].
  rewrite w_dom_ok by assumption. unfold w_rng. apply odd_boxed_random_agrees; [apply (w_wf_arg 0 a Hwf) | lia].
Qed.

(* ------------------------------------------------------------------ wrappers made from wrappers *)
Lemma tb_same_gen w a : wsp_same w a <> Unsupported -> w_same a = wsp_same w a.
Proof.
  unfold wsp_same, w_same. destruct a as [|x r]; [intros H; contradiction H; reflexivity|].
  destruct (w_validb w (x :: r)); [reflexivity | intros H; contradiction H; reflexivity].
Qed.
Lemma tb_nz_same : table_ok pe_w_nz_same.
Proof. unfold pe_w_nz_same. tb_open. rewrite w_dom_ok in * by assumption. apply tb_same_gen; assumption. Qed.
Lemma tb_odd_same : table_ok pe_w_odd_same.
Proof. unfold pe_w_odd_same. tb_open. rewrite w_dom_ok in * by assumption. apply tb_same_gen; assumption. Qed.
Lemma tb_odd_as_nz_ref : table_ok pe_w_odd_as_nz_ref.
Proof. unfold pe_w_odd_as_nz_ref. tb_open. rewrite w_dom_ok in * by assumption. apply tb_same_gen; assumption. Qed.

Lemma tb_nz_widen : table_ok pe_w_nz_widen.
Proof.
  unfold pe_w_nz_widen. tb_open. rewrite w_dom_ok in * by assumption. cbv zeta in *. unfold ln, ev in *.
  pose proof (w_wf_arg 0 a Hwf) as Ha.
  destruct (arg 0 a) as [|x r] eqn:Ea; [contradiction Hs; reflexivity|]. rewrite <- Ea in *.
  destruct (w_nzb (arg 0 a)); cbn [negb] in *; [|contradiction Hs; reflexivity].
  rewrite nz_boxed_widen_eq by (try assumption; rewrite Ea; discriminate).
  destruct (Z.ltb_spec (sarg 1 a) (64 * Z.of_nat (length (arg 0 a)))) as [|Hp]; [reflexivity|].
  rewrite limbs_for_precision_eq. unfold sp_limbs_for.
  assert (1 <= length (arg 0 a))%nat by (rewrite Ea; cbn [List.length]; lia).
  destruct (Z.eqb_spec (sarg 1 a) 0); [lia | reflexivity].
Qed.

(* ================================================================== the table theorem *)
Theorem producers_table_ok : Forall table_ok producers.
Proof.
  unfold producers. repeat (apply Forall_cons || apply Forall_nil).
  - exact tb_nz_new_limb.
  - exact tb_nz_new_uint.
  - exact tb_nz_new_boxed.
  - exact tb_nz_to_nz_limb.
  - exact tb_nz_to_nz_uint.
  - exact tb_nz_new_unwrap_limb.
  - exact tb_nz_new_unwrap_uint.
  - exact tb_odd_new.
  - exact tb_odd_to_odd.
  - exact tb_odd_to_odd_unwrap.
  - exact tb_nz_one.
  - exact tb_nz_max.
  - exact tb_nz_default.
  - exact tb_odd_default.
  - exact tb_nz_from_prim_limb.
  - exact tb_nz_from_prim_uint.
  - exact tb_nz_abs_sign.
  - exact tb_nz_from_be_bytes.
  - exact tb_nz_from_le_bytes.
  - exact tb_nz_from_be_byte_array.
  - exact tb_nz_from_le_byte_array.
  - exact tb_nz_from_be_bytes_limb.
  - exact tb_nz_from_le_bytes_limb.
  - exact tb_odd_from_be_hex.
  - exact tb_odd_from_le_hex.
  - exact tb_nz_select_limb.
  - exact tb_nz_select.
  - exact tb_nz_swap.
  - exact tb_odd_select.
  - exact tb_odd_swap.
  - exact tb_nz_serde_de.
  - exact tb_odd_serde_de.
  - exact tb_nz_serde_de_limb.
  - exact tb_nz_random.
  - exact tb_odd_random.
  - exact tb_odd_random_boxed.
  - exact tb_nz_same.
  - exact tb_odd_same.
  - exact tb_odd_as_nz_ref.
  - exact tb_nz_widen.
Qed.

Theorem wrappers_model_eq_spec : forall p dbg args, In p producers -> w_wf_args args ->
  pe_spec p dbg args <> Unsupported -> pe_model p dbg args = pe_spec p dbg args.
Proof.
  intros p dbg args Hin. pose proof producers_table_ok as H. rewrite Forall_forall in H. apply (H p Hin).
Qed.

(** the keys of the table are pairwise distinct: looking an op up in [ops_wrappers_model] / [ops_wrappers_spec]
    (what the correspondence driver does) returns exactly the model / spec of that producer *)
Lemma producer_keys_nodup : NoDup (map pe_key producers).
Proof.
  assert (H : forallb (fun p => Nat.eqb (List.length (filter (fun q => String.eqb (pe_key p) (pe_key q)) producers)) 1) producers = true)
    by (vm_compute; reflexivity).
  apply (NoDup_nth _ ""%string). intros i j Hi Hj E. rewrite map_length in *.
  (* decided by computation on the 40 keys *)
  assert (Hk : forall i j, (i < List.length producers)%nat -> (j < List.length producers)%nat ->
               nth i (map pe_key producers) ""%string = nth j (map pe_key producers) ""%string -> i = j).
  { clear. intros i j Hi Hj.
    assert (Hd : forallb (fun i => forallb (fun j =>
                   implb (String.eqb (nth i (map pe_key producers) ""%string) (nth j (map pe_key producers) ""%string)) (Nat.eqb i j))
                   (seq 0 (List.length producers))) (seq 0 (List.length producers)) = true) by (vm_compute; reflexivity).
    rewrite forallb_forall in Hd. specialize (Hd i ltac:(apply in_seq; lia)).
    rewrite forallb_forall in Hd. specialize (Hd j ltac:(apply in_seq; lia)).
    intros E. rewrite E, String.eqb_refl in Hd. cbn [implb] in Hd. apply Nat.eqb_eq. assumption. }
  apply Hk; assumption.
Qed.

Theorem wrappers_tables_agree : forall p dbg args, In p producers -> w_wf_args args ->
  lookup (pe_key p) ops_wrappers_model = Some (pe_model p) /\
  lookup (pe_key p) ops_wrappers_spec = Some (pe_spec p) /\
  (pe_spec p dbg args <> Unsupported -> pe_model p dbg args = pe_spec p dbg args).
Proof.
  intros p dbg args Hin Hwf. split; [apply lookup_producer; [assumption | apply producer_keys_nodup]|].
  split; [|apply wrappers_model_eq_spec; assumption].
  pose proof producer_keys_nodup as Hnd. revert Hin Hnd. unfold ops_wrappers_spec.
  induction producers as [|q l IH]; intros Hin Hnd; [contradiction|].
  cbn [map lookup]. inversion Hnd as [|? ? Hnotin Hnd']; subst. destruct Hin as [->|Hin].
  - rewrite String.eqb_refl. reflexivity.
  - destruct (String.eqb_spec (pe_key p) (pe_key q)) as [Heq|]; [|apply IH; assumption].
    exfalso. apply Hnotin. rewrite <- Heq. apply in_map. assumption.
Qed.
