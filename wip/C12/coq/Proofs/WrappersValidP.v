(** C12 proofs, part 2: every producer of the table yields a valid wrapper or fails -- one lemma per producer, for all
    limb counts, argument values, byte strings and RNG streams -- and the induction over call histories. *)
From CB Require Import Model.Limbs Model.AddSub Model.Cmp Model.Conv Model.Rand Model.Wrappers
  Proofs.WordP Proofs.LimbsP Proofs.AddSubP Proofs.WordPredP Proofs.CmpWordP Proofs.CmpP Proofs.CmpBoxedP Proofs.CmpIntP
  Proofs.ConvDigitsP Proofs.ConvBytesP Proofs.ConvHexP Proofs.ConvBoxedP Proofs.ConvCopyP Proofs.ConvP
  Proofs.RandBaseP Proofs.RandModP Proofs.RandBitsP Proofs.RandMiscP Proofs.WrappersP.
From Coq Require Import ZArith Lia List Bool String.
Import ListNotations.
Open Scope Z_scope. Open Scope list_scope.
Notation length := List.length.

Definition out_ok (w : wrapper) (v : list Z) : Prop := wf v /\ valid w v.

(** the domain of a producer: word arguments, byte arguments that are bytes, wrapper arguments that are valid *)
Definition dom (p : pentry) (a : list (list Z)) : Prop :=
  w_wf_args a /\
  Forall (fun j => wfd 256 (arg j a)) (pe_bytes p) /\
  Forall (fun jw => valid (snd jw) (arg (fst jw) a)) (pe_ins p).

Definition producer_ok (p : pentry) : Prop :=
  forall dbg a vs, dom p a -> pe_model p dbg a = Val vs -> Forall (out_ok (pe_out p)) (firstn (pe_nout p) vs).

Lemma out1 w v rest : wf v -> valid w v -> Forall (out_ok w) (firstn 1 (v :: rest)).
Proof. intros. cbn [firstn]. constructor; [split; assumption | constructor]. Qed.

Lemma out1' w v rest : out_ok w v -> Forall (out_ok w) (firstn 1 (v :: rest)).
Proof. intros [? ?]. apply out1; assumption. Qed.

Lemma wf_single x : is_word x -> wf [x].
Proof. intros. apply wf_cons. split; [assumption | apply wf_nil]. Qed.

Ltac pv_open :=
  intros dbg a vs (Hwf & Hby & Hin) E;
  cbn [pe_model pe_out pe_nout pe_ins pe_bytes] in *.

(* a gate of the shape "if c then bad else Val [v]" (bad is not a Val) *)
Ltac gate_inv E :=
  match type of E with
  | (if ?c then _ else _) = Val _ => let Hc := fresh "Hc" in destruct c eqn:Hc; [try discriminate E | try discriminate E]
  end.

(* ------------------------------------------------------------------ gated constructors *)
Lemma pv_nz_new_limb : producer_ok pe_w_nz_new_limb.
Proof.
  unfold pe_w_nz_new_limb. pv_open. pose proof (w_sarg_word 0 a Hwf) as Hx.
  rewrite nz_new_limb_eq in E by assumption. gate_inv E. injection E as <-.
  apply out1; [apply wf_single; assumption|]. cbn [valid]. rewrite eval_single. apply Z.eqb_neq. assumption.
Qed.
Lemma pv_nz_to_nz_limb : producer_ok pe_w_nz_to_nz_limb.
Proof.
  unfold pe_w_nz_to_nz_limb. pv_open. pose proof (w_sarg_word 0 a Hwf) as Hx.
  rewrite nz_to_nz_limb_eq in E by assumption. gate_inv E. injection E as <-.
  apply out1; [apply wf_single; assumption|]. cbn [valid]. rewrite eval_single. apply Z.eqb_neq. assumption.
Qed.
Lemma pv_nz_new_unwrap_limb : producer_ok pe_w_nz_new_unwrap_limb.
Proof.
  unfold pe_w_nz_new_unwrap_limb. pv_open. pose proof (w_sarg_word 0 a Hwf) as Hx.
  rewrite nz_new_unwrap_limb_eq in E by assumption. gate_inv E. injection E as <-.
  apply out1; [apply wf_single; assumption|]. cbn [valid]. rewrite eval_single. apply Z.eqb_neq. assumption.
Qed.

Ltac pv_gate_with lem :=
  pv_open; match goal with Hwf : w_wf_args ?a |- _ => pose proof (w_wf_arg 0 a Hwf) as Ha end;
  match goal with E : _ = Val _ |- _ => rewrite lem in E by assumption; gate_inv E; injection E as <- end.
Ltac pv_gate_nz lem :=
  pv_gate_with lem; apply out1; [assumption|]; cbn [valid]; apply Z.eqb_neq; assumption.
Ltac pv_gate_odd lem :=
  pv_gate_with lem; apply out1; [assumption|]; cbn [valid]; assumption.

Lemma pv_nz_new_uint : producer_ok pe_w_nz_new_uint.
Proof. unfold pe_w_nz_new_uint. pv_gate_nz nz_new_uint_eq. Qed.
Lemma pv_nz_new_boxed : producer_ok pe_w_nz_new_boxed.
Proof. unfold pe_w_nz_new_boxed. pv_gate_nz nz_new_boxed_eq. Qed.
Lemma pv_nz_to_nz_uint : producer_ok pe_w_nz_to_nz_uint.
Proof. unfold pe_w_nz_to_nz_uint. pv_gate_nz nz_to_nz_uint_eq. Qed.
Lemma pv_nz_new_unwrap_uint : producer_ok pe_w_nz_new_unwrap_uint.
Proof. unfold pe_w_nz_new_unwrap_uint. pv_gate_nz nz_new_unwrap_uint_eq. Qed.
Lemma pv_odd_new : producer_ok pe_w_odd_new.
Proof. unfold pe_w_odd_new. pv_gate_odd wodd_new_eq. Qed.
Lemma pv_odd_to_odd : producer_ok pe_w_odd_to_odd.
Proof. unfold pe_w_odd_to_odd. pv_gate_odd wodd_to_odd_eq. Qed.
Lemma pv_odd_to_odd_unwrap : producer_ok pe_w_odd_to_odd_unwrap.
Proof. unfold pe_w_odd_to_odd_unwrap. pv_gate_odd wodd_to_odd_unwrap_eq. Qed.

(* ------------------------------------------------------------------ constants, Default *)
Lemma one_valid k n m w : wsp_kind_n k n = Some m -> out_ok w (w_one k n).
Proof.
  intros H. destruct (eval_w_one k n m H) as [Hw He]. split; [assumption|].
  destruct w; cbn [valid]; rewrite He; [lia | reflexivity].
Qed.
Lemma max_valid k n m : wsp_kind_n k n = Some m -> out_ok WNonZero (w_max k n).
Proof. intros H. destruct (w_max_facts k n m H) as (Hw & _ & He & Hr). split; [assumption|]. cbn [valid]. lia. Qed.

Ltac pv_const lem :=
  pv_open; unfold w_typed in *;
  match goal with E : match ?k with Some _ => _ | None => _ end = Val _ |- _ =>
    destruct k as [m|] eqn:Hk; [|discriminate E]; injection E as <- end;
  apply out1'; eapply lem; eassumption.
Lemma pv_nz_one : producer_ok pe_w_nz_one.
Proof. unfold pe_w_nz_one. pv_const one_valid. Qed.
Lemma pv_nz_default : producer_ok pe_w_nz_default.
Proof. unfold pe_w_nz_default. pv_const one_valid. Qed.
Lemma pv_odd_default : producer_ok pe_w_odd_default.
Proof. unfold pe_w_odd_default. pv_const one_valid. Qed.
Lemma pv_nz_max : producer_ok pe_w_nz_max.
Proof. unfold pe_w_nz_max. pv_const max_valid. Qed.

(** the unrepaired code: derived Default wraps zero -- an even value -- for every kind and width *)
Lemma odd_default_derived_invalid k n : ~ valid WOdd (odd_default_derived k n).
Proof.
  unfold odd_default_derived. cbn [valid]. destruct (k =? 0); [cbn; discriminate|]. rewrite eval_zeros. cbn. discriminate.
Qed.

(* ------------------------------------------------------------------ From<core::num::NonZeroU*> *)
Lemma in_valid0 (w : wrapper) a (rest : list (nat * wrapper)) :
  Forall (fun jw => valid (snd jw) (arg (fst jw) a)) ((0%nat, w) :: rest) -> valid w (arg 0 a).
Proof. intros H. inversion H; subst. assumption. Qed.
Lemma in_valid1 (w0 w1 : wrapper) a (rest : list (nat * wrapper)) :
  Forall (fun jw => valid (snd jw) (arg (fst jw) a)) ((0%nat, w0) :: (1%nat, w1) :: rest) ->
  valid w0 (arg 0 a) /\ valid w1 (arg 1 a).
Proof. intros H. inversion H as [|? ? H0 H1]; subst. inversion H1; subst. split; assumption. Qed.

Lemma nz_prim_arg_spec bits l v : wf l -> nz_prim_arg bits l = Some v ->
  eval l = v /\ 0 <= v /\ (if bits =? 128 then v < B * B else v < B).
Proof.
  intros Hw. unfold nz_prim_arg, prim_val, nthz. pose proof B_pos.
  destruct (bits =? 128).
  - destruct (Nat.leb_spec (length l) 2); [|discriminate]. intros E; injection E as <-.
    destruct l as [|x [|y [|z r]]]; cbn [length] in *; try lia; cbn [nth eval].
    + lia.
    + apply wf_cons in Hw. destruct Hw as [Hx _]. unfold is_word in Hx. nia.
    + apply wf_cons in Hw. destruct Hw as [Hx Hw]. apply wf_cons in Hw. destruct Hw as [Hy _].
      unfold is_word in *. nia.
  - destruct (Nat.eqb_spec (length l) 1); [|discriminate]. intros E; injection E as <-.
    destruct l as [|x [|y r]]; cbn [length] in *; try lia. cbn [nth eval].
    apply wf_cons in Hw. destruct Hw as [Hx _]. unfold is_word in Hx. lia.
Qed.

Lemma pv_nz_from_prim_limb : producer_ok pe_w_nz_from_prim_limb.
Proof.
  unfold pe_w_nz_from_prim_limb. pv_open. apply in_valid0 in Hin. cbn [valid] in Hin.
  destruct (nz_prim_arg 64 (arg 0 a)) as [v|] eqn:Ev; [|discriminate].
  destruct (nz_prim_arg_spec 64 _ v (w_wf_arg 0 a Hwf) Ev) as (He & H0 & Hb). change (64 =? 128) with false in Hb. cbv iota in Hb.
  unfold nz_limb_from_prim in E. injection E as <-.
  apply out1; [apply wf_single; unfold is_word; lia|]. cbn [valid]. rewrite eval_single. lia.
Qed.

Lemma pv_nz_from_prim_uint : producer_ok pe_w_nz_from_prim_uint.
Proof.
  unfold pe_w_nz_from_prim_uint. pv_open. apply in_valid0 in Hin. cbn [valid] in Hin.
  destruct (nz_prim_arg (sarg 1 a) (arg 0 a)) as [v|] eqn:Ev; [|discriminate].
  destruct (nz_prim_arg_spec _ _ v (w_wf_arg 0 a Hwf) Ev) as (He & H0 & Hb).
  unfold nz_uint_from_prim, vpanic in E. destruct (sarg 1 a =? 128).
  - destruct (uint_from_u128 (w_n 2 a) v) as [r|] eqn:Er; [|discriminate]. injection E as <-.
    destruct (uint_from_u128_spec _ v r ltac:(lia) Er) as (_ & Hw & _ & Hv).
    apply out1; [assumption|]. cbn [valid]. lia.
  - destruct (uint_from_small (w_n 2 a) v) as [r|] eqn:Er; [|discriminate]. injection E as <-.
    destruct (uint_from_small_spec _ v r ltac:(unfold is_word; lia) Er) as (_ & Hw & _ & Hv).
    apply out1; [assumption|]. cbn [valid]. lia.
Qed.

(* ------------------------------------------------------------------ NonZero<Int>::abs_sign *)
Lemma valid_nonempty w a : valid w a -> a <> [].
Proof. intros H ->. destruct w; cbn in H; [contradiction H; reflexivity | discriminate]. Qed.

Lemma pv_nz_abs_sign : producer_ok pe_w_nz_abs_sign.
Proof.
  unfold pe_w_nz_abs_sign. pv_open. apply in_valid0 in Hin. pose proof (valid_nonempty _ _ Hin) as Hn. cbn [valid] in Hin.
  destruct (nz_int_abs_sign_eq (arg 0 a) (w_wf_arg 0 a Hwf) Hn Hin) as (Eq & Hnz & Hb).
  rewrite Eq in E. injection E as <-. apply out1; [apply wf_to_limbs|]. cbn [valid].
  rewrite to_limbs_small by assumption. assumption.
Qed.

(* ------------------------------------------------------------------ decoders *)
Lemma by_bytes0 a (rest : list nat) : Forall (fun j => wfd 256 (arg j a)) (0%nat :: rest) -> wfd 256 (arg 0 a).
Proof. intros H. inversion H; subst. assumption. Qed.

(* a result "to_limbs n x" with x <> 0 read from at most 8n bytes is a valid NonZero *)
Lemma to_limbs_valid_nz n x : 0 <= x < Bn n -> x <> 0 -> out_ok WNonZero (to_limbs n x).
Proof. intros Hx Hz. split; [apply wf_to_limbs|]. cbn [valid]. rewrite to_limbs_small by assumption. assumption. Qed.
Lemma to_limbs_valid_odd n x : 0 <= x < Bn n -> Z.odd x = true -> out_ok WOdd (to_limbs n x).
Proof. intros Hx Hz. split; [apply wf_to_limbs|]. cbn [valid]. rewrite to_limbs_small by assumption. assumption. Qed.

Lemma evalb_bytes_bound n bs : wfd 256 bs -> length bs = (8 * n)%nat -> 0 <= evalb 256 bs < Bn n.
Proof.
  intros Hw Hl. pose proof (evalb_bounds 256 bs ltac:(lia) Hw) as Hb. rewrite Hl in Hb.
  rewrite Bn_256. assumption.
Qed.

Ltac pv_bytes_nz lem :=
  pv_open; match goal with Hby : Forall _ _ |- _ => apply by_bytes0 in Hby end;
  match goal with E : _ = Val _ |- _ => rewrite lem in E by assumption end.

Lemma nz_bytes_case (n : nat) (bs : list Z) (x : Z) vs : 0 <= x < Bn n ->
  (if Nat.eqb (length bs) (8 * n) then (if x =? 0 then NoneV else Val [to_limbs n x]) else PanicV) = Val vs ->
  Forall (out_ok WNonZero) (firstn 1 vs).
Proof.
  intros Hx E. destruct (Nat.eqb (length bs) (8 * n)); [|discriminate].
  destruct (Z.eqb_spec x 0); [discriminate|]. injection E as <-. apply out1'. apply to_limbs_valid_nz; assumption.
Qed.

Lemma pv_nz_from_le_bytes_gen n bs vs : wfd 256 bs -> nz_from_le_bytes n bs = Val vs -> Forall (out_ok WNonZero) (firstn 1 vs).
Proof.
  intros Hw E. rewrite nz_from_le_bytes_eq in E by assumption.
  destruct (Nat.eqb_spec (length bs) (8 * n)) as [Hl|]; [|discriminate].
  apply (nz_bytes_case n bs (evalb 256 bs)); [apply evalb_bytes_bound; assumption|]. rewrite Hl, Nat.eqb_refl. assumption.
Qed.
Lemma pv_nz_from_be_bytes_gen n bs vs : wfd 256 bs -> nz_from_be_bytes n bs = Val vs -> Forall (out_ok WNonZero) (firstn 1 vs).
Proof.
  intros Hw E. rewrite nz_from_be_bytes_eq in E by assumption.
  destruct (Nat.eqb_spec (length bs) (8 * n)) as [Hl|]; [|discriminate].
  apply (nz_bytes_case n bs (evalb 256 (rev bs))).
  - apply evalb_bytes_bound; [apply wfd_rev; assumption | rewrite rev_length; assumption].
  - rewrite Hl, Nat.eqb_refl. assumption.
Qed.

Lemma pv_nz_from_be_bytes : producer_ok pe_w_nz_from_be_bytes.
Proof. unfold pe_w_nz_from_be_bytes. pv_open. apply by_bytes0 in Hby. eapply pv_nz_from_be_bytes_gen; eassumption. Qed.
Lemma pv_nz_from_le_bytes : producer_ok pe_w_nz_from_le_bytes.
Proof. unfold pe_w_nz_from_le_bytes. pv_open. apply by_bytes0 in Hby. eapply pv_nz_from_le_bytes_gen; eassumption. Qed.
Lemma pv_nz_from_be_byte_array : producer_ok pe_w_nz_from_be_byte_array.
Proof. unfold pe_w_nz_from_be_byte_array. pv_open. apply by_bytes0 in Hby. eapply pv_nz_from_be_bytes_gen; eassumption. Qed.
Lemma pv_nz_from_le_byte_array : producer_ok pe_w_nz_from_le_byte_array.
Proof. unfold pe_w_nz_from_le_byte_array. pv_open. apply by_bytes0 in Hby. eapply pv_nz_from_le_bytes_gen; eassumption. Qed.

Lemma pv_nz_from_le_bytes_limb : producer_ok pe_w_nz_from_le_bytes_limb.
Proof.
  unfold pe_w_nz_from_le_bytes_limb. pv_open. apply by_bytes0 in Hby. rewrite nz_limb_from_le_bytes_eq in E by assumption.
  destruct (Nat.eqb_spec (length (arg 0 a)) 8) as [Hl|]; [|discriminate].
  apply (nz_bytes_case 1 (arg 0 a) (evalb 256 (arg 0 a))); [apply evalb_bytes_bound; assumption|].
  rewrite Hl. exact E.
Qed.
Lemma pv_nz_from_be_bytes_limb : producer_ok pe_w_nz_from_be_bytes_limb.
Proof.
  unfold pe_w_nz_from_be_bytes_limb. pv_open. apply by_bytes0 in Hby. rewrite nz_limb_from_be_bytes_eq in E by assumption.
  destruct (Nat.eqb_spec (length (arg 0 a)) 8) as [Hl|]; [|discriminate].
  apply (nz_bytes_case 1 (arg 0 a) (evalb 256 (rev (arg 0 a)))).
  - apply evalb_bytes_bound; [apply wfd_rev; assumption | rewrite rev_length; assumption].
  - rewrite Hl. exact E.
Qed.

(* hex: the value of 16n hex digits fits n limbs *)
Lemma hex_value_bound le n cs ds : length cs = (16 * n)%nat -> hexvals cs = Some ds -> 0 <= hex_value le ds < Bn n.
Proof.
  intros Hl Hh. destruct (hexvals_spec cs ds Hh) as [Hlds Hwds]. unfold hex_value. destruct le.
  - destruct (nib_pairs_spec (8 * n) ds ltac:(lia) Hwds) as (Hln & Hwn & _). apply evalb_bytes_bound; assumption.
  - pose proof (evalb_bounds 16 (rev ds) ltac:(lia) (wfd_rev 16 ds Hwds)) as Hb. rewrite rev_length, Hlds, Hl in Hb.
    rewrite Bn_16. assumption.
Qed.

Lemma pv_odd_of_hex_gen (le : bool) n cs vs : wfd 256 cs ->
  (if le then odd_of_le_hex n cs else odd_of_be_hex n cs) = Val vs -> Forall (out_ok WOdd) (firstn 1 vs).
Proof.
  intros Hw E. rewrite odd_of_hex_eq in E by assumption.
  destruct (Nat.eqb_spec (length cs) (16 * n)) as [Hl|]; [|discriminate].
  destruct (hexvals cs) as [ds|] eqn:Hh; [|discriminate].
  destruct (Z.odd (hex_value le ds)) eqn:Ho; [|discriminate]. injection E as <-.
  apply out1'. apply to_limbs_valid_odd; [eapply hex_value_bound; eassumption | assumption].
Qed.
Lemma pv_odd_from_be_hex : producer_ok pe_w_odd_from_be_hex.
Proof. unfold pe_w_odd_from_be_hex. pv_open. apply by_bytes0 in Hby. apply (pv_odd_of_hex_gen false _ _ _ Hby E). Qed.
Lemma pv_odd_from_le_hex : producer_ok pe_w_odd_from_le_hex.
Proof. unfold pe_w_odd_from_le_hex. pv_open. apply by_bytes0 in Hby. apply (pv_odd_of_hex_gen true _ _ _ Hby E). Qed.

(* ------------------------------------------------------------------ conditional selection between valid values *)
Lemma carg_bool i a : exists c : bool, carg i a = b2z c.
Proof. eexists. apply carg_b2z. Qed.

(** select_valid: whatever the choice, the selection of two valid wrappers of the same width is one of them *)
Lemma select_valid w a b c vs : wf a -> wf b -> length a = length b -> valid w a -> valid w b ->
  w_select a b (b2z c) = Val vs -> Forall (out_ok w) (firstn 1 vs).
Proof.
  intros Ha Hb Hl Va Vb E. rewrite w_select_eq in E by assumption. injection E as <-.
  apply out1; destruct c; assumption.
Qed.
Lemma swap_valid w a b c vs : wf a -> wf b -> length a = length b -> valid w a -> valid w b ->
  w_swap a b (b2z c) = Val vs -> Forall (out_ok w) (firstn 2 vs).
Proof.
  intros Ha Hb Hl Va Vb E. rewrite w_swap_eq in E by assumption.
  destruct c; injection E as <-; cbn [firstn]; repeat constructor; assumption.
Qed.

Ltac pv_sel lem :=
  pv_open; match goal with Hin : Forall _ _ |- _ => apply in_valid1 in Hin; destruct Hin as [? ?] end;
  unfold w_same_len in *;
  match goal with E : (if Nat.eqb ?x ?y then _ else _) = Val _ |- _ =>
    destruct (Nat.eqb_spec x y); [|discriminate E];
    match goal with Hwf : w_wf_args ?a |- _ =>
      let c := fresh "c" in let Hc := fresh "Hc" in
      destruct (carg_bool 2 a) as [c Hc]; rewrite Hc in E;
      eapply lem; [apply (w_wf_arg 0 a Hwf) | apply (w_wf_arg 1 a Hwf) | eassumption | eassumption | eassumption | exact E] end end.

Lemma pv_nz_select : producer_ok pe_w_nz_select.
Proof. unfold pe_w_nz_select. pv_sel select_valid. Qed.
Lemma pv_odd_select : producer_ok pe_w_odd_select.
Proof. unfold pe_w_odd_select. pv_sel select_valid. Qed.
Lemma pv_nz_swap : producer_ok pe_w_nz_swap.
Proof. unfold pe_w_nz_swap. pv_sel swap_valid. Qed.
Lemma pv_odd_swap : producer_ok pe_w_odd_swap.
Proof. unfold pe_w_odd_swap. pv_sel swap_valid. Qed.

Lemma single_of_len1 (l : list Z) : length l = 1%nat -> l = [nthz l 0].
Proof. destruct l as [|x [|y r]]; cbn [length]; intros H; try lia. reflexivity. Qed.

Lemma pv_nz_select_limb : producer_ok pe_w_nz_select_limb.
Proof.
  unfold pe_w_nz_select_limb. pv_open. apply in_valid1 in Hin. destruct Hin as [Va Vb]. unfold w_limb_args in E.
  destruct (Nat.eqb_spec (length (arg 0 a)) 1) as [H0|]; [|discriminate].
  destruct (Nat.eqb_spec (length (arg 1 a)) 1) as [H1|]; [|discriminate]. cbn [andb] in E.
  pose proof (w_sarg_word 0 a Hwf) as Hx. pose proof (w_sarg_word 1 a Hwf) as Hy.
  destruct (carg_bool 2 a) as [c Hc]. rewrite Hc, w_select_limb_eq in E by assumption. injection E as <-.
  cbn [valid] in Va, Vb. rewrite (single_of_len1 _ H0) in Va. rewrite (single_of_len1 _ H1) in Vb.
  rewrite eval_single in Va, Vb. change (nthz (arg 0 a) 0) with (sarg 0 a) in Va. change (nthz (arg 1 a) 0) with (sarg 1 a) in Vb.
  apply out1; [apply wf_single; destruct c; assumption|]. cbn [valid]. rewrite eval_single. destruct c; assumption.
Qed.

(* ------------------------------------------------------------------ serde *)
Lemma pv_nz_serde_de : producer_ok pe_w_nz_serde_de.
Proof.
  unfold pe_w_nz_serde_de. pv_open. apply by_bytes0 in Hby. rewrite nz_serde_uint_eq in E by assumption.
  destruct (uint_serde_de (w_n 1 a) (arg 0 a)) as [rs| | | |] eqn:Es; try discriminate.
  destruct rs as [|r [|? ?]]; try (injection E as <-).
  - (* Val [] is not produced by the decoder, but the model would pass it on unchanged *)
    cbn [firstn]. constructor.
  - destruct (Z.eqb_spec (eval r) 0); [discriminate|]. injection E as <-.
    destruct (serde_de_strict _ _ _ Hby Es) as (_ & _ & Hwr & _). apply out1; assumption.
  - exfalso. rewrite uint_serde_de_eq in Es by assumption.
    repeat match type of Es with (if ?c then _ else _) = _ => destruct c; try discriminate Es end.
    cbv zeta in Es. repeat match type of Es with (if ?c then _ else _) = _ => destruct c; try discriminate Es end.
Qed.
Lemma pv_odd_serde_de : producer_ok pe_w_odd_serde_de.
Proof.
  unfold pe_w_odd_serde_de. pv_open. apply by_bytes0 in Hby. rewrite odd_serde_uint_eq in E by assumption.
  destruct (uint_serde_de (w_n 1 a) (arg 0 a)) as [rs| | | |] eqn:Es; try discriminate.
  destruct rs as [|r [|? ?]]; try (injection E as <-).
  - cbn [firstn]. constructor.
  - destruct (Z.odd (eval r)) eqn:Eo; [|discriminate]. injection E as <-.
    destruct (serde_de_strict _ _ _ Hby Es) as (_ & _ & Hwr & _). apply out1; assumption.
  - exfalso. rewrite uint_serde_de_eq in Es by assumption.
    repeat match type of Es with (if ?c then _ else _) = _ => destruct c; try discriminate Es end.
    cbv zeta in Es. repeat match type of Es with (if ?c then _ else _) = _ => destruct c; try discriminate Es end.
Qed.
Lemma pv_nz_serde_de_limb : producer_ok pe_w_nz_serde_de_limb.
Proof.
  unfold pe_w_nz_serde_de_limb. pv_open. apply by_bytes0 in Hby. rewrite nz_serde_limb_eq in E by assumption.
  destruct (Nat.ltb_spec (length (arg 0 a)) 8); [discriminate|].
  assert (Hb : 0 <= evalb 256 (firstn 8 (arg 0 a)) < Bn 1).
  { apply evalb_bytes_bound; [apply wfd_firstn; assumption | rewrite firstn_length; lia]. }
  set (x := evalb 256 (firstn 8 (arg 0 a))) in *.
  destruct (Z.eqb_spec x 0); [discriminate|].
  assert (Hvs : vs = [to_limbs 1 x]) by congruence. subst vs.
  apply out1'. apply to_limbs_valid_nz; assumption.
Qed.

(* ------------------------------------------------------------------ random generation, every stream *)
Lemma rnd_out_val f o vs : rnd_out f o = Val vs ->
  exists v ws nw nb, o = Some (v, Rng ws nw nb) /\ vs = [v; [nw]; [nb]].
Proof.
  unfold rnd_out, rnd_exh. destruct o as [[v [ws nw nb]]|].
  - intros E; injection E as <-. repeat eexists.
  - destruct (f =? 0); discriminate.
Qed.

(** random_valid: for EVERY word stream, a value returned by the NonZero / Odd samplers is valid *)
Lemma random_valid_nz n ws nw nb v r : (0 < n)%nat -> wf ws ->
  nonzero_uint_random n (Rng ws nw nb) = Some (v, r) -> out_ok WNonZero v.
Proof.
  intros Hn Hws E. destruct (nonzero_uint_random_valid n ws nw nb v r Hn Hws E) as (Hw & _ & Hp).
  split; [assumption|]. cbn [valid]. lia.
Qed.
Lemma random_valid_odd n ws nw nb v r : (0 < n)%nat -> wf ws ->
  odd_uint_random n (Rng ws nw nb) = Some (v, r) -> out_ok WOdd v.
Proof.
  intros Hn Hws E. destruct (odd_uint_random_valid n ws nw nb v r Hws Hn E) as (Hw & _ & Hp). split; assumption.
Qed.
(* Odd<BoxedUint>::random: also for bit_length = 0 (the one zero limb becomes 1) *)
Lemma random_valid_odd_boxed ws nw nb bl v r : wf ws -> 0 <= bl ->
  odd_boxed_random (Rng ws nw nb) bl = Some (v, r) -> out_ok WOdd v.
Proof.
  intros Hws Hbl E. unfold odd_boxed_random, boxed_random_bits in E.
  destruct (boxed_random_bits_prec (Rng ws nw nb) bl bl) as [v0 r0| ? ? ?] eqn:Eb; [|discriminate].
  destruct (boxed_random_bits_range ws nw nb bl bl v0 r0 Hws Hbl Eb) as (Hw0 & Hl0 & _).
  assert (Hne : v0 <> []).
  { intros ->. cbn [length] in Hl0. unfold rnd_boxed_limbs in Hl0. lia. }
  destruct (rnd_set_lsb_spec v0 Hw0 Hne) as (ls' & E' & Hw' & _ & _ & Ho).
  rewrite E' in E. injection E as <- _. split; assumption.
Qed.

Lemma w_n_pos i a : 0 < sarg i a -> (0 < w_n i a)%nat.
Proof. unfold w_n. lia. Qed.

Lemma pv_nz_random : producer_ok pe_w_nz_random.
Proof.
  unfold pe_w_nz_random. pv_open. destruct (Z.ltb_spec 0 (sarg 1 a)) as [Hp|]; [|discriminate].
  destruct (rnd_out_val _ _ _ E) as (v & ws' & nw & nb & Eo & ->). unfold w_rng in Eo.
  apply out1'. eapply random_valid_nz; [apply w_n_pos; eassumption | apply (w_wf_arg 0 a Hwf) | exact Eo].
Qed.
Lemma pv_odd_random : producer_ok pe_w_odd_random.
Proof.
  unfold pe_w_odd_random. pv_open. destruct (Z.ltb_spec 0 (sarg 1 a)) as [Hp|]; [|discriminate].
  destruct (rnd_out_val _ _ _ E) as (v & ws' & nw & nb & Eo & ->). unfold w_rng in Eo.
  apply out1'. eapply random_valid_odd; [apply w_n_pos; eassumption | apply (w_wf_arg 0 a Hwf) | exact Eo].
Qed.
Lemma pv_odd_random_boxed : producer_ok pe_w_odd_random_boxed.
Proof.
  unfold pe_w_odd_random_boxed. pv_open.
  destruct (rnd_out_val _ _ _ E) as (v & ws' & nw & nb & Eo & ->). unfold w_rng in Eo.
  apply out1'. eapply random_valid_odd_boxed; [apply (w_wf_arg 0 a Hwf) | | exact Eo].
  pose proof (w_sarg_word 1 a Hwf) as Hb. unfold is_word in Hb. lia.
Qed.

(* ------------------------------------------------------------------ wrappers made from wrappers *)
Lemma pv_nz_same : producer_ok pe_w_nz_same.
Proof.
  unfold pe_w_nz_same. pv_open. apply in_valid0 in Hin. unfold w_same in E. injection E as <-.
  apply out1; [apply (w_wf_arg 0 a Hwf) | assumption].
Qed.
Lemma pv_odd_same : producer_ok pe_w_odd_same.
Proof.
  unfold pe_w_odd_same. pv_open. apply in_valid0 in Hin. unfold w_same in E. injection E as <-.
  apply out1; [apply (w_wf_arg 0 a Hwf) | assumption].
Qed.
(** Odd::as_nz_ref reinterprets an Odd as a NonZero: sound because an odd value is not zero *)
Lemma pv_odd_as_nz_ref : producer_ok pe_w_odd_as_nz_ref.
Proof.
  unfold pe_w_odd_as_nz_ref. pv_open. apply in_valid0 in Hin. unfold w_same in E. injection E as <-.
  apply out1; [apply (w_wf_arg 0 a Hwf) | apply valid_odd_nz; assumption].
Qed.
Lemma pv_nz_widen : producer_ok pe_w_nz_widen.
Proof.
  unfold pe_w_nz_widen. pv_open. apply in_valid0 in Hin. pose proof (valid_nonempty _ _ Hin) as Hn.
  pose proof (w_wf_arg 0 a Hwf) as Ha.
  assert (Hl : (1 <= length (arg 0 a))%nat) by (destruct (arg 0 a); [congruence | cbn [length]; lia]).
  unfold nz_boxed_widen, vpanic in E. destruct (boxed_widen (arg 0 a) (sarg 1 a)) as [r|] eqn:Er; [|discriminate].
  injection E as <-. destruct (boxed_widen_spec _ _ r Ha Hl Er) as (_ & Hwr & _ & Her).
  apply out1; [assumption|]. cbn [valid] in *. rewrite Her. assumption.
Qed.

(* ================================================================== the table *)
(** producer_valid, by cases over the producer table with one lemma per producer *)
Theorem producers_all_ok : Forall producer_ok producers.
Proof.
  unfold producers. repeat (apply Forall_cons || apply Forall_nil).
  - exact pv_nz_new_limb.
  - exact pv_nz_new_uint.
  - exact pv_nz_new_boxed.
  - exact pv_nz_to_nz_limb.
  - exact pv_nz_to_nz_uint.
  - exact pv_nz_new_unwrap_limb.
  - exact pv_nz_new_unwrap_uint.
  - exact pv_odd_new.
  - exact pv_odd_to_odd.
  - exact pv_odd_to_odd_unwrap.
  - exact pv_nz_one.
  - exact pv_nz_max.
  - exact pv_nz_default.
  - exact pv_odd_default.
  - exact pv_nz_from_prim_limb.
  - exact pv_nz_from_prim_uint.
  - exact pv_nz_abs_sign.
  - exact pv_nz_from_be_bytes.
  - exact pv_nz_from_le_bytes.
  - exact pv_nz_from_be_byte_array.
  - exact pv_nz_from_le_byte_array.
  - exact pv_nz_from_be_bytes_limb.
  - exact pv_nz_from_le_bytes_limb.
  - exact pv_odd_from_be_hex.
  - exact pv_odd_from_le_hex.
  - exact pv_nz_select_limb.
  - exact pv_nz_select.
  - exact pv_nz_swap.
  - exact pv_odd_select.
  - exact pv_odd_swap.
  - exact pv_nz_serde_de.
  - exact pv_odd_serde_de.
  - exact pv_nz_serde_de_limb.
  - exact pv_nz_random.
  - exact pv_odd_random.
  - exact pv_odd_random_boxed.
  - exact pv_nz_same.
  - exact pv_odd_same.
  - exact pv_odd_as_nz_ref.
  - exact pv_nz_widen.
Qed.

Definition run_producer (p : pentry) (dbg : bool) (args : list (list Z)) : outcome := pe_model p dbg args.

Theorem producer_valid : forall p dbg args vs, In p producers -> dom p args ->
  run_producer p dbg args = Val vs -> Forall (out_ok (pe_out p)) (firstn (pe_nout p) vs).
Proof.
  intros p dbg args vs Hin. pose proof producers_all_ok as H. rewrite Forall_forall in H. apply (H p Hin).
Qed.

(** the op table the correspondence harness runs IS the producer table *)
Lemma lookup_producer : forall p, In p producers -> NoDup (map pe_key producers) ->
  lookup (pe_key p) ops_wrappers_model = Some (pe_model p).
Proof.
  unfold ops_wrappers_model. induction producers as [|q l IH]; intros p Hin Hnd; [contradiction|].
  cbn [map lookup]. inversion Hnd as [|? ? Hnotin Hnd']; subst. destruct Hin as [->|Hin].
  - rewrite String.eqb_refl. reflexivity.
  - destruct (String.eqb_spec (pe_key p) (pe_key q)) as [Heq|]; [|apply IH; assumption].
    exfalso. apply Hnotin. rewrite <- Heq. apply in_map. assumption.
Qed.

(* ================================================================== every call history *)
(** a wrapper value is OBTAINABLE when it is a wrapper-typed component of the result of a producer applied to
    well-formed arguments whose byte-string arguments are bytes and whose wrapper-typed arguments are themselves
    obtainable: the least set closed under the public API. *)
Inductive obtainable : wrapper -> list Z -> Prop :=
| Obt : forall p dbg args vs v,
    In p producers ->
    w_wf_args args ->
    Forall (fun j => wfd 256 (arg j args)) (pe_bytes p) ->
    Forall (fun jw => obtainable (snd jw) (arg (fst jw) args)) (pe_ins p) ->
    run_producer p dbg args = Val vs ->
    In v (firstn (pe_nout p) vs) ->
    obtainable (pe_out p) v.

(** no obtainable NonZero is zero, no obtainable Odd is even: by induction over the history *)
Theorem obtainable_valid : forall w v, obtainable w v -> wf v /\ valid w v.
Proof.
  fix IH 3. intros w v H. destruct H as [p dbg args vs v Hp Hwf Hby Hins E Hv].
  assert (Hd : dom p args).
  { split; [assumption|]. split; [assumption|].
    clear - Hins IH. induction Hins as [|jw l Hj Hl IHl]; constructor; [|assumption].
    apply IH in Hj. tauto. }
  pose proof (producer_valid p dbg args vs Hp Hd E) as Hall. rewrite Forall_forall in Hall. apply Hall. assumption.
Qed.
