(** C12 -- NonZero<T> and Odd<T> (T in Limb, Uint<N>, Int<N>, BoxedUint) can never hold an invalid value.
    Only statements, each closed by [exact] of a lemma of Proofs/Wrappers*P.v, followed by Print Assumptions.

    Model/Wrappers.v has one entry [pentry] per PRODUCER -- per way the safe public API hands out a wrapper value
    (tools/scan_producers.py lists them from the source, tools/vlib/c12.py ties every one of them to an entry):
    [pe_model] follows the Rust code, [pe_spec] is the documented result on plain integers, [pe_out] the wrapper type
    returned, [pe_nout] how many leading components of the result are wrappers, [pe_ins] which arguments are
    wrappers themselves, [pe_bytes] which are byte / character strings.  A value is its little-endian limb list
    of ANY length; [valid WNonZero v] is [eval v <> 0], [valid WOdd v] is [Z.odd (eval v) = true].
    [dom p args]: the arguments are words, the byte arguments are bytes, the wrapper arguments are valid. *)
From CB Require Import Model.Limbs Model.AddSub Model.Cmp Model.Conv Model.Rand Model.Wrappers
  Proofs.WordP Proofs.LimbsP Proofs.ConvDigitsP Proofs.RandMiscP
  Proofs.WrappersP Proofs.WrappersValidP Proofs.WrappersTablesP Proofs.WrappersOrderP Proofs.WrappersMiscP.
From Coq Require Import ZArith List String.
Import ListNotations.
Open Scope Z_scope. Open Scope list_scope.
Notation length := List.length.

(* ================================================================== the invariant, producer by producer *)

(** producer_valid: whatever a producer of the table returns as a wrapper is well formed and valid
    (non-zero, resp. odd) -- for every producer, every limb count, every argument value, byte string and RNG stream;
    by cases over the table with one lemma per producer (Proofs/WrappersValidP.v) *)
Theorem C12_producer_valid : forall p dbg args vs, In p producers -> dom p args ->
  run_producer p dbg args = Val vs -> Forall (out_ok (pe_out p)) (firstn (pe_nout p) vs).
Proof. exact producer_valid. Qed.
Print Assumptions C12_producer_valid.

(** every call history: the set of obtainable wrapper values is the least set closed under the producers (wrapper
    arguments of a call must themselves be obtainable); none of its NonZero members is zero, none of its Odd members even *)
Theorem C12_obtainable_valid : forall w v, obtainable w v -> wf v /\ valid w v.
Proof. exact obtainable_valid. Qed.
Print Assumptions C12_obtainable_valid.

(** hence no consumer ever observes a zero divisor or an even / zero modulus *)
Theorem C12_no_zero_divisor : forall v, obtainable WNonZero v -> eval v <> 0.
Proof. exact no_zero_divisor. Qed.
Print Assumptions C12_no_zero_divisor.
Theorem C12_no_even_modulus : forall v, obtainable WOdd v -> Z.odd (eval v) = true /\ eval v <> 0.
Proof. exact no_even_modulus. Qed.
Print Assumptions C12_no_even_modulus.

(* ================================================================== the gates are exact (valid <-> accepted) *)

(** NonZero::new / to_nz / new_unwrap, Odd::new / to_odd: accepted exactly for the valid values, unchanged *)
Theorem C12_nonzero_new_exact : forall a, wf a ->
  nz_new_uint a = (if eval a =? 0 then NoneV else Val [a]) /\
  nz_new_boxed a = (if eval a =? 0 then NoneV else Val [a]) /\
  nz_to_nz_uint a = (if eval a =? 0 then NoneV else Val [a]) /\
  nz_new_unwrap_uint a = (if eval a =? 0 then PanicV else Val [a]).
Proof. exact nonzero_new_exact. Qed.
Print Assumptions C12_nonzero_new_exact.

Theorem C12_nonzero_limb_exact : forall x, is_word x ->
  nz_new_limb x = (if x =? 0 then NoneV else Val [[x]]) /\
  nz_to_nz_limb x = (if x =? 0 then NoneV else Val [[x]]) /\
  nz_new_unwrap_limb x = (if x =? 0 then PanicV else Val [[x]]).
Proof. exact nonzero_limb_exact. Qed.
Print Assumptions C12_nonzero_limb_exact.

Theorem C12_odd_new_exact : forall a, wf a ->
  wodd_new a = (if Z.odd (eval a) then Val [a] else NoneV) /\
  wodd_to_odd a = (if Z.odd (eval a) then Val [a] else NoneV) /\
  wodd_to_odd_unwrap a = (if Z.odd (eval a) then Val [a] else PanicV).
Proof. exact odd_new_exact. Qed.
Print Assumptions C12_odd_new_exact.

(* ================================================================== Default *)

(** REFUTED on the unrepaired tree: the derived Default of Odd<T> wraps T::default() = 0, an even value, for every
    kind and width (finding F3a; repaired by tools/fix_C12_1.diff: impl<T: Constants> Default for Odd<T> = ONE) *)
Theorem C12_odd_default_derived_refuted : forall k n, ~ valid WOdd (odd_default_derived k n).
Proof. exact odd_default_derived_invalid. Qed.
Print Assumptions C12_odd_default_derived_refuted.

(** the repaired Default (and NonZero's): the value 1 at every kind / width that exists *)
Theorem C12_default_is_one : forall k n m, wsp_kind_n k n = Some m ->
  w_default k n = to_limbs m 1 /\ wf (w_default k n) /\ eval (w_default k n) = 1.
Proof. exact default_is_one. Qed.
Print Assumptions C12_default_is_one.

(* ================================================================== byte order *)

(** decoder_order: NonZero::from_le_* returns the little-endian, from_be_* the big-endian positional value of the
    bytes, [none] exactly for the all-zero string, and nothing else is accepted *)
Theorem C12_decoder_order_bytes : forall n bs r, wfd 256 bs ->
  (nz_from_le_bytes n bs = Val [r] -> length bs = (8 * n)%nat /\ length r = n /\ eval r = le_value bs /\ eval r <> 0) /\
  (nz_from_be_bytes n bs = Val [r] -> length bs = (8 * n)%nat /\ length r = n /\ eval r = be_value bs /\ eval r <> 0) /\
  (nz_from_le_bytes n bs = NoneV -> length bs = (8 * n)%nat /\ le_value bs = 0) /\
  (nz_from_be_bytes n bs = NoneV -> length bs = (8 * n)%nat /\ be_value bs = 0).
Proof. exact decoder_order_bytes. Qed.
Print Assumptions C12_decoder_order_bytes.

Theorem C12_decoder_order_limb : forall bs r, wfd 256 bs ->
  (nz_limb_from_le_bytes bs = Val [r] -> length bs = 8%nat /\ eval r = le_value bs /\ eval r <> 0) /\
  (nz_limb_from_be_bytes bs = Val [r] -> length bs = 8%nat /\ eval r = be_value bs /\ eval r <> 0).
Proof. exact decoder_order_limb. Qed.
Print Assumptions C12_decoder_order_limb.

(** Odd::from_be_hex / from_le_hex: exactly 16 n hex digits [ds] (in string order); big-endian = the base-16 numeral,
    little-endian = the byte pairs least significant byte first; accepted only when that value is odd *)
Theorem C12_decoder_order_hex : forall n cs r, wfd 256 cs ->
  (odd_of_be_hex n cs = Val [r] ->
     length cs = (16 * n)%nat /\ exists ds, hexvals cs = Some ds /\ length r = n /\
     eval r = evalb 16 (rev ds) /\ Z.odd (eval r) = true) /\
  (odd_of_le_hex n cs = Val [r] ->
     length cs = (16 * n)%nat /\ exists ds, hexvals cs = Some ds /\ length r = n /\
     eval r = evalb 256 (nib_pairs ds) /\ Z.odd (eval r) = true).
Proof. exact decoder_order_hex. Qed.
Print Assumptions C12_decoder_order_hex.

(** Deserialize: the (bincode-framed) payload is little-endian; zero / even payloads are rejected *)
Theorem C12_decoder_order_serde : forall n bs r, wfd 256 bs ->
  (nz_serde_uint n bs = Val [r] ->
     evalb 256 (firstn 8 bs) = Z.of_nat (8 * n) /\ eval r = le_value (firstn (8 * n) (skipn 8 bs)) /\ eval r <> 0) /\
  (odd_serde_uint n bs = Val [r] ->
     evalb 256 (firstn 8 bs) = Z.of_nat (8 * n) /\ eval r = le_value (firstn (8 * n) (skipn 8 bs)) /\ Z.odd (eval r) = true).
Proof. exact decoder_order_serde. Qed.
Print Assumptions C12_decoder_order_serde.

(* ================================================================== selection, random generation *)

(** select_valid: conditional selection / swap of two valid wrappers of the same width, for either choice *)
Theorem C12_select_valid : forall w a b c vs, wf a -> wf b -> length a = length b -> valid w a -> valid w b ->
  w_select a b (b2z c) = Val vs -> Forall (out_ok w) (firstn 1 vs).
Proof. exact select_valid. Qed.
Print Assumptions C12_select_valid.
Theorem C12_swap_valid : forall w a b c vs, wf a -> wf b -> length a = length b -> valid w a -> valid w b ->
  w_swap a b (b2z c) = Val vs -> Forall (out_ok w) (firstn 2 vs).
Proof. exact swap_valid. Qed.
Print Assumptions C12_swap_valid.

(** random_valid: for EVERY stream of RNG words (all-zero prefixes included) a returned sample is valid; an
    exhausted stream is the RNG error, never an invalid value *)
Theorem C12_random_valid_nonzero : forall n ws nw nb v r, (0 < n)%nat -> wf ws ->
  nonzero_uint_random n (Rng ws nw nb) = Some (v, r) -> out_ok WNonZero v.
Proof. exact random_valid_nz. Qed.
Print Assumptions C12_random_valid_nonzero.
Theorem C12_random_valid_odd : forall n ws nw nb v r, (0 < n)%nat -> wf ws ->
  odd_uint_random n (Rng ws nw nb) = Some (v, r) -> out_ok WOdd v.
Proof. exact random_valid_odd. Qed.
Print Assumptions C12_random_valid_odd.
Theorem C12_random_valid_odd_boxed : forall ws nw nb bl v r, wf ws -> 0 <= bl ->
  odd_boxed_random (Rng ws nw nb) bl = Some (v, r) -> out_ok WOdd v.
Proof. exact random_valid_odd_boxed. Qed.
Print Assumptions C12_random_valid_odd_boxed.
(** an all-zero stream never yields a NonZero: the sampler runs out of words *)
Theorem C12_random_all_zero_stream : forall n k nw nb, (0 < n)%nat ->
  nonzero_uint_random n (Rng (zeros k) nw nb) = None.
Proof. exact random_all_zero_stream. Qed.
Print Assumptions C12_random_all_zero_stream.

(** Odd::as_nz_ref (a pointer reinterpretation in the code) is sound: an odd value is not zero *)
Theorem C12_as_nz_ref_sound : forall v, valid WOdd v -> valid WNonZero v.
Proof. exact valid_odd_nz. Qed.
Print Assumptions C12_as_nz_ref_sound.

(* ================================================================== the table theorem: model = spec *)
Theorem C12_model_eq_spec : forall p dbg args, In p producers -> w_wf_args args ->
  pe_spec p dbg args <> Unsupported -> pe_model p dbg args = pe_spec p dbg args.
Proof. exact wrappers_model_eq_spec. Qed.
Print Assumptions C12_model_eq_spec.

(** the op tables used by the correspondence driver are this table (distinct keys) *)
Theorem C12_tables_agree : forall p dbg args, In p producers -> w_wf_args args ->
  lookup (pe_key p) ops_wrappers_model = Some (pe_model p) /\
  lookup (pe_key p) ops_wrappers_spec = Some (pe_spec p) /\
  (pe_spec p dbg args <> Unsupported -> pe_model p dbg args = pe_spec p dbg args).
Proof. exact wrappers_tables_agree. Qed.
Print Assumptions C12_tables_agree.

(* ================================================================== non-vacuity *)
Example C12_ex_new : run_producer pe_w_nz_new_uint false [[0; 5]] = Val [[0; 5]] /\
                     run_producer pe_w_nz_new_uint false [[0; 0]] = NoneV /\
                     run_producer pe_w_odd_new false [[2; 1]] = NoneV /\
                     run_producer pe_w_odd_new false [[3; 0]] = Val [[3; 0]].
Proof. vm_compute. repeat split. Qed.
(* bytes 01 00 .. 00: little-endian 1, big-endian 2^56 *)
Example C12_ex_order : run_producer pe_w_nz_from_le_bytes false [[1; 0; 0; 0; 0; 0; 0; 0]; [1]] = Val [[1]] /\
                       run_producer pe_w_nz_from_be_bytes false [[1; 0; 0; 0; 0; 0; 0; 0]; [1]] = Val [[2 ^ 56]].
Proof. vm_compute. repeat split. Qed.
(* "0200000000000001": big-endian value ...01 is odd, little-endian value 0x0100000000000002 is even *)
Example C12_ex_hex :
  run_producer pe_w_odd_from_be_hex false [[48; 50; 48; 48; 48; 48; 48; 48; 48; 48; 48; 48; 48; 48; 48; 49]; [1]] = Val [[2 * 2 ^ 56 + 1]] /\
  run_producer pe_w_odd_from_le_hex false [[48; 50; 48; 48; 48; 48; 48; 48; 48; 48; 48; 48; 48; 48; 48; 49]; [1]] = PanicV.
Proof. vm_compute. repeat split. Qed.
(* a stream that starts with two rejected (all-zero) blocks *)
Example C12_ex_random : run_producer pe_w_nz_random false [[0; 0; 0; 0; 7; 0]; [2]; [1]] = Val [[7; 0]; [6]; [48]] /\
                        run_producer pe_w_nz_random false [[0; 0; 0; 0]; [2]; [1]] = ErrV 9.
Proof. vm_compute. repeat split. Qed.
Example C12_ex_default : run_producer pe_w_odd_default false [[1]; [2]] = Val [[1; 0]] /\ odd_default_derived 1 2 = [0; 0].
Proof. vm_compute. repeat split. Qed.
Example C12_ex_obtainable : obtainable WOdd [3; 0].
Proof.
  apply (Obt pe_w_odd_new false [[3; 0]] [[3; 0]] [3; 0]).
  - unfold producers. cbn. tauto.
  - repeat constructor; unfold is_word; cbn; try discriminate; reflexivity.
  - constructor.
  - constructor.
  - vm_compute. reflexivity.
  - cbn. left. reflexivity.
Qed.
