//! C12 adapters: every public way of obtaining a `NonZero<T>` / `Odd<T>` (T in Limb, Uint<N>, Int<N>, BoxedUint).
//! A rust op is `<model op>[.<route>]`; tools/vlib/c12.py::PRODUCERS maps every producer found in the source by
//! tools/scan_producers.py to the model op(s) and routes here.
//!
//! Conventions: a value is its little-endian word list; `kind` scalars: 0 Limb, 1 Uint<N>, 2 Int<N>, 3 BoxedUint;
//! byte / character strings are one value per element; Choice arguments are 0 / non-zero.
//! Wrapper-typed INPUTS (select, abs_sign, widen, as_nz_ref, clone ...) are built through the checked constructors
//! (`NonZero::new(..).unwrap()`), so an invalid input is a harness panic -- the generator never sends one.
use crate::util::*;
use core::fmt;
use core::num::{NonZeroU128, NonZeroU16, NonZeroU32, NonZeroU64, NonZeroU8};
use crypto_bigint::hybrid_array::Array;
use crypto_bigint::modular::{BoxedMontyParams, ConstMontyParams, MontyParams};
use crypto_bigint::rand_core::{RngCore, TryRngCore};
use crypto_bigint::{
    impl_modulus, ArrayEncoding, BoxedUint, ByteArray, ConstCtOption, ConstantTimeSelect, Encoding, Int, Limb, NonZero,
    Odd, Random, Uint, Zero, U128, U192, U256, U64,
};
use subtle::{ConditionallySelectable, CtOption};
use crypto_bigint::zeroize::Zeroize;

pub const OPS: &[&str] = &[
    "w.nz.abs_sign",
    "w.nz.default",
    "w.nz.from_be_byte_array",
    "w.nz.from_be_bytes",
    "w.nz.from_be_bytes.limb",
    "w.nz.from_le_byte_array",
    "w.nz.from_le_bytes",
    "w.nz.from_le_bytes.limb",
    "w.nz.from_prim.limb",
    "w.nz.from_prim.limb.from",
    "w.nz.from_prim.uint",
    "w.nz.from_prim.uint.from",
    "w.nz.max",
    "w.nz.new.boxed",
    "w.nz.new.limb",
    "w.nz.new.uint",
    "w.nz.new.uint.int",
    "w.nz.new_unwrap.limb",
    "w.nz.new_unwrap.limb.to_nz_expect",
    "w.nz.new_unwrap.limb.to_nz_unwrap",
    "w.nz.new_unwrap.uint",
    "w.nz.new_unwrap.uint.int_to_nz_unwrap",
    "w.nz.new_unwrap.uint.to_nz_expect",
    "w.nz.new_unwrap.uint.to_nz_unwrap",
    "w.nz.one",
    "w.nz.random",
    "w.nz.random.infallible",
    "w.nz.random.int",
    "w.nz.random.int_infallible",
    "w.nz.random.limb",
    "w.nz.random.limb_infallible",
    "w.nz.same.clone",
    "w.nz.same.copy",
    "w.nz.same.get",
    "w.nz.select",
    "w.nz.select.assign",
    "w.nz.select.ct_assign",
    "w.nz.select.ct_select",
    "w.nz.select.int",
    "w.nz.select.limb",
    "w.nz.select.limb.assign",
    "w.nz.select.limb.ct_select",
    "w.nz.serde_de",
    "w.nz.serde_de.from_reader",
    "w.nz.serde_de.limb",
    "w.nz.swap",
    "w.nz.swap.ct_swap",
    "w.nz.swap.int",
    "w.nz.to_nz.limb",
    "w.nz.to_nz.limb.ctopt",
    "w.nz.to_nz.uint",
    "w.nz.to_nz.uint.ctopt",
    "w.nz.to_nz.uint.int",
    "w.nz.to_nz.uint.int_ctopt",
    "w.nz.widen",
    "w.nz.zeroize",
    "w.odd.as_nz_ref",
    "w.odd.as_nz_ref.as_ref",
    "w.odd.default",
    "w.odd.from_be_hex",
    "w.odd.from_be_hex.impl_modulus",
    "w.odd.from_be_hex.from_const_params",
    "w.odd.from_le_hex",
    "w.odd.new",
    "w.odd.new.boxed",
    "w.odd.new.boxed_to_odd",
    "w.odd.random",
    "w.odd.random.infallible",
    "w.odd.random_boxed",
    "w.odd.random_boxed.infallible_rng",
    "w.odd.same.boxed_monty_params",
    "w.odd.same.boxed_monty_params_vartime",
    "w.odd.same.clone",
    "w.odd.same.copy",
    "w.odd.same.get",
    "w.odd.same.monty_params",
    "w.odd.same.to_boxed",
    "w.odd.same.to_boxed_ref",
    "w.odd.select",
    "w.odd.select.assign",
    "w.odd.select.ct_assign",
    "w.odd.select.ct_select",
    "w.odd.select.int",
    "w.odd.serde_de",
    "w.odd.serde_de.from_reader",
    "w.odd.swap",
    "w.odd.swap.ct_swap",
    "w.odd.to_odd",
    "w.odd.to_odd.ctopt",
    "w.odd.to_odd.int",
    "w.odd.to_odd.int_ctopt",
    "w.odd.to_odd_unwrap",
    "w.odd.to_odd_unwrap.expect",
    "w.odd.to_odd_unwrap.int",
    "w.odd.zeroize",
];

// ---------------------------------------------------------------- helpers
fn by(a: &Args, i: usize) -> Vec<u8> {
    ar(a, i)
        .iter()
        .map(|&w| {
            assert!(w < 256, "harness: byte argument out of range");
            w as u8
        })
        .collect()
}
fn st(a: &Args, i: usize) -> String {
    String::from_utf8(by(a, i)).expect("harness: string argument is not valid UTF-8")
}
fn opt<T>(o: Option<T>, f: impl Fn(&T) -> Vec<u64>) -> Option<Out> {
    match o {
        Some(x) => val1(f(&x)),
        None => Some(Out::None),
    }
}
fn limb1(a: &Args, i: usize) -> Limb {
    assert_eq!(ar(a, i).len(), 1, "harness: a Limb argument is one word");
    Limb(sc(a, i))
}
/// valid wrapper inputs, built through the checked constructors only
fn nzu<const N: usize>(v: &[u64]) -> NonZero<Uint<N>> {
    NonZero::new(u::<N>(v)).into_option().expect("harness: NonZero input must be non-zero")
}
fn nzi<const N: usize>(v: &[u64]) -> NonZero<Int<N>> {
    NonZero::new(si::<N>(v)).into_option().expect("harness: NonZero input must be non-zero")
}
fn nzl(v: u64) -> NonZero<Limb> {
    NonZero::new(Limb(v)).into_option().expect("harness: NonZero input must be non-zero")
}
fn nzb(v: &[u64]) -> NonZero<BoxedUint> {
    NonZero::new(bx(v)).into_option().expect("harness: NonZero input must be non-zero")
}
fn odu<const N: usize>(v: &[u64]) -> Odd<Uint<N>> {
    Odd::new(u::<N>(v)).into_option().expect("harness: Odd input must be odd")
}
fn odi<const N: usize>(v: &[u64]) -> Odd<Int<N>> {
    Option::<Odd<Int<N>>>::from(si::<N>(v).to_odd()).expect("harness: Odd input must be odd")
}
fn odb(v: &[u64]) -> Odd<BoxedUint> {
    Odd::new(bx(v)).into_option().expect("harness: Odd input must be odd")
}
const E_DECODE: u32 = 0;
const E_INVALID: u32 = 1;
fn serde_res<T>(r: Result<T, bincode::Error>, f: impl Fn(&T) -> Vec<u64>) -> Option<Out> {
    match r {
        Ok(x) => val1(f(&x)),
        Err(e) => match *e {
            bincode::ErrorKind::Custom(ref m) if m.contains("expected a non-zero") => Some(Out::Err(E_INVALID)),
            _ => Some(Out::Err(E_DECODE)),
        },
    }
}

// ---------------------------------------------------------------- the replaying RNG (same behaviour as the one of c19.rs)
#[derive(Debug)]
pub struct Exhausted;
impl fmt::Display for Exhausted {
    fn fmt(&self, f: &mut fmt::Formatter<'_>) -> fmt::Result {
        write!(f, "replay stream exhausted")
    }
}
impl core::error::Error for Exhausted {}
struct Replay {
    words: Vec<u64>,
    pos: usize,
    bytes: u64,
}
impl Replay {
    fn new(words: &[u64]) -> Self {
        Replay { words: words.to_vec(), pos: 0, bytes: 0 }
    }
    fn take(&mut self) -> Result<u64, Exhausted> {
        match self.words.get(self.pos) {
            Some(w) => {
                self.pos += 1;
                Ok(*w)
            }
            None => Err(Exhausted),
        }
    }
}
impl TryRngCore for Replay {
    type Error = Exhausted;
    fn try_next_u32(&mut self) -> Result<u32, Exhausted> {
        let w = self.take()?;
        self.bytes += 4;
        Ok(w as u32)
    }
    fn try_next_u64(&mut self) -> Result<u64, Exhausted> {
        let w = self.take()?;
        self.bytes += 8;
        Ok(w)
    }
    fn try_fill_bytes(&mut self, dst: &mut [u8]) -> Result<(), Exhausted> {
        let total = dst.len() as u64;
        let mut left = dst;
        while left.len() >= 8 {
            let (l, r) = { left }.split_at_mut(8);
            left = r;
            let chunk: [u8; 8] = self.take()?.to_le_bytes();
            l.copy_from_slice(&chunk);
        }
        let n = left.len();
        if n > 4 {
            let chunk: [u8; 8] = self.take()?.to_le_bytes();
            left.copy_from_slice(&chunk[..n]);
        } else if n > 0 {
            let chunk: [u8; 4] = (self.take()? as u32).to_le_bytes();
            left.copy_from_slice(&chunk[..n]);
        }
        self.bytes += total;
        Ok(())
    }
}
fn done(v: Vec<u64>, r: &Replay) -> Option<Out> {
    Some(Out::Val(vec![v, vec![r.pos as u64], vec![r.bytes]]))
}
fn rres<T>(x: Result<T, Exhausted>, r: &Replay, f: impl Fn(&T) -> Vec<u64>) -> Option<Out> {
    match x {
        Ok(v) => done(f(&v), r),
        Err(Exhausted) => Some(Out::Err(9)),
    }
}

// ---------------------------------------------------------------- Limb
fn limb_ops(op: &str, a: &Args) -> Option<Out> {
    match op {
        "w.nz.new.limb" => ctopt(NonZero::new(limb1(a, 0)), |z| lv(z.get())),
        "w.nz.to_nz.limb" => opt(Option::<NonZero<Limb>>::from(limb1(a, 0).to_nz()), |z| lv(z.get())),
        "w.nz.to_nz.limb.ctopt" => ctopt(CtOption::<NonZero<Limb>>::from(limb1(a, 0).to_nz()), |z| lv(z.get())),
        "w.nz.new_unwrap.limb" => val1(lv(NonZero::<Limb>::new_unwrap(limb1(a, 0)).get())),
        "w.nz.new_unwrap.limb.to_nz_unwrap" => val1(lv(limb1(a, 0).to_nz().unwrap().get())),
        "w.nz.new_unwrap.limb.to_nz_expect" => val1(lv(limb1(a, 0).to_nz().expect("zero").get())),
        "w.nz.from_prim.limb" | "w.nz.from_prim.limb.from" => {
            let v = sc(a, 0);
            let from = op.ends_with(".from");
            let r: NonZero<Limb> = match (sc(a, 1), from) {
                (8, false) => NonZero::<Limb>::from_u8(NonZeroU8::new(u8::try_from(v).ok()?)?),
                (16, false) => NonZero::<Limb>::from_u16(NonZeroU16::new(u16::try_from(v).ok()?)?),
                (32, false) => NonZero::<Limb>::from_u32(NonZeroU32::new(u32::try_from(v).ok()?)?),
                (64, false) => NonZero::<Limb>::from_u64(NonZeroU64::new(v)?),
                (8, true) => NonZero::<Limb>::from(NonZeroU8::new(u8::try_from(v).ok()?)?),
                (16, true) => NonZero::<Limb>::from(NonZeroU16::new(u16::try_from(v).ok()?)?),
                (32, true) => NonZero::<Limb>::from(NonZeroU32::new(u32::try_from(v).ok()?)?),
                (64, true) => NonZero::<Limb>::from(NonZeroU64::new(v)?),
                _ => return None,
            };
            val1(lv(r.get()))
        }
        "w.nz.from_be_bytes.limb" => {
            let r = <[u8; 8]>::try_from(&by(a, 0)[..]).expect("harness: exact length");
            ctopt(NonZero::<Limb>::from_be_bytes(r), |z| lv(z.get()))
        }
        "w.nz.from_le_bytes.limb" => {
            let r = <[u8; 8]>::try_from(&by(a, 0)[..]).expect("harness: exact length");
            ctopt(NonZero::<Limb>::from_le_bytes(r), |z| lv(z.get()))
        }
        "w.nz.select.limb" => {
            let (x, y) = (nzl(sc(a, 0)), nzl(sc(a, 1)));
            val1(lv(NonZero::<Limb>::conditional_select(&x, &y, choice(sc(a, 2))).get()))
        }
        "w.nz.select.limb.assign" => {
            let (mut x, y) = (nzl(sc(a, 0)), nzl(sc(a, 1)));
            x.conditional_assign(&y, choice(sc(a, 2)));
            val1(lv(x.get()))
        }
        "w.nz.select.limb.ct_select" => {
            let (x, y) = (nzl(sc(a, 0)), nzl(sc(a, 1)));
            val1(lv(<NonZero<Limb> as ConstantTimeSelect>::ct_select(&x, &y, choice(sc(a, 2))).get()))
        }
        "w.nz.serde_de.limb" => serde_res(bincode::deserialize::<NonZero<Limb>>(&by(a, 0)), |z| lv(z.get())),
        _ => None,
    }
}

// ---------------------------------------------------------------- constants / Default: args = kind, limb count
fn consts_n<const N: usize>(op: &str, a: &Args) -> Option<Out> {
    match (op, sc(a, 0)) {
        ("w.nz.one", 1) => val1(uv(&NonZero::<Uint<N>>::ONE.get())),
        ("w.nz.one", 2) => val1(iv(&NonZero::<Int<N>>::ONE.get())),
        ("w.nz.max", 1) => val1(uv(&NonZero::<Uint<N>>::MAX.get())),
        ("w.nz.max", 2) => val1(iv(&NonZero::<Int<N>>::MAX.get())),
        ("w.nz.default", 1) => val1(uv(&NonZero::<Uint<N>>::default().get())),
        ("w.nz.default", 2) => val1(iv(&NonZero::<Int<N>>::default().get())),
        ("w.odd.default", 1) => val1(uv(&Odd::<Uint<N>>::default().get())),
        ("w.odd.default", 2) => val1(iv(&Odd::<Int<N>>::default().get())),
        _ => None,
    }
}
fn consts(op: &str, a: &Args) -> Option<Out> {
    if sc(a, 0) == 0 {
        return match op {
            "w.nz.one" => val1(lv(NonZero::<Limb>::ONE.get())),
            "w.nz.max" => val1(lv(NonZero::<Limb>::MAX.get())),
            "w.nz.default" => val1(lv(NonZero::<Limb>::default().get())),
            "w.odd.default" => val1(lv(Odd::<Limb>::default().get())),
            _ => None,
        };
    }
    with_n!(sc(a, 1) as usize, [1, 2, 3, 4, 5, 6, 7, 8, 16, 32], consts_n, op, a)
}

// ---------------------------------------------------------------- Uint<N> / Int<N>
fn uint_val<const N: usize>(op: &str, a: &Args) -> Option<Out> {
    let c = choice(sc(a, 2));
    match op {
        "w.nz.new.uint" => ctopt(NonZero::new(u::<N>(ar(a, 0))), |z| uv(&z.get())),
        "w.nz.new.uint.int" => ctopt(NonZero::new(si::<N>(ar(a, 0))), |z| iv(&z.get())),
        "w.nz.to_nz.uint" => opt(Option::<NonZero<Uint<N>>>::from(u::<N>(ar(a, 0)).to_nz()), |z| uv(&z.get())),
        "w.nz.to_nz.uint.ctopt" => ctopt(CtOption::<NonZero<Uint<N>>>::from(u::<N>(ar(a, 0)).to_nz()), |z| uv(&z.get())),
        "w.nz.to_nz.uint.int" => opt(Option::<NonZero<Int<N>>>::from(si::<N>(ar(a, 0)).to_nz()), |z| iv(&z.get())),
        "w.nz.to_nz.uint.int_ctopt" => ctopt(CtOption::<NonZero<Int<N>>>::from(si::<N>(ar(a, 0)).to_nz()), |z| iv(&z.get())),
        "w.nz.new_unwrap.uint" => val1(uv(&NonZero::<Uint<N>>::new_unwrap(u::<N>(ar(a, 0))).get())),
        "w.nz.new_unwrap.uint.to_nz_unwrap" => val1(uv(&u::<N>(ar(a, 0)).to_nz().unwrap().get())),
        "w.nz.new_unwrap.uint.to_nz_expect" => val1(uv(&u::<N>(ar(a, 0)).to_nz().expect("zero").get())),
        "w.nz.new_unwrap.uint.int_to_nz_unwrap" => val1(iv(&si::<N>(ar(a, 0)).to_nz().unwrap().get())),
        "w.odd.new" => ctopt(Odd::new(u::<N>(ar(a, 0))), |z| uv(&z.get())),
        "w.odd.to_odd" => opt(Option::<Odd<Uint<N>>>::from(u::<N>(ar(a, 0)).to_odd()), |z| uv(&z.get())),
        "w.odd.to_odd.ctopt" => ctopt(CtOption::<Odd<Uint<N>>>::from(u::<N>(ar(a, 0)).to_odd()), |z| uv(&z.get())),
        "w.odd.to_odd.int" => opt(Option::<Odd<Int<N>>>::from(si::<N>(ar(a, 0)).to_odd()), |z| iv(&z.get())),
        "w.odd.to_odd.int_ctopt" => ctopt(CtOption::<Odd<Int<N>>>::from(si::<N>(ar(a, 0)).to_odd()), |z| iv(&z.get())),
        "w.odd.to_odd_unwrap" => val1(uv(&u::<N>(ar(a, 0)).to_odd().unwrap().get())),
        "w.odd.to_odd_unwrap.expect" => val1(uv(&u::<N>(ar(a, 0)).to_odd().expect("even").get())),
        "w.odd.to_odd_unwrap.int" => val1(iv(&si::<N>(ar(a, 0)).to_odd().unwrap().get())),
        "w.nz.abs_sign" => {
            let (m, s) = nzi::<N>(ar(a, 0)).abs_sign();
            val2(uv(&m.get()), cc(s))
        }
        // ---- selection between valid values
        "w.nz.select" => val1(uv(&NonZero::conditional_select(&nzu::<N>(ar(a, 0)), &nzu::<N>(ar(a, 1)), c).get())),
        "w.nz.select.assign" => {
            let mut x = nzu::<N>(ar(a, 0));
            x.conditional_assign(&nzu::<N>(ar(a, 1)), c);
            val1(uv(&x.get()))
        }
        "w.nz.select.ct_select" => {
            val1(uv(&<NonZero<Uint<N>> as ConstantTimeSelect>::ct_select(&nzu::<N>(ar(a, 0)), &nzu::<N>(ar(a, 1)), c).get()))
        }
        "w.nz.select.ct_assign" => {
            let mut x = nzu::<N>(ar(a, 0));
            ConstantTimeSelect::ct_assign(&mut x, &nzu::<N>(ar(a, 1)), c);
            val1(uv(&x.get()))
        }
        "w.nz.select.int" => val1(iv(&NonZero::conditional_select(&nzi::<N>(ar(a, 0)), &nzi::<N>(ar(a, 1)), c).get())),
        "w.nz.swap" => {
            let (mut x, mut y) = (nzu::<N>(ar(a, 0)), nzu::<N>(ar(a, 1)));
            ConditionallySelectable::conditional_swap(&mut x, &mut y, c);
            val2(uv(&x.get()), uv(&y.get()))
        }
        "w.nz.swap.ct_swap" => {
            let (mut x, mut y) = (nzu::<N>(ar(a, 0)), nzu::<N>(ar(a, 1)));
            ConstantTimeSelect::ct_swap(&mut x, &mut y, c);
            val2(uv(&x.get()), uv(&y.get()))
        }
        "w.nz.swap.int" => {
            let (mut x, mut y) = (nzi::<N>(ar(a, 0)), nzi::<N>(ar(a, 1)));
            ConditionallySelectable::conditional_swap(&mut x, &mut y, c);
            val2(iv(&x.get()), iv(&y.get()))
        }
        "w.odd.select" => val1(uv(&Odd::conditional_select(&odu::<N>(ar(a, 0)), &odu::<N>(ar(a, 1)), c).get())),
        "w.odd.select.assign" => {
            let mut x = odu::<N>(ar(a, 0));
            x.conditional_assign(&odu::<N>(ar(a, 1)), c);
            val1(uv(&x.get()))
        }
        "w.odd.select.ct_select" => {
            val1(uv(&<Odd<Uint<N>> as ConstantTimeSelect>::ct_select(&odu::<N>(ar(a, 0)), &odu::<N>(ar(a, 1)), c).get()))
        }
        "w.odd.select.ct_assign" => {
            let mut x = odu::<N>(ar(a, 0));
            ConstantTimeSelect::ct_assign(&mut x, &odu::<N>(ar(a, 1)), c);
            val1(uv(&x.get()))
        }
        "w.odd.select.int" => val1(iv(&Odd::conditional_select(&odi::<N>(ar(a, 0)), &odi::<N>(ar(a, 1)), c).get())),
        "w.odd.swap" => {
            let (mut x, mut y) = (odu::<N>(ar(a, 0)), odu::<N>(ar(a, 1)));
            ConditionallySelectable::conditional_swap(&mut x, &mut y, c);
            val2(uv(&x.get()), uv(&y.get()))
        }
        "w.odd.swap.ct_swap" => {
            let (mut x, mut y) = (odu::<N>(ar(a, 0)), odu::<N>(ar(a, 1)));
            ConstantTimeSelect::ct_swap(&mut x, &mut y, c);
            val2(uv(&x.get()), uv(&y.get()))
        }
        _ => None,
    }
}

/// wrappers made from wrappers; args = value, kind
fn same_n<const N: usize>(op: &str, a: &Args) -> Option<Out> {
    let v = ar(a, 0);
    match (op, sc(a, 1)) {
        ("w.nz.same.clone", 1) => val1(uv(&nzu::<N>(v).clone().get())),
        ("w.nz.same.clone", 2) => val1(iv(&nzi::<N>(v).clone().get())),
        ("w.nz.same.copy", 1) => { let x = nzu::<N>(v); let y = x; val1(uv(y.as_ref())) }
        ("w.nz.same.copy", 2) => { let x = nzi::<N>(v); let y = x; val1(iv(y.as_ref())) }
        ("w.nz.same.get", 1) => { let x = nzu::<N>(v); assert_eq!(*x, x.get()); val1(uv(&*x)) }
        ("w.nz.same.get", 2) => { let x = nzi::<N>(v); assert_eq!(*x, x.get()); val1(iv(&*x)) }
        ("w.odd.same.clone", 1) => val1(uv(&odu::<N>(v).clone().get())),
        ("w.odd.same.clone", 2) => val1(iv(&odi::<N>(v).clone().get())),
        ("w.odd.same.copy", 1) => { let x = odu::<N>(v); let y = x; val1(uv(y.as_ref())) }
        ("w.odd.same.copy", 2) => { let x = odi::<N>(v); let y = x; val1(iv(y.as_ref())) }
        ("w.odd.same.get", 1) => { let x = odu::<N>(v); assert_eq!(*x, x.get()); val1(uv(&*x)) }
        ("w.odd.same.get", 2) => { let x = odi::<N>(v); assert_eq!(*x, x.get()); val1(iv(&*x)) }
        ("w.odd.same.to_boxed", 1) => val1(bv(&Odd::<BoxedUint>::from(odu::<N>(v)).get())),
        ("w.odd.same.to_boxed_ref", 1) => val1(bv(&Odd::<BoxedUint>::from(&odu::<N>(v)).get())),
        ("w.odd.as_nz_ref", 1) => { let x = odu::<N>(v); val1(uv(x.as_nz_ref().as_ref())) }
        ("w.odd.as_nz_ref", 2) => { let x = odi::<N>(v); val1(iv(x.as_nz_ref().as_ref())) }
        ("w.odd.as_nz_ref.as_ref", 1) => { let x = odu::<N>(v); let r: &NonZero<Uint<N>> = AsRef::<NonZero<Uint<N>>>::as_ref(&x); val1(uv(&r.get())) }
        ("w.odd.as_nz_ref.as_ref", 2) => { let x = odi::<N>(v); let r: &NonZero<Int<N>> = AsRef::<NonZero<Int<N>>>::as_ref(&x); val1(iv(&r.get())) }
        ("w.nz.zeroize", 1) => { let mut x = nzu::<N>(v); x.zeroize(); val1(uv(&x.get())) }
        ("w.odd.zeroize", 1) => { let mut x = odu::<N>(v); x.zeroize(); val1(uv(&x.get())) }
        _ => None,
    }
}
fn same_limb_boxed(op: &str, a: &Args) -> Option<Out> {
    let v = ar(a, 0);
    match (op, sc(a, 1)) {
        ("w.nz.same.clone", 0) => val1(lv(nzl(sc(a, 0)).clone().get())),
        ("w.nz.same.copy", 0) => { let x = nzl(sc(a, 0)); let y = x; val1(lv(y.get())) }
        ("w.nz.same.get", 0) => { let x = nzl(sc(a, 0)); assert_eq!(*x, x.get()); val1(lv(*x)) }
        ("w.nz.same.clone", 3) => val1(bv(&nzb(v).clone().get())),
        ("w.nz.same.get", 3) => { let x = nzb(v); val1(bv(&*x)) }
        ("w.odd.same.clone", 3) => val1(bv(&odb(v).clone().get())),
        ("w.odd.same.get", 3) => { let x = odb(v); val1(bv(&*x)) }
        ("w.odd.same.boxed_monty_params", 3) => val1(bv(BoxedMontyParams::new(odb(v)).modulus().as_ref())),
        ("w.odd.same.boxed_monty_params_vartime", 3) => val1(bv(BoxedMontyParams::new_vartime(odb(v)).modulus().as_ref())),
        ("w.odd.as_nz_ref", 3) => { let x = odb(v); val1(bv(x.as_nz_ref().as_ref())) }
        ("w.odd.as_nz_ref.as_ref", 3) => { let x = odb(v); let r: &NonZero<BoxedUint> = AsRef::<NonZero<BoxedUint>>::as_ref(&x); val1(bv(r.as_ref())) }
        ("w.nz.zeroize", 0) => { let mut x = nzl(sc(a, 0)); x.zeroize(); val1(lv(x.get())) }
        ("w.nz.zeroize", 3) => { let mut x = nzb(v); x.zeroize(); val1(bv(&x.get())) }
        ("w.odd.zeroize", 3) => { let mut x = odb(v); x.zeroize(); val1(bv(&x.get())) }
        _ => None,
    }
}
/// MontyParams::new needs the Concat impl of a concrete alias
fn monty_params(a: &Args) -> Option<Out> {
    let v = ar(a, 0);
    match v.len() {
        1 => val1(uv(MontyParams::<1>::new(odu::<1>(v)).modulus().as_ref())),
        2 => val1(uv(MontyParams::<2>::new(odu::<2>(v)).modulus().as_ref())),
        4 => val1(uv(MontyParams::<4>::new(odu::<4>(v)).modulus().as_ref())),
        8 => val1(uv(MontyParams::<8>::new(odu::<8>(v)).modulus().as_ref())),
        _ => None,
    }
}

fn prim128(a: &Args, i: usize) -> u128 {
    let v = ar(a, i);
    (v.first().copied().unwrap_or(0) as u128) | ((v.get(1).copied().unwrap_or(0) as u128) << 64)
}
/// args = value [lo; hi], bits, limb count
fn from_prim_n<const N: usize>(op: &str, a: &Args) -> Option<Out> {
    let v128 = prim128(a, 0);
    let v = sc(a, 0);
    if sc(a, 1) != 128 && ar(a, 0).len() > 1 && ar(a, 0)[1] != 0 {
        return None;
    }
    let from = op.ends_with(".from");
    let r: NonZero<Uint<N>> = match (sc(a, 1), from) {
        (8, false) => NonZero::<Uint<N>>::from_u8(NonZeroU8::new(u8::try_from(v).ok()?)?),
        (16, false) => NonZero::<Uint<N>>::from_u16(NonZeroU16::new(u16::try_from(v).ok()?)?),
        (32, false) => NonZero::<Uint<N>>::from_u32(NonZeroU32::new(u32::try_from(v).ok()?)?),
        (64, false) => NonZero::<Uint<N>>::from_u64(NonZeroU64::new(v)?),
        (128, false) => NonZero::<Uint<N>>::from_u128(NonZeroU128::new(v128)?),
        (8, true) => NonZero::<Uint<N>>::from(NonZeroU8::new(u8::try_from(v).ok()?)?),
        (16, true) => NonZero::<Uint<N>>::from(NonZeroU16::new(u16::try_from(v).ok()?)?),
        (32, true) => NonZero::<Uint<N>>::from(NonZeroU32::new(u32::try_from(v).ok()?)?),
        (64, true) => NonZero::<Uint<N>>::from(NonZeroU64::new(v)?),
        (128, true) => NonZero::<Uint<N>>::from(NonZeroU128::new(v128)?),
        _ => return None,
    };
    val1(uv(&r.get()))
}

/// hex constructors; args = characters, limb count
fn hex_n<const N: usize>(op: &str, a: &Args) -> Option<Out> {
    match op {
        "w.odd.from_be_hex" => val1(uv(&Odd::<Uint<N>>::from_be_hex(&st(a, 0)).get())),
        "w.odd.from_le_hex" => val1(uv(&Odd::<Uint<N>>::from_le_hex(&st(a, 0)).get())),
        _ => None,
    }
}

macro_rules! for_n {
    ($n:expr, [$($k:literal),*], $N:ident, $body:block) => {
        match $n {
            $( $k => { const $N: usize = $k; $body } )*
            _ => None,
        }
    };
}
/// decoders that need the `Encoding` impl of a concrete alias; args = bytes, limb count
fn enc_ops(op: &str, a: &Args) -> Option<Out> {
    for_n!(sc(a, 1) as usize, [1, 2, 3, 4, 5, 6, 7, 8, 16, 32], NN, {
        type T = Uint<NN>;
        match op {
            "w.nz.from_be_bytes" => {
                let r = <T as Encoding>::Repr::try_from(&by(a, 0)[..]).expect("harness: exact length");
                ctopt(NonZero::<T>::from_be_bytes(r), |z| uv(&z.get()))
            }
            "w.nz.from_le_bytes" => {
                let r = <T as Encoding>::Repr::try_from(&by(a, 0)[..]).expect("harness: exact length");
                ctopt(NonZero::<T>::from_le_bytes(r), |z| uv(&z.get()))
            }
            "w.nz.serde_de" => serde_res(bincode::deserialize::<NonZero<T>>(&by(a, 0)), |z| uv(&z.get())),
            "w.nz.serde_de.from_reader" => serde_res(bincode::deserialize_from::<_, NonZero<T>>(&by(a, 0)[..]), |z| uv(&z.get())),
            "w.odd.serde_de" => serde_res(bincode::deserialize::<Odd<T>>(&by(a, 0)), |z| uv(&z.get())),
            "w.odd.serde_de.from_reader" => serde_res(bincode::deserialize_from::<_, Odd<T>>(&by(a, 0)[..]), |z| uv(&z.get())),
            _ => None,
        }
    })
}
/// decoders that need the `ArrayEncoding` impl (hybrid-array) of a concrete alias
fn arr_ops(op: &str, a: &Args) -> Option<Out> {
    for_n!(sc(a, 1) as usize, [1, 2, 3, 4, 6, 7, 8, 16, 32], NN, {
        type T = Uint<NN>;
        let arr: ByteArray<T> = Array::try_from(&by(a, 0)[..]).expect("harness: exact length");
        match op {
            "w.nz.from_be_byte_array" => ctopt(NonZero::<T>::from_be_byte_array(arr), |z| uv(&z.get())),
            "w.nz.from_le_byte_array" => ctopt(NonZero::<T>::from_le_byte_array(arr), |z| uv(&z.get())),
            _ => None,
        }
    })
}

// ---------------------------------------------------------------- compile-time moduli (keep in sync with tools/vlib/c12.py::MODULI)
impl_modulus!(W64A, U64, "0000000000000003");
impl_modulus!(W64B, U64, "ffffffffffffffff");
impl_modulus!(W64C, U64, "8000000000000001");
impl_modulus!(W128A, U128, "00000000000000010000000000000001");
impl_modulus!(W128B, U128, "0100000000000000ffffffffffffffff");
impl_modulus!(W192A, U192, "0000000000000001ffffffffffffffffffffffffffffffff");
impl_modulus!(W256A, U256, "ffffffff00000001000000000000000000000000ffffffffffffffffffffffff");
impl_modulus!(W256B, U256, "0100000000000000000000000000000000000000000000000000000000000001");
const MODULI: &[&str] = &[
    "0000000000000003",
    "ffffffffffffffff",
    "8000000000000001",
    "00000000000000010000000000000001",
    "0100000000000000ffffffffffffffff",
    "0000000000000001ffffffffffffffffffffffffffffffff",
    "ffffffff00000001000000000000000000000000ffffffffffffffffffffffff",
    "0100000000000000000000000000000000000000000000000000000000000001",
];
fn modulus_of<M: ConstMontyParams<N>, const N: usize>(op: &str) -> Option<Out> {
    match op {
        "w.odd.from_be_hex.impl_modulus" => val1(uv(&M::MODULUS.get())),
        "w.odd.from_be_hex.from_const_params" => val1(uv(MontyParams::<N>::from_const_params::<M>().modulus().as_ref())),
        _ => None,
    }
}
/// args = characters, limb count, index into MODULI
fn const_moduli(op: &str, a: &Args) -> Option<Out> {
    let i = sc(a, 2) as usize;
    if MODULI.get(i).copied() != Some(st(a, 0).as_str()) {
        return None;
    }
    match i {
        0 => modulus_of::<W64A, 1>(op),
        1 => modulus_of::<W64B, 1>(op),
        2 => modulus_of::<W64C, 1>(op),
        3 => modulus_of::<W128A, 2>(op),
        4 => modulus_of::<W128B, 2>(op),
        5 => modulus_of::<W192A, 3>(op),
        6 => modulus_of::<W256A, 4>(op),
        7 => modulus_of::<W256B, 4>(op),
        _ => None,
    }
}

// ---------------------------------------------------------------- random: args = stream words, limb count, fallible flag
fn random_n<const N: usize>(op: &str, a: &Args) -> Option<Out> {
    let mut r = Replay::new(ar(a, 0));
    match (op, sc(a, 2)) {
        ("w.nz.random", 1) => { let x = NonZero::<Uint<N>>::try_random(&mut r); rres(x, &r, |v| uv(v.as_ref())) }
        ("w.nz.random.infallible", 0) => { let x = NonZero::<Uint<N>>::random(&mut r.unwrap_mut()); done(uv(x.as_ref()), &r) }
        ("w.nz.random.int", 1) => { let x = NonZero::<Int<N>>::try_random(&mut r); rres(x, &r, |v| iv(v.as_ref())) }
        ("w.nz.random.int_infallible", 0) => { let x = NonZero::<Int<N>>::random(&mut r.unwrap_mut()); done(iv(x.as_ref()), &r) }
        ("w.odd.random", 1) => { let x = Odd::<Uint<N>>::try_random(&mut r); rres(x, &r, |v| uv(v.as_ref())) }
        ("w.odd.random.infallible", 0) => { let x = Odd::<Uint<N>>::random(&mut r.unwrap_mut()); done(uv(x.as_ref()), &r) }
        _ => None,
    }
}
fn random_other(op: &str, a: &Args) -> Option<Out> {
    let mut r = Replay::new(ar(a, 0));
    match (op, sc(a, 2)) {
        ("w.nz.random.limb", 1) if sc(a, 1) == 1 => { let x = NonZero::<Limb>::try_random(&mut r); rres(x, &r, |v| lv(v.get())) }
        ("w.nz.random.limb_infallible", 0) if sc(a, 1) == 1 => { let x = NonZero::<Limb>::random(&mut r.unwrap_mut()); done(lv(x.get()), &r) }
        ("w.odd.random_boxed", _) => {
            let bl = u32::try_from(sc(a, 1)).ok()?;
            let x = Odd::<BoxedUint>::random(&mut r, bl);
            done(bv(x.as_ref()), &r)
        }
        ("w.odd.random_boxed.infallible_rng", _) => {
            let bl = u32::try_from(sc(a, 1)).ok()?;
            let x = Odd::<BoxedUint>::random(&mut r.unwrap_mut(), bl);
            done(bv(x.as_ref()), &r)
        }
        _ => None,
    }
}

// ---------------------------------------------------------------- BoxedUint
fn boxed_ops(op: &str, a: &Args) -> Option<Out> {
    match op {
        "w.nz.new.boxed" => ctopt(NonZero::new(bx(ar(a, 0))), |z| bv(z.as_ref())),
        "w.odd.new.boxed" => ctopt(Odd::new(bx(ar(a, 0))), |z| bv(z.as_ref())),
        "w.odd.new.boxed_to_odd" => ctopt(bx(ar(a, 0)).to_odd(), |z| bv(z.as_ref())),
        "w.nz.widen" => {
            let p = u32::try_from(sc(a, 1)).ok()?;
            val1(bv(nzb(ar(a, 0)).widen(p).as_ref()))
        }
        _ => None,
    }
}

pub fn run(op: &str, a: &Args) -> Option<Out> {
    if !OPS.contains(&op) {
        return None;
    }
    const NS: [usize; 10] = [1, 2, 3, 4, 5, 6, 7, 8, 16, 32];
    match op {
        "w.nz.one" | "w.nz.max" | "w.nz.default" | "w.odd.default" => return consts(op, a),
        "w.nz.from_prim.uint" | "w.nz.from_prim.uint.from" => {
            return with_n!(sc(a, 2) as usize, [1, 2, 3, 4, 5, 6, 7, 8, 16, 32], from_prim_n, op, a);
        }
        "w.odd.from_be_hex" | "w.odd.from_le_hex" => {
            return with_n!(sc(a, 1) as usize, [1, 2, 3, 4, 5, 6, 7, 8, 16, 32], hex_n, op, a);
        }
        "w.odd.from_be_hex.impl_modulus" | "w.odd.from_be_hex.from_const_params" => return const_moduli(op, a),
        "w.nz.from_be_bytes" | "w.nz.from_le_bytes" | "w.nz.serde_de" | "w.nz.serde_de.from_reader" | "w.odd.serde_de"
        | "w.odd.serde_de.from_reader" => return enc_ops(op, a),
        "w.nz.from_be_byte_array" | "w.nz.from_le_byte_array" => return arr_ops(op, a),
        "w.nz.random" | "w.nz.random.infallible" | "w.nz.random.int" | "w.nz.random.int_infallible" | "w.odd.random"
        | "w.odd.random.infallible" => {
            return with_n!(sc(a, 1) as usize, [1, 2, 3, 4, 5, 6, 7, 8, 16, 32], random_n, op, a);
        }
        "w.nz.random.limb" | "w.nz.random.limb_infallible" | "w.odd.random_boxed" | "w.odd.random_boxed.infallible_rng" => {
            return random_other(op, a);
        }
        "w.odd.same.monty_params" => return monty_params(a),
        "w.nz.new.boxed" | "w.odd.new.boxed" | "w.odd.new.boxed_to_odd" | "w.nz.widen" => return boxed_ops(op, a),
        _ => {}
    }
    if op.starts_with("w.nz.same") || op.starts_with("w.odd.same") || op.starts_with("w.odd.as_nz_ref") || op.ends_with(".zeroize") {
        return match sc(a, 1) {
            0 | 3 => same_limb_boxed(op, a),
            _ => with_n!(ar(a, 0).len(), [1, 2, 3, 4, 5, 6, 7, 8, 16, 32], same_n, op, a),
        };
    }
    if op.ends_with(".limb") || op.contains(".limb.") {
        return limb_ops(op, a);
    }
    let _ = NS;
    with_n!(ar(a, 0).len(), [1, 2, 3, 4, 5, 6, 7, 8, 16, 32], uint_val, op, a)
}
