(** C09 — placeholder while the proofs are being written *)
From CB Require Import Model.Pow.
Theorem placeholder : True. Proof. exact I. Qed.
Print Assumptions placeholder.
