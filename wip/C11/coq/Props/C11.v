(** C11 -- totality: panics, overflow traps and assertion failures only where documented.

    For every area (= one Model/<Area>.v with its model table, the Gallina transcription of the Rust code with a
    build-profile argument [dbg], and its spec table, which says [PanicV] exactly where the documentation says the call
    panics and [Unsupported] outside the documented domain):

      C11_<area>_panics_iff_documented   : for every key of the table, every profile and every well-formed argument list
                                           inside the documented domain, the model panics iff the documentation says so;
      C11_<area>_total_forms_never_panic : the option / result / flag returning forms never panic, whatever the values;
      C11_key_lists_cover_tables         : the key lists are the complete key sets of the tables.

    [typed ty k a] is the typing side condition of key k (what Rust's types enforce: equal limb counts of two Uint<N>,
    a Limb is one word, BITS and a u32 shift are below 2^32 ...), spelled out per key in Proofs/TotalityP.v; a key that
    has no entry in [ty] has no side condition.  Then the internal facts the anchors of the property point at. *)
From CB Require Import Model.Limbs Model.AddSub Model.Mul Model.Div Model.Bits Model.Cmp Model.ModArith Model.IntArith
  Model.IntDiv Model.Conv Model.Rand Model.Sqrt
  Proofs.WordP Proofs.LimbsP Proofs.MulApiP Proofs.TotalityP Proofs.TotalityAddSubP Proofs.TotalityMulP Proofs.TotalityDivP
  Proofs.TotalityBitsP Proofs.TotalityCmpP Proofs.TotalityModArithP Proofs.TotalityIntP Proofs.TotalityConvP
  Proofs.TotalityRandP Proofs.TotalitySqrtP Proofs.DivP Proofs.AddSubP Proofs.TotalityDivAssertP Proofs.TotalityChoiceP.
From Coq Require Import ZArith List String.
Open Scope Z_scope. Open Scope string_scope.
Notation length := List.length.

(* ================================================================== addsub *)
Theorem C11_addsub_panics_iff_documented : forall k dbg a,
  In k addsub_keys -> wf_args a -> typed addsub_ty k a -> run_tab ops_addsub_spec k dbg a <> Unsupported ->
  (run_tab ops_addsub_model k dbg a = PanicV <-> run_tab ops_addsub_spec k dbg a = PanicV).
Proof. exact addsub_panics_iff_documented. Qed.
Print Assumptions C11_addsub_panics_iff_documented.

Theorem C11_addsub_total_forms_never_panic : forall k dbg a,
  In k addsub_total_keys -> typed addsub_total_ty k a -> run_tab ops_addsub_model k dbg a <> PanicV.
Proof. exact addsub_total_forms_never_panic. Qed.
Print Assumptions C11_addsub_total_forms_never_panic.

(* ================================================================== mul *)
Theorem C11_mul_panics_iff_documented : forall k dbg a,
  In k mul_keys -> wf_args a -> typed mul_ty k a -> run_tab ops_mul_spec k dbg a <> Unsupported ->
  (run_tab ops_mul_model k dbg a = PanicV <-> run_tab ops_mul_spec k dbg a = PanicV).
Proof. exact mul_panics_iff_documented. Qed.
Print Assumptions C11_mul_panics_iff_documented.

Theorem C11_mul_total_forms_never_panic : forall k dbg a,
  In k mul_total_keys -> typed mul_total_ty k a -> run_tab ops_mul_model k dbg a <> PanicV.
Proof. exact mul_total_forms_never_panic. Qed.
Print Assumptions C11_mul_total_forms_never_panic.

(* ================================================================== div *)
Theorem C11_div_panics_iff_documented : forall k dbg a,
  In k div_keys -> wf_args a -> typed div_ty k a -> run_tab ops_div_spec k dbg a <> Unsupported ->
  (run_tab ops_div_model k dbg a = PanicV <-> run_tab ops_div_spec k dbg a = PanicV).
Proof. exact div_panics_iff_documented. Qed.
Print Assumptions C11_div_panics_iff_documented.

Theorem C11_div_total_forms_never_panic : forall k dbg a,
  In k div_total_keys -> typed div_total_ty k a -> run_tab ops_div_model k dbg a <> PanicV.
Proof. exact div_total_forms_never_panic. Qed.
Print Assumptions C11_div_total_forms_never_panic.

(* ================================================================== bits *)
Theorem C11_bits_panics_iff_documented : forall k dbg a,
  In k bits_keys -> wf_args a -> typed bits_ty k a -> run_tab Bits.ops_bits_spec k dbg a <> Unsupported ->
  (run_tab Bits.ops_bits_model k dbg a = PanicV <-> run_tab Bits.ops_bits_spec k dbg a = PanicV).
Proof. exact bits_panics_iff_documented. Qed.
Print Assumptions C11_bits_panics_iff_documented.

Theorem C11_bits_total_forms_never_panic : forall k dbg a,
  In k bits_total_keys -> typed bits_total_ty k a -> run_tab Bits.ops_bits_model k dbg a <> PanicV.
Proof. exact bits_total_forms_never_panic. Qed.
Print Assumptions C11_bits_total_forms_never_panic.

(* ================================================================== cmp *)
Theorem C11_cmp_panics_iff_documented : forall k dbg a,
  In k cmp_keys -> wf_args a -> typed cmp_ty k a -> run_tab ops_cmp_spec k dbg a <> Unsupported ->
  (run_tab ops_cmp_model k dbg a = PanicV <-> run_tab ops_cmp_spec k dbg a = PanicV).
Proof. exact cmp_panics_iff_documented. Qed.
Print Assumptions C11_cmp_panics_iff_documented.

Theorem C11_cmp_total_forms_never_panic : forall k dbg a,
  In k cmp_total_keys -> typed cmp_total_ty k a -> run_tab ops_cmp_model k dbg a <> PanicV.
Proof. exact cmp_total_forms_never_panic. Qed.
Print Assumptions C11_cmp_total_forms_never_panic.

(* ================================================================== modarith *)
Theorem C11_modarith_panics_iff_documented : forall k dbg a,
  In k modarith_keys -> wf_args a -> typed modarith_ty k a -> run_tab ops_modarith_spec k dbg a <> Unsupported ->
  (run_tab ops_modarith_model k dbg a = PanicV <-> run_tab ops_modarith_spec k dbg a = PanicV).
Proof. exact modarith_panics_iff_documented. Qed.
Print Assumptions C11_modarith_panics_iff_documented.

Theorem C11_modarith_total_forms_never_panic : forall k dbg a,
  In k modarith_total_keys -> typed modarith_total_ty k a -> run_tab ops_modarith_model k dbg a <> PanicV.
Proof. exact modarith_total_forms_never_panic. Qed.
Print Assumptions C11_modarith_total_forms_never_panic.

(* ================================================================== intarith *)
Theorem C11_intarith_panics_iff_documented : forall k dbg a,
  In k intarith_keys -> wf_args a -> typed intarith_ty k a -> run_tab ops_intarith_spec k dbg a <> Unsupported ->
  (run_tab ops_intarith_model k dbg a = PanicV <-> run_tab ops_intarith_spec k dbg a = PanicV).
Proof. exact intarith_panics_iff_documented. Qed.
Print Assumptions C11_intarith_panics_iff_documented.

Theorem C11_intarith_total_forms_never_panic : forall k dbg a,
  In k intarith_total_keys -> typed intarith_total_ty k a -> run_tab ops_intarith_model k dbg a <> PanicV.
Proof. exact intarith_total_forms_never_panic. Qed.
Print Assumptions C11_intarith_total_forms_never_panic.

(* ================================================================== intdiv *)
Theorem C11_intdiv_panics_iff_documented : forall k dbg a,
  In k intdiv_keys -> wf_args a -> typed intdiv_ty k a -> run_tab ops_intdiv_spec k dbg a <> Unsupported ->
  (run_tab ops_intdiv_model k dbg a = PanicV <-> run_tab ops_intdiv_spec k dbg a = PanicV).
Proof. exact intdiv_panics_iff_documented. Qed.
Print Assumptions C11_intdiv_panics_iff_documented.

Theorem C11_intdiv_total_forms_never_panic : forall k dbg a,
  In k intdiv_total_keys -> typed intdiv_total_ty k a -> run_tab ops_intdiv_model k dbg a <> PanicV.
Proof. exact intdiv_total_forms_never_panic. Qed.
Print Assumptions C11_intdiv_total_forms_never_panic.

(* ================================================================== conv *)
Theorem C11_conv_panics_iff_documented : forall k dbg a,
  In k conv_keys -> wf_args a -> typed conv_ty k a -> run_tab ops_conv_spec k dbg a <> Unsupported ->
  (run_tab ops_conv_model k dbg a = PanicV <-> run_tab ops_conv_spec k dbg a = PanicV).
Proof. exact conv_panics_iff_documented. Qed.
Print Assumptions C11_conv_panics_iff_documented.

Theorem C11_conv_total_forms_never_panic : forall k dbg a,
  In k conv_total_keys -> typed conv_total_ty k a -> run_tab ops_conv_model k dbg a <> PanicV.
Proof. exact conv_total_forms_never_panic. Qed.
Print Assumptions C11_conv_total_forms_never_panic.

(* ================================================================== rand *)
Theorem C11_rand_panics_iff_documented : forall k dbg a,
  In k rand_keys -> wf_args a -> typed rand_ty k a -> run_tab ops_rand_spec k dbg a <> Unsupported ->
  (run_tab ops_rand_model k dbg a = PanicV <-> run_tab ops_rand_spec k dbg a = PanicV).
Proof. exact rand_panics_iff_documented. Qed.
Print Assumptions C11_rand_panics_iff_documented.

Theorem C11_rand_total_forms_never_panic : forall k dbg a,
  In k rand_total_keys -> typed rand_total_ty k a -> run_tab ops_rand_model k dbg a <> PanicV.
Proof. exact rand_total_forms_never_panic. Qed.
Print Assumptions C11_rand_total_forms_never_panic.

(* ================================================================== sqrt *)
Theorem C11_sqrt_panics_iff_documented : forall k dbg a,
  In k sqrt_keys -> wf_args a -> typed sqrt_ty k a -> run_tab ops_sqrt_spec k dbg a <> Unsupported ->
  (run_tab ops_sqrt_model k dbg a = PanicV <-> run_tab ops_sqrt_spec k dbg a = PanicV).
Proof. exact sqrt_panics_iff_documented. Qed.
Print Assumptions C11_sqrt_panics_iff_documented.

Theorem C11_sqrt_total_forms_never_panic : forall k dbg a,
  In k sqrt_total_keys -> typed sqrt_total_ty k a -> run_tab ops_sqrt_model k dbg a <> PanicV.
Proof. exact sqrt_total_forms_never_panic. Qed.
Print Assumptions C11_sqrt_total_forms_never_panic.

(* ================================================================== coverage of the tables *)
Theorem C11_key_lists_cover_tables :
  covers addsub_keys ops_addsub_model = true /\
  covers mul_keys ops_mul_model = true /\
  covers div_keys ops_div_model = true /\
  covers bits_keys Bits.ops_bits_model = true /\
  covers cmp_keys ops_cmp_model = true /\
  covers modarith_keys ops_modarith_model = true /\
  covers intarith_keys ops_intarith_model = true /\
  covers intdiv_keys ops_intdiv_model = true /\
  covers conv_keys ops_conv_model = true /\
  covers rand_keys ops_rand_model = true /\
  covers sqrt_keys ops_sqrt_model = true.
Proof.
  exact (conj addsub_cover (conj mul_cover (conj div_cover (conj bits_cover (conj cmp_cover (conj modarith_cover (conj intarith_cover (conj intdiv_cover (conj conv_cover (conj rand_cover sqrt_cover)))))))))).
Qed.
Print Assumptions C11_key_lists_cover_tables.

(* ================================================================== internal facts (the anchors of the property) *)

(** src/uint/div_limb.rs:125-162, src/uint/div.rs:113-121, 808-824: with a non-zero divisor (and, for the constant-time
    forms, operands of one width) no division entry panics -- neither the `expect` of the wrappers nor anything inside
    div2by1 / div3by2 / the Knuth loops as modelled -- in the release profile and in the debug profile alike *)
Theorem C11_div_nonzero_divisor_never_panics : forall k dbg a, In k div_divisor_keys ->
  wf_args a -> typed div_nz_ty k a -> eval (arg 1 a) <> 0 -> run_tab ops_div_model k dbg a <> PanicV.
Proof. exact div_nonzero_divisor_never_panics. Qed.
Print Assumptions C11_div_nonzero_divisor_never_panics.

(** src/uint/div_limb.rs:125-126, 140: the three debug assertions of div2by1 (written as a boolean function of the values
    the model computes: d >= 2^63, u1 < d, and `r < d || q1 < Word::MAX` between the two masked corrections) hold for every
    call that satisfies the documented precondition *)
Theorem C11_div2by1_asserts_hold : forall u1 u0 rc,
  is_word u0 -> 0 <= u1 < r_d rc -> normalized (r_d rc) -> recip_ok (r_d rc) (r_v rc) ->
  div2by1_dbg_asserts u1 u0 rc = true.
Proof. exact div2by1_asserts_hold. Qed.
Print Assumptions C11_div2by1_asserts_hold.

(** src/uint/div_limb.rs:161-162 and the masked select below them: div3by2's own assertions and those of the inner
    div2by1 on `select(u2, 0, u2 == d)` hold on both sides of the select (u2 < d and u2 = d) *)
Theorem C11_div3by2_asserts_hold : forall u2 u1 u0 rc v0,
  normalized (r_d rc) -> recip_ok (r_d rc) (r_v rc) -> r_shift rc = 0 -> is_word u1 -> 0 <= u2 <= r_d rc ->
  div3by2_dbg_asserts u2 u1 u0 rc v0 = true.
Proof. exact div3by2_asserts_hold. Qed.
Print Assumptions C11_div3by2_asserts_hold.

(** every iteration of the division by one limb (Uint / BoxedUint div_rem_limb, rem_limb, div_limb; Reciprocal::new of
    any non-zero limb, any dividend): the running remainder stays below the normalised divisor *)
Theorem C11_div_rem_limb_asserts_hold : forall u d, wf u -> 0 < d < B ->
  let rc := recip_new d in
  let '(us, uhi) := shl_limb u (r_shift rc) in divlimb_go_asserts (rev us) uhi rc = true.
Proof. exact div_rem_limb_asserts_hold. Qed.
Print Assumptions C11_div_rem_limb_asserts_hold.

(** src/uint/div.rs:113-121, the discarded-branch protection of Uint::div_rem: on the branch whose result is thrown away
    the final div2by1 runs on select(0, x_hi, false) = 0 and its assertions hold whatever x_hi is; without the select they
    can fail (x_hi = MAX, d = 2^63) *)
Theorem C11_div_rem_discarded_branch_asserts_hold : forall x_hi x_lo rc,
  normalized (r_d rc) -> recip_ok (r_d rc) (r_v rc) -> is_word x_lo ->
  div2by1_dbg_asserts (sel false 0 x_hi) x_lo rc = true.
Proof. exact div_rem_discarded_branch_asserts_hold. Qed.
Print Assumptions C11_div_rem_discarded_branch_asserts_hold.

Theorem C11_div_rem_unprotected_would_fire : exists x_hi x_lo rc,
  normalized (r_d rc) /\ recip_ok (r_d rc) (r_v rc) /\ is_word x_lo /\ is_word x_hi /\
  div2by1_dbg_asserts x_hi x_lo rc = false.
Proof. exact div_rem_unprotected_would_fire. Qed.
Print Assumptions C11_div_rem_unprotected_would_fire.

(** src/const_choice.rs:40 (`from_word_mask` expects 0 or Word::MAX): the value handed to it is always the borrow of a
    subtraction chain *)
Theorem C11_from_word_mask_assert_holds :
  (forall a b bw, is_word a -> is_word b -> is_word bw -> mask_ok (snd (sbb a b bw))) /\
  (forall a b, wf a -> wf b -> length a = length b -> mask_ok (snd (sbb_limbs a b 0))).
Proof. exact (conj mask_of_sbb_word mask_of_sbb_limbs). Qed.
Print Assumptions C11_from_word_mask_assert_holds.

(** src/const_choice.rs:48, 63 (`from_word_lsb` / `from_u32_lsb` expect 0 or 1): the values handed to them by
    from_word_msb / nonzero / eq / lt / le (the top bit of a word), by saturating_add and carrying_neg (the carry of a
    chain), by the u32 predicates (the top bit of a u32) and by the shift ladder (a masked bit) *)
Theorem C11_from_lsb_assert_holds :
  (forall x y, is_word x -> is_word y ->
     lsb_ok (x / 2 ^ 63) /\ lsb_ok (wor x (wneg x) / 2 ^ 63) /\
     lsb_ok (wor (wxor x y) (wneg (wxor x y)) / 2 ^ 63) /\
     lsb_ok (wor (wand (wnot x) y) (wand (wor (wnot x) y) (wsub x y)) / 2 ^ 63) /\
     lsb_ok (wand (wor (wnot x) y) (wor (wxor x y) (wnot (wsub y x))) / 2 ^ 63)) /\
  (forall a b, wf a -> wf b -> length a = length b -> lsb_ok (snd (adc_limbs a b 0))) /\
  (forall a, wf a -> lsb_ok (snd (neg_limbs a 1))) /\
  (forall v, 0 <= v < U32 -> lsb_ok (v / 2 ^ 31)) /\
  (forall shift i, lsb_ok (Z.land (shift / 2 ^ i) 1)).
Proof.
  exact (conj lsb_args_of_predicates (conj lsb_of_adc_carry (conj lsb_of_neg_carry (conj lsb_of_u32_top_bit lsb_of_ladder_bit)))).
Qed.
Print Assumptions C11_from_lsb_assert_holds.

(** src/uint/mul_mod.rs:62-65, src/uint/boxed/mul_mod.rs:59-62 (finding F2, repaired): `(carry + 1) * c` is computed in
    the wide word; the model of the repaired code has no trap, in either profile and for any multiplication routine:
    its only panic is the division by the zero modulus 2^64 - c at one limb, i.e. c = 0 *)
Theorem C11_mul_mod_special_panics_iff : forall dbg mulf a b c,
  mul_mod_special dbg mulf a b c = None <-> length a = 1%nat /\ wsub 0 c = 0.
Proof. exact mul_mod_special_none_iff. Qed.
Print Assumptions C11_mul_mod_special_panics_iff.

Theorem C11_mul_mod_special_never_panics : forall dbg mulf a b c, 1 <= c < B -> mul_mod_special dbg mulf a b c <> None.
Proof. exact mul_mod_special_never_panics. Qed.
Print Assumptions C11_mul_mod_special_never_panics.

(** src/uint/boxed/add.rs:18-26, sub.rs:18-26 (finding F7, repaired): `BoxedUint += / -= rhs` for ANY two precisions and in
    both profiles returns the exact sum / difference at the receiver's precision or panics; never a wrapped value *)
Theorem C11_boxed_assign_precision_rule : forall dbg x y, wf x -> wf y ->
  (forall r, boxed_add_assign_op dbg x y = Val [r] -> eval r = eval x + eval y /\ length r = length x) /\
  (forall r, boxed_sub_assign_op dbg x y = Val [r] -> eval r = eval x - eval y /\ length r = length x) /\
  (boxed_add_assign_op dbg x y = PanicV <-> Bn (length x) <= eval x + eval y) /\
  (boxed_sub_assign_op dbg x y = PanicV <-> eval x < eval y).
Proof. exact boxed_assign_precision_rule. Qed.
Print Assumptions C11_boxed_assign_precision_rule.

(** the debug-only assertions of Ord::cmp (Limb, BoxedUint) and of BoxedUint::ct_select / ct_swap at equal precision
    never fire: the debug profile returns what the release profile returns *)
Theorem C11_cmp_debug_assertions_never_fire : forall a, wf_args a ->
  limb_cmp true (sarg 0 a) (sarg 1 a) = limb_cmp false (sarg 0 a) (sarg 1 a) /\
  boxed_cmp true (arg 0 a) (arg 1 a) = boxed_cmp false (arg 0 a) (arg 1 a) /\
  (Limbs.ln 0 a = Limbs.ln 1 a -> forall c,
     boxed_ct_select true (arg 0 a) (arg 1 a) c = boxed_ct_select false (arg 0 a) (arg 1 a) c /\
     boxed_ct_swap true (arg 0 a) (arg 1 a) c = boxed_ct_swap false (arg 0 a) (arg 1 a) c).
Proof. exact cmp_debug_assertions_never_fire. Qed.
Print Assumptions C11_cmp_debug_assertions_never_fire.

(** termination: the fuel the model passes to the data-dependent loop of sqrt_vartime always suffices (the model maps
    "out of fuel" to Unsupported), and the `expect` on the initial-guess shift never fires *)
Theorem C11_sqrt_never_panics_and_fuel_suffices : forall k dbg a, In k sqrt_keys -> wf (arg 0 a) -> arg 0 a <> [] ->
  run_tab ops_sqrt_model k dbg a <> PanicV /\ run_tab ops_sqrt_model k dbg a <> Unsupported.
Proof. exact sqrt_never_panics_and_fuel_suffices. Qed.
Print Assumptions C11_sqrt_never_panics_and_fuel_suffices.

(** a fixed-size copy from an attacker-sized payload (serde; the DER twin of src/uint/encoding/der.rs belongs to the C18
    area): the inner fixed-width decoder is only reached with exactly 8n bytes -- no panic for any byte string *)
Theorem C11_serde_de_never_panics : forall n bs, uint_serde_de n bs <> PanicV.
Proof. exact uint_serde_de_never_panics. Qed.
Print Assumptions C11_serde_de_never_panics.

(** statement of round 1, kept: `*` on Uint panics exactly on overflow; checked_mul never panics *)
Theorem C11_uint_mul_panics_iff_overflow : forall x y dbg, wf x -> wf y ->
  (op_of ops_mul_model "uint.mul" dbg [x; y] = PanicV <-> sp_fits (length x) (eval x * eval y) = false) /\
  op_of ops_mul_model "uint.checked_mul" dbg [x; y] <> PanicV.
Proof. exact uint_mul_panics_iff. Qed.
Print Assumptions C11_uint_mul_panics_iff_overflow.

(* ================================================================== non-vacuity *)
(** per area a key that really panics on one input and returns a value on another (2^64 - 1 + 1 overflows, 5 / 0,
    1 << 64, expect on none, zero modulus, i64::MAX + 1, MIN / -1, a 3-byte slice for a 1-limb decoder, an exhausted RNG) *)
Example C11_nonvacuous_panics :
  run_tab ops_addsub_model "uint.add" false [[MAXW]; [1]] = PanicV /\
  run_tab ops_addsub_model "uint.add" false [[1]; [1]] = Val [[2]] /\
  run_tab ops_addsub_model "boxed.add_assign" true [[MAXW]; [0; 1]] = PanicV /\
  run_tab ops_mul_model "uint.mul" true [[MAXW]; [2]] = PanicV /\
  run_tab ops_mul_model "uint.mul" true [[3]; [2]] = Val [[6]] /\
  run_tab ops_div_model "uint.div_plain" false [[5]; [0]] = PanicV /\
  run_tab ops_div_model "uint.div_plain" true [[5]; [2]] = Val [[2]] /\
  run_tab ops_div_model "uint.checked_div" true [[5]; [0]] = NoneV /\
  run_tab Bits.ops_bits_model "uint.shl" false [[1]; [64]] = PanicV /\
  run_tab Bits.ops_bits_model "uint.shl" false [[1]; [1]] = Val [[2]] /\
  run_tab Bits.ops_bits_model "uint.overflowing_shl" true [[1]; [64]] = NoneV /\
  run_tab ops_cmp_model "uint.ctopt_expect" false [[7]; [0]] = PanicV /\
  run_tab ops_cmp_model "uint.ctopt_expect" false [[7]; [1]] = Val [[7]] /\
  run_tab ops_modarith_model "uint.mul_mod_trait" false [[1]; [1]; [0]] = PanicV /\
  run_tab ops_modarith_model "uint.mul_mod_trait" false [[3]; [4]; [5]] = Val [[2]] /\
  run_tab ops_intarith_model "sint.add" false [[2 ^ 63 - 1]; [1]] = PanicV /\
  run_tab ops_intarith_model "sint.add" false [[1]; [1]] = Val [[2]] /\
  run_tab ops_intdiv_model "sdiv.div_expect" false [[2 ^ 63]; [MAXW]] = PanicV /\
  run_tab ops_intdiv_model "sdiv.div_expect" false [[6]; [3]] = Val [[2]] /\
  run_tab ops_conv_model "uint.from_be_slice" false [[1; 2; 3]; [1]] = PanicV /\
  run_tab ops_conv_model "uint.from_be_slice" false [[0; 0; 0; 0; 0; 0; 0; 9]; [1]] = Val [[9]] /\
  run_tab ops_rand_model "uint.random" false [[]; [1]; [0]] = PanicV /\
  run_tab ops_rand_model "uint.random" false [[]; [1]; [1]] = ErrV 9 /\
  run_tab ops_rand_model "uint.random" false [[7]; [1]; [0]] = Val [[7]; [1]; [8]] /\
  run_tab ops_sqrt_model "uint.checked_sqrt" true [[9]] = Val [[3]] /\
  run_tab ops_sqrt_model "uint.checked_sqrt" true [[8]] = NoneV.
Proof. vm_compute. repeat split; reflexivity. Qed.

(** the profile argument matters: BoxedUint::ct_select on operands of different precision trips the debug assertion
    only (the typing side condition of "boxed.select" excludes this input from the first statement; open finding F16) *)
Example C11_nonvacuous_profile :
  run_tab ops_cmp_model "boxed.select" true [[1]; [2; 3]; [1]] = PanicV /\
  run_tab ops_cmp_model "boxed.select" false [[1]; [2; 3]; [1]] = Val [[2]].
Proof. vm_compute. repeat split; reflexivity. Qed.

(** the side conditions and the domain hypothesis are satisfiable and the key lists are not empty *)
Example C11_nonvacuous_hyps :
  In "uint.add" addsub_keys /\ wf_args [[MAXW]; [1]] /\ typed addsub_ty "uint.add" [[MAXW]; [1]] /\
  run_tab ops_addsub_spec "uint.add" false [[MAXW]; [1]] = PanicV /\
  In "uint.overflowing_shl" bits_total_keys /\ typed bits_total_ty "uint.overflowing_shl" [[1]; [64]].
Proof.
  split; [apply mem_str_In; vm_compute; reflexivity|].
  split; [repeat constructor; vm_compute; congruence|].
  split; [vm_compute; reflexivity|].
  split; [vm_compute; reflexivity|].
  split; [apply mem_str_In; vm_compute; reflexivity|].
  unfold typed. cbn [lookup bits_total_ty String.eqb Ascii.eqb Bool.eqb]. unfold ladder_ty, shift_u32.
  split; [repeat constructor; vm_compute; congruence|].
  split; [discriminate|]. vm_compute. split; reflexivity.
Qed.
