(** C11: the debug assertions of src/const_choice.rs (lines 40, 48, 63: `from_word_mask` expects 0 or Word::MAX,
    `from_word_lsb` / `from_wide_word_lsb` / `from_u32_lsb` expect 0 or 1) hold at the call sites the models contain:
    the mask is always the borrow of a subtraction chain, the lsb is always the top bit of a word (or of a u32), the carry
    of an addition / negation chain, or a masked bit.  The models apply these helpers to any value (they are total
    functions); the statements below are about the values that reach them. *)
From CB Require Import Model.Limbs Model.AddSub Model.Bits Proofs.WordP Proofs.WordPredP Proofs.LimbsP Proofs.AddSubP.
From Coq Require Import ZArith Lia List Bool.
Open Scope Z_scope.

Definition mask_ok (v : Z) : Prop := v = 0 \/ v = MAXW.     (* debug_assert!(value == FALSE.0 || value == TRUE.0) *)
Definition lsb_ok (v : Z) : Prop := v = 0 \/ v = 1.         (* debug_assert!(value == 0 || value == 1) *)

(** from_word_mask(borrow): Uint::lt / gt / cmp, saturating_sub, sub_mod, the Knuth loops, Karatsuba *)
Theorem mask_of_sbb_word a b bw : is_word a -> is_word b -> is_word bw -> mask_ok (snd (sbb a b bw)).
Proof.
  intros Ha Hb Hw. destruct (sbb a b bw) as [r bo] eqn:E.
  destruct (sbb_exact a b bw r bo Ha Hb Hw E) as (_ & [[-> _]|[-> _]]); [left|right]; reflexivity.
Qed.
Theorem mask_of_sbb_limbs a b : wf a -> wf b -> length a = length b -> mask_ok (snd (sbb_limbs a b 0)).
Proof.
  intros Ha Hb Hl. destruct (sbb_limbs a b 0) as [r bo] eqn:E.
  destruct (sbb_limbs_correct a b 0 r bo Ha Hb Hl ltac:(unfold is_word; pose proof B_pos; lia) E)
    as (_ & _ & [(_ & -> & _)|(_ & Hb' & _)]); [left; reflexivity | exact Hb'].
Qed.

(** from_word_lsb(x >> 63) inside from_word_msb / from_word_nonzero / from_word_eq / from_word_lt / from_word_le *)
Lemma lsb_of_top_bit x : is_word x -> lsb_ok (x / 2 ^ 63).
Proof.
  intros Hx. rewrite (msb_div x Hx). unfold lsb_ok. destruct (msbb x); cbn; tauto.
Qed.
Theorem lsb_args_of_predicates x y : is_word x -> is_word y ->
  lsb_ok (x / 2 ^ 63) /\
  lsb_ok (wor x (wneg x) / 2 ^ 63) /\
  lsb_ok (wor (wxor x y) (wneg (wxor x y)) / 2 ^ 63) /\
  lsb_ok (wor (wand (wnot x) y) (wand (wor (wnot x) y) (wsub x y)) / 2 ^ 63) /\
  lsb_ok (wand (wor (wnot x) y) (wor (wxor x y) (wnot (wsub y x))) / 2 ^ 63).
Proof.
  intros Hx Hy. unfold wor, wand, wxor.
  pose proof (is_word_wnot x Hx). pose proof (is_word_wneg x). pose proof (is_word_wsub x y). pose proof (is_word_wsub y x).
  pose proof (is_word_lxor x y Hx Hy).
  repeat split; apply lsb_of_top_bit;
    repeat first [ assumption | apply is_word_lor | apply is_word_land | apply is_word_lxor | apply is_word_wnot
                 | apply is_word_wneg | apply is_word_wsub ].
Qed.

(** from_word_lsb(carry): saturating_add, carrying_neg *)
Theorem lsb_of_adc_carry a b : wf a -> wf b -> length a = length b -> lsb_ok (snd (adc_limbs a b 0)).
Proof.
  intros Ha Hb Hl. destruct (adc_limbs a b 0) as [r c] eqn:E.
  destruct (adc_limbs_correct a b 0 r c Ha Hb Hl ltac:(unfold is_word; pose proof B_pos; lia) E) as (_ & _ & _ & Hc & Hs).
  specialize (Hs ltac:(lia)). unfold is_word in Hc. unfold lsb_ok. cbn [snd]. lia.
Qed.
Theorem lsb_of_neg_carry a : wf a -> lsb_ok (snd (neg_limbs a 1)).
Proof.
  intros Ha. destruct (neg_limbs a 1) as [r c] eqn:E.
  destruct (neg_limbs_correct a 1 r c Ha ltac:(lia) E) as (_ & _ & _ & Hc). unfold lsb_ok. cbn [snd]. lia.
Qed.

(** from_u32_lsb: the top bit of a u32, and the shift-ladder bit `(shift >> i) & 1` *)
Theorem lsb_of_u32_top_bit v : 0 <= v < U32 -> lsb_ok (v / 2 ^ 31).
Proof.
  unfold U32, lsb_ok. change (2 ^ 32) with 4294967296. change (2 ^ 31) with 2147483648. intros Hv.
  assert (0 <= v / 2147483648) by (apply Z.div_pos; lia).
  assert (v / 2147483648 < 2) by (apply Z.div_lt_upper_bound; lia). lia.
Qed.
Theorem lsb_of_ladder_bit shift i : lsb_ok (Z.land (shift / 2 ^ i) 1).
Proof.
  unfold lsb_ok.
  assert (E : Z.land (shift / 2 ^ i) 1 = (shift / 2 ^ i) mod 2) by (apply (Z.land_ones _ 1); lia). rewrite E.
  pose proof (Z.mod_pos_bound (shift / 2 ^ i) 2 ltac:(lia)). lia.
Qed.
