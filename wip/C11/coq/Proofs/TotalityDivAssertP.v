(** C11: the debug assertions of src/uint/div_limb.rs (div2by1: lines 125-126, 140; div3by2: lines 161-162) written as
    boolean functions of the values the model computes, and proved to hold
      - for every call of div2by1 that satisfies its precondition (normalised divisor, u1 < d),
      - on BOTH sides of the masked select inside div3by2 (the call `div2by1(select(u2, 0, u2 == d), ..)`),
      - at every iteration of the one-limb division loop (div_rem_limb_with_reciprocal, any dividend, any non-zero limb),
      - on the discarded branch of Uint::div_rem (src/uint/div.rs:113-121: `x_hi_adjusted = select(0, x_hi, limb_div)`).
    The models of Model/Div.v do not contain these assertions (they take no profile argument); the statements below are
    about the values that flow into them. *)
From CB Require Import Model.Limbs Model.Div Proofs.WordP Proofs.LimbsP Proofs.Div2by1G Proofs.DivP Proofs.RecipP Proofs.DivFinalP
  Proofs.TotalityDiv2by1G.
From Coq Require Import ZArith Lia List Bool.
Open Scope Z_scope.

(* (q1, r) between the two masked corrections *)
Definition div2by1_mid (u1 u0 : Z) (rc : recip) : Z * Z :=
  let d := r_d rc in
  let '(q1, q0) := mulhilo (r_v rc) u1 in
  let '(q1, q0) := addhilo q1 q0 u1 u0 in
  let q1 := wadd q1 1 in
  let r := wsub u0 (wmul q1 d) in
  let c1 := ltw q0 r in
  (sel c1 q1 (wsub q1 1), sel c1 r (wadd r d)).
(* debug_assert!(d >= 1 << 63); debug_assert!(u1 < d); debug_assert!(r < d || q1 < Word::MAX) *)
Definition div2by1_dbg_asserts (u1 u0 : Z) (rc : recip) : bool :=
  (2 ^ 63 <=? r_d rc) && (u1 <? r_d rc) &&
  (let '(q1, r) := div2by1_mid u1 u0 rc in (r <? r_d rc) || (q1 <? MAXW)).
(* debug_assert!(v1_reciprocal.shift == 0); debug_assert!(u2 <= d); then the inner div2by1 on the masked operand *)
Definition div3by2_dbg_asserts (u2 u1 u0 : Z) (rc : recip) (v0 : Z) : bool :=
  (r_shift rc =? 0) && (u2 <=? r_d rc) && div2by1_dbg_asserts (sel (u2 =? r_d rc) u2 0) u1 rc.
(* all iterations of the one-limb division loop *)
Fixpoint divlimb_go_asserts (rev_us : list Z) (r : Z) (rc : recip) : bool :=
  match rev_us with
  | [] => true
  | wd :: t => div2by1_dbg_asserts r wd rc && (let '(_, r') := div2by1 r wd rc in divlimb_go_asserts t r' rc)
  end.

Lemma div2by1_mid_eq_generic u1 u0 d v :
  is_word u0 -> 0 <= u1 < d -> normalized d -> recip_ok d v ->
  div2by1_mid u1 u0 {| r_d := d; r_shift := 0; r_v := v |} = div2by1_mid_g B u1 u0 d v.
Proof.
  intros Hu0 Hu1 Hn Hrec. pose proof (recip_range d v Hn Hrec) as Hv. destruct Hn as [Hd1 Hd2]. unfold is_word in Hu0. pose proof B_gt1.
  unfold div2by1_mid, div2by1_mid_g, mulhilo, addhilo, wrap2, r_d, r_v, ltw, sel, wadd, wsub, wmul, wrap.
  pose proof BB_val as HBB.
  pose proof (Z.div_mod (v * u1) B ltac:(lia)) as Hm.
  replace (v * u1 / B * B + (v * u1) mod B) with (v * u1) by lia.
  set (q := v * u1 + (u1 * B + u0)).
  assert (Hq : 0 <= q < BB).
  { rewrite HBB. unfold q. assert (0 <= v * u1) by (apply Z.mul_nonneg_nonneg; lia).
    assert (0 <= u1 * B) by (apply Z.mul_nonneg_nonneg; lia).
    assert (Hvd : (v + B) * d <= B * B - 1).
    { unfold recip_ok in Hrec. rewrite Hrec. replace ((B * B - 1) / d - B + B) with ((B * B - 1) / d) by lia.
      rewrite Z.mul_comm. apply Z.mul_div_le. lia. }
    assert (u1 * (v + B) <= (d - 1) * (v + B)) by (apply Z.mul_le_mono_nonneg_r; lia).
    lia. }
  rewrite (Z.mod_small q BB) by lia.
  assert (Hq1 : 0 <= q / B < B).
  { split; [apply Z.div_pos; lia | apply Z.div_lt_upper_bound; lia]. }
  rewrite (Z.mod_small (q / B) B) by lia.
  rewrite (Zminus_mod_idemp_r u0 (((q / B + 1) mod B) * d) B).
  destruct (q mod B <? (u0 - (q / B + 1) mod B * d) mod B); reflexivity.
Qed.

(** div2by1: the three assertions hold whenever the documented precondition holds *)
Theorem div2by1_asserts_hold u1 u0 rc :
  is_word u0 -> 0 <= u1 < r_d rc -> normalized (r_d rc) -> recip_ok (r_d rc) (r_v rc) ->
  div2by1_dbg_asserts u1 u0 rc = true.
Proof.
  intros Hu0 Hu1 Hn Hr. destruct rc as [d sh v]. cbn [r_d r_v] in *. unfold div2by1_dbg_asserts. cbn [r_d].
  pose proof Hn as [Hd1 Hd2]. pose proof B_half. pose proof B_gt1.
  replace (2 ^ 63 <=? d) with true by (symmetry; apply Z.leb_le; lia).
  replace (u1 <? d) with true by (symmetry; apply Z.ltb_lt; lia). cbn [andb].
  assert (E : div2by1_mid u1 u0 {| r_d := d; r_shift := sh; r_v := v |} = div2by1_mid u1 u0 {| r_d := d; r_shift := 0; r_v := v |})
    by reflexivity.
  rewrite E, div2by1_mid_eq_generic by assumption.
  unfold is_word in Hu0.
  pose proof (div2by1_mid_ok B ltac:(lia) u1 u0 d v Hd1 Hd2 Hu1 Hu0 Hr) as Hmid.
  destruct (div2by1_mid_g B u1 u0 d v) as [q1 r]. apply orb_true_iff.
  destruct Hmid as [Hmid|Hmid]; [left; apply Z.ltb_lt; assumption | right; apply Z.ltb_lt; rewrite MAXW_val; assumption].
Qed.

(** div3by2: its own two assertions, and those of the inner div2by1 on the operand masked by `u2 == d`: when the
    quotient is maxed (u2 = d) the call runs on 0, so `u1 < d` also holds on the side whose result is discarded *)
Theorem div3by2_asserts_hold u2 u1 u0 rc v0 :
  normalized (r_d rc) -> recip_ok (r_d rc) (r_v rc) -> r_shift rc = 0 -> is_word u1 -> 0 <= u2 <= r_d rc ->
  div3by2_dbg_asserts u2 u1 u0 rc v0 = true.
Proof.
  intros Hn Hr Hs Hu1 Hu2. unfold div3by2_dbg_asserts. rewrite Hs. cbn [Z.eqb andb].
  replace (u2 <=? r_d rc) with true by (symmetry; apply Z.leb_le; lia). cbn [andb].
  apply div2by1_asserts_hold; try assumption.
  pose proof Hn as [Hd1 Hd2]. pose proof B_gt1.
  unfold sel. destruct (Z.eqb_spec u2 (r_d rc)); lia.
Qed.

(** the one-limb division loop: the running remainder stays below the divisor, so the assertions hold at every step *)
Lemma divlimb_go_asserts_hold rc : normalized (r_d rc) -> recip_ok (r_d rc) (r_v rc) ->
  forall rev_us r, wf rev_us -> 0 <= r < r_d rc -> divlimb_go_asserts rev_us r rc = true.
Proof.
  intros Hn Hr rev_us. induction rev_us as [|wd t IH]; intros r Hw Hrr; cbn [divlimb_go_asserts]; [reflexivity|].
  apply wf_cons in Hw. destruct Hw as [Hwd Ht].
  rewrite (div2by1_asserts_hold r wd rc Hwd Hrr Hn Hr). cbn [andb].
  pose proof (div2by1_correct r wd rc Hwd Hrr Hn Hr) as Hd.
  destruct (div2by1 r wd rc) as [q r']. destruct Hd as (_ & Hr' & _). apply IH; assumption.
Qed.

Lemma wf_rev l : wf l -> wf (rev l).
Proof. unfold wf. intros H. apply Forall_forall. intros x Hx. apply in_rev in Hx. rewrite Forall_forall in H. auto. Qed.

(** Uint / BoxedUint division by a limb (div_rem_limb, rem_limb, div_limb): every dividend, every non-zero limb *)
Theorem div_rem_limb_asserts_hold u d : wf u -> 0 < d < B ->
  let rc := recip_new d in
  let '(us, uhi) := shl_limb u (r_shift rc) in divlimb_go_asserts (rev us) uhi rc = true.
Proof.
  intros Hw Hd rc. pose proof (recip_new_correct d Hd) as (Hs & Hdn & Hn & Hr). fold rc in Hs, Hdn, Hn, Hr.
  pose proof (shl_limb_correct u (r_shift rc) Hw Hs) as Hshl.
  destruct (shl_limb u (r_shift rc)) as [us uhi]. destruct Hshl as (He & Hwus & Hlus & Huhi).
  assert (H2s : 0 < 2 ^ r_shift rc) by (apply Z.pow_pos_nonneg; lia).
  apply divlimb_go_asserts_hold; try assumption; [apply wf_rev; assumption|].
  rewrite Hdn. split; [lia|]. 
  assert (1 * 2 ^ r_shift rc <= d * 2 ^ r_shift rc) by (apply Z.mul_le_mono_nonneg_r; lia). lia.
Qed.

(** src/uint/div.rs:113-121, the discarded-branch protection of Uint::div_rem: the final div2by1 runs on
    `select(0, x_hi, limb_div)`; when the divisor has more than one limb (limb_div false, result discarded) the operand
    is 0 and all three assertions hold whatever x_hi is -- without the select `u1 < d` could fail on that branch *)
Theorem div_rem_discarded_branch_asserts_hold x_hi x_lo rc :
  normalized (r_d rc) -> recip_ok (r_d rc) (r_v rc) -> is_word x_lo ->
  div2by1_dbg_asserts (sel false 0 x_hi) x_lo rc = true.
Proof.
  intros Hn Hr Hlo. apply div2by1_asserts_hold; try assumption.
  pose proof Hn as [Hd1 Hd2]. pose proof B_gt1. unfold sel. lia.
Qed.
Theorem div_rem_unprotected_would_fire : exists x_hi x_lo rc,
  normalized (r_d rc) /\ recip_ok (r_d rc) (r_v rc) /\ is_word x_lo /\ is_word x_hi /\
  div2by1_dbg_asserts x_hi x_lo rc = false.
Proof.
  exists MAXW, 0, (recip_new (2 ^ 63)).
  pose proof (recip_new_correct (2 ^ 63) ltac:(vm_compute; split; reflexivity)) as (_ & _ & Hn & Hr).
  split; [exact Hn|]. split; [exact Hr|]. split; [vm_compute; split; congruence|]. split; [vm_compute; split; congruence|].
  vm_compute. reflexivity.
Qed.
