(** C11 (totality): shared definitions, tactics and the key lists of every area.

    What is stated per area (an "area" = one Model/<Area>.v with its two tables [ops_<area>_model] and
    [ops_<area>_spec]; the spec table says [PanicV] exactly where the documentation says the call panics and
    [Unsupported] outside the documented domain):

      <area>_panics_iff_documented  : panics_iff_documented  ops_<area>_model ops_<area>_spec <area>_keys <area>_ty
      <area>_total_forms_never_panic: total_forms_never_panic ops_<area>_model <area>_total_keys <area>_total_ty

    RECIPE: adding a further area X (Model/X.v with ops_x_model / ops_x_spec) takes
      1. one section at the end of THIS file (it needs Model.Limbs only; no import of Model/X.v):
           [x_quiet_keys]  keys whose model entry and spec entry never return PanicV for ANY argument list (provable
                           by the syntactic tactic [quiet_tac]: unfold the head, destruct the tests, no arithmetic),
           [x_panic_keys]  keys one of whose entries has a PanicV branch (each needs a bridging lemma),
           [x_keys := x_quiet_keys ++ x_panic_keys],
           [x_ty : typing] the typing side condition of a key for the first statement (what Rust's types enforce: two
                           Uint<N> have one limb count, a Limb is one word, BITS and a u32 shift are < 2^32 ...); a key
                           without an entry has none,
           [x_total_keys], [x_total_ty] the option / result / flag returning forms and their (typing-only) side conditions.
         To find the partition run the loop of Proofs/TotalityAddSubP.v's [addsub_quiet] on [map fst ops_x_model]
         (a key on which [split; open_tabs M S; np] fails goes to x_panic_keys).
      2. one file Proofs/TotalityXP.v (imports Model/X.v, the proofs of the owning property, this file):
           [x_cover : covers x_keys ops_x_model = true]                      by [vm_compute. reflexivity.]
             -- if a key resists, leave it out of the lists, prove [covers_except x_keys [the keys] ops_x_model = true]
                instead and SAY which keys are missing in tools/claims_C11.json,
           [x_quiet : quiet_keys_ok ops_x_model ops_x_spec x_quiet_keys]     by [unfold x_quiet_keys. quiet_tac M S.]
           one lemma [key_<k> : key_ok M S x_ty "the.key"] per panicking key: [start_key M S x_ty] opens the two entries
             (hypotheses Hwf : wf_args a, Hty : the side condition, Hdom : spec entry <> Unsupported); destruct the test
             the model panics on and bridge it to the spec's test with the correctness lemma of the owning property
             (never [apply] an iff between the two tables: unification unfolds both tables; use proj1 / rewrite),
           [#[export] Hint Resolve key_... : c11keys.]
           [x_panics_iff_documented]   by [apply panics_from_parts; [exact x_quiet | unfold x_panic_keys; by_keys].]
           [x_total_forms_never_panic] by [quiet_total] for keys inside x_quiet_keys, [total_via] for the others.
      3. the two Theorem / Print Assumptions pairs, one line in C11_key_lists_cover_tables and a non-vacuity line in
         Props/C11.v. *)
From CB Require Import Model.Limbs.
From Coq Require Import ZArith List String Bool Lia.
Open Scope Z_scope.
Notation length := List.length.

(* ------------------------------------------------------------------ outcome classes *)
Inductive ocls := CVal | CNone | CErr | CPanic | CUnsup.
Definition cls (o : outcome) : ocls :=
  match o with Val _ => CVal | NoneV => CNone | ErrV _ => CErr | PanicV => CPanic | Unsupported => CUnsup end.
Lemma cls_panic o : cls o = CPanic <-> o = PanicV.
Proof. destruct o; cbn; split; intros H; try discriminate; reflexivity. Qed.
Lemma cls_unsup o : cls o = CUnsup <-> o = Unsupported.
Proof. destruct o; cbn; split; intros H; try discriminate; reflexivity. Qed.

(* table lookup, as in Model/Api.v (run_model / run_spec restricted to one table) *)
Definition run_tab (t : list (string * opfn)) (k : string) (dbg : bool) (a : list (list Z)) : outcome :=
  match lookup k t with Some f => f dbg a | None => Unsupported end.

Definition wf_args (a : list (list Z)) : Prop := Forall wf a.

(* typing side conditions, per key *)
Definition typing := list (string * (list (list Z) -> Prop)).
Definition typed (t : typing) (k : string) (a : list (list Z)) : Prop :=
  match lookup k t with Some P => P a | None => True end.

(* ------------------------------------------------------------------ the two statements *)
Definition panics_iff_documented (M S : list (string * opfn)) (keys : list string) (ty : typing) : Prop :=
  forall k dbg a, In k keys -> wf_args a -> typed ty k a -> run_tab S k dbg a <> Unsupported ->
    (run_tab M k dbg a = PanicV <-> run_tab S k dbg a = PanicV).
Definition total_forms_never_panic (M : list (string * opfn)) (keys : list string) (ty : typing) : Prop :=
  forall k dbg a, In k keys -> typed ty k a -> run_tab M k dbg a <> PanicV.

(* one key of the first statement *)
Definition key_ok (M S : list (string * opfn)) (ty : typing) (k : string) : Prop :=
  forall dbg a, wf_args a -> typed ty k a -> run_tab S k dbg a <> Unsupported ->
    (run_tab M k dbg a = PanicV <-> run_tab S k dbg a = PanicV).
(* keys that never panic in either table, whatever the arguments *)
Definition quiet_keys_ok (M S : list (string * opfn)) (keys : list string) : Prop :=
  forall k dbg a, In k keys -> run_tab M k dbg a <> PanicV /\ run_tab S k dbg a <> PanicV.

Lemma quiet_key_ok M S ty keys k : quiet_keys_ok M S keys -> In k keys -> key_ok M S ty k.
Proof.
  intros Q Hin dbg a _ _ _. destruct (Q k dbg a Hin) as [H1 H2]. split; intros H; contradiction.
Qed.
Lemma quiet_total M S keys tot ty : quiet_keys_ok M S keys -> (forall k, In k tot -> In k keys) ->
  total_forms_never_panic M tot ty.
Proof. intros Q Hsub k dbg a Hin _. exact (proj1 (Q k dbg a (Hsub k Hin))). Qed.

(* coverage: every key of the table is in the list (boolean, closed by vm_compute) *)
Definition mem_str (k : string) (l : list string) : bool := existsb (String.eqb k) l.
Definition covers (keys : list string) (t : list (string * opfn)) : bool :=
  forallb (fun k => mem_str k keys) (map fst t).
Definition covers_except (keys missing : list string) (t : list (string * opfn)) : bool :=
  forallb (fun k => mem_str k keys || mem_str k missing) (map fst t) &&
  forallb (fun k => negb (mem_str k keys)) missing.
Definition sublist (l1 l2 : list string) : bool := forallb (fun k => mem_str k l2) l1.
Lemma mem_str_In k l : mem_str k l = true -> In k l.
Proof.
  unfold mem_str. rewrite existsb_exists. intros (x & Hx & E). apply String.eqb_eq in E. subst. assumption.
Qed.
Lemma sublist_In l1 l2 : sublist l1 l2 = true -> forall k, In k l1 -> In k l2.
Proof.
  unfold sublist. rewrite forallb_forall. intros H k Hk. apply mem_str_In. apply H. assumption.
Qed.

(* ------------------------------------------------------------------ argument access *)
Lemma wf_nil' : wf [].
Proof. constructor. Qed.
Lemma wf_arg i a : wf_args a -> wf (arg i a).
Proof.
  unfold wf_args, arg. intros H. revert i. induction H as [|x l Hx Hl IH]; intros i.
  - destruct i; apply wf_nil'.
  - destruct i; [exact Hx | apply IH].
Qed.
Lemma sarg_word i a : wf_args a -> 0 <= sarg i a < B.
Proof.
  intros H. pose proof (wf_arg i a H) as Hw. unfold sarg, arg in *.
  destruct (nth i a []) as [|x l]; cbn [nth].
  - unfold B. split; [lia | reflexivity].
  - inversion Hw as [|? ? Hx _]. exact Hx.
Qed.

Lemma arg_single i a : length (arg i a) = 1%nat -> arg i a = [sarg i a].
Proof. unfold sarg, arg. destruct (nth i a []) as [|x [|y l]]; cbn; intros H; try discriminate; reflexivity. Qed.

(* ------------------------------------------------------------------ tactics *)
(* open [run_tab T "key"] to the entry of the table *)
Ltac open_tabs M S :=
  unfold run_tab;
  lazy beta iota delta [lookup M S String.eqb Ascii.eqb Bool.eqb].
Ltac open_typed ty H :=
  unfold typed in H;
  lazy beta iota delta [lookup ty String.eqb Ascii.eqb Bool.eqb] in H.
(* start the proof of one [key_ok M S ty "key"] *)
Ltac start_key M S ty :=
  let dbg := fresh "dbg" in let a := fresh "a" in
  let Hwf := fresh "Hwf" in let Hty := fresh "Hty" in let Hdom := fresh "Hdom" in
  intros dbg a Hwf Hty Hdom; open_typed ty Hty; revert Hdom; open_tabs M S; intros Hdom.
(* [forall k, In k [k1; ...; kn] -> key_ok M S ty k] from the hint database c11keys *)
Ltac by_keys :=
  let k := fresh "k" in let Hin := fresh "Hin" in
  intros k Hin; cbn [In] in Hin;
  repeat (destruct Hin as [<- | Hin]; [solve [eauto with nocore c11keys] |]); contradiction.
Create HintDb c11keys.

(* [np]: the goal [X <> PanicV] holds by the shape of X alone: unfold the head, destruct the tests *)
Ltac head_of t := lazymatch t with ?f _ => head_of f | _ => t end.
Ltac np :=
  lazymatch goal with
  | |- Val _ <> PanicV => discriminate
  | |- NoneV <> PanicV => discriminate
  | |- ErrV _ <> PanicV => discriminate
  | |- Unsupported <> PanicV => discriminate
  | |- PanicV <> PanicV => fail "reaches PanicV"
  | |- (if ?c then _ else _) <> PanicV => destruct c; np
  | |- (let x := ?e in @?b x) <> PanicV => change (b e <> PanicV); cbv beta; np
  | |- (match ?x with _ => _ end) <> PanicV => destruct x; np
  | |- ?X <> PanicV => let h := head_of X in unfold h; cbv beta; np
  end.

(* [nu]: the same for [X <> Unsupported] *)
Ltac nu :=
  lazymatch goal with
  | |- Val _ <> Unsupported => discriminate
  | |- NoneV <> Unsupported => discriminate
  | |- ErrV _ <> Unsupported => discriminate
  | |- PanicV <> Unsupported => discriminate
  | |- Unsupported <> Unsupported => fail "reaches Unsupported"
  | |- (if ?c then _ else _) <> Unsupported => destruct c; nu
  | |- (let x := ?e in @?b x) <> Unsupported => change (b e <> Unsupported); cbv beta; nu
  | |- (match ?x with _ => _ end) <> Unsupported => destruct x; nu
  | |- ?X <> Unsupported => let h := head_of X in unfold h; cbv beta; nu
  end.

(* all keys of a quiet list at once *)
Ltac quiet_tac M S :=
  let k := fresh "k" in let dbg := fresh "dbg" in let a := fresh "a" in let Hin := fresh "Hin" in
  intros k dbg a Hin; cbn [In] in Hin;
  repeat (destruct Hin as [<- | Hin]; [split; open_tabs M S; np |]);
  contradiction.

(* the first statement from the quiet keys and the per-key lemmas: [In k (quiet ++ panic)] *)
Lemma panics_from_parts M S quiet pk ty :
  quiet_keys_ok M S quiet -> (forall k, In k pk -> key_ok M S ty k) ->
  panics_iff_documented M S (quiet ++ pk) ty.
Proof.
  intros Q P k dbg a Hin. apply in_app_or in Hin. destruct Hin as [Hin | Hin].
  - apply (quiet_key_ok M S ty quiet k Q Hin).
  - apply (P k Hin).
Qed.

(* a total form that is not syntactically quiet: from the first statement, when the spec entry is defined and quiet *)
Lemma total_via M S keys ty k dbg a : panics_iff_documented M S keys ty -> In k keys -> wf_args a -> typed ty k a ->
  run_tab S k dbg a <> Unsupported -> run_tab S k dbg a <> PanicV -> run_tab M k dbg a <> PanicV.
Proof. intros P Hk Hwf Hty Hd Hs HP. apply Hs. exact (proj1 (P k dbg a Hk Hwf Hty Hd) HP). Qed.

(* the first statement in terms of outcome classes (what the two-profile run of tools/vlib/c11.py compares) *)
Lemma panics_iff_cls M S keys ty : panics_iff_documented M S keys ty ->
  forall k dbg a, In k keys -> wf_args a -> typed ty k a -> cls (run_tab S k dbg a) <> CUnsup ->
    (cls (run_tab M k dbg a) = CPanic <-> cls (run_tab S k dbg a) = CPanic).
Proof.
  intros P k dbg a Hk Hwf Hty Hd. rewrite !cls_panic. apply (P k dbg a Hk Hwf Hty).
  intros E. apply Hd. apply cls_unsup. exact E.
Qed.

(* ================================================================== key lists, one section per area *)
Open Scope string_scope.
(* ---------------- addsub (Model/AddSub.v): 42 keys = 34 quiet + 8 with a panic branch ---------------- *)
Definition addsub_quiet_keys : list string :=
  ["limb.adc"; "limb.sbb"; "limb.overflowing_add"; "limb.mac"; "limb.wrapping_add"; "limb.wrapping_sub";
   "limb.wrapping_neg"; "limb.saturating_add"; "limb.saturating_sub"; "limb.checked_add"; "limb.checked_sub";
   "uint.adc"; "uint.sbb"; "uint.wrapping_add"; "uint.wrapping_sub"; "uint.saturating_add";
   "uint.saturating_sub"; "uint.checked_add"; "uint.checked_sub"; "uint.carrying_neg"; "uint.wrapping_neg";
   "uint.wrapping_neg_if"; "uint.checked_expr"; "boxed.adc"; "boxed.sbb"; "boxed.wrapping_add";
   "boxed.wrapping_sub"; "boxed.checked_add"; "boxed.checked_sub"; "boxed.adc_assign"; "boxed.sbb_assign";
   "boxed.wrapping_add_assign"; "boxed.wrapping_sub_assign"; "boxed.wrapping_neg"].
Definition addsub_panic_keys : list string :=
  ["limb.add"; "limb.sub"; "uint.add"; "uint.sub"; "boxed.add"; "boxed.sub"; "boxed.add_assign";
   "boxed.sub_assign"].
Definition addsub_keys : list string := addsub_quiet_keys ++ addsub_panic_keys.

(* ---------------- mul (Model/Mul.v): 20 keys = 17 quiet + 3 with a panic branch ---------------- *)
Definition mul_quiet_keys : list string :=
  ["limb.wrapping_mul"; "limb.saturating_mul"; "limb.checked_mul"; "uint.split_mul"; "uint.widening_mul";
   "uint.wrapping_mul"; "uint.checked_mul"; "uint.saturating_mul"; "uint.square_wide"; "uint.widening_square";
   "uint.wrapping_square"; "uint.checked_square"; "uint.saturating_square"; "boxed.mul"; "boxed.wrapping_mul";
   "boxed.checked_mul"; "boxed.square"].
Definition mul_panic_keys : list string :=
  ["limb.mul"; "uint.mul"; "boxed.mul_panicking"].
Definition mul_keys : list string := mul_quiet_keys ++ mul_panic_keys.

(* ---------------- div (Model/Div.v): 26 keys = 11 quiet + 15 with a panic branch ---------------- *)
Definition div_quiet_keys : list string :=
  ["recip.new"; "uint.div_rem_limb"; "uint.rem_limb"; "uint.div_limb"; "uint.div_rem_vartime";
   "uint.rem_vartime"; "uint.div_vartime"; "uint.rem_wide_vartime"; "uint.rem2k_vartime"; "boxed.div_rem_limb";
   "boxed.rem_limb"].
Definition div_panic_keys : list string :=
  ["uint.div_rem"; "uint.rem"; "uint.div"; "uint.div_plain"; "uint.rem_plain"; "uint.checked_div";
   "uint.checked_rem"; "uint.wrapping_rem_vartime"; "boxed.div_rem"; "boxed.rem"; "boxed.div";
   "boxed.checked_div"; "boxed.div_rem_vartime"; "boxed.rem_vartime"; "boxed.div_vartime"].
Definition div_keys : list string := div_quiet_keys ++ div_panic_keys.

(* ---------------- bits (Model/Bits.v): 65 keys = 38 quiet + 27 with a panic branch ---------------- *)
Definition bits_quiet_keys : list string :=
  ["limb.wrapping_shl"; "limb.wrapping_shr"; "limb.bits"; "limb.leading_zeros"; "limb.trailing_zeros";
   "limb.trailing_ones"; "limb.and"; "limb.or"; "limb.xor"; "limb.not"; "uint.overflowing_shl_vartime";
   "uint.wrapping_shl_vartime"; "uint.overflowing_shr_vartime"; "uint.wrapping_shr_vartime";
   "int.overflowing_shr_vartime"; "int.wrapping_shr_vartime"; "boxed.shl_vartime";
   "boxed.wrapping_shl_vartime"; "boxed.shr_vartime"; "boxed.wrapping_shr_vartime"; "bits.bit";
   "bits.bit_vartime"; "bits.bits"; "bits.leading_zeros"; "bits.trailing_zeros"; "bits.trailing_zeros_vartime";
   "bits.trailing_ones"; "bits.trailing_ones_vartime"; "bits.set_bit"; "uint.and"; "uint.or"; "uint.xor";
   "uint.not"; "uint.and_limb"; "boxed.and"; "boxed.or"; "boxed.xor"; "boxed.or_assign"].
Definition bits_panic_keys : list string :=
  ["limb.shl"; "limb.shr"; "uint.overflowing_shl"; "uint.shl"; "uint.shl_vartime"; "uint.wrapping_shl";
   "uint.overflowing_shr"; "uint.shr"; "uint.shr_vartime"; "uint.wrapping_shr"; "uint.shl_vartime_wide";
   "uint.shr_vartime_wide"; "int.overflowing_shr"; "int.shr"; "int.shr_vartime"; "int.wrapping_shr";
   "boxed.overflowing_shl"; "boxed.shl"; "boxed.wrapping_shl"; "boxed.overflowing_shl_opt";
   "boxed.overflowing_shr"; "boxed.shr"; "boxed.wrapping_shr"; "boxed.overflowing_shr_opt";
   "bits.bits_vartime"; "bits.leading_zeros_vartime"; "bits.set_bit_vartime"].
Definition bits_keys : list string := bits_quiet_keys ++ bits_panic_keys.

(* ---------------- cmp (Model/Cmp.v): 88 keys = 73 quiet + 15 with a panic branch ---------------- *)
Definition cmp_quiet_keys : list string :=
  ["limb.ct_eq"; "limb.ct_ne"; "limb.eq_vartime"; "limb.ct_lt"; "limb.ct_gt"; "limb.cmp_vartime";
   "limb.is_zero"; "limb.is_one"; "limb.is_odd"; "limb.to_nz"; "limb.select"; "limb.swap";
   "limb.conditional_negate"; "limb.hash"; "uint.ct_eq"; "uint.ct_lt"; "uint.ct_gt"; "uint.cmp"; "uint.lt";
   "uint.le"; "uint.gt"; "uint.ge"; "uint.cmp_vartime"; "uint.is_zero"; "uint.is_one"; "uint.is_odd";
   "uint.is_even"; "uint.to_nz"; "uint.to_odd"; "uint.nz_new"; "uint.odd_new"; "uint.select"; "uint.swap";
   "uint.neg_if"; "uint.conditional_negate"; "uint.hash"; "uint.ctopt"; "int.ct_eq"; "int.ct_lt"; "int.ct_gt";
   "int.cmp"; "int.lt"; "int.le"; "int.gt"; "int.ge"; "int.cmp_vartime"; "int.is_zero"; "int.is_one";
   "int.is_negative"; "int.is_positive"; "int.is_min"; "int.is_max"; "int.to_nz"; "int.to_odd"; "int.select";
   "int.swap"; "int.neg_if"; "int.hash"; "int.abs_sign"; "int.new_from_abs_sign"; "boxed.ct_eq"; "boxed.ct_lt";
   "boxed.ct_gt"; "boxed.cmp_vartime"; "boxed.is_zero"; "boxed.is_nonzero"; "boxed.is_one"; "boxed.is_odd";
   "boxed.is_even"; "boxed.to_odd"; "boxed.nz_new"; "boxed.conditional_negate"; "boxed.hash"].
Definition cmp_panic_keys : list string :=
  ["limb.cmp"; "limb.lt"; "limb.le"; "limb.gt"; "limb.ge"; "limb.nz_new_unwrap"; "uint.ctopt_expect";
   "int.new_from_abs_sign_expect"; "boxed.cmp"; "boxed.lt"; "boxed.le"; "boxed.gt"; "boxed.ge"; "boxed.select";
   "boxed.swap"].
Definition cmp_keys : list string := cmp_quiet_keys ++ cmp_panic_keys.

(* ---------------- modarith (Model/ModArith.v): 19 keys = 14 quiet + 5 with a panic branch ---------------- *)
Definition modarith_quiet_keys : list string :=
  ["uint.add_mod"; "uint.double_mod"; "uint.add_mod_special"; "uint.sub_mod"; "uint.sub_mod_special";
   "uint.neg_mod"; "uint.neg_mod_special"; "uint.mul_mod_vartime"; "boxed.add_mod"; "boxed.double_mod";
   "boxed.sub_mod"; "boxed.sub_mod_special"; "boxed.neg_mod"; "boxed.neg_mod_special"].
Definition modarith_panic_keys : list string :=
  ["uint.mul_mod_special"; "uint.mul_mod_trait"; "uint.mul_mod"; "boxed.mul_mod_special"; "boxed.mul_mod"].
Definition modarith_keys : list string := modarith_quiet_keys ++ modarith_panic_keys.

(* ---------------- intarith (Model/IntArith.v): 42 keys = 32 quiet + 10 with a panic branch ---------------- *)
Definition intarith_quiet_keys : list string :=
  ["sint.checked_add"; "sint.overflowing_add"; "sint.wrapping_add"; "sint.checked_sub"; "sint.wrapping_sub";
   "sint.overflowing_neg"; "sint.wrapping_neg"; "sint.checked_neg"; "sint.wrapping_neg_if"; "sint.split_mul";
   "sint.split_mul_uint"; "sint.split_mul_uint_right"; "sint.widening_mul"; "sint.widening_mul_uint";
   "sint.checked_mul"; "sint.checked_mul_uint"; "sint.checked_mul_uint_right"; "sint.widening_square";
   "sint.checked_square"; "sint.wrapping_square"; "sint.saturating_square"; "sint.new_from_abs_sign";
   "sint.abs_sign"; "sint.abs"; "sint.is_negative"; "sint.is_positive"; "sint.is_min"; "sint.is_max";
   "sint.resize"; "sint.to_prim"; "sint.consts"; "sint.checked_expr"].
Definition intarith_panic_keys : list string :=
  ["sint.add"; "sint.sub"; "sint.mul"; "sint.mul_uint"; "sint.from_i8"; "sint.from_i16"; "sint.from_i32";
   "sint.from_i64"; "sint.from_i128"; "sint.from_i128_trait"].
Definition intarith_keys : list string := intarith_quiet_keys ++ intarith_panic_keys.

(* ---------------- intdiv (Model/IntDiv.v): 12 keys = 11 quiet + 1 with a panic branch ---------------- *)
Definition intdiv_quiet_keys : list string :=
  ["sdiv.checked_div_rem"; "sdiv.checked_div"; "sdiv.rem"; "sdiv.checked_div_rem_floor";
   "sdiv.checked_div_floor"; "sdiv.div_rem_uint"; "sdiv.div_uint"; "sdiv.rem_uint"; "sdiv.div_rem_floor_uint";
   "sdiv.div_floor_uint"; "sdiv.normalized_rem"].
Definition intdiv_panic_keys : list string :=
  ["sdiv.div_expect"].
Definition intdiv_keys : list string := intdiv_quiet_keys ++ intdiv_panic_keys.

(* ---------------- conv (Model/Conv.v): 37 keys = 21 quiet + 16 with a panic branch ---------------- *)
Definition conv_quiet_keys : list string :=
  ["limb.to_be_bytes"; "limb.to_le_bytes"; "limb.from_be_bytes"; "limb.from_le_bytes"; "limb.fmt";
   "limb.from_prim"; "uint.to_be_bytes"; "uint.to_le_bytes"; "uint.fmt"; "int.fmt"; "boxed.fmt";
   "uint.words_id"; "boxed.from_vec"; "uint.to_prim"; "uint.concat"; "uint.split"; "uint.resize"; "int.resize";
   "boxed.from_be_slice"; "boxed.from_le_slice"; "uint.serde_ser"].
Definition conv_panic_keys : list string :=
  ["uint.from_be_slice"; "uint.from_le_slice"; "uint.from_be_hex"; "uint.from_le_hex"; "uint.from_prim";
   "int.from_prim"; "boxed.from_prim"; "boxed.widen"; "boxed.shorten"; "boxed.from_be_hex"; "uint.serde_de";
   "nonzero.from_be_bytes"; "nonzero.from_le_bytes"; "nonzero.from_le_byte_array"; "odd.from_be_hex";
   "odd.from_le_hex"].
Definition conv_keys : list string := conv_quiet_keys ++ conv_panic_keys.

(* ---------------- rand (Model/Rand.v): 11 keys = 0 quiet + 11 with a panic branch ---------------- *)
Definition rand_quiet_keys : list string :=
  [].
Definition rand_panic_keys : list string :=
  ["limb.random"; "uint.random"; "uint.random_bits"; "boxed.random_bits"; "uint.random_mod";
   "boxed.random_mod"; "limb.random_mod"; "nonzero_uint.random"; "nonzero_monty.random"; "odd_uint.random";
   "odd_boxed.random"].
Definition rand_keys : list string := rand_quiet_keys ++ rand_panic_keys.

(* ---------------- sqrt (Model/Sqrt.v): 8 keys = 0 quiet + 8 with a panic branch ---------------- *)
Definition sqrt_quiet_keys : list string :=
  [].
Definition sqrt_panic_keys : list string :=
  ["uint.sqrt"; "uint.sqrt_vartime"; "uint.checked_sqrt"; "uint.checked_sqrt_vartime"; "boxed.sqrt";
   "boxed.sqrt_vartime"; "boxed.checked_sqrt"; "boxed.checked_sqrt_vartime"].
Definition sqrt_keys : list string := sqrt_quiet_keys ++ sqrt_panic_keys.

(* ---- typing side conditions and total forms, area by area ---- *)
Definition limb2 (a : list (list Z)) : Prop := ln 0 a = 1%nat /\ ln 1 a = 1%nat.         (* two Limb arguments *)
Definition same_len (a : list (list Z)) : Prop := ln 0 a = ln 1 a.                        (* two Uint<N>, same N *)

(* addsub: Limb + Limb; Uint<N> + Uint<N>; the boxed forms accept any pair of precisions *)
Definition addsub_ty : typing :=
  [("limb.add", limb2); ("limb.sub", limb2); ("uint.add", same_len); ("uint.sub", same_len)].
(* all option / flag / carry returning forms: no side condition at all *)
Definition addsub_total_keys : list string :=
  ["limb.adc"; "limb.sbb"; "limb.overflowing_add"; "limb.mac"; "limb.wrapping_add"; "limb.wrapping_sub";
   "limb.wrapping_neg"; "limb.saturating_add"; "limb.saturating_sub"; "limb.checked_add"; "limb.checked_sub";
   "uint.adc"; "uint.sbb"; "uint.wrapping_add"; "uint.wrapping_sub"; "uint.saturating_add";
   "uint.saturating_sub"; "uint.checked_add"; "uint.checked_sub"; "uint.carrying_neg"; "uint.wrapping_neg";
   "uint.wrapping_neg_if"; "uint.checked_expr"; "boxed.adc"; "boxed.sbb"; "boxed.wrapping_add";
   "boxed.wrapping_sub"; "boxed.checked_add"; "boxed.checked_sub"; "boxed.adc_assign"; "boxed.sbb_assign";
   "boxed.wrapping_add_assign"; "boxed.wrapping_sub_assign"; "boxed.wrapping_neg"].
Definition addsub_total_ty : typing := [].

(* mul: Limb * Limb; Uint<N> * Uint<M> and the boxed forms accept any pair of widths *)
Definition mul_ty : typing := [("limb.mul", limb2)].
Definition mul_total_keys : list string :=
  ["limb.wrapping_mul"; "limb.saturating_mul"; "limb.checked_mul"; "uint.split_mul"; "uint.widening_mul";
   "uint.wrapping_mul"; "uint.checked_mul"; "uint.saturating_mul"; "uint.square_wide"; "uint.widening_square";
   "uint.wrapping_square"; "uint.checked_square"; "uint.saturating_square"; "boxed.mul"; "boxed.wrapping_mul";
   "boxed.checked_mul"; "boxed.square"].
Definition mul_total_ty : typing := [].

(* div: the constant-time forms divide two values of one width (Uint<N> by NonZero<Uint<N>>; the boxed constant-time
   forms document equal precisions and panic otherwise, which is in the table); the vartime forms accept any widths *)
Definition div_ty : typing :=
  [("uint.div_rem", same_len); ("uint.rem", same_len); ("uint.div", same_len); ("uint.div_plain", same_len);
   ("uint.rem_plain", same_len); ("uint.checked_div", same_len); ("uint.checked_rem", same_len)].
(* option-returning forms: limbs are words, and the two operands have one width *)
Definition div_total_keys : list string := ["uint.checked_div"; "uint.checked_rem"; "boxed.checked_div"].
Definition wf1_same_len (a : list (list Z)) : Prop := wf (arg 1 a) /\ ln 0 a = ln 1 a.
Definition div_total_ty : typing :=
  [("uint.checked_div", wf1_same_len); ("uint.checked_rem", wf1_same_len); ("boxed.checked_div", wf1_same_len)].

(* modarith: no typing side condition is needed (the specification's domain test already contains the width
   equalities); the quiet keys (add / sub / neg / double mod, the special-modulus forms) return a value for ANY arguments *)
Definition modarith_ty : typing := [].
Definition modarith_total_keys : list string := modarith_quiet_keys.
Definition modarith_total_ty : typing := [].

(* cmp: a Limb is one word; Int<N> has at least one limb; BoxedUint::ct_select / ct_swap (subtle's
   ConditionallySelectable) are documented for operands of one precision *)
Definition limb1 (a : list (list Z)) : Prop := ln 0 a = 1%nat.
Definition nonempty0 (a : list (list Z)) : Prop := arg 0 a <> [].
Definition cmp_ty : typing :=
  [("limb.nz_new_unwrap", limb1); ("int.new_from_abs_sign_expect", nonempty0);
   ("boxed.select", same_len); ("boxed.swap", same_len)].
(* CtOption / ConstCtOption returning constructors and the option combinators *)
Definition cmp_total_keys : list string :=
  ["limb.to_nz"; "uint.to_nz"; "uint.to_odd"; "uint.nz_new"; "uint.odd_new"; "uint.ctopt"; "int.to_nz"; "int.to_odd";
   "int.new_from_abs_sign"; "boxed.to_odd"; "boxed.nz_new"].
Definition cmp_total_ty : typing := [].

(* intarith (Int<N>): + and - on two Int<N> of one width; From<i8..i64>: the scalar is a bit pattern of that width *)
Definition prim_bits (bits : Z) (a : list (list Z)) : Prop := 0 <= sarg 0 a < 2 ^ bits.
Definition intarith_ty : typing :=
  [("sint.add", same_len); ("sint.sub", same_len);
   ("sint.from_i8", prim_bits 8); ("sint.from_i16", prim_bits 16); ("sint.from_i32", prim_bits 32);
   ("sint.from_i64", prim_bits 64)].
Definition intarith_total_keys : list string :=
  ["sint.checked_add"; "sint.overflowing_add"; "sint.wrapping_add"; "sint.checked_sub"; "sint.wrapping_sub";
   "sint.overflowing_neg"; "sint.wrapping_neg"; "sint.checked_neg"; "sint.wrapping_neg_if";
   "sint.checked_mul"; "sint.checked_mul_uint"; "sint.checked_mul_uint_right"; "sint.checked_square";
   "sint.wrapping_square"; "sint.saturating_square"; "sint.new_from_abs_sign"; "sint.checked_expr"].
Definition intarith_total_ty : typing := [].

(* intdiv (Int<N> division): no side condition *)
Definition intdiv_ty : typing := [].
Definition intdiv_total_keys : list string :=
  ["sdiv.checked_div_rem"; "sdiv.checked_div"; "sdiv.checked_div_rem_floor"; "sdiv.checked_div_floor"].
Definition intdiv_total_ty : typing := [].

(* sqrt: no side condition for the first statement; the checked forms never panic on any word-limbed value *)
Definition wf0 (a : list (list Z)) : Prop := wf (arg 0 a).
Definition sqrt_ty : typing := [].
Definition sqrt_total_keys : list string :=
  ["uint.checked_sqrt"; "uint.checked_sqrt_vartime"; "boxed.checked_sqrt"; "boxed.checked_sqrt_vartime"].
Definition sqrt_total_ty : typing :=
  [("uint.checked_sqrt", wf0); ("uint.checked_sqrt_vartime", wf0); ("boxed.checked_sqrt", wf0);
   ("boxed.checked_sqrt_vartime", wf0)].

(* bits (shifts and bit queries): BITS is a u32 (64 * LIMBS < 2^32); a shift amount passed as u32 is below 2^32 (the
   operator forms << >> take any integer type and convert it, which is in the table); the two halves of a wide value
   have one width *)
Definition bits_u32 (a : list (list Z)) : Prop := 64 * Z.of_nat (ln 0 a) < 2 ^ 32.
Definition shift_u32 (a : list (list Z)) : Prop := 64 * Z.of_nat (ln 0 a) < 2 ^ 32 /\ sarg 1 a < 2 ^ 32.
Definition wide_halves (a : list (list Z)) : Prop := ln 1 a = ln 0 a.
Definition bits_ty : typing :=
  [("uint.overflowing_shl", shift_u32); ("uint.shl", bits_u32); ("uint.shl_vartime", shift_u32);
   ("uint.wrapping_shl", shift_u32);
   ("uint.overflowing_shr", shift_u32); ("uint.shr", bits_u32); ("uint.shr_vartime", shift_u32);
   ("uint.wrapping_shr", shift_u32);
   ("uint.shl_vartime_wide", wide_halves); ("uint.shr_vartime_wide", wide_halves);
   ("int.overflowing_shr", shift_u32); ("int.shr", bits_u32); ("int.wrapping_shr", shift_u32);
   ("boxed.shl", bits_u32); ("boxed.shr", bits_u32)].
(* option / flag returning shifts. The variable-time ones and Limb::wrapping_* need no hypothesis at all; the
   constant-time ladder forms are stated for word limbs, at least one limb and the u32 typing above *)
Definition bits_total_keys : list string :=
  ["limb.wrapping_shl"; "limb.wrapping_shr";
   "uint.overflowing_shl_vartime"; "uint.wrapping_shl_vartime"; "uint.overflowing_shr_vartime";
   "uint.wrapping_shr_vartime"; "int.overflowing_shr_vartime"; "int.wrapping_shr_vartime";
   "boxed.shl_vartime"; "boxed.wrapping_shl_vartime"; "boxed.shr_vartime"; "boxed.wrapping_shr_vartime";
   "uint.overflowing_shl"; "uint.wrapping_shl"; "uint.overflowing_shr"; "uint.wrapping_shr";
   "uint.shl_vartime_wide"; "uint.shr_vartime_wide"; "int.overflowing_shr"; "int.wrapping_shr";
   "boxed.overflowing_shl"; "boxed.wrapping_shl"; "boxed.overflowing_shl_opt";
   "boxed.overflowing_shr"; "boxed.wrapping_shr"; "boxed.overflowing_shr_opt"].
Definition ladder_ty (a : list (list Z)) : Prop := wf_args a /\ arg 0 a <> [] /\ shift_u32 a.
Definition boxed_ladder_ty (a : list (list Z)) : Prop := wf_args a /\ arg 0 a <> [].
Definition wide_ty (a : list (list Z)) : Prop := wf_args a /\ arg 0 a <> [] /\ wide_halves a.
Definition bits_total_ty : typing :=
  [("uint.overflowing_shl", ladder_ty); ("uint.wrapping_shl", ladder_ty); ("uint.overflowing_shr", ladder_ty);
   ("uint.wrapping_shr", ladder_ty); ("uint.shl_vartime_wide", wide_ty); ("uint.shr_vartime_wide", wide_ty);
   ("int.overflowing_shr", ladder_ty); ("int.wrapping_shr", ladder_ty);
   ("boxed.overflowing_shl", boxed_ladder_ty); ("boxed.wrapping_shl", boxed_ladder_ty);
   ("boxed.overflowing_shl_opt", boxed_ladder_ty); ("boxed.overflowing_shr", boxed_ladder_ty);
   ("boxed.wrapping_shr", boxed_ladder_ty); ("boxed.overflowing_shr_opt", boxed_ladder_ty)].

(* conv (encodings and conversions): no typing side condition (the specification's domain tests contain them) *)
Definition conv_ty : typing := [].
(* decoders that report failure through a Result / option *)
Definition conv_total_keys : list string :=
  ["boxed.from_be_slice"; "boxed.from_le_slice"; "uint.serde_de"].
Definition conv_total_ty : typing := [].

(* rand (sampling from a finite replay stream): no side condition for the first statement.  The try_* forms (RNG
   error returned: the last scalar, "fallible", is not 0; for random_bits the mode scalar is not 1) never panic *)
Definition rand_ty : typing := [].
Definition fallible_at (i : nat) (a : list (list Z)) : Prop := sarg i a <> 0.
Definition mode_at (i : nat) (a : list (list Z)) : Prop := sarg i a <> 1.
Definition rand_total_keys : list string :=
  ["limb.random"; "uint.random"; "uint.random_bits"; "boxed.random_bits"; "uint.random_mod"; "boxed.random_mod";
   "limb.random_mod"; "nonzero_uint.random"; "nonzero_monty.random"; "odd_uint.random"].
Definition rand_total_ty : typing :=
  [("limb.random", fallible_at 1); ("uint.random", fallible_at 2); ("uint.random_bits", mode_at 4);
   ("boxed.random_bits", mode_at 3); ("uint.random_mod", fallible_at 2); ("boxed.random_mod", fallible_at 2);
   ("limb.random_mod", fallible_at 2); ("nonzero_uint.random", fallible_at 2);
   ("nonzero_monty.random", fallible_at 2); ("odd_uint.random", fallible_at 2)].
