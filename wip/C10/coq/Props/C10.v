(** C10 (bootstrap) *)
From CB Require Import Model.SafeGcd.
Open Scope Z_scope.
Theorem C10_smoke : sg_inv true false false [1] [7] [3] = SgOk [5] true.
Proof. vm_compute. reflexivity. Qed.
Print Assumptions C10_smoke.
