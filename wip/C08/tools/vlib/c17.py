"""C17 generator: radix strings (parse and format) of Uint<N> and BoxedUint, radix 2..=36 EXHAUSTIVELY (every
class below is produced for every radix), plus unsupported radixes (0, 1, 37, 2^32-1: documented panic).

What is covered, built from the structure of the algorithm (src/uint/encoding.rs):
 * widths: Uint 1,2,3,4,8,16,32,33,40 limbs (32/33/40 cross the 32-limb large-divisor threshold of the encoder),
   BoxedUint 1..=140 limbs with 31,32,33,62,63,64,65,95,96,97,128,129,140 always present; boxed precisions
   0,1,63,64,65,127,128,129,... (limb boundary +-1);
 * values to format: 0, 1, radix^j and radix^j - 1 (j at the multiples of digits_limb and of digits_large, the
   largest j that fits), 2^BITS - 1, 2^(64 i) +- 1, div_limb^j (+-1), div_large*q + r with r in {0, 1, div_large - 1},
   the limb alphabet of gen.py, zero high limbs (boxed values far narrower than their precision);
 * the `hi`-limb boundary of RadixDivisionParams::encode_limbs: values (top*B^lc + L) * div_limb^j + R whose j-th
   quotient has its top limb `top` in {D-1, D, D+1, D>>s, (D>>s)+-1, 2^(64-s)-1, 2^(64-s), 2^(64-s)+1, MAX} and the
   exact witness class of finding F30 (hi = floor(D / 2^s), next limbs >= frac(D / 2^s)), also below a large
   divisor multiple (so that the 32-limb remainder of the large-divisor loop carries the witness);
 * strings to parse: the canonical numerals of 0, 1, 2^BITS - 1, 2^BITS, 2^BITS + 1, radix^j (-1), B^i (+-1),
   2^p - 1 / 2^p for a boxed precision p, decorated with a leading '+', leading zeros (1, 2, many), single and
   doubled underscores (at every batch boundary of ilog_radix(MAX) digits, after the leading zeros, before the
   last digit), upper / lower / mixed case; the zero numerals "0", "00", "+0", "0_0" (zero-limb hazard of the
   boxed parse); non-numerals: "", "+", "_", "+_", "_1", "+_1", "1_", "1__", "++1", "-1", "+-1", " 1", "1 ",
   the digit `radix` itself and `radix + 1` (as '0'..'9', 'a'..'z', 'A'..'Z'), the neighbours of the three
   accepted character ranges ('/', ':', '@', '[', '`', '{'), NUL, DEL, newline, multi-byte UTF-8, at the first /
   a middle / the last position of short and of overflowing strings (finding F31: which error wins);
   digit counts m*k + t for t in {0, 1, k-1} around the limb capacity (the final partial batch).
"""
from .common import Case
from .gen import *

UINT_NS = [1, 2, 3, 4, 8, 16, 32, 33, 40]        # Uint<63> is available to the adapters too (large-divisor saturation class)
BOXED_FIXED = [1, 2, 3, 31, 32, 33, 62, 63, 64, 65, 95, 96, 97, 128, 129, 140]
DIG = b'0123456789abcdefghijklmnopqrstuvwxyz'
DIGU = b'0123456789ABCDEFGHIJKLMNOPQRSTUVWXYZ'
UTF8_MULTI = [bytes([0xc3, 0xa9]), bytes([0xd9, 0xa3]), bytes([0xe2, 0x82, 0xac]), bytes([0xf0, 0x9f, 0x98, 0x80]),
              bytes([0xef, 0xbc, 0x91])]      # e-acute, ARABIC-INDIC DIGIT THREE, euro, emoji, FULLWIDTH DIGIT ONE
EDGE_BAD = [0x2f, 0x3a, 0x40, 0x5b, 0x60, 0x7b, 0x20, 0x00, 0x7f, 0x0a, 0x2d, 0x2e, 0x2c]

TRUSTED = [
    'Coq 8.16.1 kernel incl. its bytecode VM (vm_compute); native_compute not used',
    'no axioms: Print Assumptions of every theorem = Closed under the global context',
    'extraction: ExtrOcamlBasic + ExtrOcamlNativeString + ExtrOcamlZBigInt directives only (cross-checked against vm_compute on a sample each run)',
    'correspondence harness (Rust adapters, OCaml driver, Python generators/diff): sampled equality impl = model',
    'hand-written Gallina model of the Rust algorithms (64-bit target); u64::ilog / pow / trailing_zeros / is_power_of_two of core by their meaning',
]


def params(r):
    """digits_limb k, div_limb D = r^k (largest power <= MAX), its normalisation shift s, digits_large, div_large"""
    k, D = 0, 1
    while D * r <= MAXW:
        D *= r; k += 1
    s = 64 - D.bit_length()
    dl, L = 0, 1
    while L * r < (1 << (64 * 32)):
        L *= r; dl += 1
    return k, D, s, dl, L


def numeral(r, x, upper=False):
    if x == 0:
        return [0x30]
    tab = DIGU if upper else DIG
    out = []
    while x:
        out.append(tab[x % r]); x //= r
    return out[::-1]


def nlimbs(v):
    return max(1, (v.bit_length() + 63) // 64)


def recase(rng, s):
    """random upper / lower case per letter"""
    out = []
    for c in s:
        if 0x61 <= c <= 0x7a and rng.random() < 0.5: c -= 32
        elif 0x41 <= c <= 0x5a and rng.random() < 0.5: c += 32
        out.append(c)
    return out


def decorate(rng, r, digs, k):
    """well-formed variants of the digit string digs (same value)"""
    vs = [list(digs), [0x2b] + list(digs), [0x30] + list(digs), [0x2b, 0x30, 0x30] + list(digs),
          [0x30] * 70 + list(digs), [0x30, 0x5f] + list(digs), [0x30, 0x5f, 0x5f, 0x30, 0x5f] + list(digs)]
    n = len(digs)
    if n >= 2:
        # underscores at the batch boundaries (counted from the most significant digit) and at the ends
        for pos in sorted(set([1, n - 1, k % n or 1, (k + 1) % n or 1, (n - k) % n or 1, max(1, n - k - 1), n // 2 or 1])):
            if 0 < pos < n:
                vs.append(list(digs[:pos]) + [0x5f] + list(digs[pos:]))
        pos = rng.randrange(1, n)
        vs.append(list(digs[:pos]) + [0x5f, 0x5f] + list(digs[pos:]))
        # an underscore between all digits
        if n <= 200:
            u = []
            for i, c in enumerate(digs):
                if i: u.append(0x5f)
                u.append(c)
            vs.append(u)
    vs.append(recase(rng, [c - 32 if 0x61 <= c <= 0x7a else c for c in digs]))
    vs.append(recase(rng, vs[rng.randrange(len(vs))]))
    return vs


def bad_chars(r):
    """characters that are no digit of radix r: the digit r itself, r + 1, range neighbours, controls, UTF-8"""
    out = []
    for d in (r, r + 1, 35):
        if r <= d < 36:
            out += [[DIG[d]], [DIGU[d]]]
    out += [[c] for c in EDGE_BAD]
    out += [list(u) for u in UTF8_MULTI]
    return out


def non_numerals(rng, r, digs, k):
    """strings that are no numeral, built around the digit string digs"""
    d = list(digs)
    out = [[], [0x2b], [0x5f], [0x2b, 0x5f], [0x5f] + d, [0x2b, 0x5f] + d, d + [0x5f], d + [0x5f, 0x5f],
           [0x2b, 0x2b] + d, [0x2d] + d, [0x2b, 0x2d] + d, [0x20] + d, d + [0x20], [0x30, 0x5f], [0x2b, 0x30, 0x5f],
           [0x5f, 0x30], d + [0x2b], [0x30, 0x78] + d]
    n = len(d)
    for b in bad_chars(r):
        for pos in sorted(set([0, n, n // 2, max(0, n - 1), min(n, k), min(n, k + 1)])):
            out.append(d[:pos] + b + d[pos:])
    return out


def parse_values(rng, r, nbits):
    """boundary values for a target of nbits bits"""
    k, D, s, dl, L = params(r)
    M = 1 << nbits
    vs = [0, 1, r - 1, r, M - 1, M, M + 1, M * r, M // 2, D - 1, D, D + 1, (M - 1) // r, (M - 1) // r + 1]
    j = 0
    p = 1
    while p < M * r * r:
        if j % k in (0, 1, k - 1) or p * r >= M // r:
            vs += [p - 1, p]
        p *= r; j += 1
    for i in range(1, nbits // 64 + 2):
        vs += [(1 << (64 * i)) - 1, 1 << (64 * i), (1 << (64 * i)) + 1]
    # every limb MAX after the multiply-accumulate, a carry into the last limb
    vs += [D ** (nbits // 64 + 1) - 1, D ** (nbits // 64), value(rng, nbits // 64 or 1), value(rng, nbits // 64 or 1)]
    return [v for v in vs if v >= 0]


def hi_boundary(rng, r, count):
    """values whose j-th quotient by div_limb has a chosen top limb (the test that moves it into `hi`)"""
    k, D, s, dl, L = params(r)
    hs = D >> s
    tops = [D - 1, D, D + 1, hs, hs - 1, hs + 1, (1 << (64 - s)) - 1, (1 << (64 - s)) % B, ((1 << (64 - s)) + 1) % B, MAXW, 1, 0]
    out = []
    for _ in range(count):
        lc = rng.choice([1, 1, 2, 3])
        j = rng.randrange(1, 34)
        top = rng.choice(tops) % B
        Lo = rng.choice([0, B ** lc - 1, B ** lc // 2, rng.getrandbits(64 * lc)])
        X = top * B ** lc + Lo
        R = rng.choice([0, D ** j - 1, rng.randrange(D ** j)])
        out.append(X * D ** j + R)
    return out


def f30_witnesses(rng, r, count):
    """finding F30: the state hi = floor(D / 2^s) with the remaining limbs >= frac(D / 2^s) * B^lc makes the next top
    limb reach 2^(64-s); the original test `top << s < D` wrapped. Reached after j ~ log(D)/log(B/D) rounds."""
    k, D, s, dl, L = params(r)
    if s == 0 or D % (1 << s) == 0:
        return []
    hs = D >> s
    frac = D % (1 << s)
    out = []
    for _ in range(count):
        lc = rng.choice([1, 1, 2])
        lo = (B ** lc * frac + (1 << s) - 1) >> s
        Lo = rng.choice([lo, lo + 1, B ** lc - 1, lo + rng.randrange(B ** lc - lo)])
        j = rng.randrange(8, 34)
        R = rng.choice([0, D ** j - 1, rng.randrange(D ** j)])
        out.append((hs * B ** lc + Lo) * D ** j + R)
    return out


def format_values(rng, r, n):
    k, D, s, dl, L = params(r)
    M = 1 << (64 * n)
    vs = [0, 1, r, M - 1, M - 2, M // 2, D - 1, D, D + 1]
    p, j = 1, 0
    while p < M:
        if j % k in (0, 1, k - 1) or j % dl in (0, 1, dl - 1) or p * r >= M:
            vs += [p, p - 1]
        p *= r; j += 1
    for i in range(1, n + 1):
        vs += [(1 << (64 * i)) - 1, (1 << (64 * i)) % M, ((1 << (64 * i)) + 1) % M]
    e = 1
    while D ** e < M:
        vs += [D ** e - 1, D ** e, D ** e + 1]; e += max(1, n // 6)
    if L < M:
        q = M // L
        vs += [L - 1, L, L + 1, (q - 1) * L + L - 1 if q > 1 else L, q * L - 1, q * L, min(M - 1, q * L + 1),
               rng.randrange(q) * L + rng.choice([0, 1, L - 1]), L * L % M if L * L < M else L]
    return [v % M for v in vs]


def gen(tier, rng):
    """quick: every radix gets all value / string classes on a rotating subset of the widths (all widths are
    covered over the 35 radixes, 1-2 limbs and the threshold widths 32/33 for every radix); thorough: all widths
    for every radix, more samples."""
    quick = tier == 'quick'
    scale = 1 if quick else 5
    cs = []; add = cs.append
    PRECS = [0, 1, 10, 63, 64, 65, 127, 128, 129, 64 * 31 + 63, 64 * 32, 64 * 33 + 1]
    for r in list(range(2, 37)):
        k, D, s, dl, L = params(r)
        R = [r]
        rot = r - 2
        # ---------------- format + roundtrip
        uint_ns = UINT_NS if not quick else sorted(set([1, 2, 32, 33, UINT_NS[rot % 9], UINT_NS[(rot + 4) % 9]]))
        for n in uint_ns:
            vals = format_values(rng, r, n)
            if n >= 4:
                vals = rng.sample(vals, min(len(vals), 14 * scale)) + [0, (1 << (64 * n)) - 1]
            vals += [value(rng, n) for _ in range(3 * scale)]
            vals += [v for v in hi_boundary(rng, r, 6 * scale) + f30_witnesses(rng, r, 6 * scale) if v < (1 << (64 * n))]
            for i, v in enumerate(vals):
                A = to_limbs(v, n)
                add(Case('uint.to_string_radix', [A, R], mop='uint.to_string_radix', dbg=(i % 3 == 0)))
                if i % 4 == 0:
                    add(Case('uint.radix_roundtrip', [A, R], mop='uint.radix_roundtrip', dbg=(i % 8 == 0)))
                if i % 11 == 0:
                    add(Case('uint.radix_roundtrip.num', [A, R], mop='uint.radix_roundtrip'))
        if quick:
            ns = sorted(set([1, 32, 33, 65] + [BOXED_FIXED[(rot + 5 * i) % len(BOXED_FIXED)] for i in range(3)])) + \
                 [rng.randrange(1, 141) for _ in range(2)]
        else:
            ns = BOXED_FIXED + [rng.randrange(1, 141) for _ in range(12)]
        for n in ns:
            vals = format_values(rng, r, n)
            vals = rng.sample(vals, min(len(vals), (8 if n > 40 else 12) * scale)) + [0, 1, (1 << (64 * n)) - 1]
            vals += [value(rng, n) for _ in range(2)]
            # values far narrower than the precision (many zero high limbs)
            vals += [value(rng, rng.randrange(1, n + 1)) for _ in range(2)]
            hb = hi_boundary(rng, r, 5 * scale) + f30_witnesses(rng, r, 5 * scale)
            vals += [v for v in hb if v < (1 << (64 * n))]
            if n > 32:
                # the witness inside the 32-limb remainder of the large-divisor loop
                for w in hb:
                    if w < L:
                        q = rng.randrange(1, max(2, (1 << (64 * n)) // L))
                        if q * L + w < (1 << (64 * n)):
                            vals.append(q * L + w)
            for i, v in enumerate(vals):
                A = to_limbs(v, n)
                add(Case('boxed.to_string_radix', [A, R], mop='boxed.to_string_radix', dbg=(i % 3 == 0)))
                if i % 5 == 0:
                    add(Case('boxed.radix_roundtrip', [A, R], mop='boxed.radix_roundtrip', dbg=(i % 10 == 0)))
        # ---------------- parse
        if quick:
            targets = [('u', 1 + rot % 2), ('u', UINT_NS[2 + rot % 7]), ('u', UINT_NS[2 + (rot + 3) % 7]), ('b', None)] + \
                      [('p', PRECS[(rot + 4 * i) % len(PRECS)]) for i in range(3)]
        else:
            targets = [('u', n) for n in UINT_NS] + [('b', None)] + [('p', p) for p in PRECS + [rng.randrange(1, 64 * 40)]]
        for kind, t in targets:
            nbits = 64 * t if kind == 'u' else (t if kind == 'p' else rng.choice([64, 128, 192, 64 * 33]))
            cap_bits = nbits if kind != 'p' else 64 * max(1, (nbits + 63) // 64)
            vals = parse_values(rng, r, nbits)
            keep = [0, 1, (1 << nbits) - 1, 1 << nbits, (1 << nbits) + 1]
            if kind == 'p':
                keep += [(1 << cap_bits) - 1, 1 << cap_bits]
            big = nbits > 64 * 8
            vals = keep + rng.sample(vals, min(len(vals), (8 if big else 14) * scale))
            strs = []
            for i, v in enumerate(vals):
                digs = numeral(r, v)
                ds = decorate(rng, r, digs, k)
                if i >= 5 or (big and i not in (2, 3)):
                    ds = [ds[0]] + rng.sample(ds[1:], 1 if big else 2)
                strs += ds
            # non-numerals around a short and an overflowing digit string
            short = numeral(r, rng.choice(vals[:8] + [D, D * r + 1]))
            nn = non_numerals(rng, r, short, k)
            strs += nn[:18] + rng.sample(nn[18:], min(len(nn) - 18, (12 if big else 30) * scale))
            over = numeral(r, (1 << cap_bits) * D * D + rng.randrange(D))
            nn2 = non_numerals(rng, r, over, k)
            strs += rng.sample(nn2, min(len(nn2), (6 if big else 12) * scale))
            # zero numerals
            strs += [[0x30], [0x30, 0x30], [0x2b, 0x30], [0x30, 0x5f, 0x30], [0x30] * 130]
            # digit counts around the batch size and the capacity
            dmax = DIG[r - 1]
            nd_cap = len(numeral(r, (1 << nbits) - 1)) if nbits else 1
            for nd in sorted(set([1, k - 1, k, k + 1, 2 * k, 2 * k + 1, nd_cap - 1, nd_cap, nd_cap + 1, nd_cap + k])):
                if nd >= 1 and (not big or rng.random() < 0.5):
                    strs += [[dmax] * nd, [DIG[1]] + [0x30] * (nd - 1)]
            for i, sx in enumerate(strs):
                dbg = (i % 3 == 0)
                if kind == 'u':
                    add(Case('uint.from_str_radix', [sx, R, [t]], mop='uint.from_str_radix', dbg=dbg))
                    if i % 5 == 0:
                        add(Case('uint.from_str_radix.num', [sx, R, [t]], mop='uint.from_str_radix'))
                elif kind == 'b':
                    add(Case('boxed.from_str_radix', [sx, R], mop='boxed.from_str_radix', dbg=dbg))
                else:
                    add(Case('boxed.from_str_radix_prec', [sx, R, [t]], mop='boxed.from_str_radix_prec', dbg=dbg))
    # ---------------- 63 + 32k limbs: after the first large-divisor pass the quotient has exactly 32 limbs, a second
    # pass follows and `out_idx.saturating_sub(digits_large)` saturates for some radixes (C11 keeps these cases)
    for r in range(2, 37):
        for n in (63, 95, 127):
            for A in ([MAXW] * n, [0xF0F0F0F0F0F0F0F0] * n):
                add(Case('boxed.to_string_radix', [A, [r]], mop='boxed.to_string_radix', tags=('c11:keep',), dbg=True))
    for r in (3, 6, 7, 12, 14, 20, 24, 31):
        for A in ([MAXW] * 63, [0xF0F0F0F0F0F0F0F0] * 63):
            add(Case('uint.to_string_radix', [A, [r]], mop='uint.to_string_radix', tags=('c11:keep',), dbg=True))
    # ---------------- unsupported radixes: documented panic (before any look at the string)
    for r in [0, 1, 37, 38, 64, 255, 256, 258, (1 << 32) - 1, (1 << 32) - 254]:
        for sx in ([0x31], [], [0x5f], [0x31, 0x30]):
            add(Case('uint.from_str_radix', [sx, [r], [2]], mop='uint.from_str_radix', dbg=True))
            add(Case('uint.from_str_radix.num', [sx, [r], [1]], mop='uint.from_str_radix'))
            add(Case('boxed.from_str_radix', [sx, [r]], mop='boxed.from_str_radix', dbg=True))
            add(Case('boxed.from_str_radix_prec', [sx, [r], [64]], mop='boxed.from_str_radix_prec', dbg=True))
        for A in ([0], [5, 7], [MAXW] * 33):
            add(Case('uint.to_string_radix', [A, [r]], mop='uint.to_string_radix', dbg=True))
            add(Case('boxed.to_string_radix', [A, [r]], mop='boxed.to_string_radix', dbg=True))
    return cs
