"""Matchers for known_findings.json entries: each takes (case, impl, model, spec) and decides whether the
disagreement belongs to the *specific* recorded class (so other violations of the same property still alarm)."""


def f14_rem_uint_width(case, impl, model, spec):
    """F14: Int::div_rem_uint_vartime / rem_uint_vartime return the remainder as Int<RHS_LIMBS>; with a divisor
    type narrower than the dividend and a divisor >= 2^(64*RHS-1) the true remainder does not fit and is
    returned reinterpreted. Matches exactly: R < L and sign(n)*(|n| mod d) outside [-2^(64R-1), 2^(64R-1))."""
    if spec != 'err 1' or impl != model:
        return False
    n_l, d_l = case.args[0], case.args[1]
    L, R = len(n_l), len(d_l)
    if not R < L:
        return False
    n = sum(w << (64 * i) for i, w in enumerate(n_l))
    d = sum(w << (64 * i) for i, w in enumerate(d_l))
    if d == 0:
        return False
    if n >= 1 << (64 * L - 1):
        n -= 1 << (64 * L)
    r = abs(n) % d
    r = r if n >= 0 else -r
    return not (-(1 << (64 * R - 1)) <= r < (1 << (64 * R - 1)))


def f16_boxed_ct_select_precision(case, impl, model, spec):
    """F16: ConstantTimeSelect for BoxedUint (ct_select / ct_assign / ct_swap) on operands of different precision:
    release builds loop over the limbs of the first operand only (truncated operand, or for ct_swap a mixture of
    both operands, or an index panic when the second operand is shorter); debug builds hit a debug_assert.
    Matches exactly: the two boxed operands have different limb counts, the implementation behaves as the
    faithful model predicts (impl == model) and that differs from the documented result (spec)."""
    import re
    if not re.fullmatch(r'boxed\.(select(\.assign)?|swap)', case.rop):
        return False
    if len(case.args) != 3 or len(case.args[0]) == len(case.args[1]):
        return False
    return impl == model and impl != spec


def f6_monty_one_m1(case, impl, model, spec):
    """F6: with the modulus 1 every parameter constructor (MontyParams::new / new_vartime, impl_modulus!, BoxedMontyParams::new /
    new_vartime and the from_const_params copies) stores one = 1 instead of R mod 1 = 0, so `one()` / `ONE` and every value computed
    from it may be stored as 1 (not < m); BoxedMontyForm::retrieve of such a value returns 1 and as_montgomery() hits its
    debug_assert.  Matches exactly: modulus == 1, the faithful model of the repaired code agrees with the spec, and the
    implementation differs from the spec only (params) in the field `one` = 1, or (histories) at steps whose result derives from a
    `One` step, by showing the limb list 1 instead of 0 (or by the debug_assert panic of the boxed form)."""
    if model != spec or impl == spec:
        return False
    m = case.args[0]
    if not (m and m[0] == 1 and all(w == 0 for w in m[1:])):
        return False
    n = len(m)

    def parse(o):
        if not o.startswith('ok '):
            return None
        return [[int(w, 16) for w in a.split(',')] if a != '-' else [] for a in o[3:].split(';')]
    sp = parse(spec)
    if sp is None:
        return False
    one = [1] + [0] * (n - 1)
    if 'params' in case.rop:
        im = parse(impl)
        return im is not None and len(im) == 5 and len(sp) == 5 and im[0] == one and sp[0] == [0] * n and im[1:] == sp[1:]
    if 'history' not in case.rop or len(case.args) < 3:
        return False
    ops = case.args[2]
    uses_j = {3, 4, 7, 10, 11, 13, 14}
    tainted, res = [], []
    for t in range(0, len(ops) - 3, 4):
        code, i, j, v = ops[t:t + 4]
        ti = tainted[i] if i < len(tainted) else False
        tj = tainted[j] if j < len(tainted) else False
        if code == 2: r = True
        elif code in (0, 1): r = False
        elif code in uses_j: r = ti or tj
        else: r = ti
        res.append(r)
        if 11 <= code <= 15:
            if i < len(tainted): tainted[i] = r
        elif code != 17:
            tainted.append(r)
    if impl == 'panic':
        return 'boxed_history' in case.rop and any(res)
    im = parse(impl)
    if im is None or len(im) != len(sp) or len(sp) != 2 * len(res):
        return False
    for s, tnt in enumerate(res):
        for q in (0, 1):
            if im[2 * s + q] != sp[2 * s + q] and not (tnt and im[2 * s + q] == one):
                return False
    return True
