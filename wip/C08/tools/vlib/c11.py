"""C11: totality. Every operation of every other property is run in BOTH build profiles (release, and
debug-assertions + overflow-checks) under catch_unwind and a watchdog, and the outcome class (value / none / err /
panic / timeout) is compared with the model of that profile and with the documentation-derived specification
(spec = PanicV exactly where the documentation says the call panics).

What the generator covers, against the quantifier of the property:

* "forall public operations exercised by C02-C10 and C13-C20; forall inputs of their domain; both profiles":
  the generators of the owning properties are re-run (every owner that exists in the tree, see OWNERS) and a
  sample of every owner's cases is kept, every kept case with dbg=True (= run in release AND verifdbg).

* "for option/result-returning operations, forall argument values whatsoever at admissible widths/precisions:
  zero moduli, zero divisors, oversized shifts, empty/oversized/garbage encodings, the numeral 0":
  the owning generators already contain these streams --
    zero divisors            c02 (uint/boxed checked_div, checked_rem, every route), c14 (sdiv.checked_div*, zero of every width)
    zero moduli              c07 (uint.mul_mod_trait with an all-zero modulus; special-modulus c = 0 is outside the domain)
    oversized shifts         c05 (shift = BITS-1, BITS, BITS+1, 2*BITS, 2^31, u32::MAX; usize shifts beyond u32 for the operators)
    empty/oversized/garbage  c16 (serde_de truncated / oversized / wrong length field; from_*_slice and from_*_hex of every wrong
                             size, non-hex characters next to each accepted range; boxed.from_*_slice for every length around the
                             precision incl. the empty slice and precision 0; boxed.from_be_hex wrong sizes / garbage)
    RNG / random_bits errors c19 (empty and short streams in try_ and panicking mode, precision mismatch, bit_length > precision)
    the numeral 0, radix / DER / RLP garbage: owners c17 / c18, picked up by the same rule when those files exist
  -- but a uniform sample would thin them out.  Therefore every owner case that (a) calls a failure-reporting form
  (TOTAL_RE: checked / overflowing / saturating / wrapping / carrying, CtOption constructors, decoders, inversion,
  random) and (b) is in a malformed class (`malformed`: an empty argument, an all-zero divisor / modulus / value, a
  scalar >= BITS of the first operand for a shift, any decoder / random call) is kept UNCONDITIONALLY (up to CAP per
  owner, sampled beyond), before the remaining budget is filled with the other cases.
  An owner can also force cases into the C11 run by giving them a tag that starts with 'c11' (e.g. tags=('c11:keep',)):
  use it for inputs whose only effect is a trap in ONE profile (an overflow-checked shift or subtraction on a rare
  configuration: a modulus much shorter than the width, an unusual limb count).
  `dedicated` adds the classes no owner has: serde payloads shorter than the length field (empty, 1..7 bytes), decoders
  on the empty byte string at every width, checked division by zero at every route with the extreme dividends, the
  shift amounts around BITS and u32::MAX through every option-returning shift form at every width (fixed and boxed).
"""
import importlib, os, random, re
from .common import Case

OWNERS = ['c02', 'c03', 'c04', 'c05', 'c06', 'c07', 'c08', 'c09', 'c10', 'c12', 'c13', 'c14', 'c16', 'c17', 'c18', 'c19', 'c20']
COQCHK = False
MAXW = (1 << 64) - 1
U32MAX = (1 << 32) - 1

# failure-reporting forms: they must not panic whatever the argument values
TOTAL_RE = re.compile(r'(checked_|overflowing_|saturating_|wrapping_|carrying_|try_|\.adc|\.sbb|to_nz|to_odd|nz_new$|odd_new$|'
                      r'ctopt$|new_from_abs_sign$|from_\w*(slice|hex|der|rlp|str|radix|bytes)|decode|serde_de|inv|random)')
DECODER_RE = re.compile(r'(from_\w*(slice|hex|der|rlp|str|radix|bytes)|decode|serde_de|random)')
SHIFT_RE = re.compile(r'sh[lr]')

def is_total(c):
    return bool(TOTAL_RE.search(c.mop))

def malformed(c):
    """argument classes outside the 'nice' domain: empty, zero divisor / modulus, oversized shift, any decoder input"""
    if DECODER_RE.search(c.mop):
        return True
    a = c.args
    if any(len(x) == 0 for x in a):
        return True
    if any(all(w == 0 for w in x) for x in a[1:] if len(x) >= 1) or (len(a) == 1 and all(w == 0 for w in a[0])):
        return True
    if SHIFT_RE.search(c.mop) and len(a) >= 2 and len(a[-1]) == 1 and a[-1][0] >= 64 * max(1, len(a[0])) - 1:
        return True
    if any(len(x) == 1 and x[0] in (U32MAX, MAXW) for x in a[1:]):
        return True
    return False

def dedicated(rng, have, zero_ok, over_ok):
    """malformed inputs for the failure-reporting forms that no owning generator produces; only rust ops that an owner
    uses (so that the harness has a route) are emitted: `have` = set of rust-op names seen in the owners' cases,
    `zero_ok` = the routes an owner calls with an all-zero second operand (a route that takes a NonZero<..> cannot be
    called with zero), `over_ok` = the shift routes an owner calls with shift >= BITS"""
    cs = []
    def add(rop, args, mop):
        if rop in have:
            cs.append(Case(rop, args, mop=mop, dbg=True, tags=('c11:malformed',)))
    def val(n):
        return rng.choice([[MAXW] * n, [0] * n, [1] + [0] * (n - 1), [0] * (n - 1) + [1 << 63],
                           [rng.getrandbits(64) for _ in range(n)]])
    # serde: payloads shorter than the 8-byte length field, empty payload, length field only, garbage
    for n in (1, 2, 3, 4, 8):
        for bs in ([], [0], [8 * n], [0xff] * 7, [8 * n, 0, 0, 0, 0, 0, 0], list((8 * n).to_bytes(8, 'little')),
                   list((8 * n).to_bytes(8, 'little')) + [0xa5] * (8 * n - 1), [0xff] * (8 + 8 * n), [0] * (8 + 8 * n),
                   list((1 << 63).to_bytes(8, 'little')) + [1] * (8 * n)):
            add('uint.serde_de', [bs, n], 'uint.serde_de')
    # Result-returning boxed decoders: the empty slice and oversized input at every precision class
    for p in (0, 1, 7, 8, 63, 64, 65, 128, 129, 512):
        for bs in ([], [0], [0xff], [0] * ((p + 7) // 8 + 1), [0xff] * ((p + 7) // 8 + 9), [1] + [0] * ((p + 7) // 8)):
            add('boxed.from_be_slice', [bs, p], 'boxed.from_be_slice')
            add('boxed.from_le_slice', [bs, p], 'boxed.from_le_slice')
        for s in ([], [0x30], [0x67] * (16 * ((p + 63) // 64)), [0x30] * (16 * ((p + 63) // 64)), [0x7f] * 16, [0x20] * 16, [0] * 16):   # a &str is UTF-8: ASCII only
            add('boxed.from_be_hex', [s, p], 'boxed.from_be_hex')
    # checked division / remainder by zero, every route the owners use, extreme dividends
    zero_routes = sorted(r for r in zero_ok if re.search(r'(uint|boxed)\.checked_(div|rem)', r))
    for rop in zero_routes:
        mop = rop.split('.')[0] + '.' + rop.split('.')[1]
        for n in (1, 2, 3, 4, 6, 8):
            for x in ([MAXW] * n, [0] * n, val(n)):
                cs.append(Case(rop, [x, [0] * n], mop=mop, dbg=True, tags=('c11:malformed',)))
    for rop in sorted(r for r in zero_ok if re.search(r'sdiv\.checked_div', r)):
        mop = '.'.join(rop.split('.')[:2])
        for n in (1, 2, 4):
            for x in ([0] * (n - 1) + [1 << 63], [MAXW] * n, [0] * n):
                cs.append(Case(rop, [x, [0] * n], mop=mop, dbg=True, tags=('c11:malformed',)))
    # option-returning shifts around BITS and at the top of u32, every width
    for ty, mty in (('uint', 'uint'), ('int', 'int'), ('boxed', 'boxed')):
        for d in ('shl', 'shr'):
            for form in ('overflowing_%s', 'overflowing_%s_vartime', 'wrapping_%s', 'wrapping_%s_vartime', 'overflowing_%s_opt'):
                rop = '%s.%s' % (ty, form % d)
                cand = [r for r in over_ok if r == rop or r.startswith(rop + '.')]
                for r in cand:
                    m0 = '.'.join(r.split('.')[:2])
                    mop = m0 if not (ty == 'int' and d == 'shl') else 'uint.' + m0.split('.')[1]
                    for n in (1, 2, 3, 4, 8, 16):
                        for s in (64 * n - 1, 64 * n, 64 * n + 1, 2 * 64 * n, 1 << 31, U32MAX - 1, U32MAX):
                            cs.append(Case(r, [val(n), s], mop=mop, dbg=True, tags=('c11:malformed',)))
    return cs

CAP = {'quick': 4000, 'thorough': 40000}

def gen(tier, rng):
    cs = []
    frac = 0.10 if tier == 'quick' else 0.5
    have = {}
    zero_ok = set(); over_ok = set()
    for m in OWNERS:
        if not os.path.exists(os.path.join(os.path.dirname(__file__), m + '.py')):
            continue
        mod = importlib.import_module('vlib.' + m)
        sub = mod.gen('quick', random.Random(rng.getrandbits(32)))
        sub = [c for c in sub if len(c.argstr()) < 20000 and not any(t.startswith('known:') for t in c.tags)]
        for c in sub:
            have.setdefault(c.rop, c.mop)
            if len(c.args) == 2 and c.args[1] and all(w == 0 for w in c.args[1]) and len(c.args[1]) == len(c.args[0]):
                zero_ok.add(c.rop)
            if len(c.args) == 2 and len(c.args[1]) == 1 and c.args[0] and c.args[1][0] >= U32MAX - 1:
                over_ok.add(c.rop)
        def keep(c):
            return (is_total(c) and malformed(c)) or any(t.startswith('c11') for t in c.tags)
        must = [c for c in sub if keep(c)]
        rest = [c for c in sub if not keep(c)]
        rng.shuffle(must); rng.shuffle(rest)
        must = must[:CAP[tier]]
        odd = [c for c in rest if malformed(c)]
        plain = [c for c in rest if not malformed(c)]
        k = max(300, int(len(sub) * frac))
        pick = must + odd[:k // 2] + plain[:k - min(len(odd), k // 2)]
        # every route of the owner at least three times (first the malformed ones)
        seen = {}
        for c in pick:
            seen[c.rop] = seen.get(c.rop, 0) + 1
        for c in odd[k // 2:] + plain[k - min(len(odd), k // 2):]:
            if seen.get(c.rop, 0) < 3:
                seen[c.rop] = seen.get(c.rop, 0) + 1
                pick.append(c)
        for c in pick:
            c.dbg = True
        cs += pick
    # dedicated malformed stream; the model op of a route is the one its owner uses
    for c in dedicated(rng, set(have), zero_ok, over_ok):
        c.mop = have.get(c.rop, c.mop)
        cs.append(c)
    return cs
