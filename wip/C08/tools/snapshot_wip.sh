#!/bin/bash
# Saves the work in progress of builder sub-agents (/var/tmp/w_Cxx: source files that are new or differ from /verif)
# under /verif/wip/Cxx/ so that it survives a sandbox restore; wip/ is inert (not part of the Coq project or the harness).
cd /verif
for d in /var/tmp/w_C*; do
  [ -d "$d" ] || continue
  p=$(basename $d | sed 's/w_//')
  mkdir -p wip/$p
  (cd $d && git status --porcelain --untracked-files=all | grep -v '^ D' | awk '{print $2}' \
     | grep -E '^(coq/(Model|Proofs|Props|Extract)/[A-Za-z0-9_]+\.v|harness/src/.*\.rs|tools/[A-Za-z0-9_./-]+\.(py|json|diff|md|sh|txt)|ocaml/driver\.ml|known_findings\.json|check)$' \
     | grep -v 'coq/Model/Api.v\|harness/src/ops/mod.rs' ) > /tmp/wip_$p.lst
  rsync -a --max-size=2m --files-from=/tmp/wip_$p.lst $d/ wip/$p/ 2>/dev/null
done
git add -A wip >/dev/null 2>&1
git commit -qm "wip snapshot of builder sub-agents' copies" >/dev/null 2>&1
du -sh wip 2>/dev/null
