(** C08 — placeholder while the proofs are being written *)
From CB Require Import Model.Monty.
Theorem C08_placeholder : True. Proof. exact I. Qed.
Print Assumptions C08_placeholder.
