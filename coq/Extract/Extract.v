(** Extraction of the executable model to OCaml. Directives used: exactly those of Coq's own
    ExtrOcamlBasic, ExtrOcamlNativeString and ExtrOcamlZBigInt; none of our own. *)
From Coq Require Import Extraction ExtrOcamlBasic ExtrOcamlNativeString ExtrOcamlZBigInt.
From CB Require Import Model.Api.
Extraction Language OCaml.
Extraction "model.ml" run_model run_spec outcome_eqb.
