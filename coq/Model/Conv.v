(** C16: byte / hex / word / primitive conversions of Limb, Uint<N>, Int<N>, BoxedUint.
    L0 = models that follow the Rust loops (limb-wise (de)serialisation, the branch-free nibble
    decoder with its error accumulator, boxed decoding with length / precision checks, copy loops
    of concat / split / resize);  Spec = the positional formulas of the property on plain Z.
    Byte strings and hex strings are lists of byte values (one byte per list element). *)
From CB Require Export Model.Limbs.
Open Scope Z_scope.
Open Scope list_scope.

(* ------------------------------------------------------------------------------------------ *)
(** * Positional digit lists (little-endian) in an arbitrary base *)
Fixpoint digits (b : Z) (k : nat) (x : Z) : list Z :=
  match k with O => [] | S k' => x mod b :: digits b k' (x / b) end.
Fixpoint evalb (b : Z) (ds : list Z) : Z :=
  match ds with [] => 0 | d :: r => d + b * evalb b r end.

(** * Word primitives of core: u64::{to,from}_{le,be}_bytes *)
Definition word_to_le_bytes (x : Z) : list Z := digits 256 8 x.
Definition word_to_be_bytes (x : Z) : list Z := rev (digits 256 8 x).
Definition word_from_le_bytes (bs : list Z) : Z := evalb 256 bs.
Definition word_from_be_bytes (bs : list Z) : Z := evalb 256 (rev bs).

(** * src/uint/encoding.rs : uint_to_be_bytes / uint_to_le_bytes / write_be_bytes / write_le_bytes,
      src/uint/boxed/encoding.rs : to_be_bytes / to_le_bytes  (one 8-byte group per limb) *)
Definition uint_to_le_bytes (ls : list Z) : list Z := flat_map word_to_le_bytes ls.
Definition uint_to_be_bytes (ls : list Z) : list Z := flat_map word_to_be_bytes (rev ls).

(* [n] consecutive groups of [k] elements: bytes[i*k .. i*k+k] for i < n *)
Fixpoint chunks (k n : nat) (bs : list Z) : list (list Z) :=
  match n with O => [] | S n' => firstn k bs :: chunks k n' (skipn k bs) end.

(* from_be_slice / from_le_slice : [None] = the size assertion fails (panic) *)
Definition uint_from_le_slice (n : nat) (bs : list Z) : option (list Z) :=
  if Nat.eqb (length bs) (8 * n) then Some (map word_from_le_bytes (chunks 8 n bs)) else None.
Definition uint_from_be_slice (n : nat) (bs : list Z) : option (list Z) :=
  if Nat.eqb (length bs) (8 * n) then Some (rev (map word_from_be_bytes (chunks 8 n bs))) else None.

(** * Hex decoding: src/uint/encoding.rs:263-291 *)
(* decode_nibble: i16 arithmetic; [&] and the arithmetic [>> 8] act on two's complement, which is
   what Z.land / Z.shiftr do on (possibly negative) Z; the final [as u16] is [mod 2^16].
   (Proofs/ConvP.v shows that no intermediate value leaves the i16 range.) *)
Definition nib_term (lo hi off byte : Z) : Z :=
  Z.land (Z.shiftr (Z.land (lo - byte) (byte - hi)) 8) (byte - off).
Definition decode_nibble_i16 (src : Z) : Z :=
  let byte := src in
  let ret := -1 in
  let ret := ret + nib_term 47 58 47 byte in     (* 0x2f, 0x3a : '0'..'9' *)
  let ret := ret + nib_term 64 71 54 byte in     (* 0x40, 0x47 : 'A'..'F' *)
  let ret := ret + nib_term 96 103 86 byte in    (* 0x60, 0x67 : 'a'..'f' *)
  ret.
Definition decode_nibble (src : Z) : Z := decode_nibble_i16 src mod 65536.
(* decode_hex_byte: (result, err) ; u16 arithmetic *)
Definition decode_hex_byte (c0 c1 : Z) : Z * Z :=
  let hi := decode_nibble c0 in
  let lo := decode_nibble c1 in
  let byte := Z.lor ((hi * 16) mod 65536) lo in
  (byte mod 256, byte / 256).
(* all character pairs in order, [err |= byte_err] *)
Fixpoint decode_hex_pairs (cs : list Z) (err : Z) : list Z * Z :=
  match cs with
  | c0 :: c1 :: r =>
      let '(b, e) := decode_hex_byte c0 c1 in
      let '(bs, e') := decode_hex_pairs r (Z.lor err e) in (b :: bs, e')
  | _ => ([], err)
  end.

Inductive hexres :=
| HexOk (r : list Z)
| HexInvalid            (* err != 0 *)
| HexLen.               (* length assertion fails *)

Definition uint_from_be_hex (n : nat) (cs : list Z) : hexres :=
  if Nat.eqb (length cs) (16 * n) then
    let '(bs, err) := decode_hex_pairs cs 0 in
    if err =? 0 then HexOk (rev (map word_from_be_bytes (chunks 8 n bs))) else HexInvalid
  else HexLen.
Definition uint_from_le_hex (n : nat) (cs : list Z) : hexres :=
  if Nat.eqb (length cs) (16 * n) then
    let '(bs, err) := decode_hex_pairs cs 0 in
    if err =? 0 then HexOk (map word_from_le_bytes (chunks 8 n bs)) else HexInvalid
  else HexLen.

(** * Formatting: src/uint.rs:296-349, src/limb.rs, src/uint/boxed.rs *)
Definition hexchar (upper : bool) (d : Z) : Z :=
  if d <? 10 then 48 + d else (if upper then 55 else 87) + d.
(* core's {:016x} / {:016X} / {:064b} of a u64 *)
Definition word_fmt_hex (upper : bool) (x : Z) : list Z := map (hexchar upper) (rev (digits 16 16 x)).
Definition word_fmt_bin (x : Z) : list Z := map (fun d => 48 + d) (rev (digits 2 64 x)).
Definition uint_fmt_hex (upper : bool) (ls : list Z) : list Z := flat_map (word_fmt_hex upper) (rev ls).
Definition uint_fmt_bin (ls : list Z) : list Z := flat_map word_fmt_bin (rev ls).
Definition s_0x : list Z := [48; 120].
Definition s_0b : list Z := [48; 98].
(* kind: 0 Display {} | 1 {:x} | 2 {:X} | 3 {:b} | 4 {:#x} | 5 {:#X} | 6 {:#b} | 7 {:?} *)
Definition fmt_kind (dbg_name : list Z) (kind : Z) (ls : list Z) : list Z :=
  if kind =? 0 then uint_fmt_hex true ls
  else if kind =? 1 then uint_fmt_hex false ls
  else if kind =? 2 then uint_fmt_hex true ls
  else if kind =? 3 then uint_fmt_bin ls
  else if kind =? 4 then s_0x ++ uint_fmt_hex false ls
  else if kind =? 5 then s_0x ++ uint_fmt_hex true ls
  else if kind =? 6 then s_0b ++ uint_fmt_bin ls
  else dbg_name ++ [40] ++ s_0x ++ uint_fmt_hex true ls ++ [41].
Definition s_Uint : list Z := [85; 105; 110; 116].
Definition s_Int : list Z := [73; 110; 116].
Definition s_Limb : list Z := [76; 105; 109; 98].
Definition s_BoxedUint : list Z := [66; 111; 120; 101; 100; 85; 105; 110; 116].
(* BoxedUint with no limbs formats Limb::ZERO *)
Definition boxed_fmt (kind : Z) (ls : list Z) : list Z :=
  fmt_kind s_BoxedUint kind (match ls with [] => [0] | _ => ls end).

(** * Primitive conversions: src/uint/from.rs, src/limb/from.rs, src/int/from.rs, src/uint/boxed/from.rs *)
(* from_u8 / from_u16 / from_u32 / from_u64 / from_word : assert LIMBS >= 1 *)
Definition uint_from_small (n : nat) (v : Z) : option (list Z) :=
  match n with O => None | S n' => Some (v :: zeros n') end.
(* from_u128 : assert LIMBS >= 2 ; lo = n & 0xffff_ffff_ffff_ffff, hi = n >> 64 *)
Definition uint_from_u128 (n : nat) (v : Z) : option (list Z) :=
  if Nat.ltb n 2 then None else Some (Z.land v MAXW :: v / B :: zeros (n - 2)).
(* from_wide_word : limbs[0] = n as Word ; limbs[1] = (n >> 64) as Word *)
Definition uint_from_wide_word (n : nat) (v : Z) : option (list Z) :=
  if Nat.ltb n 2 then None else Some (v mod B :: (v / B) mod B :: zeros (n - 2)).
(* From<U64> for u64 ; From<U128> for u128 (res = (res << 64) | limb) : result as [lo; hi] *)
Definition u128_of_limbs (ls : list Z) : Z :=
  let res := nthz ls 1 in Z.lor ((res * B) mod BB) (nthz ls 0).

(* Int: is_negative = from_word_msb(most significant word) *)
Definition int_is_negative (a : list Z) : Z := from_word_msb (last a 0).
(* loop  while i < top { dst[i] = f i }  over an array of length o pre-filled with [fill] *)
Definition tabulate_fill (o top : nat) (f : nat -> Z) (fill : Z) : list Z :=
  map f (seq 0 top) ++ repeat fill (o - top).
(* src/uint/resize.rs *)
Definition uint_resize (a : list Z) (t : nat) : list Z :=
  tabulate_fill t (Nat.min t (length a)) (nthz a) 0.
(* src/int/resize.rs : fill = Limb::select(ZERO, MAX, is_negative) *)
Definition int_resize (a : list Z) (t : nat) : list Z :=
  tabulate_fill t (Nat.min t (length a)) (nthz a) (select_word (int_is_negative a) 0 MAXW).
(* [iK as Word] for the raw K-bit pattern v *)
Definition sext_word (k v : Z) : Z := (if v <? 2 ^ (k - 1) then v else v - 2 ^ k) mod B.
(* from_i8 / i16 / i32 / i64 : assert LIMBS >= 1 ; Uint::new([Limb(n as Word)]).as_int().resize() *)
Definition int_from_small (k : Z) (n : nat) (v : Z) : option (list Z) :=
  match n with O => None | S _ => Some (int_resize [sext_word k v] n) end.
(* from_i128 : assert LIMBS >= 2 ; Uint::<2>::from_u128(n as u128).as_int().resize() *)
Definition int_from_i128 (n : nat) (v : Z) : option (list Z) :=
  if Nat.ltb n 2 then None else Some (int_resize [Z.land v MAXW; v / B] n).

(** * concat / split: src/uint/concat.rs, src/uint/split.rs *)
Definition uint_concat_mixed (lo hi : list Z) (o : nat) : list Z :=
  let l := length lo in
  tabulate_fill o (Nat.min (l + length hi) o)
    (fun i => if Nat.ltb i l then nthz lo i else nthz hi (i - l)) 0.
Definition uint_split_mixed (a : list Z) (l h : nat) : list Z * list Z :=
  let top := Nat.min (l + h) (length a) in
  (tabulate_fill l (Nat.min top l) (nthz a) 0,
   tabulate_fill h (top - l) (fun j => nthz a (j + l)) 0).

(** * BoxedUint: src/uint/boxed.rs, src/uint/boxed/from.rs, src/uint/boxed/encoding.rs *)
(* u32::div_ceil(Limb::BITS) *)
Definition limbs_for_precision (p : Z) : nat :=
  Z.to_nat (let d := p / 64 in if 0 <? p mod 64 then d + 1 else d).
(* BoxedUint::from_be_hex: nlimbs = bits_precision.div_ceil(Limb::BITS); the limbs go into the value as
   they are (no From<Vec<Limb>> fix-up: precision 0 gives a value without limbs) *)
Definition boxed_from_be_hex (p : Z) (cs : list Z) : hexres := uint_from_be_hex (limbs_for_precision p) cs.
(* From<Vec<Limb>>: an empty vector becomes one zero limb *)
Definition vec_into_boxed (ls : list Z) : list Z := match ls with [] => [0] | _ => ls end.
Definition zero_with_precision (p : Z) : list Z := vec_into_boxed (zeros (limbs_for_precision p)).
(* widen: assert p >= bits_precision ; ret.limbs[..nlimbs].copy_from_slice(limbs) *)
Definition boxed_widen (a : list Z) (p : Z) : option (list Z) :=
  if p <? 64 * lenZ a then None else
  let ret := zero_with_precision p in
  if Nat.ltb (length ret) (length a) then None else Some (a ++ skipn (length a) ret).
(* shorten: assert p <= bits_precision ; ret.limbs.copy_from_slice(&limbs[..nlimbs]) *)
Definition boxed_shorten (a : list Z) (p : Z) : option (list Z) :=
  if 64 * lenZ a <? p then None else
  let nl := length (zero_with_precision p) in
  if Nat.ltb (length a) nl then None else Some (firstn nl a).

(* src/uint/bits.rs leading_zeros: scan from the most significant limb *)
Definition word_lz (x : Z) : Z := if x =? 0 then 64 else 63 - Z.log2 x.
Fixpoint lz_scan (ms : list Z) (not_seen : bool) (count : Z) : Z :=
  match ms with
  | [] => count
  | l :: r => lz_scan r (not_seen && (l =? 0)) (if not_seen then count + word_lz l else count)
  end.
Definition leading_zeros (ls : list Z) : Z := lz_scan (rev ls) true 0.
Definition boxed_bits (ls : list Z) : Z := 64 * lenZ ls - leading_zeros ls.

(* all groups of k elements, the last one possibly shorter: slice::chunks(k) *)
Fixpoint chunks_all (fuel k : nat) (bs : list Z) : list (list Z) :=
  match fuel with
  | O => []
  | S f => match bs with [] => [] | _ => firstn k bs :: chunks_all f k (skipn k bs) end
  end.
(* slice::rchunks(k): groups taken from the end, each in the original order *)
Definition rchunks (k : nat) (bs : list Z) : list (list Z) :=
  map (@rev Z) (chunks_all (length bs) k (rev bs)).
(* src/limb/encoding.rs: Limb::from_be_slice / from_le_slice (zero padded) ; None = panic *)
Definition limb_from_be_slice (c : list Z) : Z := word_from_be_bytes (zeros (8 - length c) ++ c).
Definition limb_from_le_slice (c : list Z) : Z := word_from_le_bytes (c ++ zeros (8 - length c)).
(* for (chunk, limb) in chunks.zip(ret.limbs.iter_mut()) { *limb = f(chunk) } *)
Definition zip_assign (ret vals : list Z) : list Z :=
  firstn (length ret) vals ++ skipn (length vals) ret.

Definition E_InputSize : Z := 2.
Definition E_Precision : Z := 3.
Definition boxed_from_slice (be : bool) (bs : list Z) (p : Z) : outcome :=
  if Nat.eqb (length bs) 0 && (p =? 0) then Val [[0]]
  else if (let d := p / 8 in if 0 <? p mod 8 then d + 1 else d) <? Z.of_nat (length bs) then ErrV E_InputSize
  else
    let ret := zero_with_precision p in
    let vals := if be then map limb_from_be_slice (rchunks 8 bs)
                else map limb_from_le_slice (chunks_all (length bs) 8 bs) in
    let ret := zip_assign ret vals in
    if p <? boxed_bits ret then ErrV E_Precision else Val [ret].

(* serde (serdect + bincode, fixint): a Uint is the byte sequence of its little-endian encoding,
   framed by bincode as a u64 little-endian length followed by the bytes; the deserializer demands
   that the length field equals 8*LIMBS and that this many bytes follow (trailing bytes are ignored) *)
Definition uint_serde_ser (ls : list Z) : list Z :=
  let body := uint_to_le_bytes ls in digits 256 8 (Z.of_nat (length body)) ++ body.
Definition uint_serde_de (n : nat) (bs : list Z) : outcome :=
  if Nat.ltb (length bs) 8 then ErrV 0
  else
    let len := word_from_le_bytes (firstn 8 bs) in
    let rest := skipn 8 bs in
    if Z.of_nat (length rest) <? len then ErrV 0
    else if negb (len =? Z.of_nat (8 * n)) then ErrV 0
    else match uint_from_le_slice n (firstn (8 * n) rest) with Some r => Val [r] | None => PanicV end.

(* wrappers that decode through the fixed-width decoders *)
Definition is_zero_limbs (ls : list Z) : bool := forallb (fun x => x =? 0) ls.
Definition nonzero_new (o : option (list Z)) : outcome :=
  match o with None => PanicV | Some r => if is_zero_limbs r then NoneV else Val [r] end.
Definition odd_new (h : hexres) : outcome :=
  match h with HexOk r => if Z.odd (nthz r 0) then Val [r] else PanicV | _ => PanicV end.
(* NonZero::from_{be,le}_bytes / from_{be,le}_byte_array ; Odd::from_{be,le}_hex *)
Definition nonzero_from_be (n : nat) (bs : list Z) : outcome := nonzero_new (uint_from_be_slice n bs).
Definition nonzero_from_le (n : nat) (bs : list Z) : outcome := nonzero_new (uint_from_le_slice n bs).
Definition odd_from_be_hex (n : nat) (cs : list Z) : outcome := odd_new (uint_from_be_hex n cs).
Definition odd_from_le_hex (n : nat) (cs : list Z) : outcome := odd_new (uint_from_le_hex n cs).

(* ------------------------------------------------------------------------------------------ *)
(** * Specification: the positional formulas of the property, on plain integers *)
Definition sp_be_digits (b : Z) (m : nat) (x : Z) : list Z :=
  map (fun i => (x / b ^ (Z.of_nat m - 1 - Z.of_nat i)) mod b) (seq 0 m).
Definition sp_le_digits (b : Z) (m : nat) (x : Z) : list Z :=
  map (fun i => (x / b ^ Z.of_nat i) mod b) (seq 0 m).
(* value of a big-endian digit string *)
Definition horner (b : Z) (ds : list Z) : Z := fold_left (fun acc d => acc * b + d) ds 0.
Definition bytes_ok (bs : list Z) : bool := forallb (fun c => (0 <=? c) && (c <? 256)) bs.
Definition hexval (c : Z) : option Z :=
  if (48 <=? c) && (c <=? 57) then Some (c - 48)
  else if (65 <=? c) && (c <=? 70) then Some (c - 55)
  else if (97 <=? c) && (c <=? 102) then Some (c - 87)
  else None.
Fixpoint hexvals (cs : list Z) : option (list Z) :=
  match cs with
  | [] => Some []
  | c :: r => match hexval c, hexvals r with Some d, Some ds => Some (d :: ds) | _, _ => None end
  end.
(* pairs of nibbles (high first) to bytes *)
Fixpoint nib_pairs (ds : list Z) : list Z :=
  match ds with d0 :: d1 :: r => 16 * d0 + d1 :: nib_pairs r | _ => [] end.
Definition sp_hexchar (upper : bool) (d : Z) : Z :=
  if d <? 10 then 48 + d else if upper then 65 + (d - 10) else 97 + (d - 10).
Definition sp_signed (k v : Z) : Z := if v <? 2 ^ (k - 1) then v else v - 2 ^ k.
Definition sp_limbs_for (p : Z) : nat := if p =? 0 then 1%nat else Z.to_nat ((p + 63) / 64).

(* ------------------------------------------------------------------------------------------ *)
(** * Op tables *)
Open Scope string_scope. Open Scope Z_scope. Open Scope list_scope.

Definition cv_ev (i : nat) (a : list (list Z)) : Z := eval (arg i a).
Definition cv_ln (i : nat) (a : list (list Z)) : nat := length (arg i a).
Definition cv_nat (i : nat) (a : list (list Z)) : nat := Z.to_nat (sarg i a).
Definition vpanic (o : option (list Z)) : outcome := match o with Some r => Val [r] | None => PanicV end.
Definition hex_fixed (h : hexres) : outcome := match h with HexOk r => Val [r] | _ => PanicV end.
Definition hex_boxed (h : hexres) : outcome :=
  match h with HexOk r => Val [r] | HexInvalid => NoneV | HexLen => PanicV end.
(* a primitive argument: one limb, or two limbs [lo; hi] for 128-bit kinds *)
Definition prim_val (l : list Z) : Z := nthz l 0 + B * nthz l 1.

Definition m_uint_from_prim (kind : Z) (n : nat) (v : Z) : outcome :=
  if kind =? 128 then vpanic (uint_from_u128 n v)
  else if kind =? 129 then vpanic (uint_from_wide_word n v)
  else vpanic (uint_from_small n v).
Definition m_int_from_prim (kind : Z) (n : nat) (v : Z) : outcome :=
  if kind =? 128 then vpanic (int_from_i128 n v) else vpanic (int_from_small kind n v).
Definition m_uint_to_prim (kind : Z) (a : list Z) : outcome :=
  if kind =? 128 then let r := u128_of_limbs a in Val [[r mod B; r / B]] else Val [[nthz a 0]].

Definition ops_conv_model : list (string * opfn) := [
  ("limb.to_be_bytes", fun _ a => Val [word_to_be_bytes (sarg 0 a)]);
  ("limb.to_le_bytes", fun _ a => Val [word_to_le_bytes (sarg 0 a)]);
  ("limb.from_be_bytes", fun _ a => Val [[word_from_be_bytes (arg 0 a)]]);
  ("limb.from_le_bytes", fun _ a => Val [[word_from_le_bytes (arg 0 a)]]);
  ("limb.fmt", fun _ a => Val [fmt_kind s_Limb (sarg 1 a) [sarg 0 a]]);
  ("limb.from_prim", fun _ a => Val [[sarg 0 a]]);
  ("uint.to_be_bytes", fun _ a => Val [uint_to_be_bytes (arg 0 a)]);
  ("uint.to_le_bytes", fun _ a => Val [uint_to_le_bytes (arg 0 a)]);
  ("uint.from_be_slice", fun _ a => vpanic (uint_from_be_slice (cv_nat 1 a) (arg 0 a)));
  ("uint.from_le_slice", fun _ a => vpanic (uint_from_le_slice (cv_nat 1 a) (arg 0 a)));
  ("uint.from_be_hex", fun _ a => hex_fixed (uint_from_be_hex (cv_nat 1 a) (arg 0 a)));
  ("uint.from_le_hex", fun _ a => hex_fixed (uint_from_le_hex (cv_nat 1 a) (arg 0 a)));
  ("uint.fmt", fun _ a => Val [fmt_kind s_Uint (sarg 1 a) (arg 0 a)]);
  ("int.fmt", fun _ a => Val [fmt_kind s_Int (sarg 1 a) (arg 0 a)]);
  ("boxed.fmt", fun _ a => Val [boxed_fmt (sarg 1 a) (arg 0 a)]);
  ("uint.words_id", fun _ a => Val [arg 0 a]);
  ("boxed.from_vec", fun _ a => Val [vec_into_boxed (arg 0 a)]);
  ("uint.from_prim", fun _ a => m_uint_from_prim (sarg 1 a) (cv_nat 2 a) (prim_val (arg 0 a)));
  ("uint.to_prim", fun _ a => m_uint_to_prim (sarg 1 a) (arg 0 a));
  ("int.from_prim", fun _ a => m_int_from_prim (sarg 1 a) (cv_nat 2 a) (prim_val (arg 0 a)));
  ("boxed.from_prim", fun _ a =>
     if sarg 1 a =? 128 then vpanic (uint_from_u128 2 (prim_val (arg 0 a))) else Val [[sarg 0 a]]);
  ("uint.concat", fun _ a => Val [uint_concat_mixed (arg 0 a) (arg 1 a) (cv_ln 0 a + cv_ln 1 a)]);
  ("uint.split", fun _ a =>
     let l := cv_nat 1 a in let '(lo, hi) := uint_split_mixed (arg 0 a) l (cv_ln 0 a - l) in Val [lo; hi]);
  ("uint.resize", fun _ a => Val [uint_resize (arg 0 a) (cv_nat 1 a)]);
  ("int.resize", fun _ a => Val [int_resize (arg 0 a) (cv_nat 1 a)]);
  ("boxed.widen", fun _ a => vpanic (boxed_widen (arg 0 a) (sarg 1 a)));
  ("boxed.shorten", fun _ a => vpanic (boxed_shorten (arg 0 a) (sarg 1 a)));
  ("boxed.from_be_slice", fun _ a => boxed_from_slice true (arg 0 a) (sarg 1 a));
  ("boxed.from_le_slice", fun _ a => boxed_from_slice false (arg 0 a) (sarg 1 a));
  ("boxed.from_be_hex", fun _ a => hex_boxed (boxed_from_be_hex (sarg 1 a) (arg 0 a)));
  ("uint.serde_ser", fun _ a => Val [uint_serde_ser (arg 0 a)]);
  ("uint.serde_de", fun _ a => uint_serde_de (cv_nat 1 a) (arg 0 a));
  ("nonzero.from_be_bytes", fun _ a => nonzero_from_be (cv_nat 1 a) (arg 0 a));
  ("nonzero.from_le_bytes", fun _ a => nonzero_from_le (cv_nat 1 a) (arg 0 a));
  ("nonzero.from_le_byte_array", fun _ a => nonzero_from_le (cv_nat 1 a) (arg 0 a));
  ("odd.from_be_hex", fun _ a => odd_from_be_hex (cv_nat 1 a) (arg 0 a));
  ("odd.from_le_hex", fun _ a => odd_from_le_hex (cv_nat 1 a) (arg 0 a))
].

(* ---- spec table ---- *)
Definition sp_bytes_arg (bs : list Z) (k : outcome) : outcome := if bytes_ok bs then k else Unsupported.
(* value of a well-formed hex string of exactly m characters, big-endian / little-endian bytes *)
Definition sp_hex_value (le : bool) (m : nat) (cs : list Z) : option Z :=
  if Nat.eqb (length cs) m then
    match hexvals cs with
    | Some ds => Some (if le then horner 256 (rev (nib_pairs ds)) else horner 16 ds)
    | None => None
    end
  else None.
Definition sp_hex_fixed (le : bool) (n : nat) (cs : list Z) : outcome :=
  sp_bytes_arg cs (match sp_hex_value le (16 * n) cs with Some v => Val [to_limbs n v] | None => PanicV end).
Definition sp_fmt_digits (b : Z) (upper : bool) (m : nat) (x : Z) : list Z :=
  map (sp_hexchar upper) (sp_be_digits b m x).
Definition sp_fmt (dbg_name : list Z) (kind : Z) (n : nat) (x : Z) : list Z :=
  let hx u := sp_fmt_digits 16 u (16 * n) x in
  let bn := sp_fmt_digits 2 false (64 * n) x in
  if kind =? 0 then hx true else if kind =? 1 then hx false else if kind =? 2 then hx true
  else if kind =? 3 then bn else if kind =? 4 then [48; 120] ++ hx false
  else if kind =? 5 then [48; 120] ++ hx true else if kind =? 6 then [48; 98] ++ bn
  else dbg_name ++ [40; 48; 120] ++ hx true ++ [41].
Definition sp_boxed_from_slice (be : bool) (bs : list Z) (p : Z) : outcome :=
  sp_bytes_arg bs (
    let v := horner 256 (if be then bs else rev bs) in
    if 8 * Z.of_nat (length bs) >? 8 * ((p + 7) / 8) then ErrV E_InputSize        (* longer than the precision, rounded up to bytes *)
    else if 2 ^ p <=? v then ErrV E_Precision
    else Val [to_limbs (sp_limbs_for p) v]).
Definition sp_prim_fits (kind v : Z) : bool :=
  (0 <=? v) && (v <? 2 ^ (if kind =? 129 then 128 else if kind =? 65 then 64 else if kind =? 1 then 64 else kind)).
Definition sp_nonzero (le : bool) (n : nat) (bs : list Z) : outcome :=
  sp_bytes_arg bs (
    if Nat.eqb (length bs) (8 * n) then
      let v := horner 256 (if le then rev bs else bs) in if v =? 0 then NoneV else Val [to_limbs n v]
    else PanicV).
Definition sp_odd (le : bool) (n : nat) (cs : list Z) : outcome :=
  sp_bytes_arg cs (match sp_hex_value le (16 * n) cs with
                   | Some v => if Z.odd v then Val [to_limbs n v] else PanicV | None => PanicV end).

Definition ops_conv_spec : list (string * opfn) := [
  ("limb.to_be_bytes", fun _ a => Val [sp_be_digits 256 8 (sarg 0 a)]);
  ("limb.to_le_bytes", fun _ a => Val [sp_le_digits 256 8 (sarg 0 a)]);
  ("limb.from_be_bytes", fun _ a =>
     sp_bytes_arg (arg 0 a) (if Nat.eqb (cv_ln 0 a) 8 then Val [[horner 256 (arg 0 a)]] else Unsupported));
  ("limb.from_le_bytes", fun _ a =>
     sp_bytes_arg (arg 0 a) (if Nat.eqb (cv_ln 0 a) 8 then Val [[horner 256 (rev (arg 0 a))]] else Unsupported));
  ("limb.fmt", fun _ a => Val [sp_fmt [76; 105; 109; 98] (sarg 1 a) 1 (sarg 0 a)]);
  ("limb.from_prim", fun _ a => if sp_prim_fits (sarg 1 a) (sarg 0 a) then Val [to_limbs 1 (sarg 0 a)] else Unsupported);
  ("uint.to_be_bytes", fun _ a => Val [sp_be_digits 256 (8 * cv_ln 0 a) (cv_ev 0 a)]);
  ("uint.to_le_bytes", fun _ a => Val [sp_le_digits 256 (8 * cv_ln 0 a) (cv_ev 0 a)]);
  ("uint.from_be_slice", fun _ a =>
     sp_bytes_arg (arg 0 a) (if Nat.eqb (cv_ln 0 a) (8 * cv_nat 1 a)
                             then Val [to_limbs (cv_nat 1 a) (horner 256 (arg 0 a))] else PanicV));
  ("uint.from_le_slice", fun _ a =>
     sp_bytes_arg (arg 0 a) (if Nat.eqb (cv_ln 0 a) (8 * cv_nat 1 a)
                             then Val [to_limbs (cv_nat 1 a) (horner 256 (rev (arg 0 a)))] else PanicV));
  ("uint.from_be_hex", fun _ a => sp_hex_fixed false (cv_nat 1 a) (arg 0 a));
  ("uint.from_le_hex", fun _ a => sp_hex_fixed true (cv_nat 1 a) (arg 0 a));
  ("uint.fmt", fun _ a => Val [sp_fmt [85; 105; 110; 116] (sarg 1 a) (cv_ln 0 a) (cv_ev 0 a)]);
  ("int.fmt", fun _ a => Val [sp_fmt [73; 110; 116] (sarg 1 a) (cv_ln 0 a) (cv_ev 0 a)]);
  ("boxed.fmt", fun _ a => Val [sp_fmt [66; 111; 120; 101; 100; 85; 105; 110; 116] (sarg 1 a) (Nat.max 1 (cv_ln 0 a)) (cv_ev 0 a)]);
  ("uint.words_id", fun _ a => Val [to_limbs (cv_ln 0 a) (cv_ev 0 a)]);
  ("boxed.from_vec", fun _ a => Val [to_limbs (Nat.max 1 (cv_ln 0 a)) (cv_ev 0 a)]);
  (* from_u8 .. from_u128 / from_word / from_wide_word: the value, zero extended; a width that cannot
     hold the type (no limbs; one limb for 128-bit kinds) is rejected by an assertion *)
  ("uint.from_prim", fun _ a =>
     let kind := sarg 1 a in let n := cv_nat 2 a in let v := prim_val (arg 0 a) in
     if negb (sp_prim_fits kind v) then Unsupported
     else if Nat.ltb n (if (kind =? 128) || (kind =? 129) then 2 else 1) then PanicV
     else Val [to_limbs n v]);
  ("uint.to_prim", fun _ a =>
     let kind := sarg 1 a in
     if kind =? 128 then (if Nat.eqb (cv_ln 0 a) 2 then Val [to_limbs 2 (cv_ev 0 a)] else Unsupported)
     else (if Nat.eqb (cv_ln 0 a) 1 then Val [to_limbs 1 (cv_ev 0 a)] else Unsupported));
  (* from_i8 .. from_i128: the signed value in two's complement at the target width; a width that cannot
     hold the type (no limbs; one limb for i128) is rejected by an assertion, like Uint::from_u128 *)
  ("int.from_prim", fun _ a =>
     let kind := sarg 1 a in let n := cv_nat 2 a in let v := prim_val (arg 0 a) in
     if negb (sp_prim_fits kind v) then Unsupported
     else let s := sp_signed kind v in
       if Nat.ltb n (if kind =? 128 then 2 else 1) then PanicV
       else Val [to_limbs_s n s]);
  ("boxed.from_prim", fun _ a =>
     let kind := sarg 1 a in let v := prim_val (arg 0 a) in
     if negb (sp_prim_fits kind v) then Unsupported
     else Val [to_limbs (if kind =? 128 then 2 else 1) v]);
  ("uint.concat", fun _ a =>
     Val [to_limbs (cv_ln 0 a + cv_ln 1 a) (cv_ev 0 a + Bn (cv_ln 0 a) * cv_ev 1 a)]);
  ("uint.split", fun _ a =>
     let l := cv_nat 1 a in
     if Nat.ltb (cv_ln 0 a) l then Unsupported
     else Val [to_limbs l (cv_ev 0 a mod Bn l); to_limbs (cv_ln 0 a - l) (cv_ev 0 a / Bn l)]);
  ("uint.resize", fun _ a => Val [to_limbs (cv_nat 1 a) (cv_ev 0 a mod Bn (cv_nat 1 a))]);
  (* Int::resize: sign extension when widening, truncation of the two's complement pattern otherwise *)
  ("int.resize", fun _ a =>
     if Nat.eqb (cv_ln 0 a) 0 then Unsupported
     else Val [to_limbs_s (cv_nat 1 a) (seval (arg 0 a))]);
  ("boxed.widen", fun _ a =>
     let p := sarg 1 a in
     if Nat.eqb (cv_ln 0 a) 0 then Unsupported
     else if p <? 64 * Z.of_nat (cv_ln 0 a) then PanicV else Val [to_limbs (sp_limbs_for p) (cv_ev 0 a)]);
  ("boxed.shorten", fun _ a =>
     let p := sarg 1 a in
     if Nat.eqb (cv_ln 0 a) 0 then Unsupported
     else if 64 * Z.of_nat (cv_ln 0 a) <? p then PanicV
     else Val [to_limbs (sp_limbs_for p) (cv_ev 0 a mod Bn (sp_limbs_for p))]);
  ("boxed.from_be_slice", fun _ a => sp_boxed_from_slice true (arg 0 a) (sarg 1 a));
  ("boxed.from_le_slice", fun _ a => sp_boxed_from_slice false (arg 0 a) (sarg 1 a));
  (* BoxedUint::from_be_hex: bits_precision is rounded up to whole limbs like in every other
     constructor; exactly 16 characters per limb; wrong size = the size assertion (panic);
     right size with a non-hex character = none *)
  ("boxed.from_be_hex", fun _ a =>
     let p := sarg 1 a in let n := Z.to_nat ((p + 63) / 64) in let cs := arg 0 a in
     sp_bytes_arg cs (
       if negb (Nat.eqb (length cs) (16 * n)) then PanicV
       else match sp_hex_value false (16 * n) cs with
            | Some v => if Nat.eqb n 0 then Unsupported else Val [to_limbs n v]
            | None => NoneV end));
  ("uint.serde_ser", fun _ a =>
     Val [sp_le_digits 256 8 (8 * Z.of_nat (cv_ln 0 a)) ++ sp_le_digits 256 (8 * cv_ln 0 a) (cv_ev 0 a)]);
  (* well-formed payload (length field 8n, then exactly 8n bytes) decodes to the value; a wrong length
     field or a truncated payload is an error; trailing bytes are the framing layer's business *)
  ("uint.serde_de", fun _ a =>
     let n := cv_nat 1 a in let bs := arg 0 a in
     sp_bytes_arg bs (
       if Nat.ltb (length bs) (8 + 8 * n) then ErrV 0
       else if negb (horner 256 (rev (firstn 8 bs)) =? 8 * Z.of_nat n) then ErrV 0
       else if Nat.eqb (length bs) (8 + 8 * n) then Val [to_limbs n (horner 256 (rev (skipn 8 bs)))]
       else Unsupported));
  ("nonzero.from_be_bytes", fun _ a => sp_nonzero false (cv_nat 1 a) (arg 0 a));
  ("nonzero.from_le_bytes", fun _ a => sp_nonzero true (cv_nat 1 a) (arg 0 a));
  ("nonzero.from_le_byte_array", fun _ a => sp_nonzero true (cv_nat 1 a) (arg 0 a));
  ("odd.from_be_hex", fun _ a => sp_odd false (cv_nat 1 a) (arg 0 a));
  ("odd.from_le_hex", fun _ a => sp_odd true (cv_nat 1 a) (arg 0 a))
].
