(** C02: unsigned division. Faithful models of src/uint/div_limb.rs, src/uint/div.rs,
    src/uint/boxed/div.rs, src/uint/boxed/div_limb.rs (64-bit target). *)
From CB Require Export Model.Limbs.
Open Scope Z_scope. Open Scope list_scope.

Definition upd (l : list Z) (i : nat) (v : Z) : list Z := firstn i l ++ v :: skipn (S i) l.
Definition sel (c : bool) (a b : Z) : Z := if c then b else a.   (* Limb::select(a, b, c) *)

(* ---------- value-level helpers for operations owned by other properties (C05) ---------- *)
Definition bits_of (x : Z) : Z := if x <=? 0 then 0 else Z.log2 x + 1.
Definition leading_zeros_word (x : Z) : Z := 64 - bits_of x.
Definition shl_val (n : nat) (x : list Z) (s : Z) : list Z := to_limbs n ((eval x * 2 ^ s) mod Bn n).
Definition shr_val (n : nat) (x : list Z) (s : Z) : list Z := to_limbs n (eval x / 2 ^ s).

(* ---------- short_div / reciprocal (64-bit) ---------- *)
Definition M32 : Z := 2 ^ 32.
Fixpoint short_div_loop (i : nat) (dividend divisor quotient : Z) : Z :=
  match i with
  | O => quotient
  | S i' =>
      let bit := dividend <? divisor in
      let dividend' := if bit then dividend else (dividend - divisor) mod M32 in
      let divisor' := divisor / 2 in
      let quotient' := Z.lor quotient ((if bit then 0 else 1) * 2 ^ Z.of_nat i') in
      short_div_loop i' dividend' divisor' quotient'
  end.
Definition short_div (dividend dividend_bits divisor divisor_bits : Z) : Z :=
  short_div_loop (Z.to_nat (dividend_bits - divisor_bits + 1)) dividend
    ((divisor * 2 ^ (dividend_bits - divisor_bits)) mod M32) 0.

Definition reciprocal (d : Z) : Z :=
  let d0 := Z.land d 1 in
  let d9 := d / 2 ^ 55 in
  let d40 := d / 2 ^ 24 + 1 in
  let d63 := d / 2 + d0 in
  let v0 := short_div (2 ^ 19 - 3 * 2 ^ 8) 19 d9 9 in
  let v1 := wrap (wrap (v0 * 2 ^ 11) - (wrap (v0 * v0 * d40)) / 2 ^ 40 - 1) in
  let v2 := wrap (wrap (v1 * 2 ^ 13) + (wrap (v1 * wrap (2 ^ 60 - wrap (v1 * d40)))) / 2 ^ 47) in
  let e := wrap (MAXW - wmul v2 d63 + 1 + wrap ((v2 / 2) * d0)) in
  let '(hi, _) := mulhilo v2 e in
  let v3 := wadd (wshl v2 31) (hi / 2) in
  let x := wadd v3 1 in
  let '(hi2, _) := mulhilo x d in
  let hi3 := if x =? 0 then d else hi2 in
  wsub (wsub v3 hi3) d.

(* Reciprocal { divisor_normalized, shift, reciprocal } *)
Record recip := { r_d : Z; r_shift : Z; r_v : Z }.
Definition recip_new (divisor : Z) : recip :=
  let shift := leading_zeros_word divisor in
  let dn := wshl divisor shift in
  {| r_d := dn; r_shift := shift; r_v := reciprocal dn |}.

(* ---------- div2by1 / div3by2 ---------- *)
Definition ltw (a b : Z) : bool := a <? b.     (* ConstChoice::from_word_lt as a boolean *)
Definition div2by1 (u1 u0 : Z) (rc : recip) : Z * Z :=
  let d := r_d rc in
  let '(q1, q0) := mulhilo (r_v rc) u1 in
  let '(q1, q0) := addhilo q1 q0 u1 u0 in
  let q1 := wadd q1 1 in
  let r := wsub u0 (wmul q1 d) in
  let c1 := ltw q0 r in
  let q1 := sel c1 q1 (wsub q1 1) in
  let r := sel c1 r (wadd r d) in
  let c2 := d <=? r in
  let q1 := sel c2 q1 (wadd q1 1) in
  let r := sel c2 r (wsub r d) in
  (q1, r).

Definition div3by2_round (v0 d u0 : Z) (st : Z * Z) : Z * Z :=
  let '(quo, rem) := st in
  let qy := quo * v0 in
  let rx := wrap2 (rem * B) + u0 in     (* (rem << 64) | u0 in u128 *)
  let done := negb (rem / B =? 0) || (qy <=? rx) in
  (sel done (wsub quo 1) quo, if done then rem else rem + d).
Definition div3by2 (u2 u1 u0 : Z) (rc : recip) (v0 : Z) : Z :=
  let d := r_d rc in
  let q_maxed := u2 =? d in
  let '(quo, rem) := div2by1 (sel q_maxed u2 0) u1 rc in
  let quo := sel q_maxed quo MAXW in
  let rem := if q_maxed then u2 + u1 else rem in
  fst (div3by2_round v0 d u0 (div3by2_round v0 d u0 (quo, rem))).

(* ---------- shl_limb (constant-time, zero-shift masked) and the vartime in-place shifts ---------- *)
Fixpoint shl_limb_go (prev : Z) (x : list Z) (s : Z) : list Z :=
  match x with
  | [] => []
  | wd :: r => Z.lor (wshl wd s) (if s =? 0 then 0 else prev / 2 ^ (64 - s)) :: shl_limb_go wd r s
  end.
Definition shl_limb (x : list Z) (s : Z) : list Z * Z :=
  (shl_limb_go 0 x s, if s =? 0 then 0 else last x 0 / 2 ^ (64 - s)).
(* Uint::shl_limb_vartime(shift, limbs_num): only the low limbs_num limbs are shifted, the rest become zero *)
Definition shl_limb_vartime (x : list Z) (s : Z) (k : nat) : list Z * Z :=
  if s =? 0 then (x, 0) else
  let '(lo, c) := shl_limb (firstn k x) s in (lo ++ zeros (length x - k), c).
Fixpoint shr_limb_go (x : list Z) (s : Z) : list Z :=
  match x with
  | [] => []
  | wd :: r => Z.lor (wd / 2 ^ s) (match r with [] => 0 | nx :: _ => wshl nx (64 - s) end) :: shr_limb_go r s
  end.
Definition shr_limb_vartime (x : list Z) (s : Z) (k : nat) : list Z :=
  if s =? 0 then x else shr_limb_go (firstn k x) s ++ zeros (length x - k).

(* ---------- division by one limb ---------- *)
Fixpoint divlimb_go (rev_us : list Z) (r : Z) (rc : recip) : list Z * Z :=
  match rev_us with
  | [] => ([], r)
  | wd :: t => let '(q, r') := div2by1 r wd rc in
               let '(qs, rf) := divlimb_go t r' rc in (q :: qs, rf)
  end.
Definition div_rem_limb_with_reciprocal (u : list Z) (rc : recip) : list Z * Z :=
  let '(us, uhi) := shl_limb u (r_shift rc) in
  let '(qs, r) := divlimb_go (rev us) uhi rc in
  (rev qs, r / 2 ^ r_shift rc).
Definition rem_limb_with_reciprocal (u : list Z) (rc : recip) : Z :=
  snd (div_rem_limb_with_reciprocal u rc).
Definition rem_limb_with_reciprocal_wide (lo hi : list Z) (rc : recip) : Z :=
  let '(los, carry) := shl_limb lo (r_shift rc) in
  let '(his, xhi) := shl_limb hi (r_shift rc) in
  let his := match his with [] => [] | h0 :: t => Z.lor h0 carry :: t end in
  let '(_, r1) := divlimb_go (rev his) xhi rc in
  let '(_, r2) := divlimb_go (rev los) r1 rc in
  r2 / 2 ^ r_shift rc.

(* ---------- the subtract / add-back step shared by all Knuth loops ----------
   x[base + i] -= quo * y[yoff + i] for i < cnt, then x_hi -= carry; returns (x, borrow) *)
Fixpoint mulsub_go (cnt : nat) (i : nat) (x y : list Z) (base yoff : nat) (quo carry borrow : Z) : list Z * Z * Z :=
  match cnt with
  | O => (x, carry, borrow)
  | S c' =>
      let '(tmp, carry') := mac 0 (nthz y (yoff + i)) quo carry in
      let '(xv, borrow') := sbb (nthz x (base + i)) tmp borrow in
      mulsub_go c' (S i) (upd x (base + i) xv) y base yoff quo carry' borrow'
  end.
Fixpoint addback_go (cnt : nat) (i : nat) (x y : list Z) (base yoff : nat) (mask : bool) (carry : Z) : list Z :=
  match cnt with
  | O => x
  | S c' =>
      let '(xv, carry') := adc (nthz x (base + i)) (sel mask 0 (nthz y (yoff + i))) carry in
      addback_go c' (S i) (upd x (base + i) xv) y base yoff mask carry'
  end.
Definition knuth_step (x y : list Z) (x_hi : Z) (base yoff cnt : nat) (quo : Z) : list Z * bool :=
  let '(x1, carry, borrow) := mulsub_go cnt 0 x y base yoff quo 0 0 in
  let '(_, borrow2) := sbb x_hi carry borrow in
  let mask := negb (borrow2 =? 0) in
  (addback_go cnt 0 x1 y base yoff mask 0, mask).

(* ---------- Uint::div_rem (constant-time w.r.t. values; n >= 2) ---------- *)
Record ctst := { c_x : list Z; c_xhi : Z; c_xlo : Z }.
Fixpoint div_ct_loop (xi : nat) (n : nat) (dwords : Z) (y : list Z) (rc : recip) (st : ctst) : ctst :=
  match xi with
  | O => st
  | S xi' =>   (* loop body runs with index xi = S xi' > 0 *)
      let x := c_x st in
      let quo := div3by2 (c_xhi st) (c_xlo st) (nthz x xi') rc (nthz y (n - 2)) in
      let done := Z.of_nat xi <? dwords - 1 in
      let quo := sel done quo 0 in
      let '(x2, mask) := knuth_step x y (c_xhi st) 0 (n - xi - 1) (S xi) quo in
      let quo := sel mask quo (if quo =? 0 then 0 else quo - 1) in
      let xhi' := sel done (nthz x2 xi) (c_xhi st) in
      let x3 := upd x2 xi (sel done quo (nthz x2 xi)) in
      let xlo' := sel done (nthz x3 xi') (c_xlo st) in
      div_ct_loop xi' n dwords y rc {| c_x := x3; c_xhi := xhi'; c_xlo := xlo' |}
  end.
Definition div_rem_ct_core (x0 y0 : list Z) (dbits : Z) : list Z * list Z :=
  let n := length x0 in
  let dwords := (dbits + 63) / 64 in
  let lshift := (64 - dbits mod 64) mod 64 in
  let y := shl_val n y0 (64 * Z.of_nat n - dbits) in
  let '(x, x_hi) := shl_limb x0 lshift in
  let rc := recip_new (nthz y (n - 1)) in
  let st := div_ct_loop (n - 1) n dwords y rc {| c_x := x; c_xhi := x_hi; c_xlo := nthz x (n - 1) |} in
  let x := c_x st in
  let limb_div := dwords =? 1 in
  let x_hi_adj := sel limb_div 0 (c_xhi st) in
  let '(quo2, rem2) := div2by1 x_hi_adj (c_xlo st) rc in
  let x := upd x 0 (sel limb_div (nthz x 0) quo2) in
  let y0' := sel limb_div (nthz x 0) rem2 in
  let ytail := map (fun i => let yi := sel (Z.of_nat i <? dwords) 0 (nthz x i) in
                             sel (Z.of_nat i =? dwords - 1) yi (c_xhi st)) (seq 1 (n - 1)) in
  (shr_val n x ((dwords - 1) * 64), shr_val n (y0' :: ytail) lshift).

(* NonZero<Uint> guarantees y0 <> 0; the boxed twin asserts equal precision *)
Definition uint_div_rem (x0 y0 : list Z) : option (list Z * list Z) :=
  let n := length x0 in
  if (n =? 1)%nat then
    let d := nthz y0 0 in
    if d =? 0 then None else
    let '(q, r) := div_rem_limb_with_reciprocal x0 (recip_new d) in Some (q, [r])
  else
    let dbits := bits_of (eval y0) in
    if dbits =? 0 then None else Some (div_rem_ct_core x0 y0 dbits).

(* ---------- Uint::div_rem_vartime (mixed widths) ---------- *)
Record vtst := { v_x : list Z; v_xhi : Z }.
(* iterations from xi down to yc-1 inclusive: cnt = xi - (yc-1) + 1 *)
Fixpoint div_vt_loop (cnt : nat) (xi yc : nat) (y : list Z) (rc : recip) (st : vtst) : vtst :=
  match cnt with
  | O => st
  | S c' =>
      let x := v_x st in
      let quo := div3by2 (v_xhi st) (nthz x xi) (nthz x (xi - 1)) rc (nthz y (yc - 2)) in
      let '(x2, mask) := knuth_step x y (v_xhi st) (xi + 1 - yc) 0 yc quo in
      let quo := sel mask quo (wsub quo 1) in
      let st' := {| v_x := upd x2 xi quo; v_xhi := nthz x2 xi |} in
      div_vt_loop c' (xi - 1) yc y rc st'
  end.
Definition div_rem_vartime (x0 y0 : list Z) : list Z * list Z :=
  let n := length x0 in let m := length y0 in
  let dbits := bits_of (eval y0) in
  let yc := Z.to_nat ((dbits + 63) / 64) in
  if (yc =? 1)%nat then
    let '(q, r) := div_rem_limb_with_reciprocal x0 (recip_new (nthz y0 0)) in (q, resize m [r])
  else if (n <? yc)%nat then (zeros n, resize m x0)
  else
    let shift := (64 - dbits mod 64) mod 64 in
    let '(x, x_hi) := shl_limb_vartime x0 shift n in
    let '(y, _) := shl_limb_vartime y0 shift yc in
    let rc := recip_new (nthz y (yc - 1)) in
    let st := div_vt_loop (n - yc + 1) (n - 1) yc y rc {| v_x := x; v_xhi := x_hi |} in
    let x := v_x st in
    let yr := firstn (yc - 1) x ++ [v_xhi st] ++ skipn yc y in
    let yr := shr_limb_vartime yr shift yc in
    let q := map (fun i => if (i <=? n - yc)%nat then nthz x (i + yc - 1) else 0) (seq 0 n) in
    (q, yr).

(* ---------- Uint::rem_wide_vartime ---------- *)
Record wst := { w_x : list Z; w_xhi : Z; w_xi : nat; w_extra : nat; w_done : bool }.
Fixpoint rem_wide_loop (fuel : nat) (n yc : nat) (xlo y : list Z) (rc : recip) (st : wst) : wst :=
  match fuel with
  | O => st
  | S f' =>
      if w_done st then st else
      let x := w_x st in let xi := w_xi st in
      let quo := div3by2 (w_xhi st) (nthz x xi) (nthz x (xi - 1)) rc (nthz y (yc - 2)) in
      let '(x2, _) := knuth_step x y (w_xhi st) (xi + 1 - yc) 0 yc quo in
      let xhi' := nthz x2 xi in
      let st' :=
        if (0 <? w_extra st)%nat then
          let e := (w_extra st - 1)%nat in
          {| w_x := nthz xlo e :: firstn (n - 1) x2; w_xhi := xhi'; w_xi := xi; w_extra := e; w_done := false |}
        else if (xi =? yc - 1)%nat then
          {| w_x := x2; w_xhi := xhi'; w_xi := xi; w_extra := 0; w_done := true |}
        else
          {| w_x := upd x2 xi 0; w_xhi := xhi'; w_xi := (xi - 1)%nat; w_extra := 0; w_done := false |} in
      rem_wide_loop f' n yc xlo y rc st'
  end.
Definition rem_wide_vartime (lo hi y0 : list Z) : list Z :=
  let n := length lo in
  let dbits := bits_of (eval y0) in
  let yc := Z.to_nat ((dbits + 63) / 64) in
  if (yc =? 1)%nat then
    resize n [rem_limb_with_reciprocal_wide lo hi (recip_new (nthz y0 0))]
  else
    let shift := (64 - dbits mod 64) mod 64 in
    let '(y, _) := shl_limb_vartime y0 shift yc in
    let '(xlo, xlo_carry) := shl_limb_vartime lo shift n in
    let '(x, x_hi) := shl_limb_vartime hi shift n in
    let x := if 0 <? shift then upd x 0 (Z.lor (nthz x 0) xlo_carry) else x in
    let rc := recip_new (nthz y (yc - 1)) in
    let st := rem_wide_loop (2 * n + 2) n yc xlo y rc
                {| w_x := x; w_xhi := x_hi; w_xi := (n - 1)%nat; w_extra := n; w_done := false |} in
    (* note: the remainder's top limb lives in x_hi only until the final iteration stores it back *)
    shr_limb_vartime (w_x st) shift yc.

(* ---------- rem2k_vartime ---------- *)
Definition rem2k_vartime (x : list Z) (k : Z) : list Z :=
  let highest := Z.of_nat (length x - 1) in
  let index := k / 64 in
  let le := index <=? highest in
  let limb_num := Z.to_nat (if le then index else highest) in
  let base := k mod 64 in
  let mask := 2 ^ base - 1 in
  let outmask := Z.land (nthz x limb_num) mask in
  let x1 := upd x limb_num (sel le (nthz x limb_num) outmask) in
  firstn (S limb_num) x1 ++ zeros (length x - S limb_num).

(* ---------- BoxedUint: div_rem_vartime_in_place (x: dividend limbs, y: the low yc limbs of the divisor) ---------- *)
Definition boxed_div_rem_in_place (x0 y0 : list Z) : list Z * list Z :=
  let xc := length x0 in let yc := length y0 in
  if (xc =? 0)%nat then (x0, zeros yc)
  else if (xc <? yc)%nat then (zeros xc, x0 ++ zeros (yc - xc))
  else
    let lshift := leading_zeros_word (nthz y0 (yc - 1)) in
    let '(y, _) := shl_limb_vartime y0 lshift yc in
    let '(x, x_hi) := shl_limb_vartime x0 lshift xc in
    let rc := recip_new (nthz y (yc - 1)) in
    let st := div_vt_loop (xc - yc + 1) (xc - 1) yc y rc {| v_x := x; v_xhi := x_hi |} in
    let x := v_x st in
    let yr := shr_limb_vartime (firstn (yc - 1) x ++ [v_xhi st]) lshift yc in
    (firstn (xc - yc + 1) (skipn (yc - 1) x) ++ zeros (yc - 1), yr).

Definition boxed_div_rem_vartime (x0 y0 : list Z) : option (list Z * list Z) :=
  let yc := Z.to_nat ((bits_of (eval y0) + 63) / 64) in
  match yc with
  | O => None
  | S O => let '(q, r) := div_rem_limb_with_reciprocal x0 (recip_new (nthz y0 0)) in
           Some (q, resize (length y0) [r])
  | _ => let '(q, r) := boxed_div_rem_in_place x0 (firstn yc y0) in Some (q, r ++ skipn yc y0)
  end.
Definition boxed_rem_vartime (x0 y0 : list Z) : option (list Z) :=
  let yc := Z.to_nat ((bits_of (eval y0) + 63) / 64) in
  match yc with
  | O => None
  | S O => Some (resize (length y0) [rem_limb_with_reciprocal x0 (recip_new (nthz y0 0))])
  | _ => if (length x0 <? yc)%nat then Some (resize (length y0) x0)
         else let '(_, r) := boxed_div_rem_in_place x0 (firstn yc y0) in Some (r ++ skipn yc y0)
  end.

(* ---------- Spec ---------- *)
Definition spec_div_rem (nq nr : nat) (n d : Z) : outcome :=
  Val [to_limbs nq (n / d); to_limbs nr (n mod d)].

(* ---------- op tables ---------- *)
Open Scope string_scope. Open Scope Z_scope. Open Scope list_scope.

Definition vqr (p : list Z * list Z) : outcome := Val [fst p; snd p].
Definition o_qr (o : option (list Z * list Z)) : outcome := match o with Some p => vqr p | None => PanicV end.
Definition o_fst (o : option (list Z * list Z)) : outcome := match o with Some p => Val [fst p] | None => PanicV end.
Definition o_snd (o : option (list Z * list Z)) : outcome := match o with Some p => Val [snd p] | None => PanicV end.
Definition is_zero_l (l : list Z) : bool := forallb (fun x => x =? 0) l.
Definition boxed_div_rem (x y : list Z) : option (list Z * list Z) :=
  if negb (length x =? length y)%nat then None else uint_div_rem x y.

Definition ops_div_model : list (string * opfn) := [
  ("recip.new", fun _ a => let rc := recip_new (sarg 0 a) in Val [[r_d rc]; [r_shift rc]; [r_v rc]]);
  ("uint.div_rem_limb", fun _ a => let '(q, r) := div_rem_limb_with_reciprocal (arg 0 a) (recip_new (sarg 1 a)) in Val [q; [r]]);
  ("uint.rem_limb", fun _ a => Val [[rem_limb_with_reciprocal (arg 0 a) (recip_new (sarg 1 a))]]);
  ("uint.div_limb", fun _ a => Val [fst (div_rem_limb_with_reciprocal (arg 0 a) (recip_new (sarg 1 a)))]);
  ("uint.div_rem", fun _ a => o_qr (uint_div_rem (arg 0 a) (arg 1 a)));
  ("uint.rem", fun _ a => o_snd (uint_div_rem (arg 0 a) (arg 1 a)));
  ("uint.div", fun _ a => o_fst (uint_div_rem (arg 0 a) (arg 1 a)));
  ("uint.div_plain", fun _ a => if is_zero_l (arg 1 a) then PanicV else o_fst (uint_div_rem (arg 0 a) (arg 1 a)));
  ("uint.rem_plain", fun _ a => if is_zero_l (arg 1 a) then PanicV else o_snd (uint_div_rem (arg 0 a) (arg 1 a)));
  ("uint.checked_div", fun _ a => if is_zero_l (arg 1 a) then NoneV else o_fst (uint_div_rem (arg 0 a) (arg 1 a)));
  ("uint.checked_rem", fun _ a => if is_zero_l (arg 1 a) then NoneV else o_snd (uint_div_rem (arg 0 a) (arg 1 a)));
  ("uint.div_rem_vartime", fun _ a => vqr (div_rem_vartime (arg 0 a) (arg 1 a)));
  ("uint.rem_vartime", fun _ a => Val [snd (div_rem_vartime (arg 0 a) (arg 1 a))]);
  ("uint.div_vartime", fun _ a => Val [fst (div_rem_vartime (arg 0 a) (arg 1 a))]);
  ("uint.wrapping_rem_vartime", fun _ a => if is_zero_l (arg 1 a) then PanicV else Val [snd (div_rem_vartime (arg 0 a) (arg 1 a))]);
  ("uint.rem_wide_vartime", fun _ a => Val [rem_wide_vartime (arg 0 a) (arg 1 a) (arg 2 a)]);
  ("uint.rem2k_vartime", fun _ a => Val [rem2k_vartime (arg 0 a) (sarg 1 a)]);
  ("boxed.div_rem_limb", fun _ a => let '(q, r) := div_rem_limb_with_reciprocal (arg 0 a) (recip_new (sarg 1 a)) in Val [q; [r]]);
  ("boxed.rem_limb", fun _ a => Val [[rem_limb_with_reciprocal (arg 0 a) (recip_new (sarg 1 a))]]);
  ("boxed.div_rem", fun _ a => o_qr (boxed_div_rem (arg 0 a) (arg 1 a)));
  ("boxed.rem", fun _ a => o_snd (boxed_div_rem (arg 0 a) (arg 1 a)));
  ("boxed.div", fun _ a => o_fst (boxed_div_rem (arg 0 a) (arg 1 a)));
  ("boxed.checked_div", fun _ a =>
     if negb (ln 0 a =? ln 1 a)%nat then PanicV
     else if is_zero_l (arg 1 a) then NoneV else o_fst (boxed_div_rem (arg 0 a) (arg 1 a)));
  ("boxed.div_rem_vartime", fun _ a => o_qr (boxed_div_rem_vartime (arg 0 a) (arg 1 a)));
  ("boxed.rem_vartime", fun _ a => match boxed_rem_vartime (arg 0 a) (arg 1 a) with Some r => Val [r] | None => PanicV end);
  ("boxed.div_vartime", fun _ a => o_fst (boxed_div_rem_vartime (arg 0 a) (arg 1 a)))
].

(* Spec: q = floor(n / d), r = n mod d, in the documented widths *)
Definition sp_q (nq : nat) (a : list (list Z)) : outcome := Val [to_limbs nq (ev 0 a / ev 1 a)].
Definition sp_r (nr : nat) (a : list (list Z)) : outcome := Val [to_limbs nr (ev 0 a mod ev 1 a)].
Definition sp_qr (nq nr : nat) (a : list (list Z)) : outcome := spec_div_rem nq nr (ev 0 a) (ev 1 a).
Definition nz_dom (a : list (list Z)) (o : outcome) : outcome := if ev 1 a =? 0 then Unsupported else o.

Definition ops_div_spec : list (string * opfn) := [
  (* recip_ok: the reciprocal of the normalised divisor is floor((B^2 - 1) / d) - B *)
  ("recip.new", fun _ a =>
     let d := sarg 0 a in
     if d <=? 0 then Unsupported else
     let s := 63 - Z.log2 d in let dn := d * 2 ^ s in
     Val [[dn]; [s]; [(B * B - 1) / dn - B]]);
  ("uint.div_rem_limb", fun _ a => nz_dom a (sp_qr (ln 0 a) 1 a));
  ("uint.rem_limb", fun _ a => nz_dom a (sp_r 1 a));
  ("uint.div_limb", fun _ a => nz_dom a (sp_q (ln 0 a) a));
  ("uint.div_rem", fun _ a => nz_dom a (sp_qr (ln 0 a) (ln 0 a) a));
  ("uint.rem", fun _ a => nz_dom a (sp_r (ln 0 a) a));
  ("uint.div", fun _ a => nz_dom a (sp_q (ln 0 a) a));
  ("uint.div_plain", fun _ a => if ev 1 a =? 0 then PanicV else sp_q (ln 0 a) a);
  ("uint.rem_plain", fun _ a => if ev 1 a =? 0 then PanicV else sp_r (ln 0 a) a);
  ("uint.checked_div", fun _ a => if ev 1 a =? 0 then NoneV else sp_q (ln 0 a) a);
  ("uint.checked_rem", fun _ a => if ev 1 a =? 0 then NoneV else sp_r (ln 0 a) a);
  ("uint.div_rem_vartime", fun _ a => nz_dom a (sp_qr (ln 0 a) (ln 1 a) a));
  ("uint.rem_vartime", fun _ a => nz_dom a (sp_r (ln 1 a) a));
  ("uint.div_vartime", fun _ a => nz_dom a (sp_q (ln 0 a) a));
  ("uint.wrapping_rem_vartime", fun _ a => if ev 1 a =? 0 then PanicV else sp_r (ln 0 a) a);
  ("uint.rem_wide_vartime", fun _ a =>
     if ev 2 a =? 0 then Unsupported else Val [to_limbs (ln 0 a) ((ev 0 a + Bn (ln 0 a) * ev 1 a) mod ev 2 a)]);
  ("uint.rem2k_vartime", fun _ a =>
     (* x mod 2^k; for k >= BITS that is x itself (2^k is not materialised) *)
     Val [to_limbs (ln 0 a) (if 64 * Z.of_nat (ln 0 a) <=? sarg 1 a then ev 0 a else ev 0 a mod 2 ^ (sarg 1 a))]);
  ("boxed.div_rem_limb", fun _ a => nz_dom a (sp_qr (ln 0 a) 1 a));
  ("boxed.rem_limb", fun _ a => nz_dom a (sp_r 1 a));
  (* constant-time boxed division documents equal precisions (panics otherwise) *)
  ("boxed.div_rem", fun _ a => nz_dom a (if negb (ln 0 a =? ln 1 a)%nat then PanicV else sp_qr (ln 0 a) (ln 0 a) a));
  ("boxed.rem", fun _ a => nz_dom a (if negb (ln 0 a =? ln 1 a)%nat then PanicV else sp_r (ln 0 a) a));
  ("boxed.div", fun _ a => nz_dom a (if negb (ln 0 a =? ln 1 a)%nat then PanicV else sp_q (ln 0 a) a));
  ("boxed.checked_div", fun _ a =>
     if negb (ln 0 a =? ln 1 a)%nat then Unsupported
     else if ev 1 a =? 0 then NoneV else sp_q (ln 0 a) a);
  ("boxed.div_rem_vartime", fun _ a => nz_dom a (sp_qr (ln 0 a) (ln 1 a) a));
  ("boxed.rem_vartime", fun _ a => nz_dom a (sp_r (ln 1 a) a));
  ("boxed.div_vartime", fun _ a => nz_dom a (sp_q (ln 0 a) a))
].
