(** C18: the ASN.1 DER INTEGER codec and the RLP codec of Uint<N>, at the byte level.
    L0 = models that follow the code path of every layer between the input octets and the limbs:
      - the `der` crate 0.8.0-rc.1: SliceReader (position, Incomplete / Overflow), Tag::try_from, Length::decode
        (short / long form, minimality through initial_octet, the 0xfff_ffff limit), Header::decode
        (Overlength -> Length), Decode::decode (tag check), UintRef::decode_value (decode_to_slice,
        strip_leading_zeroes, the value_len re-check), Reader::finish (TrailingData), AnyRef, and the
        encoder (value_len, Length::encode, for_tlv, encode_to_vec);
      - the glue of src/uint/encoding/der.rs: right-aligned copy into the byte array
        (offset = saturating_sub, copy_from_slice whose length mismatch is a panic);
      - the `rlp` crate 0.6.1: BasicEncoder::encode_iter / insert_size, BasicDecoder::decode_value,
        decode_usize, PayloadInfo::from / calculate_payload_info / payload_info;
      - the glue of src/uint/encoding/rlp.rs: strip leading zeros on encode, leading-zero rejection and
        checked_sub on decode.
    Every decoder takes a flag [fx]: [false] = the code as found (snapshot), [true] = the code with
    tools/fix_C18_1.diff (DER: a magnitude longer than the target is an error instead of a slice-length
    panic) and tools/fix_C18_2.diff (RLP: the item header is validated with payload_info and octets after
    the item are rejected).  The op tables use [fx = true]; the `*_orig` entries use [fx = false].
    Spec = the canonical encodings written with plain integer arithmetic (Z.log2, /, mod) and
    "decoding = the unique value whose canonical encoding is the input".
    Byte strings are lists of byte values. *)
From CB Require Export Model.Conv.
Open Scope Z_scope.
Open Scope list_scope.

(* ------------------------------------------------------------------------------------------ *)
(** * Results of a fallible step: value, error kind, panic *)
Inductive res (A : Type) : Type :=
| Ok (a : A)
| Er (code : Z)
| Pn.
Arguments Ok {A} a.
Arguments Er {A} code.
Arguments Pn {A}.
Definition bind {A C : Type} (r : res A) (f : A -> res C) : res C :=
  match r with Ok a => f a | Er c => Er c | Pn => Pn end.

(** der::ErrorKind (the adapters use the same numbering) *)
Definition E_Incomplete : Z := 1.
Definition E_TagUnknown : Z := 2.
Definition E_TagUnexpected : Z := 3.
Definition E_TagNumberInvalid : Z := 4.
Definition E_IndefiniteLength : Z := 5.
Definition E_Length : Z := 6.
Definition E_Overflow : Z := 7.
Definition E_Overlength : Z := 8.
Definition E_Noncanonical : Z := 9.
Definition E_Value : Z := 10.
Definition E_TrailingData : Z := 11.
(** rlp::DecoderError *)
Definition R_IsTooBig : Z := 1.
Definition R_IsTooShort : Z := 2.
Definition R_ExpectedToBeData : Z := 4.
Definition R_DataLenWithZeroPrefix : Z := 6.
Definition R_InvalidIndirection : Z := 8.
Definition R_InconsistentLengthAndData : Z := 9.
Definition R_InvalidLength : Z := 10.

(* ------------------------------------------------------------------------------------------ *)
(** * der: Length, SliceReader *)
(* Length::MAX = 0xfff_ffff (256 MiB) *)
Definition LEN_MAX : Z := 268435455.
Definition is_nil (l : list Z) : bool := match l with [] => true | _ => false end.

(* a SliceReader: the octets not yet consumed and the position *)
Definition rd : Type := (list Z * Z)%type.
(* SliceReader::new -> BytesRef::new -> Length::try_from(len) *)
Definition reader_new (bs : list Z) : res rd :=
  if LEN_MAX <? lenZ bs then Er E_Overflow else Ok (bs, 0).
(* Reader::read_slice: not enough input = Incomplete { expected_len: (position + len)? } where the
   addition itself fails with Overflow above Length::MAX *)
Definition read_slice (r : rd) (k : Z) : res (list Z * rd) :=
  let '(rest, pos) := r in
  if lenZ rest <? k then Er (if LEN_MAX <? pos + k then E_Overflow else E_Incomplete)
  else Ok (firstn (Z.to_nat k) rest, (skipn (Z.to_nat k) rest, pos + k)).
Definition read_byte (r : rd) : res (Z * rd) :=
  bind (read_slice r 1) (fun p => Ok (nthz (fst p) 0, snd p)).
(* Reader::finish *)
Definition finish {A : Type} (r : rd) (v : A) : res A :=
  if is_nil (fst r) then Ok v else Er E_TrailingData.

(** * der: Tag::try_from(u8). A valid tag is represented by its octet (the map octet -> Tag is injective) *)
Definition TAG_INTEGER : Z := 2.
Definition tag_universal : list Z := [1; 2; 3; 4; 5; 6; 9; 10; 12; 18; 19; 20; 21; 22; 23; 24; 26; 30; 48; 49].
Definition tag_try_from (b : Z) : res Z :=
  if 30 <? Z.land b 31 then Er E_TagNumberInvalid            (* TagNumber::try_from(byte & 0b11111): 0..=30 *)
  else if existsb (Z.eqb b) tag_universal then Ok b
  else if (64 <=? b) && (b <=? 126) then Ok b                 (* Application *)
  else if (128 <=? b) && (b <=? 190) then Ok b                (* ContextSpecific *)
  else if (192 <=? b) && (b <=? 254) then Ok b                (* Private *)
  else Er E_TagUnknown.

(** * der: Length::decode / encode *)
Definition initial_octet (l : Z) : option Z :=
  if l <? 128 then None
  else if l <=? 255 then Some 129
  else if l <=? 65535 then Some 130
  else if l <=? 16777215 then Some 131
  else if l <=? LEN_MAX then Some 132
  else None.
(* for _ in 0..nbytes { decoded_len = decoded_len.checked_shl(8)? | read_byte()? }  on u32 *)
Fixpoint read_be (k : nat) (r : rd) (acc : Z) : res (Z * rd) :=
  match k with
  | O => Ok (acc, r)
  | S k' => bind (read_byte r) (fun p => read_be k' (snd p) (Z.lor ((acc * 256) mod 4294967296) (fst p)))
  end.
Definition length_decode (r : rd) : res (Z * rd) :=
  bind (read_byte r) (fun p =>
    let b := fst p in
    if b <? 128 then Ok (b, snd p)
    else if b =? 128 then Er E_IndefiniteLength
    else if b <=? 132 then
      bind (read_be (Z.to_nat (b - 128)) (snd p) 0) (fun q =>
        let len := fst q in
        if LEN_MAX <? len then Er E_Overflow                   (* Length::try_from(u32) *)
        else match initial_octet len with
             | Some t => if t =? b then Ok (len, snd q) else Er E_Overlength
             | None => Er E_Overlength
             end)
    else Er E_Overlength).
(* Header::decode: (tag, length, reader); Overlength is reported as Length { tag } *)
Definition header_decode (r : rd) : res (Z * Z * rd) :=
  bind (read_byte r) (fun p =>
  bind (tag_try_from (fst p)) (fun tag =>
    match length_decode (snd p) with
    | Ok q => Ok (tag, fst q, snd q)
    | Er c => Er (if c =? E_Overlength then E_Length else c)
    | Pn => Pn
    end)).

(* checked Length addition *)
Definition len_add (x y : Z) : res Z := if LEN_MAX <? x + y then Er E_Overflow else Ok (x + y).
(* <Length as Encode>::encoded_len *)
Definition length_encoded_len (l : Z) : res Z :=
  if l <=? 127 then Ok 1 else if l <=? 255 then Ok 2 else if l <=? 65535 then Ok 3
  else if l <=? 16777215 then Ok 4 else if l <=? LEN_MAX then Ok 5 else Er E_Overflow.
(* <Length as Encode>::encode: initial octet, then the big-endian u32 without its leading zero octets *)
Definition length_encode (l : Z) : list Z :=
  match initial_octet l with
  | Some t =>
      let d := rev (digits 256 4 l) in
      t :: (if nthz d 0 =? 0 then
              if nthz d 1 =? 0 then
                if nthz d 2 =? 0 then [nthz d 3] else skipn 2 d
              else skipn 1 d
            else d)
  | None => [l mod 256]
  end.
(* Length::for_tlv = ONE + encoded_len()? + self *)
Definition for_tlv (l : Z) : res Z :=
  bind (length_encoded_len l) (fun el => bind (len_add 1 el) (fun s => len_add s l)).

(** * der: asn1/integer/uint.rs *)
Fixpoint strip_leading_zeroes (bs : list Z) : list Z :=
  match bs with
  | [] => []
  | b :: rest => if (b =? 0) && negb (is_nil rest) then strip_leading_zeroes rest else bs
  end.
Definition needs_leading_zero (bs : list Z) : bool :=
  match bs with b :: _ => 128 <=? b | [] => false end.
(* encoded_len: Length::try_from(stripped.len())? + u8::from(needs_leading_zero) *)
Definition uint_encoded_len (bs : list Z) : res Z :=
  let s := strip_leading_zeroes bs in
  if LEN_MAX <? lenZ s then Er E_Overflow else len_add (lenZ s) (b2z (needs_leading_zero s)).
Definition decode_to_slice (bs : list Z) : res (list Z) :=
  match bs with
  | [] => Er E_Noncanonical
  | b :: rest =>
      if b =? 0 then
        match rest with
        | [] => Ok bs
        | c :: _ => if c <? 128 then Er E_Noncanonical else Ok rest
        end
      else if 128 <=? b then Er E_Value
      else Ok bs
  end.
(* UintRef::new : the stripped octets (a UintRef is represented by them) *)
Definition uintref_new (bs : list Z) : res (list Z) :=
  let s := strip_leading_zeroes bs in
  if LEN_MAX <? lenZ s then Er E_Length else Ok s.
(* <UintRef as DecodeValue>::decode_value *)
Definition uintref_decode_value (r : rd) (hlen : Z) : res (list Z * rd) :=
  bind (read_slice r hlen) (fun p =>
  bind (decode_to_slice (fst p)) (fun sl =>
  bind (uintref_new sl) (fun u =>
  bind (uint_encoded_len u) (fun vl =>
    if vl =? hlen then Ok (u, snd p) else Er E_Noncanonical)))).

(** * crypto-bigint: src/uint/encoding/der.rs *)
(* from_be_byte_array = from_be_slice (its size assertion cannot fail on an array of the right size) *)
Definition from_be_array (n : nat) (arr : list Z) : res (list Z) :=
  match uint_from_be_slice n arr with Some r => Ok r | None => Pn end.
(* TryFrom<UintRef> for Uint<N>:
     found:     offset = array.len().saturating_sub(bytes.len()); array[offset..].copy_from_slice(bytes)
     repaired:  offset = array.len().checked_sub(bytes.len()).ok_or(Tag::Integer.length_error())?      *)
Definition uint_try_from_uintref (fx : bool) (n : nat) (u : list Z) : res (list Z) :=
  let alen := (8 * n)%nat in
  if fx && Nat.ltb alen (length u) then Er E_Length
  else
    let offset := (alen - length u)%nat in                       (* saturating on nat *)
    if Nat.eqb (alen - offset) (length u) then from_be_array n (zeros offset ++ u)
    else Pn.                                                    (* copy_from_slice: length mismatch *)
(* <Uint<N> as DecodeValue>::decode_value *)
Definition uint_decode_value (fx : bool) (n : nat) (r : rd) (hlen : Z) : res (list Z * rd) :=
  bind (uintref_decode_value r hlen) (fun p =>
  bind (uint_try_from_uintref fx n (fst p)) (fun v => Ok (v, snd p))).
(* <T as Decode>::decode for T: DecodeValue + FixedTag *)
Definition uint_decode (fx : bool) (n : nat) (r : rd) : res (list Z * rd) :=
  bind (header_decode r) (fun h =>
    let '(tag, len, r1) := h in
    if tag =? TAG_INTEGER then uint_decode_value fx n r1 len else Er E_TagUnexpected).
(* Decode::from_der *)
Definition der_decode (fx : bool) (n : nat) (bs : list Z) : res (list Z) :=
  bind (reader_new bs) (fun r => bind (uint_decode fx n r) (fun p => finish (snd p) (fst p))).

(* AnyRef::from_der : (tag, value octets) *)
Definition anyref_from_der (bs : list Z) : res (Z * list Z) :=
  bind (reader_new bs) (fun r =>
  bind (header_decode r) (fun h =>
    let '(tag, len, r1) := h in
    bind (read_slice r1 len) (fun p => finish (snd p) (tag, fst p)))).
(* UintRef::try_from(AnyRef) = AnyRef::decode_as::<UintRef> *)
Definition anyref_decode_uintref (any : Z * list Z) : res (list Z) :=
  let '(tag, value) := any in
  if tag =? TAG_INTEGER then
    bind (reader_new value) (fun r =>
    bind (uintref_decode_value r (lenZ value)) (fun p => finish (snd p) (fst p)))
  else Er E_TagUnexpected.
(* TryFrom<AnyRef> for Uint<N> *)
Definition der_from_any (fx : bool) (n : nat) (bs : list Z) : res (list Z) :=
  bind (anyref_from_der bs) (fun any =>
  bind (anyref_decode_uintref any) (uint_try_from_uintref fx n)).
(* Tag::try_from(octet), AnyRef::new(tag, value), TryFrom<AnyRef> *)
Definition der_from_any_parts (fx : bool) (n : nat) (tb : Z) (value : list Z) : res (list Z) :=
  bind (tag_try_from tb) (fun tag =>
    if LEN_MAX <? lenZ value then Er E_Length
    else bind (anyref_decode_uintref (tag, value)) (uint_try_from_uintref fx n)).
(* UintRef::new(octets), TryFrom<UintRef> *)
Definition der_from_uintref (fx : bool) (n : nat) (bs : list Z) : res (list Z) :=
  bind (uintref_new bs) (uint_try_from_uintref fx n).
(* DecodeValue::decode_value on a fresh reader with a caller-made header: (value, octets left) *)
Definition der_decode_value (fx : bool) (n : nat) (hlen : Z) (bs : list Z) : res (list Z * Z) :=
  if LEN_MAX <? hlen then Er E_Overflow
  else bind (reader_new bs) (fun r =>
       bind (uint_decode_value fx n r hlen) (fun p => Ok (fst p, lenZ (fst (snd p))))).

(** encoder: EncodeValue for Uint<N> goes through UintRef::new(&to_be_byte_array()) *)
Definition der_value_len (ls : list Z) : res Z :=
  bind (uintref_new (uint_to_be_bytes ls)) uint_encoded_len.
(* <UintRef as EncodeValue>::encode_value: a 0x00 pad when value_len > len *)
Definition der_encode_value (ls : list Z) : res (list Z) :=
  bind (uintref_new (uint_to_be_bytes ls)) (fun u =>
  bind (uint_encoded_len u) (fun vl => Ok (if lenZ u <? vl then 0 :: u else u))).
(* Encode::encoded_len = value_len()?.for_tlv() *)
Definition der_encoded_len (ls : list Z) : res Z := bind (der_value_len ls) for_tlv.
(* Encode::encode = header()?.encode(writer)?; encode_value(writer) *)
Definition der_encode_tlv (ls : list Z) : res (list Z) :=
  bind (der_value_len ls) (fun vl =>
  bind (der_encode_value ls) (fun body => Ok (TAG_INTEGER :: length_encode vl ++ body))).
(* Encode::to_der = encode_to_vec: a buffer of encoded_len() octets, the written length is compared *)
Definition der_encode (ls : list Z) : res (list Z) :=
  bind (der_encoded_len ls) (fun el =>
  bind (der_encode_tlv ls) (fun bs =>
    if el <? lenZ bs then Er E_Overlength
    else if lenZ bs <? el then Er E_Incomplete
    else Ok bs)).

(* ------------------------------------------------------------------------------------------ *)
(** * rlp crate *)
Definition USIZE : Z := 18446744073709551616.    (* 2^64 *)
(* while bytes.first() == Some(0) { bytes = &bytes[1..] } *)
Fixpoint strip_all_zeros (bs : list Z) : list Z :=
  match bs with
  | [] => []
  | b :: rest => if b =? 0 then strip_all_zeros rest else bs
  end.
(* BasicEncoder::insert_size: size as u32, its big-endian octets without the leading zero octets *)
Definition rlp_size_bytes (len : Z) : list Z :=
  strip_all_zeros (rev (digits 256 4 (len mod 4294967296))).
(* BasicEncoder::encode_iter for an exact-size iterator *)
Definition rlp_encode_value (v : list Z) : list Z :=
  let len := lenZ v in
  match v with
  | [] => [128]
  | first :: _ =>
      if len <=? 55 then
        if (len =? 1) && (first <? 128) then [first] else (128 + len) :: v
      else
        let sz := rlp_size_bytes len in (183 + lenZ sz) :: sz ++ v
  end.
(* src/uint/encoding/rlp.rs: rlp_append *)
Definition rlp_encode (ls : list Z) : list Z := rlp_encode_value (strip_all_zeros (uint_to_be_bytes ls)).

(* impls.rs decode_usize: at most 8 octets, no leading zero; bytes[0] on an empty slice is an index panic *)
Definition decode_usize (bs : list Z) : res Z :=
  if Nat.leb (length bs) 8 then
    match bs with
    | [] => Pn
    | b :: _ => if b =? 0 then Er R_InvalidIndirection else Ok (horner 256 bs)
    end
  else Er R_IsTooBig.
Definition slice (bs : list Z) (from to : Z) : list Z :=
  firstn (Z.to_nat (to - from)) (skipn (Z.to_nat from) bs).
(* BasicDecoder::decode_value *)
Definition rlp_decode_value {A : Type} (f : list Z -> res A) (bs : list Z) : res A :=
  match bs with
  | [] => Er R_IsTooShort
  | l :: _ =>
      if l <=? 127 then f [l]
      else if l <=? 183 then
        let last := 1 + l - 128 in
        if lenZ bs <? last then Er R_InconsistentLengthAndData
        else
          let d := slice bs 1 last in
          if (l =? 129) && (nthz d 0 <? 128) then Er R_InvalidIndirection else f d
      else if l <=? 191 then
        let len_of_len := l - 183 in
        let begin := 1 + len_of_len in
        if lenZ bs <? begin then Er R_InconsistentLengthAndData
        else
          bind (decode_usize (slice bs 1 begin)) (fun len =>
            let last := begin + len in
            if USIZE <=? last then Er R_InvalidLength            (* checked_add *)
            else if lenZ bs <? last then Er R_InconsistentLengthAndData
            else f (slice bs begin last))
      else Er R_ExpectedToBeData
  end.
(* rlpin.rs calculate_payload_info *)
Definition calculate_payload_info (bs : list Z) (len_of_len : Z) : res (Z * Z) :=
  let header_len := 1 + len_of_len in
  match bs with
  | _ :: b1 :: _ =>
      if b1 =? 0 then Er R_DataLenWithZeroPrefix
      else if lenZ bs <? header_len then Er R_IsTooShort
      else bind (decode_usize (slice bs 1 header_len)) (fun value_len =>
             if value_len <=? 55 then Er R_InvalidIndirection else Ok (header_len, value_len))
  | _ => Er R_IsTooShort
  end.
(* PayloadInfo::from *)
Definition payload_from (bs : list Z) : res (Z * Z) :=
  match bs with
  | [] => Er R_IsTooShort
  | l :: _ =>
      if l <=? 127 then Ok (0, 1)
      else if l <=? 183 then Ok (1, l - 128)
      else if l <=? 191 then calculate_payload_info bs (l - 183)
      else if l <=? 247 then Ok (1, l - 192)
      else calculate_payload_info bs (l - 247)
  end.
(* BasicDecoder::payload_info *)
Definition payload_info (bs : list Z) : res (Z * Z) :=
  bind (payload_from bs) (fun p =>
    let t := fst p + snd p in
    if (t <? USIZE) && (t <=? lenZ bs) then Ok p else Er R_IsTooShort).

(** * crypto-bigint: src/uint/encoding/rlp.rs *)
(* the closure passed to decode_value *)
Definition rlp_glue (n : nat) (bytes : list Z) : res (list Z) :=
  if (match bytes with b :: _ => b =? 0 | [] => false end) then Er R_InvalidIndirection
  else if Nat.ltb (8 * n) (length bytes) then Er R_IsTooBig     (* checked_sub *)
  else from_be_array n (zeros (8 * n - length bytes) ++ bytes).
(* Decodable::decode.
     found:     rlp.decoder().decode_value(glue)
     repaired:  let info = rlp.payload_info()?;
                if info.total() != rlp.as_raw().len() { return Err(RlpIsTooBig) }   then as before   *)
Definition rlp_decode (fx : bool) (n : nat) (bs : list Z) : res (list Z) :=
  if fx then
    bind (payload_info bs) (fun p =>
      if negb (fst p + snd p =? lenZ bs) then Er R_IsTooBig
      else rlp_decode_value (rlp_glue n) bs)
  else rlp_decode_value (rlp_glue n) bs.
(* Rlp::val_at(0) of a list whose payload is [bs]: the first item is cut out with payload_info *)
Definition rlp_decode_item (fx : bool) (n : nat) (bs : list Z) : res (list Z) :=
  bind (payload_info bs) (fun p => rlp_decode fx n (firstn (Z.to_nat (fst p + snd p)) bs)).

(* ------------------------------------------------------------------------------------------ *)
(** * Specification: canonical encodings in plain arithmetic *)
(* number of significant bits / octets of a non-negative integer *)
Definition sp_bits (x : Z) : Z := if x <=? 0 then 0 else Z.log2 x + 1.
Definition sp_octets (x : Z) : Z := (sp_bits x + 7) / 8.
(* the k-octet big-endian representation: base-256 digits by repeated division, most significant first
   (octet i is floor(x / 256^(k-1-i)) mod 256: Proofs/DerSpecP.v sp_be_positional) *)
Definition sp_be (k : Z) (x : Z) : list Z := rev (digits 256 (Z.to_nat k) x).
(* DER: content = the shortest two's complement representation of the non-negative x:
   one more bit than the magnitude (the sign bit 0), rounded up to octets, at least one octet *)
Definition sp_der_content_len (x : Z) : Z := sp_bits x / 8 + 1.
Definition sp_der_content (x : Z) : list Z := sp_be (sp_der_content_len x) x.
(* definite length, minimal: short form below 128, else 0x80 + number of length octets *)
Definition sp_der_length (k : Z) : list Z :=
  if k <? 128 then [k] else (128 + sp_octets k) :: sp_be (sp_octets k) k.
Definition sp_der_header (k : Z) : list Z := 2 :: sp_der_length k.
Definition sp_der_encode (x : Z) : list Z :=
  sp_der_header (sp_der_content_len x) ++ sp_der_content x.
(* RLP: the big-endian magnitude without leading zeros as a string item *)
Definition sp_rlp_payload (x : Z) : list Z := sp_be (sp_octets x) x.
Definition sp_rlp_header (x : Z) : list Z :=
  let k := sp_octets x in
  if x =? 0 then [128]
  else if x <? 128 then []
  else if k <=? 55 then [128 + k]
  else (183 + sp_octets k) :: sp_be (sp_octets k) k.
Definition sp_rlp_encode (x : Z) : list Z := sp_rlp_header x ++ sp_rlp_payload x.
(* decoding = the value whose canonical encoding is the input (Proofs/DerSpecP.v: sp_der_decode_iff,
   sp_rlp_decode_iff).  Executable form: the content of an encoding is the big-endian value, so the only
   candidate is the value of the input without its header; the size j of a header is announced by its
   first length octet; the candidate must reproduce the header and the content and fit the width. *)
Definition sp_decode_at (hdr body : Z -> list Z) (j : nat) (n : nat) (bs : list Z) : option Z :=
  let v := horner 256 (skipn j bs) in
  if list_eqb (hdr v) (firstn j bs) && list_eqb (body v) (skipn j bs) && (v <? Bn n) then Some v else None.
Definition sp_der_header_size (bs : list Z) : nat :=
  let b := nthz bs 1 in if b <? 128 then 2%nat else Z.to_nat (2 + (b - 128)).
Definition sp_der_decode (n : nat) (bs : list Z) : option Z :=
  sp_decode_at (fun v => sp_der_header (sp_der_content_len v)) sp_der_content (sp_der_header_size bs) n bs.
Definition sp_rlp_header_size (bs : list Z) : nat :=
  let b := nthz bs 0 in
  if b <? 128 then 0%nat else if b <=? 183 then 1%nat else Z.to_nat (1 + (b - 183)).
Definition sp_rlp_decode (n : nat) (bs : list Z) : option Z :=
  sp_decode_at sp_rlp_header sp_rlp_payload (sp_rlp_header_size bs) n bs.
(* the first item of a list payload: the prefix that is a canonical encoding (RLP items are prefix-free) *)
Definition sp_rlp_decode_item (n : nat) (bs : list Z) : option Z :=
  match find (fun k => match sp_rlp_decode n (firstn k bs) with Some _ => true | None => false end)
             (seq 0 (S (length bs))) with
  | Some k => sp_rlp_decode n (firstn k bs)
  | None => None
  end.

(* ------------------------------------------------------------------------------------------ *)
(** * Op tables *)
Open Scope string_scope. Open Scope Z_scope. Open Scope list_scope.

Definition out_limbs (r : res (list Z)) : outcome :=
  match r with Ok v => Val [v] | Er c => ErrV c | Pn => PanicV end.
Definition out_bytes := out_limbs.
Definition out_scalar (r : res Z) : outcome :=
  match r with Ok v => Val [[v]] | Er c => ErrV c | Pn => PanicV end.
Definition out_pair (r : res (list Z * Z)) : outcome :=
  match r with Ok p => Val [fst p; [snd p]] | Er c => ErrV c | Pn => PanicV end.

Definition ops_der_model : list (string * opfn) := [
  ("der.encode", fun _ a => out_bytes (der_encode (arg 0 a)));
  ("der.encoded_len", fun _ a => out_scalar (der_encoded_len (arg 0 a)));
  ("der.value_len", fun _ a => out_scalar (der_value_len (arg 0 a)));
  ("der.encode_value", fun _ a => out_bytes (der_encode_value (arg 0 a)));
  ("der.from_der", fun _ a => out_limbs (der_decode true (cv_nat 1 a) (arg 0 a)));
  ("der.from_any", fun _ a => out_limbs (der_from_any true (cv_nat 1 a) (arg 0 a)));
  ("der.from_any_parts", fun _ a => out_limbs (der_from_any_parts true (cv_nat 2 a) (sarg 0 a) (arg 1 a)));
  ("der.from_uintref", fun _ a => out_limbs (der_from_uintref true (cv_nat 1 a) (arg 0 a)));
  ("der.decode_value", fun _ a => out_pair (der_decode_value true (cv_nat 2 a) (sarg 0 a) (arg 1 a)));
  ("rlp.encode", fun _ a => Val [rlp_encode (arg 0 a)]);
  ("rlp.decode", fun _ a => out_limbs (rlp_decode true (cv_nat 1 a) (arg 0 a)));
  ("rlp.decode_item", fun _ a => out_limbs (rlp_decode_item true (cv_nat 1 a) (arg 0 a)));
  (* the code as found (before tools/fix_C18_*.diff): diagnostics only, see tools/vlib/c18.py *)
  ("der.from_der_orig", fun _ a => out_limbs (der_decode false (cv_nat 1 a) (arg 0 a)));
  ("der.from_any_orig", fun _ a => out_limbs (der_from_any false (cv_nat 1 a) (arg 0 a)));
  ("der.from_any_parts_orig", fun _ a => out_limbs (der_from_any_parts false (cv_nat 2 a) (sarg 0 a) (arg 1 a)));
  ("der.from_uintref_orig", fun _ a => out_limbs (der_from_uintref false (cv_nat 1 a) (arg 0 a)));
  ("der.decode_value_orig", fun _ a => out_pair (der_decode_value false (cv_nat 2 a) (sarg 0 a) (arg 1 a)));
  ("rlp.decode_orig", fun _ a => out_limbs (rlp_decode false (cv_nat 1 a) (arg 0 a)));
  ("rlp.decode_item_orig", fun _ a => out_limbs (rlp_decode_item false (cv_nat 1 a) (arg 0 a)))
].

(* ---- spec table ---- *)
(* The property fixes WHICH inputs are rejected, not the error kind: the spec takes the kind from the model
   (a model that does not return an error where the spec demands one shows up as [ErrV 0]). *)
Definition sp_reject (m : outcome) : outcome := match m with ErrV c => ErrV c | _ => ErrV 0 end.
Definition sp_dec (o : option Z) (n : nat) (m : outcome) : outcome :=
  match o with Some v => Val [to_limbs n v] | None => sp_reject m end.
(* widths for which the der crate can frame the value at all: 1 + 5 + (8n + 1) <= Length::MAX *)
Definition sp_der_width_ok (n : nat) : bool := 8 * Z.of_nat n + 7 <=? LEN_MAX.
(* RlpStream writes the payload length as a u32 *)
Definition sp_rlp_width_ok (n : nat) : bool := 8 * Z.of_nat n <? 4294967296.
Definition sp_len_ok (bs : list Z) : bool := lenZ bs <=? LEN_MAX.
(* Uint<0> has no DER codec (no ArrayEncoding impl): the decoders are specified for N >= 1 *)
Definition sp_n_ok (n : nat) : bool := negb (Nat.eqb n 0).

Definition sp_from_der (m : nat -> list Z -> res (list Z)) (a : list (list Z)) : outcome :=
  let n := cv_nat 1 a in let bs := arg 0 a in
  sp_bytes_arg bs (if sp_len_ok bs && sp_n_ok n then sp_dec (sp_der_decode n bs) n (out_limbs (m n bs)) else Unsupported).
(* tag octet + content octets: accepted iff INTEGER and the content is the canonical content of a value that fits *)
Definition sp_from_any_parts (fx : bool) (a : list (list Z)) : outcome :=
  let n := cv_nat 2 a in let tb := sarg 0 a in let value := arg 1 a in
  sp_bytes_arg value (
    if negb ((0 <=? tb) && (tb <? 256) && sp_len_ok value && sp_n_ok n) then Unsupported
    else
      let v := horner 256 value in
      sp_dec (if (tb =? 2) && list_eqb (sp_der_content v) value && (v <? Bn n) then Some v else None) n
             (out_limbs (der_from_any_parts fx n tb value))).
(* UintRef::new takes a big-endian magnitude with any number of leading zeros *)
Definition sp_from_uintref (fx : bool) (a : list (list Z)) : outcome :=
  let n := cv_nat 1 a in let bs := arg 0 a in
  sp_bytes_arg bs (
    if negb (sp_len_ok bs && sp_n_ok n) then Unsupported
    else let v := horner 256 bs in
         sp_dec (if v <? Bn n then Some v else None) n (out_limbs (der_from_uintref fx n bs))).
(* decode_value reads exactly header-length content octets *)
Definition sp_decode_value (fx : bool) (a : list (list Z)) : outcome :=
  let n := cv_nat 2 a in let hlen := sarg 0 a in let bs := arg 1 a in
  sp_bytes_arg bs (
    if negb ((0 <=? hlen) && (hlen <=? LEN_MAX) && sp_len_ok bs && sp_n_ok n) then Unsupported
    else
      let m := out_pair (der_decode_value fx n hlen bs) in
      if lenZ bs <? hlen then sp_reject m
      else
        let c := firstn (Z.to_nat hlen) bs in
        let v := horner 256 c in
        if list_eqb (sp_der_content v) c && (v <? Bn n) then Val [to_limbs n v; [lenZ bs - hlen]]
        else sp_reject m).
Definition sp_rlp_dec (fx : bool) (a : list (list Z)) : outcome :=
  let n := cv_nat 1 a in let bs := arg 0 a in
  sp_bytes_arg bs (if lenZ bs <? USIZE then sp_dec (sp_rlp_decode n bs) n (out_limbs (rlp_decode fx n bs)) else Unsupported).
Definition sp_rlp_dec_item (fx : bool) (a : list (list Z)) : outcome :=
  let n := cv_nat 1 a in let bs := arg 0 a in
  sp_bytes_arg bs (if lenZ bs <? USIZE then sp_dec (sp_rlp_decode_item n bs) n (out_limbs (rlp_decode_item fx n bs)) else Unsupported).
Definition sp_enc (ok : bool) (a : list (list Z)) (f : Z -> outcome) : outcome :=
  if wfb (arg 0 a) && negb (Nat.eqb (ln 0 a) 0) && ok then f (ev 0 a) else Unsupported.

Definition ops_der_spec : list (string * opfn) := [
  ("der.encode", fun _ a => sp_enc (sp_der_width_ok (ln 0 a)) a (fun x => Val [sp_der_encode x]));
  ("der.encoded_len", fun _ a => sp_enc (sp_der_width_ok (ln 0 a)) a (fun x => Val [[lenZ (sp_der_encode x)]]));
  ("der.value_len", fun _ a => sp_enc (sp_der_width_ok (ln 0 a)) a (fun x => Val [[sp_der_content_len x]]));
  ("der.encode_value", fun _ a => sp_enc (sp_der_width_ok (ln 0 a)) a (fun x => Val [sp_der_content x]));
  ("der.from_der", fun _ a => sp_from_der (der_decode true) a);
  ("der.from_any", fun _ a => sp_from_der (der_from_any true) a);
  ("der.from_any_parts", fun _ a => sp_from_any_parts true a);
  ("der.from_uintref", fun _ a => sp_from_uintref true a);
  ("der.decode_value", fun _ a => sp_decode_value true a);
  ("rlp.encode", fun _ a => sp_enc (sp_rlp_width_ok (ln 0 a)) a (fun x => Val [sp_rlp_encode x]));
  ("rlp.decode", fun _ a => sp_rlp_dec true a);
  ("rlp.decode_item", fun _ a => sp_rlp_dec_item true a);
  ("der.from_der_orig", fun _ a => sp_from_der (der_decode false) a);
  ("der.from_any_orig", fun _ a => sp_from_der (der_from_any false) a);
  ("der.from_any_parts_orig", fun _ a => sp_from_any_parts false a);
  ("der.from_uintref_orig", fun _ a => sp_from_uintref false a);
  ("der.decode_value_orig", fun _ a => sp_decode_value false a);
  ("rlp.decode_orig", fun _ a => sp_rlp_dec false a);
  ("rlp.decode_item_orig", fun _ a => sp_rlp_dec_item false a)
].
