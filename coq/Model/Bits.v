(** C05: shifts, bit queries and bitwise operators on Limb, Uint<N>, Int<N>, BoxedUint.
    L0 = limb-level models that follow the Rust loops (src/uint/shl.rs, shr.rs, bits.rs, bit_*.rs,
    src/int/shr.rs, src/uint/boxed/shl.rs, shr.rs, src/limb/shl.rs, shr.rs, bits.rs);
    Spec = the binary expansion of the represented integer (plain Z arithmetic / Z.testbit).
    Executable definitions only; proofs live in Proofs/Bits*.v. *)
From CB Require Export Model.Limbs.
From CB Require Import Model.AddSub.   (* select_limbs, maxs *)
Open Scope Z_scope.

(* ------------------------------------------------------------------ u32 helpers (const_choice.rs) *)
Definition U32 : Z := 2 ^ 32.
Definition u32_not (x : Z) : Z := U32 - 1 - x.
Definition u32_wsub (x y : Z) : Z := (x - y) mod U32.
Definition u32_wneg (x : Z) : Z := (- x) mod U32.
Definition from_u32_lsb (v : Z) : Z := wneg v.                     (* (value as Word).wrapping_neg() *)
Definition from_u32_nonzero (v : Z) : Z := from_u32_lsb (Z.lor v (u32_wneg v) / 2 ^ 31).
Definition from_u32_eq (x y : Z) : Z := wnot (from_u32_nonzero (Z.lxor x y)).
Definition from_u32_lt (x y : Z) : Z :=
  let bit := Z.lor (Z.land (u32_not x) y) (Z.land (Z.lor (u32_not x) y) (u32_wsub x y)) / 2 ^ 31 in
  from_u32_lsb bit.
Definition choice_not (c : Z) : Z := wnot c.
Definition choice_and (a b : Z) : Z := wand a b.
Definition as_u32_mask (c : Z) : Z := c mod U32.                     (* self.0 as u32 *)
Definition if_true_u32 (c x : Z) : Z := Z.land x (as_u32_mask c).

(* machine intrinsics of u64 / u32: number of significant bits, leading / trailing zero count *)
Definition bitlen (x : Z) : Z := if x <=? 0 then 0 else Z.log2 x + 1.
Definition wlz (x : Z) : Z := 64 - bitlen x.                         (* u64::leading_zeros *)
Definition u32_lz (x : Z) : Z := 32 - bitlen x.                      (* u32::leading_zeros *)
Fixpoint ctz_fuel (f : nat) (x : Z) : Z :=
  match f with
  | O => 0
  | S f' => if Z.odd x then 0 else 1 + ctz_fuel f' (x / 2)
  end.
Definition wtz (x : Z) : Z := if x =? 0 then 64 else ctz_fuel 64 x.  (* u64::trailing_zeros *)
Definition wto (x : Z) : Z := wtz (wnot x).                          (* u64::trailing_ones *)

(* a ConstCtOption<Uint> is the pair (value, is_some) *)
Definition ctopt : Type := (list Z * Z)%type.
Definition ct_some (v : list Z) : ctopt := (v, MAXW).
Definition ct_none (v : list Z) : ctopt := (v, 0).
Definition ct_is_some (o : ctopt) : bool := choice_to_bool (snd o).
(* expect / unwrap: None here = the call panics *)
Definition ct_expect (o : ctopt) : option (list Z) := if snd o =? MAXW then Some (fst o) else None.
Definition ct_unwrap_or (o : ctopt) (def : list Z) : list Z := select_limbs (snd o) def (fst o).

(* ------------------------------------------------------------------ src/uint/shl.rs *)
(* second loop of overflowing_shl_vartime: limbs[i] = (limbs[i] << rem) | carry; carry = limbs[i] >> (64 - rem) *)
Fixpoint shl_carry (ls : list Z) (rem carry : Z) : list Z :=
  match ls with
  | [] => []
  | x :: r => wor (wshl x rem) carry :: shl_carry r rem (wshr x (64 - rem))
  end.

Definition uint_overflowing_shl_vartime (a : list Z) (shift : Z) : ctopt :=
  let n := length a in
  if 64 * Z.of_nat n <=? shift then ct_none (zeros n) else
  let sn := Z.to_nat (shift / 64) in
  let rem := shift mod 64 in
  let moved := firstn (n - sn) a in                 (* limbs[i] = self.limbs[i - shift_num], i >= shift_num *)
  if rem =? 0 then ct_some (zeros sn ++ moved)
  else ct_some (zeros sn ++ shl_carry moved rem 0).

(* ------------------------------------------------------------------ src/uint/shr.rs *)
(* the downward loop: limbs[i] = (limbs[i] >> rem) | carry; carry = limbs[i] << (64 - rem).
   The list is processed from its most significant limb; [c0] is the carry entering at the top. *)
Fixpoint shr_carry (ls : list Z) (rem c0 : Z) : list Z * Z :=
  match ls with
  | [] => ([], c0)
  | x :: r => let '(r', c) := shr_carry r rem c0 in (wor (wshr x rem) c :: r', wshl x (64 - rem))
  end.

Definition uint_overflowing_shr_vartime (a : list Z) (shift : Z) : ctopt :=
  let n := length a in
  if 64 * Z.of_nat n <=? shift then ct_none (zeros n) else
  let sn := Z.to_nat (shift / 64) in
  let rem := shift mod 64 in
  let moved := skipn sn a in                        (* limbs[i] = self.limbs[i + shift_num], i < LIMBS - shift_num *)
  if rem =? 0 then ct_some (moved ++ zeros sn)
  else ct_some (fst (shr_carry moved rem 0) ++ zeros sn).

(* ------------------------------------------------------------------ the constant-time ladder *)
(* shift_bits = u32::BITS - (BITS - 1).leading_zeros() *)
Definition shift_bits (bits : Z) : Z := 32 - u32_lz (bits - 1).

(* for i in k steps starting at i: result = select(result, step(result, 1 << i).expect(..), (shift >> i) & 1).
   None = the inner expect panicked. *)
Fixpoint ladder (step : list Z -> Z -> ctopt) (k : nat) (i shift : Z) (r : list Z) : option (list Z) :=
  match k with
  | O => Some r
  | S k' =>
      match ct_expect (step r (2 ^ i)) with
      | None => None
      | Some sh => ladder step k' (i + 1) shift (select_limbs (from_u32_lsb (Z.land (shift / 2 ^ i) 1)) r sh)
      end
  end.

Definition uint_overflowing_shl (a : list Z) (shift : Z) : option ctopt :=
  let bits := 64 * lenZ a in
  let overflow := choice_not (from_u32_lt shift bits) in
  let sh := shift mod bits in
  match ladder uint_overflowing_shl_vartime (Z.to_nat (shift_bits bits)) 0 sh a with
  | None => None
  | Some r => Some (select_limbs overflow r (zeros (length a)), choice_not overflow)
  end.

Definition uint_overflowing_shr (a : list Z) (shift : Z) : option ctopt :=
  let bits := 64 * lenZ a in
  let overflow := choice_not (from_u32_lt shift bits) in
  let sh := shift mod bits in
  match ladder uint_overflowing_shr_vartime (Z.to_nat (shift_bits bits)) 0 sh a with
  | None => None
  | Some r => Some (select_limbs overflow r (zeros (length a)), choice_not overflow)
  end.

(* limb-wise bitwise operators *)
Definition limbs_or (a b : list Z) : list Z := map (fun p => wor (fst p) (snd p)) (combine a b).
Definition limbs_and (a b : list Z) : list Z := map (fun p => wand (fst p) (snd p)) (combine a b).
Definition limbs_xor (a b : list Z) : list Z := map (fun p => wxor (fst p) (snd p)) (combine a b).
Definition limbs_not (a : list Z) : list Z := map wnot a.
Definition limbs_and_limb (a : list Z) (l : Z) : list Z := map (fun x => wand x l) a.

(* double-width shifts: outer None = a panic (an inner expect failed); inner None = ConstCtOption::none *)
Definition wide_res : Type := option (option (list Z * list Z)).
Definition uint_shl_vartime_wide (lo hi : list Z) (shift : Z) : wide_res :=
  let bits := 64 * lenZ lo in
  if 2 * bits <=? shift then Some None
  else if bits <=? shift then
    match ct_expect (uint_overflowing_shl_vartime lo (shift - bits)) with
    | None => None
    | Some upper => Some (Some (zeros (length lo), upper))
    end
  else if shift =? 0 then Some (Some (lo, hi))
  else
    match ct_expect (uint_overflowing_shl_vartime lo shift),
          ct_expect (uint_overflowing_shr_vartime lo (bits - shift)),
          ct_expect (uint_overflowing_shl_vartime hi shift) with
    | Some new_lower, Some upper_lo, Some upper_hi => Some (Some (new_lower, limbs_or upper_lo upper_hi))
    | _, _, _ => None
    end.

Definition uint_shr_vartime_wide (lo hi : list Z) (shift : Z) : wide_res :=
  let bits := 64 * lenZ lo in
  if 2 * bits <=? shift then Some None
  else if bits <=? shift then
    match ct_expect (uint_overflowing_shr_vartime hi (shift - bits)) with
    | None => None
    | Some lower => Some (Some (lower, zeros (length lo)))
    end
  else if shift =? 0 then Some (Some (lo, hi))
  else
    match ct_expect (uint_overflowing_shr_vartime hi shift),
          ct_expect (uint_overflowing_shl_vartime hi (bits - shift)),
          ct_expect (uint_overflowing_shr_vartime lo shift) with
    | Some new_upper, Some lower_hi, Some lower_lo => Some (Some (limbs_or lower_lo lower_hi, new_upper))
    | _, _, _ => None
    end.

(* ------------------------------------------------------------------ src/int/shr.rs *)
Definition int_is_negative (a : list Z) : Z := from_word_msb (last a 0).
Definition int_sign_fill (a : list Z) : list Z := select_limbs (int_is_negative a) (zeros (length a)) (maxs (length a)).

Definition int_overflowing_shr_vartime (a : list Z) (shift : Z) : ctopt :=
  let n := length a in
  let neg := int_is_negative a in
  if 64 * Z.of_nat n <=? shift then ct_none (int_sign_fill a) else
  let base := select_word neg 0 MAXW in
  let sn := Z.to_nat (shift / 64) in
  let rem := shift mod 64 in
  let moved := skipn sn a in
  if rem =? 0 then ct_some (moved ++ repeat base sn)
  else
    let carry0 := select_word neg 0 MAXW in
    let carry := wxor carry0 (wshr carry0 rem) in
    ct_some (fst (shr_carry moved rem carry) ++ repeat base sn).

Definition int_overflowing_shr (a : list Z) (shift : Z) : option ctopt :=
  let bits := 64 * lenZ a in
  let overflow := choice_not (from_u32_lt shift bits) in
  let sh := shift mod bits in
  match ladder int_overflowing_shr_vartime (Z.to_nat (shift_bits bits)) 0 sh a with
  | None => None
  | Some r => Some (r, choice_not overflow)
  end.

(* ------------------------------------------------------------------ src/uint/boxed/shl.rs, shr.rs *)
(* shl_vartime_into has the same two loops as the Uint version (dest pre-zeroized) *)
Definition boxed_shl_vartime_into (a : list Z) (shift : Z) : ctopt := uint_overflowing_shl_vartime a shift.

(* shr_vartime_into: dest[i] = (dest[i] >> rem) | (dest[i+1] << (64 - rem)) upwards, the last one only shifted *)
Fixpoint shr_pairs (ls : list Z) (rem : Z) : list Z :=
  match ls with
  | [] => []
  | x :: r =>
      match r with
      | [] => [wshr x rem]
      | y :: _ => wor (wshr x rem) (wshl y (64 - rem)) :: shr_pairs r rem
      end
  end.

Definition boxed_shr_vartime_into (a : list Z) (shift : Z) : ctopt :=
  let n := length a in
  if 64 * Z.of_nat n <=? shift then ct_none (zeros n) else
  let sn := Z.to_nat (shift / 64) in
  let rem := shift mod 64 in
  let moved := skipn sn a in
  if rem =? 0 then ct_some (moved ++ zeros sn)
  else ct_some (shr_pairs moved rem ++ zeros sn).

(* overflowing_sh{l,r}_assign: overflow = !shift.ct_lt(bits) (subtle), ladder with ct_assign, conditional_set_zero.
   Result: None = panic, else (value, overflow as bool). *)
Definition boxed_overflowing_shift (step : list Z -> Z -> ctopt) (a : list Z) (shift : Z) : option (list Z * bool) :=
  let bits := 64 * lenZ a in
  let overflow := negb (shift <? bits) in
  let sh := shift mod bits in
  match ladder step (Z.to_nat (shift_bits bits)) 0 sh a with
  | None => None
  | Some r => Some (select_limbs (choice_of_bool overflow) r (zeros (length a)), overflow)
  end.
Definition boxed_overflowing_shl := boxed_overflowing_shift boxed_shl_vartime_into.
Definition boxed_overflowing_shr := boxed_overflowing_shift boxed_shr_vartime_into.

(* ------------------------------------------------------------------ src/uint/bits.rs *)
Fixpoint bit_loop (ls : list Z) (i limb_num mask result : Z) : Z :=
  match ls with
  | [] => result
  | x :: r => bit_loop r (i + 1) limb_num mask (wor result (if_true_word (from_u32_eq i limb_num) (wand x mask)))
  end.
Definition limbs_bit (ls : list Z) (index : Z) : Z :=
  let limb_num := index / 64 in
  let iil := index mod 64 in
  let mask := wshl 1 iil in
  from_word_lsb (wshr (bit_loop ls 0 limb_num mask 0) iil).

Definition limbs_bit_vartime (ls : list Z) (index : Z) : bool :=
  let limb_num := index / 64 in
  let iil := index mod 64 in
  if lenZ ls <=? limb_num then false
  else Z.land (wshr (nthz ls (Z.to_nat limb_num)) iil) 1 =? 1.

(* leading_zeros scans from the most significant limb down: returns (count, nonzero_limb_not_encountered) *)
Fixpoint lz_scan (ls : list Z) : Z * Z :=
  match ls with
  | [] => (0, MAXW)
  | l :: r => let '(count, nz) := lz_scan r in
              (count + if_true_u32 nz (wlz l), choice_and nz (choice_not (from_word_nonzero l)))
  end.
Definition limbs_leading_zeros (ls : list Z) : Z := fst (lz_scan ls).

Fixpoint tz_loop (ls : list Z) (count nz : Z) : Z :=
  match ls with
  | [] => count
  | l :: r => tz_loop r (count + if_true_u32 nz (wtz l)) (choice_and nz (choice_not (from_word_nonzero l)))
  end.
Definition limbs_trailing_zeros (ls : list Z) : Z := tz_loop ls 0 MAXW.

Fixpoint to_loop (ls : list Z) (count nm : Z) : Z :=
  match ls with
  | [] => count
  | l :: r => to_loop r (count + if_true_u32 nm (wto l)) (choice_and nm (from_word_eq l MAXW))
  end.
Definition limbs_trailing_ones (ls : list Z) : Z := to_loop ls 0 MAXW.

Fixpoint tz_vartime_loop (ls : list Z) (count : Z) : Z :=
  match ls with
  | [] => count
  | l :: r => let z := wtz l in if z =? 64 then tz_vartime_loop r (count + z) else count + z
  end.
Definition limbs_trailing_zeros_vartime (ls : list Z) : Z := tz_vartime_loop ls 0.
Fixpoint to_vartime_loop (ls : list Z) (count : Z) : Z :=
  match ls with
  | [] => count
  | l :: r => let z := wto l in if z =? 64 then to_vartime_loop r (count + z) else count + z
  end.
Definition limbs_trailing_ones_vartime (ls : list Z) : Z := to_vartime_loop ls 0.

(* bits_vartime: i = len - 1; while i > 0 && limbs[i] == 0 { i -= 1 }; 64 * (i + 1) - lz(limbs[i]).
   [top_nonzero ls i] = the highest (index, limb) with a non-zero limb, indices counted from i. *)
Fixpoint top_nonzero (ls : list Z) (i : Z) : option (Z * Z) :=
  match ls with
  | [] => None
  | x :: r => match top_nonzero r (i + 1) with
              | Some p => Some p
              | None => if x =? 0 then None else Some (i, x)
              end
  end.
Definition limbs_bits_vartime (ls : list Z) : option Z :=   (* None: `limbs.len() - 1` underflows, the call panics *)
  match ls with
  | [] => None
  | x0 :: r => match top_nonzero r 1 with
               | Some (i, l) => Some (64 * (i + 1) - wlz l)
               | None => Some (64 - wlz x0)
               end
  end.

Fixpoint set_bit_loop (ls : list Z) (i limb_num mask bitv : Z) : list Z :=
  match ls with
  | [] => []
  | old :: r =>
      let new := select_word bitv (wand old (wnot mask)) (wor old mask) in
      select_word (from_u32_eq i limb_num) old new :: set_bit_loop r (i + 1) limb_num mask bitv
  end.
Definition limbs_set_bit (ls : list Z) (index : Z) (bitv : Z) : list Z :=
  set_bit_loop ls 0 (index / 64) (wshl 1 (index mod 64)) bitv.

Fixpoint update_nth (ls : list Z) (k : nat) (f : Z -> Z) : list Z :=
  match ls, k with
  | [], _ => []
  | x :: r, O => f x :: r
  | x :: r, S k' => x :: update_nth r k' f
  end.
Definition limbs_set_bit_vartime (ls : list Z) (index : Z) (b : bool) : option (list Z) := (* None = index out of bounds panic *)
  let limb_num := index / 64 in
  let mask := wshl 1 (index mod 64) in
  if lenZ ls <=? limb_num then None
  else Some (update_nth ls (Z.to_nat limb_num) (fun x => if b then wor x mask else wand x (wnot mask))).

(* BoxedUint::map_limbs pads the shorter operand with zero limbs *)
Definition boxed_map2 (f : list Z -> list Z -> list Z) (a b : list Z) : list Z :=
  let n := Nat.max (length a) (length b) in f (resize n a) (resize n b).

(* BoxedUint |= rhs: `*self = BoxedUint::bitor(self, other)`, like &= and ^= *)
Definition boxed_or_assign (a b : list Z) : list Z := boxed_map2 limbs_or a b.

(* ------------------------------------------------------------------ Spec: the binary expansion *)
Definition spec_shl (n : nat) (x s : Z) : Z := (x * 2 ^ s) mod Bn n.
Definition spec_shr (x s : Z) : Z := x / 2 ^ s.
(* arithmetic shift of the signed reading, re-encoded in two's complement *)
Definition spec_sar (n : nat) (sx s : Z) : Z := (sx / 2 ^ s) mod Bn n.
Definition spec_bits (v : Z) : Z := if v <=? 0 then 0 else Z.log2 v + 1.
(* least j in [i, i + k) whose bit equals b, else i + k *)
Fixpoint first_bit (b : bool) (k : nat) (i v : Z) : Z :=
  match k with
  | O => i
  | S k' => if Bool.eqb (Z.testbit v i) b then i else first_bit b k' (i + 1) v
  end.
Definition spec_trailing_zeros (bits : nat) (v : Z) : Z := first_bit true bits 0 v.
Definition spec_trailing_ones (bits : nat) (v : Z) : Z := first_bit false bits 0 v.
Definition spec_set_bit (v i : Z) (b : bool) : Z := v + 2 ^ i * (b2z b - b2z (Z.testbit v i)).

(* ------------------------------------------------------------------ op tables *)
Open Scope string_scope. Open Scope Z_scope.

Definition ev (i : nat) (a : list (list Z)) : Z := eval (arg i a).
Definition ln (i : nat) (a : list (list Z)) : nat := length (arg i a).
Definition bitsn (n : nat) : Z := 64 * Z.of_nat n.
Definition sp_val (n : nat) (x : Z) : outcome := Val [to_limbs n x].
Definition vu32 (x : Z) : outcome := Val [[x]].
Definition vb (b : bool) : outcome := Val [vbool b].

(* ConstCtOption -> Option *)
Definition out_ctopt (o : option ctopt) : outcome :=
  match o with None => PanicV | Some c => if ct_is_some c then Val [fst c] else NoneV end.
Definition out_expect (o : option ctopt) : outcome :=
  match o with None => PanicV | Some c => match ct_expect c with Some v => Val [v] | None => PanicV end end.
Definition out_unwrap_or (o : option ctopt) (def : list Z) : outcome :=
  match o with None => PanicV | Some c => Val [ct_unwrap_or c def] end.
Definition out_wide (r : wide_res) : outcome :=
  match r with None => PanicV | Some None => NoneV | Some (Some (l, h)) => Val [l; h] end.
(* operator forms convert the shift with u32::try_from(..).expect("invalid shift") *)
Definition fits_u32 (s : Z) : bool := (0 <=? s) && (s <? U32).
Definition guard_u32 (s : Z) (o : outcome) : outcome := if fits_u32 s then o else PanicV.
Definition out_boxed_pair (o : option (list Z * bool)) : outcome :=
  match o with None => PanicV | Some (v, ovf) => Val [v; vbool ovf] end.
Definition out_boxed_panic (o : option (list Z * bool)) : outcome :=
  match o with None => PanicV | Some (v, ovf) => if ovf then PanicV else Val [v] end.
Definition out_boxed_wrapping (o : option (list Z * bool)) : outcome :=
  match o with None => PanicV | Some (v, ovf) => Val [v] end.
Definition out_boxed_opt (o : option (list Z * bool)) : outcome :=
  match o with None => PanicV | Some (v, ovf) => if ovf then NoneV else Val [v] end.
Definition out_opt_std (c : ctopt) : outcome := if ct_is_some c then Val [fst c] else NoneV.
Definition out_optZ (o : option Z) : outcome := match o with Some x => vu32 x | None => PanicV end.
Definition out_optL (o : option (list Z)) : outcome := match o with Some x => Val [x] | None => PanicV end.

(* Limb << / >> : `assert!(shift < Self::BITS)` in both profiles; the operator forms convert the shift with
   u32::try_from(..).expect("invalid shift") first *)
Definition limb_shift (left dbg : bool) (x s : Z) : outcome :=
  if negb (fits_u32 s) then PanicV
  else if 64 <=? s then PanicV
  else Val [[if left then wshl x s else wshr x s]].

Definition ops_bits_model : list (string * opfn) := [
  (* Limb *)
  ("limb.shl", fun dbg a => limb_shift true dbg (sarg 0 a) (sarg 1 a));
  ("limb.shr", fun dbg a => limb_shift false dbg (sarg 0 a) (sarg 1 a));
  ("limb.wrapping_shl", fun _ a => Val [[wshl (sarg 0 a) (sarg 1 a mod 64)]]);
  ("limb.wrapping_shr", fun _ a => Val [[wshr (sarg 0 a) (sarg 1 a mod 64)]]);
  ("limb.bits", fun _ a => vu32 (64 - wlz (sarg 0 a)));
  ("limb.leading_zeros", fun _ a => vu32 (wlz (sarg 0 a)));
  ("limb.trailing_zeros", fun _ a => vu32 (wtz (sarg 0 a)));
  ("limb.trailing_ones", fun _ a => vu32 (wto (sarg 0 a)));
  ("limb.and", fun _ a => Val [[wand (sarg 0 a) (sarg 1 a)]]);
  ("limb.or", fun _ a => Val [[wor (sarg 0 a) (sarg 1 a)]]);
  ("limb.xor", fun _ a => Val [[wxor (sarg 0 a) (sarg 1 a)]]);
  ("limb.not", fun _ a => Val [[wnot (sarg 0 a)]]);
  (* Uint (and Int::shl*, which forward to Uint) *)
  ("uint.overflowing_shl", fun _ a => out_ctopt (uint_overflowing_shl (arg 0 a) (sarg 1 a)));
  ("uint.overflowing_shl_vartime", fun _ a => out_ctopt (Some (uint_overflowing_shl_vartime (arg 0 a) (sarg 1 a))));
  ("uint.shl", fun _ a => guard_u32 (sarg 1 a) (out_expect (uint_overflowing_shl (arg 0 a) (sarg 1 a))));
  ("uint.shl_vartime", fun _ a => out_expect (Some (uint_overflowing_shl_vartime (arg 0 a) (sarg 1 a))));
  ("uint.wrapping_shl", fun _ a => out_unwrap_or (uint_overflowing_shl (arg 0 a) (sarg 1 a)) (zeros (ln 0 a)));
  ("uint.wrapping_shl_vartime", fun _ a => out_unwrap_or (Some (uint_overflowing_shl_vartime (arg 0 a) (sarg 1 a))) (zeros (ln 0 a)));
  ("uint.overflowing_shr", fun _ a => out_ctopt (uint_overflowing_shr (arg 0 a) (sarg 1 a)));
  ("uint.overflowing_shr_vartime", fun _ a => out_ctopt (Some (uint_overflowing_shr_vartime (arg 0 a) (sarg 1 a))));
  ("uint.shr", fun _ a => guard_u32 (sarg 1 a) (out_expect (uint_overflowing_shr (arg 0 a) (sarg 1 a))));
  ("uint.shr_vartime", fun _ a => out_expect (Some (uint_overflowing_shr_vartime (arg 0 a) (sarg 1 a))));
  ("uint.wrapping_shr", fun _ a => out_unwrap_or (uint_overflowing_shr (arg 0 a) (sarg 1 a)) (zeros (ln 0 a)));
  ("uint.wrapping_shr_vartime", fun _ a => out_unwrap_or (Some (uint_overflowing_shr_vartime (arg 0 a) (sarg 1 a))) (zeros (ln 0 a)));
  ("uint.shl_vartime_wide", fun _ a => out_wide (uint_shl_vartime_wide (arg 0 a) (arg 1 a) (sarg 2 a)));
  ("uint.shr_vartime_wide", fun _ a => out_wide (uint_shr_vartime_wide (arg 0 a) (arg 1 a) (sarg 2 a)));
  (* Int arithmetic right shift *)
  ("int.overflowing_shr", fun _ a => out_ctopt (int_overflowing_shr (arg 0 a) (sarg 1 a)));
  ("int.overflowing_shr_vartime", fun _ a => out_ctopt (Some (int_overflowing_shr_vartime (arg 0 a) (sarg 1 a))));
  ("int.shr", fun _ a => guard_u32 (sarg 1 a) (out_expect (int_overflowing_shr (arg 0 a) (sarg 1 a))));
  ("int.shr_vartime", fun _ a => out_expect (Some (int_overflowing_shr_vartime (arg 0 a) (sarg 1 a))));
  ("int.wrapping_shr", fun _ a => out_unwrap_or (int_overflowing_shr (arg 0 a) (sarg 1 a)) (int_sign_fill (arg 0 a)));
  ("int.wrapping_shr_vartime", fun _ a => out_unwrap_or (Some (int_overflowing_shr_vartime (arg 0 a) (sarg 1 a))) (int_sign_fill (arg 0 a)));
  (* BoxedUint *)
  ("boxed.overflowing_shl", fun _ a => out_boxed_pair (boxed_overflowing_shl (arg 0 a) (sarg 1 a)));
  ("boxed.shl", fun _ a => guard_u32 (sarg 1 a) (out_boxed_panic (boxed_overflowing_shl (arg 0 a) (sarg 1 a))));
  ("boxed.wrapping_shl", fun _ a => out_boxed_wrapping (boxed_overflowing_shl (arg 0 a) (sarg 1 a)));
  ("boxed.overflowing_shl_opt", fun _ a => out_boxed_opt (boxed_overflowing_shl (arg 0 a) (sarg 1 a)));
  ("boxed.shl_vartime", fun _ a => out_opt_std (boxed_shl_vartime_into (arg 0 a) (sarg 1 a)));
  ("boxed.wrapping_shl_vartime", fun _ a => Val [fst (boxed_shl_vartime_into (arg 0 a) (sarg 1 a))]);
  ("boxed.overflowing_shr", fun _ a => out_boxed_pair (boxed_overflowing_shr (arg 0 a) (sarg 1 a)));
  ("boxed.shr", fun _ a => guard_u32 (sarg 1 a) (out_boxed_panic (boxed_overflowing_shr (arg 0 a) (sarg 1 a))));
  ("boxed.wrapping_shr", fun _ a => out_boxed_wrapping (boxed_overflowing_shr (arg 0 a) (sarg 1 a)));
  ("boxed.overflowing_shr_opt", fun _ a => out_boxed_opt (boxed_overflowing_shr (arg 0 a) (sarg 1 a)));
  ("boxed.shr_vartime", fun _ a => out_opt_std (boxed_shr_vartime_into (arg 0 a) (sarg 1 a)));
  ("boxed.wrapping_shr_vartime", fun _ a => Val [fst (boxed_shr_vartime_into (arg 0 a) (sarg 1 a))]);
  (* bit queries on limb slices (Uint, BoxedUint) *)
  ("bits.bit", fun _ a => vb (choice_to_bool (limbs_bit (arg 0 a) (sarg 1 a))));
  ("bits.bit_vartime", fun _ a => vb (limbs_bit_vartime (arg 0 a) (sarg 1 a)));
  ("bits.bits", fun _ a => vu32 (bitsn (ln 0 a) - limbs_leading_zeros (arg 0 a)));
  ("bits.bits_vartime", fun _ a => out_optZ (limbs_bits_vartime (arg 0 a)));
  ("bits.leading_zeros", fun _ a => vu32 (limbs_leading_zeros (arg 0 a)));
  ("bits.leading_zeros_vartime", fun _ a =>
     out_optZ (match limbs_bits_vartime (arg 0 a) with Some b => Some (bitsn (ln 0 a) - b) | None => None end));
  ("bits.trailing_zeros", fun _ a => vu32 (limbs_trailing_zeros (arg 0 a)));
  ("bits.trailing_zeros_vartime", fun _ a => vu32 (limbs_trailing_zeros_vartime (arg 0 a)));
  ("bits.trailing_ones", fun _ a => vu32 (limbs_trailing_ones (arg 0 a)));
  ("bits.trailing_ones_vartime", fun _ a => vu32 (limbs_trailing_ones_vartime (arg 0 a)));
  ("bits.set_bit", fun _ a => Val [limbs_set_bit (arg 0 a) (sarg 1 a) (choice_of_bool (negb (sarg 2 a =? 0)))]);
  ("bits.set_bit_vartime", fun _ a => out_optL (limbs_set_bit_vartime (arg 0 a) (sarg 1 a) (negb (sarg 2 a =? 0))));
  (* bitwise operators *)
  ("uint.and", fun _ a => Val [limbs_and (arg 0 a) (arg 1 a)]);
  ("uint.or", fun _ a => Val [limbs_or (arg 0 a) (arg 1 a)]);
  ("uint.xor", fun _ a => Val [limbs_xor (arg 0 a) (arg 1 a)]);
  ("uint.not", fun _ a => Val [limbs_not (arg 0 a)]);
  ("uint.and_limb", fun _ a => Val [limbs_and_limb (arg 0 a) (sarg 1 a)]);
  ("boxed.and", fun _ a => Val [boxed_map2 limbs_and (arg 0 a) (arg 1 a)]);
  ("boxed.or", fun _ a => Val [boxed_map2 limbs_or (arg 0 a) (arg 1 a)]);
  ("boxed.xor", fun _ a => Val [boxed_map2 limbs_xor (arg 0 a) (arg 1 a)]);
  ("boxed.or_assign", fun _ a => Val [boxed_or_assign (arg 0 a) (arg 1 a)])
].

(* ---- Spec table ---- *)
Definition lmax (a : list (list Z)) : nat := Nat.max (ln 0 a) (ln 1 a).
(* shift result as Option: None iff s >= BITS *)
Definition sp_shift_opt (n : nat) (s r : Z) : outcome := if s <? bitsn n then sp_val n r else NoneV.
Definition sp_shift_panic (n : nat) (s r : Z) : outcome := if s <? bitsn n then sp_val n r else PanicV.
Definition sp_shift_wrap (n : nat) (s r fill : Z) : outcome := if s <? bitsn n then sp_val n r else sp_val n fill.
Definition sp_shift_pair (n : nat) (s r : Z) : outcome :=
  if s <? bitsn n then Val [to_limbs n r; vbool false] else Val [to_limbs n 0; vbool true].
Definition spx_shl (a : list (list Z)) : Z := if sarg 1 a <? bitsn (ln 0 a) then spec_shl (ln 0 a) (ev 0 a) (sarg 1 a) else 0.
Definition spx_shr (a : list (list Z)) : Z := if sarg 1 a <? bitsn (ln 0 a) then spec_shr (ev 0 a) (sarg 1 a) else 0.
Definition sev (i : nat) (a : list (list Z)) : Z := seval (arg i a).
Definition spx_sar (a : list (list Z)) : Z := if sarg 1 a <? bitsn (ln 0 a) then spec_sar (ln 0 a) (sev 0 a) (sarg 1 a) else 0.
Definition sp_fill (a : list (list Z)) : Z := if sev 0 a <? 0 then Bn (ln 0 a) - 1 else 0.
(* the documented domain of every query: at least one limb *)
Definition nonempty (a : list (list Z)) (o : outcome) : outcome := if (ln 0 a =? 0)%nat then Unsupported else o.
Definition in_range (a : list (list Z)) : bool := (0 <=? sarg 1 a) && (sarg 1 a <? bitsn (ln 0 a)).
(* an index outside the value addresses no bit: the constant-time form returns the value unchanged, the
   variable-time form indexes the limb slice out of bounds and panics *)
Definition sp_set_bit (vartime : bool) (a : list (list Z)) : outcome :=
  if in_range a then sp_val (ln 0 a) (spec_set_bit (ev 0 a) (sarg 1 a) (negb (sarg 2 a =? 0)))
  else if vartime then PanicV else sp_val (ln 0 a) (ev 0 a).

Definition sp_wide (left : bool) (a : list (list Z)) : outcome :=
  let n := ln 0 a in let s := sarg 2 a in
  if 2 * bitsn n <=? s then NoneV else
  let x := ev 0 a + Bn n * ev 1 a in
  let r := if left then (x * 2 ^ s) mod (Bn n * Bn n) else x / 2 ^ s in
  Val [to_limbs n (r mod Bn n); to_limbs n (r / Bn n)].

Definition ops_bits_spec : list (string * opfn) := [
  ("limb.shl", fun _ a => if sarg 1 a <? 64 then sp_val 1 (spec_shl 1 (sarg 0 a) (sarg 1 a)) else PanicV);
  ("limb.shr", fun _ a => if sarg 1 a <? 64 then sp_val 1 (spec_shr (sarg 0 a) (sarg 1 a)) else PanicV);
  (* num_traits::WrappingShl / WrappingShr: the shift amount is masked to the width of the type *)
  ("limb.wrapping_shl", fun _ a => sp_val 1 (spec_shl 1 (sarg 0 a) (sarg 1 a mod 64)));
  ("limb.wrapping_shr", fun _ a => sp_val 1 (spec_shr (sarg 0 a) (sarg 1 a mod 64)));
  ("limb.bits", fun _ a => vu32 (spec_bits (sarg 0 a)));
  ("limb.leading_zeros", fun _ a => vu32 (64 - spec_bits (sarg 0 a)));
  ("limb.trailing_zeros", fun _ a => vu32 (spec_trailing_zeros 64 (sarg 0 a)));
  ("limb.trailing_ones", fun _ a => vu32 (spec_trailing_ones 64 (sarg 0 a)));
  ("limb.and", fun _ a => Val [[Z.land (sarg 0 a) (sarg 1 a)]]);
  ("limb.or", fun _ a => Val [[Z.lor (sarg 0 a) (sarg 1 a)]]);
  ("limb.xor", fun _ a => Val [[Z.lxor (sarg 0 a) (sarg 1 a)]]);
  ("limb.not", fun _ a => Val [[B - 1 - sarg 0 a]]);
  ("uint.overflowing_shl", fun _ a => nonempty a (sp_shift_opt (ln 0 a) (sarg 1 a) (spx_shl a)));
  ("uint.overflowing_shl_vartime", fun _ a => nonempty a (sp_shift_opt (ln 0 a) (sarg 1 a) (spx_shl a)));
  ("uint.shl", fun _ a => nonempty a (sp_shift_panic (ln 0 a) (sarg 1 a) (spx_shl a)));
  ("uint.shl_vartime", fun _ a => nonempty a (sp_shift_panic (ln 0 a) (sarg 1 a) (spx_shl a)));
  ("uint.wrapping_shl", fun _ a => nonempty a (sp_shift_wrap (ln 0 a) (sarg 1 a) (spx_shl a) 0));
  ("uint.wrapping_shl_vartime", fun _ a => nonempty a (sp_shift_wrap (ln 0 a) (sarg 1 a) (spx_shl a) 0));
  ("uint.overflowing_shr", fun _ a => nonempty a (sp_shift_opt (ln 0 a) (sarg 1 a) (spx_shr a)));
  ("uint.overflowing_shr_vartime", fun _ a => nonempty a (sp_shift_opt (ln 0 a) (sarg 1 a) (spx_shr a)));
  ("uint.shr", fun _ a => nonempty a (sp_shift_panic (ln 0 a) (sarg 1 a) (spx_shr a)));
  ("uint.shr_vartime", fun _ a => nonempty a (sp_shift_panic (ln 0 a) (sarg 1 a) (spx_shr a)));
  ("uint.wrapping_shr", fun _ a => nonempty a (sp_shift_wrap (ln 0 a) (sarg 1 a) (spx_shr a) 0));
  ("uint.wrapping_shr_vartime", fun _ a => nonempty a (sp_shift_wrap (ln 0 a) (sarg 1 a) (spx_shr a) 0));
  ("uint.shl_vartime_wide", fun _ a => nonempty a (sp_wide true a));
  ("uint.shr_vartime_wide", fun _ a => nonempty a (sp_wide false a));
  ("int.overflowing_shr", fun _ a => nonempty a (sp_shift_opt (ln 0 a) (sarg 1 a) (spx_sar a)));
  ("int.overflowing_shr_vartime", fun _ a => nonempty a (sp_shift_opt (ln 0 a) (sarg 1 a) (spx_sar a)));
  ("int.shr", fun _ a => nonempty a (sp_shift_panic (ln 0 a) (sarg 1 a) (spx_sar a)));
  ("int.shr_vartime", fun _ a => nonempty a (sp_shift_panic (ln 0 a) (sarg 1 a) (spx_sar a)));
  ("int.wrapping_shr", fun _ a => nonempty a (sp_shift_wrap (ln 0 a) (sarg 1 a) (spx_sar a) (sp_fill a)));
  ("int.wrapping_shr_vartime", fun _ a => nonempty a (sp_shift_wrap (ln 0 a) (sarg 1 a) (spx_sar a) (sp_fill a)));
  ("boxed.overflowing_shl", fun _ a => nonempty a (sp_shift_pair (ln 0 a) (sarg 1 a) (spx_shl a)));
  ("boxed.shl", fun _ a => nonempty a (sp_shift_panic (ln 0 a) (sarg 1 a) (spx_shl a)));
  ("boxed.wrapping_shl", fun _ a => nonempty a (sp_shift_wrap (ln 0 a) (sarg 1 a) (spx_shl a) 0));
  ("boxed.overflowing_shl_opt", fun _ a => nonempty a (sp_shift_opt (ln 0 a) (sarg 1 a) (spx_shl a)));
  ("boxed.shl_vartime", fun _ a => nonempty a (sp_shift_opt (ln 0 a) (sarg 1 a) (spx_shl a)));
  ("boxed.wrapping_shl_vartime", fun _ a => nonempty a (sp_shift_wrap (ln 0 a) (sarg 1 a) (spx_shl a) 0));
  ("boxed.overflowing_shr", fun _ a => nonempty a (sp_shift_pair (ln 0 a) (sarg 1 a) (spx_shr a)));
  ("boxed.shr", fun _ a => nonempty a (sp_shift_panic (ln 0 a) (sarg 1 a) (spx_shr a)));
  ("boxed.wrapping_shr", fun _ a => nonempty a (sp_shift_wrap (ln 0 a) (sarg 1 a) (spx_shr a) 0));
  ("boxed.overflowing_shr_opt", fun _ a => nonempty a (sp_shift_opt (ln 0 a) (sarg 1 a) (spx_shr a)));
  ("boxed.shr_vartime", fun _ a => nonempty a (sp_shift_opt (ln 0 a) (sarg 1 a) (spx_shr a)));
  ("boxed.wrapping_shr_vartime", fun _ a => nonempty a (sp_shift_wrap (ln 0 a) (sarg 1 a) (spx_shr a) 0));
  (* bit test: false for every index outside the value *)
  ("bits.bit", fun _ a => vb (Z.testbit (ev 0 a) (sarg 1 a)));
  ("bits.bit_vartime", fun _ a => vb (Z.testbit (ev 0 a) (sarg 1 a)));
  ("bits.bits", fun _ a => vu32 (spec_bits (ev 0 a)));
  ("bits.bits_vartime", fun _ a => nonempty a (vu32 (spec_bits (ev 0 a))));
  ("bits.leading_zeros", fun _ a => vu32 (bitsn (ln 0 a) - spec_bits (ev 0 a)));
  ("bits.leading_zeros_vartime", fun _ a => nonempty a (vu32 (bitsn (ln 0 a) - spec_bits (ev 0 a))));
  ("bits.trailing_zeros", fun _ a => vu32 (spec_trailing_zeros (64 * ln 0 a) (ev 0 a)));
  ("bits.trailing_zeros_vartime", fun _ a => vu32 (spec_trailing_zeros (64 * ln 0 a) (ev 0 a)));
  ("bits.trailing_ones", fun _ a => vu32 (spec_trailing_ones (64 * ln 0 a) (ev 0 a)));
  ("bits.trailing_ones_vartime", fun _ a => vu32 (spec_trailing_ones (64 * ln 0 a) (ev 0 a)));
  ("bits.set_bit", fun _ a => sp_set_bit false a);
  ("bits.set_bit_vartime", fun _ a => sp_set_bit true a);
  ("uint.and", fun _ a => sp_val (ln 0 a) (Z.land (ev 0 a) (ev 1 a)));
  ("uint.or", fun _ a => sp_val (ln 0 a) (Z.lor (ev 0 a) (ev 1 a)));
  ("uint.xor", fun _ a => sp_val (ln 0 a) (Z.lxor (ev 0 a) (ev 1 a)));
  ("uint.not", fun _ a => sp_val (ln 0 a) (Bn (ln 0 a) - 1 - ev 0 a));
  (* bitand_limb: the AND is applied to every limb *)
  ("uint.and_limb", fun _ a => sp_val (ln 0 a) (Z.land (ev 0 a) (eval (repeat (sarg 1 a) (ln 0 a)))));
  ("boxed.and", fun _ a => sp_val (lmax a) (Z.land (ev 0 a) (ev 1 a)));
  ("boxed.or", fun _ a => sp_val (lmax a) (Z.lor (ev 0 a) (ev 1 a)));
  ("boxed.xor", fun _ a => sp_val (lmax a) (Z.lxor (ev 0 a) (ev 1 a)));
  ("boxed.or_assign", fun _ a => sp_val (lmax a) (Z.lor (ev 0 a) (ev 1 a)))
].
