(** C02 (limb-level shifts): Uint::div_rem / BoxedUint::div_rem with NO value-level shortcut.
    Model/Div.v models three sub-operations of the constant-time division at the value level
    ([shl_val] = `rhs.shl(BITS - dbits)`, [shr_val] = the two final `.shr(..)`, [bits_of (eval y0)] = `rhs.bits()`).
    Here the same algorithm text (src/uint/div.rs `div_rem`, src/uint/boxed/div.rs `div_rem_unchecked`) calls the
    faithful limb-level models of Model/Bits.v exactly where the Rust code calls them:
      rhs.bits()            = BITS - leading_zeros(limbs)              (src/uint/bits.rs, boxed/bits.rs)
      Uint::shl / shr       = overflowing_shl / shr (constant-time ladder) .expect(..)   (src/uint/shl.rs, shr.rs)
      BoxedUint::shl / shr  = overflowing_shl / shr, assert!(!overflow)  (src/uint/boxed/shl.rs, shr.rs)
    A panic of the wrapper ([expect] / [assert!]) is the result [None].
    Executable definitions only; proofs live in Proofs/DivL0P.v. *)
From CB Require Export Model.Limbs.
From CB Require Import Model.AddSub Model.Bits Model.Div.
Open Scope Z_scope. Open Scope list_scope.

(* rhs.bits() : Self::BITS - self.leading_zeros()  /  self.bits_precision() - self.leading_zeros() *)
Definition l0_bits (y : list Z) : Z := 64 * lenZ y - limbs_leading_zeros y.

(* Uint::shl / Uint::shr : self.overflowing_sh*(shift).expect("`shift` within the bit size of the integer").
   None = a panic (of the inner `expect` of the ladder, or of this one). *)
Definition l0_uint_shl (a : list Z) (shift : Z) : option (list Z) :=
  match uint_overflowing_shl a shift with Some c => ct_expect c | None => None end.
Definition l0_uint_shr (a : list Z) (shift : Z) : option (list Z) :=
  match uint_overflowing_shr a shift with Some c => ct_expect c | None => None end.

(* BoxedUint::shl / shr : let (result, overflow) = self.overflowing_sh*(shift); assert!(!overflow); result *)
Definition l0_boxed_shl (a : list Z) (shift : Z) : option (list Z) :=
  match boxed_overflowing_shl a shift with
  | Some (v, ovf) => if ovf then None else Some v
  | None => None
  end.
Definition l0_boxed_shr (a : list Z) (shift : Z) : option (list Z) :=
  match boxed_overflowing_shr a shift with
  | Some (v, ovf) => if ovf then None else Some v
  | None => None
  end.

(* The body of div_rem after `assert!(dbits > 0)`: the text of Div.div_rem_ct_core, with the type's own
   panicking shifts [shl] / [shr] (Uint or BoxedUint) in the three places where Div.v uses shl_val / shr_val. *)
Definition div_rem_ct_core_gen (shl shr : list Z -> Z -> option (list Z))
    (x0 y0 : list Z) (dbits : Z) : option (list Z * list Z) :=
  let n := length x0 in
  let dwords := (dbits + 63) / 64 in
  let lshift := (64 - dbits mod 64) mod 64 in
  match shl y0 (64 * Z.of_nat n - dbits) with          (* rhs.shl(Self::BITS - dbits) *)
  | None => None
  | Some y =>
  let '(x, x_hi) := shl_limb x0 lshift in
  let rc := recip_new (nthz y (n - 1)) in
  let st := div_ct_loop (n - 1) n dwords y rc {| c_x := x; c_xhi := x_hi; c_xlo := nthz x (n - 1) |} in
  let x := c_x st in
  let limb_div := dwords =? 1 in
  let x_hi_adj := sel limb_div 0 (c_xhi st) in
  let '(quo2, rem2) := div2by1 x_hi_adj (c_xlo st) rc in
  let x := upd x 0 (sel limb_div (nthz x 0) quo2) in
  let y0' := sel limb_div (nthz x 0) rem2 in
  let ytail := map (fun i => let yi := sel (Z.of_nat i <? dwords) 0 (nthz x i) in
                             sel (Z.of_nat i =? dwords - 1) yi (c_xhi st)) (seq 1 (n - 1)) in
  match shr x ((dwords - 1) * 64), shr (y0' :: ytail) lshift with   (* Uint::new(x).shr(..), Uint::new(y).shr(lshift) *)
  | Some q, Some r => Some (q, r)
  | _, _ => None
  end
  end.

Definition div_rem_ct_core_l0 : list Z -> list Z -> Z -> option (list Z * list Z) :=
  div_rem_ct_core_gen l0_uint_shl l0_uint_shr.
Definition boxed_div_rem_ct_core_l0 : list Z -> list Z -> Z -> option (list Z * list Z) :=
  div_rem_ct_core_gen l0_boxed_shl l0_boxed_shr.

(* Uint::div_rem(&self, rhs: &NonZero<Self>) *)
Definition uint_div_rem_l0 (x0 y0 : list Z) : option (list Z * list Z) :=
  let n := length x0 in
  if (n =? 1)%nat then
    let d := nthz y0 0 in
    if d =? 0 then None else
    let '(q, r) := div_rem_limb_with_reciprocal x0 (recip_new d) in Some (q, [r])
  else
    let dbits := l0_bits y0 in
    if dbits =? 0 then None else div_rem_ct_core_l0 x0 y0 dbits.

(* BoxedUint::div_rem -> div_rem_unchecked: assert_eq!(size, rhs.limbs.len()) first *)
Definition boxed_div_rem_l0 (x0 y0 : list Z) : option (list Z * list Z) :=
  let n := length x0 in
  if negb (n =? length y0)%nat then None else
  if (n =? 1)%nat then
    let d := nthz y0 0 in
    if d =? 0 then None else
    let '(q, r) := div_rem_limb_with_reciprocal x0 (recip_new d) in Some (q, [r])
  else
    let dbits := l0_bits y0 in
    if dbits =? 0 then None else boxed_div_rem_ct_core_l0 x0 y0 dbits.

(* ---------- op tables (area divl0): the spec entries are those of "uint.div_rem" / "boxed.div_rem" in Div.v ---------- *)
Open Scope string_scope. Open Scope Z_scope. Open Scope list_scope.

Definition ops_divl0_model : list (string * opfn) := [
  ("uint.div_rem_l0", fun _ a => o_qr (uint_div_rem_l0 (arg 0 a) (arg 1 a)));
  ("boxed.div_rem_l0", fun _ a => o_qr (boxed_div_rem_l0 (arg 0 a) (arg 1 a)))
].

Definition ops_divl0_spec : list (string * opfn) := [
  ("uint.div_rem_l0", fun _ a => nz_dom a (sp_qr (ln 0 a) (ln 0 a) a));
  ("boxed.div_rem_l0", fun _ a => nz_dom a (if negb (ln 0 a =? ln 1 a)%nat then PanicV else sp_qr (ln 0 a) (ln 0 a) a))
].
