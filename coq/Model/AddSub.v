(** C04: addition, subtraction, negation on Limb, Uint<N>, BoxedUint and the wrappers.
    L0 = limb-level models that follow the Rust loops; Spec = plain arithmetic on Z. *)
From CB Require Export Model.Limbs.
Open Scope Z_scope.

(* ---- L0: src/uint/add.rs, sub.rs, neg.rs ---- *)
Fixpoint adc_limbs (a b : list Z) (c : Z) : list Z * Z :=
  match a, b with
  | x :: a', y :: b' =>
      let '(wd, c1) := adc x y c in
      let '(r, c2) := adc_limbs a' b' c1 in (wd :: r, c2)
  | _, _ => ([], c)
  end.

Fixpoint sbb_limbs (a b : list Z) (bw : Z) : list Z * Z :=
  match a, b with
  | x :: a', y :: b' =>
      let '(wd, b1) := sbb x y bw in
      let '(r, b2) := sbb_limbs a' b' b1 in (wd :: r, b2)
  | _, _ => ([], bw)
  end.

(* carrying_neg: r = (!limb as u128) + carry ; carry = r >> 64 *)
Fixpoint neg_limbs (a : list Z) (c : Z) : list Z * Z :=
  match a with
  | x :: a' =>
      let r := wnot x + c in
      let '(rs, c2) := neg_limbs a' (r / B) in (r mod B :: rs, c2)
  | [] => ([], c)
  end.

Definition select_limbs (c : Z) (a b : list Z) : list Z :=
  map (fun p => select_word c (fst p) (snd p)) (combine a b).

Definition maxs (n : nat) : list Z := repeat MAXW n.

Definition uint_adc (a b : list Z) (c : Z) := adc_limbs a b c.
Definition uint_sbb (a b : list Z) (bw : Z) := sbb_limbs a b bw.
Definition uint_saturating_add (a b : list Z) : list Z :=
  let '(r, c) := adc_limbs a b 0 in select_limbs (from_word_lsb c) r (maxs (length a)).
Definition uint_saturating_sub (a b : list Z) : list Z :=
  let '(r, bw) := sbb_limbs a b 0 in select_limbs bw r (zeros (length a)).
Definition uint_wrapping_add (a b : list Z) := fst (adc_limbs a b 0).
Definition uint_wrapping_sub (a b : list Z) := fst (sbb_limbs a b 0).
Definition uint_checked_add (a b : list Z) : option (list Z) :=
  let '(r, c) := adc_limbs a b 0 in if c =? 0 then Some r else None.
Definition uint_checked_sub (a b : list Z) : option (list Z) :=
  let '(r, c) := sbb_limbs a b 0 in if c =? 0 then Some r else None.
Definition uint_carrying_neg (a : list Z) : list Z * Z :=
  let '(r, c) := neg_limbs a 1 in (r, from_word_lsb c).
Definition uint_wrapping_neg (a : list Z) := fst (neg_limbs a 1).
Definition uint_wrapping_neg_if (a : list Z) (c : Z) : list Z :=
  select_limbs c a (uint_wrapping_neg a).

(* ---- L0: src/uint/boxed/add.rs, sub.rs (fold_limbs pads to the longer operand;
        the assign forms iterate over the receiver's limbs only) ---- *)
Definition boxed_adc (a b : list Z) (c : Z) :=
  let n := Nat.max (length a) (length b) in adc_limbs (resize n a) (resize n b) c.
Definition boxed_sbb (a b : list Z) (c : Z) :=
  let n := Nat.max (length a) (length b) in sbb_limbs (resize n a) (resize n b) c.
(* limbs of rhs beyond the receiver's precision are folded into the carry / borrow *)
Definition extra_nonzero (n : nat) (b : list Z) : bool := existsb (fun x => negb (x =? 0)) (skipn n b).
Definition boxed_adc_assign (a b : list Z) (c : Z) : list Z * Z :=
  let '(r, c') := adc_limbs a (resize (length a) b) c in
  (r, fold_left (fun cy x => wor cy (if_true_word (from_word_nonzero x) 1)) (skipn (length a) b) c').
Definition boxed_sbb_assign (a b : list Z) (c : Z) : list Z * Z :=
  let '(r, c') := sbb_limbs a (resize (length a) b) c in
  (r, fold_left (fun cy x => wor cy (if_true_word (from_word_nonzero x) MAXW)) (skipn (length a) b) c').

(* ---- Spec ---- *)
Definition spec_adc (n : nat) (a b c : Z) : Z * Z := let s := a + b + c in (s mod Bn n, s / Bn n).
(* borrow is reported as the all-ones word; incoming borrow counts iff its top bit is set *)
Definition spec_sbb (n : nat) (a b bw : Z) : Z * Z :=
  let s := a - b - bw / 2 ^ 63 in (s mod Bn n, if s <? 0 then MAXW else 0).
Definition spec_neg (n : nat) (a : Z) : Z := (- a) mod Bn n.

(* ---- op tables ---- *)
Open Scope string_scope. Open Scope Z_scope.

(* Checked<T>: self.0.and_then(|lhs| rhs.0.and_then(|rhs| lhs.checked_op(&rhs))) -- none is sticky on either side *)
Definition checked_bin (op : Z) (x y : option (list Z)) : option (list Z) :=
  match x, y with
  | Some xv, Some yv => if op =? 0 then uint_checked_add xv yv else uint_checked_sub xv yv
  | _, _ => None
  end.
(* shape 0: (a op1 b) op2 c ; shape 1: a op2 (b op1 c) *)
Definition checked_expr (shape op1 op2 : Z) (a b c : list Z) : option (list Z) :=
  if shape =? 0 then checked_bin op2 (checked_bin op1 (Some a) (Some b)) (Some c)
  else checked_bin op2 (Some a) (checked_bin op1 (Some b) (Some c)).

(* BoxedUint += rhs  (rhs: BoxedUint / Uint<N> limbs / primitive widened to U64 or U128) *)
Definition boxed_add_assign_op (dbg : bool) (a b : list Z) : outcome :=
  let '(r, c) := boxed_adc_assign a b 0 in if c =? 0 then Val [r] else PanicV.
Definition boxed_sub_assign_op (dbg : bool) (a b : list Z) : outcome :=
  let '(r, c) := boxed_sbb_assign a b 0 in if c =? 0 then Val [r] else PanicV.
Definition boxed_wrapping_assign_op (sub dbg : bool) (a b : list Z) : outcome :=
  Val [fst ((if sub then boxed_sbb_assign else boxed_adc_assign) a b 0)].

Definition ops_addsub_model : list (string * opfn) := [
  ("limb.adc", fun _ a => vpair2 (adc (sarg 0 a) (sarg 1 a) (sarg 2 a)));
  ("limb.sbb", fun _ a => vpair2 (sbb (sarg 0 a) (sarg 1 a) (sarg 2 a)));
  ("limb.overflowing_add", fun _ a => vpair2 (overflowing_add (sarg 0 a) (sarg 1 a)));
  ("limb.mac", fun _ a => vpair2 (mac (sarg 0 a) (sarg 1 a) (sarg 2 a) (sarg 3 a)));
  ("limb.wrapping_add", fun _ a => Val [[wadd (sarg 0 a) (sarg 1 a)]]);
  ("limb.wrapping_sub", fun _ a => Val [[wsub (sarg 0 a) (sarg 1 a)]]);
  ("limb.wrapping_neg", fun _ a => Val [[wneg (sarg 0 a)]]);
  ("limb.saturating_add", fun _ a => Val [uint_saturating_add (arg 0 a) (arg 1 a)]);
  ("limb.saturating_sub", fun _ a => Val [uint_saturating_sub (arg 0 a) (arg 1 a)]);
  ("limb.checked_add", fun _ a => vopt (uint_checked_add (arg 0 a) (arg 1 a)));
  ("limb.checked_sub", fun _ a => vopt (uint_checked_sub (arg 0 a) (arg 1 a)));
  ("limb.add", fun _ a => vpanic_none (uint_checked_add (arg 0 a) (arg 1 a)));
  ("limb.sub", fun _ a => vpanic_none (uint_checked_sub (arg 0 a) (arg 1 a)));
  ("uint.adc", fun _ a => vpair (uint_adc (arg 0 a) (arg 1 a) (sarg 2 a)));
  ("uint.sbb", fun _ a => vpair (uint_sbb (arg 0 a) (arg 1 a) (sarg 2 a)));
  ("uint.wrapping_add", fun _ a => Val [uint_wrapping_add (arg 0 a) (arg 1 a)]);
  ("uint.wrapping_sub", fun _ a => Val [uint_wrapping_sub (arg 0 a) (arg 1 a)]);
  ("uint.saturating_add", fun _ a => Val [uint_saturating_add (arg 0 a) (arg 1 a)]);
  ("uint.saturating_sub", fun _ a => Val [uint_saturating_sub (arg 0 a) (arg 1 a)]);
  ("uint.checked_add", fun _ a => vopt (uint_checked_add (arg 0 a) (arg 1 a)));
  ("uint.checked_sub", fun _ a => vopt (uint_checked_sub (arg 0 a) (arg 1 a)));
  ("uint.add", fun _ a => vpanic_none (uint_checked_add (arg 0 a) (arg 1 a)));
  ("uint.sub", fun _ a => vpanic_none (uint_checked_sub (arg 0 a) (arg 1 a)));
  ("uint.carrying_neg", fun _ a => let '(r, c) := uint_carrying_neg (arg 0 a) in Val [r; vbool (choice_to_bool c)]);
  ("uint.wrapping_neg", fun _ a => Val [uint_wrapping_neg (arg 0 a)]);
  ("uint.wrapping_neg_if", fun _ a => Val [uint_wrapping_neg_if (arg 0 a) (choice_of_bool (negb (sarg 1 a =? 0)))]);
  ("uint.checked_expr", fun _ a =>
     vopt (checked_expr (sarg 6 a) (sarg 3 a) (sarg 4 a) (arg 0 a) (arg 1 a) (arg 2 a)));
  ("boxed.adc", fun _ a => vpair (boxed_adc (arg 0 a) (arg 1 a) (sarg 2 a)));
  ("boxed.sbb", fun _ a => vpair (boxed_sbb (arg 0 a) (arg 1 a) (sarg 2 a)));
  ("boxed.wrapping_add", fun _ a => Val [fst (boxed_adc (arg 0 a) (arg 1 a) 0)]);
  ("boxed.wrapping_sub", fun _ a => Val [fst (boxed_sbb (arg 0 a) (arg 1 a) 0)]);
  ("boxed.checked_add", fun _ a => let '(r, c) := boxed_adc (arg 0 a) (arg 1 a) 0 in if c =? 0 then Val [r] else NoneV);
  ("boxed.checked_sub", fun _ a => let '(r, c) := boxed_sbb (arg 0 a) (arg 1 a) 0 in if c =? 0 then Val [r] else NoneV);
  ("boxed.add", fun _ a => let '(r, c) := boxed_adc (arg 0 a) (arg 1 a) 0 in if c =? 0 then Val [r] else PanicV);
  ("boxed.sub", fun _ a => let '(r, c) := boxed_sbb (arg 0 a) (arg 1 a) 0 in if c =? 0 then Val [r] else PanicV);
  ("boxed.adc_assign", fun _ a => vpair (boxed_adc_assign (arg 0 a) (arg 1 a) (sarg 2 a)));
  ("boxed.sbb_assign", fun _ a => vpair (boxed_sbb_assign (arg 0 a) (arg 1 a) (sarg 2 a)));
  ("boxed.add_assign", fun (dbg : bool) a => boxed_add_assign_op dbg (arg 0 a) (arg 1 a));
  ("boxed.sub_assign", fun (dbg : bool) a => boxed_sub_assign_op dbg (arg 0 a) (arg 1 a));
  ("boxed.wrapping_add_assign", fun (dbg : bool) a => boxed_wrapping_assign_op false dbg (arg 0 a) (arg 1 a));
  ("boxed.wrapping_sub_assign", fun (dbg : bool) a => boxed_wrapping_assign_op true dbg (arg 0 a) (arg 1 a));
  ("boxed.wrapping_neg", fun _ a => Val [uint_wrapping_neg (arg 0 a)])
].

(* Spec table: the same ops computed on the represented integers. *)
Definition sp_adc (n : nat) (a b c : Z) : outcome :=
  let '(r, c') := spec_adc n a b c in Val [to_limbs n r; [c']].
Definition sp_sbb (n : nat) (a b c : Z) : outcome :=
  let '(r, c') := spec_sbb n a b c in Val [to_limbs n r; [c']].
Definition sp_checked_bin (n : nat) (op : Z) (x y : option Z) : option Z :=
  match x, y with
  | Some xv, Some yv => let r := if op =? 0 then xv + yv else xv - yv in
                        if sp_fits n r then Some r else None
  | _, _ => None
  end.

Definition ops_addsub_spec : list (string * opfn) := [
  ("limb.adc", fun _ a => sp_adc 1 (ev 0 a) (ev 1 a) (sarg 2 a));
  ("limb.sbb", fun _ a => sp_sbb 1 (ev 0 a) (ev 1 a) (sarg 2 a));
  ("limb.overflowing_add", fun _ a => sp_adc 1 (ev 0 a) (ev 1 a) 0);
  ("limb.mac", fun _ a => let s := sarg 0 a + sarg 1 a * sarg 2 a + sarg 3 a in Val [[s mod B]; [s / B]]);
  ("limb.wrapping_add", fun _ a => sp_wrapping 1 (ev 0 a + ev 1 a));
  ("limb.wrapping_sub", fun _ a => sp_wrapping 1 (ev 0 a - ev 1 a));
  ("limb.wrapping_neg", fun _ a => sp_wrapping 1 (- ev 0 a));
  ("limb.saturating_add", fun _ a => sp_saturating 1 (ev 0 a + ev 1 a));
  ("limb.saturating_sub", fun _ a => sp_saturating 1 (ev 0 a - ev 1 a));
  ("limb.checked_add", fun _ a => sp_checked 1 (ev 0 a + ev 1 a));
  ("limb.checked_sub", fun _ a => sp_checked 1 (ev 0 a - ev 1 a));
  ("limb.add", fun _ a => sp_panicking 1 (ev 0 a + ev 1 a));
  ("limb.sub", fun _ a => sp_panicking 1 (ev 0 a - ev 1 a));
  ("uint.adc", fun _ a => sp_adc (ln 0 a) (ev 0 a) (ev 1 a) (sarg 2 a));
  ("uint.sbb", fun _ a => sp_sbb (ln 0 a) (ev 0 a) (ev 1 a) (sarg 2 a));
  ("uint.wrapping_add", fun _ a => sp_wrapping (ln 0 a) (ev 0 a + ev 1 a));
  ("uint.wrapping_sub", fun _ a => sp_wrapping (ln 0 a) (ev 0 a - ev 1 a));
  ("uint.saturating_add", fun _ a => sp_saturating (ln 0 a) (ev 0 a + ev 1 a));
  ("uint.saturating_sub", fun _ a => sp_saturating (ln 0 a) (ev 0 a - ev 1 a));
  ("uint.checked_add", fun _ a => sp_checked (ln 0 a) (ev 0 a + ev 1 a));
  ("uint.checked_sub", fun _ a => sp_checked (ln 0 a) (ev 0 a - ev 1 a));
  ("uint.add", fun _ a => sp_panicking (ln 0 a) (ev 0 a + ev 1 a));
  ("uint.sub", fun _ a => sp_panicking (ln 0 a) (ev 0 a - ev 1 a));
  ("uint.carrying_neg", fun _ a => Val [to_limbs (ln 0 a) (spec_neg (ln 0 a) (ev 0 a)); vbool (ev 0 a =? 0)]);
  ("uint.wrapping_neg", fun _ a => sp_wrapping (ln 0 a) (- ev 0 a));
  ("uint.wrapping_neg_if", fun _ a => sp_wrapping (ln 0 a) (if sarg 1 a =? 0 then ev 0 a else - ev 0 a));
  ("uint.checked_expr", fun _ a =>
     let n := ln 0 a in
     match (if sarg 6 a =? 0
            then sp_checked_bin n (sarg 4 a) (sp_checked_bin n (sarg 3 a) (Some (ev 0 a)) (Some (ev 1 a))) (Some (ev 2 a))
            else sp_checked_bin n (sarg 4 a) (Some (ev 0 a)) (sp_checked_bin n (sarg 3 a) (Some (ev 1 a)) (Some (ev 2 a)))) with
     | Some r => sp_val n r | None => NoneV end);
  ("boxed.adc", fun _ a => sp_adc (lmax a) (ev 0 a) (ev 1 a) (sarg 2 a));
  ("boxed.sbb", fun _ a => sp_sbb (lmax a) (ev 0 a) (ev 1 a) (sarg 2 a));
  ("boxed.wrapping_add", fun _ a => sp_wrapping (lmax a) (ev 0 a + ev 1 a));
  ("boxed.wrapping_sub", fun _ a => sp_wrapping (lmax a) (ev 0 a - ev 1 a));
  ("boxed.checked_add", fun _ a => sp_checked (lmax a) (ev 0 a + ev 1 a));
  ("boxed.checked_sub", fun _ a => sp_checked (lmax a) (ev 0 a - ev 1 a));
  ("boxed.add", fun _ a => sp_panicking (lmax a) (ev 0 a + ev 1 a));
  ("boxed.sub", fun _ a => sp_panicking (lmax a) (ev 0 a - ev 1 a));
  (* adc_assign / sbb_assign: result modulo 2^BITS(receiver); the part of rhs that does not fit the
     receiver is reported through the carry (bit 0 set) / borrow (all ones) *)
  ("boxed.adc_assign", fun _ a =>
     let n := ln 0 a in let hi := ev 1 a / Bn n in
     let '(r, c) := spec_adc n (ev 0 a) (ev 1 a mod Bn n) (sarg 2 a) in
     Val [to_limbs n r; [if hi =? 0 then c else wor c 1]]);
  ("boxed.sbb_assign", fun _ a =>
     let n := ln 0 a in let hi := ev 1 a / Bn n in
     let '(r, c) := spec_sbb n (ev 0 a) (ev 1 a mod Bn n) (sarg 2 a) in
     Val [to_limbs n r; [if hi =? 0 then c else MAXW]]);
  (* the += / -= operators: panic exactly when the true result leaves [0, 2^BITS(receiver)) *)
  ("boxed.add_assign", fun _ a => sp_panicking (ln 0 a) (ev 0 a + ev 1 a));
  ("boxed.sub_assign", fun _ a => sp_panicking (ln 0 a) (ev 0 a - ev 1 a));
  ("boxed.wrapping_add_assign", fun _ a => sp_wrapping (ln 0 a) (ev 0 a + ev 1 a));
  ("boxed.wrapping_sub_assign", fun _ a => sp_wrapping (ln 0 a) (ev 0 a - ev 1 a));
  ("boxed.wrapping_neg", fun _ a => sp_wrapping (ln 0 a) (- ev 0 a))
].
