(** C13: signed integers [Int<LIMBS>] (src/int.rs, src/int/{add,sub,neg,mul,mul_uint,sign,resize,from}.rs).
    An [Int<N>] is the little-endian list of its N limbs (two's complement), exactly like the
    [Uint<N>] it wraps; a [ConstChoice] is the word 0 (false) or MAXW (true).
    L0 = limb-level models that follow the Rust code line by line; Spec = plain arithmetic on Z
    over the signed value [seval].
    NOTE (division of labour): the unsigned multiplication the Int code calls ([Uint::split_mul],
    [Uint::widening_mul], [Uint::square_wide]: schoolbook / Karatsuba, property C03) is modelled
    here at the VALUE level ([ux_split_mul], [ux_square_wide]); everything the files of C13 do
    themselves (sign extraction, conditional negation, fit tests, overflow flags, sign extension)
    is modelled at the limb level. *)
From CB Require Export Model.Limbs Model.AddSub.
Open Scope Z_scope.

(* ---- ConstChoice combinators (src/const_choice.rs): not / and / or / xor / ne / eq ---- *)
Definition cc_not (c : Z) : Z := wnot c.
Definition cc_and (a b : Z) : Z := wand a b.
Definition cc_or (a b : Z) : Z := wor a b.
Definition cc_xor (a b : Z) : Z := wxor a b.
Definition cc_ne (a b : Z) : Z := cc_xor a b.
Definition cc_eq (a b : Z) : Z := cc_not (cc_ne a b).
(* ConstCtOption::new(value, is_some) / CtOption::new : observable as an option *)
Definition ctopt_new {A : Type} (v : A) (c : Z) : option A := if choice_to_bool c then Some v else None.

(* ---- the Uint helpers the Int code calls (src/uint/cmp.rs), limb level ---- *)
(* is_nonzero: OR of all limbs, then Limb::is_nonzero *)
Definition ux_is_nonzero (a : list Z) : Z := from_word_nonzero (fold_left wor a 0).
(* eq: OR of the limb-wise XORs is zero *)
Definition ux_eq (a b : list Z) : Z :=
  cc_not (from_word_nonzero (fold_left (fun acc p => wor acc (wxor (fst p) (snd p))) (combine a b) 0)).
(* gt(lhs, rhs): borrow of rhs - lhs ; lte = !gt *)
Definition ux_gt (a b : list Z) : Z := snd (sbb_limbs b a 0).
Definition ux_lte (a b : list Z) : Z := cc_not (ux_gt a b).
(* Zero::is_zero = ct_eq(&Self::zero()) *)
Definition ux_is_zero (a : list Z) : Z := ux_eq a (zeros (length a)).
(* bitxor with Uint::MAX *)
Definition ux_xor_max (a : list Z) : list Z := map (fun x => wxor x MAXW) a.
Definition one_limbs (n : nat) : list Z := match n with O => [] | S k => 1 :: zeros k end.

(* value-level stand-ins for the unsigned multiplication (C03) *)
Definition ux_split_mul (a b : list Z) : list Z * list Z :=
  let p := eval a * eval b in (to_limbs (length a) p, to_limbs (length b) (p / Bn (length a))).
Definition ux_square_wide (a : list Z) : list Z * list Z :=
  let p := eval a * eval a in (to_limbs (length a) p, to_limbs (length a) (p / Bn (length a))).

(* ---- constants of src/int.rs ---- *)
Definition int_max_limbs (n : nat) : list Z := match n with O => [] | S k => maxs k ++ [2 ^ 63 - 1] end.
Definition int_min_limbs (n : nat) : list Z := match n with O => [] | S k => zeros k ++ [2 ^ 63] end.

(* ---- src/int/sign.rs ---- *)
Definition int_msw (a : list Z) : Z := last a 0.                 (* most_significant_word, 0 when LIMBS = 0 *)
Definition int_is_negative (a : list Z) : Z := from_word_msb (int_msw a).
Definition int_is_positive (a : list Z) : Z := cc_and (cc_not (int_is_negative a)) (ux_is_nonzero a).
Definition int_wrapping_neg_if (a : list Z) (c : Z) : list Z := uint_wrapping_neg_if a c.
Definition int_abs_sign (a : list Z) : list Z * Z :=
  let sign := int_is_negative a in (int_wrapping_neg_if a sign, sign).
Definition int_abs (a : list Z) : list Z := fst (int_abs_sign a).
Definition int_new_from_abs_sign (ab : list Z) (is_neg : Z) : option (list Z) :=
  let magnitude := int_wrapping_neg_if ab is_neg in
  let n := length ab in
  let fits := cc_or (ux_lte ab (int_max_limbs n)) (cc_and is_neg (ux_eq ab (int_min_limbs n))) in
  ctopt_new magnitude fits.
Definition int_is_min (a : list Z) : Z := ux_eq a (int_min_limbs (length a)).
Definition int_is_max (a : list Z) : Z := ux_eq a (int_max_limbs (length a)).

(* ---- src/int/add.rs ---- *)
Definition int_overflowing_add (a b : list Z) : list Z * Z :=
  let res := uint_wrapping_add a b in
  let self_msb := int_is_negative a in
  let overflow := cc_and (cc_eq self_msb (int_is_negative b)) (cc_ne self_msb (int_is_negative res)) in
  (res, overflow).
Definition int_checked_add (a b : list Z) : option (list Z) :=
  let '(v, o) := int_overflowing_add a b in ctopt_new v (cc_not o).
Definition int_wrapping_add (a b : list Z) : list Z := uint_wrapping_add a b.

(* ---- src/int/sub.rs ---- *)
Definition int_checked_sub (a b : list Z) : option (list Z) :=
  let res := uint_wrapping_sub a b in
  let self_msb := int_is_negative a in
  let underflow := cc_and (cc_ne self_msb (int_is_negative b)) (cc_ne self_msb (int_is_negative res)) in
  ctopt_new res (cc_not underflow).
Definition int_wrapping_sub (a b : list Z) : list Z := uint_wrapping_sub a b.

(* ---- src/int/neg.rs ---- *)
Definition int_overflowing_neg (a : list Z) : list Z * Z :=
  int_overflowing_add (ux_xor_max a) (one_limbs (length a)).
Definition int_wrapping_neg (a : list Z) : list Z := fst (int_overflowing_neg a).
Definition int_checked_neg (a : list Z) : option (list Z) :=
  let '(v, o) := int_overflowing_neg a in ctopt_new v (cc_not o).

(* ---- src/int/mul.rs, src/int/mul_uint.rs ---- *)
Definition int_split_mul (a b : list Z) : list Z * list Z * Z :=
  let '(la, ls) := int_abs_sign a in
  let '(ra, rs) := int_abs_sign b in
  let '(lo, hi) := ux_split_mul la ra in
  (lo, hi, cc_xor ls rs).
Definition int_widening_mul (a b : list Z) : list Z :=
  let '(la, ls) := int_abs_sign a in
  let '(ra, rs) := int_abs_sign b in
  let '(lo, hi) := ux_split_mul la ra in            (* Uint::widening_mul = concat_mixed(split_mul) *)
  uint_wrapping_neg_if (lo ++ hi) (cc_xor ls rs).
Definition int_split_mul_uint (a b : list Z) : list Z * list Z * Z :=
  let '(la, ls) := int_abs_sign a in
  let '(lo, hi) := ux_split_mul la b in (lo, hi, ls).
Definition int_split_mul_uint_right (a b : list Z) : list Z * list Z * Z :=
  let '(la, ls) := int_abs_sign a in
  let '(lo, hi) := ux_split_mul b la in (lo, hi, ls).
Definition int_widening_mul_uint (a b : list Z) : list Z :=
  let '(la, ls) := int_abs_sign a in
  let '(lo, hi) := ux_split_mul la b in
  uint_wrapping_neg_if (lo ++ hi) ls.
(* CtOption::from(new_from_abs_sign(lo, neg)).and_then(|int| CtOption::new(int, hi.is_zero())) *)
Definition int_fit_product (p : list Z * list Z * Z) : option (list Z) :=
  let '(lo, hi, neg) := p in
  match int_new_from_abs_sign lo neg with
  | Some r => ctopt_new r (ux_is_zero hi)
  | None => None
  end.
Definition int_checked_mul (a b : list Z) : option (list Z) := int_fit_product (int_split_mul a b).
Definition int_checked_mul_uint (a b : list Z) : option (list Z) := int_fit_product (int_split_mul_uint a b).
Definition int_checked_mul_uint_right (a b : list Z) : option (list Z) :=
  int_fit_product (int_split_mul_uint_right a b).

(* squaring: abs(), then the Uint squaring forms (src/uint/mul.rs) *)
Definition int_widening_square (a : list Z) : list Z :=
  let '(lo, hi) := ux_square_wide (int_abs a) in lo ++ hi.
Definition int_checked_square (a : list Z) : option (list Z) :=
  let '(lo, hi) := ux_square_wide (int_abs a) in ctopt_new lo (ux_eq hi (zeros (length hi))).
Definition int_wrapping_square (a : list Z) : list Z := fst (ux_square_wide (int_abs a)).
Definition int_saturating_square (a : list Z) : list Z :=
  let '(lo, hi) := ux_square_wide (int_abs a) in select_limbs (ux_is_nonzero hi) lo (maxs (length lo)).

(* ---- src/int/resize.rs: fill with 0 / MAX by sign, then copy min(T, LIMBS) limbs ---- *)
Definition int_resize (t : nat) (a : list Z) : list Z :=
  let fill := select_word (int_is_negative a) 0 MAXW in
  firstn t a ++ repeat fill (t - length a).

(* ---- src/int/from.rs ---- *)
(* [n as Word] for a signed primitive of [bits] bits whose bit pattern is x (0 <= x < 2^bits) *)
Definition sext_word (bits x : Z) : Z := if x <? 2 ^ (bits - 1) then x else x + (B - 2 ^ bits).
Definition int_from_prim (bits : Z) (t : nat) (x : Z) : list Z := int_resize t [sext_word bits x].
Definition int_from_i128 (t : nat) (lo hi : Z) : list Z := int_resize t [lo; hi].

(* ---- Checked<Int> expressions: Checked(l) op Checked(r) = l.and_then(|l| r.and_then(|r| l.checked_op(&r)))
        (none is sticky on either side);  op: 0 add, 1 sub, 2 mul;
        shape 0: (a op1 b) op2 c ; shape 1: a op2 (b op1 c) ---- *)
Definition int_checked_bin (op : Z) (x y : option (list Z)) : option (list Z) :=
  match x, y with
  | Some xv, Some yv => if op =? 0 then int_checked_add xv yv else if op =? 1 then int_checked_sub xv yv
                        else int_checked_mul xv yv
  | _, _ => None
  end.
Definition int_checked_expr (shape op1 op2 : Z) (a b c : list Z) : option (list Z) :=
  if shape =? 0 then int_checked_bin op2 (int_checked_bin op1 (Some a) (Some b)) (Some c)
  else int_checked_bin op2 (Some a) (int_checked_bin op1 (Some b) (Some c)).

(* ============================ Spec: plain Z ============================ *)
Definition in_srange (n : nat) (x : Z) : Prop := - Bn n <= 2 * x < Bn n.          (* MIN <= x <= MAX *)
Definition isp_fits (n : nat) (x : Z) : bool := (- Bn n <=? 2 * x) && (2 * x <? Bn n).
Definition isp_val (n : nat) (x : Z) : outcome := Val [to_limbs_s n x].            (* x mod 2^BITS, two's complement *)
Definition isp_checked (n : nat) (x : Z) : outcome := if isp_fits n x then isp_val n x else NoneV.
Definition isp_panicking (n : nat) (x : Z) : outcome := if isp_fits n x then isp_val n x else PanicV.
Definition isp_flagged (n : nat) (x : Z) : outcome := Val [to_limbs_s n x; vbool (negb (isp_fits n x))].
Definition sv (i : nat) (a : list (list Z)) : Z := seval (arg i a).
Definition nat_arg (i : nat) (a : list (list Z)) : nat := Z.to_nat (sarg i a).
Definition cbit (i : nat) (a : list (list Z)) : Z := choice_of_bool (negb (sarg i a =? 0)).
(* unsigned outcome helpers *)
Definition usp_fits (n : nat) (x : Z) : bool := (0 <=? x) && (x <? Bn n).
Definition usp_val (n : nat) (x : Z) : outcome := Val [to_limbs n x].
(* signed value of a primitive bit pattern *)
Definition prim_sval (bits x : Z) : Z := if x <? 2 ^ (bits - 1) then x else x - 2 ^ bits.

Definition isp_checked_bin (n : nat) (op : Z) (x y : option Z) : option Z :=
  match x, y with
  | Some xv, Some yv => let r := if op =? 0 then xv + yv else if op =? 1 then xv - yv else xv * yv in
                        if isp_fits n r then Some r else None
  | _, _ => None
  end.
Definition isp_checked_expr (n : nat) (shape op1 op2 : Z) (a b c : Z) : option Z :=
  if shape =? 0 then isp_checked_bin n op2 (isp_checked_bin n op1 (Some a) (Some b)) (Some c)
  else isp_checked_bin n op2 (Some a) (isp_checked_bin n op1 (Some b) (Some c)).

(* ============================ op tables ============================ *)
Open Scope string_scope. Open Scope Z_scope.

Definition vflag (p : list Z * Z) : outcome := Val [fst p; vbool (choice_to_bool (snd p))].
Definition vtriple (p : list Z * list Z * Z) : outcome :=
  let '(lo, hi, c) := p in Val [lo; hi; vbool (choice_to_bool c)].
Definition vchoice (c : Z) : outcome := Val [vbool (choice_to_bool c)].

(* From<iN> for Int<T>: the inherent constructors assert LIMBS >= 1 *)
Definition int_from_prim_op (bits : Z) (a : list (list Z)) : outcome :=
  let t := nat_arg 1 a in
  match t with O => PanicV | _ => Val [int_from_prim bits t (sarg 0 a)] end.
(* from_i128 asserts LIMBS >= 2 (both profiles); From<i128> debug_asserts the same and then calls it *)
Definition int_from_i128_op (a : list (list Z)) : outcome :=
  if (nat_arg 1 a <? 2)%nat then PanicV
  else Val [int_from_i128 (nat_arg 1 a) (nth 0 (arg 0 a) 0) (nth 1 (arg 0 a) 0)].

Definition ops_intarith_model : list (string * opfn) := [
  ("sint.checked_add", fun _ a => vopt (int_checked_add (arg 0 a) (arg 1 a)));
  ("sint.overflowing_add", fun _ a => vflag (int_overflowing_add (arg 0 a) (arg 1 a)));
  ("sint.wrapping_add", fun _ a => Val [int_wrapping_add (arg 0 a) (arg 1 a)]);
  ("sint.add", fun _ a => vpanic_none (int_checked_add (arg 0 a) (arg 1 a)));
  ("sint.checked_sub", fun _ a => vopt (int_checked_sub (arg 0 a) (arg 1 a)));
  ("sint.wrapping_sub", fun _ a => Val [int_wrapping_sub (arg 0 a) (arg 1 a)]);
  ("sint.sub", fun _ a => vpanic_none (int_checked_sub (arg 0 a) (arg 1 a)));
  ("sint.overflowing_neg", fun _ a => vflag (int_overflowing_neg (arg 0 a)));
  ("sint.wrapping_neg", fun _ a => Val [int_wrapping_neg (arg 0 a)]);
  ("sint.checked_neg", fun _ a => vopt (int_checked_neg (arg 0 a)));
  ("sint.wrapping_neg_if", fun _ a => Val [int_wrapping_neg_if (arg 0 a) (cbit 1 a)]);
  ("sint.split_mul", fun _ a => vtriple (int_split_mul (arg 0 a) (arg 1 a)));
  ("sint.split_mul_uint", fun _ a => vtriple (int_split_mul_uint (arg 0 a) (arg 1 a)));
  ("sint.split_mul_uint_right", fun _ a => vtriple (int_split_mul_uint_right (arg 0 a) (arg 1 a)));
  ("sint.widening_mul", fun _ a => Val [int_widening_mul (arg 0 a) (arg 1 a)]);
  ("sint.widening_mul_uint", fun _ a => Val [int_widening_mul_uint (arg 0 a) (arg 1 a)]);
  ("sint.checked_mul", fun _ a => vopt (int_checked_mul (arg 0 a) (arg 1 a)));
  ("sint.checked_mul_uint", fun _ a => vopt (int_checked_mul_uint (arg 0 a) (arg 1 a)));
  ("sint.checked_mul_uint_right", fun _ a => vopt (int_checked_mul_uint_right (arg 0 a) (arg 1 a)));
  ("sint.mul", fun _ a => vpanic_none (int_checked_mul (arg 0 a) (arg 1 a)));
  ("sint.mul_uint", fun _ a => vpanic_none (int_checked_mul_uint (arg 0 a) (arg 1 a)));
  ("sint.widening_square", fun _ a => Val [int_widening_square (arg 0 a)]);
  ("sint.checked_square", fun _ a => vopt (int_checked_square (arg 0 a)));
  ("sint.wrapping_square", fun _ a => Val [int_wrapping_square (arg 0 a)]);
  ("sint.saturating_square", fun _ a => Val [int_saturating_square (arg 0 a)]);
  ("sint.new_from_abs_sign", fun _ a => vopt (int_new_from_abs_sign (arg 0 a) (cbit 1 a)));
  ("sint.abs_sign", fun _ a => vflag (int_abs_sign (arg 0 a)));
  ("sint.abs", fun _ a => Val [int_abs (arg 0 a)]);
  ("sint.is_negative", fun _ a => vchoice (int_is_negative (arg 0 a)));
  ("sint.is_positive", fun _ a => vchoice (int_is_positive (arg 0 a)));
  ("sint.is_min", fun _ a => vchoice (int_is_min (arg 0 a)));
  ("sint.is_max", fun _ a => vchoice (int_is_max (arg 0 a)));
  ("sint.resize", fun _ a => Val [int_resize (nat_arg 1 a) (arg 0 a)]);
  ("sint.from_i8", fun _ a => int_from_prim_op 8 a);
  ("sint.from_i16", fun _ a => int_from_prim_op 16 a);
  ("sint.from_i32", fun _ a => int_from_prim_op 32 a);
  ("sint.from_i64", fun _ a => int_from_prim_op 64 a);
  ("sint.from_i128", fun _ a => int_from_i128_op a);
  ("sint.from_i128_trait", fun _ a => int_from_i128_op a);
  ("sint.to_prim", fun _ a => Val [arg 0 a]);
  (* ZERO, ONE, MINUS_ONE (= FULL_MASK), MIN (= SIGN_MASK), MAX at the width given by the scalar argument *)
  ("sint.consts", fun _ a => let n := nat_arg 0 a in
     Val [zeros n; one_limbs n; maxs n; int_min_limbs n; int_max_limbs n]);
  ("sint.checked_expr", fun _ a =>
     vopt (int_checked_expr (sarg 6 a) (sarg 3 a) (sarg 4 a) (arg 0 a) (arg 1 a) (arg 2 a)))
].

(* Spec table: the same ops on the represented (signed) integers. Widths: the result of a binary
   op has the width of argument 0 unless stated; widening forms have the sum of both widths. *)
Definition ops_intarith_spec : list (string * opfn) := [
  ("sint.checked_add", fun _ a => isp_checked (ln 0 a) (sv 0 a + sv 1 a));
  ("sint.overflowing_add", fun _ a => isp_flagged (ln 0 a) (sv 0 a + sv 1 a));
  ("sint.wrapping_add", fun _ a => isp_val (ln 0 a) (sv 0 a + sv 1 a));
  ("sint.add", fun _ a => isp_panicking (ln 0 a) (sv 0 a + sv 1 a));
  ("sint.checked_sub", fun _ a => isp_checked (ln 0 a) (sv 0 a - sv 1 a));
  ("sint.wrapping_sub", fun _ a => isp_val (ln 0 a) (sv 0 a - sv 1 a));
  ("sint.sub", fun _ a => isp_panicking (ln 0 a) (sv 0 a - sv 1 a));
  ("sint.overflowing_neg", fun _ a => isp_flagged (ln 0 a) (- sv 0 a));
  ("sint.wrapping_neg", fun _ a => isp_val (ln 0 a) (- sv 0 a));
  ("sint.checked_neg", fun _ a => isp_checked (ln 0 a) (- sv 0 a));
  ("sint.wrapping_neg_if", fun _ a => isp_val (ln 0 a) (if sarg 1 a =? 0 then sv 0 a else - sv 0 a));
  (* (lo, hi, negate): magnitude of the product split at the width of the first factor; negate = signs differ *)
  ("sint.split_mul", fun _ a =>
     let p := Z.abs (sv 0 a) * Z.abs (sv 1 a) in
     Val [to_limbs (ln 0 a) p; to_limbs (ln 1 a) (p / Bn (ln 0 a)); vbool (xorb (sv 0 a <? 0) (sv 1 a <? 0))]);
  ("sint.split_mul_uint", fun _ a =>
     let p := Z.abs (sv 0 a) * ev 1 a in
     Val [to_limbs (ln 0 a) p; to_limbs (ln 1 a) (p / Bn (ln 0 a)); vbool (sv 0 a <? 0)]);
  ("sint.split_mul_uint_right", fun _ a =>
     let p := Z.abs (sv 0 a) * ev 1 a in
     Val [to_limbs (ln 1 a) p; to_limbs (ln 0 a) (p / Bn (ln 1 a)); vbool (sv 0 a <? 0)]);
  ("sint.widening_mul", fun _ a => isp_val (ln 0 a + ln 1 a) (sv 0 a * sv 1 a));
  ("sint.widening_mul_uint", fun _ a => isp_val (ln 0 a + ln 1 a) (sv 0 a * ev 1 a));
  ("sint.checked_mul", fun _ a => isp_checked (ln 0 a) (sv 0 a * sv 1 a));
  ("sint.checked_mul_uint", fun _ a => isp_checked (ln 0 a) (sv 0 a * ev 1 a));
  ("sint.checked_mul_uint_right", fun _ a => isp_checked (ln 1 a) (sv 0 a * ev 1 a));
  ("sint.mul", fun _ a => isp_panicking (ln 0 a) (sv 0 a * sv 1 a));
  ("sint.mul_uint", fun _ a => isp_panicking (ln 0 a) (sv 0 a * ev 1 a));
  (* squares are returned as unsigned integers *)
  ("sint.widening_square", fun _ a => usp_val (ln 0 a + ln 0 a) (sv 0 a * sv 0 a));
  ("sint.checked_square", fun _ a =>
     let p := sv 0 a * sv 0 a in if usp_fits (ln 0 a) p then usp_val (ln 0 a) p else NoneV);
  ("sint.wrapping_square", fun _ a => usp_val (ln 0 a) ((sv 0 a * sv 0 a) mod Bn (ln 0 a)));
  ("sint.saturating_square", fun _ a =>
     let p := sv 0 a * sv 0 a in usp_val (ln 0 a) (if usp_fits (ln 0 a) p then p else Bn (ln 0 a) - 1));
  ("sint.new_from_abs_sign", fun _ a => isp_checked (ln 0 a) (if sarg 1 a =? 0 then ev 0 a else - ev 0 a));
  ("sint.abs_sign", fun _ a => Val [to_limbs (ln 0 a) (Z.abs (sv 0 a)); vbool (sv 0 a <? 0)]);
  ("sint.abs", fun _ a => usp_val (ln 0 a) (Z.abs (sv 0 a)));
  ("sint.is_negative", fun _ a => Val [vbool (sv 0 a <? 0)]);
  ("sint.is_positive", fun _ a => Val [vbool (0 <? sv 0 a)]);
  ("sint.is_min", fun _ a => Val [vbool (2 * sv 0 a =? - Bn (ln 0 a))]);
  ("sint.is_max", fun _ a => Val [vbool (2 * sv 0 a =? Bn (ln 0 a) - 2)]);
  (* resize: sign extension when widening; reduction modulo 2^BITS(T) when narrowing *)
  ("sint.resize", fun _ a => isp_val (nat_arg 1 a) (sv 0 a));
  (* conversions from primitives: exact whenever the value is representable at the target width;
     a value that does not fit cannot be converted (must not be returned silently as another value) *)
  ("sint.from_i8", fun _ a => if (nat_arg 1 a =? 0)%nat then PanicV else isp_panicking (nat_arg 1 a) (prim_sval 8 (sarg 0 a)));
  ("sint.from_i16", fun _ a => if (nat_arg 1 a =? 0)%nat then PanicV else isp_panicking (nat_arg 1 a) (prim_sval 16 (sarg 0 a)));
  ("sint.from_i32", fun _ a => if (nat_arg 1 a =? 0)%nat then PanicV else isp_panicking (nat_arg 1 a) (prim_sval 32 (sarg 0 a)));
  ("sint.from_i64", fun _ a => if (nat_arg 1 a =? 0)%nat then PanicV else isp_panicking (nat_arg 1 a) (prim_sval 64 (sarg 0 a)));
  (* i128: documented panic (assertion) when the target has fewer than two limbs; exact otherwise *)
  ("sint.from_i128", fun _ a =>
     if (nat_arg 1 a <? 2)%nat then PanicV else isp_val (nat_arg 1 a) (seval (resize 2 (arg 0 a))));
  ("sint.from_i128_trait", fun _ a =>
     if (nat_arg 1 a <? 2)%nat then PanicV else isp_val (nat_arg 1 a) (seval (resize 2 (arg 0 a))));
  ("sint.to_prim", fun _ a => isp_val (ln 0 a) (sv 0 a));
  ("sint.consts", fun _ a => let n := nat_arg 0 a in
     Val [to_limbs_s n 0; to_limbs_s n 1; to_limbs_s n (-1); to_limbs_s n (- (Bn n / 2)); to_limbs_s n (Bn n / 2 - 1)]);
  ("sint.checked_expr", fun _ a =>
     match isp_checked_expr (ln 0 a) (sarg 6 a) (sarg 3 a) (sarg 4 a) (sv 0 a) (sv 1 a) (sv 2 a) with
     | Some r => isp_val (ln 0 a) r | None => NoneV end)
].
