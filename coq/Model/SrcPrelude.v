(** Semantics of the Rust operators that tools/rs2v.py emits (64-bit target, release profile: integer overflow wraps).
    Executable definitions only.  The generated files coq/Src/Gen*.v import nothing else. *)
From Coq Require Export ZArith Bool.
Open Scope Z_scope.

Definition add_ (w a b : Z) : Z := (a + b) mod 2 ^ w.     (* a + b, a.wrapping_add(b) at type u<w> *)
Definition sub_ (w a b : Z) : Z := (a - b) mod 2 ^ w.
Definition mul_ (w a b : Z) : Z := (a * b) mod 2 ^ w.
Definition neg_ (w a : Z) : Z := (- a) mod 2 ^ w.         (* a.wrapping_neg() *)
Definition not_ (w a : Z) : Z := 2 ^ w - 1 - a.           (* !a *)
Definition shl_ (w a s : Z) : Z := (a * 2 ^ s) mod 2 ^ w. (* a << s *)
Definition shr_ (a s : Z) : Z := a / 2 ^ s.               (* a >> s *)
Definition trunc_ (w a : Z) : Z := a mod 2 ^ w.           (* a as u<w>, narrowing *)
Definition b2z (b : bool) : Z := if b then 1 else 0.      (* b as u<w> *)
Definition oadd_ (w a b : Z) : Z * bool := ((a + b) mod 2 ^ w, 2 ^ w <=? a + b).   (* a.overflowing_add(b) *)
Definition clz_ (w a : Z) : Z := if a <=? 0 then w else w - (Z.log2 a + 1).        (* a.leading_zeros() *)

(* struct Reciprocal { divisor_normalized: Word, shift: u32, reciprocal: Word } *)
Record g_Reciprocal := { g_Reciprocal_divisor_normalized : Z; g_Reciprocal_shift : Z; g_Reciprocal_reciprocal : Z }.

(* arrays [Limb; LIMBS] are lists; `a[i] = v` *)
From Coq Require Export List.
Definition upd_ (l : list Z) (i : nat) (v : Z) : list Z := firstn i l ++ v :: skipn (S i) l.

(* `if c { panic!(..) }` guards: the diverging branch is given the dummy value below; every theorem about a function that
   contains one states the condition under which the guard is not taken *)
Definition panic_ {A} (dummy : A) : A := dummy.
Definition div_ (a b : Z) : Z := a / b.                  (* a / b, unsigned (b = 0 panics in Rust) *)
Definition rem_ (a b : Z) : Z := a mod b.                (* a % b, unsigned *)

(* signed machine integers i<w>: the Z in [-2^(w-1), 2^(w-1)); arithmetic wraps to two's complement. & | ^ are Z.land / Z.lor /
   Z.lxor (two's complement on negative Z), `>>` is the arithmetic shift = shr_ (floor division) *)
Definition swrap_ (w a : Z) : Z := (a + 2 ^ (w - 1)) mod 2 ^ w - 2 ^ (w - 1).   (* e as i<w>, narrowing / from u<w> *)
Definition sadd_ (w a b : Z) : Z := swrap_ w (a + b).
Definition ssub_ (w a b : Z) : Z := swrap_ w (a - b).
Definition smul_ (w a b : Z) : Z := swrap_ w (a * b).
Definition sneg_ (w a : Z) : Z := swrap_ w (- a).         (* -a *)
Definition snot_ (a : Z) : Z := - a - 1.                  (* !a *)
Definition sshl_ (w a s : Z) : Z := swrap_ w (a * 2 ^ s). (* a << s *)
Definition satsub_ (a b : Z) : Z := if a <? b then 0 else a - b.   (* a.saturating_sub(b), unsigned *)
Definition div_ceil_ (a b : Z) : Z := (a + b - 1) / b.              (* a.div_ceil(b), unsigned, b > 0 *)

(* added for the safegcd kernels *)
(* a.trailing_zeros() at width w (signed or unsigned: the bit pattern of a negative Z is its two's complement): the number of
   low zero bits, w for 0 *)
Fixpoint ctz_go_ (n : nat) (a : Z) : Z := match n with O => 0 | S k => if Z.odd a then 0 else 1 + ctz_go_ k (a / 2) end.
Definition ctz_ (w a : Z) : Z := ctz_go_ (Z.to_nat w) a.
(* `a[i] = v` for an array of arrays ([[i64; 2]; 2] is a list of lists) *)
Definition updl_ {A} (l : list A) (i : nat) (v : A) : list A := firstn i l ++ v :: skipn (S i) l.
(* `loop { A; if c { break; } B }`: Rust iterates until the `break`.  [step] maps the state to the new state and tells whether the
   `break` was reached; loop_ runs at most [fuel] iterations and returns None if the `break` was not reached within them.  A
   function whose body has a `loop` takes [fuel] as its first argument and returns an option: the theorems show that the result
   is `Some` for every fuel above a stated bound (that is, the Rust loop terminates, and with that value). *)
Fixpoint loop_ {S : Type} (fuel : nat) (step : S -> S * bool) (s : S) : option S :=
  match fuel with
  | O => None
  | S k => let '(s', brk) := step s in if brk then Some s' else loop_ k step s'
  end.

(* added for the byte / hex decoders (uint/encoding.rs): uN::from_le_bytes / uN::from_be_bytes of core on a [u8; N/8] array, the
   positional value of the bytes in base 256, least / most significant byte first *)
Definition from_le_bytes_ (bs : list Z) : Z := fold_right (fun b acc => b + 256 * acc) 0 bs.
Definition from_be_bytes_ (bs : list Z) : Z := from_le_bytes_ (rev bs).
