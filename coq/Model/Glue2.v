(** C15 (continued, 2): the glue AROUND THE MONTGOMERY FORMS that no model op of another area describes --
    `ConstantTimeEq` for MontyParams / MontyForm, serde `Deserialize` for ConstMontyForm (a fail-closed decoder: a
    representative >= MODULUS is an error), `Zeroize` for MontyForm / MontyParams / BoxedMontyForm,
    BoxedMontyForm::bits_precision, the Debug front of the three inverter types.
    Model entry = what the Rust code does (limb level); spec entry = the documented result in plain Z / list terms.
    Reused, not re-modelled: Model/Cmp.v (Uint / Limb ct_eq, Uint cmp), Model/Conv.v (serde of Uint), Model/Monty.v
    (the parameter constructors), Model/Glue.v (the spec of a bincode Uint payload).
    The other routes of harness/src/ops/c15s.rs map to model ops of the owning areas: `monty.history` /
    `monty.boxed_history` (params(), Monty::params, as_montgomery_mut, serde round trip), `boxed.is_zero` /
    `boxed.is_nonzero`, `uint.is_zero`, `uint.ct_eq`, `uint.serde_ser`. *)
From CB Require Export Model.Limbs.
From CB Require Import Model.AddSub Model.Cmp Model.Conv Model.Monty Model.Glue.
Open Scope Z_scope. Open Scope list_scope.

(* ------------------------------------------------------------------ ConstantTimeEq (src/modular/monty_form.rs) *)
(* impl ConstantTimeEq for MontyParams<LIMBS>:
     self.modulus.ct_eq(..) & self.one.ct_eq(..) & self.r2.ct_eq(..) & self.r3.ct_eq(..) & self.mod_neg_inv.ct_eq(..)
       & self.mod_leading_zeros.ct_eq(..)
   (left associative; the last conjunct was added by the repair of finding F34, /repo d240cb2) *)
(* subtle: u32::ct_eq : x = a ^ b ; y = (x | x.wrapping_neg()) >> 31 ; Choice((y ^ 1) as u8) *)
Definition u32_ct_eq (a b : Z) : Z := let x := Z.lxor a b in Z.lxor (Z.lor x ((- x) mod 2 ^ 32) / 2 ^ 31) 1.
Definition g2_params_ct_eq (p q : mparams) : Z :=
  ch_and (ch_and (ch_and (ch_and (ch_and (uint_ct_eq (mp_m p) (mp_m q)) (uint_ct_eq (mp_one p) (mp_one q)))
                                 (uint_ct_eq (mp_r2 p) (mp_r2 q)))
                         (uint_ct_eq (mp_r3 p) (mp_r3 q)))
                 (limb_ct_eq (mp_k p) (mp_k q)))
         (u32_ct_eq (mp_lz p) (mp_lz q)).
(* impl ConstantTimeEq for MontyForm<LIMBS>: self.montgomery_form.ct_eq(..) & self.params.ct_eq(..) *)
Definition g2_form_ct_eq (r1 : list Z) (p : mparams) (r2 : list Z) (q : mparams) : Z :=
  ch_and (uint_ct_eq r1 r2) (g2_params_ct_eq p q).
(* #[derive(PartialEq)] on MontyParams: every field, in declaration order *)
Definition g2_params_eq (p q : mparams) : bool :=
  list_eqb (mp_m p) (mp_m q) && list_eqb (mp_one p) (mp_one q) && list_eqb (mp_r2 p) (mp_r2 q) &&
  list_eqb (mp_r3 p) (mp_r3 q) && (mp_k p =? mp_k q) && (mp_lz p =? mp_lz q).
(* MontyParams::from_const_params::<P>() of a hand-written `impl ConstMontyParams` that carries the constants of
   impl_modulus! except MOD_LEADING_ZEROS *)
Definition g2_with_lz (p : mparams) (lz : Z) : mparams :=
  {| mp_m := mp_m p; mp_one := mp_one p; mp_r2 := mp_r2 p; mp_r3 := mp_r3 p; mp_k := mp_k p; mp_lz := lz |}.

(* ------------------------------------------------------------------ serde of ConstMontyForm (bincode)
   Deserialize = Uint::<LIMBS>::deserialize(..).and_then(|montgomery_form|
     if montgomery_form < MOD::MODULUS.0 { Ok(..) } else { Err(custom("montgomery form must be reduced")) });
   `<` on Uint is PartialOrd = Some(Ord::cmp) = the constant-time Uint::cmp *)
Definition g2_cmf_serde_de (n : nat) (bs m : list Z) : outcome :=
  match uint_serde_de n bs with
  | Val [r] => if is_lt (uint_cmp r m) then Val [r] else ErrV 0
  | o => o
  end.

(* ------------------------------------------------------------------ Zeroize
   Uint / Odd<Uint> / Limb / u32 ::zeroize: the all-zero value of that width.
   MontyForm::zeroize = montgomery_form.zeroize(); params.zeroize()  (EVERY parameter field, the modulus included);
   BoxedMontyForm::zeroize = montgomery_form.zeroize() only ("NOTE: This zeroizes the value, but _not_ the associated
   parameters!") *)
Definition g2_zero_params (n : nat) : list (list Z) := [zeros n; zeros n; zeros n; zeros n; [0]; [0]].
Definition g2_params_all (p : mparams) : list (list Z) :=
  [mp_m p; mp_one p; mp_r2 p; mp_r3 p; [mp_k p]; [mp_lz p]].

(* ------------------------------------------------------------------ op tables *)
Open Scope string_scope. Open Scope Z_scope.

Definition ops_glue2_model : list (string * opfn) := [
  (* args: m1, m2 (parameters built by a constructor from each modulus) *)
  ("glue2.params_ct_eq", fun _ a => vb (g2_params_ct_eq (params_fixed (arg 0 a)) (params_fixed (arg 1 a))));
  (* args: m1, representative 1, m2, representative 2 *)
  ("glue2.monty_ct_eq", fun _ a =>
     vb (g2_form_ct_eq (arg 1 a) (params_fixed (arg 0 a)) (arg 3 a) (params_fixed (arg 2 a))));
  (* args: m, lz1, lz2: two parameter sets that differ at most in mod_leading_zeros *)
  ("glue2.params_ct_eq_lz", fun _ a =>
     let p := params_fixed (arg 0 a) in vb (g2_params_ct_eq (g2_with_lz p (sarg 1 a)) (g2_with_lz p (sarg 2 a))));
  ("glue2.params_eq_lz", fun _ a =>
     let p := params_fixed (arg 0 a) in Val [vbool (g2_params_eq (g2_with_lz p (sarg 1 a)) (g2_with_lz p (sarg 2 a)))]);
  (* args: payload bytes, LIMBS, MODULUS *)
  ("glue2.cmf_serde_de", fun _ a => g2_cmf_serde_de (g_n 1 a) (arg 0 a) (arg 2 a));
  (* args: m, representative. Output: representative, then modulus, one, r2, r3, mod_neg_inv, mod_leading_zeros *)
  ("glue2.zeroize_monty_form", fun _ a => Val (zeros (g_len 1 a) :: g2_zero_params (g_len 0 a)));
  ("glue2.zeroize_monty_params", fun _ a => Val (g2_zero_params (g_len 0 a)));
  ("glue2.zeroize_boxed_form", fun _ a => Val (zeros (g_len 1 a) :: g2_params_all (params_boxed (arg 0 a))));
  (* BoxedMontyForm::bits_precision = params.bits_precision() = modulus.bits_precision() = nlimbs * Limb::BITS *)
  ("glue2.form_bits_precision", fun _ a => Val [[lenZ (arg 0 a) * 64]]);
  (* fmt::Debug for MontyFormInverter / ConstMontyFormInverter / BoxedMontyFormInverter: the adapter reports 1 when the
     text is "<type name> { modulus: .. }" (non-empty); the text itself is not modelled *)
  ("glue2.debug_nonempty", fun _ _ => Val [[1]])
].

(* ---- spec ---- *)
(* the documented parameters of an odd modulus M at n limbs, R = 2^(64 n) *)
Definition g2sp_fields (m : list Z) : list Z :=
  let M := eval m in let n := length m in let R := Bn n in
  [M; R mod M; (R * R) mod M; (R * R * R) mod M; spec_neg_inv (M mod B); Z.min (64 * Z.of_nat n - mt_bitlen M) 63].
Definition g2sp_params_limbs (m : list Z) : list (list Z) :=
  let M := eval m in let n := length m in let R := Bn n in
  [m; to_limbs n (R mod M); to_limbs n ((R * R) mod M); to_limbs n ((R * R * R) mod M);
   [spec_neg_inv (M mod B)]; [Z.min (64 * Z.of_nat n - mt_bitlen M) 63]].
Definition g2sp_two_moduli (m1 m2 : list Z) : bool :=
  odd_modulus m1 && odd_modulus m2 && (length m1 =? length m2)%nat.
(* the bincode payload of a Uint<n> (spec of "uint.serde_de" / Glue.gsp_uint_de), accepted iff the value is < MODULUS *)
Definition g2sp_cmf_serde_de (n : nat) (bs m : list Z) : outcome :=
  sp_bytes_arg bs (
    match gsp_uint_de n bs with
    | Val [r] => if eval r <? eval m then Val [r] else ErrV 0
    | o => o
    end).

Definition ops_glue2_spec : list (string * opfn) := [
  (* "equal" = all the parameters are equal *)
  ("glue2.params_ct_eq", fun _ a =>
     if negb (g2sp_two_moduli (arg 0 a) (arg 1 a)) then Unsupported
     else sp_bool (list_eqb (g2sp_fields (arg 0 a)) (g2sp_fields (arg 1 a))));
  (* the same stored value and the same parameters *)
  ("glue2.monty_ct_eq", fun _ a =>
     if negb (g2sp_two_moduli (arg 0 a) (arg 2 a) && (ln 1 a =? ln 0 a)%nat && (ln 3 a =? ln 0 a)%nat) then Unsupported
     else sp_bool ((ev 1 a =? ev 3 a) && list_eqb (g2sp_fields (arg 0 a)) (g2sp_fields (arg 2 a))));
  (* two parameter sets equal in every field but possibly mod_leading_zeros: equal iff that field is equal too *)
  ("glue2.params_ct_eq_lz", fun _ a =>
     if negb (odd_modulus (arg 0 a)) then Unsupported else sp_bool (sarg 1 a =? sarg 2 a));
  ("glue2.params_eq_lz", fun _ a =>
     if negb (odd_modulus (arg 0 a)) then Unsupported else sp_bool (sarg 1 a =? sarg 2 a));
  ("glue2.cmf_serde_de", fun _ a => g2sp_cmf_serde_de (g_n 1 a) (arg 0 a) (arg 2 a));
  (* "after zeroize the representative is zero"; what is left in the parameters: nothing (fixed width), all (boxed) *)
  ("glue2.zeroize_monty_form", fun _ a =>
     let n := g_len 0 a in
     Val [to_limbs (g_len 1 a) 0; to_limbs n 0; to_limbs n 0; to_limbs n 0; to_limbs n 0; [0]; [0]]);
  ("glue2.zeroize_monty_params", fun _ a =>
     let n := g_len 0 a in Val [to_limbs n 0; to_limbs n 0; to_limbs n 0; to_limbs n 0; [0]; [0]]);
  ("glue2.zeroize_boxed_form", fun _ a =>
     if negb (odd_modulus (arg 0 a)) then Unsupported
     else Val (to_limbs (g_len 1 a) 0 :: g2sp_params_limbs (arg 0 a)));
  (* "Bits of precision in the modulus" *)
  ("glue2.form_bits_precision", fun _ a => Val [[bitsZ (arg 0 a)]]);
  ("glue2.debug_nonempty", fun _ _ => Val [[1]])
].
