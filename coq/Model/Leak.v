(** C01 — leakage twins (source-level leakage model of the constant-time routines).

    A leakage twin of a Rust function is a Gallina function that follows the SOURCE's control structure
    and returns the list of events an execution emits:
      [Br b]   every [if] / [while] / [match] / [assert!] / [expect] condition that is evaluated on data
               (loop counters of counted loops are summarised by [Ln], see below);
      [Ix i]   every array / slice access with a non-constant index (reads and writes);
      [Dv n d] operands of a machine-integer [/] or [%];
      [Ln k]   trip count of a counted loop [while i < k] / [while i > 0] whose bound is known on entry
               (the per-iteration test of such a loop is a function of [k] and the iteration number).
    Secret data flows only through mask / select / arithmetic primitives (Model/Word.v), which emit
    nothing. Where a source condition IS evaluated on data (panicking [expect] / [assert!], the
    [_vartime] early exits, safegcd's [jump]) the twin computes that data with the value-level
    meaning of the callee (shift = multiplication by 2^s, bit length = log2+1, ...) and emits the
    condition, so that noninterference is a theorem about values and not true by construction.

    Arguments: limb lists carry the (public) width as their length; what else is public is stated per
    twin. Executable definitions only; proofs are in Proofs/LeakP.v, statements in Props/C01.v. *)
From CB Require Export Model.Limbs.
Open Scope Z_scope. Open Scope list_scope.

Inductive event := Br (b : bool) | Ix (i : Z) | Dv (n d : Z) | Ln (k : Z).
Definition trace := list event.

Definition ix (i : nat) : event := Ix (Z.of_nat i).
(** counted loop over the given iteration indices (in execution order) *)
Definition lk_loop (idxs : list nat) (body : nat -> trace) : trace :=
  Ln (Z.of_nat (length idxs)) :: flat_map body idxs.
(** [let mut i = from; while i < from + cnt { body(i); i += 1 }] *)
Definition lk_for (from cnt : nat) (body : nat -> trace) : trace := lk_loop (seq from cnt) body.
(** [let mut i = from + cnt; while i > from { i -= 1; body(i) }] *)
Definition lk_for_down (from cnt : nat) (body : nat -> trace) : trace := lk_loop (rev (seq from cnt)) body.

Definition BITSn (n : nat) : Z := 64 * Z.of_nat n.
Definition lk_bits_of (x : Z) : Z := if x <=? 0 then 0 else Z.log2 x + 1.

(* ------------------------------------------------------------------------------------------------ *)
(** * src/const_choice.rs, src/limb/cmp.rs : mask construction and mask-select emit nothing *)
Definition lk_select_word (c a b : Z) : trace := [].
Definition lk_limb_select (a b c : Z) : trace := [].
Definition lk_from_word_lt (x y : Z) : trace := [].

(** * src/uint/cmp.rs *)
(** Uint::select(a, b, c): limbs[i] = Limb::select(a.limbs[i], b.limbs[i], c) *)
Definition lk_uint_select (a b : list Z) (c : Z) : trace :=
  lk_for 0 (length a) (fun i => [ix i; ix i; ix i] ++ lk_limb_select 0 0 c).
Definition lk_is_nonzero (a : list Z) : trace := lk_for 0 (length a) (fun i => [ix i]).
Definition lk_eq (a b : list Z) : trace := lk_for 0 (length a) (fun i => [ix i; ix i]).
(** * src/uint/add.rs, sub.rs : carry chains *)
Definition lk_adc (a b : list Z) (carry : Z) : trace := lk_for 0 (length a) (fun i => [ix i; ix i; ix i]).
Definition lk_sbb (a b : list Z) (borrow : Z) : trace := lk_for 0 (length a) (fun i => [ix i; ix i; ix i]).
Definition lk_lt (a b : list Z) : trace := lk_sbb a b 0.
Definition lk_gt (a b : list Z) : trace := lk_sbb b a 0.
Definition lk_cmp (a b : list Z) : trace := lk_for 0 (length a) (fun i => [ix i; ix i]).
Definition lk_wrapping_add (a b : list Z) : trace := lk_adc a b 0.
Definition lk_wrapping_sub (a b : list Z) : trace := lk_sbb a b 0.
Definition lk_bitand_limb (a : list Z) (m : Z) : trace := lk_for 0 (length a) (fun i => [ix i; ix i]).
Definition lk_shr1 (a : list Z) : trace := lk_for_down 0 (length a) (fun i => [ix i; ix i]).
Definition lk_shl1 (a : list Z) : trace := lk_for 0 (length a) (fun i => [ix i; ix i]).

(** cmp_vartime (control): scans from the top limb, leaves at the first difference *)
Fixpoint lk_cmp_vartime_go (fuel : nat) (a b : list Z) (i : nat) : trace :=
  match fuel with
  | O => []
  | S f =>
      let v := wsub (nthz a i) (nthz b i) in
      [ix i; ix i; Br (negb (v =? 0))] ++
      if negb (v =? 0) then [Br (nthz a i <? nthz b i)]
      else Br (i =? 0)%nat :: if (i =? 0)%nat then [] else lk_cmp_vartime_go f a b (i - 1)
  end.
Definition lk_cmp_vartime (a b : list Z) : trace := lk_cmp_vartime_go (length a) a b (length a - 1).

(* ------------------------------------------------------------------------------------------------ *)
(** * src/uint/shl.rs, shr.rs *)
(** overflowing_shl_vartime(shift): variable time in [shift] ONLY — [shift] is a public argument here *)
Definition lk_overflowing_shl_vartime (x : list Z) (shift : Z) : trace :=
  let n := length x in
  Br (BITSn n <=? shift) ::
  if BITSn n <=? shift then [] else
  let sn := Z.to_nat (shift / 64) in
  lk_for sn (n - sn) (fun i => [ix i; ix (i - sn)]) ++
  Br (shift mod 64 =? 0) ::
  if shift mod 64 =? 0 then [] else lk_for sn (n - sn) (fun i => [ix i; ix i; ix i]).
Definition lk_overflowing_shr_vartime (x : list Z) (shift : Z) : trace :=
  let n := length x in
  Br (BITSn n <=? shift) ::
  if BITSn n <=? shift then [] else
  let sn := Z.to_nat (shift / 64) in
  lk_for 0 (n - sn) (fun i => [ix i; ix (i + sn)]) ++
  Br (shift mod 64 =? 0) ::
  if shift mod 64 =? 0 then [] else lk_for_down 0 (n - sn) (fun i => [ix i; ix i; ix i]).

(** number of ladder rungs: u32::BITS - (BITS - 1).leading_zeros() *)
Definition lk_shift_bits (n : nat) : nat := Z.to_nat (lk_bits_of (BITSn n - 1)).
(** overflowing_shl(shift) with SECRET shift: one vartime shift by the PUBLIC amount 2^i and one select per
    rung; [expect] on the rung's result tests is_some = (2^i < BITS), a public fact *)
Definition lk_overflowing_shl (x : list Z) (shift : Z) : trace :=
  let n := length x in
  lk_for 0 (lk_shift_bits n) (fun i =>
    lk_overflowing_shl_vartime x (2 ^ Z.of_nat i) ++ [Br (2 ^ Z.of_nat i <? BITSn n)] ++ lk_uint_select x x 0)
  ++ lk_uint_select x x 0.
Definition lk_overflowing_shr (x : list Z) (shift : Z) : trace :=
  let n := length x in
  lk_for 0 (lk_shift_bits n) (fun i =>
    lk_overflowing_shr_vartime x (2 ^ Z.of_nat i) ++ [Br (2 ^ Z.of_nat i <? BITSn n)] ++ lk_uint_select x x 0)
  ++ lk_uint_select x x 0.
(** shl / shr: [expect("`shift` within the bit size of the integer")] tests the secret shift *)
Definition lk_shl (x : list Z) (shift : Z) : trace := lk_overflowing_shl x shift ++ [Br (shift <? BITSn (length x))].
Definition lk_shr (x : list Z) (shift : Z) : trace := lk_overflowing_shr x shift ++ [Br (shift <? BITSn (length x))].
(** wrapping_shl = overflowing_shl(..).unwrap_or(ZERO): a select, no test *)
Definition lk_wrapping_shl (x : list Z) (shift : Z) : trace := lk_overflowing_shl x shift ++ lk_uint_select x x 0.
Definition lk_shl_vartime (x : list Z) (shift : Z) : trace :=
  lk_overflowing_shl_vartime x shift ++ [Br (shift <? BITSn (length x))].

(** shl_limb(shift), 0 <= shift < 64: the zero-shift case is handled by the mask [nz.if_true_word], not by a
    test (src/uint/shl.rs:143-164) — no [Br] *)
Definition lk_shl_limb (x : list Z) (shift : Z) : trace :=
  let n := length x in
  [ix (n - 1); ix 0; ix 0] ++ lk_for 1 (n - 1) (fun i => [ix i; ix (i - 1); ix i]).

(* ------------------------------------------------------------------------------------------------ *)
(** * src/uint/boxed/ct.rs, src/uint/boxed/shl.rs : the heap-allocated twins (precision = list length, public) *)
Definition lk_boxed_ct_select (a b : list Z) (c : Z) : trace := lk_for 0 (length a) (fun i => [ix i; ix i; ix i]).
Definition lk_boxed_ct_assign (a b : list Z) (c : Z) : trace := lk_for 0 (length a) (fun i => [ix i; ix i; ix i]).
Definition lk_boxed_ct_swap (a b : list Z) (c : Z) : trace := lk_for 0 (length a) (fun i => [ix i; ix i; ix i; ix i]).
Definition lk_boxed_clone (a : list Z) : trace := [Ln (lenZ a)].
Definition lk_boxed_set_zero (a : list Z) : trace := lk_for 0 (length a) (fun i => [ix i]).
(** shl_vartime_into(dest, shift): variable time in [shift] only *)
Definition lk_boxed_shl_vartime_into (x : list Z) (shift : Z) : trace := lk_overflowing_shl_vartime x shift.
(** overflowing_shl_assign(shift), secret shift: per rung set_zero, a vartime shift by the public 2^i, [expect], ct_assign *)
Definition lk_boxed_overflowing_shl (x : list Z) (shift : Z) : trace :=
  let n := length x in
  lk_boxed_clone x ++ lk_boxed_clone x ++
  lk_for 0 (lk_shift_bits n) (fun i =>
    lk_boxed_set_zero x ++ lk_boxed_shl_vartime_into x (2 ^ Z.of_nat i) ++ [Br (2 ^ Z.of_nat i <? BITSn n)] ++
    lk_boxed_ct_assign x x 0) ++
  lk_boxed_set_zero x.
(** shl: [assert!(!bool::from(overflow))] *)
Definition lk_boxed_shl (x : list Z) (shift : Z) : trace :=
  lk_boxed_overflowing_shl x shift ++ [Br (shift <? BITSn (length x))].

(* ------------------------------------------------------------------------------------------------ *)
(** * src/uint/bits.rs *)
Definition lk_leading_zeros (x : list Z) : trace := lk_for_down 0 (length x) (fun i => [ix i]).
Definition lk_bits (x : list Z) : trace := lk_leading_zeros x.
Definition lk_trailing_zeros (x : list Z) : trace := lk_for 0 (length x) (fun i => [ix i]).
Definition lk_trailing_ones (x : list Z) : trace := lk_for 0 (length x) (fun i => [ix i]).
(** bit(index): the secret index only enters the mask [from_u32_eq(i, limb_num)] and a word shift *)
Definition lk_bit (x : list Z) (index : Z) : trace := lk_for 0 (length x) (fun i => [ix i]).
Definition lk_set_bit (x : list Z) (index : Z) (v : Z) : trace := lk_for 0 (length x) (fun i => [ix i; ix i]).
(** bit_vartime(index) (control, variable time in [index] only) *)
Definition lk_bit_vartime (x : list Z) (index : Z) : trace :=
  Br (lenZ x <=? index / 64) :: if lenZ x <=? index / 64 then [] else [Ix (index / 64)].
(** bits_vartime (control, variable time in self): [while i > 0 && limbs[i] == 0] *)
Fixpoint lk_bits_vartime_go (fuel : nat) (x : list Z) (i : nat) : trace :=
  match fuel with
  | O => []
  | S f =>
      Br (0 <? i)%nat ::
      if (0 <? i)%nat then
        ix i :: Br (nthz x i =? 0) :: if nthz x i =? 0 then lk_bits_vartime_go f x (i - 1) else [ix i]
      else [ix i]
  end.
Definition lk_bits_vartime (x : list Z) : trace := lk_bits_vartime_go (S (length x)) x (length x - 1).
(** trailing_zeros_vartime (control): leaves at the first non-zero limb *)
Fixpoint lk_trailing_zeros_vartime_go (x : list Z) (i : nat) : trace :=
  match x with
  | [] => [Br false]
  | w :: r => Br true :: ix i :: Br (negb (w =? 0)) :: if negb (w =? 0) then [] else lk_trailing_zeros_vartime_go r (S i)
  end.
Definition lk_trailing_zeros_vartime (x : list Z) : trace := lk_trailing_zeros_vartime_go x 0.

(* ------------------------------------------------------------------------------------------------ *)
(** * src/uint/div_limb.rs *)
(** Reciprocal::new: leading_zeros intrinsic, shift, reciprocal(): straight-line except short_div's loop, whose
    trip count 19 - 9 + 1 is a constant *)
Definition lk_recip_new (d : Z) : trace := [Ln 11].
(** div2by1: straight-line mask arithmetic (debug_assert!s are absent from the optimized build) *)
Definition lk_div2by1 (u1 u0 : Z) : trace := [].
(** div3by2: div2by1 + two fixed correction rounds *)
Definition lk_div3by2 (u2 u1 u0 v0 : Z) : trace := lk_div2by1 u2 u1 ++ [Ln 2].
Definition lk_div_rem_limb_with_reciprocal (u : list Z) (shift : Z) : trace :=
  lk_shl_limb u shift ++ lk_for_down 0 (length u) (fun j => [ix j; ix j] ++ lk_div2by1 0 0).
Definition lk_rem_limb_with_reciprocal (u : list Z) (shift : Z) : trace :=
  lk_shl_limb u shift ++ lk_for_down 0 (length u) (fun j => [ix j] ++ lk_div2by1 0 0).
(** rem_limb(rhs: NonZero<Limb>) with a secret divisor *)
Definition lk_rem_limb (u : list Z) (d : Z) : trace :=
  lk_recip_new d ++ lk_rem_limb_with_reciprocal u (64 - lk_bits_of d).
Definition lk_div_rem_limb (u : list Z) (d : Z) : trace :=
  lk_recip_new d ++ lk_div_rem_limb_with_reciprocal u (64 - lk_bits_of d).

(** * src/uint/div.rs : Uint::div_rem, constant time in BOTH operands (fixed trip count, done / ct_borrow masks).
    Conditions evaluated on data: [assert!(dbits > 0)], the [expect]s of [shl] / [to_nz] / [shr]. *)
Definition lk_div_rem_body (n xi : nat) : trace :=
  [ix (xi - 1); ix (n - 2)] ++ lk_div3by2 0 0 0 0 ++
  lk_for 0 (S xi) (fun i => [Ix (Z.of_nat n - Z.of_nat xi + Z.of_nat i - 1); ix i; ix i]) ++
  lk_for 0 (S xi) (fun i => [ix i; Ix (Z.of_nat n - Z.of_nat xi + Z.of_nat i - 1); ix i]) ++
  [ix xi; ix xi; ix xi; ix (xi - 1)].
Definition lk_div_rem_tail (x y : list Z) (dwords lshift : Z) : trace :=
  let n := length x in
  lk_div2by1 0 0 ++ [Ix 0; Ix 0; Ix 0; Ix 0] ++
  lk_for 1 (n - 1) (fun i => [ix i; ix i; ix i; ix i]) ++
  lk_shr x ((dwords - 1) * 64) ++ lk_shr y lshift.
Definition lk_div_rem (x y : list Z) : trace :=
  let n := length x in
  Br (n =? 1)%nat ::
  if (n =? 1)%nat then
    (* rhs.0.limbs[0].to_nz().expect("zero divisor") *)
    Ix 0 :: Br (negb (nthz y 0 =? 0)) ::
    if nthz y 0 =? 0 then [] else lk_div_rem_limb x (nthz y 0) ++ [Ix 0]
  else
    let dbits := lk_bits_of (eval y) in
    lk_bits y ++ Br (0 <? dbits) ::                                   (* assert!(dbits > 0, "zero divisor") *)
    if negb (0 <? dbits) then [] else
    let dwords := (dbits + 63) / 64 in
    let lshift := (64 - dbits mod 64) mod 64 in
    let ynorm := to_limbs n ((eval y * 2 ^ (BITSn n - dbits)) mod Bn n) in
    lk_shl y (BITSn n - dbits) ++                                     (* rhs.0.shl(Self::BITS - dbits) *)
    lk_shl_limb x lshift ++ [ix (n - 1)] ++
    ix (n - 1) :: Br (negb (nthz ynorm (n - 1) =? 0)) ::              (* y[LIMBS-1].to_nz().expect("zero divisor") *)
    if nthz ynorm (n - 1) =? 0 then [] else
    lk_recip_new (nthz ynorm (n - 1)) ++
    lk_for_down 1 (n - 1) (lk_div_rem_body n) ++
    lk_div_rem_tail x y dwords lshift.
Definition lk_rem (x y : list Z) : trace := lk_div_rem x y.

(* ------------------------------------------------------------------------------------------------ *)
(** * src/uint/neg_mod.rs, add_mod.rs, sub_mod.rs (the modulus is an ordinary, secret, operand) *)
Definition lk_neg_mod (a p : list Z) : trace :=
  lk_is_nonzero a ++ lk_sbb p a 0 ++ lk_for 0 (length a) (fun i => [ix i; ix i]).
Definition lk_add_mod (a b p : list Z) : trace :=
  lk_adc a b 0 ++ lk_sbb a p 0 ++ lk_bitand_limb p 0 ++ lk_wrapping_add a p.
Definition lk_sub_mod (a b p : list Z) : trace :=
  lk_sbb a b 0 ++ lk_bitand_limb p 0 ++ lk_wrapping_add a p.
Definition lk_double_mod (a p : list Z) : trace :=
  lk_shl1 a ++ lk_sbb a p 0 ++ lk_bitand_limb p 0 ++ lk_wrapping_add a p.

(* ------------------------------------------------------------------------------------------------ *)
(** * src/uint/inv_mod.rs *)
(** inv_mod2k(k), constant time in self AND k: BITS rounds, the rounds i >= k are dummies masked by
    [within_range]; k never reaches a condition or an index *)
Definition lk_inv_mod2k_round (x : list Z) : trace :=
  [Ix 0] ++ lk_wrapping_sub x x ++ lk_uint_select x x 0 ++ lk_shr1 x ++ lk_set_bit x 0 0.
Definition lk_inv_mod2k (x : list Z) (k : Z) : trace :=
  [Ix 0] ++ lk_for 0 (Z.to_nat (BITSn (length x))) (fun _ => lk_inv_mod2k_round x).
(** inv_mod2k_vartime(k): "constant-time w.r.t. self but not k" — k rounds, and the public round number is the
    shift amount of a vartime shift *)
Definition lk_inv_mod2k_vartime (x : list Z) (k : Z) : trace :=
  [Ix 0] ++ lk_for 0 (Z.to_nat k) (fun i =>
    [Ix 0] ++ lk_wrapping_sub x x ++ lk_uint_select x x 0 ++ lk_shr1 x ++
    lk_overflowing_shl_vartime x (Z.of_nat i) ++ [Br (Z.of_nat i <? BITSn (length x))] ++ lk_eq x x).

(* ------------------------------------------------------------------------------------------------ *)
(** * src/uint/sqrt.rs : fixed LOG2_BITS + 2 Newton rounds; a zero divisor is replaced by ONE through a select.
    The divisor of every round is a data value, and div_rem tests it ([assert!(dbits > 0)]), so the twin
    carries the iterate (value-level Newton step) *)
Definition lk_log2_bits (n : nat) : nat := Z.to_nat (Z.log2 (BITSn n)).
Definition lk_sqrt_step (n : nat) (v x : Z) : Z := if x =? 0 then 0 else ((x + v / x) mod Bn n) / 2.
Fixpoint lk_sqrt_rounds (cnt : nat) (self : list Z) (x : Z) : trace :=
  match cnt with
  | O => []
  | S c =>
      let n := length self in
      let xl := to_limbs n x in
      let d := to_limbs n (if x =? 0 then 1 else x) in
      lk_is_nonzero xl ++ lk_uint_select xl xl 0 ++ lk_div_rem self d ++
      lk_wrapping_add xl xl ++ lk_shr1 xl ++ lk_uint_select xl xl 0 ++
      lk_sqrt_rounds c self (lk_sqrt_step n (eval self) x)
  end.
Definition lk_sqrt (self : list Z) : trace :=
  let n := length self in
  let s := (lk_bits_of (eval self) + 1) / 2 in
  lk_bits self ++ lk_overflowing_shl self s ++ Br (s <? BITSn n) ::          (* .expect("shift within range") *)
  if negb (s <? BITSn n) then [] else
  Ln (Z.of_nat (lk_log2_bits n + 2)) ::
  lk_sqrt_rounds (lk_log2_bits n + 2) self ((2 ^ s) mod Bn n) ++
  lk_gt self self ++ lk_uint_select self self 0.

(* ------------------------------------------------------------------------------------------------ *)
(** * src/modular/reduction.rs : montgomery_reduction (Algorithm 14.32), then sub_mod_with_carry *)
Definition lk_montgomery_reduction (lower upper modulus : list Z) : trace :=
  let n := length modulus in
  lk_for 0 n (fun i =>
    [ix i; ix i; Ix 0] ++
    lk_for 1 (n - i - 1) (fun j => [ix (i + j); ix j; ix (i + j)]) ++
    lk_for (n - i) i (fun j => [Ix (Z.of_nat i + Z.of_nat j - Z.of_nat n); ix j; Ix (Z.of_nat i + Z.of_nat j - Z.of_nat n)]) ++
    [ix i; ix i]) ++
  lk_sbb upper modulus 0 ++ lk_bitand_limb modulus 0 ++ lk_wrapping_add upper modulus.
(** schoolbook product of two n-limb numbers (split_mul / square_wide); which algorithm is used depends on
    the width only *)
Definition lk_mul_wide (a b : list Z) : trace :=
  lk_for 0 (length a) (fun i => lk_for 0 (length b) (fun j => [ix i; ix j; ix (i + j)]) ++ [ix (i + length b)]).
Definition lk_mul_montgomery_form (a b m : list Z) : trace := lk_mul_wide a b ++ lk_montgomery_reduction a a m.

(** * src/modular/pow.rs : fixed-window (4-bit) ladder; [exponent_bits] is public ("leaked in the time pattern"),
    the exponent's limbs are secret; the table of powers is scanned completely with a mask-select *)
Definition lk_compute_powers (x m : list Z) : trace :=
  [Ix 1] ++ lk_for 2 14 (fun i => [ix (i - 1)] ++ lk_mul_montgomery_form x x m ++ [ix i]).
Definition lk_table_scan (x : list Z) : trace :=
  [Ix 0] ++ lk_for 1 15 (fun j => lk_from_word_lt 0 0 ++ [ix j] ++ lk_uint_select x x 0).
Definition lk_pow_window (x m : list Z) (limb_num : nat) (first : bool) : trace :=
  Br first :: (if first then [] else lk_for 0 4 (fun _ => lk_mul_montgomery_form x x m)) ++
  lk_for 0 1 (fun i => [ix i; ix limb_num; Br first] ++ lk_table_scan x ++ lk_mul_montgomery_form x x m).
Definition lk_pow (x e m : list Z) (exponent_bits : Z) : trace :=
  Br (exponent_bits =? 0) ::
  if exponent_bits =? 0 then [] else
  let starting_limb := Z.to_nat ((exponent_bits - 1) / 64) in
  let starting_window := Z.to_nat (((exponent_bits - 1) mod 64) / 4) in
  lk_for 0 1 (fun i => [ix i] ++ lk_compute_powers x m ++ [ix i]) ++
  lk_for_down 0 (S starting_limb) (fun limb_num =>
    let top := (limb_num =? starting_limb)%nat in
    Br top ::
    lk_for_down 0 (if top then S starting_window else 16) (fun window_num =>
      lk_pow_window x m limb_num (top && (window_num =? starting_window)%nat))).

(* ------------------------------------------------------------------------------------------------ *)
(** * src/modular/safegcd.rs : [jump] — deliberately faithful.
    62 divsteps on the low limbs f[0], g[0] (62-bit unsaturated limbs) and delta. The loop count, the
    [min]s (an [if a > b]), [if steps == 0] and [if delta > 0] are evaluated on g's bits and on delta.
    The transition matrix t never reaches a condition or an index and is omitted. i64 / i128 are
    modelled as Z with explicit wrapping where the source wraps. *)
Definition sext64 (x : Z) : Z := (x + 2 ^ 63) mod 2 ^ 64 - 2 ^ 63.          (* as i64 *)
Definition sext128 (x : Z) : Z := (x + 2 ^ 127) mod 2 ^ 128 - 2 ^ 127.      (* as i128 *)
(** i128::trailing_zeros *)
Fixpoint tz_go (fuel : nat) (g : Z) (acc : Z) : Z :=
  match fuel with O => acc | S f => if Z.odd g then acc else tz_go f (g / 2) (acc + 1) end.
Definition tz128 (g : Z) : Z := if g =? 0 then 128 else tz_go 128 g 0.
(** [const fn min(a, b) { if a > b { b } else { a } }] *)
Definition lk_min (a b : Z) : Z * trace := (if b <? a then b else a, [Br (b <? a)]).

Record jst := { j_steps : Z; j_delta : Z; j_f : Z; j_g : Z }.
Fixpoint lk_jump_go (fuel : nat) (s : jst) : trace :=
  match fuel with
  | O => []
  | S fu =>
      let '(zeros, t1) := lk_min (j_steps s) (tz128 (j_g s)) in
      let steps := j_steps s - zeros in
      let delta := j_delta s + zeros in
      let g := j_g s / 2 ^ zeros in                               (* arithmetic shift right *)
      t1 ++ Br (steps =? 0) ::
      if steps =? 0 then [] else
      let swap := 0 <? delta in
      let delta' := if swap then - delta else delta in
      let f' := if swap then sext64 g else j_f s in
      let g' := if swap then - (j_f s) else g in
      let '(m1, t2) := lk_min steps (1 - delta') in
      let '(m2, t3) := lk_min m1 5 in
      let mask := 2 ^ m2 - 1 in
      let w := Z.land (sext64 (sext64 g' * sext64 (Z.lxor (sext64 (f' * 3)) 28))) mask in
      Br swap :: t2 ++ t3 ++
      lk_jump_go fu {| j_steps := steps; j_delta := delta'; j_f := f'; j_g := sext128 (g' + w * f') |}
  end.
(** jump(f, g, delta): reads f[0], g[0] *)
Definition lk_jump (f g : list Z) (delta : Z) : trace :=
  [Ix 0; Ix 0] ++ lk_jump_go 130 {| j_steps := 62; j_delta := delta; j_f := sext64 (nthz f 0); j_g := nthz g 0 |}.

(** divsteps: the outer trip count is [iterations(f_0.bits(), g.bits())] — a function of the bit lengths of BOTH
    operands (src/modular/safegcd.rs:214-236, 369-374) *)
Definition lk_iterations (f_bits g_bits : Z) : Z :=
  let d := if f_bits <? g_bits then g_bits else f_bits in
  (49 * d + (if d <? 46 then 80 else 57)) / 17.
Definition lk_divsteps_trip (f g : Z) : trace := [Ln (lk_iterations (lk_bits_of f) (lk_bits_of g))].
