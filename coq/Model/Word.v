(** Word-level primitives of crypto-bigint on a 64-bit target (Word = u64, WideWord = u128).
    Executable definitions only; proofs live in Proofs/. Every Rust operator is translated by
    its Rust meaning: wrapping ops and `as Word` casts are explicit [mod B]. *)
From Coq Require Export ZArith List Bool Lia.
Export ListNotations.
Open Scope Z_scope.

Definition wbits : Z := 64.
Definition B : Z := 2 ^ 64.
Definition BB : Z := B * B.              (* 2^128, WideWord modulus *)
Definition MAXW : Z := B - 1.

Definition wrap (x : Z) : Z := x mod B.
Definition wrap2 (x : Z) : Z := x mod BB.

(* bit operations on words *)
Definition wnot (x : Z) : Z := MAXW - x.
Definition wand := Z.land.
Definition wor := Z.lor.
Definition wxor := Z.lxor.
Definition wneg (x : Z) : Z := wrap (- x).         (* wrapping_neg *)
Definition wadd (x y : Z) : Z := wrap (x + y).     (* wrapping_add *)
Definition wsub (x y : Z) : Z := wrap (x - y).     (* wrapping_sub *)
Definition wmul (x y : Z) : Z := wrap (x * y).     (* wrapping_mul *)
Definition wshr (x s : Z) : Z := x / 2 ^ s.        (* x >> s, 0 <= s < 64 *)
Definition wshl (x s : Z) : Z := wrap (x * 2 ^ s). (* x << s, 0 <= s < 64 *)
Definition msb (x : Z) : Z := x / 2 ^ 63.

(* src/primitives.rs *)
Definition mulhilo (x y : Z) : Z * Z := let r := x * y in (r / B, r mod B).
Definition addhilo (xh xl yh yl : Z) : Z * Z :=
  let r := wrap2 ((xh * B + xl) + (yh * B + yl)) in (r / B, r mod B).
Definition adc (lhs rhs carry : Z) : Z * Z :=
  let r := lhs + rhs + carry in (r mod B, r / B).
Definition overflowing_add (lhs rhs : Z) : Z * Z :=
  let r := lhs + rhs in (r mod B, r / B).
Definition sbb (lhs rhs borrow : Z) : Z * Z :=
  let bw := borrow / 2 ^ 63 in
  let r := wrap2 (lhs - (rhs + bw)) in (r mod B, r / B).
Definition mul_wide (lhs rhs : Z) : Z * Z := let r := lhs * rhs in (r mod B, r / B).
Definition mac (a b c carry : Z) : Z * Z :=
  let ret := a + b * c in
  let lo := ret mod B in let hi := ret / B in
  let s := lo + carry in
  let lo' := s mod B in let c' := s / B in
  (lo', wadd hi c').

(* src/const_choice.rs : a ConstChoice is the word 0 or MAXW *)
Definition from_word_lsb (v : Z) : Z := wneg v.
Definition from_word_msb (v : Z) : Z := from_word_lsb (v / 2 ^ 63).
Definition from_word_nonzero (v : Z) : Z := from_word_lsb (wor v (wneg v) / 2 ^ 63).
Definition from_word_eq (x y : Z) : Z := wnot (from_word_nonzero (wxor x y)).
Definition from_word_lt (x y : Z) : Z :=
  let bit := wor (wand (wnot x) y) (wand (wor (wnot x) y) (wsub x y)) / 2 ^ 63 in
  from_word_lsb bit.
Definition from_word_gt (x y : Z) : Z := from_word_lt y x.
Definition from_word_le (x y : Z) : Z :=
  let bit := wand (wor (wnot x) y) (wor (wxor x y) (wnot (wsub y x))) / 2 ^ 63 in
  from_word_lsb bit.
Definition select_word (c a b : Z) : Z := wxor a (wand c (wxor a b)).
Definition if_true_word (c x : Z) : Z := wand x c.
Definition choice_to_bool (c : Z) : bool := Z.odd c.   (* to_u8 & 1 *)
Definition choice_of_bool (b : bool) : Z := if b then MAXW else 0.

Definition is_word (x : Z) : Prop := 0 <= x < B.
Definition is_wordb (x : Z) : bool := (0 <=? x) && (x <? B).
