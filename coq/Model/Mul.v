(** C03: multiplication and squaring. Faithful models of src/uint/mul.rs, src/uint/mul/karatsuba.rs,
    src/uint/boxed/mul.rs, src/limb/mul.rs. *)
From CB Require Export Model.Limbs Model.AddSub.
Open Scope Z_scope. Open Scope list_scope.

Definition splice (out : list Z) (off : nat) (seg : list Z) : list Z :=
  firstn off out ++ seg ++ skipn (off + length seg) out.
Definition slice (l : list Z) (off len : nat) : list Z := firstn len (skipn off l).

(* ---- one row: out[off + j] += xi * ys[j] with running carry; returns (out, carry) ---- *)
Fixpoint mac_row (out : list Z) (off : nat) (xi : Z) (ys : list Z) (carry : Z) : list Z * Z :=
  match ys with
  | [] => (out, carry)
  | y :: ys' =>
      let '(v, c) := mac (nthz out off) xi y carry in
      mac_row (firstn off out ++ v :: skipn (S off) out) (S off) xi ys' c
  end.

(* ---- schoolbook_multiplication: row i writes its final carry into out[i + len ys] ---- *)
Fixpoint schoolbook_rows (out : list Z) (i : nat) (xs ys : list Z) : list Z :=
  match xs with
  | [] => out
  | xi :: xs' =>
      let '(out1, c) := mac_row out i xi ys 0 in
      let k := (i + length ys)%nat in
      schoolbook_rows (firstn k out1 ++ c :: skipn (S k) out1) (S i) xs' ys
  end.
Definition schoolbook_mul (xs ys : list Z) : list Z :=
  schoolbook_rows (zeros (length xs + length ys)) 0 xs ys.
Definition split_at (n : nat) (l : list Z) : list Z * list Z := (firstn n l, skipn n l).

(* ---- schoolbook_squaring: half grid, doubling, diagonal ---- *)
Fixpoint sq_rows (out : list Z) (i : nat) (xs_rest : list Z) (xs : list Z) : list Z :=
  match xs_rest with
  | [] => out
  | xi :: rest =>
      let '(out1, c) := mac_row out i xi (firstn i xs) 0 in
      let k := (2 * i)%nat in
      sq_rows (firstn k out1 ++ c :: skipn (S k) out1) (S i) rest xs
  end.
(* (w << 1) | carry, carry' = w >> 63 over 2n - 1 limbs, top limb = carry *)
Fixpoint shl1_go (l : list Z) (carry : Z) : list Z * Z :=
  match l with
  | [] => ([], carry)
  | wd :: r => let '(r', c) := shl1_go r (wd / 2 ^ 63) in (Z.lor (wshl wd 1) carry :: r', c)
  end.
Fixpoint sq_diag (out : list Z) (i : nat) (xs : list Z) (carry : Z) : list Z :=
  match xs with
  | [] => out
  | xi :: rest =>
      let '(v, c) := mac (nthz out (2 * i)) xi xi carry in
      let out1 := firstn (2 * i) out ++ v :: skipn (S (2 * i)) out in
      let '(v2, c2) := overflowing_add (nthz out1 (2 * i + 1)) c in
      sq_diag (firstn (2 * i + 1) out1 ++ v2 :: skipn (S (2 * i + 1)) out1) (S i) rest c2
  end.
Definition schoolbook_sq (xs : list Z) : list Z :=
  let n := length xs in
  match xs with
  | [] => []
  | _ :: tl =>
      let out := sq_rows (zeros (2 * n)) 1 tl xs in
      let '(dbl, c) := shl1_go (firstn (2 * n - 1) out) 0 in
      sq_diag (dbl ++ [c]) 0 xs 0
  end.

(* ---- fixed-size Karatsuba (UintKaratsubaMul), level = number of halvings before schoolbook ---- *)
Definition lnot_limbs (l : list Z) : list Z := map wnot l.
Definition sel_limbs (c : bool) (a b : list Z) : list Z := if c then b else a.
Definition is_mask (b : Z) : bool := negb (b =? 0).

Fixpoint kmul (level : nat) (x y : list Z) : list Z * list Z :=
  match level with
  | O => split_at (length x) (schoolbook_mul x y)
  | S l =>
      let h := Nat.div2 (length x) in
      let '(x0, x1) := split_at h x in
      let '(y0, y1) := split_at h y in
      let '(l0, l0b) := sbb_limbs x0 x1 0 in
      let '(l1, l1b) := sbb_limbs y1 y0 0 in
      let l0 := sel_limbs (is_mask l0b) l0 (uint_wrapping_neg l0) in
      let l1 := sel_limbs (is_mask l1b) l1 (uint_wrapping_neg l1) in
      let '(z1lo, z1hi) := kmul l l0 l1 in
      let z1_neg := xorb (is_mask l0b) (is_mask l1b) in
      let r0 := sel_limbs z1_neg (zeros h) (lnot_limbs (zeros h)) in
      let r1 := sel_limbs z1_neg z1lo (lnot_limbs z1lo) in
      let r2 := sel_limbs z1_neg z1hi (lnot_limbs z1hi) in
      let r3 := sel_limbs z1_neg (zeros h) (lnot_limbs (zeros h)) in
      let '(z0lo, z0hi) := kmul l x0 y0 in
      let '(z2lo, z2hi) := kmul l x1 y1 in
      let carry := if z1_neg then 1 else 0 in
      let '(r0, carry) := adc_limbs r0 z0lo carry in
      let '(r1, carry) := adc_limbs r1 z0hi carry in
      let '(r1, carry2) := adc_limbs r1 z0lo 0 in
      let '(r2, carry) := adc_limbs r2 z0hi (wadd carry carry2) in
      let '(r1, carry2) := adc_limbs r1 z2lo 0 in
      let '(r2, carry2) := adc_limbs r2 z2hi carry2 in
      let carry := wadd carry carry2 in
      let '(r2, carry2) := adc_limbs r2 z2lo 0 in
      let '(r3, _) := adc_limbs r3 z2hi (wadd carry carry2) in
      (r0 ++ r1, r2 ++ r3)
  end.

Fixpoint ksq (level : nat) (x : list Z) : list Z * list Z :=
  match level with
  | O => split_at (length x) (schoolbook_sq x)
  | S l =>
      let h := Nat.div2 (length x) in
      let '(x0, x1) := split_at h x in
      let '(z0lo, z0hi) := ksq l x0 in
      let '(z2lo, z2hi) := ksq l x1 in
      let r0 := z0lo in
      let '(r1, carry) := adc_limbs z0hi z0lo 0 in
      let '(r2, carry) := adc_limbs z0hi z2lo carry in
      let '(r1, carry2) := adc_limbs r1 z2lo 0 in
      let '(r2, carry2) := adc_limbs r2 z2hi carry2 in
      let '(r3, _) := adc_limbs z2hi (zeros h) (wadd carry carry2) in
      let '(l0, l0b) := sbb_limbs x0 x1 0 in
      let l0 := sel_limbs (is_mask l0b) l0 (uint_wrapping_neg l0) in
      let '(z1lo, z1hi) := ksq l l0 in
      let '(r1, bw) := sbb_limbs r1 z1lo 0 in
      let '(r2, bw) := sbb_limbs r2 z1hi bw in
      let '(r3, _) := sbb_limbs r3 (zeros h) bw in
      (r0 ++ r1, r2 ++ r3)
  end.

(* Uint::split_mul / square_wide dispatch *)
Definition klevel_mul (n : nat) : option nat :=
  if (n =? 16)%nat then Some 1%nat else if (n =? 32)%nat then Some 2%nat
  else if (n =? 64)%nat then Some 3%nat else if (n =? 128)%nat then Some 4%nat else None.
Definition uint_split_mul (x y : list Z) : list Z * list Z :=
  match (if (length x =? length y)%nat then klevel_mul (length x) else None) with
  | Some l => kmul l x y
  | None => split_at (length x) (schoolbook_mul x y)
  end.
Definition uint_square_wide (x : list Z) : list Z * list Z :=
  if (length x =? 64)%nat then ksq 1 x else if (length x =? 128)%nat then ksq 2 x
  else split_at (length x) (schoolbook_sq x).

(* ---- boxed Karatsuba ---- *)
Definition cond_neg (l : list Z) (c : bool) : list Z := if c then fst (neg_limbs l 1) else l.
Definition adc_into (out : list Z) (off : nat) (src : list Z) (carry : Z) : list Z * Z :=
  let '(r, c) := adc_limbs (slice out off (length src)) src carry in (splice out off r, c).

(* adc_mul_limbs(lhs, rhs, out): out += lhs * rhs, row by row; returns final carry *)
Fixpoint adc_mul_rows (out : list Z) (i : nat) (xs ys : list Z) (carry : Z) : list Z * Z :=
  match xs with
  | [] => (out, carry)
  | xi :: xs' =>
      let '(out1, carry2) := mac_row out i xi ys 0 in
      let k := (i + length ys)%nat in
      let '(v, c) := adc (nthz out1 k) carry2 carry in
      adc_mul_rows (firstn k out1 ++ v :: skipn (S k) out1) (S i) xs' ys c
  end.
Definition adc_mul_limbs (xs ys out : list Z) : list Z * Z := adc_mul_rows out 0 xs ys 0.

Fixpoint ripple (l : list Z) (carry : Z) : list Z :=
  match l with
  | [] => []
  | wd :: r => let '(v, c) := adc wd 0 carry in v :: ripple r c
  end.

Fixpoint kara_boxed (fuel : nat) (lhs rhs : list Z) : list Z :=
  let n := length lhs in let m := length rhs in
  let overlap := Nat.min n m in
  let size := if Nat.odd overlap then (overlap - 1)%nat else overlap in
  match fuel with
  | O => fst (adc_mul_limbs lhs rhs (zeros (n + m)))
  | S f =>
      if (size <=? 24)%nat then fst (adc_mul_limbs lhs rhs (zeros (n + m))) else
      let half := Nat.div2 size in
      let '(x, xt) := split_at size lhs in
      let '(y, yt) := split_at size rhs in
      let '(x0, x1) := split_at half x in
      let '(y0, y1) := split_at half y in
      let out := zeros (n + m) in
      let '(s0, b0) := sbb_limbs x0 x1 0 in
      let '(s1, b1) := sbb_limbs y1 y0 0 in
      let s0 := cond_neg s0 (is_mask b0) in
      let s1 := cond_neg s1 (is_mask b1) in
      let out := splice out half (kara_boxed f s0 s1) in
      let z1_neg := xorb (is_mask b0) (is_mask b1) in
      let out := splice out 0 (cond_neg (firstn (2 * size) out) z1_neg) in
      let z0 := kara_boxed f x0 y0 in
      let '(out, carry) := adc_into out 0 z0 0 in
      let '(out, carry2) := adc_into out half (firstn half z0) 0 in
      let carry := wadd carry carry2 in
      let '(out, carry) := adc_into out size (skipn half z0) carry in
      let z2 := kara_boxed f x1 y1 in
      let '(out, carry2) := adc_into out half z2 0 in
      let carry := wadd carry carry2 in
      let '(out, carry2) := adc_into out size (firstn half z2) 0 in
      let carry := wadd carry carry2 in
      let '(out, carry) := adc_into out (size + half) (skipn half z2) carry in
      let out := match xt with
                 | [] => out
                 | _ => splice out size (fst (adc_mul_limbs xt rhs (skipn size out)))
                 end in
      match yt with
      | [] => out
      | _ => let end_pos := (2 * size + length yt)%nat in
             let '(seg, c) := adc_mul_limbs yt x (slice out size (end_pos - size)) in
             let out := splice out size seg in
             firstn end_pos out ++ ripple (skipn end_pos out) c
      end
  end.

Fixpoint kara_sq_boxed (fuel : nat) (x : list Z) : list Z :=
  let size := length x in
  match fuel with
  | O => schoolbook_sq x
  | S f =>
      if (size <=? 48)%nat || Nat.odd size then schoolbook_sq x else
      let half := Nat.div2 size in
      let '(x0, x1) := split_at half x in
      let out := zeros (2 * size) in
      let '(s0, b0) := sbb_limbs x0 x1 0 in
      let s0 := cond_neg s0 (is_mask b0) in
      let out := splice out half (kara_sq_boxed f s0) in
      let out := lnot_limbs out in
      let z0 := kara_sq_boxed f x0 in
      let '(out, carry) := adc_into out 0 z0 1 in
      let '(out, carry2) := adc_into out half (firstn half z0) 0 in
      let carry := wadd carry carry2 in
      let '(out, carry) := adc_into out size (skipn half z0) carry in
      let z2 := kara_sq_boxed f x1 in
      let '(out, carry2) := adc_into out half z2 0 in
      let carry := wadd carry carry2 in
      let '(out, carry2) := adc_into out size (firstn half z2) 0 in
      let carry := wadd carry carry2 in
      let '(out, carry) := adc_into out (size + half) (skipn half z2) carry in
      out
  end.

Definition boxed_mul (x y : list Z) : list Z :=
  if (32 <=? Nat.min (length x) (length y))%nat then kara_boxed (length x + length y) x y
  else schoolbook_mul x y.
Definition boxed_square (x : list Z) : list Z :=
  if (64 <=? length x)%nat then kara_sq_boxed (length x) x else schoolbook_sq x.

(* ---- op tables ---- *)
Open Scope string_scope. Open Scope Z_scope. Open Scope list_scope.

Definition all_zero (l : list Z) : bool := forallb (fun x => x =? 0) l.
Definition vsplit (p : list Z * list Z) : outcome := Val [fst p; snd p].

Definition ops_mul_model : list (string * opfn) := [
  ("limb.wrapping_mul", fun _ a => Val [[wmul (sarg 0 a) (sarg 1 a)]]);
  ("limb.saturating_mul", fun _ a => let '(hi, lo) := mulhilo (sarg 0 a) (sarg 1 a) in Val [[if hi =? 0 then lo else MAXW]]);
  ("limb.checked_mul", fun _ a => let '(hi, lo) := mulhilo (sarg 0 a) (sarg 1 a) in if hi =? 0 then Val [[lo]] else NoneV);
  ("limb.mul", fun _ a => let '(hi, lo) := mulhilo (sarg 0 a) (sarg 1 a) in if hi =? 0 then Val [[lo]] else PanicV);
  ("uint.split_mul", fun _ a => vsplit (uint_split_mul (arg 0 a) (arg 1 a)));
  ("uint.widening_mul", fun _ a => let '(lo, hi) := uint_split_mul (arg 0 a) (arg 1 a) in Val [lo ++ hi]);
  ("uint.wrapping_mul", fun _ a => Val [fst (uint_split_mul (arg 0 a) (arg 1 a))]);
  ("uint.checked_mul", fun _ a => let '(lo, hi) := uint_split_mul (arg 0 a) (arg 1 a) in if all_zero hi then Val [lo] else NoneV);
  ("uint.saturating_mul", fun _ a => let '(lo, hi) := uint_split_mul (arg 0 a) (arg 1 a) in Val [if all_zero hi then lo else maxs (length lo)]);
  ("uint.mul", fun _ a => let '(lo, hi) := uint_split_mul (arg 0 a) (arg 1 a) in if all_zero hi then Val [lo] else PanicV);
  ("uint.square_wide", fun _ a => vsplit (uint_square_wide (arg 0 a)));
  ("uint.widening_square", fun _ a => let '(lo, hi) := uint_square_wide (arg 0 a) in Val [lo ++ hi]);
  ("uint.wrapping_square", fun _ a => Val [fst (uint_square_wide (arg 0 a))]);
  ("uint.checked_square", fun _ a => let '(lo, hi) := uint_square_wide (arg 0 a) in if all_zero hi then Val [lo] else NoneV);
  ("uint.saturating_square", fun _ a => let '(lo, hi) := uint_square_wide (arg 0 a) in Val [if all_zero hi then lo else maxs (length lo)]);
  ("boxed.mul", fun _ a => Val [boxed_mul (arg 0 a) (arg 1 a)]);
  ("boxed.wrapping_mul", fun _ a => Val [firstn (ln 0 a) (boxed_mul (arg 0 a) (arg 1 a))]);
  ("boxed.checked_mul", fun _ a => let p := boxed_mul (arg 0 a) (arg 1 a) in
     if all_zero (skipn (ln 0 a) p) then Val [firstn (ln 0 a) p] else NoneV);
  ("boxed.mul_panicking", fun _ a => let p := boxed_mul (arg 0 a) (arg 1 a) in
     if all_zero (skipn (ln 0 a) p) then Val [firstn (ln 0 a) p] else PanicV);
  ("boxed.square", fun _ a => Val [boxed_square (arg 0 a)])
].

Definition sp_prod (a : list (list Z)) : Z := ev 0 a * ev 1 a.
Definition ops_mul_spec : list (string * opfn) := [
  ("limb.wrapping_mul", fun _ a => sp_wrapping 1 (sp_prod a));
  ("limb.saturating_mul", fun _ a => sp_saturating 1 (sp_prod a));
  ("limb.checked_mul", fun _ a => sp_checked 1 (sp_prod a));
  ("limb.mul", fun _ a => sp_panicking 1 (sp_prod a));
  ("uint.split_mul", fun _ a => Val [to_limbs (ln 0 a) (sp_prod a mod Bn (ln 0 a)); to_limbs (ln 1 a) (sp_prod a / Bn (ln 0 a))]);
  ("uint.widening_mul", fun _ a => sp_val (ln 0 a + ln 1 a) (sp_prod a));
  ("uint.wrapping_mul", fun _ a => sp_wrapping (ln 0 a) (sp_prod a));
  ("uint.checked_mul", fun _ a => sp_checked (ln 0 a) (sp_prod a));
  ("uint.saturating_mul", fun _ a => sp_saturating (ln 0 a) (sp_prod a));
  ("uint.mul", fun _ a => sp_panicking (ln 0 a) (sp_prod a));
  ("uint.square_wide", fun _ a => let s := ev 0 a * ev 0 a in Val [to_limbs (ln 0 a) (s mod Bn (ln 0 a)); to_limbs (ln 0 a) (s / Bn (ln 0 a))]);
  ("uint.widening_square", fun _ a => sp_val (2 * ln 0 a) (ev 0 a * ev 0 a));
  ("uint.wrapping_square", fun _ a => sp_wrapping (ln 0 a) (ev 0 a * ev 0 a));
  ("uint.checked_square", fun _ a => sp_checked (ln 0 a) (ev 0 a * ev 0 a));
  ("uint.saturating_square", fun _ a => sp_saturating (ln 0 a) (ev 0 a * ev 0 a));
  ("boxed.mul", fun _ a => sp_val (ln 0 a + ln 1 a) (sp_prod a));
  ("boxed.wrapping_mul", fun _ a => sp_wrapping (ln 0 a) (sp_prod a));
  ("boxed.checked_mul", fun _ a => sp_checked (ln 0 a) (sp_prod a));
  ("boxed.mul_panicking", fun _ a => sp_panicking (ln 0 a) (sp_prod a));
  ("boxed.square", fun _ a => sp_val (2 * ln 0 a) (ev 0 a * ev 0 a))
].
