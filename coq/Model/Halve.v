(** Modular halving: crate::modular::div_by_2::{div_by_2, div_by_2_boxed_assign} (the kernels behind
    MontyForm / ConstMontyForm / BoxedMontyForm::div_by_2).  Executable definitions only; proofs in Proofs/HalveP.v.
    If a is even the result is a >> 1; if a is odd it is (a + m) >> 1 computed on BITS + 1 bits: the carry of the
    addition is re-inserted as the top bit after the shift. *)
From CB Require Export Model.Limbs Model.AddSub Model.Bits Model.Sqrt Model.Cmp.
From Coq Require Import ZArith List String.
Notation length := List.length.
Open Scope Z_scope.

(* src/modular/div_by_2.rs:5-25
     let is_odd = a.is_odd();
     let (if_odd, carry) = a.adc(&modulus.0, Limb::ZERO);
     let carry = Limb::select(Limb::ZERO, carry, is_odd);
     Uint::select(a, &if_odd, is_odd).shr1().set_bit(BITS - 1, carry.is_nonzero()) *)
Definition div_by_2 (a m : list Z) : list Z :=
  let is_odd := uint_is_odd a in
  let '(if_odd, carry) := uint_adc a m 0 in
  let carry := select_word is_odd 0 carry in
  limbs_set_bit (shr1_limbs (select_limbs is_odd a if_odd)) (64 * lenZ a - 1) (from_word_nonzero carry).

(* src/modular/div_by_2.rs:35-43 with BoxedUint::conditional_adc_assign (src/uint/boxed/add.rs:40-53: every limb of the
   right-hand side is ANDed with mask = conditional_select(0, MAX, choice); missing limbs read as zero), shr1_assign,
   set_bit(bits_precision - 1, carry) with carry = Choice::from(carry.0 & 1).  The debug_assert on equal precisions is the
   dbg = true panic. *)
Definition div_by_2_boxed (a m : list Z) : list Z :=
  let is_odd := integer_is_odd a in
  let mask := select_word (wneg is_odd) 0 MAXW in
  let masked := map (fun w => wand w mask) (resize (length a) m) in
  let '(s, carry) := adc_limbs a masked 0 in
  limbs_set_bit (shr1_limbs s) (64 * lenZ a - 1) (wneg (wand carry 1)).

Definition div_by_2_boxed_op (dbg : bool) (a m : list Z) : outcome :=
  if dbg && negb (Nat.eqb (length a) (length m)) then PanicV else Val [div_by_2_boxed a m].

(* the unique h in [0, m) with 2 h = a (mod m), for odd m and a < m *)
Definition spec_half (a m : Z) : Z := if Z.odd a then (a + m) / 2 else a / 2.

Open Scope string_scope. Open Scope Z_scope.
Definition ops_halve_model : list (string * opfn) := [
  ("uint.div_by_2", fun _ a => Val [div_by_2 (arg 0 a) (arg 1 a)]);
  ("boxed.div_by_2", fun dbg a => div_by_2_boxed_op dbg (arg 0 a) (arg 1 a))
].

(* documented domain: equal widths, odd modulus, a < m (a canonical Montgomery representative) *)
Definition halve_dom (a : list (list Z)) : bool :=
  Nat.eqb (ln 0 a) (ln 1 a) && negb (Nat.eqb (ln 0 a) 0) && Z.odd (ev 1 a) && (ev 0 a <? ev 1 a).
Definition ops_halve_spec : list (string * opfn) := [
  ("uint.div_by_2", fun _ a => if halve_dom a then sp_val (ln 0 a) (spec_half (ev 0 a) (ev 1 a)) else Unsupported);
  ("boxed.div_by_2", fun _ a => if halve_dom a then sp_val (ln 0 a) (spec_half (ev 0 a) (ev 1 a)) else Unsupported)
].
