(** C20: integer square root on Uint<N> and BoxedUint (src/uint/sqrt.rs, src/uint/boxed/sqrt.rs).
    L0 = models that follow the Rust loops (initial estimate through bits()/overflowing_shl, the fixed
    LOG2_BITS + 2 Newton rounds with zero-divisor masking and the final min(x_n, x_{n+1}); the vartime loop
    with fuel).  The inner division (div_rem / wrapping_div_vartime) and the squaring of the checked forms
    (wrapping_mul) are modelled at the VALUE level; every other helper is limb level.
    Spec = Z.sqrt on the represented integer. Executable definitions only. *)
From CB Require Export Model.Limbs Model.AddSub.
Open Scope Z_scope.

(* ---- src/uint/bits.rs : leading_zeros (limbs scanned from the top), bits() ---- *)
(* Limb::leading_zeros *)
Definition word_lz (x : Z) : Z := if x =? 0 then 64 else 63 - Z.log2 x.
Fixpoint lz_loop (rl : list Z) (count nze : Z) : Z :=
  match rl with
  | [] => count
  | l :: r => lz_loop r (count + if_true_word nze (word_lz l)) (wand nze (wnot (from_word_nonzero l)))
  end.
Definition leading_zeros_limbs (a : list Z) : Z := lz_loop (rev a) 0 MAXW.
Definition bits_limbs (a : list Z) : Z := 64 * lenZ a - leading_zeros_limbs a.

(* ---- src/uint/shl.rs, src/uint/boxed/shl.rs ---- *)
(* second loop of overflowing_shl_vartime / shl_vartime_into: 0 < rem < 64 *)
Fixpoint shl_bits_loop (ls : list Z) (rem carry : Z) : list Z :=
  match ls with
  | [] => []
  | x :: r => wor (wshl x rem) carry :: shl_bits_loop r rem (wshr x (64 - rem))
  end.
(* overflowing_shl_vartime: None iff shift >= BITS *)
Definition shl_vartime_limbs (a : list Z) (shift : Z) : option (list Z) :=
  let n := length a in
  if 64 * Z.of_nat n <=? shift then None else
  let sn := Z.to_nat (shift / 64) in
  let rem := shift mod 64 in
  let moved := firstn (n - sn) a in
  Some ((zeros sn ++ (if rem =? 0 then moved else shl_bits_loop moved rem 0))%list).
(* the constant-time cascade: for i < shift_bits, result = select(result, result << 2^i, bit i of shift);
   None = the inner .expect("shift within range") fails *)
Fixpoint shl_ct_loop (k : nat) (i shift : Z) (res : list Z) : option (list Z) :=
  match k with
  | O => Some res
  | S k' =>
      match shl_vartime_limbs res (2 ^ i) with
      | None => None
      | Some sh => shl_ct_loop k' (i + 1) shift (select_limbs (from_word_lsb ((shift / 2 ^ i) mod 2)) res sh)
      end
  end.
(* overflowing_shl: (result or zero, overflow choice) *)
Definition overflowing_shl_limbs (a : list Z) (shift : Z) : option (list Z * Z) :=
  let bits := 64 * lenZ a in
  let shift_bits := Z.log2 (bits - 1) + 1 in          (* u32::BITS - (BITS - 1).leading_zeros() *)
  let overflow := choice_of_bool (bits <=? shift) in  (* from_u32_lt(shift, BITS).not() *)
  match shl_ct_loop (Z.to_nat shift_bits) 0 (shift mod bits) a with
  | None => None
  | Some r => Some (select_limbs overflow r (zeros (length a)), overflow)
  end.

(* ---- src/uint/shr.rs shr1_with_carry (top-down, carry = limb above << 63);
        src/uint/boxed/shr.rs shr1_assign (bottom-up, limbs[i-1] |= (limbs[i] & 1) << 63): same data flow ---- *)
Fixpoint shr1_limbs (a : list Z) : list Z :=
  match a with
  | [] => []
  | x :: r => wor (wshr x 1) (wshl (hd 0 r) 63) :: shr1_limbs r
  end.

(* ---- src/uint/cmp.rs ---- *)
Definition is_nonzero_limbs (a : list Z) : Z := from_word_nonzero (fold_left wor a 0).
(* Uint::gt(lhs, rhs) / BoxedUint::ct_gt : borrow of rhs - lhs *)
Definition gt_limbs (lhs rhs : list Z) : Z := snd (sbb_limbs rhs lhs 0).
(* cmp_vartime from the top limb: 0 = Less, 1 = Equal, 2 = Greater *)
Fixpoint cmp_vartime_rev (ra rb : list Z) : Z :=
  match ra, rb with
  | x :: ra', y :: rb' =>
      let '(v, bo) := sbb x y 0 in
      if v =? 0 then cmp_vartime_rev ra' rb' else if bo =? 0 then 2 else 0
  | _, _ => 1
  end.
Definition cmp_vartime_limbs (a b : list Z) : Z := cmp_vartime_rev (rev a) (rev b).
(* Uint::eq : acc |= a[i] ^ b[i] ; from_word_nonzero(acc).not() *)
Definition eq_limbs (a b : list Z) : Z :=
  wnot (from_word_nonzero (fold_left wor (map (fun p => wxor (fst p) (snd p)) (combine a b)) 0)).
(* BoxedUint::is_zero : fold(Choice 1, acc & limb.is_zero()) ; is_nonzero = !is_zero *)
Definition boxed_is_nonzero_limbs (a : list Z) : Z :=
  wnot (fold_left (fun acc l => wand acc (wnot (from_word_nonzero l))) a MAXW).

(* ---- value-level stand-ins (limb-level division / multiplication are other properties) ---- *)
Definition div_val (a d : list Z) : list Z := to_limbs (length a) (eval a / eval d).
Definition wrapping_mul_val (a b : list Z) : list Z := to_limbs (length a) (eval a * eval b).

Definition one_limbs (n : nat) : list Z := match n with O => [] | S k => 1 :: zeros k end.
Definition log2_bits (n : nat) : Z := Z.log2 (64 * Z.of_nat n).   (* LOG2_BITS / BitOps::log2_bits *)

(* result of a model run: value, panic (an expect() fails), or the loop fuel ran out *)
Inductive sres := SOk (r : list Z) | SPanic | SFuel.

(* ---- src/uint/sqrt.rs ---- *)
(* the initial guess ONE.overflowing_shl((bits + 1) >> 1).expect("shift within range") *)
Definition sqrt_init (a : list Z) : option (list Z) :=
  match overflowing_shl_limbs (one_limbs (length a)) ((bits_limbs a + 1) / 2) with
  | Some (x0, ov) => if ov =? 0 then Some x0 else None
  | None => None
  end.

(* one round: x_nonzero = x.is_nonzero(); q = self / select(ONE, x, x_nonzero);
   x = select(ZERO, (x.wrapping_add(q)).shr1(), x_nonzero) *)
Definition sqrt_ct_step (n x : list Z) : list Z :=
  let nz := is_nonzero_limbs x in
  let q := div_val n (select_limbs nz (one_limbs (length n)) x) in
  select_limbs nz (zeros (length n)) (shr1_limbs (uint_wrapping_add x q)).
Fixpoint sqrt_ct_loop (k : nat) (n x xprev : list Z) : list Z * list Z :=
  match k with
  | O => (xprev, x)
  | S k' => sqrt_ct_loop k' n (sqrt_ct_step n x) x
  end.
(* the algorithm with the round count as a parameter; Uint::sqrt runs LOG2_BITS + 2 rounds *)
Definition uint_sqrt_rounds (rounds : nat) (a : list Z) : sres :=
  match sqrt_init a with
  | None => SPanic
  | Some x0 =>
      let '(xp, x) := sqrt_ct_loop rounds a x0 x0 in
      SOk (select_limbs (gt_limbs xp x) xp x)
  end.
Definition uint_sqrt (a : list Z) : sres := uint_sqrt_rounds (Z.to_nat (log2_bits (length a) + 2)) a.

Fixpoint sqrt_vt_loop (fuel : nat) (n x : list Z) : sres :=
  match fuel with
  | O => SFuel
  | S f =>
      if cmp_vartime_limbs x (zeros (length x)) =? 1 then SOk x else
      let q := div_val n x in
      let nx := shr1_limbs (uint_wrapping_add x q) in
      if cmp_vartime_limbs x nx =? 2 then sqrt_vt_loop f n nx else SOk x
  end.
Definition sqrt_fuel (a : list Z) : nat := (64 * length a)%nat.
Definition uint_sqrt_vartime (a : list Z) : sres :=
  if cmp_vartime_limbs a (zeros (length a)) =? 1 then SOk (zeros (length a)) else
  match sqrt_init a with
  | None => SPanic
  | Some x0 => sqrt_vt_loop (sqrt_fuel a) a x0
  end.

(* checked_sqrt: r = sqrt(self); s = r.wrapping_mul(r); CtOption::new(r, self == s) *)
Definition checked_of (a : list Z) (eqf : list Z -> list Z -> Z) (r : sres) : sres * bool :=
  match r with
  | SOk rv => (r, choice_to_bool (eqf a (wrapping_mul_val rv rv)))
  | _ => (r, false)
  end.
Definition uint_checked_sqrt (a : list Z) := checked_of a eq_limbs (uint_sqrt a).
Definition uint_checked_sqrt_vartime (a : list Z) := checked_of a eq_limbs (uint_sqrt_vartime a).

(* ---- src/uint/boxed/sqrt.rs ---- *)
(* the overflow flag of overflowing_shl is ignored *)
Definition boxed_sqrt_init (a : list Z) : option (list Z) :=
  match overflowing_shl_limbs (one_limbs (length a)) ((bits_limbs a + 1) / 2) with
  | Some (x0, _) => Some x0
  | None => None
  end.
(* one round: nz_x.limbs[j].conditional_assign(x.limbs[j], x_nonzero); q = self / nz_x;
   x.conditional_adc_assign(q, x_nonzero); x.shr1_assign() *)
Definition boxed_sqrt_step (n x nzx : list Z) : list Z * list Z :=
  let nz := boxed_is_nonzero_limbs x in
  let nzx' := select_limbs nz nzx x in
  let q := div_val n nzx' in
  let masked := map (fun w => wand w (select_word nz 0 MAXW)) (resize (length x) q) in
  (shr1_limbs (fst (adc_limbs x masked 0)), nzx').
Fixpoint boxed_sqrt_loop (k : nat) (n x xprev nzx : list Z) : list Z * list Z :=
  match k with
  | O => (xprev, x)
  | S k' => let '(x', nzx') := boxed_sqrt_step n x nzx in boxed_sqrt_loop k' n x' x nzx'
  end.
Definition boxed_sqrt_rounds (rounds : nat) (a : list Z) : sres :=
  match boxed_sqrt_init a with
  | None => SPanic
  | Some x0 =>
      let '(xp, x) := boxed_sqrt_loop rounds a x0 x0 x0 in
      SOk (select_limbs (gt_limbs xp x) xp x)
  end.
Definition boxed_sqrt (a : list Z) : sres := boxed_sqrt_rounds (Z.to_nat (log2_bits (length a) + 2)) a.
(* the zero test comes last: if self.is_nonzero() { x } else { zero } *)
Definition boxed_sqrt_vartime (a : list Z) : sres :=
  match boxed_sqrt_init a with
  | None => SPanic
  | Some x0 =>
      match sqrt_vt_loop (sqrt_fuel a) a x0 with
      | SOk x => if choice_to_bool (boxed_is_nonzero_limbs a) then SOk x else SOk (zeros (length a))
      | r => r
      end
  end.
(* BoxedUint::ct_eq : ret &= a[i].ct_eq(b[i]) *)
Definition boxed_eq_limbs (a b : list Z) : Z :=
  fold_left (fun acc p => wand acc (from_word_eq (fst p) (snd p))) (combine a b) MAXW.
Definition boxed_checked_sqrt (a : list Z) := checked_of a boxed_eq_limbs (boxed_sqrt a).
Definition boxed_checked_sqrt_vartime (a : list Z) := checked_of a boxed_eq_limbs (boxed_sqrt_vartime a).

(* ---- Spec ---- *)
Definition spec_sqrt (x : Z) : Z := Z.sqrt x.
Definition spec_is_square (x : Z) : bool := Z.sqrt x * Z.sqrt x =? x.

(* ---- op tables ---- *)
Open Scope string_scope. Open Scope Z_scope.

Definition out_sres (r : sres) : outcome :=
  match r with SOk v => Val [v] | SPanic => PanicV | SFuel => Unsupported end.
Definition out_checked (p : sres * bool) : outcome :=
  match p with
  | (SOk v, true) => Val [v]
  | (SOk _, false) => NoneV
  | (r, _) => out_sres r
  end.
(* a Uint<0> / zero-limb BoxedUint is outside the domain *)
Definition nonempty (a : list (list Z)) (o : outcome) : outcome :=
  match arg 0 a with [] => Unsupported | _ => o end.

Definition ops_sqrt_model : list (string * opfn) := [
  ("uint.sqrt", fun _ a => nonempty a (out_sres (uint_sqrt (arg 0 a))));
  ("uint.sqrt_vartime", fun _ a => nonempty a (out_sres (uint_sqrt_vartime (arg 0 a))));
  ("uint.checked_sqrt", fun _ a => nonempty a (out_checked (uint_checked_sqrt (arg 0 a))));
  ("uint.checked_sqrt_vartime", fun _ a => nonempty a (out_checked (uint_checked_sqrt_vartime (arg 0 a))));
  ("boxed.sqrt", fun _ a => nonempty a (out_sres (boxed_sqrt (arg 0 a))));
  ("boxed.sqrt_vartime", fun _ a => nonempty a (out_sres (boxed_sqrt_vartime (arg 0 a))));
  ("boxed.checked_sqrt", fun _ a => nonempty a (out_checked (boxed_checked_sqrt (arg 0 a))));
  ("boxed.checked_sqrt_vartime", fun _ a => nonempty a (out_checked (boxed_checked_sqrt_vartime (arg 0 a))))
].

Definition sp_sqrt (a : list (list Z)) : outcome :=
  nonempty a (Val [to_limbs (length (arg 0 a)) (spec_sqrt (eval (arg 0 a)))]).
Definition sp_checked_sqrt (a : list (list Z)) : outcome :=
  nonempty a (let x := eval (arg 0 a) in
              let s := spec_sqrt x in   (* computed once *)
              if s * s =? x then Val [to_limbs (length (arg 0 a)) s] else NoneV).

Definition ops_sqrt_spec : list (string * opfn) := [
  ("uint.sqrt", fun _ a => sp_sqrt a);
  ("uint.sqrt_vartime", fun _ a => sp_sqrt a);
  ("uint.checked_sqrt", fun _ a => sp_checked_sqrt a);
  ("uint.checked_sqrt_vartime", fun _ a => sp_checked_sqrt a);
  ("boxed.sqrt", fun _ a => sp_sqrt a);
  ("boxed.sqrt_vartime", fun _ a => sp_sqrt a);
  ("boxed.checked_sqrt", fun _ a => sp_checked_sqrt a);
  ("boxed.checked_sqrt_vartime", fun _ a => sp_checked_sqrt a)
].
