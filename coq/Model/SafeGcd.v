(** C10: modular inversion and gcd.
    Loop-for-loop models of src/modular/safegcd.rs (Bernstein-Yang divsteps in 62-bit jumps on
    unsaturated limbs), safegcd/boxed.rs, safegcd/macros.rs (limb conversion), src/uint/inv_mod.rs
    (bit-serial inverse mod 2^k, CRT recombination), src/uint/gcd.rs, the boxed twins, the Int
    wrappers and the Montgomery-form inverters.
    An [UnsatInt<L>] / [BoxedUnsatInt] is its little-endian list of L 62-bit limbs (two's complement
    over 62 L bits).  i64 / i128 values are mathematical integers; every Rust operator that can wrap
    is wrapped explicitly with [s64] / [s128].
    Value level (owned by other properties): Uint shifts, trailing_zeros, wrapping_sub/add/mul, shr1,
    set_bit, bitand (C03-C05), Int::abs_sign (C13), conversion into / out of Montgomery form (C08). *)
From CB Require Export Model.Limbs Model.AddSub.
Open Scope Z_scope. Open Scope list_scope.

(* ---- machine integers ---- *)
Definition P62 : Z := 4611686018427387904.                        (* 2^62 *)
Definition MASK62 : Z := 4611686018427387903.                     (* u64::MAX >> 2 *)
Definition P63 : Z := 9223372036854775808.
Definition P64 : Z := 18446744073709551616.
Definition P127 : Z := 170141183460469231731687303715884105728.
Definition P128 : Z := 340282366920938463463374607431768211456.
Definition s64 (x : Z) : Z := (x + P63) mod P64 - P63.            (* the i64 whose bit pattern is x mod 2^64 *)
Definition s128 (x : Z) : Z := (x + P127) mod P128 - P127.
Definition u64 (x : Z) : Z := x mod P64.                          (* `as u64` *)

(* ---- inv_mod2_62 (Hurchalla): inverse of the low word modulo 2^62 ---- *)
Definition inv_mod2_62 (v : Z) : Z :=
  let x := wxor (wmul v 3) 2 in
  let y := wsub 1 (wmul x v) in
  let x := wmul x (wadd y 1) in let y := wmul y y in
  let x := wmul x (wadd y 1) in let y := wmul y y in
  let x := wmul x (wadd y 1) in let y := wmul y y in
  Z.land (wmul x (wadd y 1)) MASK62.

(* ---- jump: 62 divsteps on the low limbs, transition matrix t (scaled by 2^62) ---- *)
(* min(n, g.trailing_zeros()) for an i128 g; 0 has 128 trailing zeros and n <= 62 *)
Fixpoint ctz_upto (n : nat) (g : Z) : Z :=
  match n with O => 0 | S k => if Z.odd g then 0 else 1 + ctz_upto k (g / 2) end.

Definition matrix : Type := (Z * Z * Z * Z)%type.                (* t00, t01, t10, t11 *)

Fixpoint jump_loop (fuel : nat) (steps delta f g : Z) (t : matrix) : Z * matrix :=
  match fuel with
  | O => (delta, t)
  | S fuel' =>
    let '(t00, t01, t10, t11) := t in
    let zeros := ctz_upto (Z.to_nat steps) g in
    let steps := steps - zeros in
    let delta := s64 (delta + zeros) in
    let g := g / 2 ^ zeros in
    let t00 := s64 (t00 * 2 ^ zeros) in
    let t01 := s64 (t01 * 2 ^ zeros) in
    if steps =? 0 then (delta, (t00, t01, t10, t11)) else
    let '(delta, f, g, t00, t01, t10, t11) :=
      if 0 <? delta then (s64 (- delta), s64 g, s64 (- f), t10, t11, s64 (- t00), s64 (- t01))
      else (delta, f, g, t00, t01, t10, t11) in
    let mask := 2 ^ (Z.min (Z.min steps (s64 (1 - delta))) 5) - 1 in
    (* (3 f) xor 28 = -1/f mod 32 *)
    let w := Z.land (wmul (u64 g) (wxor (wmul (u64 f) 3) 28)) mask in
    jump_loop fuel' steps delta f (s128 (g + w * f)) (t00, t01, s64 (t00 * w + t10), s64 (t01 * w + t11))
  end.

Definition jump (f0 g0 delta : Z) : Z * matrix := jump_loop 63 62 delta f0 g0 (1, 0, 0, 1).

(* ---- UnsatInt arithmetic (all wrapping modulo 2^(62 L)) ---- *)
Fixpoint u_add_c (a b : list Z) (carry : Z) : list Z :=
  match a, b with
  | x :: a', y :: b' => let s := x + y + carry in Z.land s MASK62 :: u_add_c a' b' (s / P62)
  | _, _ => []
  end.
Definition u_add (a b : list Z) : list Z := u_add_c a b 0.

Fixpoint u_mul_c (a : list Z) (other mask carry : Z) : list Z :=
  match a with
  | x :: a' => let s := carry + Z.lxor x mask * other in
               Z.land (u64 s) MASK62 :: u_mul_c a' other mask (u64 (s / P62))
  | [] => []
  end.
Definition u_mul (a : list Z) (c : Z) : list Z :=
  if c <? 0 then u_mul_c a (s64 (- c)) MASK62 (u64 (- c)) else u_mul_c a c 0 0.

Fixpoint u_neg_c (a : list Z) (carry : Z) : list Z :=
  match a with
  | x :: a' => let s := Z.lxor x MASK62 + carry in Z.land s MASK62 :: u_neg_c a' (s / P62)
  | [] => []
  end.
Definition u_neg (a : list Z) : list Z := u_neg_c a 1.

Definition u_is_negative (a : list Z) : bool := MASK62 / 2 <? last a 0.
Definition u_shr (a : list Z) : list Z := tl a ++ [if u_is_negative a then MASK62 else 0].
Definition u_eq (a b : list Z) : bool := list_eqb a b.
Definition u_is_zero (a : list Z) : bool := forallb (fun x => x =? 0) a.
Definition u_zero (L : nat) : list Z := zeros L.
Definition u_one (L : nat) : list Z := match L with O => [] | S k => 1 :: zeros k end.
Definition u_minus_one (L : nat) : list Z := repeat MASK62 L.

(* leading zeros / bits.  The fixed-width type scans from the most significant limb; the boxed
   type iterates `self.0.iter()`, i.e. from the LEAST significant limb (it therefore over-estimates
   `bits` of any odd value, which only adds iterations). *)
Definition bitlen (x : Z) : Z := if x <=? 0 then 0 else Z.log2 x + 1.
Definition lz62 (l : Z) : Z := 62 - bitlen l.                     (* l.leading_zeros() - 2 *)
Fixpoint lz_scan62 (ls : list Z) (count : Z) (not_enc : bool) : Z :=
  match ls with
  | [] => count
  | l :: r => lz_scan62 r (if not_enc then count + lz62 l else count) (not_enc && (l =? 0))
  end.
Definition u_bits (a : list Z) : Z := 62 * lenZ a - lz_scan62 (rev a) 0 true.
Definition bu_bits (a : list Z) : Z := 62 * lenZ a - lz_scan62 a 0 true.

Definition iterations (f_bits g_bits : Z) : nat :=
  let d := if f_bits <? g_bits then g_bits else f_bits in
  let addend := if d <? 46 then 80 else 57 in
  Z.to_nat ((49 * d + addend) / 17).

(* ---- impl_limb_convert!: repack ib-bit limbs into ob-bit limbs ---- *)
Fixpoint upd (k : nat) (f : Z -> Z) (ls : list Z) : list Z :=
  match ls with
  | [] => []
  | x :: r => match k with O => f x :: r | S k' => x :: upd k' f r end
  end.
Fixpoint lc_loop (fuel : nat) (ib ob total bits : Z) (inp out : list Z) : list Z :=
  match fuel with
  | O => out
  | S k =>
    if bits <? total then
      let i := bits mod ib in let o := bits mod ob in
      let v := u64 ((nthz inp (Z.to_nat (bits / ib)) / 2 ^ i) * 2 ^ o) in
      lc_loop k ib ob total (bits + Z.min (ib - i) (ob - o)) inp
              (upd (Z.to_nat (bits / ob)) (fun x => Z.lor x v) out)
    else out
  end.
Fixpoint mask_first (k : nat) (mask : Z) (ls : list Z) : list Z :=
  match k, ls with
  | S k', x :: r => Z.land x mask :: mask_first k' mask r
  | _, _ => ls
  end.
Definition limb_convert (ib ob : Z) (inp : list Z) (olen : nat) : list Z :=
  let total := Z.min (lenZ inp * ib) (Z.of_nat olen * ob) in
  let out := lc_loop (length inp + olen + 1) ib ob total 0 inp (zeros olen) in
  let filled := total / ob + (if 0 <? total mod ob then 1 else 0) in
  mask_first (Z.to_nat filled) (2 ^ ob - 1) out.
Definition unsat_nlimbs (n : nat) : nat := Z.to_nat ((64 * Z.of_nat n + 64 + 61) / 62).   (* safegcd_nlimbs! *)
Definition from_uint (L : nat) (x : list Z) : list Z := limb_convert 64 62 x L.
Definition to_uint (n : nat) (u : list Z) : list Z := limb_convert 62 64 u n.

(* ---- fg, de ---- *)
Definition fg (f g : list Z) (t : matrix) : list Z * list Z :=
  let '(t00, t01, t10, t11) := t in
  (u_shr (u_add (u_mul f t00) (u_mul g t01)), u_shr (u_add (u_mul f t10) (u_mul g t11))).

Definition de_m (inverse ta tb nd ne d0 e0 : Z) : Z :=
  let m0 := s64 (ta * nd + tb * ne) in
  let c := Z.land (u64 (ta * d0 + tb * e0)) MASK62 in
  s64 (m0 - Z.land (u64 (inverse * c + m0)) MASK62).
Definition de (m : list Z) (inverse : Z) (t : matrix) (d e : list Z) : list Z * list Z :=
  let '(t00, t01, t10, t11) := t in
  let nd := b2z (u_is_negative d) in let ne := b2z (u_is_negative e) in
  let md := de_m inverse t00 t01 nd ne (hd 0 d) (hd 0 e) in
  let me := de_m inverse t10 t11 nd ne (hd 0 d) (hd 0 e) in
  (u_shr (u_add (u_add (u_mul d t00) (u_mul e t01)) (u_mul m md)),
   u_shr (u_add (u_add (u_mul d t10) (u_mul e t11)) (u_mul m me))).

(* ---- divsteps: a fixed number of jumps / jumps until g = 0 ---- *)
Definition dstate : Type := (Z * list Z * list Z * list Z * list Z)%type.   (* delta, d, e, f, g *)
Definition divstep1 (m : list Z) (inverse : Z) (s : dstate) : dstate :=
  let '(delta, d, e, f, g) := s in
  let '(delta', t) := jump (hd 0 f) (hd 0 g) delta in
  let '(f', g') := fg f g t in
  let '(d', e') := de m inverse t d e in
  (delta', d', e', f', g').
Fixpoint divsteps_loop (n : nat) (m : list Z) (inverse : Z) (s : dstate) : dstate :=
  match n with O => s | S k => divsteps_loop k m inverse (divstep1 m inverse s) end.
Fixpoint divsteps_vt_loop (fuel : nat) (m : list Z) (inverse : Z) (s : dstate) : option dstate :=
  let '(_, _, _, _, g) := s in
  if u_is_zero g then Some s else
  match fuel with O => None | S k => divsteps_vt_loop k m inverse (divstep1 m inverse s) end.

(* common driver: returns (d, f, "g became 0").  The vartime loop gets the fixed count as fuel
   (None = it did not terminate within that many jumps). *)
Definition sg_core (vartime boxed : bool) (e f0 g : list Z) (inverse : Z) : option (list Z * list Z * bool) :=
  let bits := if boxed then bu_bits else u_bits in
  let n := iterations (bits f0) (bits g) in
  let s0 : dstate := (1, u_zero (length f0), e, f0, g) in
  if vartime then
    match divsteps_vt_loop n f0 inverse s0 with
    | Some (_, d, _, f, _) => Some (d, f, true)
    | None => None
    end
  else
    let '(_, d, _, f, g') := divsteps_loop n f0 inverse s0 in Some (d, f, u_is_zero g').

Definition sg_norm (m v : list Z) (negate : bool) : list Z :=
  let v := if u_is_negative v then u_add v m else v in
  let v := if negate then u_neg v else v in
  if u_is_negative v then u_add v m else v.

(* result of the safegcd entry points: Panic / not terminated / (value, is_some) *)
Inductive sgres := SgPanic | SgStuck | SgOk (v : list Z) (is_some : bool).

(* SafeGcdInverter::{new, inv, inv_vartime} / BoxedSafeGcdInverter::{new, invert, invert_vartime} *)
Definition sg_inv (dbg vartime boxed : bool) (adj m a : list Z) : sgres :=
  let n := length m in
  let L := unsat_nlimbs n in
  let f0 := from_uint L m in
  match sg_core vartime boxed (from_uint L adj) f0 (from_uint L a) (inv_mod2_62 (hd 0 m)) with
  | None => SgStuck
  | Some (d, f, conv) =>
    if dbg && negb vartime && negb boxed && negb conv then SgPanic       (* debug_assert!(g == 0) *)
    else
      let antiunit := u_eq f (u_minus_one L) in
      let ret := sg_norm f0 d antiunit in
      let is_some := u_eq f (u_one L) || antiunit in
      if u_is_negative ret && (dbg || boxed) then SgPanic                (* to_uint: (debug_)assert!(!negative) *)
      else SgOk (to_uint n ret) is_some
  end.
Definition sg_converged (boxed : bool) (f g : list Z) (L : nat) : bool :=
  match sg_core false boxed (u_one L) (from_uint L f) (from_uint L g) (inv_mod2_62 (hd 0 f)) with
  | Some (_, _, c) => c | None => false
  end.

(* SafeGcdInverter::gcd / gcd_vartime, safegcd::boxed::gcd / gcd_vartime (n = limbs of the result) *)
Definition sg_gcd (dbg vartime boxed : bool) (f g : list Z) : sgres :=
  let n := length f in
  let L := unsat_nlimbs (if boxed then Nat.max (length f) (length g) else n) in
  match sg_core vartime boxed (u_one L) (from_uint L f) (from_uint L g) (inv_mod2_62 (hd 0 f)) with
  | None => SgStuck
  | Some (_, f', conv) =>
    if dbg && negb vartime && negb boxed && negb conv then SgPanic
    else
      let r := if u_is_negative f' then u_neg f' else f' in
      if u_is_negative r && (dbg || boxed) then SgPanic
      else if boxed && dbg && negb (L =? unsat_nlimbs n)%nat then SgPanic   (* debug_assert_eq!(nlimbs) in to_uint *)
      else SgOk (to_uint n r) true
  end.

(* ---- Uint level (value level for the operations owned by C03-C05) ---- *)
Definition bitsn (n : nat) : Z := 64 * Z.of_nat n.
Definition vtz (n : nat) (v : Z) : Z := if v =? 0 then bitsn n else ctz_upto (Z.to_nat (bitsn n)) v.
Definition vshr (n : nat) (v k : Z) : Z := if k <? bitsn n then v / 2 ^ k else 0.        (* overflowing_shr(k).unwrap_or(ZERO) *)
Definition vshl (n : nat) (v k : Z) : Z := if k <? bitsn n then (v * 2 ^ k) mod Bn n else 0.

(* inv_mod2k_full_vartime / inv_mod2k_vartime: k iterations;  b <- (b - a [x_i]) >> 1 ;  x |= x_i << i *)
Fixpoint inv2k_loop (cnt : nat) (n : nat) (a : Z) (i : Z) (x b : Z) : Z :=
  match cnt with
  | O => x
  | S c =>
    let xi := b mod 2 in
    let b := (if xi =? 0 then b else (b - a) mod Bn n) / 2 in
    inv2k_loop c n a (i + 1) (Z.lor x (xi * 2 ^ i)) b
  end.
(* inv_mod2k: BITS iterations, the bit is stored only while i < k *)
Fixpoint inv2k_ct_loop (cnt : nat) (n : nat) (a k : Z) (i : Z) (x b : Z) : Z :=
  match cnt with
  | O => x
  | S c =>
    let xi := b mod 2 in
    let b := (if xi =? 0 then b else (b - a) mod Bn n) / 2 in
    inv2k_ct_loop c n a k (i + 1) (if (i <? k) && (xi =? 1) then Z.lor x (2 ^ i) else x) b
  end.
Definition inv2k_is_some (a k : Z) : bool := (k =? 0) || Z.odd a.
(* (x, is_some); None = the call panics.  k > BITS: the vartime form shifts out of range ("shift within range"
   expect for Uint, set_bit out of range is ignored for BoxedUint), the ct form just stops at BITS. *)
Definition inv_mod2k_vartime (n : nat) (a k : Z) : Z * bool :=
  (inv2k_loop (Z.to_nat k) n a 0 0 1, inv2k_is_some a k).
Definition inv_mod2k_full_vartime (n : nat) (a k : Z) : option Z :=
  if negb (k =? 0) && Z.even a then None else Some (inv2k_loop (Z.to_nat k) n a 0 0 1).
Definition inv_mod2k_ct (n : nat) (a k : Z) : Z * bool :=
  (inv2k_ct_loop (Z.to_nat (bitsn n)) n a k 0 0 1, inv2k_is_some a k).

(* Uint::inv_mod / BoxedUint::inv_mod for modulus = s 2^k: Garner recombination.
   REPAIRED code (tools/fix_C10_1.diff): the inverse of the odd part modulo 2^k is taken with
   unwrap_or(ZERO); the original `expect` panicked for modulus = 0. *)
Definition ones_limbs (n : nat) : list Z := to_limbs n 1.
Definition uint_inv_mod (dbg boxed : bool) (a m : list Z) : sgres :=
  let n := length m in
  let av := eval a in let mv := eval m in
  let k := vtz n mv in
  let s := vshr n mv k in
  let s_is_odd := Z.odd s in
  match sg_inv dbg false boxed (ones_limbs n) (to_limbs n s) a with
  | SgPanic => SgPanic
  | SgStuck => SgStuck
  | SgOk av_inv a_some =>
    let a_some := a_some && s_is_odd in
    let '(b, b_some) := inv_mod2k_ct n av k in
    let is_some := a_some && b_some in
    let ai := if a_some then eval av_inv else 0 in
    let bi := if b_some then b else 0 in
    let '(mi, mi_some) := inv_mod2k_ct n s k in
    let mi := if mi_some then mi else 0 in
    let mask := (vshl n 1 k - 1) mod Bn n in
    let t := Z.land ((((bi - ai) mod Bn n) * mi) mod Bn n) mask in
    SgOk (to_limbs n ((ai + (s * t) mod Bn n) mod Bn n)) is_some
  end.

(* Uint::gcd / BoxedUint::gcd: common power of two, the odd one of s1, s2 goes to g *)
Definition uint_gcd_pre (a b : list Z) : Z * list Z * list Z :=
  let n := length a in
  let av := eval a in let bv := eval b in
  let k1 := vtz n av in let k2 := vtz (length b) bv in
  let k := if k2 <? k1 then k2 else k1 in
  let s1 := vshr n av k in let s2 := vshr (length b) bv k in
  let f := if Z.odd s2 then s1 else s2 in
  let g := if Z.odd s2 then s2 else s1 in
  (k, to_limbs n f, to_limbs n g).
Definition uint_gcd (dbg boxed : bool) (a b : list Z) : sgres :=
  let n := length a in
  let '(k, f, g) := uint_gcd_pre a b in
  match sg_gcd dbg false boxed f g with
  | SgOk r _ => SgOk (to_limbs n (vshl n (eval r) k)) true
  | x => x
  end.
Definition uint_gcd_converged (boxed : bool) (a b : list Z) : bool :=
  let '(_, f, g) := uint_gcd_pre a b in sg_converged boxed f g (unsat_nlimbs (length a)).
(* Gcd::gcd_vartime for Uint / BoxedUint: vartime only when self is odd *)
Definition uint_gcd_vartime (dbg boxed : bool) (a b : list Z) : sgres :=
  if Z.odd (eval a) then sg_gcd dbg true boxed a b else uint_gcd dbg boxed a b.

(* Int wrappers: (|a|, sign) *)
Definition int_abs (a : list Z) : list Z := to_limbs (length a) (Z.abs (seval a)).
Definition int_neg (a : list Z) : bool := seval a <? 0.
Definition int_fix_sign (neg : bool) (m : list Z) (r : sgres) : sgres :=
  match r with
  | SgOk x some => SgOk (if neg then to_limbs (length m) ((eval m - eval x) mod Bn (length m)) else x) some
  | y => y
  end.

(* Montgomery form (conversion in / out is value level, C08): R = 2^BITS *)
Fixpoint egcd_loop (fuel : nat) (r0 r1 s0 s1 : Z) : Z * Z :=
  match fuel with
  | O => (r0, s0)
  | S k => if r1 =? 0 then (r0, s0) else
           let q := r0 / r1 in egcd_loop k r1 (r0 - q * r1) s1 (s0 - q * s1)
  end.
(* the x in [0, m) with a x = gcd(a, m) (mod m) *)
Definition modinv (a m : Z) : Z :=
  let '(_, s) := egcd_loop (2 * Z.to_nat (Z.log2 (Z.abs m)) + 4) (a mod m) m 1 0 in s mod m.
Definition monty_inv (dbg vartime boxed : bool) (a m : list Z) : sgres :=
  let n := length m in let mv := eval m in
  let R := Bn n in
  let mf := to_limbs n ((eval a * R) mod mv) in
  let r2 := to_limbs n ((R * R) mod mv) in
  match sg_inv dbg vartime boxed r2 m mf with
  | SgOk x some => SgOk (to_limbs n ((eval x * modinv R mv) mod mv)) some
  | y => y
  end.

(* ---- Spec ---- *)
Definition spec_inv (n : nat) (a m : Z) : outcome :=
  if Z.gcd a m =? 1 then Val [to_limbs n (modinv a m)] else NoneV.
Definition spec_inv_adj (n : nat) (a m adj : Z) : outcome :=
  if Z.gcd a m =? 1 then Val [to_limbs n ((modinv a m * adj) mod m)] else NoneV.

(* ---- op tables ---- *)
Open Scope string_scope. Open Scope Z_scope. Open Scope list_scope.

Definition out_sg (r : sgres) : outcome :=
  match r with
  | SgPanic => PanicV
  | SgStuck => ErrV 99
  | SgOk v true => Val [v]
  | SgOk _ false => NoneV
  end.
(* is_some only (for modulus 1 the value is left open: the range 0 <= x < m is claimed for m >= 2) *)
Definition out_some (r : sgres) : outcome :=
  match r with
  | SgPanic => PanicV
  | SgStuck => ErrV 99
  | SgOk _ b => Val [vbool b]
  end.
Definition out_pair (n : nat) (p : Z * bool) : outcome :=
  if snd p then Val [to_limbs n (fst p)] else NoneV.
Definition okdom (c : bool) (o : outcome) : outcome := if c then o else Unsupported.
Definition same_len (a : list (list Z)) : bool := (ln 0 a =? ln 1 a)%nat && (0 <? ln 0 a)%nat.
Definition odd1 (a : list (list Z)) : bool := Z.odd (ev 1 a).

Definition ops_safegcd_model : list (string * opfn) := [
  ("uint.inv_odd_mod", fun dbg a => okdom (same_len a && odd1 a) (out_sg (sg_inv dbg false false (ones_limbs (ln 1 a)) (arg 1 a) (arg 0 a))));
  ("uint.inv_odd_mod_vartime", fun dbg a => okdom (same_len a && odd1 a) (out_sg (sg_inv dbg true false (ones_limbs (ln 1 a)) (arg 1 a) (arg 0 a))));
  ("uint.inv_adj", fun dbg a => okdom (same_len a && odd1 a) (out_sg (sg_inv dbg false false (arg 2 a) (arg 1 a) (arg 0 a))));
  ("uint.inv_adj_vartime", fun dbg a => okdom (same_len a && odd1 a) (out_sg (sg_inv dbg true false (arg 2 a) (arg 1 a) (arg 0 a))));
  ("uint.inv_mod", fun dbg a => okdom (same_len a) (out_sg (uint_inv_mod dbg false (arg 0 a) (arg 1 a))));
  ("uint.inv_odd_is_some", fun dbg a => okdom (same_len a && odd1 a) (out_some (sg_inv dbg false false (ones_limbs (ln 1 a)) (arg 1 a) (arg 0 a))));
  ("uint.inv_is_some", fun dbg a => okdom (same_len a) (out_some (uint_inv_mod dbg false (arg 0 a) (arg 1 a))));
  ("boxed.inv_odd_is_some", fun dbg a => okdom (same_len a && odd1 a) (out_some (sg_inv dbg false true (ones_limbs (ln 1 a)) (arg 1 a) (arg 0 a))));
  ("boxed.inv_is_some", fun dbg a => okdom (same_len a) (out_some (uint_inv_mod dbg true (arg 0 a) (arg 1 a))));
  ("int.inv_odd_is_some", fun dbg a => okdom (same_len a && odd1 a)
     (out_some (int_fix_sign (int_neg (arg 0 a)) (arg 1 a) (sg_inv dbg false false (ones_limbs (ln 1 a)) (arg 1 a) (int_abs (arg 0 a))))));
  ("int.inv_is_some", fun dbg a => okdom (same_len a)
     (if ev 1 a =? 0 then Unsupported else
      out_some (int_fix_sign (int_neg (arg 0 a)) (arg 1 a) (uint_inv_mod dbg false (int_abs (arg 0 a)) (arg 1 a)))));
  ("uint.inv_mod2k", fun _ a => out_pair (ln 0 a) (inv_mod2k_ct (ln 0 a) (ev 0 a) (sarg 1 a)));
  ("uint.inv_mod2k_vartime", fun _ a =>
     if bitsn (ln 0 a) <? sarg 1 a then PanicV else out_pair (ln 0 a) (inv_mod2k_vartime (ln 0 a) (ev 0 a) (sarg 1 a)));
  ("uint.inv_mod2k_full64", fun _ a =>
     match inv_mod2k_full_vartime (ln 0 a) (ev 0 a) 64 with Some x => Val [[x mod B]] | None => PanicV end);
  ("uint.gcd", fun dbg a => okdom (same_len a) (out_sg (uint_gcd dbg false (arg 0 a) (arg 1 a))));
  ("uint.gcd_vartime", fun dbg a => okdom (same_len a) (out_sg (uint_gcd_vartime dbg false (arg 0 a) (arg 1 a))));
  ("odd.gcd_vartime", fun dbg a => okdom (same_len a && Z.odd (ev 0 a)) (out_sg (sg_gcd dbg true false (arg 0 a) (arg 1 a))));
  ("uint.safegcd_converged", fun _ a => okdom (same_len a) (Val [vbool (sg_converged false (arg 0 a) (arg 1 a) (unsat_nlimbs (ln 0 a)))]));
  ("uint.gcd_converged", fun _ a => okdom (same_len a) (Val [vbool (uint_gcd_converged false (arg 0 a) (arg 1 a))]));
  ("boxed.gcd_converged", fun _ a => okdom (same_len a) (Val [vbool (uint_gcd_converged true (arg 0 a) (arg 1 a))]));
  ("int.inv_odd_mod", fun dbg a => okdom (same_len a && odd1 a)
     (out_sg (int_fix_sign (int_neg (arg 0 a)) (arg 1 a) (sg_inv dbg false false (ones_limbs (ln 1 a)) (arg 1 a) (int_abs (arg 0 a))))));
  ("int.inv_mod", fun dbg a => okdom (same_len a)
     (if ev 1 a =? 0 then Unsupported else
      out_sg (int_fix_sign (int_neg (arg 0 a)) (arg 1 a) (uint_inv_mod dbg false (int_abs (arg 0 a)) (arg 1 a)))));
  ("int.gcd", fun dbg a => okdom (same_len a) (out_sg (uint_gcd dbg false (int_abs (arg 0 a)) (int_abs (arg 1 a)))));
  ("int.gcd_vartime", fun dbg a => okdom (same_len a) (out_sg (uint_gcd_vartime dbg false (int_abs (arg 0 a)) (int_abs (arg 1 a)))));
  ("int.gcd_uint", fun dbg a => okdom (same_len a) (out_sg (uint_gcd dbg false (int_abs (arg 0 a)) (arg 1 a))));
  ("int.gcd_uint_vartime", fun dbg a => okdom (same_len a) (out_sg (uint_gcd_vartime dbg false (int_abs (arg 0 a)) (arg 1 a))));
  ("uint.gcd_int", fun dbg a => okdom (same_len a) (out_sg (uint_gcd dbg false (arg 0 a) (int_abs (arg 1 a)))));
  ("uint.gcd_int_vartime", fun dbg a => okdom (same_len a) (out_sg (uint_gcd_vartime dbg false (arg 0 a) (int_abs (arg 1 a)))));
  ("boxed.inv_odd_mod", fun dbg a => okdom (same_len a && odd1 a) (out_sg (sg_inv dbg false true (ones_limbs (ln 1 a)) (arg 1 a) (arg 0 a))));
  ("boxed.inv_odd_mod_vartime", fun dbg a => okdom (same_len a && odd1 a) (out_sg (sg_inv dbg true true (ones_limbs (ln 1 a)) (arg 1 a) (arg 0 a))));
  ("boxed.inv_mod", fun dbg a => okdom (same_len a) (out_sg (uint_inv_mod dbg true (arg 0 a) (arg 1 a))));
  ("boxed.inv_mod2k", fun _ a => out_pair (ln 0 a) (inv_mod2k_ct (ln 0 a) (ev 0 a) (sarg 1 a)));
  ("boxed.inv_mod2k_vartime", fun _ a =>
     okdom (sarg 1 a <=? bitsn (ln 0 a)) (out_pair (ln 0 a) (inv_mod2k_vartime (ln 0 a) (ev 0 a) (sarg 1 a))));
  ("boxed.inv_mod2k_full64", fun _ a =>
     match inv_mod2k_full_vartime (ln 0 a) (ev 0 a) 64 with Some x => Val [[x mod B]] | None => PanicV end);
  ("boxed.gcd", fun dbg a => okdom (same_len a) (out_sg (uint_gcd dbg true (arg 0 a) (arg 1 a))));
  ("boxed.gcd_vartime", fun dbg a => okdom (same_len a) (out_sg (uint_gcd_vartime dbg true (arg 0 a) (arg 1 a))));
  ("boxed_odd.gcd", fun dbg a => okdom (same_len a && Z.odd (ev 0 a)) (out_sg (sg_gcd dbg false true (arg 0 a) (arg 1 a))));
  ("boxed_odd.gcd_vartime", fun dbg a => okdom (same_len a && Z.odd (ev 0 a)) (out_sg (sg_gcd dbg true true (arg 0 a) (arg 1 a))));
  ("boxed.safegcd_converged", fun _ a => okdom (same_len a) (Val [vbool (sg_converged true (arg 0 a) (arg 1 a) (unsat_nlimbs (ln 0 a)))]));
  ("monty.inv", fun dbg a => okdom (same_len a && odd1 a) (out_sg (monty_inv dbg false false (arg 0 a) (arg 1 a))));
  ("monty.inv_vartime", fun dbg a => okdom (same_len a && odd1 a) (out_sg (monty_inv dbg true false (arg 0 a) (arg 1 a))));
  ("boxedmonty.inv", fun dbg a => okdom (same_len a && odd1 a) (out_sg (monty_inv dbg false true (arg 0 a) (arg 1 a))));
  ("boxedmonty.inv_vartime", fun dbg a => okdom (same_len a && odd1 a) (out_sg (monty_inv dbg true true (arg 0 a) (arg 1 a))))
].

(* Spec: is_some <-> gcd(a, m) = 1, the value is the canonical inverse; gcd = Z.gcd. *)
(* modulus 1: is_some is fixed (always some) but the value is left open (0 <= x < m is claimed for m >= 2):
   the value ops are outside the compared domain there and the `*_is_some` ops carry the check *)
Definition sp_inv (a : list (list Z)) (av : Z) : outcome :=
  if ev 1 a =? 1 then Unsupported else spec_inv (ln 1 a) av (ev 1 a).
Definition sp_is_some (a : list (list Z)) (av : Z) : outcome := Val [vbool (Z.gcd av (ev 1 a) =? 1)].
Definition sp_gcd (n : nat) (x y : Z) : outcome := Val [to_limbs n (Z.gcd x y)].
Definition dom_odd (a : list (list Z)) (o : outcome) : outcome :=
  okdom (same_len a && odd1 a) o.
Definition sev (i : nat) (a : list (list Z)) : Z := seval (arg i a).
Definition sp_inv2k (a : list (list Z)) : outcome :=
  let n := ln 0 a in let k := sarg 1 a in
  if (0 <=? k) && (k <=? bitsn n) && (0 <? n)%nat then spec_inv n (ev 0 a) (2 ^ k) else Unsupported.
Definition sp_conv (a : list (list Z)) : outcome := okdom (same_len a) (Val [[1]]).

Definition ops_safegcd_spec : list (string * opfn) := [
  ("uint.inv_odd_mod", fun _ a => dom_odd a (sp_inv a (ev 0 a)));
  ("uint.inv_odd_mod_vartime", fun _ a => dom_odd a (sp_inv a (ev 0 a)));
  ("uint.inv_adj", fun _ a => okdom (same_len a && odd1 a && (ev 2 a <? ev 1 a) && (ln 2 a =? ln 1 a)%nat)
                                (spec_inv_adj (ln 1 a) (ev 0 a) (ev 1 a) (ev 2 a)));
  ("uint.inv_adj_vartime", fun _ a => okdom (same_len a && odd1 a && (ev 2 a <? ev 1 a) && (ln 2 a =? ln 1 a)%nat)
                                (spec_inv_adj (ln 1 a) (ev 0 a) (ev 1 a) (ev 2 a)));
  (* modulus 0: outside the property's domain (m >= 1) except that a != 1 has gcd(a, 0) != 1, hence none *)
  ("uint.inv_mod", fun _ a => okdom (same_len a)
     (if ev 1 a =? 0 then (if ev 0 a =? 1 then Unsupported else NoneV) else sp_inv a (ev 0 a)));
  ("uint.inv_odd_is_some", fun _ a => okdom (same_len a && odd1 a) (sp_is_some a (ev 0 a)));
  ("uint.inv_is_some", fun _ a => okdom (same_len a && negb (ev 1 a =? 0)) (sp_is_some a (ev 0 a)));
  ("boxed.inv_odd_is_some", fun _ a => okdom (same_len a && odd1 a) (sp_is_some a (ev 0 a)));
  ("boxed.inv_is_some", fun _ a => okdom (same_len a && negb (ev 1 a =? 0)) (sp_is_some a (ev 0 a)));
  ("int.inv_odd_is_some", fun _ a => okdom (same_len a && odd1 a) (sp_is_some a (sev 0 a)));
  ("int.inv_is_some", fun _ a => okdom (same_len a && negb (ev 1 a =? 0)) (sp_is_some a (sev 0 a)));
  ("uint.inv_mod2k", fun _ a => sp_inv2k a);
  ("uint.inv_mod2k_vartime", fun _ a => sp_inv2k a);
  ("uint.inv_mod2k_full64", fun _ a => okdom (Z.odd (ev 0 a)) (Val [[modinv (ev 0 a) B]]));
  ("uint.gcd", fun _ a => okdom (same_len a) (sp_gcd (ln 0 a) (ev 0 a) (ev 1 a)));
  ("uint.gcd_vartime", fun _ a => okdom (same_len a) (sp_gcd (ln 0 a) (ev 0 a) (ev 1 a)));
  ("odd.gcd_vartime", fun _ a => okdom (same_len a && Z.odd (ev 0 a)) (sp_gcd (ln 0 a) (ev 0 a) (ev 1 a)));
  ("uint.safegcd_converged", fun _ a => sp_conv a);
  ("uint.gcd_converged", fun _ a => sp_conv a);
  ("boxed.gcd_converged", fun _ a => sp_conv a);
  ("int.inv_odd_mod", fun _ a => dom_odd a (sp_inv a (sev 0 a)));
  ("int.inv_mod", fun _ a => okdom (same_len a && negb (ev 1 a =? 0)) (sp_inv a (sev 0 a)));
  ("int.gcd", fun _ a => okdom (same_len a) (sp_gcd (ln 0 a) (sev 0 a) (sev 1 a)));
  ("int.gcd_vartime", fun _ a => okdom (same_len a) (sp_gcd (ln 0 a) (sev 0 a) (sev 1 a)));
  ("int.gcd_uint", fun _ a => okdom (same_len a) (sp_gcd (ln 0 a) (sev 0 a) (ev 1 a)));
  ("int.gcd_uint_vartime", fun _ a => okdom (same_len a) (sp_gcd (ln 0 a) (sev 0 a) (ev 1 a)));
  ("uint.gcd_int", fun _ a => okdom (same_len a) (sp_gcd (ln 0 a) (ev 0 a) (sev 1 a)));
  ("uint.gcd_int_vartime", fun _ a => okdom (same_len a) (sp_gcd (ln 0 a) (ev 0 a) (sev 1 a)));
  ("boxed.inv_odd_mod", fun _ a => dom_odd a (sp_inv a (ev 0 a)));
  ("boxed.inv_odd_mod_vartime", fun _ a => dom_odd a (sp_inv a (ev 0 a)));
  ("boxed.inv_mod", fun _ a => okdom (same_len a)
     (if ev 1 a =? 0 then (if ev 0 a =? 1 then Unsupported else NoneV) else sp_inv a (ev 0 a)));
  ("boxed.inv_mod2k", fun _ a => sp_inv2k a);
  ("boxed.inv_mod2k_vartime", fun _ a => sp_inv2k a);
  ("boxed.inv_mod2k_full64", fun _ a => okdom (Z.odd (ev 0 a)) (Val [[modinv (ev 0 a) B]]));
  ("boxed.gcd", fun _ a => okdom (same_len a) (sp_gcd (ln 0 a) (ev 0 a) (ev 1 a)));
  ("boxed.gcd_vartime", fun _ a => okdom (same_len a) (sp_gcd (ln 0 a) (ev 0 a) (ev 1 a)));
  ("boxed_odd.gcd", fun _ a => okdom (same_len a && Z.odd (ev 0 a)) (sp_gcd (ln 0 a) (ev 0 a) (ev 1 a)));
  ("boxed_odd.gcd_vartime", fun _ a => okdom (same_len a && Z.odd (ev 0 a)) (sp_gcd (ln 0 a) (ev 0 a) (ev 1 a)));
  ("boxed.safegcd_converged", fun _ a => sp_conv a);
  (* Montgomery forms: the retrieved values multiply to 1 (modulus >= 3: MontyParams for modulus 1 is C08's F6) *)
  ("monty.inv", fun _ a => okdom (same_len a && odd1 a && (1 <? ev 1 a)) (sp_inv a (ev 0 a)));
  ("monty.inv_vartime", fun _ a => okdom (same_len a && odd1 a && (1 <? ev 1 a)) (sp_inv a (ev 0 a)));
  ("boxedmonty.inv", fun _ a => okdom (same_len a && odd1 a && (1 <? ev 1 a)) (sp_inv a (ev 0 a)));
  ("boxedmonty.inv_vartime", fun _ a => okdom (same_len a && odd1 a && (1 <? ev 1 a)) (sp_inv a (ev 0 a)))
].

(* ---- convergence report ----
   For every op above, "conv:<op>" reports whether the Bernstein-Yang iteration that the op runs reached g = 0 within
   `iterations(f_bits, g_bits)` jumps on these arguments (the flag of the fixed-count loop; the run-until-zero loop then
   stops within the same count).  The documented behaviour is: always.  ./check evaluates it for every generated case of a
   safegcd op, and the table theorem of Props/C10.v takes exactly this flag as its hypothesis. *)
Definition cv (b : bool) : outcome := Val [vbool b].
Definition conv_inv (boxed : bool) (m g : list Z) : bool := sg_converged boxed m g (unsat_nlimbs (length m)).
Definition odd_part (m : list Z) : list Z :=
  let n := length m in to_limbs n (vshr n (eval m) (vtz n (eval m))).
Definition conv_gcd_vt (boxed : bool) (a b : list Z) : bool :=
  if Z.odd (eval a) then sg_converged boxed a b (unsat_nlimbs (length a)) else uint_gcd_converged boxed a b.
Definition monty_arg (a m : list Z) : list Z := to_limbs (length m) ((eval a * Bn (length m)) mod eval m).

Definition ops_safegcdconv_model : list (string * opfn) := [
  ("conv:uint.inv_odd_mod", fun _ a => cv (conv_inv false (arg 1 a) (arg 0 a)));
  ("conv:uint.inv_odd_mod_vartime", fun _ a => cv (conv_inv false (arg 1 a) (arg 0 a)));
  ("conv:uint.inv_adj", fun _ a => cv (conv_inv false (arg 1 a) (arg 0 a)));
  ("conv:uint.inv_adj_vartime", fun _ a => cv (conv_inv false (arg 1 a) (arg 0 a)));
  ("conv:uint.inv_mod", fun _ a => cv (conv_inv false (odd_part (arg 1 a)) (arg 0 a)));
  ("conv:uint.inv_odd_is_some", fun _ a => cv (conv_inv false (arg 1 a) (arg 0 a)));
  ("conv:uint.inv_is_some", fun _ a => cv (conv_inv false (odd_part (arg 1 a)) (arg 0 a)));
  ("conv:boxed.inv_odd_is_some", fun _ a => cv (conv_inv true (arg 1 a) (arg 0 a)));
  ("conv:boxed.inv_is_some", fun _ a => cv (conv_inv true (odd_part (arg 1 a)) (arg 0 a)));
  ("conv:int.inv_odd_is_some", fun _ a => cv (conv_inv false (arg 1 a) (int_abs (arg 0 a))));
  ("conv:int.inv_is_some", fun _ a => cv (conv_inv false (odd_part (arg 1 a)) (int_abs (arg 0 a))));
  ("conv:uint.inv_mod2k", fun _ a => cv true);
  ("conv:uint.inv_mod2k_vartime", fun _ a => cv true);
  ("conv:uint.inv_mod2k_full64", fun _ a => cv true);
  ("conv:uint.gcd", fun _ a => cv (uint_gcd_converged false (arg 0 a) (arg 1 a)));
  ("conv:uint.gcd_vartime", fun _ a => cv (conv_gcd_vt false (arg 0 a) (arg 1 a)));
  ("conv:odd.gcd_vartime", fun _ a => cv (sg_converged false (arg 0 a) (arg 1 a) (unsat_nlimbs (ln 0 a))));
  ("conv:uint.safegcd_converged", fun _ a => cv (sg_converged false (arg 0 a) (arg 1 a) (unsat_nlimbs (ln 0 a))));
  ("conv:uint.gcd_converged", fun _ a => cv (uint_gcd_converged false (arg 0 a) (arg 1 a)));
  ("conv:boxed.gcd_converged", fun _ a => cv (uint_gcd_converged true (arg 0 a) (arg 1 a)));
  ("conv:int.inv_odd_mod", fun _ a => cv (conv_inv false (arg 1 a) (int_abs (arg 0 a))));
  ("conv:int.inv_mod", fun _ a => cv (conv_inv false (odd_part (arg 1 a)) (int_abs (arg 0 a))));
  ("conv:int.gcd", fun _ a => cv (uint_gcd_converged false (int_abs (arg 0 a)) (int_abs (arg 1 a))));
  ("conv:int.gcd_vartime", fun _ a => cv (conv_gcd_vt false (int_abs (arg 0 a)) (int_abs (arg 1 a))));
  ("conv:int.gcd_uint", fun _ a => cv (uint_gcd_converged false (int_abs (arg 0 a)) (arg 1 a)));
  ("conv:int.gcd_uint_vartime", fun _ a => cv (conv_gcd_vt false (int_abs (arg 0 a)) (arg 1 a)));
  ("conv:uint.gcd_int", fun _ a => cv (uint_gcd_converged false (arg 0 a) (int_abs (arg 1 a))));
  ("conv:uint.gcd_int_vartime", fun _ a => cv (conv_gcd_vt false (arg 0 a) (int_abs (arg 1 a))));
  ("conv:boxed.inv_odd_mod", fun _ a => cv (conv_inv true (arg 1 a) (arg 0 a)));
  ("conv:boxed.inv_odd_mod_vartime", fun _ a => cv (conv_inv true (arg 1 a) (arg 0 a)));
  ("conv:boxed.inv_mod", fun _ a => cv (conv_inv true (odd_part (arg 1 a)) (arg 0 a)));
  ("conv:boxed.inv_mod2k", fun _ a => cv true);
  ("conv:boxed.inv_mod2k_vartime", fun _ a => cv true);
  ("conv:boxed.inv_mod2k_full64", fun _ a => cv true);
  ("conv:boxed.gcd", fun _ a => cv (uint_gcd_converged true (arg 0 a) (arg 1 a)));
  ("conv:boxed.gcd_vartime", fun _ a => cv (conv_gcd_vt true (arg 0 a) (arg 1 a)));
  ("conv:boxed_odd.gcd", fun _ a => cv (sg_converged true (arg 0 a) (arg 1 a) (unsat_nlimbs (ln 0 a))));
  ("conv:boxed_odd.gcd_vartime", fun _ a => cv (sg_converged true (arg 0 a) (arg 1 a) (unsat_nlimbs (ln 0 a))));
  ("conv:boxed.safegcd_converged", fun _ a => cv (sg_converged true (arg 0 a) (arg 1 a) (unsat_nlimbs (ln 0 a))));
  ("conv:monty.inv", fun _ a => cv (conv_inv false (arg 1 a) (monty_arg (arg 0 a) (arg 1 a))));
  ("conv:monty.inv_vartime", fun _ a => cv (conv_inv false (arg 1 a) (monty_arg (arg 0 a) (arg 1 a))));
  ("conv:boxedmonty.inv", fun _ a => cv (conv_inv true (arg 1 a) (monty_arg (arg 0 a) (arg 1 a))));
  ("conv:boxedmonty.inv_vartime", fun _ a => cv (conv_inv true (arg 1 a) (monty_arg (arg 0 a) (arg 1 a))))
].
(* documented: the iteration always converges wherever the op itself is specified *)
Definition conv_spec (k : string) : opfn := fun dbg a =>
  match lookup k ops_safegcd_spec with
  | Some f => match f dbg a with Unsupported => Unsupported | _ => Val [[1]] end
  | None => Unsupported
  end.
Definition ops_safegcdconv_spec : list (string * opfn) :=
  map (fun kv => (String.append "conv:" (fst kv), conv_spec (fst kv))) ops_safegcd_spec.

(* ---- F4: the ORIGINAL Uint::inv_mod (before tools/fix_C10_1.diff) ----
   `s.inv_mod2k(k).expect("inverse mod 2^k exists")`: a panic whenever the odd part s has no inverse modulo 2^k, which
   happens exactly for modulus = 0 (s = 0, k = BITS).  BoxedUint::inv_mod never had the expect. *)
Definition uint_inv_mod_original (dbg boxed : bool) (a m : list Z) : sgres :=
  let n := length m in
  let k := vtz n (eval m) in
  let s := vshr n (eval m) k in
  if negb boxed && negb (snd (inv_mod2k_ct n s k)) then SgPanic else uint_inv_mod dbg boxed a m.
