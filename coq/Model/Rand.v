(** C19: random sampling (src/uint/rand.rs, src/uint/boxed/rand.rs, src/limb/rand.rs, src/int/rand.rs,
    src/non_zero.rs, src/odd.rs, src/modular/const_monty_form.rs) on a 64-bit target.

    An RNG is the finite list of 64-bit words it will still output, plus two counters: words consumed
    and bytes requested. It behaves like a block-less rand_core 0.9 generator whose primitive is
    [next_u64]:  next_u32 = next_u64 as u32 (a whole word is consumed, its low half returned) and
    fill_bytes = rand_core::impls::fill_bytes_via_next (every slice of 1..=8 bytes costs one word:
    slices longer than 4 bytes take the first bytes of a next_u64, shorter ones of a next_u32).
    Running out of words is the RNG error ([None] below).

    L0 models follow the Rust loops; the Spec section states the documented result on plain integers. *)
From CB Require Export Model.Limbs Model.AddSub.
Open Scope Z_scope. Open Scope list_scope.

(* ------------------------------------------------------------------ the RNG *)
Inductive rnd_rng := Rng (ws : list Z) (nw nb : Z).

Definition rnd_left (r : rnd_rng) : nat := match r with Rng ws _ _ => length ws end.

(* try_next_u64 *)
Definition rnd_u64 (r : rnd_rng) : option (Z * rnd_rng) :=
  match r with
  | Rng (w :: ws) nw nb => Some (w, Rng ws (nw + 1) (nb + 8))
  | _ => None
  end.
(* try_next_u32 *)
Definition rnd_u32 (r : rnd_rng) : option (Z * rnd_rng) :=
  match r with
  | Rng (w :: ws) nw nb => Some (w mod 2 ^ 32, Rng ws (nw + 1) (nb + 4))
  | _ => None
  end.
(* try_fill_bytes on a slice of k bytes, 1 <= k <= 8; the result is the slice read little-endian *)
Definition rnd_fill (k : Z) (r : rnd_rng) : option (Z * rnd_rng) :=
  match r with
  | Rng (w :: ws) nw nb =>
      Some ((if 4 <? k then w else w mod 2 ^ 32) mod 2 ^ (8 * k), Rng ws (nw + 1) (nb + k))
  | _ => None
  end.

(* k successive next_u64 calls *)
Fixpoint rnd_words (k : nat) (r : rnd_rng) : option (list Z * rnd_rng) :=
  match k with
  | O => Some ([], r)
  | S k' =>
      match rnd_u64 r with
      | None => None
      | Some (w, r1) =>
          match rnd_words k' r1 with
          | None => None
          | Some (ls, r2) => Some (w :: ls, r2)
          end
      end
  end.

(* ------------------------------------------------------------------ bit counting (src/uint/bits.rs) *)
(* u64::leading_zeros *)
Definition rnd_lz (x : Z) : Z := if x =? 0 then 64 else 63 - Z.log2 x.

(* bits_vartime: i = len - 1; while i > 0 && limbs[i] == 0 { i -= 1 } *)
Fixpoint rnd_top_index (ls : list Z) (i : nat) : nat :=
  match i with
  | O => O
  | S i' => if nthz ls i =? 0 then rnd_top_index ls i' else i
  end.
Definition rnd_bits_vartime (ls : list Z) : Z :=
  let i := rnd_top_index ls (length ls - 1) in
  64 * (Z.of_nat i + 1) - rnd_lz (nthz ls i).

(* leading_zeros (constant time): scan from the top limb, count while no non-zero limb was met *)
Fixpoint rnd_lz_loop (rev_ls : list Z) (count nz : Z) : Z :=
  match rev_ls with
  | [] => count
  | l :: rest =>
      rnd_lz_loop rest (count + (if choice_to_bool nz then rnd_lz l else 0))
                  (wand nz (wnot (from_word_nonzero l)))
  end.
Definition rnd_leading_zeros (ls : list Z) : Z := rnd_lz_loop (rev ls) 0 MAXW.
(* BoxedUint::bits = bits_precision - leading_zeros *)
Definition rnd_bits_ct (ls : list Z) : Z := 64 * lenZ ls - rnd_leading_zeros ls.

(* ------------------------------------------------------------------ Random for Limb / Uint / Int / Wrapping *)
Definition limb_random (r : rnd_rng) : option (Z * rnd_rng) := rnd_u64 r.
(* for limb in &mut limbs { *limb = Limb::try_random(rng)? } *)
Definition uint_random (n : nat) (r : rnd_rng) : option (list Z * rnd_rng) := rnd_words n r.

(* ------------------------------------------------------------------ random_bits_core *)
(* the first nonzero_limbs - 1 limbs: 8-byte fills; also returns the last buffer content *)
Fixpoint rnd_fill_full (k : nat) (buf : Z) (r : rnd_rng) : option (list Z * Z * rnd_rng) :=
  match k with
  | O => Some ([], buf, r)
  | S k' =>
      match rnd_fill 8 r with
      | None => None
      | Some (w, r1) =>
          match rnd_fill_full k' w r1 with
          | None => None
          | Some (ls, b, r2) => Some (w :: ls, b, r2)
          end
      end
  end.

(* returns the nonzero_limbs limbs that are written (the remaining limbs of the buffer stay zero) *)
Definition rnd_bits_core (r : rnd_rng) (bl : Z) : option (list Z * rnd_rng) :=
  if bl =? 0 then Some ([], r) else
  let nzl := (bl + 63) / 64 in                        (* bit_length.div_ceil(Limb::BITS) *)
  let partial := bl mod 64 in
  let mask := wshr MAXW ((64 - partial) mod 64) in
  match rnd_fill_full (Z.to_nat (nzl - 1)) 0 r with
  | None => None
  | Some (ls, buf, r1) =>
      if (0 <? partial) && (partial <=? 32) then
        (* only buffer[0..4] is refilled; buffer[4..8] still holds the previous limb's upper half *)
        match rnd_fill 4 r1 with
        | None => None
        | Some (v, r2) => Some (ls ++ [wand ((buf / 2 ^ 32) * 2 ^ 32 + v) mask], r2)
        end
      else
        match rnd_fill 8 r1 with
        | None => None
        | Some (v, r2) => Some (ls ++ [wand v mask], r2)
        end
  end.

(* result of the RandomBits front ends: error codes 1 = BitsPrecisionMismatch {bits_precision, integer_bits},
   2 = BitLengthTooLarge {bit_length, bits_precision}, 9 = RandCore(rng error) *)
Inductive rnd_res :=
| ROk (v : list Z) (r : rnd_rng)
| RErr (code f1 f2 : Z).

Definition rnd_pad (n : nat) (ls : list Z) : list Z := ls ++ zeros (n - length ls).

(* Uint<N>::try_random_bits_with_precision (Int<N> forwards to it) *)
Definition uint_random_bits_prec (n : nat) (r : rnd_rng) (bl prec : Z) : rnd_res :=
  let bits := 64 * Z.of_nat n in
  if negb (prec =? bits) then RErr 1 prec bits
  else if bits <? bl then RErr 2 bl prec
  else match rnd_bits_core r bl with
       | None => RErr 9 0 0
       | Some (ls, r') => ROk (rnd_pad n ls) r'
       end.
Definition uint_random_bits (n : nat) (r : rnd_rng) (bl : Z) : rnd_res :=
  uint_random_bits_prec n r bl (64 * Z.of_nat n).

(* BoxedUint::zero_with_precision: rounds up to whole limbs; From<Vec<Limb>> turns an empty vector into one zero limb *)
Definition rnd_boxed_limbs (prec : Z) : nat := Z.to_nat (Z.max 1 ((prec + 63) / 64)).
(* BoxedUint::try_random_bits_with_precision *)
Definition boxed_random_bits_prec (r : rnd_rng) (bl prec : Z) : rnd_res :=
  if prec <? bl then RErr 2 bl prec
  else match rnd_bits_core r bl with
       | None => RErr 9 0 0
       | Some (ls, r') => ROk (rnd_pad (rnd_boxed_limbs prec) ls) r'
       end.
Definition boxed_random_bits (r : rnd_rng) (bl : Z) : rnd_res := boxed_random_bits_prec r bl bl.

(* ------------------------------------------------------------------ random_mod_core *)
(* n.ct_lt(modulus): borrow of the limb-wise subtraction *)
Definition rnd_ct_lt (a b : list Z) : bool := negb (snd (sbb_limbs a b 0) =? 0).

(* One pass through the body of `loop { .. }`, entered with the masked candidate top word [hi]:
   - hi > hi_word_modulus            : the inner `while` draws a new top word            (early rejection)
   - otherwise: draw the n_limbs - 1 low words; accept if n < modulus, else draw a new top word.
   Every recursive call has consumed at least one word, so [fuel] = words left + 1 never runs out. *)
Fixpoint rnd_mod_loop (fuel : nat) (m : list Z) (nl : nat) (himod mask hi : Z) (r : rnd_rng)
  : option (list Z * rnd_rng) :=
  match fuel with
  | O => None
  | S f =>
      if hi >? himod then
        match rnd_u64 r with
        | None => None
        | Some (w, r1) => rnd_mod_loop f m nl himod mask (wand w mask) r1
        end
      else
        match rnd_words (nl - 1) r with
        | None => None
        | Some (lows, r1) =>
            let n := lows ++ hi :: zeros (length m - nl) in
            if rnd_ct_lt n m then Some (n, r1)
            else match rnd_u64 r1 with
                 | None => None
                 | Some (w, r2) => rnd_mod_loop f m nl himod mask (wand w mask) r2
                 end
        end
  end.

Definition rnd_mod_core (m : list Z) (nbits : Z) (r : rnd_rng) : option (list Z * rnd_rng) :=
  let nl := Z.to_nat ((nbits + 63) / 64) in
  let himod := nthz m (nl - 1) in
  let mask := wshr MAXW (rnd_lz himod) in             (* !0 >> hi_word_modulus.leading_zeros() *)
  match rnd_u64 r with
  | None => None
  | Some (w, r1) => rnd_mod_loop (S (rnd_left r1)) m nl himod mask (wand w mask) r1
  end.

Definition uint_random_mod (m : list Z) (r : rnd_rng) := rnd_mod_core m (rnd_bits_vartime m) r.
Definition boxed_random_mod (m : list Z) (r : rnd_rng) := rnd_mod_core m (rnd_bits_ct m) r.

(* ------------------------------------------------------------------ Limb::try_random_mod *)
Fixpoint limb_mod_loop (fuel : nat) (m nbytes mask : Z) (r : rnd_rng) : option (Z * rnd_rng) :=
  match fuel with
  | O => None
  | S f =>
      match rnd_fill nbytes r with
      | None => None
      | Some (v, r1) =>
          let sh := 2 ^ (8 * (nbytes - 1)) in
          let v' := v mod sh + wand (v / sh) mask * sh in        (* bytes[n_bytes - 1] &= mask *)
          if choice_to_bool (from_word_lt v' m) then Some (v', r1)
          else limb_mod_loop f m nbytes mask r1
      end
  end.
Definition limb_random_mod (m : Z) (r : rnd_rng) : option (Z * rnd_rng) :=
  let nbits := 64 - rnd_lz m in
  let nbytes := (nbits + 7) / 8 in
  let mask := 255 / 2 ^ (8 * nbytes - nbits) in                 (* 0xffu8 >> (8 * n_bytes - n_bits) *)
  limb_mod_loop (rnd_left r) m nbytes mask r.

(* ------------------------------------------------------------------ NonZero<T>::try_random, Odd *)
Definition rnd_all_zero (ls : list Z) : bool := forallb (fun x => x =? 0) ls.

Fixpoint nonzero_uint_loop (fuel : nat) (n : nat) (r : rnd_rng) : option (list Z * rnd_rng) :=
  match fuel with
  | O => None
  | S f =>
      match uint_random n r with
      | None => None
      | Some (ls, r1) => if rnd_all_zero ls then nonzero_uint_loop f n r1 else Some (ls, r1)
      end
  end.
Definition nonzero_uint_random (n : nat) (r : rnd_rng) := nonzero_uint_loop (S (rnd_left r)) n r.

(* NonZero<ConstMontyForm<M>>: rejection of the zero residue on top of random_mod *)
Fixpoint nonzero_mod_loop (fuel : nat) (m : list Z) (r : rnd_rng) : option (list Z * rnd_rng) :=
  match fuel with
  | O => None
  | S f =>
      match uint_random_mod m r with
      | None => None
      | Some (ls, r1) => if rnd_all_zero ls then nonzero_mod_loop f m r1 else Some (ls, r1)
      end
  end.
Definition nonzero_mod_random (m : list Z) (r : rnd_rng) := nonzero_mod_loop (S (rnd_left r)) m r.

Definition rnd_set_lsb (ls : list Z) : option (list Z) :=
  match ls with
  | [] => None                                         (* ret.limbs[0]: index out of bounds *)
  | x :: t => Some (wor x 1 :: t)
  end.
(* Odd<Uint<N>>::try_random *)
Definition odd_uint_random (n : nat) (r : rnd_rng) : option (list Z * rnd_rng) :=
  match uint_random n r with
  | None => None
  | Some (ls, r1) => match rnd_set_lsb ls with Some ls' => Some (ls', r1) | None => None end
  end.

(* Odd<BoxedUint>::random(rng, bit_length) = BoxedUint::random_bits(..) with limbs[0] |= 1; every error
   panics ([None]) *)
Definition odd_boxed_random (r : rnd_rng) (bl : Z) : option (list Z * rnd_rng) :=
  match boxed_random_bits r bl with
  | ROk v r' => match rnd_set_lsb v with Some v' => Some (v', r') | None => None end
  | RErr _ _ _ => None
  end.

(* ------------------------------------------------------------------ Spec: plain integers *)
Definition rnd_bitlen (x : Z) : Z := if x <=? 0 then 0 else Z.log2 x + 1.
Definition rnd_ceil (a b : Z) : Z := (a + b - 1) / b.
(* limbs of a BoxedUint with at least [prec] bits of precision (a BoxedUint has at least one limb) *)
Definition sp_boxed_limbs (prec : Z) : nat := Z.to_nat (Z.max 1 (rnd_ceil prec 64)).

Inductive rnd_sp :=
| SpOk (v : Z) (words bytes : Z)      (* value, words consumed, bytes requested *)
| SpExhausted.                        (* the stream ends before a value is accepted *)

(* Random: the next n words are the limbs, least significant first *)
Definition sp_random (n : nat) (ws : list Z) : rnd_sp :=
  if (length ws <? n)%nat then SpExhausted
  else SpOk (eval (firstn n ws)) (Z.of_nat n) (8 * Z.of_nat n).

(* RandomBits: the next ceil(bl/64) words, reduced mod 2^bl. The last request is 4 bytes long when
   the partial limb has 1..=32 bits (so that 32- and 64-bit targets consume the same bytes) *)
Definition sp_random_bits (ws : list Z) (bl : Z) : rnd_sp :=
  let k := rnd_ceil bl 64 in
  if Z.of_nat (length ws) <? k then SpExhausted
  else let p := bl mod 64 in
       SpOk (eval (firstn (Z.to_nat k) ws) mod 2 ^ bl) k
            (if bl =? 0 then 0 else 8 * (k - 1) + (if (0 <? p) && (p <=? 32) then 4 else 8)).

(* RandomMod: rejection sampling. A candidate is [nl] words; the top one is reduced to the bit length
   of the modulus' top limb and is discarded at once when it exceeds that limb (early rejection) *)
Fixpoint sp_mod_loop (fuel : nat) (m : Z) (nl : nat) (tb : Z) (ws : list Z) (cnt : Z) : rnd_sp :=
  match fuel with
  | O => SpExhausted
  | S f =>
      match ws with
      | [] => SpExhausted
      | w :: ws' =>
          let hi := w mod 2 ^ tb in
          if hi >? m / Bn (nl - 1) then sp_mod_loop f m nl tb ws' (cnt + 1)
          else if (length ws' <? nl - 1)%nat then SpExhausted
          else let c := hi * Bn (nl - 1) + eval (firstn (nl - 1) ws') in
               if c <? m then SpOk c (cnt + Z.of_nat nl) (8 * (cnt + Z.of_nat nl))
               else sp_mod_loop f m nl tb (skipn (nl - 1) ws') (cnt + Z.of_nat nl)
      end
  end.
Definition sp_random_mod (m : Z) (ws : list Z) : rnd_sp :=
  let k := rnd_bitlen m in
  let nl := Z.to_nat (rnd_ceil k 64) in
  sp_mod_loop (length ws) m nl (k - 64 * (Z.of_nat nl - 1)) ws 0.

(* the value of one candidate: top word reduced to [tb] bits, followed by [p] low words *)
Definition sp_mod_candidate (tb : Z) (p : nat) (w0 : Z) (lows : list Z) : Z := (w0 mod 2 ^ tb) * Bn p + eval lows.

(* Limb RandomMod: byte-wise; every attempt requests ceil(bits/8) bytes = one word of the stream *)
Fixpoint sp_limb_mod_loop (m k : Z) (ws : list Z) (cnt : Z) : rnd_sp :=
  match ws with
  | [] => SpExhausted
  | w :: ws' =>
      if w mod 2 ^ k <? m then SpOk (w mod 2 ^ k) (cnt + 1) (rnd_ceil k 8 * (cnt + 1))
      else sp_limb_mod_loop m k ws' (cnt + 1)
  end.
Definition sp_limb_random_mod (m : Z) (ws : list Z) : rnd_sp := sp_limb_mod_loop m (rnd_bitlen m) ws 0.

(* NonZero: first block of n words that is not all zero *)
Fixpoint sp_nonzero_loop (fuel : nat) (n : nat) (ws : list Z) (cnt : Z) : rnd_sp :=
  match fuel with
  | O => SpExhausted
  | S f =>
      if (length ws <? n)%nat then SpExhausted
      else let v := eval (firstn n ws) in
           if v =? 0 then sp_nonzero_loop f n (skipn n ws) (cnt + Z.of_nat n)
           else SpOk v (cnt + Z.of_nat n) (8 * (cnt + Z.of_nat n))
  end.
Definition sp_nonzero_random (n : nat) (ws : list Z) : rnd_sp := sp_nonzero_loop (S (length ws)) n ws 0.

(* NonZero residue: repeat random_mod until the value is not zero *)
Fixpoint sp_nonzero_mod_loop (fuel : nat) (m : Z) (ws : list Z) (cnt : Z) : rnd_sp :=
  match fuel with
  | O => SpExhausted
  | S f =>
      match sp_random_mod m ws with
      | SpExhausted => SpExhausted
      | SpOk v k _ =>
          if v =? 0 then sp_nonzero_mod_loop f m (skipn (Z.to_nat k) ws) (cnt + k)
          else SpOk v (cnt + k) (8 * (cnt + k))
      end
  end.
Definition sp_nonzero_mod_random (m : Z) (ws : list Z) : rnd_sp := sp_nonzero_mod_loop (S (length ws)) m ws 0.

(* Odd: the sample with its lowest bit forced to one *)
Definition sp_force_odd (v : Z) : Z := if Z.odd v then v else v + 1.
Definition sp_odd_sample (s : rnd_sp) : rnd_sp :=
  match s with SpOk v k b => SpOk (sp_force_odd v) k b | SpExhausted => SpExhausted end.

(* ------------------------------------------------------------------ op tables *)
Open Scope string_scope. Open Scope Z_scope.

(* arguments: 0 = the words of the stream; the last scalar of every op = 1 when the RNG error is
   returned (try_* with a fallible RNG: Err 9), 0 when the infallible form is used (the replay RNG
   panics when it runs out) *)
Definition rnd_of (a : list (list Z)) : rnd_rng := Rng (arg 0 a) 0 0.
Definition rnd_exh (fallible : Z) : outcome := if fallible =? 0 then PanicV else ErrV 9.
Definition rnd_out (fallible : Z) (o : option (list Z * rnd_rng)) : outcome :=
  match o with
  | Some (v, Rng _ nw nb) => Val [v; [nw]; [nb]]
  | None => rnd_exh fallible
  end.
Definition rnd_out1 (fallible : Z) (o : option (Z * rnd_rng)) : outcome :=
  match o with
  | Some (v, Rng _ nw nb) => Val [[v]; [nw]; [nb]]
  | None => rnd_exh fallible
  end.
(* mode 0: try_* (errors returned); mode 1: the panicking wrappers (.expect);
   mode 2: report the fields of the error *)
Definition rnd_out_bits (mode : Z) (x : rnd_res) : outcome :=
  match x with
  | ROk v (Rng _ nw nb) => if mode =? 2 then Val [[0; 0; 0]] else Val [v; [nw]; [nb]]
  | RErr c f1 f2 => if mode =? 0 then ErrV c else if mode =? 1 then PanicV else Val [[c; f1; f2]]
  end.
Definition rnd_nonzero_arg (m : list Z) : bool := negb (rnd_all_zero m) && wfb m.
Definition rnd_small (x : Z) : bool := (0 <=? x) && (x <? 2 ^ 32).

Definition ops_rand_model : list (string * opfn) := [
  ("limb.random", fun _ a => rnd_out1 (sarg 1 a) (limb_random (rnd_of a)));
  ("uint.random", fun _ a => rnd_out (sarg 2 a) (uint_random (Z.to_nat (sarg 1 a)) (rnd_of a)));
  ("uint.random_bits", fun _ a =>
     rnd_out_bits (sarg 4 a) (uint_random_bits_prec (Z.to_nat (sarg 1 a)) (rnd_of a) (sarg 2 a) (sarg 3 a)));
  ("boxed.random_bits", fun _ a =>
     rnd_out_bits (sarg 3 a) (boxed_random_bits_prec (rnd_of a) (sarg 1 a) (sarg 2 a)));
  ("uint.random_mod", fun _ a =>
     if rnd_nonzero_arg (arg 1 a) then rnd_out (sarg 2 a) (uint_random_mod (arg 1 a) (rnd_of a)) else Unsupported);
  ("boxed.random_mod", fun _ a =>
     if rnd_nonzero_arg (arg 1 a) then rnd_out (sarg 2 a) (boxed_random_mod (arg 1 a) (rnd_of a)) else Unsupported);
  ("limb.random_mod", fun _ a =>
     if rnd_nonzero_arg [sarg 1 a] then rnd_out1 (sarg 2 a) (limb_random_mod (sarg 1 a) (rnd_of a)) else Unsupported);
  ("nonzero_uint.random", fun _ a =>
     if 0 <? sarg 1 a then rnd_out (sarg 2 a) (nonzero_uint_random (Z.to_nat (sarg 1 a)) (rnd_of a)) else Unsupported);
  ("nonzero_monty.random", fun _ a =>
     if rnd_nonzero_arg (arg 1 a) then rnd_out (sarg 2 a) (nonzero_mod_random (arg 1 a) (rnd_of a)) else Unsupported);
  ("odd_uint.random", fun _ a =>
     if 0 <? sarg 1 a then rnd_out (sarg 2 a) (odd_uint_random (Z.to_nat (sarg 1 a)) (rnd_of a)) else Unsupported);
  ("odd_boxed.random", fun _ a =>
     match odd_boxed_random (rnd_of a) (sarg 1 a) with
     | Some (v, Rng _ nw nb) => Val [v; [nw]; [nb]]
     | None => PanicV
     end)
].

Definition rnd_sp_out (n : nat) (fallible : Z) (s : rnd_sp) : outcome :=
  match s with
  | SpOk v k b => Val [to_limbs n v; [k]; [b]]
  | SpExhausted => rnd_exh fallible
  end.
Definition rnd_sp_out_bits (n : nat) (mode : Z) (s : rnd_sp) : outcome :=
  match s with
  | SpOk v k b => if mode =? 2 then Val [[0; 0; 0]] else Val [to_limbs n v; [k]; [b]]
  | SpExhausted => if mode =? 0 then ErrV 9 else if mode =? 1 then PanicV else Val [[9; 0; 0]]
  end.
Definition rnd_sp_err (mode c f1 f2 : Z) : outcome :=
  if mode =? 0 then ErrV c else if mode =? 1 then PanicV else Val [[c; f1; f2]].

Definition ops_rand_spec : list (string * opfn) := [
  ("limb.random", fun _ a => rnd_sp_out 1 (sarg 1 a) (sp_random 1 (arg 0 a)));
  ("uint.random", fun _ a => let n := Z.to_nat (sarg 1 a) in rnd_sp_out n (sarg 2 a) (sp_random n (arg 0 a)));
  (* documented errors: the precision must be the type's BITS; the length must fit *)
  ("uint.random_bits", fun _ a =>
     let n := Z.to_nat (sarg 1 a) in let bl := sarg 2 a in let prec := sarg 3 a in let mode := sarg 4 a in
     if negb (prec =? 64 * sarg 1 a) then rnd_sp_err mode 1 prec (64 * sarg 1 a)
     else if prec <? bl then rnd_sp_err mode 2 bl prec
     else rnd_sp_out_bits n mode (sp_random_bits (arg 0 a) bl));
  ("boxed.random_bits", fun _ a =>
     let bl := sarg 1 a in let prec := sarg 2 a in let mode := sarg 3 a in
     if prec <? bl then rnd_sp_err mode 2 bl prec
     else if rnd_small prec then rnd_sp_out_bits (sp_boxed_limbs prec) mode (sp_random_bits (arg 0 a) bl)
     else Unsupported);
  ("uint.random_mod", fun _ a =>
     if rnd_nonzero_arg (arg 1 a) then rnd_sp_out (ln 1 a) (sarg 2 a) (sp_random_mod (ev 1 a) (arg 0 a)) else Unsupported);
  ("boxed.random_mod", fun _ a =>
     if rnd_nonzero_arg (arg 1 a) then rnd_sp_out (ln 1 a) (sarg 2 a) (sp_random_mod (ev 1 a) (arg 0 a)) else Unsupported);
  ("limb.random_mod", fun _ a =>
     if rnd_nonzero_arg [sarg 1 a] then rnd_sp_out 1 (sarg 2 a) (sp_limb_random_mod (sarg 1 a) (arg 0 a)) else Unsupported);
  ("nonzero_uint.random", fun _ a =>
     let n := Z.to_nat (sarg 1 a) in
     if 0 <? sarg 1 a then rnd_sp_out n (sarg 2 a) (sp_nonzero_random n (arg 0 a)) else Unsupported);
  ("nonzero_monty.random", fun _ a =>
     if rnd_nonzero_arg (arg 1 a) then rnd_sp_out (ln 1 a) (sarg 2 a) (sp_nonzero_mod_random (ev 1 a) (arg 0 a)) else Unsupported);
  ("odd_uint.random", fun _ a =>
     let n := Z.to_nat (sarg 1 a) in
     if 0 <? sarg 1 a then rnd_sp_out n (sarg 2 a) (sp_odd_sample (sp_random n (arg 0 a))) else Unsupported);
  (* an odd value below 2^bit_length exists only for bit_length >= 1 *)
  ("odd_boxed.random", fun _ a =>
     let bl := sarg 1 a in
     if (0 <? bl) && rnd_small bl then rnd_sp_out (sp_boxed_limbs bl) 0 (sp_odd_sample (sp_random_bits (arg 0 a) bl))
     else Unsupported)
].
