(** C06: comparison, equality, zero/one/odd tests, hashing input, conditional select / assign /
    swap / negate and option-like results on Limb, Uint<N>, Int<N>, BoxedUint.
    L0 = limb-level models that follow the Rust loops; Spec = plain order / equality on Z.
    Representation of the truth values:
      ConstChoice = the word 0 / MAXW (src/const_choice.rs);  subtle::Choice = 0 / 1;
      core::cmp::Ordering as i8 = -1 / 0 / 1 inside the model, printed as 0 / 1 / 2. *)
From CB Require Export Model.Limbs Model.AddSub.
Open Scope Z_scope.

(* ---- the `subtle` crate (dependency) on u64 and Choice ---- *)
(* u64::ct_eq : x = a ^ b ; y = (x | x.wrapping_neg()) >> 63 ; Choice((y ^ 1) as u8) *)
Definition st_ct_eq (a b : Z) : Z := let x := wxor a b in wxor (wor x (wneg x) / 2 ^ 63) 1.
(* u64::conditional_select : mask = -(choice as i64) as u64 ; a ^ (mask & (a ^ b)) *)
Definition st_select (a b c : Z) : Z := select_word (wneg c) a b.
Definition ch_not (c : Z) : Z := wand 1 (wnot c).        (* !Choice = Choice(1 & !c) *)
Definition ch_and (a b : Z) : Z := wand a b.             (* Choice & Choice *)
(* ConstChoice -> Choice : (self.0 as u8) & 1 ;  Choice -> ConstChoice : from_word_lsb *)
Definition to_choice (cc : Z) : Z := wand cc 1.
Definition of_choice (c : Z) : Z := from_word_lsb c.
Definition cc_not (cc : Z) : Z := wnot cc.
Definition cc_and (a b : Z) : Z := wand a b.
Definition cc_or (a b : Z) : Z := wor a b.
Definition cc_true (cc : Z) : bool := cc =? MAXW.         (* is_true_vartime / bool::from *)
(* conditional_assign on core::cmp::Ordering (i8 select of subtle) *)
Definition ord_assign (r v c : Z) : Z := if c =? 0 then r else v.

(* ---- Limb : src/limb/cmp.rs, src/limb.rs ---- *)
Definition limb_ct_eq (x y : Z) : Z := st_ct_eq x y.
Definition limb_ct_ne (x y : Z) : Z := ch_not (st_ct_eq x y).
Definition limb_ct_lt (x y : Z) : Z := to_choice (from_word_lt x y).
Definition limb_ct_gt (x y : Z) : Z := to_choice (from_word_gt x y).
Definition limb_is_odd (x : Z) : Z := wand (x mod 2 ^ 8) 1.          (* self.0 as u8 & 1 *)
Definition limb_is_zero (x : Z) : Z := st_ct_eq x 0.                 (* Zero::is_zero = ct_eq(ZERO) *)
Definition limb_is_nonzero (x : Z) : Z := from_word_nonzero x.       (* ConstChoice *)
(* Ord::cmp ; the debug build asserts that `ret == Less` agrees with ct_lt *)
Definition limb_cmp (dbg : bool) (x y : Z) : option Z :=
  let r := ord_assign (ord_assign (-1) 0 (limb_ct_eq x y)) 1 (limb_ct_gt x y) in
  if dbg && negb (b2z (r =? -1) =? limb_ct_lt x y) then None else Some r.
Definition limb_cmp_vartime (x y : Z) : Z := if x <? y then -1 else if x =? y then 0 else 1. (* u64::cmp *)
Definition limb_eq_vartime (x y : Z) : bool := x =? y.                                       (* u64 == *)

(* ---- Uint<N> : src/uint/cmp.rs, src/uint.rs ---- *)
Definition uint_select (a b : list Z) (cc : Z) : list Z := select_limbs cc a b.   (* Uint::select(a, b, c) *)
Definition uint_is_nonzero (a : list Z) : Z := from_word_nonzero (fold_left wor a 0).
Definition uint_is_odd (a : list Z) : Z := from_word_lsb (wand (nthz a 0) 1).
Definition uint_eq (a b : list Z) : Z :=
  cc_not (from_word_nonzero (fold_left (fun acc p => wor acc (wxor (fst p) (snd p))) (combine a b) 0)).
Definition uint_lt (a b : list Z) : Z := snd (sbb_limbs a b 0).     (* from_word_mask(borrow) *)
Definition uint_gt (a b : list Z) : Z := snd (sbb_limbs b a 0).
Definition uint_lte (a b : list Z) : Z := cc_not (uint_gt a b).
Fixpoint cmp_loop (a b : list Z) (borrow diff : Z) : Z * Z :=
  match a, b with
  | x :: a', y :: b' => let '(w, bo) := sbb y x borrow in cmp_loop a' b' bo (wor diff w)
  | _, _ => (diff, borrow)
  end.
(* sgn = ((borrow & 2) as i8) - 1 ; (diff.is_nonzero().to_u8() as i8) * sgn *)
Definition uint_cmp (a b : list Z) : Z :=
  let '(diff, borrow) := cmp_loop a b 0 0 in
  to_choice (from_word_nonzero diff) * (wand borrow 2 - 1).
(* cmp_vartime walks from the most significant limb down *)
Fixpoint cmp_vartime_rev (ra rb : list Z) : Z :=
  match ra, rb with
  | x :: ra', y :: rb' =>
      let '(v, bo) := sbb x y 0 in
      if v =? 0 then cmp_vartime_rev ra' rb' else if bo =? 0 then 1 else -1
  | _, _ => 0
  end.
Definition uint_cmp_vartime (a b : list Z) : Z := cmp_vartime_rev (rev a) (rev b).
Definition one_limbs (n : nat) : list Z := match n with O => [] | S k => 1 :: zeros k end.
(* subtle: ConditionallySelectable for Uint = limb-wise u64 select ; assign / swap are the trait defaults *)
Definition ct_select_limbs (a b : list Z) (c : Z) : list Z :=
  map (fun p => st_select (fst p) (snd p) c) (combine a b).
Definition ct_swap_limbs (a b : list Z) (c : Z) : list Z * list Z :=
  let t := a in let a' := ct_select_limbs a b c in (a', ct_select_limbs b t c).
Definition uint_ct_eq (a b : list Z) : Z := to_choice (uint_eq a b).
Definition uint_is_zero (a : list Z) : Z := uint_ct_eq a (zeros (length a)).      (* Zero::is_zero *)
Definition uint_is_one (a : list Z) : Z := uint_ct_eq a (one_limbs (length a)).   (* num_traits::One *)
Definition integer_is_odd (a : list Z) : Z := match a with [] => 0 | x :: _ => limb_is_odd x end.
Definition uint_neg_if (a : list Z) (cc : Z) : list Z := uint_select a (uint_wrapping_neg a) cc.

(* ---- Int<N> : src/int/cmp.rs, src/int/sign.rs, src/int.rs ---- *)
Definition sign_mask (n : nat) : list Z := match n with O => [] | S k => (zeros k ++ [2 ^ 63])%list end. (* Int::MIN *)
Definition int_max (n : nat) : list Z := match n with O => [] | S k => (maxs k ++ [2 ^ 63 - 1])%list end. (* Int::MAX *)
Definition xor_limbs (a b : list Z) : list Z := map (fun p => wxor (fst p) (snd p)) (combine a b).
Definition int_invert_msb (a : list Z) : list Z := xor_limbs a (sign_mask (length a)).
Definition int_lt (a b : list Z) : Z := uint_lt (int_invert_msb a) (int_invert_msb b).
Definition int_gt (a b : list Z) : Z := uint_gt (int_invert_msb a) (int_invert_msb b).
Definition int_cmp (a b : list Z) : Z := uint_cmp (int_invert_msb a) (int_invert_msb b).
Definition int_cmp_vartime (a b : list Z) : Z := uint_cmp_vartime (int_invert_msb a) (int_invert_msb b).
Definition int_is_negative (a : list Z) : Z := from_word_msb (last a 0).
Definition int_is_positive (a : list Z) : Z := cc_and (cc_not (int_is_negative a)) (uint_is_nonzero a).
Definition int_is_min (a : list Z) : Z := uint_eq a (sign_mask (length a)).
Definition int_is_max (a : list Z) : Z := uint_eq a (int_max (length a)).
(* abs_sign : sign = is_negative ; (self.wrapping_neg_if(sign).0, sign) *)
Definition int_abs_sign (a : list Z) : list Z * Z :=
  let sign := int_is_negative a in (uint_neg_if a sign, sign).
(* new_from_abs_sign : (Self(abs).wrapping_neg_if(neg), lte(abs, MAX) | (neg & eq(abs, MIN))) *)
Definition int_new_from_abs_sign (ab : list Z) (neg : Z) : list Z * Z :=
  (uint_neg_if ab neg,
   cc_or (uint_lte ab (int_max (length ab))) (cc_and neg (uint_eq ab (sign_mask (length ab))))).

(* ---- BoxedUint : src/uint/boxed/cmp.rs, ct.rs, boxed.rs ---- *)
Definition boxed_ct_eq (a b : list Z) : Z :=
  let n := Nat.max (length a) (length b) in
  fold_left (fun r p => ch_and r (limb_ct_eq (fst p) (snd p))) (combine (resize n a) (resize n b)) 1.
Definition boxed_ct_gt (a b : list Z) : Z := to_choice (snd (boxed_sbb b a 0)).
Definition boxed_ct_lt (a b : list Z) : Z := to_choice (snd (boxed_sbb a b 0)).
(* Ord::cmp ; the debug build asserts self == other when the result is Equal *)
Definition boxed_cmp (dbg : bool) (a b : list Z) : option Z :=
  let r := ord_assign (ord_assign 0 1 (boxed_ct_gt a b)) (-1) (boxed_ct_lt a b) in
  if dbg && (r =? 0) && (boxed_ct_eq a b =? 0) then None else Some r.
(* cmp_vartime: walks i from max(len) - 1 down to 0 over the zero-padded operands; Equal when no limb differs
   (also for two zero-limb operands) *)
Definition boxed_cmp_vartime (a b : list Z) : Z :=
  let n := Nat.max (length a) (length b) in
  cmp_vartime_rev (rev (resize n a)) (rev (resize n b)).
Definition boxed_is_zero (a : list Z) : Z := fold_left (fun acc x => ch_and acc (limb_is_zero x)) a 1.
Definition boxed_is_nonzero (a : list Z) : Z := ch_not (boxed_is_zero a).
Definition boxed_is_one (a : list Z) : Z :=
  match a with
  | [] => limb_ct_eq 0 1
  | x :: r => fold_left (fun acc y => ch_and acc (limb_is_zero y)) r (limb_ct_eq x 1)
  end.
(* ct_select / ct_assign / ct_swap: debug_assert equal precision; loop over the limbs of the first operand *)
Definition boxed_guard {A} (dbg : bool) (a b : list Z) (k : A) : option A :=
  if dbg && negb (Nat.eqb (length a) (length b)) then None
  else if (length b <? length a)%nat then None else Some k.
Definition boxed_ct_select (dbg : bool) (a b : list Z) (c : Z) : option (list Z) :=
  boxed_guard dbg a b (ct_select_limbs a b c).
(* ct_swap: Limb::conditional_swap on the first a.nlimbs() positions; further limbs of b are untouched *)
Definition boxed_ct_swap (dbg : bool) (a b : list Z) (c : Z) : option (list Z * list Z) :=
  boxed_guard dbg a b
    (let '(a', b') := ct_swap_limbs a (firstn (length a) b) c in (a', (b' ++ skipn (length a) b)%list)).
Definition boxed_conditional_negate (a : list Z) (c : Z) : list Z :=
  ct_select_limbs a (uint_wrapping_neg a) c.
(* derived Hash on [Limb; N] / hash of a limb slice: the length, then every limb, is fed to the hasher *)
Definition hash_input (a : list Z) : list Z := lenZ a :: a.
(* manual Hash for BoxedUint: len = rposition(limb != 0) + 1 (or 0); self.limbs[..len].hash(state) *)
Fixpoint drop_zeros (ra : list Z) : list Z :=      (* ra = limbs from the most significant one down *)
  match ra with x :: r => if x =? 0 then drop_zeros r else ra | [] => [] end.
Definition boxed_hash_limbs (a : list Z) : list Z := rev (drop_zeros (rev a)).   (* = limbs[..len] *)
Definition boxed_hash_input (a : list Z) : list Z := hash_input (boxed_hash_limbs a).

(* ---- Spec ---- *)
Definition ordz (x y : Z) : Z := if x <? y then -1 else if x =? y then 0 else 1.
Definition spec_select (c : bool) (a b : list Z) : list Z := if c then b else a.

(* ================= op tables ================= *)
Open Scope string_scope. Open Scope Z_scope.

Definition vb (c : Z) : outcome := Val [[c]].                 (* a Choice 0/1 *)
Definition vcc (cc : Z) : outcome := Val [vbool (cc_true cc)]. (* a ConstChoice, observed through bool::from *)
Definition vord (r : Z) : outcome := Val [[r + 1]].
Definition vordo (r : option Z) : outcome := match r with Some x => vord x | None => PanicV end.
Definition vrel (f : Z -> bool) (r : option Z) : outcome :=
  match r with Some x => Val [vbool (f x)] | None => PanicV end.
Definition is_lt (r : Z) := r =? -1.
Definition is_le (r : Z) := negb (r =? 1).
Definition is_gt (r : Z) := r =? 1.
Definition is_ge (r : Z) := negb (r =? -1).
(* option-like results: [is_some] [is_none] [value if some, else empty] *)
Definition vctopt (some : bool) (v : list Z) : outcome :=
  Val [vbool some; vbool (negb some); if some then v else []].
Definition carg (i : nat) (a : list (list Z)) : Z := b2z (negb (sarg i a =? 0)).        (* Choice *)
Definition ccarg (i : nat) (a : list (list Z)) : Z := choice_of_bool (negb (sarg i a =? 0)). (* ConstChoice *)
Definition cbit (i : nat) (a : list (list Z)) : bool := negb (sarg i a =? 0).
Definition vopt2 (o : option (list Z * list Z)) : outcome :=
  match o with Some (x, y) => Val [x; y] | None => PanicV end.
(* hash coherence: [a == b] [a == b implies equal hasher input] *)
Definition vhash_in (eq : bool) (ha hb : list Z) : outcome :=
  Val [vbool eq; vbool (negb eq || list_eqb ha hb)].
Definition vhash (eq : bool) (a b : list Z) : outcome := vhash_in eq (hash_input a) (hash_input b).

Definition ops_cmp_model : list (string * opfn) := [
  (* Limb *)
  ("limb.ct_eq", fun _ a => vb (limb_ct_eq (sarg 0 a) (sarg 1 a)));
  ("limb.ct_ne", fun _ a => vb (limb_ct_ne (sarg 0 a) (sarg 1 a)));
  ("limb.eq_vartime", fun _ a => Val [vbool (limb_eq_vartime (sarg 0 a) (sarg 1 a))]);
  ("limb.ct_lt", fun _ a => vb (limb_ct_lt (sarg 0 a) (sarg 1 a)));
  ("limb.ct_gt", fun _ a => vb (limb_ct_gt (sarg 0 a) (sarg 1 a)));
  ("limb.cmp", fun dbg a => vordo (limb_cmp dbg (sarg 0 a) (sarg 1 a)));
  ("limb.lt", fun dbg a => vrel is_lt (limb_cmp dbg (sarg 0 a) (sarg 1 a)));
  ("limb.le", fun dbg a => vrel is_le (limb_cmp dbg (sarg 0 a) (sarg 1 a)));
  ("limb.gt", fun dbg a => vrel is_gt (limb_cmp dbg (sarg 0 a) (sarg 1 a)));
  ("limb.ge", fun dbg a => vrel is_ge (limb_cmp dbg (sarg 0 a) (sarg 1 a)));
  ("limb.cmp_vartime", fun _ a => vord (limb_cmp_vartime (sarg 0 a) (sarg 1 a)));
  ("limb.is_zero", fun _ a => vb (limb_is_zero (sarg 0 a)));
  ("limb.is_one", fun _ a => vb (limb_ct_eq (sarg 0 a) 1));
  ("limb.is_odd", fun _ a => vb (limb_is_odd (sarg 0 a)));
  ("limb.to_nz", fun _ a => vctopt (cc_true (limb_is_nonzero (sarg 0 a))) (arg 0 a));
  ("limb.nz_new_unwrap", fun _ a => if cc_true (limb_is_nonzero (sarg 0 a)) then Val [arg 0 a] else PanicV);
  ("limb.select", fun _ a => Val [[st_select (sarg 0 a) (sarg 1 a) (carg 2 a)]]);
  ("limb.swap", fun _ a => let '(x, y) := ct_swap_limbs (arg 0 a) (arg 1 a) (carg 2 a) in Val [x; y]);
  ("limb.conditional_negate", fun _ a => Val [[st_select (sarg 0 a) (wneg (sarg 0 a)) (carg 1 a)]]);
  ("limb.hash", fun _ a => vhash (negb (limb_ct_eq (sarg 0 a) (sarg 1 a) =? 0)) (arg 0 a) (arg 1 a));
  (* Uint<N> *)
  ("uint.ct_eq", fun _ a => vb (uint_ct_eq (arg 0 a) (arg 1 a)));
  ("uint.ct_lt", fun _ a => vb (to_choice (uint_lt (arg 0 a) (arg 1 a))));
  ("uint.ct_gt", fun _ a => vb (to_choice (uint_gt (arg 0 a) (arg 1 a))));
  ("uint.cmp", fun _ a => vord (uint_cmp (arg 0 a) (arg 1 a)));
  ("uint.lt", fun _ a => Val [vbool (is_lt (uint_cmp (arg 0 a) (arg 1 a)))]);
  ("uint.le", fun _ a => Val [vbool (is_le (uint_cmp (arg 0 a) (arg 1 a)))]);
  ("uint.gt", fun _ a => Val [vbool (is_gt (uint_cmp (arg 0 a) (arg 1 a)))]);
  ("uint.ge", fun _ a => Val [vbool (is_ge (uint_cmp (arg 0 a) (arg 1 a)))]);
  ("uint.cmp_vartime", fun _ a => vord (uint_cmp_vartime (arg 0 a) (arg 1 a)));
  ("uint.is_zero", fun _ a => vb (uint_is_zero (arg 0 a)));
  ("uint.is_one", fun _ a => vb (uint_is_one (arg 0 a)));
  ("uint.is_odd", fun _ a => vb (integer_is_odd (arg 0 a)));
  ("uint.is_even", fun _ a => vb (ch_not (integer_is_odd (arg 0 a))));
  ("uint.to_nz", fun _ a => vctopt (cc_true (uint_is_nonzero (arg 0 a))) (arg 0 a));
  ("uint.to_odd", fun _ a => vctopt (cc_true (uint_is_odd (arg 0 a))) (arg 0 a));
  ("uint.nz_new", fun _ a => vctopt (negb (ch_not (uint_is_zero (arg 0 a)) =? 0)) (arg 0 a));
  ("uint.odd_new", fun _ a => vctopt (negb (integer_is_odd (arg 0 a) =? 0)) (arg 0 a));
  ("uint.select", fun _ a => Val [ct_select_limbs (arg 0 a) (arg 1 a) (carg 2 a)]);
  ("uint.swap", fun _ a => let '(x, y) := ct_swap_limbs (arg 0 a) (arg 1 a) (carg 2 a) in Val [x; y]);
  ("uint.neg_if", fun _ a => Val [uint_neg_if (arg 0 a) (ccarg 1 a)]);
  ("uint.conditional_negate", fun _ a => Val [ct_select_limbs (arg 0 a) (uint_wrapping_neg (arg 0 a)) (carg 1 a)]);
  ("uint.hash", fun _ a => vhash (negb (uint_ct_eq (arg 0 a) (arg 1 a) =? 0)) (arg 0 a) (arg 1 a));
  (* ConstCtOption<Uint>: value x, is_some = flag ; unwrap_or(def) = Uint::select(def, value, is_some) *)
  ("uint.ctopt", fun _ a =>
     let v := if cbit 2 a then arg 0 a else zeros (ln 0 a) in
     Val [vbool (cbit 2 a); vbool (negb (cbit 2 a)); uint_select (arg 1 a) v (ccarg 2 a);
          if cbit 2 a then v else []]);
  (* unwrap / expect: the value, or a panic when none *)
  ("uint.ctopt_expect", fun _ a => if cc_true (ccarg 1 a) then Val [arg 0 a] else PanicV);
  (* Int<N> *)
  ("int.ct_eq", fun _ a => vb (to_choice (uint_eq (arg 0 a) (arg 1 a))));
  ("int.ct_lt", fun _ a => vb (to_choice (int_lt (arg 0 a) (arg 1 a))));
  ("int.ct_gt", fun _ a => vb (to_choice (int_gt (arg 0 a) (arg 1 a))));
  ("int.cmp", fun _ a => vord (int_cmp (arg 0 a) (arg 1 a)));
  ("int.lt", fun _ a => Val [vbool (is_lt (int_cmp (arg 0 a) (arg 1 a)))]);
  ("int.le", fun _ a => Val [vbool (is_le (int_cmp (arg 0 a) (arg 1 a)))]);
  ("int.gt", fun _ a => Val [vbool (is_gt (int_cmp (arg 0 a) (arg 1 a)))]);
  ("int.ge", fun _ a => Val [vbool (is_ge (int_cmp (arg 0 a) (arg 1 a)))]);
  ("int.cmp_vartime", fun _ a => vord (int_cmp_vartime (arg 0 a) (arg 1 a)));
  ("int.is_zero", fun _ a => vb (uint_is_zero (arg 0 a)));
  ("int.is_one", fun _ a => vb (uint_is_one (arg 0 a)));
  ("int.is_negative", fun _ a => vcc (int_is_negative (arg 0 a)));
  ("int.is_positive", fun _ a => vcc (int_is_positive (arg 0 a)));
  ("int.is_min", fun _ a => vcc (int_is_min (arg 0 a)));
  ("int.is_max", fun _ a => vcc (int_is_max (arg 0 a)));
  ("int.to_nz", fun _ a => vctopt (cc_true (uint_is_nonzero (arg 0 a))) (arg 0 a));
  ("int.to_odd", fun _ a => vctopt (cc_true (uint_is_odd (arg 0 a))) (arg 0 a));
  ("int.select", fun _ a => Val [ct_select_limbs (arg 0 a) (arg 1 a) (carg 2 a)]);
  ("int.swap", fun _ a => let '(x, y) := ct_swap_limbs (arg 0 a) (arg 1 a) (carg 2 a) in Val [x; y]);
  ("int.neg_if", fun _ a => Val [uint_neg_if (arg 0 a) (ccarg 1 a)]);
  ("int.hash", fun _ a => vhash (negb (uint_ct_eq (arg 0 a) (arg 1 a) =? 0)) (arg 0 a) (arg 1 a));
  ("int.abs_sign", fun _ a => let '(m, sg) := int_abs_sign (arg 0 a) in Val [m; vbool (cc_true sg)]);
  (* new_from_abs_sign(abs, neg) then is_some / is_none / unwrap_or(def) / Option *)
  ("int.new_from_abs_sign", fun _ a =>
     let '(v, fits) := int_new_from_abs_sign (arg 0 a) (ccarg 1 a) in
     Val [vbool (cc_true fits); vbool (cc_true (cc_not fits)); uint_select (arg 2 a) v fits;
          if cc_true fits then v else []]);
  ("int.new_from_abs_sign_expect", fun _ a =>
     let '(v, fits) := int_new_from_abs_sign (arg 0 a) (ccarg 1 a) in if cc_true fits then Val [v] else PanicV);
  (* BoxedUint *)
  ("boxed.ct_eq", fun _ a => vb (boxed_ct_eq (arg 0 a) (arg 1 a)));
  ("boxed.ct_lt", fun _ a => vb (boxed_ct_lt (arg 0 a) (arg 1 a)));
  ("boxed.ct_gt", fun _ a => vb (boxed_ct_gt (arg 0 a) (arg 1 a)));
  ("boxed.cmp", fun dbg a => vordo (boxed_cmp dbg (arg 0 a) (arg 1 a)));
  ("boxed.lt", fun dbg a => vrel is_lt (boxed_cmp dbg (arg 0 a) (arg 1 a)));
  ("boxed.le", fun dbg a => vrel is_le (boxed_cmp dbg (arg 0 a) (arg 1 a)));
  ("boxed.gt", fun dbg a => vrel is_gt (boxed_cmp dbg (arg 0 a) (arg 1 a)));
  ("boxed.ge", fun dbg a => vrel is_ge (boxed_cmp dbg (arg 0 a) (arg 1 a)));
  ("boxed.cmp_vartime", fun _ a => vord (boxed_cmp_vartime (arg 0 a) (arg 1 a)));
  ("boxed.is_zero", fun _ a => vb (boxed_is_zero (arg 0 a)));
  ("boxed.is_nonzero", fun _ a => vb (boxed_is_nonzero (arg 0 a)));
  ("boxed.is_one", fun _ a => vb (boxed_is_one (arg 0 a)));
  ("boxed.is_odd", fun _ a => vb (integer_is_odd (arg 0 a)));
  ("boxed.is_even", fun _ a => vb (ch_not (integer_is_odd (arg 0 a))));
  ("boxed.to_odd", fun _ a => vctopt (negb (integer_is_odd (arg 0 a) =? 0)) (arg 0 a));
  ("boxed.nz_new", fun _ a => vctopt (negb (ch_not (boxed_is_zero (arg 0 a)) =? 0)) (arg 0 a));
  ("boxed.select", fun dbg a => vpanic_none (boxed_ct_select dbg (arg 0 a) (arg 1 a) (carg 2 a)));
  ("boxed.swap", fun dbg a => vopt2 (boxed_ct_swap dbg (arg 0 a) (arg 1 a) (carg 2 a)));
  ("boxed.conditional_negate", fun _ a => Val [boxed_conditional_negate (arg 0 a) (carg 1 a)]);
  ("boxed.hash", fun _ a => vhash_in (negb (boxed_ct_eq (arg 0 a) (arg 1 a) =? 0))
                               (boxed_hash_input (arg 0 a)) (boxed_hash_input (arg 1 a)))
].

(* ---- Spec table: the same ops on the represented integers ---- *)
Definition sp_bool (b : bool) : outcome := Val [vbool b].
Definition sev (i : nat) (a : list (list Z)) : Z := seval (arg i a).
Definition sp_ord (x y : Z) : outcome := vord (ordz x y).
Definition sp_opt (some : bool) (v : list Z) : outcome := vctopt some v.
Definition sp_hash (x y : Z) : outcome := Val [vbool (x =? y); [1]].
Definition half (n : nat) : Z := Bn n / 2.                      (* 2^(64 n - 1) *)
Definition sp_sel (a : list (list Z)) : outcome := Val [spec_select (cbit 2 a) (arg 0 a) (arg 1 a)].
Definition sp_swap (a : list (list Z)) : outcome :=
  Val [spec_select (cbit 2 a) (arg 0 a) (arg 1 a); spec_select (cbit 2 a) (arg 1 a) (arg 0 a)].
Definition sp_neg_if (i : nat) (a : list (list Z)) : outcome :=
  sp_wrapping (ln 0 a) (if cbit i a then - ev 0 a else ev 0 a).

Definition ops_cmp_spec : list (string * opfn) := [
  ("limb.ct_eq", fun _ a => sp_bool (ev 0 a =? ev 1 a));
  ("limb.ct_ne", fun _ a => sp_bool (negb (ev 0 a =? ev 1 a)));
  ("limb.eq_vartime", fun _ a => sp_bool (ev 0 a =? ev 1 a));
  ("limb.ct_lt", fun _ a => sp_bool (ev 0 a <? ev 1 a));
  ("limb.ct_gt", fun _ a => sp_bool (ev 1 a <? ev 0 a));
  ("limb.cmp", fun _ a => sp_ord (ev 0 a) (ev 1 a));
  ("limb.lt", fun _ a => sp_bool (ev 0 a <? ev 1 a));
  ("limb.le", fun _ a => sp_bool (ev 0 a <=? ev 1 a));
  ("limb.gt", fun _ a => sp_bool (ev 1 a <? ev 0 a));
  ("limb.ge", fun _ a => sp_bool (ev 1 a <=? ev 0 a));
  ("limb.cmp_vartime", fun _ a => sp_ord (ev 0 a) (ev 1 a));
  ("limb.is_zero", fun _ a => sp_bool (ev 0 a =? 0));
  ("limb.is_one", fun _ a => sp_bool (ev 0 a =? 1));
  ("limb.is_odd", fun _ a => sp_bool (Z.odd (ev 0 a)));
  ("limb.to_nz", fun _ a => sp_opt (negb (ev 0 a =? 0)) (arg 0 a));
  ("limb.nz_new_unwrap", fun _ a => if ev 0 a =? 0 then PanicV else Val [arg 0 a]);
  ("limb.select", fun _ a => sp_sel a);
  ("limb.swap", fun _ a => sp_swap a);
  ("limb.conditional_negate", fun _ a => sp_neg_if 1 a);
  ("limb.hash", fun _ a => sp_hash (ev 0 a) (ev 1 a));
  ("uint.ct_eq", fun _ a => sp_bool (ev 0 a =? ev 1 a));
  ("uint.ct_lt", fun _ a => sp_bool (ev 0 a <? ev 1 a));
  ("uint.ct_gt", fun _ a => sp_bool (ev 1 a <? ev 0 a));
  ("uint.cmp", fun _ a => sp_ord (ev 0 a) (ev 1 a));
  ("uint.lt", fun _ a => sp_bool (ev 0 a <? ev 1 a));
  ("uint.le", fun _ a => sp_bool (ev 0 a <=? ev 1 a));
  ("uint.gt", fun _ a => sp_bool (ev 1 a <? ev 0 a));
  ("uint.ge", fun _ a => sp_bool (ev 1 a <=? ev 0 a));
  ("uint.cmp_vartime", fun _ a => sp_ord (ev 0 a) (ev 1 a));
  ("uint.is_zero", fun _ a => sp_bool (ev 0 a =? 0));
  ("uint.is_one", fun _ a => sp_bool (ev 0 a =? 1));
  ("uint.is_odd", fun _ a => sp_bool (Z.odd (ev 0 a)));
  ("uint.is_even", fun _ a => sp_bool (Z.even (ev 0 a)));
  ("uint.to_nz", fun _ a => sp_opt (negb (ev 0 a =? 0)) (arg 0 a));
  ("uint.to_odd", fun _ a => sp_opt (Z.odd (ev 0 a)) (arg 0 a));
  ("uint.nz_new", fun _ a => sp_opt (negb (ev 0 a =? 0)) (arg 0 a));
  ("uint.odd_new", fun _ a => sp_opt (Z.odd (ev 0 a)) (arg 0 a));
  ("uint.select", fun _ a => sp_sel a);
  ("uint.swap", fun _ a => sp_swap a);
  ("uint.neg_if", fun _ a => sp_neg_if 1 a);
  ("uint.conditional_negate", fun _ a => sp_neg_if 1 a);
  ("uint.hash", fun _ a => sp_hash (ev 0 a) (ev 1 a));
  (* Some(x) -> x ; None -> def *)
  ("uint.ctopt", fun _ a =>
     Val [vbool (cbit 2 a); vbool (negb (cbit 2 a)); if cbit 2 a then arg 0 a else arg 1 a;
          if cbit 2 a then arg 0 a else []]);
  ("uint.ctopt_expect", fun _ a => if cbit 1 a then Val [arg 0 a] else PanicV);
  ("int.ct_eq", fun _ a => sp_bool (sev 0 a =? sev 1 a));
  ("int.ct_lt", fun _ a => sp_bool (sev 0 a <? sev 1 a));
  ("int.ct_gt", fun _ a => sp_bool (sev 1 a <? sev 0 a));
  ("int.cmp", fun _ a => sp_ord (sev 0 a) (sev 1 a));
  ("int.lt", fun _ a => sp_bool (sev 0 a <? sev 1 a));
  ("int.le", fun _ a => sp_bool (sev 0 a <=? sev 1 a));
  ("int.gt", fun _ a => sp_bool (sev 1 a <? sev 0 a));
  ("int.ge", fun _ a => sp_bool (sev 1 a <=? sev 0 a));
  ("int.cmp_vartime", fun _ a => sp_ord (sev 0 a) (sev 1 a));
  ("int.is_zero", fun _ a => sp_bool (sev 0 a =? 0));
  ("int.is_one", fun _ a => sp_bool (sev 0 a =? 1));
  ("int.is_negative", fun _ a => sp_bool (sev 0 a <? 0));
  ("int.is_positive", fun _ a => sp_bool (0 <? sev 0 a));
  ("int.is_min", fun _ a => sp_bool (sev 0 a =? - half (ln 0 a)));
  ("int.is_max", fun _ a => sp_bool (sev 0 a =? half (ln 0 a) - 1));
  ("int.to_nz", fun _ a => sp_opt (negb (sev 0 a =? 0)) (arg 0 a));
  ("int.to_odd", fun _ a => sp_opt (Z.odd (sev 0 a)) (arg 0 a));
  ("int.select", fun _ a => sp_sel a);
  ("int.swap", fun _ a => sp_swap a);
  ("int.neg_if", fun _ a => sp_val (ln 0 a) ((if cbit 1 a then - sev 0 a else sev 0 a) mod Bn (ln 0 a)));
  ("int.hash", fun _ a => sp_hash (sev 0 a) (sev 1 a));
  ("int.abs_sign", fun _ a => Val [to_limbs (ln 0 a) (Z.abs (sev 0 a)); vbool (sev 0 a <? 0)]);
  (* Some(+-abs) exactly when the signed value fits [-2^(BITS-1), 2^(BITS-1)) *)
  ("int.new_from_abs_sign", fun _ a =>
     let n := ln 0 a in
     let v := if cbit 1 a then - ev 0 a else ev 0 a in
     let fits := (- half n <=? v) && (v <? half n) in
     let enc := to_limbs n (v mod Bn n) in
     Val [vbool fits; vbool (negb fits); if fits then enc else arg 2 a; if fits then enc else []]);
  ("int.new_from_abs_sign_expect", fun _ a =>
     let n := ln 0 a in
     let v := if cbit 1 a then - ev 0 a else ev 0 a in
     if (- half n <=? v) && (v <? half n) then Val [to_limbs n (v mod Bn n)] else PanicV);
  (* BoxedUint: operands of different precision are compared by value *)
  ("boxed.ct_eq", fun _ a => sp_bool (ev 0 a =? ev 1 a));
  ("boxed.ct_lt", fun _ a => sp_bool (ev 0 a <? ev 1 a));
  ("boxed.ct_gt", fun _ a => sp_bool (ev 1 a <? ev 0 a));
  ("boxed.cmp", fun _ a => sp_ord (ev 0 a) (ev 1 a));
  ("boxed.lt", fun _ a => sp_bool (ev 0 a <? ev 1 a));
  ("boxed.le", fun _ a => sp_bool (ev 0 a <=? ev 1 a));
  ("boxed.gt", fun _ a => sp_bool (ev 1 a <? ev 0 a));
  ("boxed.ge", fun _ a => sp_bool (ev 1 a <=? ev 0 a));
  ("boxed.cmp_vartime", fun _ a => sp_ord (ev 0 a) (ev 1 a));
  ("boxed.is_zero", fun _ a => sp_bool (ev 0 a =? 0));
  ("boxed.is_nonzero", fun _ a => sp_bool (negb (ev 0 a =? 0)));
  ("boxed.is_one", fun _ a => sp_bool (ev 0 a =? 1));
  ("boxed.is_odd", fun _ a => sp_bool (Z.odd (ev 0 a)));
  ("boxed.is_even", fun _ a => sp_bool (Z.even (ev 0 a)));
  ("boxed.to_odd", fun _ a => sp_opt (Z.odd (ev 0 a)) (arg 0 a));
  ("boxed.nz_new", fun _ a => sp_opt (negb (ev 0 a =? 0)) (arg 0 a));
  ("boxed.select", fun _ a => sp_sel a);
  ("boxed.swap", fun _ a => sp_swap a);
  ("boxed.conditional_negate", fun _ a => sp_neg_if 1 a);
  ("boxed.hash", fun _ a => sp_hash (ev 0 a) (ev 1 a))
].
