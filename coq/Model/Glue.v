(** C15 (continued): the GLUE of the crate that has no model op in the other areas -- constants handed out by trait
    fronts (num_traits Zero / One, Integer::one / one_like / from_limb_like / nlimbs, Zero::zero_like / set_zero,
    BitOps::bytes_precision, Default impls, BoxedUint::max), Reciprocal::default / conditional_select, the
    `ConstCtOption<(Uint, Uint)>::expect` front of the double-width shifts, `ConstChoice == ConstChoice`, serde of
    `Checked<T>`, the Octal front of the wrappers, the blanket `Pow` / `MultiExponentiate` impls and the Display texts
    of DecodeError / RandomBitsError.
    Model entry = what the Rust code does (limb level); spec entry = the documented result in plain Z / list terms.
    Reused, not re-modelled: Model/Cmp.v (one_limbs, st_select), Model/Conv.v (serde of Uint, zero_with_precision),
    Model/Bits.v (double-width shifts), Model/Div.v (Reciprocal::new). *)
From CB Require Export Model.Limbs.
From CB Require Import Model.AddSub Model.Cmp Model.Conv Model.Bits Model.Div.
Open Scope Z_scope. Open Scope list_scope.

(* ------------------------------------------------------------------ constants *)
(* Uint::from(limb) / BoxedUint::from_limb_like: limbs[0] = limb on the zero value of that width *)
Definition g_from_limb (n : nat) (l : Z) : list Z := match n with O => [] | S k => l :: zeros k end.
(* BoxedUint::max: vec![Limb::MAX; limbs_for_precision(bits).max(1)].into()  (the `.max(1)`: repair of finding F33) *)
Definition g_max_boxed (bits : Z) : list Z := vec_into_boxed (maxs (Nat.max (limbs_for_precision bits) 1)).
(* a limb count passed as a scalar *)
Definition g_n (i : nat) (a : list (list Z)) : nat := Z.to_nat (sarg i a).
Definition g_len (i : nat) (a : list (list Z)) : nat := length (arg i a).

(* ------------------------------------------------------------------ Reciprocal *)
(* divisor 0 stands for Reciprocal::default() = { divisor_normalized: Word::MAX, shift: 0, reciprocal: 1 } *)
Definition g_recip (d : Z) : recip := if d =? 0 then {| r_d := MAXW; r_shift := 0; r_v := 1 |} else recip_new d.
Definition g_recip_fields (r : recip) : list (list Z) := [[r_d r]; [r_shift r]; [r_v r]].
(* ConditionallySelectable for Reciprocal: Word / u32 / Word ::conditional_select field by field *)
Definition g_recip_select (r1 r2 : recip) (c : Z) : recip :=
  {| r_d := st_select (r_d r1) (r_d r2) c; r_shift := st_select (r_shift r1) (r_shift r2) c;
     r_v := st_select (r_v r1) (r_v r2) c |}.

(* ------------------------------------------------------------------ ConstCtOption::expect on the wide shifts *)
Definition g_expect (o : outcome) : outcome := match o with NoneV => PanicV | o => o end.

(* ------------------------------------------------------------------ texts *)
Fixpoint bytes_of (s : string) : list Z :=
  match s with EmptyString => [] | String c r => Z.of_N (Ascii.N_of_ascii c) :: bytes_of r end.
(* positional digits (no leading zeros, "0" for zero), as core's integer formatting prints them *)
Fixpoint g_digits_rev (fuel : nat) (b x : Z) : list Z :=
  match fuel with
  | O => []
  | S f => (48 + x mod b) :: (if x / b =? 0 then [] else g_digits_rev f b (x / b))
  end.
Definition g_dec (x : Z) : list Z := rev (g_digits_rev 20 10 x).
Definition g_oct (x : Z) : list Z := rev (g_digits_rev 22 8 x).

(* impl Display for DecodeError (src/traits.rs) *)
Definition g_decode_error_text (code : Z) : option (list Z) :=
  if code =? 0 then Some (bytes_of "empty value provided"%string)
  else if code =? 1 then Some (bytes_of "invalid digit character"%string)
  else if code =? 2 then Some (bytes_of "input size is too small to fit in the given precision"%string)
  else if code =? 3 then Some (bytes_of "the deserialized number is larger than the given precision"%string)
  else None.
(* impl Display for RandomBitsError<T> (src/traits.rs): variant 0 prints the inner error *)
Definition g_random_bits_error_text (variant x y : Z) (inner : list Z) : option (list Z) :=
  if variant =? 0 then Some inner
  else if variant =? 1 then
    Some (bytes_of "The requested `bits_precision` ("%string ++ g_dec x ++
          bytes_of ") does not match the size of the integer corresponding to the type ("%string ++ g_dec y ++ bytes_of ")"%string)
  else if variant =? 2 then
    Some (bytes_of "The requested `bit_length` ("%string ++ g_dec x ++ bytes_of ") is larger than `bits_precision` ("%string ++
          g_dec y ++ bytes_of ")."%string)
  else None.
Definition vtext (o : option (list Z)) : outcome := match o with Some t => Val [t] | None => Unsupported end.

(* ------------------------------------------------------------------ serde of Checked<T> (bincode):
   Serialize = Option::<T>::from(self.0).serialize: tag byte 0 | tag byte 1 then the value;
   Deserialize = Option::<T>::deserialize, then CtOption::new(value.unwrap_or_default(), is_some) *)
Definition g_checked_ser (body : list Z) (is_some : Z) : list Z := if is_some =? 0 then [0] else 1 :: body.
Definition g_checked_de (inner : list Z -> outcome) (bs : list Z) : outcome :=
  match bs with
  | [] => ErrV 0
  | t :: rest => if t =? 0 then NoneV else if t =? 1 then inner rest else ErrV 0
  end.
(* Limb = Word::deserialize: 8 little-endian bytes (trailing bytes are ignored) *)
Definition g_limb_de (bs : list Z) : outcome :=
  if Nat.ltb (length bs) 8 then ErrV 0 else Val [[word_from_le_bytes (firstn 8 bs)]].

(* ------------------------------------------------------------------ op tables *)
Open Scope string_scope. Open Scope Z_scope.

Definition ops_glue_model : list (string * opfn) := [
  (* T::ZERO / Zero::zero() / Default: every limb zero *)
  ("glue.zero", fun _ a => Val [zeros (g_n 0 a)]);
  (* T::ONE / One::one(): limbs[0] = 1 *)
  ("glue.one", fun _ a => Val [one_limbs (g_n 0 a)]);
  ("glue.max_boxed", fun _ a => Val [g_max_boxed (sarg 0 a)]);
  (* Integer::nlimbs = LIMBS / limbs.len() *)
  ("glue.nlimbs", fun _ a => Val [[lenZ (arg 0 a)]]);
  (* BitOps::bytes_precision = LIMBS * Limb::BYTES / nlimbs() * Limb::BYTES *)
  ("glue.bytes_precision", fun _ a => Val [[lenZ (arg 0 a) * 8]]);
  ("glue.from_limb_like", fun _ a => Val [g_from_limb (g_len 1 a) (sarg 0 a)]);
  (* Integer::one_like = from_limb_like(Limb::ONE, other) *)
  ("glue.one_like", fun _ a => Val [g_from_limb (g_len 0 a) 1]);
  (* Zero::zero_like = clone, then set_zero (Uint / Int / Limb / Wrapping<Uint>: *self = ZERO; BoxedUint: fill) *)
  ("glue.zero_like", fun _ a => Val [zeros (g_len 0 a)]);
  (* Wrapping<T>::set_zero forwards to T::set_zero (BoxedUint: fill the limbs with zero), so the precision is kept
     (repaired in /repo 526c7f5; before, the trait default `*self = Zero::zero()` gave a one-limb zero: finding F32) *)
  ("glue.zero_like_wrapping_boxed", fun _ a => Val [zeros (g_len 0 a)]);
  ("glue.recip_default", fun _ a => Val (g_recip_fields (g_recip 0)));
  ("glue.recip_select", fun _ a =>
     Val (g_recip_fields (g_recip_select (g_recip (sarg 0 a)) (g_recip (sarg 1 a)) (carg 2 a))));
  (* PartialEq for ConstChoice: self.0 == other.0 on the masks *)
  ("glue.cc_eq", fun _ a => Val [vbool (ccarg 0 a =? ccarg 1 a)]);
  ("glue.decode_error_text", fun _ a => vtext (g_decode_error_text (sarg 0 a)));
  ("glue.random_bits_error_text", fun _ a => vtext (g_random_bits_error_text (sarg 0 a) (sarg 1 a) (sarg 2 a) (arg 3 a)));
  (* Octal for Wrapping<T> / NonZero<T>: the inner value's Octal ({:o} / {:#o}) *)
  ("glue.fmt_octal", fun _ a => Val [((if sarg 1 a =? 0 then [] else [48; 111]) ++ g_oct (sarg 0 a))%list]);
  ("glue.checked_ser", fun _ a => Val [g_checked_ser (uint_serde_ser (arg 0 a)) (sarg 1 a)]);
  ("glue.checked_ser_limb", fun _ a => Val [g_checked_ser (word_to_le_bytes (sarg 0 a)) (sarg 1 a)]);
  ("glue.checked_de", fun _ a => g_checked_de (uint_serde_de (g_n 1 a)) (arg 0 a));
  ("glue.checked_de_limb", fun _ a => g_checked_de g_limb_de (arg 0 a));
  (* impl<T: PowBoundedExp<E>, E: Bounded> Pow<E> for T: pow_bounded_exp(exponent, E::BITS);
     result of the recording base: its own tag, the bit count it was given, the exponent it was given *)
  ("glue.pow_front", fun _ a => Val [[sarg 1 a]; [64 * lenZ (arg 0 a)]; arg 0 a]);
  (* the blanket MultiExponentiate: multi_exponentiate_bounded_exp(pairs, E::BITS) on two pairs *)
  ("glue.multi_exp_front", fun _ a =>
     Val [[64 * lenZ (arg 0 a)]; [2]; [sarg 2 a]; arg 0 a; [sarg 3 a]; arg 1 a]);
  (* Uint::overflowing_sh{l,r}_vartime_wide(..).expect(..) *)
  ("glue.shl_wide_expect", fun _ a => g_expect (out_wide (uint_shl_vartime_wide (arg 0 a) (arg 1 a) (sarg 2 a))));
  ("glue.shr_wide_expect", fun _ a => g_expect (out_wide (uint_shr_vartime_wide (arg 0 a) (arg 1 a) (sarg 2 a))))
].

(* ---- spec ---- *)
Definition gsp_nonempty (n : nat) (o : outcome) : outcome := match n with O => Unsupported | _ => o end.
(* the reciprocal of a normalised divisor dn is floor((B^2 - 1) / dn) - B (spec of "recip.new", Model/Div.v) *)
Definition gsp_recip (d : Z) : list (list Z) :=
  let s := 63 - Z.log2 d in let dn := d * 2 ^ s in [[dn]; [s]; [(B * B - 1) / dn - B]].
Definition gsp_bool (i : nat) (a : list (list Z)) : bool := negb (sarg i a =? 0).
(* well-formed bincode payloads only: a tag byte 0 with nothing after it, or a tag byte 1 followed by a payload of T *)
Definition gsp_checked_de (inner : list Z -> outcome) (bs : list Z) : outcome :=
  sp_bytes_arg bs (
    match bs with
    | [] => ErrV 0
    | t :: rest => if t =? 0 then (match rest with [] => NoneV | _ => Unsupported end)
                   else if t =? 1 then inner rest else ErrV 0
    end).
Definition gsp_uint_de (n : nat) (bs : list Z) : outcome :=
  if Nat.ltb (length bs) (8 + 8 * n) then ErrV 0
  else if negb (horner 256 (rev (firstn 8 bs)) =? 8 * Z.of_nat n) then ErrV 0
  else if Nat.eqb (length bs) (8 + 8 * n) then Val [to_limbs n (horner 256 (rev (skipn 8 bs)))]
  else Unsupported.
Definition gsp_limb_de (bs : list Z) : outcome :=
  if Nat.ltb (length bs) 8 then ErrV 0
  else if Nat.eqb (length bs) 8 then Val [to_limbs 1 (horner 256 (rev bs))]
  else Unsupported.

Definition ops_glue_spec : list (string * opfn) := [
  ("glue.zero", fun _ a => Val [to_limbs (g_n 0 a) 0]);
  ("glue.one", fun _ a => gsp_nonempty (g_n 0 a) (Val [to_limbs (g_n 0 a) 1]));
  (* "the value 2^bits_precision - 1" at the requested precision rounded up to whole limbs; every BoxedUint has at least
     one limb, so a request of 0 bits yields the one-limb maximum *)
  ("glue.max_boxed", fun _ a =>
     let p := sarg 0 a in if p <? 0 then Unsupported else
     let m := Nat.max 1 (Z.to_nat ((p + 63) / 64)) in Val [to_limbs m (Bn m - 1)]);
  ("glue.nlimbs", fun _ a => Val [[Z.of_nat (g_len 0 a)]]);
  (* precision in bytes = precision in bits / 8 *)
  ("glue.bytes_precision", fun _ a => Val [[(64 * Z.of_nat (g_len 0 a)) / 8]]);
  ("glue.from_limb_like", fun _ a => gsp_nonempty (g_len 1 a) (Val [to_limbs (g_len 1 a) (sarg 0 a)]));
  ("glue.one_like", fun _ a => gsp_nonempty (g_len 0 a) (Val [to_limbs (g_len 0 a) 1]));
  (* "the value 0 with the same precision as other" *)
  ("glue.zero_like", fun _ a => Val [to_limbs (g_len 0 a) 0]);
  ("glue.zero_like_wrapping_boxed", fun _ a => Val [to_limbs (g_len 0 a) 0]);
  (* "a self-consistent Reciprocal": the one of the divisor Word::MAX *)
  ("glue.recip_default", fun _ a => Val (gsp_recip MAXW));
  (* the fields of the selected operand *)
  ("glue.recip_select", fun _ a =>
     Val (g_recip_fields (g_recip (if gsp_bool 2 a then sarg 1 a else sarg 0 a))));
  ("glue.cc_eq", fun _ a => Val [vbool (Bool.eqb (gsp_bool 0 a) (gsp_bool 1 a))]);
  ("glue.decode_error_text", fun _ a => vtext (g_decode_error_text (sarg 0 a)));
  ("glue.random_bits_error_text", fun _ a => vtext (g_random_bits_error_text (sarg 0 a) (sarg 1 a) (sarg 2 a) (arg 3 a)));
  ("glue.fmt_octal", fun _ a => Val [((if sarg 1 a =? 0 then [] else [48; 111]) ++ g_oct (sarg 0 a))%list]);
  ("glue.checked_ser", fun _ a =>
     Val [if sarg 1 a =? 0 then [0]
          else (1 :: sp_le_digits 256 8 (8 * Z.of_nat (g_len 0 a)) ++ sp_le_digits 256 (8 * g_len 0 a) (eval (arg 0 a)))%list]);
  ("glue.checked_ser_limb", fun _ a => Val [if sarg 1 a =? 0 then [0] else 1 :: sp_le_digits 256 8 (sarg 0 a)]);
  ("glue.checked_de", fun _ a => gsp_checked_de (gsp_uint_de (g_n 1 a)) (arg 0 a));
  ("glue.checked_de_limb", fun _ a => gsp_checked_de gsp_limb_de (arg 0 a));
  ("glue.pow_front", fun _ a => Val [[sarg 1 a]; [bitsZ (arg 0 a)]; arg 0 a]);
  ("glue.multi_exp_front", fun _ a => Val [[bitsZ (arg 0 a)]; [2]; [sarg 2 a]; arg 0 a; [sarg 3 a]; arg 1 a]);
  ("glue.shl_wide_expect", fun _ a => g_expect (nonempty a (sp_wide true a)));
  ("glue.shr_wide_expect", fun _ a => g_expect (nonempty a (sp_wide false a)))
].
