(** The op tables the driver and the vm_compute cross-check call. *)
From CB Require Export Model.Limbs Model.AddSub.
Open Scope string_scope. Open Scope Z_scope.

Definition model_table : list (string * opfn) := ops_addsub_model.
Definition spec_table : list (string * opfn) := ops_addsub_spec.

Definition run_model (dbg : bool) (op : string) (args : list (list Z)) : outcome :=
  match lookup op model_table with Some f => f dbg args | None => Unsupported end.
Definition run_spec (dbg : bool) (op : string) (args : list (list Z)) : outcome :=
  match lookup op spec_table with Some f => f dbg args | None => Unsupported end.
