(** Event encoding of the source-derived leakage model (tools/rs2v_leak.py, property C01).

    The generated files coq/Src/Leak*.v define, for every kernel translated by tools/rs2v.py, an instrumented function
    [l_f args : result * list Z]: the value and the list of leakage events of a source-level execution, in execution
    order. An event is ONE integer, tag + 8 * payload:

      ev_br c      (tag 1)  a condition evaluated on data ([if], guard, left operand of [&&] / [||])
      ev_ix i      (tag 2)  an array / slice index, read or write
      ev_div a b   (tag 3)  operands of [/] [%] [div_ceil] with a divisor that is not a compile-time constant
      ev_divc a c  (tag 4)  the same with a divisor that is syntactically a compile-time constant (no division instruction in
                            an optimized build); [pubview] erases the dividend of exactly these events
      ev_trip n    (tag 5)  trip count of a loop, emitted on entry

    Mask / select / arithmetic primitives emit nothing.  Executable definitions only. *)
From Coq Require Export ZArith List Bool.
From Coq Require Import Lia.
From CB Require Export Model.SrcPrelude.
Import ListNotations.
Open Scope Z_scope.

Definition ev_br (c : bool) : Z := 8 * b2z c + 1.
Definition ev_ix (i : Z) : Z := 8 * i + 2.
Definition ev_pair (a b : Z) : Z := a * 2 ^ 128 + b.          (* machine integers: 0 <= b < 2^128 *)
Definition ev_div (a b : Z) : Z := 8 * ev_pair a b + 3.
Definition ev_divc (a c : Z) : Z := 8 * ev_pair a c + 4.
Definition ev_trip (n : Z) : Z := 8 * n + 5.

(** [tr_ tr e]: the trace [tr] followed by the event [e] *)
Definition tr_ (tr : list Z) (e : Z) : list Z := tr ++ [e].

(** the view of an observer for whom a division by a compile-time constant is not a division instruction: the dividend
    of every [ev_divc] is erased, the constant divisor stays; every other event is kept as it is *)
Definition view_ (e : Z) : Z := if e mod 8 =? 4 then 8 * ((e / 8) mod 2 ^ 128) + 4 else e.
Definition pubview (tr : list Z) : list Z := map view_ tr.

(** the encoding is injective on machine integers *)
Lemma ev_tag e k : 0 <= k < 8 -> (8 * e + k) mod 8 = k.
Proof. intros. rewrite Z.add_comm, Z.mul_comm, Z_mod_plus_full. apply Z.mod_small; lia. Qed.
Lemma ev_payload e k : 0 <= k < 8 -> (8 * e + k) / 8 = e.
Proof. intros. rewrite Z.add_comm, Z.mul_comm, Z_div_plus_full by lia. rewrite Z.div_small; lia. Qed.
Lemma ev_pair_inj a b a' b' : 0 <= b < 2 ^ 128 -> 0 <= b' < 2 ^ 128 -> ev_pair a b = ev_pair a' b' -> a = a' /\ b = b'.
Proof.
  unfold ev_pair. intros Hb Hb' H.
  assert (Hm : (a * 2 ^ 128 + b) mod 2 ^ 128 = (a' * 2 ^ 128 + b') mod 2 ^ 128) by (rewrite H; reflexivity).
  rewrite !(Z.add_comm (_ * 2 ^ 128)), !Z_mod_plus_full, !Z.mod_small in Hm by lia. subst b'.
  split; [|reflexivity]. assert (a * 2 ^ 128 = a' * 2 ^ 128) by lia. apply Z.mul_reg_r in H0; lia.
Qed.
Lemma ev_ix_inj i j : ev_ix i = ev_ix j -> i = j.
Proof. unfold ev_ix. lia. Qed.
Lemma ev_trip_inj i j : ev_trip i = ev_trip j -> i = j.
Proof. unfold ev_trip. lia. Qed.
Lemma ev_br_inj a b : ev_br a = ev_br b -> a = b.
Proof. unfold ev_br. destruct a, b; simpl; intro; (reflexivity || lia). Qed.
Lemma ev_div_inj a b a' b' : 0 <= b < 2 ^ 128 -> 0 <= b' < 2 ^ 128 -> ev_div a b = ev_div a' b' -> a = a' /\ b = b'.
Proof. unfold ev_div. intros. apply ev_pair_inj; lia. Qed.

Lemma view_br c : view_ (ev_br c) = ev_br c.
Proof. unfold view_, ev_br. rewrite ev_tag by lia. reflexivity. Qed.
Lemma view_ix i : view_ (ev_ix i) = ev_ix i.
Proof. unfold view_, ev_ix. rewrite ev_tag by lia. reflexivity. Qed.
Lemma view_div a b : view_ (ev_div a b) = ev_div a b.
Proof. unfold view_, ev_div. rewrite ev_tag by lia. reflexivity. Qed.
Lemma view_trip n : view_ (ev_trip n) = ev_trip n.
Proof. unfold view_, ev_trip. rewrite ev_tag by lia. reflexivity. Qed.
Lemma view_divc a c : 0 <= c < 2 ^ 128 -> view_ (ev_divc a c) = ev_divc 0 c.
Proof.
  intros. unfold view_, ev_divc. rewrite ev_tag, ev_payload by lia. simpl (4 =? 4). cbv iota.
  assert (E : ev_pair a c mod 2 ^ 128 = c).
  { unfold ev_pair. rewrite (Z.add_comm (a * 2 ^ 128)), Z_mod_plus_full. apply Z.mod_small; lia. }
  rewrite E. unfold ev_pair. lia.
Qed.
Lemma pubview_app a b : pubview (a ++ b) = pubview a ++ pubview b.
Proof. apply map_app. Qed.
Lemma pubview_tr tr e : pubview (tr_ tr e) = tr_ (pubview tr) (view_ e).
Proof. unfold tr_. rewrite pubview_app. reflexivity. Qed.
