(** C14: signed division (src/int/div.rs, src/int/div_uint.rs, NonZero<Int>::abs_sign of src/non_zero.rs).
    L0 = the Rust code line by line on limb lists: split into magnitude and sign, divide the
    magnitudes, re-sign / adjust quotient and remainder with masks and selects, fit test.
    NOTE (division of labour): the UNSIGNED division the Int code calls ([Uint::div_rem],
    [Uint::div_rem_vartime]; Knuth D / reciprocal division, property C02, proved elsewhere at the limb
    level) is modelled here at the VALUE level as [Z.div] / [Z.modulo] on [eval] ([ux_div_rem]):
    quotient at the width of the dividend, remainder at the width of the divisor.  The constant-time
    and the _vartime forms therefore share one model function; they differ only in which unsigned
    routine they call and in the widths they accept. *)
From CB Require Export Model.Limbs Model.AddSub Model.IntArith.
Open Scope Z_scope.

Definition ux_div_rem (a b : list Z) : list Z * list Z :=
  (to_limbs (length a) (eval a / eval b), to_limbs (length b) (eval a mod eval b)).

(* ---- src/int/div.rs ---- *)
Definition int_div_rem_base (n d : list Z) : list Z * list Z * Z * Z :=
  let '(lm, ls) := int_abs_sign n in
  let '(rm, rs) := int_abs_sign d in
  let '(q, r) := ux_div_rem lm rm in
  (q, r, ls, rs).

(* checked_div_rem / checked_div_rem_vartime *)
Definition int_checked_div_rem (n d : list Z) : option (list Z) * list Z :=
  let '(q, r, ls, rs) := int_div_rem_base n d in
  let opposing_signs := cc_ne ls rs in
  (int_new_from_abs_sign q opposing_signs, int_wrapping_neg_if r ls).

(* NonZero::new(rhs).and_then(|rhs| f rhs) *)
Definition nz_and_then (d : list Z) (f : option (list Z)) : option (list Z) :=
  if choice_to_bool (ux_is_zero d) then None else f.

Definition int_checked_div (n d : list Z) : option (list Z) :=
  nz_and_then d (fst (int_checked_div_rem n d)).
Definition int_rem (n d : list Z) : list Z := snd (int_checked_div_rem n d).

(* checked_div_rem_floor / checked_div_rem_floor_vartime: the quotient is negated when the signs
   oppose, the remainder takes the sign of the divisor ([rhs_sgn]) *)
Definition int_checked_div_rem_floor (n d : list Z) : option (list Z) * list Z :=
  let '(lm, ls) := int_abs_sign n in
  let '(rm, rs) := int_abs_sign d in
  let '(q, r) := ux_div_rem lm rm in
  let opposing_signs := cc_xor ls rs in
  let modify := cc_and (ux_is_nonzero r) opposing_signs in
  let q_plus_one := uint_wrapping_add q (one_limbs (length q)) in
  let q' := select_limbs modify q q_plus_one in
  let inv_r := uint_wrapping_sub rm r in
  let r' := select_limbs modify r inv_r in
  (int_new_from_abs_sign q' opposing_signs, int_wrapping_neg_if r' rs).
Definition int_checked_div_floor (n d : list Z) : option (list Z) :=
  nz_and_then d (fst (int_checked_div_rem_floor n d)).

(* ---- src/int/div_uint.rs ---- *)
Definition int_div_rem_uint (n d : list Z) : list Z * list Z :=
  let '(lm, ls) := int_abs_sign n in
  let '(q, r) := ux_div_rem lm d in
  (int_wrapping_neg_if q ls, int_wrapping_neg_if r ls).
Definition int_div_rem_floor_uint (n d : list Z) : list Z * list Z :=
  let '(lm, ls) := int_abs_sign n in
  let '(q, r) := ux_div_rem lm d in
  let modify := cc_and (ux_is_nonzero r) ls in
  let q' := select_limbs modify q (uint_wrapping_add q (one_limbs (length q))) in
  let r' := select_limbs modify r (uint_wrapping_sub d r) in
  (int_wrapping_neg_if q' ls, r').

(* ============================ Spec ============================ *)
(* truncating: Z.quot / Z.rem (remainder has the sign of the dividend);
   flooring: Z.div / Z.modulo (remainder has the sign of the divisor). *)
Definition no_such_result : outcome := ErrV 1.   (* the exact result is not representable in the return type *)
Definition dsp_optq_r (nq nr : nat) (q r : Z) : outcome :=
  if isp_fits nr r then
    (if isp_fits nq q then Val [[1]; to_limbs_s nq q; to_limbs_s nr r] else Val [[0]; []; to_limbs_s nr r])
  else no_such_result.
Definition dsp_pair (nq nr : nat) (q r : Z) : outcome :=
  if isp_fits nq q && isp_fits nr r then Val [to_limbs_s nq q; to_limbs_s nr r] else no_such_result.
Definition dsp_one (n : nat) (x : Z) : outcome := if isp_fits n x then isp_val n x else no_such_result.

(* ============================ op tables ============================ *)
Open Scope string_scope. Open Scope Z_scope.

Definition voptq_r (p : option (list Z) * list Z) : outcome :=
  match fst p with Some q => Val [[1]; q; snd p] | None => Val [[0]; []; snd p] end.
Definition vpair_ll (p : list Z * list Z) : outcome := Val [fst p; snd p].
Definition nonzero_arg (i : nat) (a : list (list Z)) : bool := negb (eval (arg i a) =? 0).
(* forms that take a NonZero<..> divisor cannot be called with zero *)
Definition nz_only (a : list (list Z)) (o : outcome) : outcome := if nonzero_arg 1 a then o else Unsupported.

Definition ops_intdiv_model : list (string * opfn) := [
  ("sdiv.checked_div_rem", fun _ a => nz_only a (voptq_r (int_checked_div_rem (arg 0 a) (arg 1 a))));
  ("sdiv.checked_div", fun _ a => vopt (int_checked_div (arg 0 a) (arg 1 a)));
  ("sdiv.rem", fun _ a => nz_only a (Val [int_rem (arg 0 a) (arg 1 a)]));
  ("sdiv.div_expect", fun _ a => nz_only a (vpanic_none (fst (int_checked_div_rem (arg 0 a) (arg 1 a)))));
  ("sdiv.checked_div_rem_floor", fun _ a => nz_only a (voptq_r (int_checked_div_rem_floor (arg 0 a) (arg 1 a))));
  ("sdiv.checked_div_floor", fun _ a => vopt (int_checked_div_floor (arg 0 a) (arg 1 a)));
  ("sdiv.div_rem_uint", fun _ a => nz_only a (vpair_ll (int_div_rem_uint (arg 0 a) (arg 1 a))));
  ("sdiv.div_uint", fun _ a => nz_only a (Val [fst (int_div_rem_uint (arg 0 a) (arg 1 a))]));
  ("sdiv.rem_uint", fun _ a => nz_only a (Val [snd (int_div_rem_uint (arg 0 a) (arg 1 a))]));
  ("sdiv.div_rem_floor_uint", fun _ a => nz_only a (vpair_ll (int_div_rem_floor_uint (arg 0 a) (arg 1 a))));
  ("sdiv.div_floor_uint", fun _ a => nz_only a (Val [fst (int_div_rem_floor_uint (arg 0 a) (arg 1 a))]));
  ("sdiv.normalized_rem", fun _ a => nz_only a (Val [snd (int_div_rem_floor_uint (arg 0 a) (arg 1 a))]))
].

Definition ops_intdiv_spec : list (string * opfn) := [
  ("sdiv.checked_div_rem", fun _ a => nz_only a
     (dsp_optq_r (ln 0 a) (ln 1 a) (Z.quot (sv 0 a) (sv 1 a)) (Z.rem (sv 0 a) (sv 1 a))));
  ("sdiv.checked_div", fun _ a =>
     if nonzero_arg 1 a then isp_checked (ln 0 a) (Z.quot (sv 0 a) (sv 1 a)) else NoneV);
  ("sdiv.rem", fun _ a => nz_only a (dsp_one (ln 1 a) (Z.rem (sv 0 a) (sv 1 a))));
  (* operator forms that unwrap the quotient: panic exactly for MIN / -1 *)
  ("sdiv.div_expect", fun _ a => nz_only a (isp_panicking (ln 0 a) (Z.quot (sv 0 a) (sv 1 a))));
  ("sdiv.checked_div_rem_floor", fun _ a => nz_only a
     (dsp_optq_r (ln 0 a) (ln 1 a) (sv 0 a / sv 1 a) (sv 0 a mod sv 1 a)));
  ("sdiv.checked_div_floor", fun _ a =>
     if nonzero_arg 1 a then isp_checked (ln 0 a) (sv 0 a / sv 1 a) else NoneV);
  ("sdiv.div_rem_uint", fun _ a => nz_only a
     (dsp_pair (ln 0 a) (ln 1 a) (Z.quot (sv 0 a) (ev 1 a)) (Z.rem (sv 0 a) (ev 1 a))));
  ("sdiv.div_uint", fun _ a => nz_only a (dsp_one (ln 0 a) (Z.quot (sv 0 a) (ev 1 a))));
  ("sdiv.rem_uint", fun _ a => nz_only a (dsp_one (ln 1 a) (Z.rem (sv 0 a) (ev 1 a))));
  (* flooring by an unsigned divisor: the remainder is returned unsigned, in [0, d) *)
  ("sdiv.div_rem_floor_uint", fun _ a => nz_only a
     (if isp_fits (ln 0 a) (sv 0 a / ev 1 a)
      then Val [to_limbs_s (ln 0 a) (sv 0 a / ev 1 a); to_limbs (ln 1 a) (sv 0 a mod ev 1 a)] else no_such_result));
  ("sdiv.div_floor_uint", fun _ a => nz_only a (dsp_one (ln 0 a) (sv 0 a / ev 1 a)));
  ("sdiv.normalized_rem", fun _ a => nz_only a (usp_val (ln 1 a) (sv 0 a mod ev 1 a)))
].
