(** Little-endian limb lists and the common outcome type of the op tables. *)
From Coq Require Export String.
From CB Require Export Model.Word.
From Coq Require Export List.
Export ListNotations.
Open Scope Z_scope.

Fixpoint eval (ls : list Z) : Z :=
  match ls with [] => 0 | x :: r => x + B * eval r end.

Definition wf (ls : list Z) : Prop := Forall is_word ls.
Definition wfb (ls : list Z) : bool := forallb is_wordb ls.

Fixpoint to_limbs (n : nat) (x : Z) : list Z :=
  match n with O => [] | S n' => x mod B :: to_limbs n' (x / B) end.

Definition zeros (n : nat) : list Z := repeat 0 n.
(* limbs.get(i).unwrap_or(ZERO) for i < n : truncate or zero-extend to n limbs *)
Definition resize (n : nat) (ls : list Z) : list Z := firstn n (ls ++ zeros n).
Definition nthz (ls : list Z) (i : nat) : Z := nth i ls 0.
Definition lenZ (ls : list Z) : Z := Z.of_nat (length ls).
Definition Bn (n : nat) : Z := B ^ Z.of_nat n.          (* 2^(64 n) *)
Definition bitsZ (ls : list Z) : Z := 64 * lenZ ls.

(* signed reading of a limb list (two's complement) *)
Definition seval (ls : list Z) : Z :=
  let v := eval ls in let m := Bn (length ls) in
  if 2 * v <? m then v else v - m.
(* two's complement encoding of a signed value into n limbs *)
Definition to_limbs_s (n : nat) (x : Z) : list Z := to_limbs n (x mod Bn n).

(** Outcome of one API call, in canonical form. *)
Inductive outcome :=
| Val (vs : list (list Z))   (* returned value(s): each a limb list / scalar list *)
| NoneV                      (* CtOption / Option is none *)
| ErrV (code : Z)            (* Result::Err with a small error code *)
| PanicV                     (* the call panics *)
| Unsupported.               (* the table has no entry / malformed arguments *)

Definition opfn := bool (* debug profile? *) -> list (list Z) -> outcome.

Definition b2z (b : bool) : Z := if b then 1 else 0.
Definition vbool (b : bool) : list Z := [b2z b].

Fixpoint lookup {A} (k : string) (t : list (string * A)) : option A :=
  match t with
  | [] => None
  | (k', v) :: r => if String.eqb k k' then Some v else lookup k r
  end.

Fixpoint list_eqb (a b : list Z) : bool :=
  match a, b with
  | [], [] => true
  | x :: a', y :: b' => Z.eqb x y && list_eqb a' b'
  | _, _ => false
  end.
Fixpoint lists_eqb (a b : list (list Z)) : bool :=
  match a, b with
  | [], [] => true
  | x :: a', y :: b' => list_eqb x y && lists_eqb a' b'
  | _, _ => false
  end.
Definition outcome_eqb (a b : outcome) : bool :=
  match a, b with
  | Val x, Val y => lists_eqb x y
  | NoneV, NoneV => true
  | ErrV x, ErrV y => Z.eqb x y
  | PanicV, PanicV => true
  | Unsupported, Unsupported => true
  | _, _ => false
  end.

(* argument access helpers for op tables *)
Definition arg (i : nat) (args : list (list Z)) : list Z := nth i args [].
Definition sarg (i : nat) (args : list (list Z)) : Z := nth 0 (nth i args []) 0.
Definition vopt (o : option (list Z)) : outcome :=
  match o with Some r => Val [r] | None => NoneV end.
Definition vpanic_none (o : option (list Z)) : outcome :=
  match o with Some r => Val [r] | None => PanicV end.
Definition vpair (p : list Z * Z) : outcome := Val [fst p; [snd p]].
Definition vpair2 (p : Z * Z) : outcome := Val [[fst p]; [snd p]].

(* shared helpers for spec tables *)
Definition sp_val (n : nat) (x : Z) : outcome := Val [to_limbs n x].
Definition sp_fits (n : nat) (x : Z) : bool := (0 <=? x) && (x <? Bn n).
Definition sp_checked (n : nat) (x : Z) : outcome := if sp_fits n x then sp_val n x else NoneV.
Definition sp_panicking (n : nat) (x : Z) : outcome := if sp_fits n x then sp_val n x else PanicV.
Definition sp_saturating (n : nat) (x : Z) : outcome :=
  sp_val n (if x <? 0 then 0 else if x <? Bn n then x else Bn n - 1).
Definition sp_wrapping (n : nat) (x : Z) : outcome := sp_val n (x mod Bn n).
Definition ev (i : nat) (a : list (list Z)) : Z := eval (arg i a).
Definition ln (i : nat) (a : list (list Z)) : nat := length (arg i a).
Definition lmax (a : list (list Z)) : nat := Nat.max (ln 0 a) (ln 1 a).

Open Scope string_scope. Open Scope Z_scope.
