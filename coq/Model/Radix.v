(** C17: radix strings.  Faithful models of src/uint/encoding.rs:337-789 (radix_decode_str,
    radix_preprocess_str, radix_decode_str_digits, radix_decode_str_aligned_digits,
    radix_encode_limbs_mut_to_string, radix_encode_limbs_by_shifting, RadixDivisionParams,
    radix_large_divisor) and src/uint/boxed/encoding.rs:148-195 on a 64-bit target.
    A string is the list of its byte values.  Executable definitions only; proofs in Proofs/Radix*P.v.

    The encoder follows the REPAIRED code (tools/fix_C17_1.diff: the test that moves the top quotient limb
    into `hi` is `limbs[limb_count-1] < div_limb`); the original test `limbs[limb_count-1] << lshift < div_limb`
    (wrapping shift) is kept under [fixed = false] for the refutation theorem.
    The division by the 32-limb large divisor is Model/Div.v's [boxed_div_rem_in_place] (the limb-level
    model of div_rem_vartime_in_place, proved in Proofs/DivBoxedP.v); the limb division is Div.v's
    [shl_limb] + [divlimb_go] (the same loops as in div_rem_limb_with_reciprocal) and [recip_new]. *)
From CB Require Export Model.Limbs Model.Div Model.Conv.
Open Scope Z_scope.
Open Scope list_scope.

Definition E_Empty : Z := 0.
Definition E_InvalidDigit : Z := 1.
Definition RADIX_LIMBS_LARGE : nat := 32.

(* ------------------------------------------------------------------------------------------ *)
(** * Decoding *)

Inductive pre := PreErr (code : Z) | PreOk (ds : list Z).

(* while digits[0] == b'0' || digits[0] == b'_' { digits = &digits[1..]; if digits.is_empty() { break } } *)
Fixpoint strip_lead (ds : list Z) : list Z :=
  match ds with
  | [] => []
  | c :: t => if (c =? 48) || (c =? 95) then strip_lead t else ds
  end.

Definition radix_preprocess_str (src : list Z) : pre :=
  let digits := match src with 43 :: t => t | _ => src end in      (* strip_prefix(b"+").unwrap_or(src_b) *)
  match digits with
  | [] => PreErr E_Empty
  | c0 :: _ =>
      if (c0 =? 95) || (last digits 0 =? 95) then PreErr E_InvalidDigit
      else PreOk (strip_lead digits)
  end.

(* the match on one character (the '_' arm is handled by the loops); an unknown byte gives [radix] *)
Definition char_digit (radix b : Z) : Z :=
  if (48 <=? b) && (b <=? 57) then b - 48
  else if (97 <=? b) && (b <=? 122) then b + 10 - 97
  else if (65 <=? b) && (b <=? 90) then b + 10 - 65
  else radix.

(* DecodeByLimb::push_limb: SliceDecodeByLimb ([Some cap]) refuses when full, VecDecodeByLimb ([None]) grows.
   [out] is limbs[..len]. *)
Definition push_limb (cap : option nat) (out : list Z) (limb : Z) : option (list Z) :=
  match cap with
  | None => Some (out ++ [limb])
  | Some c => if Nat.ltb (length out) c then Some (out ++ [limb]) else None
  end.

(* for limb in out.limbs_mut(): limb, carry = Limb::ZERO.mac(limb, limb_max, carry) *)
Fixpoint mul_add_limbs (ls : list Z) (m carry : Z) : list Z * Z :=
  match ls with
  | [] => ([], carry)
  | l :: t => let '(lo, c) := mac 0 l m carry in
              let '(t', c') := mul_add_limbs t m c in (lo :: t', c')
  end.

Inductive dres := DOk (limbs : list Z) | DErr (code : Z) | DPanic.

(* Word::MAX.ilog(radix): the largest k with radix^k <= MAX *)
Fixpoint ilog_go (fuel : nat) (radix p : Z) (k : nat) : nat :=
  match fuel with
  | O => k
  | S f => if p * radix <=? MAXW then ilog_go f radix (p * radix) (S k) else k
  end.
Definition ilog_max (radix : Z) : nat := ilog_go 64 radix 1 0.

(* one completed buffer: combine the digits, multiply-accumulate, push the carry *)
Definition flush_digits (radix : Z) (cap : option nat) (buf : list Z) (limb_max : Z) (out : list Z) : option (list Z) :=
  let carry := fold_left (fun acc c => wrap (acc * radix + c)) buf 0 in
  let '(out', carry') := mul_add_limbs out limb_max carry in
  if carry' =? 0 then Some out' else push_limb cap out' carry'.

(* radix_decode_str_digits: both loops as one recursion over the remaining characters; [buf] = buf[..buf_pos].
   An index past the end (only after a trailing '_', excluded by the preprocessing) is a panic. *)
Fixpoint dec_go (radix : Z) (cap : option nat) (limb_digits : nat) (limb_max : Z)
                (ds buf out : list Z) : dres :=
  match ds with
  | [] => DPanic
  | c :: t =>
      if c =? 95 then dec_go radix cap limb_digits limb_max t buf out
      else
        let d := char_digit radix c in
        if radix <=? d then DErr E_InvalidDigit
        else
          let buf' := buf ++ [d] in
          let fin := match t with [] => true | _ => false end in
          if fin || Nat.eqb (length buf') limb_digits then
            let lm := if Nat.ltb (length buf') limb_digits
                      then wrap (radix ^ Z.of_nat (length buf')) else limb_max in
            match flush_digits radix cap buf' lm out with
            | Some out' => if fin then DOk out' else dec_go radix cap limb_digits limb_max t [] out'
            | None => DErr E_InputSize
            end
          else dec_go radix cap limb_digits limb_max t buf' out
  end.

(* u32::trailing_zeros of a non-zero value *)
Fixpoint tz_go (fuel : nat) (x : Z) : Z :=
  match fuel with O => 0 | S f => if Z.odd x then 0 else 1 + tz_go f (x / 2) end.
Definition trailing_zeros (x : Z) : Z := if x =? 0 then 32 else tz_go 32 x.
Definition is_power_of_two (x : Z) : bool := (0 <? x) && (Z.land x (x - 1) =? 0).

(* radix_decode_str_aligned_digits: over the characters from the last to the first ([rds] reversed);
   [buf] = buf[..buf_pos], least significant digit first *)
Fixpoint al_go (radix shift : Z) (cap : option nat) (limb_digits : nat) (rds buf out : list Z) : dres :=
  match rds with
  | [] => DPanic
  | c :: t =>
      if c =? 95 then al_go radix shift cap limb_digits t buf out
      else
        let d := char_digit radix c in
        if radix <=? d then DErr E_InvalidDigit
        else
          let buf' := buf ++ [d] in
          let fin := match t with [] => true | _ => false end in
          if fin || Nat.eqb (length buf') limb_digits then
            let w := fold_left (fun w c => Z.lor (wshl w shift) c) (rev buf') 0 in
            match push_limb cap out w with
            | Some out' => if fin then DOk out' else al_go radix shift cap limb_digits t [] out'
            | None => DErr E_InputSize
            end
          else al_go radix shift cap limb_digits t buf' out
  end.

Definition radix_decode_str (src : list Z) (radix : Z) (cap : option nat) : dres :=
  if (radix <? 2) || (36 <? radix) then DPanic
  else match radix_preprocess_str src with
       | PreErr c => DErr c
       | PreOk ds =>
           match ds with
           | [] => DOk []
           | _ =>
               if (radix =? 2) || (radix =? 4) || (radix =? 16) then
                 let shift := trailing_zeros radix in
                 al_go radix shift cap (Z.to_nat (64 / shift)) (rev ds) [] []
               else
                 let ld := ilog_max radix in
                 dec_go radix cap ld (wrap (radix ^ Z.of_nat ld)) ds [] []
           end
       end.

(* Uint::<n>::from_str_radix_vartime / num_traits::Num::from_str_radix *)
Definition uint_from_str_radix (n : nat) (src : list Z) (radix : Z) : outcome :=
  match radix_decode_str src radix (Some n) with
  | DOk out => Val [out ++ zeros (n - length out)]
  | DErr c => ErrV c
  | DPanic => PanicV
  end.
(* BoxedUint::from_str_radix_vartime *)
Definition boxed_from_str_radix (src : list Z) (radix : Z) : outcome :=
  match radix_decode_str src radix None with
  | DOk out => Val [vec_into_boxed out]
  | DErr c => ErrV c
  | DPanic => PanicV
  end.
(* BoxedUint::from_str_radix_with_precision_vartime *)
Definition boxed_from_str_radix_prec (src : list Z) (radix p : Z) : outcome :=
  let n := length (zero_with_precision p) in
  match radix_decode_str src radix (Some n) with
  | DOk out => let ret := out ++ zeros (n - length out) in
               if p <? boxed_bits ret then ErrV E_Precision else Val [ret]
  | DErr c => ErrV c
  | DPanic => PanicV
  end.

(* ------------------------------------------------------------------------------------------ *)
(** * Encoding *)

Definition digit_char (d : Z) : Z := if d <? 10 then 48 + d else 97 + (d - 10).

(* inner loop of radix_encode_limbs_by_shifting; [written] = out[out_idx..] *)
Fixpoint emit_shift (cnt : nat) (rb mask dg db : Z) (written : list Z) : Z * Z * list Z :=
  match cnt with
  | O => (dg, db, written)
  | S c => let digit := Z.land (dg mod 256) mask in
           emit_shift c rb mask (dg / 2 ^ rb) (db - rb) (digit_char digit :: written)
  end.
Fixpoint shift_go (rb mask : Z) (ls : list Z) (dg db : Z) (out_idx : nat) (written : list Z) : nat * list Z :=
  match ls with
  | [] => (out_idx, written)
  | l :: t =>
      let db := db + 64 in
      let dg := Z.lor dg (wrap2 (l * 2 ^ (db mod 64))) in
      let cnt := Nat.min (Z.to_nat (db / rb)) out_idx in
      let '(dg', db', w') := emit_shift cnt rb mask dg db written in
      shift_go rb mask t dg' db' (out_idx - cnt) w'
  end.
Definition radix_encode_limbs_by_shifting (radix : Z) (limbs : list Z) (size : nat) : list Z :=
  let '(oi, w) := shift_go (trailing_zeros radix) (radix - 1) (limbs ++ [0]) 0 0 size [] in
  repeat 48 oi ++ w.

(* RadixDivisionParams *)
Record rparams := { rp_radix : Z; rp_digits_limb : nat; rp_recip : recip;
                    rp_digits_large : nat; rp_div_large : list Z }.

(* radix_large_divisor, first loop: [cur] = out[..top] *)
Fixpoint rld_grow (fuel : nat) (div_limb : Z) (digits_limb : nat) (cur : list Z) (digits_large : nat) : list Z * nat :=
  match fuel with
  | O => (cur, digits_large)
  | S f =>
      if Nat.ltb (length cur) RADIX_LIMBS_LARGE then
        let '(cur', carry) := mul_add_limbs cur div_limb 0 in
        let cur'' := if carry =? 0 then cur' else cur' ++ [carry] in
        rld_grow f div_limb digits_limb cur'' (digits_large + digits_limb)
      else (cur, digits_large)
  end.
(* second loop: multiply by radix while there is no carry out of the 32 limbs *)
Fixpoint rld_fill (fuel : nat) (radix : Z) (out : list Z) (digits_large : nat) : list Z * nat :=
  match fuel with
  | O => (out, digits_large)
  | S f =>
      let '(out_test, carry) := mul_add_limbs out radix 0 in
      if carry =? 0 then rld_fill f radix out_test (S digits_large) else (out, digits_large)
  end.
Definition radix_large_divisor (radix div_limb : Z) (digits_limb : nat) : list Z * nat :=
  let '(cur, dl) := rld_grow 64 div_limb digits_limb [div_limb] digits_limb in
  rld_fill 64 radix (cur ++ zeros (RADIX_LIMBS_LARGE - length cur)) dl.

Definition params_new (radix : Z) : rparams :=
  let digits_limb := ilog_max radix in
  let div_limb := wrap (radix ^ Z.of_nat digits_limb) in
  let '(div_large, digits_large) := radix_large_divisor radix div_limb digits_limb in
  {| rp_radix := radix; rp_digits_limb := digits_limb; rp_recip := recip_new div_limb;
     rp_digits_large := digits_large; rp_div_large := div_large |}.

(* const ALL: [Self; 31] (the last entry is an unused placeholder), computed by the loop of the source:
   ALL[i] = the parameters of the i-th radix that is not a power of two.  The model evaluates only the entry
   that is looked up (ALL[idx] = params_new (nth idx ALL_radixes)). *)
Definition ALL_radixes : list Z :=
  filter (fun r => negb (is_power_of_two r)) (map Z.of_nat (seq 3 34)).
Definition ALL : list rparams := map params_new ALL_radixes.

(* for_radix: ALL[(radix + radix.leading_zeros() - 33)], panic on a lookup failure *)
Definition for_radix (radix : Z) : option rparams :=
  if (radix <? 2) || (36 <? radix) then None else
  let idx := radix + (32 - bits_of radix) - 33 in
  if (idx <? 0) || (Z.of_nat (length ALL_radixes) <=? idx) then None else
  let ret := params_new (nth (Z.to_nat idx) ALL_radixes 0) in
  if rp_radix ret =? radix then Some ret else None.

Definition rp_div_limb (rp : rparams) : Z := r_d (rp_recip rp) / 2 ^ r_shift (rp_recip rp).   (* Reciprocal::divisor() *)

(* "Output the individual digits" *)
Fixpoint emit_digits (cnt : nat) (radix dw : Z) (written : list Z) : Z * list Z :=
  match cnt with
  | O => (dw, written)
  | S c => emit_digits c radix (dw / radix) (digit_char ((dw mod radix) mod 256) :: written)
  end.

(* one round of the main loop of encode_limbs: [act] = limbs[..limb_count]; returns (limbs[..limb_count'], hi', digits_word) *)
Definition enc_step (fixed : bool) (rp : rparams) (act : list Z) (hi : Z) : list Z * Z * Z :=
  match act with
  | [] => ([], 0, hi)
  | _ =>
      let rc := rp_recip rp in
      let lshift := r_shift rc in
      let '(sh, c) := shl_limb act lshift in
      let carry := if 0 <? lshift then Z.lor c (wshl hi lshift) else hi in
      let '(qs, rem) := divlimb_go (rev sh) carry rc in
      let q := rev qs in
      let top := last q 0 in
      let small := if fixed then top <? rp_div_limb rp else wshl top lshift <? rp_div_limb rp in
      if small then (removelast q, top, rem / 2 ^ lshift) else (q, 0, rem / 2 ^ lshift)
  end.

Fixpoint enc_loop (fuel : nat) (fixed : bool) (rp : rparams) (act : list Z) (hi : Z)
                  (out_idx : nat) (written : list Z) : list Z :=
  match fuel with
  | O => repeat 48 out_idx ++ written
  | S f =>
      let '(act', hi', dw) := enc_step fixed rp act hi in
      let cnt := Nat.min (rp_digits_limb rp) out_idx in
      let '(_, w') := emit_digits cnt (rp_radix rp) dw written in
      let oi := (out_idx - cnt)%nat in
      if Nat.eqb oi 0 then w' else enc_loop f fixed rp act' hi' oi w'
  end.

(* the large-divisor loop: divide by div_large, encode the remainder into the next digits_large places *)
Fixpoint large_go (fuel : nat) (fixed : bool) (rp : rparams) (act : list Z) (out_idx : nat) (written : list Z)
  : list Z * nat * list Z :=
  match fuel with
  | O => (act, out_idx, written)
  | S f =>
      if Nat.leb RADIX_LIMBS_LARGE (length act) then
        let '(q, remain) := boxed_div_rem_in_place act (rp_div_large rp) in
        let lc := (length act + 1 - RADIX_LIMBS_LARGE)%nat in
        let lc := if nthz q (lc - 1) =? 0 then (lc - 1)%nat else lc in
        let next_idx := (out_idx - rp_digits_large rp)%nat in      (* saturating_sub *)
        let m := (out_idx - next_idx)%nat in
        let chunk := enc_loop (S m) fixed rp remain 0 m [] in
        large_go f fixed rp (firstn lc q) next_idx (chunk ++ written)
      else (act, out_idx, written)
  end.

Definition encode_limbs (fixed : bool) (rp : rparams) (limbs : list Z) (size : nat) : list Z :=
  let '(act, oi, w) :=
    if Nat.ltb RADIX_LIMBS_LARGE (length limbs) then large_go (length limbs) fixed rp limbs size []
    else (limbs, size, []) in
  enc_loop (S oi) fixed rp act 0 oi w.

(* while skip + 1 < size && out[skip] == b'0' *)
Fixpoint strip_zeros (out : list Z) : list Z :=
  match out with
  | c :: (_ :: _) as t => if c =? 48 then strip_zeros t else out
  | _ => out
  end.

Definition div_ceil_nat (a b : Z) : nat := Z.to_nat (if 0 <? a mod b then a / b + 1 else a / b).

(* radix_encode_limbs_mut_to_string; None = panic *)
Definition radix_encode_limbs_to_string (fixed : bool) (radix : Z) (limbs : list Z) : option (list Z) :=
  if (radix <? 2) || (36 <? radix) then None
  else if is_power_of_two radix then
    let bits := trailing_zeros radix in
    let size := div_ceil_nat (lenZ limbs * 64) bits in
    Some (strip_zeros (radix_encode_limbs_by_shifting radix limbs size))
  else match for_radix radix with
       | None => None
       | Some rp =>
           let size := (length limbs * (rp_digits_limb rp + 1))%nat in
           Some (strip_zeros (encode_limbs fixed rp limbs size))
       end.

(* ------------------------------------------------------------------------------------------ *)
(** * Specification: numerals and their values *)

(* canonical lowercase numeral: most significant digit first, no leading zero, "0" for zero *)
Fixpoint be_digits (fuel : nat) (r x : Z) (acc : list Z) : list Z :=
  match fuel with
  | O => acc
  | S f => if x =? 0 then acc else be_digits f r (x / r) (x mod r :: acc)
  end.
Definition sp_digit_char (d : Z) : Z := if d <? 10 then 48 + d else 87 + d.
Definition numeral (r x : Z) : list Z :=
  if x <=? 0 then [48] else map sp_digit_char (be_digits (Z.to_nat (Z.log2 x + 1)) r x []).

(* the digit a character denotes in any radix up to 36 *)
Definition sp_char_val (c : Z) : option Z :=
  if (48 <=? c) && (c <=? 57) then Some (c - 48)
  else if (97 <=? c) && (c <=? 122) then Some (c - 87)
  else if (65 <=? c) && (c <=? 90) then Some (c - 55)
  else None.
Definition is_digit_of (r c : Z) : bool :=
  match sp_char_val c with Some d => d <? r | None => false end.
(* the part after the optional sign *)
Definition sp_body (s : list Z) : list Z := match s with 43 :: t => t | _ => s end.
(* a numeral: optional '+', then digits of the radix with single or repeated '_' between digits,
   neither first nor last *)
Definition well_formedb (r : Z) (s : list Z) : bool :=
  let b := sp_body s in
  match b with
  | [] => false
  | c0 :: _ => negb (c0 =? 95) && negb (last b 0 =? 95) && forallb (fun c => (c =? 95) || is_digit_of r c) b
  end.
Definition well_formed (r : Z) (s : list Z) : Prop := well_formedb r s = true.
Definition sp_digit_vals (b : list Z) : list Z :=
  flat_map (fun c => match sp_char_val c with Some d => [d] | None => [] end) b.
(* the value a numeral denotes *)
Definition value (r : Z) (s : list Z) : Z := horner r (sp_digit_vals (sp_body s)).

Definition sp_nlimbs (v : Z) : nat := Nat.max 1 (Z.to_nat ((bits_of v + 63) / 64)).
Definition sp_radix_ok (r : Z) : bool := (2 <=? r) && (r <=? 36).

(* parse: [limit] = first value that does not fit the limbs, [plimit] = first value beyond the precision *)
Definition sp_parse (r : Z) (s : list Z) (nl : Z -> nat) (limit plimit : Z) : outcome :=
  if negb (bytes_ok s) then Unsupported
  else if negb (sp_radix_ok r) then PanicV
  else match sp_body s with
       | [] => ErrV E_Empty
       | _ =>
           if negb (well_formedb r s) then ErrV E_InvalidDigit
           else let v := value r s in
                if limit <=? v then ErrV E_InputSize
                else if plimit <=? v then ErrV E_Precision
                else Val [to_limbs (nl v) v]
       end.
Definition sp_format (r : Z) (ls : list Z) : outcome :=
  match ls with
  | [] => Unsupported
  | _ => if negb (wfb ls) then Unsupported
         else if negb (sp_radix_ok r) then PanicV else Val [numeral r (eval ls)]
  end.

(* ------------------------------------------------------------------------------------------ *)
(** * Op tables *)
Open Scope string_scope. Open Scope Z_scope. Open Scope list_scope.

Definition rx_nat (i : nat) (a : list (list Z)) : nat := Z.to_nat (sarg i a).
Definition m_format (ls : list Z) (radix : Z) : outcome :=
  match ls with
  | [] => Unsupported
  | _ => match radix_encode_limbs_to_string true radix ls with Some s => Val [s] | None => PanicV end
  end.
(* format, then parse the result back at the same width *)
Definition m_uint_roundtrip (ls : list Z) (radix : Z) : outcome :=
  match m_format ls radix with Val [s] => uint_from_str_radix (length ls) s radix | o => o end.
Definition m_boxed_roundtrip (ls : list Z) (radix : Z) : outcome :=
  match m_format ls radix with Val [s] => boxed_from_str_radix_prec s radix (64 * lenZ ls) | o => o end.

Definition ops_radix_model : list (string * opfn) := [
  ("uint.from_str_radix", fun _ a => uint_from_str_radix (rx_nat 2 a) (arg 0 a) (sarg 1 a));
  ("boxed.from_str_radix", fun _ a => boxed_from_str_radix (arg 0 a) (sarg 1 a));
  ("boxed.from_str_radix_prec", fun _ a => boxed_from_str_radix_prec (arg 0 a) (sarg 1 a) (sarg 2 a));
  ("uint.to_string_radix", fun _ a => m_format (arg 0 a) (sarg 1 a));
  ("boxed.to_string_radix", fun _ a => m_format (arg 0 a) (sarg 1 a));
  ("uint.radix_roundtrip", fun _ a => m_uint_roundtrip (arg 0 a) (sarg 1 a));
  ("boxed.radix_roundtrip", fun _ a => m_boxed_roundtrip (arg 0 a) (sarg 1 a))
].

Definition sp_prec_limbs (p : Z) : nat := Nat.max 1 (Z.to_nat ((p + 63) / 64)).
Definition sp_roundtrip (ls : list Z) (r : Z) : outcome :=
  match ls with
  | [] => Unsupported
  | _ => if negb (wfb ls) then Unsupported
         else if negb (sp_radix_ok r) then PanicV else Val [to_limbs (length ls) (eval ls)]
  end.

Definition ops_radix_spec : list (string * opfn) := [
  ("uint.from_str_radix", fun _ a =>
     let n := rx_nat 2 a in sp_parse (sarg 1 a) (arg 0 a) (fun _ => n) (Bn n) (Bn n));
  ("boxed.from_str_radix", fun _ a =>
     let v := value (sarg 1 a) (arg 0 a) in sp_parse (sarg 1 a) (arg 0 a) sp_nlimbs (v + 1) (v + 1));
  ("boxed.from_str_radix_prec", fun _ a =>
     let p := sarg 2 a in let n := sp_prec_limbs p in
     if (p <? 0) || (2 ^ 32 <=? p) then Unsupported
     else sp_parse (sarg 1 a) (arg 0 a) (fun _ => n) (Bn n) (2 ^ p));
  ("uint.to_string_radix", fun _ a => sp_format (sarg 1 a) (arg 0 a));
  ("boxed.to_string_radix", fun _ a => sp_format (sarg 1 a) (arg 0 a));
  ("uint.radix_roundtrip", fun _ a => sp_roundtrip (arg 0 a) (sarg 1 a));
  ("boxed.radix_roundtrip", fun _ a => sp_roundtrip (arg 0 a) (sarg 1 a))
].
