(** C07: modular add/sub/neg/double/mul(special) on Uint and BoxedUint.
    Models of src/uint/{add_mod,sub_mod,neg_mod,mul_mod}.rs and the boxed twins. *)
From CB Require Export Model.Limbs Model.AddSub Model.Mul Model.Div.
Open Scope Z_scope. Open Scope list_scope.

Definition bitand_limb (p : list Z) (mask : Z) : list Z := map (fun x => wand x mask) p.
Definition from_word_n (n : nat) (x : Z) : list Z := resize n [x].
Definition from_wide_word_n (n : nat) (x : Z) : list Z := resize n [x mod B; x / B].

(* add, trial-subtract p, re-add p under (borrow and not carry) *)
Definition add_mod_tail (w : list Z) (carry : Z) (p : list Z) : list Z :=
  let '(w1, borrow) := sbb_limbs w p 0 in
  let '(_, mask) := sbb carry 0 borrow in
  uint_wrapping_add w1 (bitand_limb p mask).
Definition add_mod (a b p : list Z) : list Z :=
  let '(w, carry) := adc_limbs a b 0 in add_mod_tail w carry p.
(* overflowing_shl1: value-level (owned by C05) *)
Definition shl1_val (a : list Z) : list Z * Z :=
  let n := length a in (to_limbs n ((2 * eval a) mod Bn n), (2 * eval a) / Bn n).
Definition double_mod (a p : list Z) : list Z :=
  let '(w, carry) := shl1_val a in add_mod_tail w carry p.
Definition add_mod_special (a b : list Z) (c : Z) : list Z :=
  let '(out, carry) := adc_limbs a b c in
  let l := wand (wsub carry 1) c in
  uint_wrapping_sub out (from_word_n (length a) l).
Definition sub_mod (a b p : list Z) : list Z :=
  let '(out, mask) := sbb_limbs a b 0 in uint_wrapping_add out (bitand_limb p mask).
Definition sub_mod_special (a b : list Z) (c : Z) : list Z :=
  let '(out, borrow) := sbb_limbs a b 0 in
  uint_wrapping_sub out (from_word_n (length a) (wand borrow c)).
Definition neg_mod (a p : list Z) : list Z :=
  let z := if forallb (fun x => x =? 0) a then 0 else MAXW in
  map (fun x => if_true_word z x) (fst (sbb_limbs p a 0)).
Definition neg_mod_special (a : list Z) (c : Z) : list Z := sub_mod_special (zeros (length a)) a c.

Fixpoint mac_by_limb (a b : list Z) (c carry : Z) : list Z * Z :=
  match a, b with
  | x :: a', y :: b' => let '(v, cy) := mac x y c carry in
                        let '(r, cf) := mac_by_limb a' b' c cy in (v :: r, cf)
  | _, _ => ([], carry)
  end.

(* HAC 14.47 for p = 2^BITS - c;  None = zero divisor (c = 0 at one limb). `carry + 1` is computed in the wide word. *)
Definition mul_mod_special (dbg : bool) (mulf : list Z -> list Z -> list Z * list Z) (a b : list Z) (c : Z) : option (list Z) :=
  let n := length a in
  if (n =? 1)%nat then
    let d := wsub 0 c in
    if d =? 0 then None else
    let '(hi, lo) := mulhilo (nthz a 0) (nthz b 0) in
    Some [rem_limb_with_reciprocal [lo; hi] (recip_new d)]
  else
    let '(lo, hi) := mulf a b in
    let '(lo, carry) := mac_by_limb lo hi c 0 in
    let rhs := (carry + 1) * c in
    let '(lo, carry) := adc_limbs lo (from_wide_word_n n rhs) 0 in
    let rhs2 := wand (wsub carry 1) c in
    Some (fst (sbb_limbs lo (from_word_n n rhs2) 0)).

Definition uint_mul_mod_vartime (a b p : list Z) : list Z :=
  let '(lo, hi) := uint_split_mul a b in rem_wide_vartime lo hi p.
Definition boxed_split_mul (a b : list Z) : list Z * list Z := split_at (length a) (boxed_mul a b).

(* ---- op tables ---- *)
Open Scope string_scope. Open Scope Z_scope. Open Scope list_scope.

Definition ops_modarith_model : list (string * opfn) := [
  ("uint.add_mod", fun _ a => Val [add_mod (arg 0 a) (arg 1 a) (arg 2 a)]);
  ("uint.double_mod", fun _ a => Val [double_mod (arg 0 a) (arg 1 a)]);
  ("uint.add_mod_special", fun _ a => Val [add_mod_special (arg 0 a) (arg 1 a) (sarg 2 a)]);
  ("uint.sub_mod", fun _ a => Val [sub_mod (arg 0 a) (arg 1 a) (arg 2 a)]);
  ("uint.sub_mod_special", fun _ a => Val [sub_mod_special (arg 0 a) (arg 1 a) (sarg 2 a)]);
  ("uint.neg_mod", fun _ a => Val [neg_mod (arg 0 a) (arg 1 a)]);
  ("uint.neg_mod_special", fun _ a => Val [neg_mod_special (arg 0 a) (sarg 1 a)]);
  ("uint.mul_mod_special", fun dbg a => vpanic_none (mul_mod_special dbg uint_split_mul (arg 0 a) (arg 1 a) (sarg 2 a)));
  ("uint.mul_mod_vartime", fun _ a => Val [uint_mul_mod_vartime (arg 0 a) (arg 1 a) (arg 2 a)]);
  ("uint.mul_mod_trait", fun _ a => if forallb (fun x => x =? 0) (arg 2 a) then PanicV else Val [uint_mul_mod_vartime (arg 0 a) (arg 1 a) (arg 2 a)]);
  (* mul_mod goes through Montgomery form (C08): value level here *)
  ("uint.mul_mod", fun _ a => if Z.even (ev 2 a) then PanicV else Val [to_limbs (ln 0 a) ((ev 0 a * ev 1 a) mod ev 2 a)]);
  ("boxed.add_mod", fun _ a => Val [add_mod (arg 0 a) (arg 1 a) (arg 2 a)]);
  ("boxed.double_mod", fun _ a => Val [double_mod (arg 0 a) (arg 1 a)]);
  ("boxed.sub_mod", fun _ a => Val [sub_mod (arg 0 a) (arg 1 a) (arg 2 a)]);
  ("boxed.sub_mod_special", fun _ a => Val [sub_mod_special (arg 0 a) (arg 1 a) (sarg 2 a)]);
  ("boxed.neg_mod", fun _ a => Val [neg_mod (arg 0 a) (arg 1 a)]);
  ("boxed.neg_mod_special", fun _ a => Val [neg_mod_special (arg 0 a) (sarg 1 a)]);
  ("boxed.mul_mod_special", fun dbg a => vpanic_none (mul_mod_special dbg boxed_split_mul (arg 0 a) (arg 1 a) (sarg 2 a)));
  ("boxed.mul_mod", fun _ a => if Z.even (ev 2 a) then PanicV else Val [to_limbs (ln 0 a) ((ev 0 a * ev 1 a) mod ev 2 a)])
].

(* Spec: canonical residue, inside the documented preconditions only *)
Definition dom2 (a : list (list Z)) (pi : nat) (o : outcome) : outcome :=
  let p := ev pi a in
  if (ev 0 a <? p) && (ev 1 a <? p) && (ln 0 a =? ln pi a)%nat && (ln 0 a =? ln 1 a)%nat then o else Unsupported.
Definition dom1 (a : list (list Z)) (o : outcome) : outcome :=
  if (ev 0 a <? ev 1 a) && (ln 0 a =? ln 1 a)%nat then o else Unsupported.
(* special modulus p = 2^BITS - c, 1 <= c <= MAX *)
Definition psp (n : nat) (c : Z) : Z := Bn n - c.
Definition doms (a : list (list Z)) (binary : bool) (c : Z) (o : outcome) : outcome :=
  let p := psp (ln 0 a) c in
  if (1 <=? c) && (c <? B) && (0 <? p) && (ev 0 a <? p) && (if binary then (ev 1 a <? p) && (ln 0 a =? ln 1 a)%nat else true)
  then o else Unsupported.
Definition rmod (n : nat) (x p : Z) : outcome := Val [to_limbs n (x mod p)].

Definition ops_modarith_spec : list (string * opfn) := [
  ("uint.add_mod", fun _ a => dom2 a 2 (rmod (ln 0 a) (ev 0 a + ev 1 a) (ev 2 a)));
  ("uint.double_mod", fun _ a => dom1 a (rmod (ln 0 a) (2 * ev 0 a) (ev 1 a)));
  ("uint.add_mod_special", fun _ a => doms a true (sarg 2 a) (rmod (ln 0 a) (ev 0 a + ev 1 a) (psp (ln 0 a) (sarg 2 a))));
  ("uint.sub_mod", fun _ a => dom2 a 2 (rmod (ln 0 a) (ev 0 a - ev 1 a) (ev 2 a)));
  ("uint.sub_mod_special", fun _ a => doms a true (sarg 2 a) (rmod (ln 0 a) (ev 0 a - ev 1 a) (psp (ln 0 a) (sarg 2 a))));
  ("uint.neg_mod", fun _ a => dom1 a (rmod (ln 0 a) (- ev 0 a) (ev 1 a)));
  ("uint.neg_mod_special", fun _ a => doms a false (sarg 1 a) (rmod (ln 0 a) (- ev 0 a) (psp (ln 0 a) (sarg 1 a))));
  ("uint.mul_mod_special", fun _ a => doms a true (sarg 2 a) (rmod (ln 0 a) (ev 0 a * ev 1 a) (psp (ln 0 a) (sarg 2 a))));
  ("uint.mul_mod_vartime", fun _ a => if ev 2 a =? 0 then Unsupported else rmod (ln 0 a) (ev 0 a * ev 1 a) (ev 2 a));
  ("uint.mul_mod_trait", fun _ a => if ev 2 a =? 0 then PanicV else rmod (ln 0 a) (ev 0 a * ev 1 a) (ev 2 a));
  ("uint.mul_mod", fun _ a => if Z.even (ev 2 a) then Unsupported else rmod (ln 0 a) (ev 0 a * ev 1 a) (ev 2 a));
  ("boxed.add_mod", fun _ a => dom2 a 2 (rmod (ln 0 a) (ev 0 a + ev 1 a) (ev 2 a)));
  ("boxed.double_mod", fun _ a => dom1 a (rmod (ln 0 a) (2 * ev 0 a) (ev 1 a)));
  ("boxed.sub_mod", fun _ a => dom2 a 2 (rmod (ln 0 a) (ev 0 a - ev 1 a) (ev 2 a)));
  ("boxed.sub_mod_special", fun _ a => doms a true (sarg 2 a) (rmod (ln 0 a) (ev 0 a - ev 1 a) (psp (ln 0 a) (sarg 2 a))));
  ("boxed.neg_mod", fun _ a => dom1 a (rmod (ln 0 a) (- ev 0 a) (ev 1 a)));
  ("boxed.neg_mod_special", fun _ a => doms a false (sarg 1 a) (rmod (ln 0 a) (- ev 0 a) (psp (ln 0 a) (sarg 1 a))));
  ("boxed.mul_mod_special", fun _ a => doms a true (sarg 2 a) (rmod (ln 0 a) (ev 0 a * ev 1 a) (psp (ln 0 a) (sarg 2 a))));
  (* even moduli: documented as unsupported (todo!() panics) *)
  ("boxed.mul_mod", fun _ a => if Z.even (ev 2 a) then Unsupported
                              else if (ln 0 a =? ln 2 a)%nat && (ln 1 a =? ln 2 a)%nat then rmod (ln 0 a) (ev 0 a * ev 1 a) (ev 2 a) else Unsupported)
].
