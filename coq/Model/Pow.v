(** C09: modular exponentiation, multi-exponentiation and linear combination of Montgomery-form values.
    Models of src/modular/pow.rs (shared 4-bit fixed-window ladder of MontyForm / ConstMontyForm),
    src/modular/boxed_monty_form/pow.rs (ladder on almost-reduced values, two final conditional subtractions),
    src/modular/lincomb.rs (Longa's interleaved sum of products, the three window drivers) and the trait fronts.

    Limb level here: exponent limb / window / mask selection, the table scan, the whole lincomb accumulation with
    its two-level carry (hi, hi_carry), sub_mod_with_carry, the boxed conditional subtractions.
    Value level here (limb-level model and proofs are owned by C08): Montgomery multiplication / squaring
    (x*y*R^-1 mod m), almost-Montgomery multiplication ((x*y + q*m)/R with the overflow subtraction), the parameters
    one = R mod m, mod_neg_inv, mod_leading_zeros, conversion into Montgomery form and retrieve.
    Executable definitions only; all proofs are in Proofs/Pow*P.v. *)
From CB Require Export Model.Limbs Model.AddSub Model.ModArith Model.Cmp.
Open Scope Z_scope. Open Scope list_scope.

(* ------------------------------------------------------------------ *)
(** * Value-level Montgomery context (C08) *)

(* x/2 mod m for odd m *)
Definition half_mod (m x : Z) : Z := if Z.even x then x / 2 else (x + m) / 2.
(* 2^-k mod m *)
Definition pow2_inv (k : nat) (m : Z) : Z := Nat.iter k (half_mod m) (1 mod m).
(* -m^-1 mod 2^k, from 2^k * 2^-k - m * m' = 1 *)
Definition neg_inv_pow2 (k : nat) (m : Z) : Z :=
  ((2 ^ Z.of_nat k * pow2_inv k m - 1) / m) mod 2 ^ Z.of_nat k.

Definition mg_rinv (n : nat) (m : Z) : Z := pow2_inv (64 * n) m.         (* R^-1 mod m, R = 2^(64 n) *)
Definition mg_neg_inv (m : Z) : Z := neg_inv_pow2 64 m.                  (* params.mod_neg_inv *)
Definition mg_neg_inv_full (n : nat) (m : Z) : Z := neg_inv_pow2 (64 * n) m.   (* -m^-1 mod R *)
Definition mg_one (n : nat) (m : Z) : Z := Bn n mod m.                   (* params.one = R mod m *)
Definition zbits (m : Z) : Z := if m <=? 0 then 0 else Z.log2 m + 1.
Definition mg_lz (n : nat) (m : Z) : Z := Z.min 63 (64 * Z.of_nat n - zbits m).   (* params.mod_leading_zeros *)

(* mul_montgomery_form / square_montgomery_form: canonical x*y*R^-1 mod m *)
Definition mmul_v (n : nat) (m rinv : Z) (x y : list Z) : list Z := to_limbs n ((eval x * eval y * rinv) mod m).
Definition to_monty_v (n : nat) (m : Z) (x : list Z) : list Z := to_limbs n ((eval x * Bn n) mod m).
Definition retrieve_v (n : nat) (m rinv : Z) (z : list Z) : list Z := to_limbs n ((eval z * rinv) mod m).

(* almost_montgomery_mul: (x*y + q*m) / R with q = -x*y/m mod R; subtract m once if the result overflows R *)
Definition amm_z (n : nat) (m m' : Z) (x y : Z) : Z :=
  let R := Bn n in
  let t := x * y in
  let q := (t * m') mod R in
  let r := (t + q * m) / R in
  if r <? R then r else r - m.
Definition amm_v (n : nat) (m m' : Z) (x y : list Z) : list Z := to_limbs n (amm_z n m m' (eval x) (eval y)).

(* ------------------------------------------------------------------ *)
(** * src/modular/pow.rs : the shared fixed-width ladder *)

Section Ladder.
Variable mmul : list Z -> list Z -> list Z.      (* mul_montgomery_form(_, _, modulus, mod_neg_inv) *)
Variable msq : list Z -> list Z.                 (* square_montgomery_form *)

(* powers[0] = one, powers[1] = x, powers[i] = powers[i-1] * x  for i in 2..16 *)
Fixpoint powers_loop (x prev : list Z) (cnt : nat) : list (list Z) :=
  match cnt with
  | O => []
  | S c => let p := mmul prev x in p :: powers_loop x p c
  end.
Definition compute_powers (one x : list Z) : list (list Z) := one :: x :: powers_loop x x 14.

(* power = powers[0]; for j in 1..16 { power = Uint::select(&power, &powers[j], from_word_eq(j, idx)) } *)
Fixpoint lookup_loop (rest : list (list Z)) (j idx : Z) (power : list Z) : list Z :=
  match rest with
  | [] => power
  | p :: r => lookup_loop r (j + 1) idx (select_limbs (from_word_eq j idx) power p)
  end.
Definition ct_lookup (powers : list (list Z)) (idx : Z) : list Z :=
  match powers with [] => [] | p0 :: r => lookup_loop r 1 idx p0 end.

(* starting_limb, starting_window, starting_window_mask from exponent_bits >= 1 *)
Definition start_limb (k : Z) : nat := Z.to_nat ((k - 1) / 64).
Definition start_bit (k : Z) : Z := (k - 1) mod 64.
Definition start_window (k : Z) : nat := Z.to_nat (start_bit k / 4).
Definition start_mask (k : Z) : Z := wshl 1 (start_bit k mod 4 + 1) - 1.
Definition window_idx (w : Z) (window_num : nat) : Z := wand (wshr w (Z.of_nat window_num * 4)) 15.

(* inner loop over the bases: one table lookup and one multiplication per base *)
Fixpoint bases_loop (pes : list (list (list Z) * list Z)) (limb_num window_num : nat) (top : bool) (smask : Z)
                    (z : list Z) : list Z :=
  match pes with
  | [] => z
  | (powers, e) :: r =>
      let w := nthz e limb_num in
      let idx := window_idx w window_num in
      let idx := if top then wand idx smask else idx in
      bases_loop r limb_num window_num top smask (mmul z (ct_lookup powers idx))
  end.

(* while window_num > 0 { window_num -= 1; 4 squarings unless this is the top window; bases } *)
Fixpoint window_loop (pes : list (list (list Z) * list Z)) (limb_num sl sw : nat) (smask : Z) (wn : nat)
                     (z : list Z) : list Z :=
  match wn with
  | O => z
  | S window_num =>
      let top := (limb_num =? sl)%nat && (window_num =? sw)%nat in
      let z := if top then z else msq (msq (msq (msq z))) in
      window_loop pes limb_num sl sw smask window_num (bases_loop pes limb_num window_num top smask z)
  end.

(* while limb_num > 0 { limb_num -= 1; windows of this limb } *)
Fixpoint limb_loop (pes : list (list (list Z) * list Z)) (sl sw : nat) (smask : Z) (ln : nat) (z : list Z) : list Z :=
  match ln with
  | O => z
  | S limb_num =>
      let wn := if (limb_num =? sl)%nat then S sw else 16%nat in
      limb_loop pes sl sw smask limb_num (window_loop pes limb_num sl sw smask wn z)
  end.

Definition multi_exp_internal (one : list Z) (pes : list (list (list Z) * list Z)) (k : Z) : list Z :=
  limb_loop pes (start_limb k) (start_window k) (start_mask k) (S (start_limb k)) one.

(* multi_exponentiate_montgomery_form_array: while i < N { powers_and_exponents[i] = ... } *)
Fixpoint powers_array (one : list Z) (bes : list (list Z * list Z)) : list (list (list Z) * list Z) :=
  match bes with
  | [] => []
  | (b, e) :: r => (compute_powers one b, e) :: powers_array one r
  end.
Definition multi_exp_array (one : list Z) (bes : list (list Z * list Z)) (k : Z) : list Z :=
  if k =? 0 then one else multi_exp_internal one (powers_array one bes) k.
(* multi_exponentiate_montgomery_form_slice: iter().map().collect() *)
Definition multi_exp_slice (one : list Z) (bes : list (list Z * list Z)) (k : Z) : list Z :=
  if k =? 0 then one
  else multi_exp_internal one (map (fun be => (compute_powers one (fst be), snd be)) bes) k.
(* pow_montgomery_form = multi_exponentiate_montgomery_form_array(&[(x, e)], ..) *)
Definition pow_montgomery_form (one x e : list Z) (k : Z) : list Z := multi_exp_array one [(x, e)] k.
(* inherent pow / the Pow blanket impl of src/traits.rs: pow_bounded_exp(e, Exponent::BITS) *)
Definition pow_full (one x e : list Z) : list Z := pow_montgomery_form one x e (bitsZ e).
Definition multi_exp_full_array (one : list Z) (bes : list (list Z * list Z)) (ebits : Z) : list Z :=
  multi_exp_array one bes ebits.
End Ladder.

(* ------------------------------------------------------------------ *)
(** * src/modular/boxed_monty_form/pow.rs *)

Section BoxedLadder.
Variable amm : list Z -> list Z -> list Z.       (* BoxedMontyMultiplier::mul_amm / mul_amm_assign / square_amm_assign *)

Fixpoint bpowers_loop (x prev : list Z) (cnt : nat) : list (list Z) :=
  match cnt with
  | O => []
  | S c => let p := amm prev x in p :: bpowers_loop x p c
  end.
Definition boxed_powers (one x : list Z) : list (list Z) := one :: x :: bpowers_loop x x 14.

(* power.limbs.copy_from_slice(&powers[0].limbs); for i in 1..16 { power.ct_assign(&powers[i], i.ct_eq(&idx)) } *)
Fixpoint blookup_loop (rest : list (list Z)) (j idx : Z) (power : list Z) : list Z :=
  match rest with
  | [] => power
  | p :: r => blookup_loop r (j + 1) idx (ct_select_limbs power p (st_ct_eq j idx))
  end.
Definition boxed_lookup (powers : list (list Z)) (idx : Z) : list Z :=
  match powers with [] => [] | p0 :: r => blookup_loop r 1 idx p0 end.

End BoxedLadder.

(* for _ in 1..=WINDOW { multiplier.square_amm_assign(&mut z) } *)
Definition sq4 (amm : list Z -> list Z -> list Z) (z : list Z) : list Z :=
  let s := fun v => amm v v in s (s (s (s z))).

Section BoxedLadder2.
Variable amm : list Z -> list Z -> list Z.
Fixpoint bwin_loop (powers : list (list Z)) (w : Z) (limb_num sl sw : nat) (smask : Z) (wn : nat)
                   (z : list Z) : list Z :=
  match wn with
  | O => z
  | S window_num =>
      let idx := window_idx w window_num in
      let top := (limb_num =? sl)%nat && (window_num =? sw)%nat in
      let idx := if top then wand idx smask else idx in
      let z := if top then z else sq4 amm z in
      bwin_loop powers w limb_num sl sw smask window_num (amm z (boxed_lookup powers idx))
  end.
(* for limb_num in (0..=starting_limb).rev() *)
Fixpoint blimb_loop (powers : list (list Z)) (e : list Z) (sl sw : nat) (smask : Z) (ln : nat) (z : list Z) : list Z :=
  match ln with
  | O => z
  | S limb_num =>
      let w := nthz e limb_num in
      let wn := if (limb_num =? sl)%nat then S sw else 16%nat in
      blimb_loop powers e sl sw smask limb_num (bwin_loop powers w limb_num sl sw smask wn z)
  end.
End BoxedLadder2.

(* z.conditional_sbb_assign(modulus, !z.ct_lt(modulus)) *)
Definition cond_sbb (z m : list Z) (choice : Z) : list Z :=
  fst (sbb_limbs z (bitand_limb m (st_select 0 MAXW choice)) 0).
Definition reduce_once (z m : list Z) : list Z := cond_sbb z m (ch_not (boxed_ct_lt z m)).

Definition boxed_pow_montgomery_form (amm : list Z -> list Z -> list Z) (m one x e : list Z) (k : Z) : list Z :=
  if k =? 0 then one else
  let powers := boxed_powers amm one x in
  let z := blimb_loop amm powers e (start_limb k) (start_window k) (start_mask k) (S (start_limb k)) one in
  reduce_once (reduce_once z m) m.

(* ------------------------------------------------------------------ *)
(** * src/modular/lincomb.rs *)

(* while k < nlimbs { (u[k], carry) = u[k].mac(ai[j], bi[k], carry) } *)
Fixpoint mac_row (u b : list Z) (aj carry : Z) : list Z * Z :=
  match u, b with
  | x :: u', y :: b' =>
      let '(v, cy) := mac x aj y carry in
      let '(r, cf) := mac_row u' b' aj cy in (v :: r, cf)
  | _, _ => ([], carry)
  end.

(* while i < len { row ; (hi, carry) = hi.adc(carry, 0); hi_carry = hi_carry.wrapping_add(carry) } *)
Fixpoint acc_terms (prods : list (list Z * list Z)) (j : nat) (u : list Z) (hi hic : Z) : list Z * Z * Z :=
  match prods with
  | [] => (u, hi, hic)
  | (a, b) :: r =>
      let '(u1, carry) := mac_row u b (nthz a j) 0 in
      let '(hi1, c1) := adc hi carry 0 in
      acc_terms r j u1 hi1 (wadd hic c1)
  end.

(* i = 1; while i < nlimbs { (u[i-1], carry) = u[i].mac(q, modulus[i], carry) } *)
Fixpoint red_row (u m : list Z) (q carry : Z) : list Z * Z :=
  match u, m with
  | x :: u', y :: m' =>
      let '(v, cy) := mac x q y carry in
      let '(r, cf) := red_row u' m' q cy in (v :: r, cf)
  | _, _ => ([], carry)
  end.

Definition red_step (u m : list Z) (ninv hi hic : Z) : list Z * Z :=
  match u, m with
  | u0 :: ut, m0 :: mt =>
      let q := wmul u0 ninv in
      let '(_, carry) := mac u0 q m0 0 in
      let '(r, carry) := red_row ut mt q carry in
      let '(top, c2) := adc hi carry 0 in
      (r ++ [top], wadd hic c2)
  | _, _ => (u, hic)
  end.

(* while j < nlimbs { hi = hi_carry; hi_carry = 0; accumulate; reduce one limb } *)
Fixpoint lincomb_loop (prods : list (list Z * list Z)) (m : list Z) (ninv : Z) (j cnt : nat) (u : list Z) (hic : Z)
  : list Z * Z :=
  match cnt with
  | O => (u, hic)
  | S c =>
      let '(u1, hi, hic1) := acc_terms prods j u hic 0 in
      let '(u2, hic2) := red_step u1 m ninv hi hic1 in
      lincomb_loop prods m ninv (S j) c u2 hic2
  end.
(* impl_longa_monty_lincomb!(products, ret.limbs, modulus, mod_neg_inv, nlimbs) on a zeroed buffer; returns hi_carry *)
Definition longa_lincomb (prods : list (list Z * list Z)) (m : list Z) (ninv : Z) : list Z * Z :=
  lincomb_loop prods m ninv 0 (length m) (zeros (length m)) 0.

(* Uint::sub_mod_with_carry ; None = debug_assert!(carry.0 <= 1) fails *)
Definition carry_mask (carry borrow : Z) : Z := wand (wnot (wneg carry)) borrow.
Definition sub_mod_with_carry (dbg : bool) (a : list Z) (carry : Z) (rhs p : list Z) : option (list Z) :=
  if dbg && (1 <? carry) then None else
  let '(out, borrow) := sbb_limbs a rhs 0 in
  Some (uint_wrapping_add out (bitand_limb p (carry_mask carry borrow))).
(* BoxedUint::sub_assign_mod_with_carry : sbb_assign, conditional_adc_assign(p, !mask.is_zero()) *)
Definition boxed_sub_mod_with_carry (dbg : bool) (a : list Z) (carry : Z) (rhs p : list Z) : option (list Z) :=
  if dbg && (1 <? carry) then None else
  let '(out, borrow) := sbb_limbs a rhs 0 in
  let choice := ch_not (limb_is_zero (carry_mask carry borrow)) in
  Some (fst (adc_limbs out (bitand_limb p (st_select 0 MAXW choice)) 0)).

Definition split_count (prods : list (list Z * list Z)) (max_accum : Z) : nat :=
  Z.to_nat (Z.min (Z.of_nat (length prods)) max_accum).

(* the else-branch loop of lincomb_const_monty_form / lincomb_monty_form *)
Fixpoint lincomb_windows (fuel : nat) (dbg : bool) (prods : list (list Z * list Z)) (m : list Z) (ninv max_accum : Z)
                         (ret : list Z) : option (list Z) :=
  match fuel with
  | O => Some ret
  | S f =>
      match prods with
      | [] => Some ret
      | _ =>
          let count := split_count prods max_accum in
          let '(buf, carry) := longa_lincomb (firstn count prods) m ninv in
          match sub_mod_with_carry dbg buf carry m m with
          | None => None
          | Some buf' => lincomb_windows f dbg (skipn count prods) m ninv max_accum (add_mod ret buf' m)
          end
      end
  end.
Definition lincomb_fixed (dbg : bool) (prods : list (list Z * list Z)) (m : list Z) (ninv lz : Z) : option (list Z) :=
  let max_accum := 2 ^ lz in
  if Z.of_nat (length prods) <=? max_accum then
    let '(u, carry) := longa_lincomb prods m ninv in sub_mod_with_carry dbg u carry m m
  else lincomb_windows (length prods) dbg prods m ninv max_accum (zeros (length m)).

(* lincomb_boxed_monty_form *)
Fixpoint boxed_lincomb_windows (fuel : nat) (dbg : bool) (prods : list (list Z * list Z)) (m : list Z)
                               (ninv max_accum : Z) (ret : list Z) : option (list Z) :=
  match fuel with
  | O => Some ret
  | S f =>
      match prods with
      | [] => Some ret
      | _ =>
          let count := split_count prods max_accum in
          let '(buf, carry) := longa_lincomb (firstn count prods) m ninv in
          match boxed_sub_mod_with_carry dbg buf carry m m with
          | None => None
          | Some buf' =>
              let '(s, c) := adc_limbs ret buf' 0 in
              match boxed_sub_mod_with_carry dbg s c m m with
              | None => None
              | Some ret' => boxed_lincomb_windows f dbg (skipn count prods) m ninv max_accum ret'
              end
          end
      end
  end.
Definition lincomb_boxed (dbg : bool) (prods : list (list Z * list Z)) (m : list Z) (ninv lz : Z) : option (list Z) :=
  let max_accum := 2 ^ lz in
  if Z.of_nat (length prods) <=? max_accum then
    let '(u, carry) := longa_lincomb prods m ninv in boxed_sub_mod_with_carry dbg u carry m m
  else boxed_lincomb_windows (length prods) dbg prods m ninv max_accum (zeros (length m)).

(* ------------------------------------------------------------------ *)
(** * API level: from integers to (as_montgomery(), retrieve()) *)

Fixpoint pairs_of (l : list (list Z)) : list (list Z * list Z) :=
  match l with
  | a :: b :: r => (a, b) :: pairs_of r
  | _ => []
  end.

Definition api_out (n : nat) (m rinv : Z) (z : list Z) : outcome := Val [z; retrieve_v n m rinv z].

(* MontyForm / ConstMontyForm ::new(x).pow_bounded_exp(e, k) *)
Definition api_pow_fixed (mL x e : list Z) (k : Z) : outcome :=
  let n := length mL in let m := eval mL in let rinv := mg_rinv n m in
  if bitsZ e <? k then PanicV else      (* exponent.as_limbs()[starting_limb] is out of bounds *)
  let mm := mmul_v n m rinv in
  api_out n m rinv (pow_montgomery_form mm (fun z => mm z z) (to_limbs n (mg_one n m)) (to_monty_v n m x) e k).

Definition api_multiexp_fixed (slice : bool) (mL : list Z) (k : Z) (bes : list (list Z * list Z)) : outcome :=
  let n := length mL in let m := eval mL in let rinv := mg_rinv n m in
  if negb (k =? 0) && existsb (fun be => bitsZ (snd be) <? k) bes then PanicV else
  let mm := mmul_v n m rinv in
  let bes' := map (fun be => (to_monty_v n m (fst be), snd be)) bes in
  let one := to_limbs n (mg_one n m) in
  api_out n m rinv ((if slice then multi_exp_slice else multi_exp_array) mm (fun z => mm z z) one bes' k).

Definition api_pow_boxed (mL x e : list Z) (k : Z) : outcome :=
  let n := length mL in let m := eval mL in let rinv := mg_rinv n m in
  if bitsZ e <? k then PanicV else
  let am := amm_v n m (mg_neg_inv_full n m) in
  api_out n m rinv (boxed_pow_montgomery_form am mL (to_limbs n (mg_one n m)) (to_monty_v n m x) e k).

Definition api_lincomb (boxed dbg : bool) (mL : list Z) (terms : list (list Z * list Z)) : outcome :=
  let n := length mL in let m := eval mL in let rinv := mg_rinv n m in
  match terms with
  | [] => PanicV                         (* assert!(!products.is_empty(), "empty products") *)
  | _ =>
      let prods := map (fun ab => (to_monty_v n m (fst ab), to_monty_v n m (snd ab))) terms in
      match (if boxed then lincomb_boxed else lincomb_fixed) dbg prods mL (mg_neg_inv m) (mg_lz n m) with
      | None => PanicV
      | Some z => api_out n m rinv z
      end
  end.

(* ------------------------------------------------------------------ *)
(** * Specification: plain modular arithmetic *)

(* a^e mod m by squaring (for e >= 0); proved equal to (a ^ e) mod m *)
Fixpoint powmod_pos (a : Z) (e : positive) (m : Z) : Z :=
  match e with
  | xH => a mod m
  | xO e' => let t := powmod_pos a e' m in (t * t) mod m
  | xI e' => let t := powmod_pos a e' m in (t * t mod m * a) mod m
  end.
Definition powmod (a e m : Z) : Z :=
  match e with
  | Z0 => 1 mod m
  | Zpos p => powmod_pos a p m
  | Zneg _ => 0
  end.

Definition sp_out (n : nat) (m v : Z) : outcome := Val [to_limbs n ((v * Bn n) mod m); to_limbs n v].
Definition sp_modulus_ok (mL : list Z) : bool := Z.odd (eval mL) && negb (length mL =? 0)%nat.
Definition sp_res_ok (mL x : list Z) : bool := (length x =? length mL)%nat && (eval x <? eval mL).

Definition spec_pow (mL x e : list Z) (k : Z) : outcome :=
  if sp_modulus_ok mL && sp_res_ok mL x && (0 <=? k) && (k <=? bitsZ e)
  then sp_out (length mL) (eval mL) (powmod (eval x) (eval e mod 2 ^ k) (eval mL))
  else Unsupported.

Fixpoint prod_pows (bes : list (list Z * list Z)) (k m : Z) : Z :=
  match bes with
  | [] => 1 mod m
  | (b, e) :: r => (powmod (eval b) (eval e mod 2 ^ k) m * prod_pows r k m) mod m
  end.
Definition spec_multiexp (mL : list Z) (k : Z) (bes : list (list Z * list Z)) : outcome :=
  if sp_modulus_ok mL && forallb (fun be => sp_res_ok mL (fst be) && (k <=? bitsZ (snd be))) bes && (0 <=? k)
  then sp_out (length mL) (eval mL) (prod_pows bes k (eval mL))
  else Unsupported.

Fixpoint sum_prods (terms : list (list Z * list Z)) : Z :=
  match terms with
  | [] => 0
  | (a, b) :: r => eval a * eval b + sum_prods r
  end.
Definition spec_lincomb (mL : list Z) (terms : list (list Z * list Z)) : outcome :=
  if sp_modulus_ok mL && forallb (fun ab => sp_res_ok mL (fst ab) && sp_res_ok mL (snd ab)) terms
  then match terms with
       | [] => PanicV           (* documented: "This method will panic if `products` is empty" *)
       | _ => sp_out (length mL) (eval mL) (sum_prods terms mod eval mL)
       end
  else Unsupported.

(* ------------------------------------------------------------------ *)
(** * op tables.  pow: [m; x; e; [k]]   multiexp: [m; [k]; x1; e1; x2; e2; ...]   lincomb: [m; a1; b1; a2; b2; ...]
      every result is the pair (as_montgomery(), retrieve()) *)
Open Scope string_scope. Open Scope Z_scope. Open Scope list_scope.

Definition margs (a : list (list Z)) : list (list Z * list Z) := pairs_of (skipn 2 a).
Definition largs (a : list (list Z)) : list (list Z * list Z) := pairs_of (skipn 1 a).
Definition even_tail (a : list (list Z)) (skip : nat) : bool := Nat.even (length (skipn skip a)).

Definition ops_pow_model : list (string * opfn) := [
  ("pow.fixed", fun _ a => api_pow_fixed (arg 0 a) (arg 1 a) (arg 2 a) (sarg 3 a));
  ("pow.boxed", fun _ a => api_pow_boxed (arg 0 a) (arg 1 a) (arg 2 a) (sarg 3 a));
  ("multiexp.array", fun _ a => api_multiexp_fixed false (arg 0 a) (sarg 1 a) (margs a));
  ("multiexp.slice", fun _ a => api_multiexp_fixed true (arg 0 a) (sarg 1 a) (margs a));
  ("lincomb.fixed", fun dbg a => api_lincomb false dbg (arg 0 a) (largs a));
  ("lincomb.boxed", fun dbg a => api_lincomb true dbg (arg 0 a) (largs a))
].

Definition ops_pow_spec : list (string * opfn) := [
  ("pow.fixed", fun _ a => spec_pow (arg 0 a) (arg 1 a) (arg 2 a) (sarg 3 a));
  ("pow.boxed", fun _ a => spec_pow (arg 0 a) (arg 1 a) (arg 2 a) (sarg 3 a));
  ("multiexp.array", fun _ a => if even_tail a 2 then spec_multiexp (arg 0 a) (sarg 1 a) (margs a) else Unsupported);
  ("multiexp.slice", fun _ a => if even_tail a 2 then spec_multiexp (arg 0 a) (sarg 1 a) (margs a) else Unsupported);
  ("lincomb.fixed", fun _ a => if even_tail a 1 then spec_lincomb (arg 0 a) (largs a) else Unsupported);
  ("lincomb.boxed", fun _ a => if even_tail a 1 then spec_lincomb (arg 0 a) (largs a) else Unsupported)
].
