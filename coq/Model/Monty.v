(** C08: Montgomery forms (MontyForm / ConstMontyForm / BoxedMontyForm) over any operation history.
    Limb-level models, loop for loop, of
      src/modular/reduction.rs            montgomery_reduction_inner (+ meta-carry), montgomery_reduction
      src/uint/sub_mod.rs                 sub_mod_with_carry            (boxed: sub_assign_mod_with_carry)
      src/modular/{mul,add,sub,div_by_2}.rs, src/modular/{monty_form,const_monty_form,boxed_monty_form}/*.rs
      src/modular/boxed_monty_form/mul.rs almost_montgomery_mul (CIOS, ts / ts1 carries, reduction on overflow only),
                                          almost_montgomery_mul_by_one, BoxedMontyMultiplier
      the parameter constructors          MontyParams::new / new_vartime, impl_modulus!, BoxedMontyParams::new / new_vartime
    Value level (owned by other properties, proved there): Uint::rem / rem_vartime / rem_wide_vartime (C02),
    inv_mod2k_vartime (C10; its 64-step loop is kept, on the low word), leading_zeros, shr1 / set_bit (C05).
    The wide products (split_mul, square_wide: C03) and add_mod / sub_mod / neg_mod / double_mod (C07) are the
    limb-level models of Model/Mul.v and Model/ModArith.v.
    `one` follows the REPAIRED code (tools/fix_C08_1.diff): one = (2^BITS - m) mod m.  The expression of the
    unrepaired tree is [params_one_head]; it is refuted at m = 1 (finding F6). *)
From CB Require Export Model.Limbs Model.AddSub Model.Mul Model.Div Model.ModArith.
Open Scope Z_scope. Open Scope list_scope.

(* ------------------------------------------------------------------------------------------------ *)
(** * src/modular/reduction.rs *)

(** One outer iteration works on [t] = lower[i..] ++ upper (the limbs below index i are dead):
      u = lower[i] * mod_neg_inv;  row j: t[j] += u * m[j] (carry chain over the n limbs of m, the result of
      column 0 is discarded);  (upper[i], meta_carry) = upper[i].adc(carry, meta_carry).
    The two inner `while` loops of the source are one carry chain split at the lower/upper boundary. *)
Fixpoint mred_rows (cnt : nat) (t m : list Z) (k meta : Z) : list Z * Z :=
  match cnt with
  | O => (t, meta)
  | S c =>
      let n := length m in
      let u := wmul (hd 0 t) k in
      let '(row, carry) := mac_by_limb (firstn n t) m u 0 in
      let rest := skipn n t in
      let '(s, meta') := adc (hd 0 rest) carry meta in
      mred_rows c (tl row ++ s :: tl rest) m k meta'
  end.

Definition montgomery_reduction_inner (lower upper m : list Z) (k : Z) : list Z * Z :=
  mred_rows (length m) (lower ++ upper) m k 0.

(** Uint::sub_mod_with_carry : (self, carry) - rhs mod p *)
Definition sub_mod_with_carry (a : list Z) (carry : Z) (b p : list Z) : list Z :=
  let '(out, borrow) := sbb_limbs a b 0 in
  let mask := wand (wnot (wneg carry)) borrow in
  uint_wrapping_add out (bitand_limb p mask).

Definition montgomery_reduction (lower upper m : list Z) (k : Z) : list Z :=
  let '(up, meta) := montgomery_reduction_inner lower upper m k in
  sub_mod_with_carry up meta m m.

(* ------------------------------------------------------------------------------------------------ *)
(** * src/modular/mul.rs, monty_form.rs, const_monty_form.rs (fixed width) *)
Definition mul_montgomery_form (a b m : list Z) (k : Z) : list Z :=
  let '(lo, hi) := uint_split_mul a b in montgomery_reduction lo hi m k.
Definition square_montgomery_form (a m : list Z) (k : Z) : list Z :=
  let '(lo, hi) := uint_square_wide a in montgomery_reduction lo hi m k.
(** MontyForm::new / ConstMontyForm::from_integer : integer.split_mul(&r2) then reduce *)
Definition monty_new (x r2 m : list Z) (k : Z) : list Z := mul_montgomery_form x r2 m k.
(** retrieve : montgomery_reduction(&(self.montgomery_form, ZERO)) *)
Definition monty_retrieve (a m : list Z) (k : Z) : list Z :=
  montgomery_reduction a (zeros (length a)) m k.

(** src/modular/div_by_2.rs : adc, two selects at limb level; shr1 and set_bit(BITS-1) at value level (C05) *)
Definition top_bit (n : nat) : Z := Bn n / 2.
Definition div_by_2 (a m : list Z) : list Z :=
  let n := length a in
  let is_odd := from_word_lsb (Z.land (hd 0 a) 1) in
  let '(if_odd, carry) := adc_limbs a m 0 in
  let carry := select_word is_odd 0 carry in
  let s := select_limbs is_odd a if_odd in
  to_limbs n (eval s / 2 + (if carry =? 0 then 0 else top_bit n)).

(* ------------------------------------------------------------------------------------------------ *)
(** * src/modular/boxed_monty_form/mul.rs *)

(** add_mul_carry: z += x * y, returns the carry *)
Definition add_mul_carry (z x : list Z) (y : Z) : list Z * Z := mac_by_limb z x y 0.
(** add_mul_carry_and_shift: z = (z + x * y) / 2^W; writes z[0..n-1), z[n-1] is left to the caller *)
Definition add_mul_carry_and_shift (z x : list Z) (y : Z) : list Z * Z :=
  let '(row, c) := mac_by_limb z x y 0 in (tl row, c).

(** the part of a CIOS iteration after `c = add_mul_carry(z, x, y[i])` *)
Definition amm_tail (z1 : list Z) (c ts : Z) (m : list Z) (k : Z) : list Z * Z :=
  let '(ts', c1) := overflowing_add ts c in
  let ts1 := c1 in
  let t := wmul (hd 0 z1) k in
  let '(zs, c2) := add_mul_carry_and_shift z1 m t in
  let '(top, c3) := overflowing_add ts' c2 in
  (zs ++ [top], wadd ts1 c3).

Definition amm_step (z : list Z) (ts : Z) (x : list Z) (yi : Z) (m : list Z) (k : Z) : list Z * Z :=
  let '(z1, c) := add_mul_carry z x yi in amm_tail z1 c ts m k.

Fixpoint amm_loop (ys : list Z) (z : list Z) (ts : Z) (x m : list Z) (k : Z) : list Z * Z :=
  match ys with
  | [] => (z, ts)
  | yi :: r => let '(z', ts') := amm_step z ts x yi m k in amm_loop r z' ts' x m k
  end.

(** conditional_sub: z -= x if c *)
Definition conditional_sub (z x : list Z) (c : Z) : list Z := fst (sbb_limbs z (bitand_limb x c) 0).

Definition almost_montgomery_mul (x y m : list Z) (k : Z) : list Z :=
  let '(z, ts) := amm_loop y (zeros (length m)) 0 x m k in
  conditional_sub z m (from_word_lsb ts).

(** almost_montgomery_mul_by_one: only iteration 0 adds x * 1 *)
Fixpoint amm1_loop (cnt : nat) (first : bool) (z : list Z) (ts : Z) (x m : list Z) (k : Z) : list Z * Z :=
  match cnt with
  | O => (z, ts)
  | S c =>
      let '(z1, cy) := if first then add_mul_carry z x 1 else (z, 0) in
      let '(z', ts') := amm_tail z1 cy ts m k in
      amm1_loop c false z' ts' x m k
  end.
Definition almost_montgomery_mul_by_one (x m : list Z) (k : Z) : list Z :=
  let '(z, ts) := amm1_loop (length m) true (zeros (length m)) 0 x m k in
  conditional_sub z m (from_word_lsb ts).

(** BoxedUint::conditional_adc_assign *)
Definition conditional_adc_assign (a rhs : list Z) (choice : bool) : list Z * Z :=
  let mask := if choice then MAXW else 0 in
  let '(r, c) := adc_limbs a (bitand_limb (resize (length a) rhs) mask) 0 in (r, wand c 1).
(** BoxedUint::sub_assign_mod_with_carry (operands of equal precision) *)
Definition boxed_sub_assign_mod_with_carry (a : list Z) (carry : Z) (rhs p : list Z) : list Z :=
  let '(out, borrow) := sbb_limbs a rhs 0 in
  let mask := wand (wnot (wneg carry)) borrow in
  fst (conditional_adc_assign out p (negb (mask =? 0))).

(** BoxedMontyMultiplier::mul_assign / square_assign (and mul, square, BoxedMontyForm::mul, Mul, MulAssign ...) *)
Definition boxed_monty_mul (a b m : list Z) (k : Z) : list Z :=
  boxed_sub_assign_mod_with_carry (almost_montgomery_mul a b m k) 0 m m.
Definition boxed_monty_square (a m : list Z) (k : Z) : list Z :=
  boxed_sub_assign_mod_with_carry (almost_montgomery_mul a a m k) 0 m m.
(** BoxedMontyForm::new = mul_assign(integer, r2);  retrieve = mul_by_one, no final subtraction *)
Definition boxed_monty_new (x r2 m : list Z) (k : Z) : list Z := boxed_monty_mul x r2 m k.
Definition boxed_monty_retrieve (a m : list Z) (k : Z) : list Z := almost_montgomery_mul_by_one a m k.
(** div_by_2_boxed_assign: conditional_adc_assign(modulus, is_odd); shr1_assign; set_bit(BITS-1, carry) *)
Definition boxed_div_by_2 (a m : list Z) : list Z :=
  let n := length a in
  let '(s, carry) := conditional_adc_assign a m (Z.odd (hd 0 a)) in
  to_limbs n (eval s / 2 + (if carry =? 0 then 0 else top_bit n)).

(* ------------------------------------------------------------------------------------------------ *)
(** * Parameter constructors *)

(** inv_mod2k_vartime(Word::BITS), on the low word: x = sum X_i 2^i, b_{i+1} = (b_i - a X_i) / 2 *)
Fixpoint inv2k_loop (cnt : nat) (i : Z) (a x b : Z) : Z :=
  match cnt with
  | O => x
  | S c =>
      let xi := b mod 2 in
      let b' := (if xi =? 1 then wsub b a else b) / 2 in
      inv2k_loop c (i + 1) a (x + xi * 2 ^ i) b'
  end.
Definition inv_mod2k_word (a : Z) : Z := inv2k_loop 64 0 a 0 1.
Definition mod_neg_inv_of (m : list Z) : Z := wsub 0 (inv_mod2k_word (hd 0 m)).

Definition mt_bitlen (x : Z) : Z := if x <=? 0 then 0 else Z.log2 x + 1.
(** leading_zeros().min(Word::BITS - 1) / the select_u32 form / the macro's `if z >= 64 { 63 } else { z }` *)
Definition mod_leading_zeros_of (m : list Z) : Z :=
  let z := 64 * lenZ m - mt_bitlen (eval m) in if z <? 63 then z else 63.

(** one = modulus.wrapping_neg().rem(modulus)   [repaired, fix_C08_1]; rem at value level *)
Definition params_one (m : list Z) : list Z :=
  to_limbs (length m) (eval (uint_wrapping_neg m) mod eval m).
(** the unrepaired expression: Uint::MAX.rem(modulus).wrapping_add(&Uint::ONE) *)
Definition params_one_head (m : list Z) : list Z :=
  let n := length m in
  uint_wrapping_add (to_limbs n (eval (maxs n) mod eval m)) (resize n [1]).
(** r2 = one.square() rem modulus (new: concat/rem/split; new_vartime and the macro: rem_wide_vartime(one.square_wide())) *)
Definition params_r2 (one m : list Z) : list Z :=
  to_limbs (length m) ((eval one * eval one) mod eval m).

Record mparams := { mp_m : list Z; mp_one : list Z; mp_r2 : list Z; mp_r3 : list Z; mp_k : Z; mp_lz : Z }.

(** MontyParams::new, new_vartime, impl_modulus! : r3 = montgomery_reduction(&r2.square_wide(), ..) *)
Definition params_fixed (m : list Z) : mparams :=
  let one := params_one m in
  let r2 := params_r2 one m in
  let k := mod_neg_inv_of m in
  {| mp_m := m; mp_one := one; mp_r2 := r2; mp_r3 := square_montgomery_form r2 m k; mp_k := k;
     mp_lz := mod_leading_zeros_of m |}.
(** BoxedMontyParams::new, new_vartime : r3 = BoxedMontyMultiplier::square(&r2) *)
Definition params_boxed (m : list Z) : mparams :=
  let one := params_one m in
  let r2 := params_r2 one m in
  let k := mod_neg_inv_of m in
  {| mp_m := m; mp_one := one; mp_r2 := r2; mp_r3 := boxed_monty_square r2 m k; mp_k := k;
     mp_lz := mod_leading_zeros_of m |}.

(* ------------------------------------------------------------------------------------------------ *)
(** * Operation histories *)

(** the operations of one representation *)
Record backend := {
  be_new : list Z -> list Z;
  be_retrieve : list Z -> list Z;
  be_mul : list Z -> list Z -> list Z;
  be_square : list Z -> list Z;
  be_sub_assign : list Z -> list Z -> list Z;
  be_half : list Z -> list Z;
  be_select : Z -> list Z -> list Z -> list Z
}.
Definition backend_fixed (p : mparams) : backend :=
  let m := mp_m p in let k := mp_k p in
  {| be_new := fun x => monty_new x (mp_r2 p) m k;
     be_retrieve := fun a => monty_retrieve a m k;
     be_mul := fun a b => mul_montgomery_form a b m k;
     be_square := fun a => square_montgomery_form a m k;
     be_sub_assign := fun a b => sub_mod a b m;                 (* *self = *self - rhs *)
     be_half := fun a => div_by_2 a m;
     be_select := fun c a b => select_limbs (choice_of_bool (negb (c =? 0))) a b |}.
Definition backend_boxed (p : mparams) : backend :=
  let m := mp_m p in let k := mp_k p in
  {| be_new := fun x => boxed_monty_new x (mp_r2 p) m k;
     be_retrieve := fun a => boxed_monty_retrieve a m k;
     be_mul := fun a b => boxed_monty_mul a b m k;
     be_square := fun a => boxed_monty_square a m k;
     be_sub_assign := fun a b => boxed_sub_assign_mod_with_carry a 0 b m;
     be_half := fun a => boxed_div_by_2 a m;
     be_select := fun c a b => if c =? 0 then a else b |}.     (* no select API: the adapter clones *)

(** op = (code, i, j, v).  i, j index the value list; v is the API-route selector of the adapter (for Select its
    low bit is the choice).  Codes:
      0 New(input i)  1 Zero  2 One  3 Add i j  4 Sub i j  5 Neg i  6 Double i  7 Mul i j  8 Square i  9 Half i
      10 Select c i j  16 Conv i (from_montgomery(to_montgomery))  17 Retrieve i          -- push a new value
      11 MulAssign i j  12 SquareAssign i  13 AddAssign i j  14 SubAssign i j  15 HalfAssign i   -- in place *)
Definition mop := (Z * Z * Z * Z)%type.
Fixpoint decode_ops (l : list Z) : list mop :=
  match l with
  | c :: i :: j :: v :: r => (c, i, j, v) :: decode_ops r
  | _ => []
  end.

Definition getv (n : nat) (vals : list (list Z)) (i : Z) : list Z := nth (Z.to_nat i) vals (zeros n).
Definition setv (vals : list (list Z)) (i : Z) (v : list Z) : list (list Z) :=
  firstn (Z.to_nat i) vals ++ v :: skipn (S (Z.to_nat i)) vals.
Definition op_in_place (code : Z) : bool := (11 <=? code) && (code <=? 15).

(** the value an operation produces *)
Definition op_result (be : backend) (p : mparams) (inputs vals : list (list Z)) (o : mop) : list Z :=
  let '(code, i, j, v) := o in
  let m := mp_m p in let n := length m in
  let a := getv n vals i in let b := getv n vals j in
  if code =? 0 then be_new be (getv n inputs i)
  else if code =? 1 then zeros n
  else if code =? 2 then mp_one p
  else if (code =? 3) || (code =? 13) then add_mod a b m
  else if code =? 4 then sub_mod a b m
  else if code =? 5 then neg_mod a m
  else if code =? 6 then double_mod a m
  else if (code =? 7) || (code =? 11) then be_mul be a b
  else if (code =? 8) || (code =? 12) then be_square be a
  else if (code =? 9) || (code =? 15) then be_half be a
  else if code =? 10 then be_select be (Z.land v 1) a b
  else if code =? 14 then be_sub_assign be a b
  else a.                                                       (* 16 Conv, 17 Retrieve *)

Definition hstate := (list (list Z) * list (list Z))%type.   (* values, outputs so far *)
Definition h_step (be : backend) (p : mparams) (inputs : list (list Z)) (st : hstate) (o : mop) : hstate :=
  let '(vals, outs) := st in
  let r := op_result be p inputs vals o in
  let code := fst (fst (fst o)) in
  let vals' := if op_in_place code then setv vals (snd (fst (fst o))) r
               else if code =? 17 then vals else vals ++ [r] in
  (vals', outs ++ [r; be_retrieve be r]).
Definition history (be : backend) (p : mparams) (inputs : list (list Z)) (ops : list mop) : hstate :=
  fold_left (h_step be p inputs) ops ([], []).

(* ------------------------------------------------------------------------------------------------ *)
(** * Specification: plain arithmetic in Z/mZ *)

(** x / 2 in Z/mZ (m odd) and x * R^-1 as 64n halvings: no inverse has to be computed *)
Definition half_mod (m x : Z) : Z := if Z.even x then x / 2 else (x + m) / 2.
Definition redc_spec (n : nat) (m x : Z) : Z := Nat.iter (64 * n) (half_mod m) (x mod m).
(** -m^-1 mod 2^64 by Hensel lifting (x <- x (2 - m x)), independent of the bit-serial loop of the code *)
Definition hensel_inv (a : Z) : Z := Nat.iter 6 (fun x => (x * (2 - a * x)) mod B) 1.
Definition spec_neg_inv (m0 : Z) : Z := (- hensel_inv m0) mod B.

(** residues: one Z in [0, m) per value *)
Definition sgetv (vals : list Z) (i : Z) : Z := nth (Z.to_nat i) vals 0.
Definition ssetv (vals : list Z) (i : Z) (v : Z) : list Z :=
  firstn (Z.to_nat i) vals ++ v :: skipn (S (Z.to_nat i)) vals.
Definition sp_result (m : Z) (n : nat) (inputs : list (list Z)) (vals : list Z) (o : mop) : Z :=
  let '(code, i, j, v) := o in
  let a := sgetv vals i in let b := sgetv vals j in
  if code =? 0 then eval (getv n inputs i) mod m
  else if code =? 1 then 0
  else if code =? 2 then 1 mod m
  else if (code =? 3) || (code =? 13) then (a + b) mod m
  else if (code =? 4) || (code =? 14) then (a - b) mod m
  else if code =? 5 then (- a) mod m
  else if code =? 6 then (2 * a) mod m
  else if (code =? 7) || (code =? 11) then (a * b) mod m
  else if (code =? 8) || (code =? 12) then (a * a) mod m
  else if (code =? 9) || (code =? 15) then half_mod m a
  else if code =? 10 then (if Z.land v 1 =? 0 then a else b)
  else a.
Definition sstate := (list Z * list (list Z))%type.
Definition sp_step (m : Z) (n : nat) (inputs : list (list Z)) (st : sstate) (o : mop) : sstate :=
  let '(vals, outs) := st in
  let r := sp_result m n inputs vals o in
  let code := fst (fst (fst o)) in
  let vals' := if op_in_place code then ssetv vals (snd (fst (fst o))) r
               else if code =? 17 then vals else vals ++ [r] in
  (vals', outs ++ [to_limbs n ((r * Bn n) mod m); to_limbs n r]).
Definition sp_history (m : Z) (n : nat) (inputs : list (list Z)) (ops : list mop) : sstate :=
  fold_left (sp_step m n inputs) ops ([], []).

(** an op list is admissible when every index refers to an existing value / input and the code is known *)
Definition op_uses_j (code : Z) : bool :=
  (code =? 3) || (code =? 4) || (code =? 7) || (code =? 10) || (code =? 11) || (code =? 13) || (code =? 14).
Definition op_ok (ninputs nvals : nat) (o : mop) : bool :=
  let '(code, i, j, v) := o in
  (0 <=? code) && (code <=? 17) && (0 <=? i) && (0 <=? j) &&
  (if code =? 0 then (Z.to_nat i <? ninputs)%nat
   else if (code =? 1) || (code =? 2) then true
   else (Z.to_nat i <? nvals)%nat && (if op_uses_j code then (Z.to_nat j <? nvals)%nat else true)).
Fixpoint ops_ok (ninputs nvals : nat) (ops : list mop) : bool :=
  match ops with
  | [] => true
  | o :: r =>
      let code := fst (fst (fst o)) in
      op_ok ninputs nvals o &&
      ops_ok ninputs (if op_in_place code || (code =? 17) then nvals else S nvals) r
  end.

(* ------------------------------------------------------------------------------------------------ *)
(** * op tables *)
Open Scope string_scope. Open Scope Z_scope. Open Scope list_scope.

Definition params_out (p : mparams) : outcome :=
  Val [mp_one p; mp_r2 p; mp_r3 p; [mp_k p]; [mp_lz p]].
(** args of a history: [m; [cfg]; flat ops; x0; x1; ...] *)
Definition hist_inputs (a : list (list Z)) : list (list Z) := skipn 3 a.
Definition hist_out (be : mparams -> backend) (p : mparams) (a : list (list Z)) : outcome :=
  Val (snd (history (be p) p (hist_inputs a) (decode_ops (arg 2 a)))).
(** Uint::mul_mod / BoxedUint::mul_mod: params, two conversions, one product, retrieve; panics on an even modulus *)
Definition mul_mod_via (be : mparams -> backend) (mk : list Z -> mparams) (x y m : list Z) : outcome :=
  if Z.even (hd 0 m) then PanicV else
  let p := mk m in let b := be p in
  Val [be_retrieve b (be_mul b (be_new b x) (be_new b y))].

Definition ops_monty_model : list (string * opfn) := [
  ("monty.reduction", fun _ a => Val [montgomery_reduction (arg 0 a) (arg 1 a) (arg 2 a) (sarg 3 a)]);
  ("monty.params", fun _ a => params_out (params_fixed (arg 0 a)));
  ("monty.boxed_params", fun _ a => params_out (params_boxed (arg 0 a)));
  ("monty.history", fun _ a => hist_out backend_fixed (params_fixed (arg 0 a)) a);
  ("monty.boxed_history", fun _ a => hist_out backend_boxed (params_boxed (arg 0 a)) a);
  ("monty.uint_mul_mod", fun _ a => mul_mod_via backend_fixed params_fixed (arg 0 a) (arg 1 a) (arg 2 a));
  ("monty.boxed_mul_mod", fun _ a => mul_mod_via backend_boxed params_boxed (arg 0 a) (arg 1 a) (arg 2 a))
].

Definition odd_modulus (m : list Z) : bool := Z.odd (eval m) && negb (length m =? 0)%nat.
Definition sp_params (a : list (list Z)) : outcome :=
  let m := ev 0 a in let n := ln 0 a in let R := Bn n in
  if negb (odd_modulus (arg 0 a)) then Unsupported else
  Val [to_limbs n (R mod m); to_limbs n ((R * R) mod m); to_limbs n ((R * R * R) mod m);
       [spec_neg_inv (m mod B)];
       [Z.min (64 * Z.of_nat n - mt_bitlen m) 63]].
Definition sp_hist (a : list (list Z)) : outcome :=
  let m := ev 0 a in let n := ln 0 a in
  let inputs := hist_inputs a in let ops := decode_ops (arg 2 a) in
  if negb (odd_modulus (arg 0 a)) then Unsupported
  else if negb (forallb (fun x => (length x =? n)%nat) inputs) then Unsupported
  else if negb (Nat.eqb (length (arg 2 a)) (4 * length ops)) then Unsupported
  else if negb (ops_ok (length inputs) 0 ops) then Unsupported
  else Val (snd (sp_history m n inputs ops)).
Definition sp_mul_mod (a : list (list Z)) : outcome :=
  let n := ln 0 a in
  if negb ((ln 1 a =? n)%nat && (ln 2 a =? n)%nat && negb (n =? 0)%nat) then Unsupported
  else if Z.even (ev 2 a) then PanicV
  else Val [to_limbs n ((ev 0 a * ev 1 a) mod ev 2 a)].

Definition ops_monty_spec : list (string * opfn) := [
  (* T = lower + R * upper < m * R, m odd, m * k = -1 mod 2^64 : the residue T * R^-1 mod m *)
  ("monty.reduction", fun _ a =>
     let n := ln 2 a in let m := ev 2 a in let T := ev 0 a + Bn n * ev 1 a in
     if negb (odd_modulus (arg 2 a)) then Unsupported
     else if negb ((ln 0 a =? n)%nat && (ln 1 a =? n)%nat) then Unsupported
     else if negb (((m mod B) * sarg 3 a + 1) mod B =? 0) then Unsupported
     else if negb (T <? m * Bn n) then Unsupported
     else Val [to_limbs n (redc_spec n m T)]);
  ("monty.params", fun _ a => sp_params a);
  ("monty.boxed_params", fun _ a => sp_params a);
  ("monty.history", fun _ a => sp_hist a);
  ("monty.boxed_history", fun _ a => sp_hist a);
  ("monty.uint_mul_mod", fun _ a => sp_mul_mod a);
  ("monty.boxed_mul_mod", fun _ a => sp_mul_mod a)
].
