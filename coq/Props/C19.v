(** C19 — random sampling respects its range, is unbiased, and is width-independent.
    Only statements, each closed by [exact] of a lemma from Proofs/, followed by Print Assumptions.

    An RNG [Rng ws nw nb] is the list [ws] of 64-bit words it will still output plus the counters of
    words consumed / bytes requested (Model/Rand.v). Every statement quantifies over EVERY stream [ws]
    (of words), every limb count and every modulus / bit length. A sampler returns [None] when the stream
    runs out (the RNG error of the try_* forms; the infallible forms panic inside the RNG).

    [rnd_agrees n ws base nw0 nb0 model spec] (Proofs/RandModP.v) says: the model returned exactly the
    specified value as [n] limbs, advanced the counters by the specified words / bytes and left the RNG
    at the specified position of the stream -- or both ran out of words. *)
From CB Require Import Model.Limbs Model.AddSub Model.Rand Proofs.WordP Proofs.LimbsP Proofs.AddSubP
  Proofs.RandBaseP Proofs.RandModP Proofs.RandBitsP Proofs.RandMiscP Proofs.RandCountP.
From Coq Require Import ZArith List.
Open Scope Z_scope. Open Scope list_scope.

(* ================================================================== RandomMod (Uint, BoxedUint) *)

(** RANGE, every stream: a returned value is strictly below the modulus; k words = 8k bytes consumed *)
Theorem C19_random_mod_range : forall m ws nw0 nb0 v r',
  wf m -> wf ws -> 0 < eval m -> uint_random_mod m (Rng ws nw0 nb0) = Some (v, r') ->
  wf v /\ length v = length m /\ 0 <= eval v < eval m /\
  exists k, 0 < k /\ r' = Rng (skipn (Z.to_nat k) ws) (nw0 + k) (nb0 + 8 * k).
Proof. exact uint_random_mod_range. Qed.
Print Assumptions C19_random_mod_range.

Theorem C19_random_mod_boxed_range : forall m ws nw0 nb0 v r',
  wf m -> wf ws -> 0 < eval m -> boxed_random_mod m (Rng ws nw0 nb0) = Some (v, r') ->
  wf v /\ length v = length m /\ 0 <= eval v < eval m /\
  exists k, 0 < k /\ r' = Rng (skipn (Z.to_nat k) ws) (nw0 + k) (nb0 + 8 * k).
Proof. exact boxed_random_mod_range. Qed.
Print Assumptions C19_random_mod_boxed_range.

(** the limb-level algorithm (mask from leading_zeros, early rejection, borrow-based comparison) is the
    specified rejection sampler on integers: same value, same consumption, same exhaustion *)
Theorem C19_random_mod_model_eq_spec : forall m ws nw0 nb0,
  wf m -> wf ws -> 0 < eval m ->
  rnd_agrees (length m) ws 0 nw0 nb0 (uint_random_mod m (Rng ws nw0 nb0)) (sp_random_mod (eval m) ws).
Proof. exact uint_random_mod_spec. Qed.
Print Assumptions C19_random_mod_model_eq_spec.

(** WIDTH INDEPENDENCE: fixed and boxed integers consume the stream identically and return the same value *)
Theorem C19_random_mod_fixed_eq_boxed : forall m r,
  wf m -> 0 < eval m -> boxed_random_mod m r = uint_random_mod m r.
Proof. exact rnd_mod_fixed_eq_boxed. Qed.
Print Assumptions C19_random_mod_fixed_eq_boxed.

(** NO TERMINATION for arbitrary streams: an all-ones RNG is rejected for ever, whatever the modulus *)
Theorem C19_random_mod_allones_never_accepted : forall m j nw0 nb0,
  wf m -> 0 < eval m -> uint_random_mod m (Rng (repeat MAXW j) nw0 nb0) = None.
Proof. exact uint_random_mod_allones. Qed.
Print Assumptions C19_random_mod_allones_never_accepted.

(** UNIFORMITY as counting: in one round, every value v < M is produced by exactly the raw candidates
    (v / B^p + j 2^tb , limbs of v mod B^p), j = 0 .. 2^(64-tb) - 1 : the same number for every v *)
Theorem C19_random_mod_counting : forall M, 0 < M ->
  let k := rnd_bitlen M in
  let p := (Z.to_nat (rnd_ceil k 64) - 1)%nat in
  let tb := k - 64 * Z.of_nat p in
  1 <= tb <= 64 /\
  forall v, 0 <= v < M ->
  (forall j, 0 <= j < 2 ^ (64 - tb) ->
     let w0 := v / Bn p + j * 2 ^ tb in
     is_word w0 /\ wf (to_limbs p v) /\ length (to_limbs p v) = p /\
     sp_mod_candidate tb p w0 (to_limbs p v) = v /\ w0 / 2 ^ tb = j /\ w0 mod 2 ^ tb <= M / Bn p) /\
  (forall w0 lows, is_word w0 -> wf lows -> length lows = p -> sp_mod_candidate tb p w0 lows = v ->
     lows = to_limbs p v /\ w0 = v / Bn p + (w0 / 2 ^ tb) * 2 ^ tb /\ 0 <= w0 / 2 ^ tb < 2 ^ (64 - tb)).
Proof. exact sp_random_mod_counting. Qed.
Print Assumptions C19_random_mod_counting.

(** early rejection only discards candidates that the full comparison would reject as well *)
Theorem C19_random_mod_early_rejection_sound : forall M, 0 < M ->
  let k := rnd_bitlen M in
  let p := (Z.to_nat (rnd_ceil k 64) - 1)%nat in
  let tb := k - 64 * Z.of_nat p in
  forall w0 lows, wf lows -> w0 mod 2 ^ tb > M / Bn p -> M <= sp_mod_candidate tb p w0 lows.
Proof. exact sp_random_mod_early_sound. Qed.
Print Assumptions C19_random_mod_early_rejection_sound.

(** the sampler is "independent rounds until acceptance": a rejected round restarts it on the rest of the stream *)
Theorem C19_random_mod_rounds : forall M, 0 < M ->
  let k := rnd_bitlen M in
  let p := (Z.to_nat (rnd_ceil k 64) - 1)%nat in
  let tb := k - 64 * Z.of_nat p in
  (forall w0 rest, w0 mod 2 ^ tb > M / Bn p ->
     sp_random_mod M (w0 :: rest) = rnd_sp_shift 1 (sp_random_mod M rest)) /\
  (forall w0 lows rest, length lows = p -> w0 mod 2 ^ tb <= M / Bn p ->
     sp_random_mod M (w0 :: lows ++ rest) =
       if sp_mod_candidate tb p w0 lows <? M
       then SpOk (sp_mod_candidate tb p w0 lows) (Z.of_nat (S p)) (8 * Z.of_nat (S p))
       else rnd_sp_shift (Z.of_nat (S p)) (sp_random_mod M rest)).
Proof. exact sp_random_mod_rounds. Qed.
Print Assumptions C19_random_mod_rounds.

(* ================================================================== RandomBits (Uint, Int, BoxedUint) *)

(** ERROR CONDITIONS exactly as documented, RANGE and CONSUMPTION (fixed width): the four cases are
    mutually exclusive and exhaustive. [rnd_tail_bytes] = 4 when the partial limb has 1..=32 bits, else 8 *)
Theorem C19_random_bits_uint_outcome : forall n ws nw nb bl prec, wf ws -> 0 <= bl ->
  let r := uint_random_bits_prec n (Rng ws nw nb) bl prec in
  let bits := 64 * Z.of_nat n in
  let k := rnd_ceil bl 64 in
  (prec <> bits /\ r = RErr 1 prec bits) \/
  (prec = bits /\ bits < bl /\ r = RErr 2 bl prec) \/
  (prec = bits /\ bl <= bits /\ Z.of_nat (length ws) < k /\ r = RErr 9 0 0) \/
  (prec = bits /\ bl <= bits /\ k <= Z.of_nat (length ws) /\ exists v,
     r = ROk v (Rng (skipn (Z.to_nat k) ws) (nw + k) (nb + (if bl =? 0 then 0 else 8 * (k - 1) + rnd_tail_bytes bl))) /\
     wf v /\ length v = n /\ eval v = eval (firstn (Z.to_nat k) ws) mod 2 ^ bl /\ 0 <= eval v < 2 ^ bl).
Proof. exact uint_random_bits_outcome. Qed.
Print Assumptions C19_random_bits_uint_outcome.

Theorem C19_random_bits_boxed_outcome : forall ws nw nb bl prec, wf ws -> 0 <= bl ->
  let r := boxed_random_bits_prec (Rng ws nw nb) bl prec in
  let k := rnd_ceil bl 64 in
  (prec < bl /\ r = RErr 2 bl prec) \/
  (bl <= prec /\ Z.of_nat (length ws) < k /\ r = RErr 9 0 0) \/
  (bl <= prec /\ k <= Z.of_nat (length ws) /\ exists v,
     r = ROk v (Rng (skipn (Z.to_nat k) ws) (nw + k) (nb + (if bl =? 0 then 0 else 8 * (k - 1) + rnd_tail_bytes bl))) /\
     wf v /\ length v = rnd_boxed_limbs prec /\ eval v = eval (firstn (Z.to_nat k) ws) mod 2 ^ bl /\ 0 <= eval v < 2 ^ bl).
Proof. exact boxed_random_bits_outcome. Qed.
Print Assumptions C19_random_bits_boxed_outcome.

(** RANGE, every stream: a returned value is below 2^bit_length *)
Theorem C19_random_bits_range : forall n ws nw nb bl prec v r', wf ws -> 0 <= bl ->
  uint_random_bits_prec n (Rng ws nw nb) bl prec = ROk v r' ->
  wf v /\ length v = n /\ 0 <= eval v < 2 ^ bl /\ eval v = eval (firstn (Z.to_nat (rnd_ceil bl 64)) ws) mod 2 ^ bl /\
  r' = Rng (skipn (Z.to_nat (rnd_ceil bl 64)) ws) (nw + rnd_ceil bl 64)
           (nb + (if bl =? 0 then 0 else 8 * (rnd_ceil bl 64 - 1) + rnd_tail_bytes bl)).
Proof. exact uint_random_bits_range. Qed.
Print Assumptions C19_random_bits_range.

Theorem C19_random_bits_boxed_range : forall ws nw nb bl prec v r', wf ws -> 0 <= bl ->
  boxed_random_bits_prec (Rng ws nw nb) bl prec = ROk v r' ->
  wf v /\ length v = rnd_boxed_limbs prec /\ 0 <= eval v < 2 ^ bl /\
  eval v = eval (firstn (Z.to_nat (rnd_ceil bl 64)) ws) mod 2 ^ bl /\
  r' = Rng (skipn (Z.to_nat (rnd_ceil bl 64)) ws) (nw + rnd_ceil bl 64)
           (nb + (if bl =? 0 then 0 else 8 * (rnd_ceil bl 64 - 1) + rnd_tail_bytes bl)).
Proof. exact boxed_random_bits_range. Qed.
Print Assumptions C19_random_bits_boxed_range.

(** WIDTH INDEPENDENCE: BoxedUint with the precision of Uint<n> behaves exactly like Uint<n> *)
Theorem C19_random_bits_fixed_eq_boxed : forall n ws nw nb bl, wf ws -> 0 <= bl -> (0 < n)%nat ->
  boxed_random_bits_prec (Rng ws nw nb) bl (64 * Z.of_nat n) = uint_random_bits_prec n (Rng ws nw nb) bl (64 * Z.of_nat n).
Proof. exact rnd_bits_fixed_eq_boxed. Qed.
Print Assumptions C19_random_bits_fixed_eq_boxed.

(** UNIFORMITY as counting: every value below 2^bl has exactly 2^(64 nz - bl) preimages among the nz raw words *)
Theorem C19_random_bits_counting : forall bl nz, 0 <= bl <= 64 * Z.of_nat nz ->
  forall v, 0 <= v < 2 ^ bl ->
  (forall j, 0 <= j < 2 ^ (64 * Z.of_nat nz - bl) ->
     let ws := to_limbs nz (v + j * 2 ^ bl) in
     wf ws /\ length ws = nz /\ eval ws mod 2 ^ bl = v /\ eval ws / 2 ^ bl = j) /\
  (forall ws, wf ws -> length ws = nz -> eval ws mod 2 ^ bl = v ->
     ws = to_limbs nz (v + (eval ws / 2 ^ bl) * 2 ^ bl) /\ 0 <= eval ws / 2 ^ bl < 2 ^ (64 * Z.of_nat nz - bl)).
Proof. exact sp_random_bits_counting. Qed.
Print Assumptions C19_random_bits_counting.

(* ================================================================== Limb::random_mod *)

Theorem C19_limb_random_mod_range : forall m ws nw0 nb0 v r', 0 < m < B -> wf ws ->
  limb_random_mod m (Rng ws nw0 nb0) = Some (v, r') ->
  0 <= v < m /\ exists k, 0 < k /\ r' = Rng (skipn (Z.to_nat k) ws) (nw0 + k) (nb0 + rnd_ceil (rnd_bitlen m) 8 * k).
Proof. exact limb_random_mod_range. Qed.
Print Assumptions C19_limb_random_mod_range.

(** the byte-wise sampler (byte mask, from_word_lt) returns the first word w with  w mod 2^bits(m) < m *)
Theorem C19_limb_random_mod_model_eq_spec : forall m ws nw0 nb0, 0 < m < B -> wf ws ->
  rnd_agrees1 ws 0 nw0 nb0 (limb_random_mod m (Rng ws nw0 nb0)) (sp_limb_random_mod m ws).
Proof. exact limb_random_mod_spec. Qed.
Print Assumptions C19_limb_random_mod_model_eq_spec.

Theorem C19_limb_random_mod_counting : forall m, 0 < m < B -> let k := rnd_bitlen m in
  forall v, 0 <= v < m ->
  (forall j, 0 <= j < 2 ^ (64 - k) -> let w := v + j * 2 ^ k in is_word w /\ w mod 2 ^ k = v /\ w / 2 ^ k = j) /\
  (forall w, is_word w -> w mod 2 ^ k = v -> w = v + (w / 2 ^ k) * 2 ^ k /\ 0 <= w / 2 ^ k < 2 ^ (64 - k)).
Proof. exact sp_limb_mod_counting. Qed.
Print Assumptions C19_limb_random_mod_counting.

(* ================================================================== Random, NonZero, Odd *)

(** Random for Uint / Int / Wrapping (Limb: n = 1): the next n words are the limbs -- the identity map, hence uniform *)
Theorem C19_random_uint : forall n ws nw nb, wf ws ->
  uint_random n (Rng ws nw nb) =
    if (length ws <? n)%nat then None
    else Some (firstn n ws, Rng (skipn n ws) (nw + Z.of_nat n) (nb + 8 * Z.of_nat n)).
Proof. exact uint_random_spec. Qed.
Print Assumptions C19_random_uint.

(** NonZero: never zero, for every stream; it is the first non-zero block of n words *)
Theorem C19_nonzero_valid : forall n ws nw0 nb0 v r', (0 < n)%nat -> wf ws ->
  nonzero_uint_random n (Rng ws nw0 nb0) = Some (v, r') -> wf v /\ length v = n /\ 0 < eval v.
Proof. exact nonzero_uint_random_valid. Qed.
Print Assumptions C19_nonzero_valid.

Theorem C19_nonzero_model_eq_spec : forall n ws nw0 nb0, (0 < n)%nat -> wf ws ->
  rnd_agrees n ws 0 nw0 nb0 (nonzero_uint_random n (Rng ws nw0 nb0)) (sp_nonzero_random n ws).
Proof. exact nonzero_uint_random_spec. Qed.
Print Assumptions C19_nonzero_model_eq_spec.

(** NonZero<ConstMontyForm>: a non-zero residue below the modulus *)
Theorem C19_nonzero_residue_valid : forall m ws nw0 nb0 v r', wf m -> 0 < eval m -> wf ws ->
  nonzero_mod_random m (Rng ws nw0 nb0) = Some (v, r') -> wf v /\ length v = length m /\ 0 < eval v < eval m.
Proof. exact nonzero_mod_random_valid. Qed.
Print Assumptions C19_nonzero_residue_valid.

Theorem C19_nonzero_residue_model_eq_spec : forall m ws nw0 nb0, wf m -> 0 < eval m -> wf ws ->
  rnd_agrees (length m) ws 0 nw0 nb0 (nonzero_mod_random m (Rng ws nw0 nb0)) (sp_nonzero_mod_random (eval m) ws).
Proof. exact nonzero_mod_random_spec. Qed.
Print Assumptions C19_nonzero_residue_model_eq_spec.

(** Odd<Uint<N>>: always odd; it is the uniform sample with bit 0 forced to one (two preimages per odd value) *)
Theorem C19_odd_valid : forall n ws nw nb v r', wf ws -> (0 < n)%nat ->
  odd_uint_random n (Rng ws nw nb) = Some (v, r') -> wf v /\ length v = n /\ Z.odd (eval v) = true.
Proof. exact odd_uint_random_valid. Qed.
Print Assumptions C19_odd_valid.

Theorem C19_odd_model_eq_spec : forall n ws nw nb, wf ws -> (0 < n)%nat ->
  rnd_agrees n ws 0 nw nb (odd_uint_random n (Rng ws nw nb)) (sp_odd_sample (sp_random n ws)).
Proof. exact odd_uint_random_spec. Qed.
Print Assumptions C19_odd_model_eq_spec.

Theorem C19_odd_two_preimages : forall x v, Z.odd v = true -> (sp_force_odd x = v <-> x = v \/ x = v - 1).
Proof. exact sp_force_odd_preimages. Qed.
Print Assumptions C19_odd_two_preimages.

(** Odd<BoxedUint>::random(rng, bit_length), bit_length >= 1: odd and below 2^bit_length *)
Theorem C19_odd_boxed_valid : forall ws nw nb bl v r', wf ws -> 1 <= bl ->
  odd_boxed_random (Rng ws nw nb) bl = Some (v, r') ->
  wf v /\ length v = rnd_boxed_limbs bl /\ Z.odd (eval v) = true /\ 0 <= eval v < 2 ^ bl /\
  eval v = sp_force_odd (eval (firstn (Z.to_nat (rnd_ceil bl 64)) ws) mod 2 ^ bl) /\
  r' = Rng (skipn (Z.to_nat (rnd_ceil bl 64)) ws) (nw + rnd_ceil bl 64) (nb + (8 * (rnd_ceil bl 64 - 1) + rnd_tail_bytes bl)).
Proof. exact odd_boxed_random_valid. Qed.
Print Assumptions C19_odd_boxed_valid.

(** non-vacuity: a two-limb modulus 3 * 2^64 + 1 -- the first candidate (top word MAX masked to 3, low word 5)
    is rejected by the full comparison, the second (3, 0) accepted after 4 words; an all-ones stream is
    exhausted; a 96-bit RandomBits request reads 8 + 4 bytes; a precision mismatch is reported *)
Example C19_nonvacuous :
  uint_random_mod [1; 3] (Rng [MAXW; 5; 3; 0; 7] 0 0) = Some ([0; 3], Rng [7] 4 32) /\
  boxed_random_mod [1; 3] (Rng [MAXW; 5; 3; 0; 7] 0 0) = Some ([0; 3], Rng [7] 4 32) /\
  uint_random_mod [1; 3] (Rng [MAXW; MAXW; MAXW] 0 0) = None /\
  uint_random_bits_prec 2 (Rng [12297829382473034410; 14757395258967641292] 0 0) 96 128
    = ROk [12297829382473034410; 3435973836] (Rng [] 2 12) /\
  uint_random_bits_prec 2 (Rng [1; 2] 0 0) 96 127 = RErr 1 127 128 /\
  limb_random_mod 256 (Rng [511; 255] 0 0) = Some (255, Rng [] 2 4).
Proof. vm_compute. repeat split; reflexivity. Qed.
