(** C02 (tables) — the op tables that the correspondence check evaluates agree on EVERY key of the two division areas:
    area div (Model/Div.v, [ops_div_model] / [ops_div_spec], 26 keys: Reciprocal::new; division of a Uint / BoxedUint
    by a Limb; Uint::div_rem / rem / div in constant time, the operator and checked forms with their zero test; the
    variable-time forms for mixed widths; rem_wide_vartime; rem2k_vartime; the BoxedUint constant-time forms with their
    equal-precision assertion and the variable-time forms for mixed precisions) and area divl0 (Model/DivL0.v,
    [ops_divl0_model] / [ops_divl0_spec], 2 keys: the same constant-time division calling the limb-level bits / shl / shr
    of Model/Bits.v).  In both profiles and for all well-formed argument lists that meet the typing side condition of
    the key, the model entry (limb-level model of the Rust code together with the glue of the entry: option plumbing,
    the zero-divisor test of the operator / checked forms, PanicV / NoneV placement, Limb argument decoding, the
    precision assertion, resizing of the remainder to the divisor's width) returns exactly what the spec entry
    (floor(n / d) and n mod d on the represented integers, as limb lists of the documented widths) returns, wherever the
    spec entry is defined; C02_tables_spec_defined says that this is everywhere except the zero divisor.
    [run_tab t k dbg a] = the table lookup of Model/Api.v; [wf_args a] = every limb of every argument is a 64-bit word;
    [typedb div_tbl_ty k a] = what Rust's types enforce for key k (Proofs/DivTablesP.v): a Limb divisor is one word
    (5 keys), the two operands of the Uint<N> forms have one N (8 keys), (lo, hi) and the divisor of rem_wide_vartime
    have one N, rem2k_vartime is given at least one limb; the other 11 keys (recip.new, the mixed-width vartime forms,
    all BoxedUint forms) have no side condition.  For "uint.div_rem_l0": one N and BITS = 64 N < 2^32.
    Statements only; proofs in Proofs/DivTablesP.v. *)
From CB Require Import Model.Limbs Model.Div Model.DivL0 Proofs.TotalityP Proofs.DivTablesP.
From Coq Require Import ZArith List String Bool.
Open Scope Z_scope.
Open Scope string_scope.

(** every key of the table of area div (the key list is [map fst] of the table itself: nothing is left out) *)
Theorem C02_tables_agree : forall k dbg a,
  In k (map fst ops_div_model) -> wf_args a -> typedb div_tbl_ty k a = true ->
  run_tab ops_div_spec k dbg a <> Unsupported ->
  run_tab ops_div_model k dbg a = run_tab ops_div_spec k dbg a.
Proof. exact div_tables_agree. Qed.
Print Assumptions C02_tables_agree.

(** the same over the key list [div_keys] of C11, which is the same set of 26 keys *)
Theorem C02_tables_agree_c11_keys : forall k dbg a,
  In k div_keys -> wf_args a -> typedb div_tbl_ty k a = true ->
  run_tab ops_div_spec k dbg a <> Unsupported ->
  run_tab ops_div_model k dbg a = run_tab ops_div_spec k dbg a.
Proof. exact div_tables_agree_c11_keys. Qed.
Print Assumptions C02_tables_agree_c11_keys.

Theorem C02_tables_key_set :
  map fst ops_div_spec = map fst ops_div_model /\ List.length (map fst ops_div_model) = 26%nat /\
  (forall k, In k div_keys <-> In k (map fst ops_div_model)).
Proof. exact div_key_set. Qed.
Print Assumptions C02_tables_key_set.

(** area divl0: both keys *)
Theorem C02_tables_agree_l0 : forall k dbg a,
  In k divl0_keys -> wf_args a -> typedb divl0_tbl_ty k a = true ->
  run_tab ops_divl0_spec k dbg a <> Unsupported ->
  run_tab ops_divl0_model k dbg a = run_tab ops_divl0_spec k dbg a.
Proof. exact divl0_tables_agree. Qed.
Print Assumptions C02_tables_agree_l0.

Theorem C02_tables_key_set_l0 :
  map fst ops_divl0_model = divl0_keys /\ map fst ops_divl0_spec = divl0_keys /\ List.length divl0_keys = 2%nat.
Proof. exact divl0_key_set. Qed.
Print Assumptions C02_tables_key_set_l0.

(** the side conditions, spelled out (one boolean predicate per key class; a key without an entry has none) *)
Theorem C02_tables_side_conditions :
  div_tbl_ty =
  [("uint.div_rem_limb", ty_limb_divisor); ("uint.rem_limb", ty_limb_divisor); ("uint.div_limb", ty_limb_divisor);
   ("boxed.div_rem_limb", ty_limb_divisor); ("boxed.rem_limb", ty_limb_divisor);
   ("uint.div_rem", ty_same2); ("uint.rem", ty_same2); ("uint.div", ty_same2); ("uint.div_plain", ty_same2);
   ("uint.rem_plain", ty_same2); ("uint.checked_div", ty_same2); ("uint.checked_rem", ty_same2);
   ("uint.wrapping_rem_vartime", ty_same2);
   ("uint.rem_wide_vartime", ty_same3); ("uint.rem2k_vartime", ty_some_limb)] /\
  divl0_tbl_ty = [("uint.div_rem_l0", ty_same2_u32)] /\
  (forall a, ty_limb_divisor a = (List.length (arg 1 a) =? 1)%nat) /\
  (forall a, ty_same2 a = (List.length (arg 0 a) =? List.length (arg 1 a))%nat) /\
  (forall a, ty_same3 a = ((List.length (arg 1 a) =? List.length (arg 0 a))%nat &&
                           (List.length (arg 2 a) =? List.length (arg 0 a))%nat)) /\
  (forall a, ty_some_limb a = negb (List.length (arg 0 a) =? 0)%nat) /\
  (forall a, ty_same2_u32 a = ((List.length (arg 0 a) =? List.length (arg 1 a))%nat &&
                               (64 * Z.of_nat (List.length (arg 0 a)) <? 2 ^ 32)%Z)).
Proof. repeat split. Qed.
Print Assumptions C02_tables_side_conditions.

(** the domain hypothesis excludes only the zero divisor (and operands of two precisions for "boxed.checked_div", whose
    model entry panics there): [div_in_domain k a] is `0 < the limb` for "recip.new", `the third argument <> 0` for
    "uint.rem_wide_vartime", `equal precisions` for "boxed.checked_div", `true` for rem2k_vartime and for the operator /
    checked forms with their own zero test, `the divisor <> 0` for all other keys *)
Theorem C02_tables_spec_defined : forall k dbg a,
  In k (map fst ops_div_model) -> div_in_domain k a = true -> run_tab ops_div_spec k dbg a <> Unsupported.
Proof. exact div_spec_defined. Qed.
Print Assumptions C02_tables_spec_defined.

Theorem C02_tables_spec_defined_l0 : forall k dbg a,
  In k divl0_keys -> ev 1 a <> 0 -> run_tab ops_divl0_spec k dbg a <> Unsupported.
Proof. exact divl0_spec_defined. Qed.
Print Assumptions C02_tables_spec_defined_l0.

(** the side conditions are not decoration: outside them the two tables differ *)
Theorem C02_tables_typing_needed :
  run_tab ops_div_model "uint.rem_limb" false [[7]; [0; 1]] <> run_tab ops_div_spec "uint.rem_limb" false [[7]; [0; 1]] /\
  run_tab ops_div_model "uint.wrapping_rem_vartime" false [[7; 0]; [5]]
    <> run_tab ops_div_spec "uint.wrapping_rem_vartime" false [[7; 0]; [5]] /\
  run_tab ops_div_model "uint.div" false [[7]; [0; 1]] <> run_tab ops_div_spec "uint.div" false [[7]; [0; 1]] /\
  run_tab ops_div_model "uint.rem2k_vartime" false [[]; [3]] <> run_tab ops_div_spec "uint.rem2k_vartime" false [[]; [3]].
Proof. exact div_typing_needed. Qed.
Print Assumptions C02_tables_typing_needed.

(** non-vacuity: the lookups find functions, the side conditions hold and the values are non-trivial: a 3-limb
    constant-time division whose Knuth step needs the add-back (model and spec); a 3-limb dividend by a 2-limb divisor
    in variable time (quotient at the dividend's width, remainder at the divisor's); division by a limb; the wide
    remainder; the documented panics (operator form by zero, boxed constant-time form with two precisions) in both
    tables; checked_div by zero is none; the limb-level twin; an unknown key is Unsupported *)
Example C02_tables_nonvacuous :
  let M := run_tab ops_div_model in let S := run_tab ops_div_spec in
  typedb div_tbl_ty "uint.div_rem" [[MAXW; MAXW; MAXW - 1]; [MAXW; MAXW; 0]] = true /\
  M "uint.div_rem" false [[MAXW; MAXW; MAXW - 1]; [MAXW; MAXW; 0]] = Val [[MAXW; 0; 0]; [MAXW - 1; 0; 0]] /\
  S "uint.div_rem" false [[MAXW; MAXW; MAXW - 1]; [MAXW; MAXW; 0]] = Val [[MAXW; 0; 0]; [MAXW - 1; 0; 0]] /\
  M "uint.div_rem_vartime" false [[0; 0; 2 ^ 63]; [1; 2 ^ 63]] = Val [[MAXW; 0; 0]; [1; 2 ^ 63 - 1]] /\
  S "uint.div_rem_vartime" false [[0; 0; 2 ^ 63]; [1; 2 ^ 63]] = Val [[MAXW; 0; 0]; [1; 2 ^ 63 - 1]] /\
  typedb div_tbl_ty "uint.div_rem_limb" [[5; 7; 11]; [3]] = true /\
  M "uint.div_rem_limb" false [[5; 7; 11]; [3]] = Val [[1; 12297829382473034413; 3]; [2]] /\
  S "uint.div_rem_limb" false [[5; 7; 11]; [3]] = Val [[1; 12297829382473034413; 3]; [2]] /\
  typedb div_tbl_ty "uint.rem_wide_vartime" [[5; 0]; [0; 1]; [0; 3]] = true /\
  M "uint.rem_wide_vartime" false [[5; 0]; [0; 1]; [0; 3]] = Val [[5; 1]] /\
  S "uint.rem_wide_vartime" false [[5; 0]; [0; 1]; [0; 3]] = Val [[5; 1]] /\
  M "uint.div_plain" false [[5; 7]; [0; 0]] = PanicV /\ S "uint.div_plain" false [[5; 7]; [0; 0]] = PanicV /\
  M "boxed.div_rem" false [[5; 7; 9]; [1; 0]] = PanicV /\ S "boxed.div_rem" false [[5; 7; 9]; [1; 0]] = PanicV /\
  M "uint.checked_div" false [[5; 7]; [0; 0]] = NoneV /\ S "uint.checked_div" false [[5; 7]; [0; 0]] = NoneV /\
  M "uint.div_rem" false [[5; 7]; [0; 0]] = PanicV /\ S "uint.div_rem" false [[5; 7]; [0; 0]] = Unsupported /\
  typedb divl0_tbl_ty "uint.div_rem_l0" [[5; 7; 9; 11; 13]; [3; 1; 1; 0; 0]] = true /\
  run_tab ops_divl0_model "uint.div_rem_l0" false [[5; 7; 9; 11; 13]; [3; 1; 1; 0; 0]]
    = Val [[MAXW - 27; MAXW - 2; 12; 0; 0]; [89; 41; 0; 0; 0]] /\
  run_tab ops_divl0_spec "uint.div_rem_l0" false [[5; 7; 9; 11; 13]; [3; 1; 1; 0; 0]]
    = Val [[MAXW - 27; MAXW - 2; 12; 0; 0]; [89; 41; 0; 0; 0]] /\
  run_tab ops_divl0_model "boxed.div_rem_l0" false [[5; 7; 9]; [1; 0]] = PanicV /\
  run_tab ops_divl0_spec "boxed.div_rem_l0" false [[5; 7; 9]; [1; 0]] = PanicV /\
  M "no.such.key" false [[1]] = Unsupported.
Proof. vm_compute. repeat split; reflexivity. Qed.
