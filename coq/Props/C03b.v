(** C03 (continued) — the two op tables of Model/Mul.v that the correspondence check evaluates agree on EVERY key.
    For each of the 20 keys of [ops_mul_model] / [ops_mul_spec] (Limb wrapping / saturating / checked / panicking `*`;
    Uint split_mul / widening_mul / wrapping / checked / saturating / panicking `*` for ANY pair of widths N, M, routed
    through schoolbook or fixed Karatsuba; Uint square_wide / widening / wrapping / checked / saturating square;
    BoxedUint mul / wrapping_mul / checked_mul / panicking `*` for any pair of precisions and square, routed through
    schoolbook or the boxed Karatsuba recursion), in both profiles and for ALL well-formed argument lists (any number
    of arguments of any lengths) that meet the typing side condition of the key, the model entry (limb-level model of
    the Rust code including the glue: (lo, hi) splitting / concatenation, the all-zero test of the high half that selects
    Some / None / MAX / panic, Limb argument decoding, truncation of the boxed product to the receiver's precision)
    returns exactly what the spec entry (plain Z arithmetic on the represented integers) returns.
    [run_tab t k dbg a] = the table lookup of Model/Api.v; [wf_args a] = every limb of every argument is a 64-bit word;
    [typedb mul_tbl_ty k a] = what Rust's types enforce for key k (Proofs/MulTablesP.v): for the 4 Limb keys each of the
    two arguments is ONE word; the other 16 keys have no side condition at all.
    Statements only; proofs in Proofs/MulTablesP.v (on top of MulApiP / MulBaseP / MulKaraP / MulBoxedP / MulSqP). *)
From CB Require Import Model.Limbs Model.AddSub Model.Mul Proofs.TotalityP Proofs.MulTablesP.
From Coq Require Import ZArith List String.
Open Scope Z_scope.
Open Scope string_scope.

(** every key of the table (the key list is [map fst] of the table itself: nothing is left out) *)
Theorem C03_tables_agree : forall k dbg a,
  In k (map fst ops_mul_model) -> wf_args a -> typedb mul_tbl_ty k a = true ->
  run_tab ops_mul_spec k dbg a <> Unsupported ->
  run_tab ops_mul_model k dbg a = run_tab ops_mul_spec k dbg a.
Proof. exact mul_tables_agree. Qed.
Print Assumptions C03_tables_agree.

(** the same over the key list [mul_keys] of C11, which is the same set of 20 keys *)
Theorem C03_tables_agree_c11_keys : forall k dbg a,
  In k mul_keys -> wf_args a -> typedb mul_tbl_ty k a = true ->
  run_tab ops_mul_spec k dbg a <> Unsupported ->
  run_tab ops_mul_model k dbg a = run_tab ops_mul_spec k dbg a.
Proof. exact mul_tables_agree_c11_keys. Qed.
Print Assumptions C03_tables_agree_c11_keys.

Theorem C03_tables_key_set :
  map fst ops_mul_spec = map fst ops_mul_model /\ List.length (map fst ops_mul_model) = 20%nat /\
  (forall k, In k mul_keys <-> In k (map fst ops_mul_model)).
Proof. exact mul_key_set. Qed.
Print Assumptions C03_tables_key_set.

(** the spec table of this area is defined everywhere (no Unsupported answer), so the domain hypothesis of
    C03_tables_agree never excludes anything ... *)
Theorem C03_tables_spec_always_defined : forall k dbg a,
  In k (map fst ops_mul_model) -> run_tab ops_mul_spec k dbg a <> Unsupported.
Proof. exact mul_spec_always_defined. Qed.
Print Assumptions C03_tables_spec_always_defined.

(** ... and the agreement is unconditional on well-formed, typed argument lists *)
Theorem C03_tables_agree_total : forall k dbg a,
  In k (map fst ops_mul_model) -> wf_args a -> typedb mul_tbl_ty k a = true ->
  run_tab ops_mul_model k dbg a = run_tab ops_mul_spec k dbg a.
Proof. exact mul_tables_agree_total. Qed.
Print Assumptions C03_tables_agree_total.

(** the side condition is not decoration: a "Limb" of two words makes the two tables differ *)
Theorem C03_tables_typing_needed :
  run_tab ops_mul_model "limb.checked_mul" false [[0; 1]; [1]] <> run_tab ops_mul_spec "limb.checked_mul" false [[0; 1]; [1]] /\
  run_tab ops_mul_model "limb.mul" false [[1]; [0; 1]] <> run_tab ops_mul_spec "limb.mul" false [[1]; [0; 1]].
Proof. exact mul_typing_needed. Qed.
Print Assumptions C03_tables_typing_needed.

(** non-vacuity: the lookups find functions and return non-trivial values: a mixed-width split_mul (2 limbs by 1 limb,
    a surplus third argument is ignored) in both tables; the panicking `*` on 2^64 * 2^64 at two limbs panics in both
    tables; checked_square of 2^64 at two limbs is none; saturating_mul gives MAX; the boxed panicking form with a
    one-limb receiver panics; boxed.mul at mixed precision; Limb saturating / panicking forms at 2^63 * 2; the boxed
    square of 2^128 - 1; the typing predicate holds on a Limb pair; an unknown key is Unsupported *)
Example C03_tables_nonvacuous :
  run_tab ops_mul_model "uint.split_mul" false [[MAXW; MAXW]; [MAXW]; [7]] = Val [[1; MAXW]; [MAXW - 1]] /\
  run_tab ops_mul_spec "uint.split_mul" false [[MAXW; MAXW]; [MAXW]; [7]] = Val [[1; MAXW]; [MAXW - 1]] /\
  run_tab ops_mul_model "uint.mul" true [[0; 1]; [0; 1]] = PanicV /\
  run_tab ops_mul_spec "uint.mul" true [[0; 1]; [0; 1]] = PanicV /\
  run_tab ops_mul_model "uint.checked_square" false [[0; 1]] = NoneV /\
  run_tab ops_mul_spec "uint.checked_square" false [[0; 1]] = NoneV /\
  run_tab ops_mul_model "uint.saturating_mul" false [[0; 1]; [5; 1]] = Val [[MAXW; MAXW]] /\
  run_tab ops_mul_model "boxed.mul_panicking" false [[3]; [5; 1]] = PanicV /\
  run_tab ops_mul_model "boxed.mul" false [[MAXW; 3]; [MAXW]] = Val [[1; MAXW - 4; 3]] /\
  run_tab ops_mul_model "limb.saturating_mul" false [[2 ^ 63]; [2]] = Val [[MAXW]] /\
  run_tab ops_mul_model "limb.mul" false [[2 ^ 63]; [2]] = PanicV /\
  run_tab ops_mul_spec "limb.mul" false [[2 ^ 63]; [2]] = PanicV /\
  run_tab ops_mul_model "boxed.square" false [[MAXW; MAXW]] = Val [[1; 0; MAXW - 1; MAXW]] /\
  typedb mul_tbl_ty "limb.mul" [[2 ^ 63]; [2]] = true /\
  run_tab ops_mul_model "no.such.key" false [[1]] = Unsupported.
Proof. vm_compute. repeat split; reflexivity. Qed.
