(** C14 — every signed division flavour satisfies n = q*d + r with its sign convention.
    Only statements, each closed by [exact] of a lemma from Proofs/IntDivP.v.
    [seval] = signed value, [to_limbs_s k x] = k-limb two's-complement encoding of x, [isp_fits k x] decides
    MIN <= x <= MAX for k limbs.  Truncating flavour: Z.quot / Z.rem; flooring flavour: Z.div / Z.modulo.
    Dividend and divisor may have different widths (the _vartime forms); the quotient has the width of
    the dividend, the remainder the width of the divisor.
    The UNSIGNED division called by the Int code is modelled at the value level (Z.div / Z.modulo on eval);
    its limb-level correctness is property C02.
    One statement is REFUTED for the code of /repo as it stands (open defect, see the _refuted theorem):
    the width of the remainder of div_rem_uint_vartime / rem_uint_vartime when the divisor type is narrower
    than the dividend type.  (The remainder sign of checked_div_rem_floor(_vartime), refuted on the original
    tree with the witness (-8) div_floor 3 -> r = -1, was repaired in /repo by e95f693: the remainder is now
    negated by the sign of the divisor, and the full statement below is proved for that code.) *)
From CB Require Import Model.Limbs Model.AddSub Model.IntArith Model.IntDiv
  Proofs.WordP Proofs.LimbsP Proofs.AddSubP Proofs.IntArithP Proofs.IntDivP Proofs.IntTablesP.
From Coq Require Import ZArith List Bool String.
Open Scope string_scope.
Open Scope Z_scope.
Notation length := List.length.

(** the identities of the two conventions, in Z *)
Theorem C14_trunc_identity : forall N D, D <> 0 ->
  N = Z.quot N D * D + Z.rem N D /\ Z.abs (Z.rem N D) < Z.abs D /\
  (Z.rem N D = 0 \/ Z.sgn (Z.rem N D) = Z.sgn N).
Proof. exact trunc_identity. Qed.
Print Assumptions C14_trunc_identity.

Theorem C14_floor_identity : forall N D, D <> 0 ->
  N = (N / D) * D + N mod D /\ Z.abs (N mod D) < Z.abs D /\
  (N mod D = 0 \/ Z.sgn (N mod D) = Z.sgn D).
Proof. exact floor_identity. Qed.
Print Assumptions C14_floor_identity.

(** truncating division by an Int: checked_div_rem(_vartime), rem(_vartime) *)
Theorem C14_checked_div_rem : forall n d, wf n -> wf d -> seval d <> 0 ->
  int_checked_div_rem n d =
    (if isp_fits (length n) (Z.quot (seval n) (seval d))
     then Some (to_limbs_s (length n) (Z.quot (seval n) (seval d))) else None,
     to_limbs_s (length d) (Z.rem (seval n) (seval d))).
Proof. exact int_checked_div_rem_spec. Qed.
Print Assumptions C14_checked_div_rem.

Theorem C14_trunc_remainder_fits : forall n d, wf d -> seval d <> 0 ->
  - Bn (length d) <= 2 * Z.rem (seval n) (seval d) < Bn (length d).
Proof. exact trunc_rem_fits. Qed.
Print Assumptions C14_trunc_remainder_fits.

(** the quotient is none exactly for MIN / -1 ... *)
Theorem C14_trunc_quotient_none_iff : forall n d, wf n -> seval d <> 0 -> n <> [] ->
  (isp_fits (length n) (Z.quot (seval n) (seval d)) = false <->
   (2 * seval n = - Bn (length n) /\ seval d = -1)).
Proof. exact trunc_quot_fits_iff. Qed.
Print Assumptions C14_trunc_quotient_none_iff.

(** ... or for a zero divisor (checked_div / checked_div_floor take a plain Int) *)
Theorem C14_zero_divisor : forall n d, wf d -> eval d = 0 ->
  int_checked_div n d = None /\ int_checked_div_floor n d = None.
Proof. exact checked_div_zero. Qed.
Print Assumptions C14_zero_divisor.

Theorem C14_checked_div : forall n d, wf n -> wf d -> seval d <> 0 ->
  int_checked_div n d =
    if isp_fits (length n) (Z.quot (seval n) (seval d))
    then Some (to_limbs_s (length n) (Z.quot (seval n) (seval d))) else None.
Proof. exact int_checked_div_spec. Qed.
Print Assumptions C14_checked_div.

Theorem C14_rem : forall n d, wf n -> wf d -> seval d <> 0 ->
  int_rem n d = to_limbs_s (length d) (Z.rem (seval n) (seval d)).
Proof. exact int_rem_spec. Qed.
Print Assumptions C14_rem.

(** flooring division by an Int: checked_div_rem_floor(_vartime), checked_div_floor(_vartime):
    quotient = floor(n / d), remainder = n mod d (sign of the divisor) *)
Theorem C14_checked_div_rem_floor : forall n d, wf n -> wf d -> n <> [] -> seval d <> 0 ->
  int_checked_div_rem_floor n d =
    (if isp_fits (length n) (seval n / seval d) then Some (to_limbs_s (length n) (seval n / seval d)) else None,
     to_limbs_s (length d) (seval n mod seval d)).
Proof. exact int_checked_div_rem_floor_spec. Qed.
Print Assumptions C14_checked_div_rem_floor.

Theorem C14_floor_quotient : forall n d, wf n -> wf d -> n <> [] -> seval d <> 0 ->
  fst (int_checked_div_rem_floor n d) =
    if isp_fits (length n) (seval n / seval d) then Some (to_limbs_s (length n) (seval n / seval d)) else None.
Proof. exact floor_quotient_spec. Qed.
Print Assumptions C14_floor_quotient.

Theorem C14_floor_remainder : forall n d, wf n -> wf d -> n <> [] -> seval d <> 0 ->
  snd (int_checked_div_rem_floor n d) = to_limbs_s (length d) (seval n mod seval d).
Proof. exact floor_remainder_spec. Qed.
Print Assumptions C14_floor_remainder.

Theorem C14_checked_div_floor : forall n d, wf n -> wf d -> n <> [] -> seval d <> 0 ->
  int_checked_div_floor n d =
    if isp_fits (length n) (seval n / seval d) then Some (to_limbs_s (length n) (seval n / seval d)) else None.
Proof. exact int_checked_div_floor_spec. Qed.
Print Assumptions C14_checked_div_floor.

Theorem C14_floor_quotient_none_iff : forall n d, wf n -> wf d -> n <> [] -> seval d <> 0 ->
  (isp_fits (length n) (seval n / seval d) = false <-> (2 * seval n = - Bn (length n) /\ seval d = -1)).
Proof. exact floor_quot_fits_iff. Qed.
Print Assumptions C14_floor_quotient_none_iff.

Theorem C14_floor_remainder_fits : forall n d, wf d -> seval d <> 0 ->
  - Bn (length d) <= 2 * (seval n mod seval d) < Bn (length d).
Proof. exact floor_rem_fits. Qed.
Print Assumptions C14_floor_remainder_fits.

(** truncating division by a Uint: div_rem_uint(_vartime), div_uint, rem_uint *)
Theorem C14_div_rem_uint : forall n d, wf n -> wf d -> eval d <> 0 ->
  int_div_rem_uint n d =
    (to_limbs_s (length n) (Z.quot (seval n) (eval d)), to_limbs_s (length d) (Z.rem (seval n) (eval d))).
Proof. exact int_div_rem_uint_spec. Qed.
Print Assumptions C14_div_rem_uint.

Theorem C14_div_uint_quotient_fits : forall n d, wf n -> wf d -> eval d <> 0 ->
  - Bn (length n) <= 2 * Z.quot (seval n) (eval d) < Bn (length n).
Proof. exact uquot_fits. Qed.
Print Assumptions C14_div_uint_quotient_fits.

(** the signed remainder is representable when the divisor type is at least as wide as the dividend type *)
Theorem C14_rem_uint_fits_partial : forall n d, wf n -> wf d -> eval d <> 0 -> (length n <= length d)%nat ->
  - Bn (length d) <= 2 * Z.rem (seval n) (eval d) < Bn (length d).
Proof. exact urem_fits. Qed.
Print Assumptions C14_rem_uint_fits_partial.

(** OPEN DEFECT (finding F14): with a narrower divisor type the remainder can exceed Int<RHS_LIMBS>::MAX and is returned
    reinterpreted (witness: Int<2> 2^64-2 rem Uint<1> 2^64-1 reads back as -2) *)
Theorem C14_rem_uint_mixed_refuted :
  exists n d, wf n /\ wf d /\ eval d <> 0 /\
    seval (snd (int_div_rem_uint n d)) <> Z.rem (seval n) (eval d).
Proof. exact rem_uint_mixed_refuted. Qed.
Print Assumptions C14_rem_uint_mixed_refuted.

(** flooring division by a Uint: div_rem_floor_uint(_vartime), div_floor_uint, normalized_rem *)
Theorem C14_div_rem_floor_uint : forall n d, wf n -> wf d -> n <> [] -> eval d <> 0 ->
  int_div_rem_floor_uint n d =
    (to_limbs_s (length n) (seval n / eval d), to_limbs (length d) (seval n mod eval d)).
Proof. exact int_div_rem_floor_uint_spec. Qed.
Print Assumptions C14_div_rem_floor_uint.

Theorem C14_div_floor_uint_fits : forall n d, wf n -> wf d -> eval d <> 0 ->
  - Bn (length n) <= 2 * (seval n / eval d) < Bn (length n).
Proof. exact ufloor_fits. Qed.
Print Assumptions C14_div_floor_uint_fits.

Theorem C14_normalized_rem_range : forall n d, wf d -> eval d <> 0 ->
  0 <= seval n mod eval d < eval d.
Proof. exact normalized_rem_range. Qed.
Print Assumptions C14_normalized_rem_range.

(** the two op tables evaluated by the correspondence check agree key by key on all well-formed arguments
    (a zero divisor is outside the domain of the forms taking NonZero: both entries say so) *)
Theorem C14_tables_agree_int_divisor : forall dbg n d, wf n -> wf d -> n <> [] ->
  let M := run_op ops_intdiv_model in let S := run_op ops_intdiv_spec in
  M "sdiv.checked_div_rem" dbg [n; d] = S "sdiv.checked_div_rem" dbg [n; d] /\
  M "sdiv.checked_div" dbg [n; d] = S "sdiv.checked_div" dbg [n; d] /\
  M "sdiv.rem" dbg [n; d] = S "sdiv.rem" dbg [n; d] /\
  M "sdiv.div_expect" dbg [n; d] = S "sdiv.div_expect" dbg [n; d] /\
  M "sdiv.checked_div_floor" dbg [n; d] = S "sdiv.checked_div_floor" dbg [n; d].
Proof.
  intros dbg n d Hn Hd Hne M S. unfold M, S.
  repeat split; [apply tbl_checked_div_rem | apply tbl_checked_div | apply tbl_rem | apply tbl_div_expect
    | apply tbl_checked_div_floor]; assumption.
Qed.
Print Assumptions C14_tables_agree_int_divisor.

Theorem C14_tables_agree_floor : forall dbg n d, wf n -> wf d -> n <> [] ->
  run_op ops_intdiv_model "sdiv.checked_div_rem_floor" dbg [n; d] =
  run_op ops_intdiv_spec "sdiv.checked_div_rem_floor" dbg [n; d].
Proof. exact tbl_checked_div_rem_floor. Qed.
Print Assumptions C14_tables_agree_floor.

Theorem C14_tables_agree_uint_divisor : forall dbg n d, wf n -> wf d -> n <> [] ->
  let M := run_op ops_intdiv_model in let S := run_op ops_intdiv_spec in
  M "sdiv.div_uint" dbg [n; d] = S "sdiv.div_uint" dbg [n; d] /\
  M "sdiv.div_rem_floor_uint" dbg [n; d] = S "sdiv.div_rem_floor_uint" dbg [n; d] /\
  M "sdiv.div_floor_uint" dbg [n; d] = S "sdiv.div_floor_uint" dbg [n; d] /\
  M "sdiv.normalized_rem" dbg [n; d] = S "sdiv.normalized_rem" dbg [n; d].
Proof.
  intros dbg n d Hn Hd Hne M S. unfold M, S.
  split; [apply tbl_div_uint; assumption | apply tbl_div_rem_floor_uint; assumption].
Qed.
Print Assumptions C14_tables_agree_uint_divisor.

(** div_rem_uint / rem_uint: agreement whenever the divisor type is at least as wide as the dividend type
    (outside the reported remainder-width defect class) *)
Theorem C14_tables_agree_rem_uint_partial : forall dbg n d, wf n -> wf d -> (length n <= length d)%nat ->
  run_op ops_intdiv_model "sdiv.div_rem_uint" dbg [n; d] = run_op ops_intdiv_spec "sdiv.div_rem_uint" dbg [n; d] /\
  run_op ops_intdiv_model "sdiv.rem_uint" dbg [n; d] = run_op ops_intdiv_spec "sdiv.rem_uint" dbg [n; d].
Proof. exact tbl_div_rem_uint. Qed.
Print Assumptions C14_tables_agree_rem_uint_partial.

(** non-vacuity: 8 / 3 in the four sign combinations (truncating), MIN / -1, floor quotients *)
Example C14_nonvacuous :
  int_checked_div_rem [8] [3] = (Some [2], [2]) /\
  int_checked_div_rem [2 ^ 64 - 8] [3] = (Some [2 ^ 64 - 2], [2 ^ 64 - 2]) /\
  int_checked_div_rem [8] [2 ^ 64 - 3] = (Some [2 ^ 64 - 2], [2]) /\
  int_checked_div_rem [2 ^ 64 - 8] [2 ^ 64 - 3] = (Some [2], [2 ^ 64 - 2]) /\
  fst (int_checked_div_rem [0; 2 ^ 63] [MAXW; MAXW]) = None /\
  int_checked_div_rem_floor [2 ^ 64 - 8] [3] = (Some [2 ^ 64 - 3], [1]) /\
  int_checked_div_rem_floor [2 ^ 64 - 8] [2 ^ 64 - 3] = (Some [2], [2 ^ 64 - 2]) /\
  int_checked_div_rem_floor [8] [2 ^ 64 - 3] = (Some [2 ^ 64 - 3], [2 ^ 64 - 1]) /\
  int_div_rem_floor_uint [2 ^ 64 - 8] [3] = ([2 ^ 64 - 3], [1]).
Proof. vm_compute. repeat split; reflexivity. Qed.
