(** C11 — totality: the model returns [PanicV] exactly where the documentation says the call panics.
    These are corollaries of the model = spec table theorems of the owning properties (the spec tables say [PanicV]
    exactly in the documented cases and [NoneV]/[ErrV] for the option/result-returning forms). *)
From CB Require Import Model.Limbs Model.Mul Proofs.WordP Proofs.LimbsP Proofs.MulApiP.
From Coq Require Import ZArith List.
Open Scope Z_scope.

(** the `*` operator on Uint panics exactly on overflow; checked_mul never panics *)
Lemma uint_mul_panics_iff x y dbg : wf x -> wf y ->
  (op_of ops_mul_model "uint.mul" dbg [x; y] = PanicV <-> sp_fits (length x) (eval x * eval y) = false) /\
  op_of ops_mul_model "uint.checked_mul" dbg [x; y] <> PanicV.
Proof.
  intros Hx Hy.
  assert (E1 := uint_mul_ops_correct "uint.mul" dbg x y Hx Hy ltac:(simpl; tauto)).
  assert (E2 := uint_mul_ops_correct "uint.checked_mul" dbg x y Hx Hy ltac:(simpl; tauto)).
  rewrite E1, E2. cbn. unfold sp_panicking, sp_checked, sp_prod, ev, ln, arg. cbn [nth length].
  destruct (sp_fits (length x) (eval x * eval y)); split; try split; intros; try discriminate; try reflexivity.
Qed.

Theorem C11_uint_mul_panics_iff_overflow : forall x y dbg, wf x -> wf y ->
  (op_of ops_mul_model "uint.mul" dbg [x; y] = PanicV <-> sp_fits (length x) (eval x * eval y) = false) /\
  op_of ops_mul_model "uint.checked_mul" dbg [x; y] <> PanicV.
Proof. exact uint_mul_panics_iff. Qed.
Print Assumptions C11_uint_mul_panics_iff_overflow.
