From CB Require Import Model.Div.
Theorem placeholder : True. Proof. exact I. Qed.
Print Assumptions placeholder.
