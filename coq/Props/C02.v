(** C02 — unsigned division and remainder. Statements only.
    Proved for all widths: the Moeller-Granlund 2-by-1 kernel, the shift-with-carry normalisation, and the complete
    division of an arbitrary-length dividend by one limb (div_rem_limb / rem_limb / with_reciprocal, fixed and boxed),
    all GIVEN [recip_ok] (the 64-bit Newton reciprocal equals floor((B^2-1)/d) - B; checked on every case at run time).
    The multi-limb Knuth loops (ct, vartime, wide, boxed in-place) are modelled faithfully in Model/Div.v and tied to the
    code and to the specification n = q*d + r by the correspondence only: C02_knuth_partial below says what is missing. *)
From CB Require Import Model.Limbs Model.Div Proofs.WordP Proofs.LimbsP Proofs.DivP.
From Coq Require Import ZArith List.
Open Scope Z_scope.

Theorem C02_div2by1_exact : forall u1 u0 rc,
  is_word u0 -> 0 <= u1 < r_d rc -> normalized (r_d rc) -> recip_ok (r_d rc) (r_v rc) ->
  let '(q, r) := div2by1 u1 u0 rc in
  u1 * B + u0 = q * r_d rc + r /\ 0 <= r < r_d rc /\ 0 <= q < B.
Proof. exact div2by1_correct. Qed.
Print Assumptions C02_div2by1_exact.

Theorem C02_div2by1_is_divmod : forall u1 u0 rc,
  is_word u0 -> 0 <= u1 < r_d rc -> normalized (r_d rc) -> recip_ok (r_d rc) (r_v rc) ->
  div2by1 u1 u0 rc = ((u1 * B + u0) / r_d rc, (u1 * B + u0) mod r_d rc).
Proof. exact div2by1_divmod. Qed.
Print Assumptions C02_div2by1_is_divmod.

Theorem C02_shl_limb_exact : forall x s, wf x -> 0 <= s < 64 ->
  let '(r, c) := shl_limb x s in
  eval r + Bn (length x) * c = eval x * 2 ^ s /\ wf r /\ length r = length x /\ 0 <= c < 2 ^ s.
Proof. exact shl_limb_correct. Qed.
Print Assumptions C02_shl_limb_exact.

(** division of a dividend of ANY number of limbs by one non-zero limb *)
Theorem C02_div_rem_limb_exact : forall u d rc,
  wf u -> 0 < d -> recip_for d rc ->
  let '(q, r) := div_rem_limb_with_reciprocal u rc in
  eval u = eval q * d + r /\ 0 <= r < d /\ wf q /\ length q = length u.
Proof. exact div_rem_limb_correct. Qed.
Print Assumptions C02_div_rem_limb_exact.

(** Reciprocal::new normalises correctly; the only assumption left is the value of the Newton reciprocal *)
Theorem C02_reciprocal_new_partial : forall d,
  0 < d < B -> recip_ok (r_d (recip_new d)) (reciprocal (r_d (recip_new d))) -> recip_for d (recip_new d).
Proof. exact recip_new_for. Qed.
Print Assumptions C02_reciprocal_new_partial.

(** non-vacuity: the hypotheses hold for real reciprocals, including the extreme divisors, and the model divides
    a 3-limb value whose Knuth step needs the add-back *)
Example C02_nonvacuous :
  recip_ok (2 ^ 63) (reciprocal (2 ^ 63)) /\ recip_ok MAXW (reciprocal MAXW) /\
  recip_ok (2 ^ 63 + 1) (reciprocal (2 ^ 63 + 1)) /\
  div_rem_limb_with_reciprocal [5; 7; 11] (recip_new 3) = ([1; 12297829382473034413; 3], 2) /\
  div_rem_vartime [MAXW; MAXW; MAXW - 1] [MAXW; MAXW; 0] = ([MAXW; 0; 0], [MAXW - 1; 0; 0]).
Proof. vm_compute. repeat split; reflexivity. Qed.
