(** C02 — unsigned division and remainder. Statements only (proofs in Proofs/Div*.v, KnuthStepP.v, RemWideP.v, Rem2kP.v,
    Recip*.v). Everything is proved for ALL limb counts / word values about the executable model Model/Div.v:
    the Moeller-Granlund 2-by-1 kernel and its Newton reciprocal (reciprocal_correct: no assumption left), the 3-by-2
    quotient estimate (Knuth Theorem B), the multiply-subtract / add-back step, and on top of them every division routine:
    division by one limb, Uint::div_rem (constant time), Uint::div_rem_vartime (mixed widths), BoxedUint
    div_rem_vartime_in_place / div_rem_vartime / rem_vartime / div_rem, Uint::rem_wide_vartime and rem2k_vartime. *)
From CB Require Import Model.Limbs Model.Div Proofs.WordP Proofs.LimbsP Proofs.DivP Proofs.Div3by2P Proofs.KnuthStepP
  Proofs.DivShiftP Proofs.DivVtP Proofs.DivBoxedP Proofs.RemWideP Proofs.DivCtP Proofs.Rem2kP Proofs.RecipP Proofs.DivFinalP.
From Coq Require Import ZArith List.
Open Scope Z_scope.

Theorem C02_div2by1_exact : forall u1 u0 rc,
  is_word u0 -> 0 <= u1 < r_d rc -> normalized (r_d rc) -> recip_ok (r_d rc) (r_v rc) ->
  let '(q, r) := div2by1 u1 u0 rc in
  u1 * B + u0 = q * r_d rc + r /\ 0 <= r < r_d rc /\ 0 <= q < B.
Proof. exact div2by1_correct. Qed.
Print Assumptions C02_div2by1_exact.

Theorem C02_div2by1_is_divmod : forall u1 u0 rc,
  is_word u0 -> 0 <= u1 < r_d rc -> normalized (r_d rc) -> recip_ok (r_d rc) (r_v rc) ->
  div2by1 u1 u0 rc = ((u1 * B + u0) / r_d rc, (u1 * B + u0) mod r_d rc).
Proof. exact div2by1_divmod. Qed.
Print Assumptions C02_div2by1_is_divmod.

Theorem C02_shl_limb_exact : forall x s, wf x -> 0 <= s < 64 ->
  let '(r, c) := shl_limb x s in
  eval r + Bn (length x) * c = eval x * 2 ^ s /\ wf r /\ length r = length x /\ 0 <= c < 2 ^ s.
Proof. exact shl_limb_correct. Qed.
Print Assumptions C02_shl_limb_exact.

(** division of a dividend of ANY number of limbs by one non-zero limb *)
Theorem C02_div_rem_limb_exact : forall u d rc,
  wf u -> 0 < d -> recip_for d rc ->
  let '(q, r) := div_rem_limb_with_reciprocal u rc in
  eval u = eval q * d + r /\ 0 <= r < d /\ wf q /\ length q = length u.
Proof. exact div_rem_limb_correct. Qed.
Print Assumptions C02_div_rem_limb_exact.

(** Reciprocal::new normalises correctly; the only assumption left is the value of the Newton reciprocal *)
Theorem C02_reciprocal_new_partial : forall d,
  0 < d < B -> recip_ok (r_d (recip_new d)) (reciprocal (r_d (recip_new d))) -> recip_for d (recip_new d).
Proof. exact recip_new_for. Qed.
Print Assumptions C02_reciprocal_new_partial.

(** 3-by-2 quotient estimate (Knuth D3 / Theorem B): exact quotient of the top three dividend limbs by the top two
    divisor limbs, capped at B - 1 *)
Theorem C02_div3by2_exact : forall u2 u1 u0 rc v0,
  normalized (r_d rc) -> recip_ok (r_d rc) (r_v rc) ->
  is_word u1 -> is_word u0 -> is_word v0 -> 0 <= u2 <= r_d rc ->
  div3by2 u2 u1 u0 rc v0 = Z.min ((u2 * B * B + u1 * B + u0) / (r_d rc * B + v0)) (B - 1).
Proof. exact div3by2_correct. Qed.
Print Assumptions C02_div3by2_exact.

(** multiply-subtract + masked add-back on the window xw of x (x_hi on top) against the window yw of y, ANY digit quo:
    the mask tells whether quo * Y > W and the window ends up holding W - quo*Y (+ Y when masked) mod B^cnt *)
Theorem C02_knuth_step_window : forall x y x_hi base yoff cnt quo xa xw xb ya yw yb,
  x = xa ++ xw ++ xb -> length xa = base -> length xw = cnt ->
  y = ya ++ yw ++ yb -> length ya = yoff -> length yw = cnt ->
  wf xw -> wf yw -> is_word x_hi -> is_word quo ->
  let W := eval xw + Bn cnt * x_hi in
  let Y := eval yw in
  let mask := W <? quo * Y in
  exists xw'', knuth_step x y x_hi base yoff cnt quo = (xa ++ xw'' ++ xb, mask) /\
    wf xw'' /\ length xw'' = cnt /\
    eval xw'' = (W - quo * Y + (if mask then Y else 0)) mod Bn cnt.
Proof. exact knuth_step_window. Qed.
Print Assumptions C02_knuth_step_window.

(** with a digit that is the true one or one too large: exact partial remainder, corrected digit = floor(W / Y) *)
Theorem C02_knuth_step_exact : forall x y x_hi base yoff cnt quo xa xw xb ya yw yb,
  x = xa ++ xw ++ xb -> length xa = base -> length xw = cnt ->
  y = ya ++ yw ++ yb -> length ya = yoff -> length yw = cnt ->
  wf xw -> wf yw -> is_word x_hi -> is_word quo ->
  let W := eval xw + Bn cnt * x_hi in
  let Y := eval yw in
  (quo - 1) * Y <= W < (quo + 1) * Y ->
  exists xw'' mask, knuth_step x y x_hi base yoff cnt quo = (xa ++ xw'' ++ xb, mask) /\
    wf xw'' /\ length xw'' = cnt /\
    let q := if mask then quo - 1 else quo in
    W = q * Y + eval xw'' /\ 0 <= eval xw'' < Y /\ q = W / Y /\ eval xw'' = W mod Y /\ 0 <= q /\
    sel mask quo (wsub quo 1) = q /\ sel mask quo (if quo =? 0 then 0 else quo - 1) = q.
Proof. exact knuth_step_exact. Qed.
Print Assumptions C02_knuth_step_exact.

(** the div3by2 digit of a window below Y * B is the true digit or one more (so the add-back happens at most once) *)
Theorem C02_knuth_digit : forall k xl u0 u1 x_hi yl v0 d rc,
  length xl = k -> wf xl -> is_word u0 -> is_word u1 -> is_word x_hi ->
  length yl = k -> wf yl -> is_word v0 -> r_d rc = d -> normalized d -> recip_ok d (r_v rc) ->
  let Y := eval (yl ++ [v0; d]) in
  let W := eval (xl ++ [u0; u1]) + Bn (S (S k)) * x_hi in
  W < Y * B ->
  let quo := div3by2 x_hi u1 u0 rc v0 in
  (quo - 1) * Y <= W < (quo + 1) * Y /\ is_word quo.
Proof. exact knuth_digit. Qed.
Print Assumptions C02_knuth_digit.

(** the 64-bit Newton reciprocal (Moeller-Granlund, Algorithm 3) is exact for every normalised divisor *)
Theorem C02_reciprocal_correct : forall d, 2 ^ 63 <= d < 2 ^ 64 -> recip_ok d (reciprocal d).
Proof. exact reciprocal_correct. Qed.
Print Assumptions C02_reciprocal_correct.

(** Reciprocal::new: shift, normalised divisor and reciprocal are right for every non-zero limb *)
Theorem C02_reciprocal_new : forall d, 0 < d < B -> recip_for d (recip_new d).
Proof. exact recip_new_correct. Qed.
Print Assumptions C02_reciprocal_new.

(** div_rem_limb / rem_limb / div_limb (Uint and BoxedUint): any number of dividend limbs, any non-zero limb divisor *)
Theorem C02_div_rem_limb : forall u d, wf u -> 0 < d < B ->
  let '(q, r) := div_rem_limb_with_reciprocal u (recip_new d) in
  eval u = eval q * d + r /\ 0 <= r < d /\ wf q /\ length q = length u.
Proof. exact div_rem_limb_total. Qed.
Print Assumptions C02_div_rem_limb.

(** Uint::div_rem_vartime, all three branches (single-limb divisor, divisor longer than the dividend, Knuth loop with
    shl_limb_vartime normalisation and shr_limb_vartime denormalisation), every pair of widths *)
Theorem C02_div_rem_vartime : forall x0 y0 q r,
  wf x0 -> wf y0 -> eval y0 <> 0 -> div_rem_vartime x0 y0 = (q, r) ->
  eval x0 = eval q * eval y0 + eval r /\ 0 <= eval r < eval y0 /\
  length q = length x0 /\ length r = length y0 /\ wf q /\ wf r.
Proof. exact div_rem_vartime_total. Qed.
Print Assumptions C02_div_rem_vartime.

Theorem C02_div_rem_vartime_is_divmod : forall x0 y0 q r,
  wf x0 -> wf y0 -> eval y0 <> 0 -> div_rem_vartime x0 y0 = (q, r) ->
  eval q = eval x0 / eval y0 /\ eval r = eval x0 mod eval y0.
Proof. exact div_rem_vartime_divmod. Qed.
Print Assumptions C02_div_rem_vartime_is_divmod.

(** the same statement relative to the reciprocal actually used: only the reciprocal of the normalised leading divisor
    word top64 (eval y0) matters (this is the form that does not depend on reciprocal_correct) *)
Theorem C02_div_rem_vartime_given_recip : forall x0 y0 q r,
  wf x0 -> wf y0 -> eval y0 <> 0 ->
  recip_ok (top64 (eval y0)) (reciprocal (top64 (eval y0))) ->
  div_rem_vartime x0 y0 = (q, r) ->
  eval x0 = eval q * eval y0 + eval r /\ 0 <= eval r < eval y0 /\
  length q = length x0 /\ length r = length y0 /\ wf q /\ wf r.
Proof. exact div_rem_vartime_correct. Qed.
Print Assumptions C02_div_rem_vartime_given_recip.

(** BoxedUint: div_rem_vartime_in_place on slices (divisor slice with non-zero leading limb, at least two limbs) *)
Theorem C02_boxed_div_rem_in_place : forall x0 y0 q r,
  wf x0 -> wf y0 -> (2 <= length y0)%nat -> nthz y0 (length y0 - 1) <> 0 ->
  boxed_div_rem_in_place x0 y0 = (q, r) ->
  eval x0 = eval q * eval y0 + eval r /\ 0 <= eval r < eval y0 /\
  length q = length x0 /\ length r = length y0 /\ wf q /\ wf r.
Proof. exact boxed_div_rem_in_place_total. Qed.
Print Assumptions C02_boxed_div_rem_in_place.

Theorem C02_boxed_div_rem_vartime : forall x0 y0,
  wf x0 -> wf y0 -> eval y0 <> 0 ->
  exists q r, boxed_div_rem_vartime x0 y0 = Some (q, r) /\
  eval x0 = eval q * eval y0 + eval r /\ 0 <= eval r < eval y0 /\
  length q = length x0 /\ length r = length y0 /\ wf q /\ wf r.
Proof. exact boxed_div_rem_vartime_total. Qed.
Print Assumptions C02_boxed_div_rem_vartime.

Theorem C02_boxed_rem_vartime : forall x0 y0,
  wf x0 -> wf y0 -> eval y0 <> 0 ->
  exists r, boxed_rem_vartime x0 y0 = Some r /\
  eval r = eval x0 mod eval y0 /\ length r = length y0 /\ wf r.
Proof. exact boxed_rem_vartime_total. Qed.
Print Assumptions C02_boxed_rem_vartime.

(** Uint::div_rem, constant-time variant (fixed trip count, `done` masking, limb_div tail, value-level shifts) *)
Theorem C02_uint_div_rem : forall x0 y0,
  wf x0 -> wf y0 -> length y0 = length x0 -> eval y0 <> 0 ->
  exists q r, uint_div_rem x0 y0 = Some (q, r) /\
  eval x0 = eval q * eval y0 + eval r /\ 0 <= eval r < eval y0 /\
  length q = length x0 /\ length r = length x0 /\ wf q /\ wf r.
Proof. exact uint_div_rem_total. Qed.
Print Assumptions C02_uint_div_rem.

(** a zero divisor is rejected (the model's None = the documented panic) *)
Theorem C02_uint_div_rem_zero : forall x0 y0, wf y0 -> length y0 = length x0 -> eval y0 = 0 -> uint_div_rem x0 y0 = None.
Proof. exact uint_div_rem_zero. Qed.
Print Assumptions C02_uint_div_rem_zero.

(** BoxedUint::div_rem (constant time, equal precisions) *)
Theorem C02_boxed_div_rem : forall x0 y0,
  wf x0 -> wf y0 -> length y0 = length x0 -> eval y0 <> 0 ->
  exists q r, boxed_div_rem x0 y0 = Some (q, r) /\
  eval x0 = eval q * eval y0 + eval r /\ 0 <= eval r < eval y0 /\
  length q = length x0 /\ length r = length x0 /\ wf q /\ wf r.
Proof. exact boxed_div_rem_total. Qed.
Print Assumptions C02_boxed_div_rem.

(** Uint::rem_wide_vartime: remainder of the double-width value (lo, hi) *)
Theorem C02_rem_wide_vartime : forall lo hi y0,
  wf lo -> wf hi -> wf y0 -> length hi = length lo -> length y0 = length lo -> eval y0 <> 0 ->
  let r := rem_wide_vartime lo hi y0 in
  eval r = (eval lo + Bn (length lo) * eval hi) mod eval y0 /\ length r = length lo /\ wf r.
Proof. exact rem_wide_vartime_total. Qed.
Print Assumptions C02_rem_wide_vartime.

(** rem2k_vartime: x mod 2^k, or x itself when k >= BITS *)
Theorem C02_rem2k_vartime : forall x k, wf x -> x <> [] -> 0 <= k ->
  eval (rem2k_vartime x k) = (if 64 * Z.of_nat (length x) <=? k then eval x else eval x mod 2 ^ k)
  /\ wf (rem2k_vartime x k) /\ length (rem2k_vartime x k) = length x.
Proof. exact rem2k_vartime_correct. Qed.
Print Assumptions C02_rem2k_vartime.

(** non-vacuity: the hypotheses hold for real reciprocals, including the extreme divisors, and the models divide
    values whose Knuth step needs the add-back / whose estimate is capped *)
Example C02_nonvacuous :
  recip_ok (2 ^ 63) (reciprocal (2 ^ 63)) /\ recip_ok MAXW (reciprocal MAXW) /\
  recip_ok (2 ^ 63 + 1) (reciprocal (2 ^ 63 + 1)) /\
  div_rem_limb_with_reciprocal [5; 7; 11] (recip_new 3) = ([1; 12297829382473034413; 3], 2) /\
  div_rem_vartime [MAXW; MAXW; MAXW - 1] [MAXW; MAXW; 0] = ([MAXW; 0; 0], [MAXW - 1; 0; 0]) /\
  uint_div_rem [MAXW; MAXW; MAXW - 1] [MAXW; MAXW; 0] = Some ([MAXW; 0; 0], [MAXW - 1; 0; 0]) /\
  boxed_div_rem_vartime [0; 0; 2 ^ 63] [1; 2 ^ 63; 0] = Some ([MAXW; 0; 0], [1; 2 ^ 63 - 1; 0]) /\
  rem_wide_vartime [5; 0] [0; 1] [0; 3] = [5; 1] /\
  rem2k_vartime [MAXW; MAXW] 65 = [MAXW; 1] /\
  div3by2 (2 ^ 63) MAXW 0 (recip_new (2 ^ 63)) 0 = MAXW.
Proof. vm_compute. repeat split; reflexivity. Qed.
