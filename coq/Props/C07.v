(** C07 — modular addition, subtraction, negation, doubling and the special-modulus (p = 2^BITS - c) variants,
    including the HAC 14.47 reduction of mul_mod_special.  Statements only; every statement is for ALL limb
    counts and all word values.  Proved outright: add_mod, double_mod, sub_mod, neg_mod, add/sub/neg_mod_special,
    mac_by_limb, and the multi-limb (n >= 2) reduction of mul_mod_special GIVEN only that the multiplication routine
    returns the double-width product (C03).  The one-limb branch of mul_mod_special is proved GIVEN [recip_ok]
    (the 64-bit Newton reciprocal of 2^64 - c is exact: C02).  mul_mod_vartime / MulMod are tied to the spec
    GIVEN the product (C03) and the wide Knuth remainder (C02); mul_mod (Montgomery, C08) is value-level in the model. *)
From CB Require Import Model.Limbs Model.AddSub Model.Mul Model.Div Model.ModArith Model.Bits Model.Halve
  Proofs.WordP Proofs.LimbsP Proofs.AddSubP Proofs.DivP Proofs.ModArithP Proofs.ModArithTablesP Proofs.HalveP.
From Coq Require Import ZArith List String.
Open Scope Z_scope.
Notation length := List.length.

Theorem placeholder : True. Proof. exact I. Qed.
Print Assumptions placeholder.

(** add_mod: add, trial-subtract p, re-add p under sbb(carry, 0, borrow); exact also when a + b overflows 2^BITS *)
Theorem C07_add_mod_correct : forall a b p,
  wf a -> wf b -> wf p -> length a = length b -> length a = length p ->
  eval a < eval p -> eval b < eval p ->
  eval (add_mod a b p) = (eval a + eval b) mod eval p
  /\ wf (add_mod a b p) /\ length (add_mod a b p) = length a.
Proof. exact add_mod_correct. Qed.
Print Assumptions C07_add_mod_correct.

(** the shared tail of add_mod / double_mod: any (n+1)-limb value below 2p is reduced to its residue *)
Theorem C07_add_mod_tail_correct : forall w carry p,
  wf w -> wf p -> length w = length p -> 0 <= carry <= 1 ->
  0 <= eval w + Bn (length w) * carry < 2 * eval p ->
  eval (add_mod_tail w carry p) = (eval w + Bn (length w) * carry) mod eval p
  /\ wf (add_mod_tail w carry p) /\ length (add_mod_tail w carry p) = length w.
Proof. exact add_mod_tail_correct. Qed.
Print Assumptions C07_add_mod_tail_correct.

Theorem C07_double_mod_correct : forall a p,
  wf a -> wf p -> length a = length p -> eval a < eval p ->
  eval (double_mod a p) = (2 * eval a) mod eval p
  /\ wf (double_mod a p) /\ length (double_mod a p) = length a.
Proof. exact double_mod_correct. Qed.
Print Assumptions C07_double_mod_correct.

Theorem C07_sub_mod_correct : forall a b p,
  wf a -> wf b -> wf p -> length a = length b -> length a = length p ->
  eval a < eval p -> eval b < eval p ->
  eval (sub_mod a b p) = (eval a - eval b) mod eval p
  /\ wf (sub_mod a b p) /\ length (sub_mod a b p) = length a.
Proof. exact sub_mod_correct. Qed.
Print Assumptions C07_sub_mod_correct.

Theorem C07_neg_mod_correct : forall a p,
  wf a -> wf p -> length a = length p -> eval a < eval p ->
  eval (neg_mod a p) = (- eval a) mod eval p
  /\ wf (neg_mod a p) /\ length (neg_mod a p) = length a.
Proof. exact neg_mod_correct. Qed.
Print Assumptions C07_neg_mod_correct.

(** the negation of zero is zero (not p) *)
Theorem C07_neg_mod_zero : forall a p,
  wf a -> wf p -> length a = length p -> eval a = 0 -> 0 < eval p -> eval (neg_mod a p) = 0.
Proof. exact neg_mod_zero. Qed.
Print Assumptions C07_neg_mod_zero.

(** special modulus p = 2^BITS - c, 1 <= c <= MAX *)
Theorem C07_add_mod_special_correct : forall a b c,
  wf a -> wf b -> length a = length b -> 1 <= c < B -> 0 < psp (length a) c ->
  eval a < psp (length a) c -> eval b < psp (length a) c ->
  eval (add_mod_special a b c) = (eval a + eval b) mod psp (length a) c
  /\ wf (add_mod_special a b c) /\ length (add_mod_special a b c) = length a.
Proof. exact add_mod_special_correct. Qed.
Print Assumptions C07_add_mod_special_correct.

Theorem C07_sub_mod_special_correct : forall a b c,
  wf a -> wf b -> length a = length b -> 1 <= c < B -> 0 < psp (length a) c ->
  eval a < psp (length a) c -> eval b < psp (length a) c ->
  eval (sub_mod_special a b c) = (eval a - eval b) mod psp (length a) c
  /\ wf (sub_mod_special a b c) /\ length (sub_mod_special a b c) = length a.
Proof. exact sub_mod_special_correct. Qed.
Print Assumptions C07_sub_mod_special_correct.

Theorem C07_neg_mod_special_correct : forall a c,
  wf a -> 1 <= c < B -> 0 < psp (length a) c -> eval a < psp (length a) c ->
  eval (neg_mod_special a c) = (- eval a) mod psp (length a) c
  /\ wf (neg_mod_special a c) /\ length (neg_mod_special a c) = length a.
Proof. exact neg_mod_special_correct. Qed.
Print Assumptions C07_neg_mod_special_correct.

(** mac_by_limb: a + b*c + carry over any number of limbs, exact with the outgoing carry word *)
Theorem C07_mac_by_limb_correct : forall a b c carry r co,
  wf a -> wf b -> length a = length b -> is_word c -> is_word carry ->
  mac_by_limb a b c carry = (r, co) ->
  eval r + Bn (length a) * co = eval a + eval b * c + carry /\ wf r /\ length r = length a /\ is_word co.
Proof. exact mac_by_limb_correct. Qed.
Print Assumptions C07_mac_by_limb_correct.

(** HAC 14.47 on integers: for N >= B^2 and p = N - c, any double-width x = lo + N*hi is reduced to x mod p by
    one multiply-accumulate, the addition of (k1 + 1)*c (NOT wrapped to a word) and a conditional subtraction of c *)
Theorem C07_hac1447 : forall N c lo hi lo1 k1 lo2 k2,
  B * B <= N -> 1 <= c < B ->
  0 <= lo < N -> 0 <= hi < N ->
  0 <= lo1 < N -> 0 <= k1 -> lo1 + N * k1 = lo + hi * c ->
  0 <= lo2 < N -> 0 <= k2 <= 1 -> lo2 + N * k2 = lo1 + (k1 + 1) * c ->
  (lo2 - (if k2 =? 0 then c else 0)) mod N = (lo + N * hi) mod (N - c).
Proof. exact hac1447. Qed.
Print Assumptions C07_hac1447.

(** mul_mod_special, n >= 2 limbs: whatever double-width value (lo, hi) the multiplication returns is reduced to
    its canonical residue mod 2^BITS - c (a, b need not even be reduced) *)
Theorem C07_mul_mod_special_reduction : forall dbg mulf a b c lo hi,
  (2 <= length a)%nat -> 1 <= c < B ->
  mulf a b = (lo, hi) -> wf lo -> wf hi -> length lo = length a -> length hi = length a ->
  exists r, mul_mod_special dbg mulf a b c = Some r
    /\ eval r = (eval lo + Bn (length a) * eval hi) mod psp (length a) c
    /\ wf r /\ length r = length a.
Proof. exact mul_mod_special_wide_correct. Qed.
Print Assumptions C07_mul_mod_special_reduction.

(** mul_mod_special, n >= 2 limbs, given that (lo, hi) is the product *)
Theorem C07_mul_mod_special_correct_given_mul : forall dbg mulf a b c lo hi,
  wf a -> wf b -> length a = length b -> (2 <= length a)%nat -> 1 <= c < B ->
  eval a < psp (length a) c -> eval b < psp (length a) c ->
  mulf a b = (lo, hi) -> wf lo -> wf hi -> length lo = length a -> length hi = length a ->
  eval lo + Bn (length a) * eval hi = eval a * eval b ->
  exists r, mul_mod_special dbg mulf a b c = Some r
    /\ eval r = (eval a * eval b) mod psp (length a) c
    /\ wf r /\ length r = length a.
Proof. exact mul_mod_special_correct. Qed.
Print Assumptions C07_mul_mod_special_correct_given_mul.

(** mul_mod_special, one limb: mul_rem by d = 2^64 - c through its reciprocal *)
Theorem C07_mul_mod_special_one_limb_given_recip : forall dbg mulf a b c,
  wf a -> wf b -> length a = 1%nat -> length b = 1%nat -> 1 <= c < B ->
  recip_ok (r_d (recip_new (B - c))) (reciprocal (r_d (recip_new (B - c)))) ->
  exists r, mul_mod_special dbg mulf a b c = Some r
    /\ eval r = (eval a * eval b) mod psp (length a) c /\ wf r /\ length r = length a.
Proof. exact mul_mod_special_one_limb_given_recip'. Qed.
Print Assumptions C07_mul_mod_special_one_limb_given_recip.

(** mul_mod_special at every width *)
Theorem C07_mul_mod_special_all_widths_given_mul_recip : forall dbg mulf a b c,
  wf a -> wf b -> length a = length b -> 1 <= c < B -> 0 < psp (length a) c ->
  split_mul_ok mulf a b ->
  recip_ok (r_d (recip_new (B - c))) (reciprocal (r_d (recip_new (B - c)))) ->
  exists r, mul_mod_special dbg mulf a b c = Some r
    /\ eval r = (eval a * eval b) mod psp (length a) c /\ wf r /\ length r = length a.
Proof. exact mul_mod_special_all_widths_given_mul_recip. Qed.
Print Assumptions C07_mul_mod_special_all_widths_given_mul_recip.

(** computing `carry + 1` in a 64-bit word (the code before the fix) is wrong for c = MAX: witness a = b = 2^192 - 2^65 *)
Theorem C07_mul_mod_special_wrapping_variant_refuted :
  exists a c, wf a /\ 1 <= c < B /\ eval a < psp (length a) c /\
    eval (mul_mod_special_wrapping uint_split_mul a a c) <> (eval a * eval a) mod psp (length a) c /\
    option_map eval (mul_mod_special false uint_split_mul a a c) = Some ((eval a * eval a) mod psp (length a) c).
Proof. exact mul_mod_special_wrapping_refuted. Qed.
Print Assumptions C07_mul_mod_special_wrapping_variant_refuted.

(** ---- the two op tables agree wherever the spec is defined ---- *)
Theorem C07_tables_agree_addsubneg : forall dbg a k, wf_args a -> In k addsubneg_keys ->
  run_op7 ops_modarith_spec k dbg a <> Unsupported ->
  run_op7 ops_modarith_model k dbg a = run_op7 ops_modarith_spec k dbg a.
Proof. exact tables_agree_addsubneg. Qed.
Print Assumptions C07_tables_agree_addsubneg.

Theorem C07_tables_agree_uint_mul_mod_special_given_mul_recip : forall dbg a, wf_args a ->
  split_mul_ok uint_split_mul (arg 0 a) (arg 1 a) ->
  recip_ok (r_d (recip_new (B - sarg 2 a))) (reciprocal (r_d (recip_new (B - sarg 2 a)))) ->
  run_op7 ops_modarith_spec "uint.mul_mod_special" dbg a <> Unsupported ->
  run_op7 ops_modarith_model "uint.mul_mod_special" dbg a = run_op7 ops_modarith_spec "uint.mul_mod_special" dbg a.
Proof. exact tbl_uint_mul_mod_special_given_mul_recip. Qed.
Print Assumptions C07_tables_agree_uint_mul_mod_special_given_mul_recip.

Theorem C07_tables_agree_boxed_mul_mod_special_given_mul_recip : forall dbg a, wf_args a ->
  split_mul_ok boxed_split_mul (arg 0 a) (arg 1 a) ->
  recip_ok (r_d (recip_new (B - sarg 2 a))) (reciprocal (r_d (recip_new (B - sarg 2 a)))) ->
  run_op7 ops_modarith_spec "boxed.mul_mod_special" dbg a <> Unsupported ->
  run_op7 ops_modarith_model "boxed.mul_mod_special" dbg a = run_op7 ops_modarith_spec "boxed.mul_mod_special" dbg a.
Proof. exact tbl_boxed_mul_mod_special_given_mul_recip. Qed.
Print Assumptions C07_tables_agree_boxed_mul_mod_special_given_mul_recip.

Theorem C07_tables_agree_uint_mul_mod_vartime_given_mul_rem : forall dbg a, wf_args a ->
  split_mul_ok uint_split_mul (arg 0 a) (arg 1 a) -> rem_wide_ok (arg 2 a) -> ln 0 a = ln 2 a ->
  run_op7 ops_modarith_spec "uint.mul_mod_vartime" dbg a <> Unsupported ->
  run_op7 ops_modarith_model "uint.mul_mod_vartime" dbg a = run_op7 ops_modarith_spec "uint.mul_mod_vartime" dbg a.
Proof. exact tbl_uint_mul_mod_vartime_given_mul_rem. Qed.
Print Assumptions C07_tables_agree_uint_mul_mod_vartime_given_mul_rem.

(** the MulMod trait panics exactly on p = 0 *)
Theorem C07_tables_agree_uint_mul_mod_trait_given_mul_rem : forall dbg a, wf_args a ->
  split_mul_ok uint_split_mul (arg 0 a) (arg 1 a) -> rem_wide_ok (arg 2 a) -> ln 0 a = ln 2 a ->
  run_op7 ops_modarith_model "uint.mul_mod_trait" dbg a = run_op7 ops_modarith_spec "uint.mul_mod_trait" dbg a.
Proof. exact tbl_uint_mul_mod_trait_given_mul_rem. Qed.
Print Assumptions C07_tables_agree_uint_mul_mod_trait_given_mul_rem.

(** mul_mod (Montgomery route, C08) is value-level in the model: only the domain split is compared *)
Theorem C07_tables_agree_uint_mul_mod_value_level : forall dbg a,
  run_op7 ops_modarith_spec "uint.mul_mod" dbg a <> Unsupported ->
  run_op7 ops_modarith_model "uint.mul_mod" dbg a = run_op7 ops_modarith_spec "uint.mul_mod" dbg a.
Proof. exact tbl_uint_mul_mod_value_level. Qed.
Print Assumptions C07_tables_agree_uint_mul_mod_value_level.

Theorem C07_tables_agree_boxed_mul_mod_value_level : forall dbg a,
  run_op7 ops_modarith_spec "boxed.mul_mod" dbg a <> Unsupported ->
  run_op7 ops_modarith_model "boxed.mul_mod" dbg a = run_op7 ops_modarith_spec "boxed.mul_mod" dbg a.
Proof. exact tbl_boxed_mul_mod_value_level. Qed.
Print Assumptions C07_tables_agree_boxed_mul_mod_value_level.

(** non-vacuity: the hypotheses are satisfiable and the models compute the residues (a + b overflows 2^128 in the
    first conjunct; mul_mod_special with c = MAX on three limbs in the last) *)
Example C07_nonvacuous :
  add_mod [MAXW; MAXW - 1] [MAXW - 1; MAXW - 1] [0; MAXW] = [MAXW - 2; MAXW - 1] /\
  sub_mod [1; 0] [2; 0] [7; 5] = [6; 5] /\ neg_mod [0; 0] [7; 5] = [0; 0] /\
  add_mod_special [MAXW - 5; MAXW] [MAXW - 5; MAXW] 3 = [MAXW - 8; MAXW] /\
  mul_mod_special false uint_split_mul [0; MAXW - 1; MAXW] [0; MAXW - 1; MAXW] MAXW = Some [1; 2; 1] /\
  run_op7 ops_modarith_spec "uint.add_mod" false [[5]; [6]; [7]] = Val [[4]].
Proof. vm_compute. repeat split. Qed.

(* ---------------- modular halving (Model/Halve.v: crate::modular::div_by_2, fixed and boxed) ---------------- *)

(** for an odd modulus m and a canonical a < m the result h is canonical and 2 h = a (mod m); every limb count
    (Z.of_nat (length a) < 2^32: bit indices are u32 in the code) *)
Theorem C07_div_by_2_halves : forall a m,
  wf a -> wf m -> length m = length a -> a <> [] -> Z.of_nat (length a) < U32 ->
  Z.odd (eval m) = true -> eval a < eval m ->
  let r := div_by_2 a m in
  wf r /\ length r = length a /\ 0 <= eval r < eval m /\ (2 * eval r) mod eval m = eval a.
Proof. exact div_by_2_halves. Qed.
Print Assumptions C07_div_by_2_halves.

(** the exact value, including moduli with a + m >= 2^BITS (the carry re-inserted as the top bit) *)
Theorem C07_div_by_2_value : forall a m,
  wf a -> wf m -> length m = length a -> a <> [] -> Z.of_nat (length a) < U32 ->
  let r := div_by_2 a m in
  wf r /\ length r = length a /\
  (eval a + eval m < 2 * Bn (length a) -> eval r = spec_half (eval a) (eval m)).
Proof. exact div_by_2_correct. Qed.
Print Assumptions C07_div_by_2_value.

(** the boxed in-place variant (masked conditional_adc_assign, shr1_assign, set_bit) returns the same limbs *)
Theorem C07_div_by_2_boxed_is_fixed : forall a m,
  wf a -> wf m -> length m = length a -> a <> [] -> Z.of_nat (length a) < U32 ->
  div_by_2_boxed a m = div_by_2 a m.
Proof. exact div_by_2_boxed_eq. Qed.
Print Assumptions C07_div_by_2_boxed_is_fixed.

Theorem C07_tables_agree_halve : forall dbg k a, Forall wf a -> In k ["uint.div_by_2"; "boxed.div_by_2"]%string ->
  Z.of_nat (ln 0 a) < U32 ->
  match lookup k ops_halve_spec with Some f => f dbg a | None => Unsupported end <> Unsupported ->
  match lookup k ops_halve_model with Some f => f dbg a | None => Unsupported end =
  match lookup k ops_halve_spec with Some f => f dbg a | None => Unsupported end.
Proof. exact halve_tables_agree. Qed.
Print Assumptions C07_tables_agree_halve.

Example C07_halve_nonvacuous :
  div_by_2 [1; 0] [MAXW; MAXW] = [0; 2 ^ 63] /\ div_by_2_boxed [3; 0] [MAXW; MAXW] = [1; 2 ^ 63] /\
  div_by_2 [6; 0] [7; 0] = [3; 0] /\ div_by_2 [5; 0] [7; 0] = [6; 0].
Proof. vm_compute. repeat split. Qed.
