From CB Require Import Model.ModArith.
Theorem placeholder : True. Proof. exact I. Qed.
Print Assumptions placeholder.
