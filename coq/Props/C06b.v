(** C06, continuation: the two op tables of the area `cmp` (Model/Cmp.v) that the correspondence check evaluates
    agree on the whole key set.  For EVERY one of the 88 keys, the entry of [ops_cmp_model] (limb-level model of
    the Rust code together with the glue of the entry: argument decoding, Choice / ConstChoice / CtOption plumbing,
    debug assertions, panics) returns the same outcome as the entry of [ops_cmp_spec] (plain order / equality on the
    represented integers) for all word-limbed arguments that are typed as Rust types them.
    [run_tab t k dbg args] looks the key up exactly as Model/Api.v does; [cmp_typed k args] is the boolean typing
    side condition of the key (Proofs/CmpTablesP.v, [cmp_tbl_ty]): a Limb is one word, two Uint<N> / Int<N> operands
    have one limb count, Int<N> has at least one limb; nothing else. *)
From CB Require Import Model.Limbs Model.AddSub Model.Cmp Proofs.TotalityP Proofs.CmpTablesP.
From Coq Require Import ZArith List String Bool.
Open Scope Z_scope.
Open Scope string_scope.

Theorem C06_tables_agree : forall k dbg a, In k cmp_keys -> wf_args a -> cmp_typed k a = true ->
  run_tab ops_cmp_spec k dbg a <> Unsupported ->
  run_tab ops_cmp_model k dbg a = run_tab ops_cmp_spec k dbg a.
Proof. exact cmp_tables_agree. Qed.
Print Assumptions C06_tables_agree.

(** [cmp_keys] is the whole key set of both tables (88 distinct keys) *)
Theorem C06_tables_keys_whole : forall k, In k cmp_keys <-> In k (map fst ops_cmp_model).
Proof. exact cmp_keys_whole. Qed.
Print Assumptions C06_tables_keys_whole.

Theorem C06_tables_keys_count :
  map fst ops_cmp_model = map fst ops_cmp_spec /\ List.length cmp_keys = 88%nat /\ NoDup cmp_keys.
Proof. exact cmp_keys_same_tables. Qed.
Print Assumptions C06_tables_keys_count.

(** the spec table is defined everywhere (no [Unsupported]): the domain hypothesis above never excludes an input *)
Theorem C06_tables_spec_total : forall k dbg a, In k cmp_keys -> run_tab ops_cmp_spec k dbg a <> Unsupported.
Proof. exact cmp_spec_total. Qed.
Print Assumptions C06_tables_spec_total.

(** the typing side condition depends on the limb counts of the arguments only, never on a value *)
Theorem C06_tables_typing_shape_only : forall k a b,
  map (@List.length Z) a = map (@List.length Z) b -> cmp_typed k a = cmp_typed k b.
Proof. exact cmp_typed_shape_only. Qed.
Print Assumptions C06_tables_typing_shape_only.

(** BoxedUint::ct_select / ct_assign / ct_swap on operands of DIFFERENT precision (outside the typing condition of
    these two keys): the release profile returns a truncated operand / a mixture where the spec returns the chosen
    operand, the debug profile panics (GENUINE DEFECT, open finding F16) *)
Theorem C06_tables_boxed_select_refuted : exists a, wf_args a /\ cmp_typed "boxed.select" a = false /\
  run_tab ops_cmp_model "boxed.select" false a = Val [[2]] /\
  run_tab ops_cmp_spec "boxed.select" false a = Val [[2; 3]] /\
  run_tab ops_cmp_model "boxed.select" true a = PanicV.
Proof. exact tbl_boxed_select_refuted. Qed.
Print Assumptions C06_tables_boxed_select_refuted.

Theorem C06_tables_boxed_swap_refuted : exists a, wf_args a /\ cmp_typed "boxed.swap" a = false /\
  run_tab ops_cmp_model "boxed.swap" false a = Val [[2]; [1; 3]] /\
  run_tab ops_cmp_spec "boxed.swap" false a = Val [[2; 3]; [1]] /\
  run_tab ops_cmp_model "boxed.swap" true a = PanicV.
Proof. exact tbl_boxed_swap_refuted. Qed.
Print Assumptions C06_tables_boxed_swap_refuted.

(** non-vacuity: the lookups find the entries and the typing conditions hold on real inputs: a three-limb cmp with a
    borrow through equal high limbs (Greater = 2), the signed order across the sign bit, boxed operands of different
    precision compared by value, new_from_abs_sign of (2^127, negative) = MIN is some while (2^127, positive) is none
    and its unwrapping form panics, NonZero::new(0).unwrap() panics, ct_swap in the debug profile *)
Example C06_tables_nonvacuous :
  let M := run_tab ops_cmp_model in let S := run_tab ops_cmp_spec in
  cmp_typed "uint.cmp" [[1; 7; 7]; [0; 7; 7]] = true /\
  M "uint.cmp" false [[1; 7; 7]; [0; 7; 7]] = Val [[2]] /\ S "uint.cmp" false [[1; 7; 7]; [0; 7; 7]] = Val [[2]] /\
  cmp_typed "uint.cmp" [[1; 7; 7]; [0; 7]] = false /\
  M "int.ct_lt" false [[0; 2 ^ 63]; [MAXW; 2 ^ 63 - 1]] = Val [[1]] /\
  M "boxed.lt" true [[MAXW]; [0; 1]] = Val [[1]] /\ S "boxed.lt" true [[MAXW]; [0; 1]] = Val [[1]] /\
  cmp_typed "int.new_from_abs_sign" [[0; 2 ^ 63]; [1]; [5; 6]] = true /\
  M "int.new_from_abs_sign" false [[0; 2 ^ 63]; [1]; [5; 6]] = Val [[1]; [0]; [0; 2 ^ 63]; [0; 2 ^ 63]] /\
  M "int.new_from_abs_sign" false [[0; 2 ^ 63]; [0]; [5; 6]] = Val [[0]; [1]; [5; 6]; []] /\
  S "int.new_from_abs_sign" false [[0; 2 ^ 63]; [0]; [5; 6]] = Val [[0]; [1]; [5; 6]; []] /\
  M "int.new_from_abs_sign_expect" false [[0; 2 ^ 63]; [0]] = PanicV /\
  S "int.new_from_abs_sign_expect" false [[0; 2 ^ 63]; [0]] = PanicV /\
  M "limb.nz_new_unwrap" false [[0]] = PanicV /\ S "limb.nz_new_unwrap" false [[0]] = PanicV /\
  M "limb.nz_new_unwrap" false [[9]] = Val [[9]] /\
  M "boxed.swap" true [[1; 2]; [3; 4]; [1]] = Val [[3; 4]; [1; 2]] /\
  S "boxed.swap" true [[1; 2]; [3; 4]; [1]] = Val [[3; 4]; [1; 2]] /\
  M "boxed.hash" false [[1; 0; 0]; [1]] = Val [[1]; [1]] /\
  M "nosuch.key" false [] = Unsupported.
Proof. vm_compute. repeat split; reflexivity. Qed.
