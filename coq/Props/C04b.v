(** C04 (continued) — the two op tables of Model/AddSub.v that the correspondence check evaluates agree on EVERY key.
    For each of the 42 keys of [ops_addsub_model] / [ops_addsub_spec] (Limb / Uint / BoxedUint add, sub, neg; adc / sbb
    with arbitrary carry words; checked / saturating / wrapping / panicking operator forms; boxed mixed-precision and
    assigning forms; Checked<Uint> expressions), in both profiles and for all well-formed argument lists that meet the
    typing side condition of the key, the model entry (limb-level model of the Rust code, including the option / flag
    plumbing, the saturating / checked / wrapping selection, resizing and panics) returns exactly what the spec entry
    (plain Z arithmetic on the represented integers) returns.
    [run_tab t k dbg a] = the table lookup of Model/Api.v; [wf_args a] = every limb of every argument is a 64-bit word;
    [typedb addsub_tbl_ty k a] = what Rust's types enforce for key k (Proofs/AddSubTablesP.v): a Limb is one word,
    two / three Uint<N> operands have one N; at least one limb for the three forms that take an arbitrary borrow word
    ("uint.sbb", "boxed.sbb", "boxed.sbb_assign": a zero-limb chain hands the word back unnormalised); the other
    17 keys (mac, neg forms, all other boxed forms) have no side condition at all.
    Statements only; proofs in Proofs/AddSubTablesP.v. *)
From CB Require Import Model.Limbs Model.AddSub Proofs.TotalityP Proofs.AddSubTablesP.
From Coq Require Import ZArith List String.
Open Scope Z_scope.
Open Scope string_scope.

(** every key of the table (the key list is [map fst] of the table itself: nothing is left out) *)
Theorem C04_tables_agree : forall k dbg a,
  In k (map fst ops_addsub_model) -> wf_args a -> typedb addsub_tbl_ty k a = true ->
  run_tab ops_addsub_spec k dbg a <> Unsupported ->
  run_tab ops_addsub_model k dbg a = run_tab ops_addsub_spec k dbg a.
Proof. exact addsub_tables_agree. Qed.
Print Assumptions C04_tables_agree.

(** the same over the key list [addsub_keys] of C11, which is the same set of 42 keys *)
Theorem C04_tables_agree_c11_keys : forall k dbg a,
  In k addsub_keys -> wf_args a -> typedb addsub_tbl_ty k a = true ->
  run_tab ops_addsub_spec k dbg a <> Unsupported ->
  run_tab ops_addsub_model k dbg a = run_tab ops_addsub_spec k dbg a.
Proof. exact addsub_tables_agree_c11_keys. Qed.
Print Assumptions C04_tables_agree_c11_keys.

Theorem C04_tables_key_set :
  map fst ops_addsub_spec = map fst ops_addsub_model /\ List.length (map fst ops_addsub_model) = 42%nat /\
  (forall k, In k addsub_keys <-> In k (map fst ops_addsub_model)).
Proof. exact addsub_key_set. Qed.
Print Assumptions C04_tables_key_set.

(** the spec table of this area is defined everywhere (no Unsupported answer), so the domain hypothesis of
    C04_tables_agree never excludes anything *)
Theorem C04_tables_spec_always_defined : forall k dbg a,
  In k (map fst ops_addsub_model) -> run_tab ops_addsub_spec k dbg a <> Unsupported.
Proof. exact addsub_spec_always_defined. Qed.
Print Assumptions C04_tables_spec_always_defined.

(** the side conditions are not decoration: outside them the two tables differ *)
Theorem C04_tables_typing_needed :
  run_tab ops_addsub_model "limb.checked_add" false [[0; 1]; [0]] <> run_tab ops_addsub_spec "limb.checked_add" false [[0; 1]; [0]] /\
  run_tab ops_addsub_model "uint.wrapping_add" false [[1; 1]; [1]] <> run_tab ops_addsub_spec "uint.wrapping_add" false [[1; 1]; [1]] /\
  run_tab ops_addsub_model "uint.sbb" false [[]; []; [5]] <> run_tab ops_addsub_spec "uint.sbb" false [[]; []; [5]].
Proof. exact typing_needed. Qed.
Print Assumptions C04_tables_typing_needed.

(** non-vacuity: the lookups find functions and return non-trivial values: a two-limb borrow chain with an incoming
    borrow word whose top bit is set; a 1-limb receiver += a 2-limb rhs whose high limb is non-zero (carry bit set by
    the fold, value wrapped); the same through the operator panics; checked_add at 2^128 - 1 + 1 is none; a Checked
    expression (a - b) + c with a < b is none although a - b + c fits; an unknown key is Unsupported *)
Example C04_tables_nonvacuous :
  run_tab ops_addsub_model "uint.sbb" false [[0; 5]; [1; 0]; [2 ^ 63]] = Val [[MAXW - 1; 4]; [0]] /\
  run_tab ops_addsub_spec "uint.sbb" false [[0; 5]; [1; 0]; [2 ^ 63]] = Val [[MAXW - 1; 4]; [0]] /\
  run_tab ops_addsub_model "boxed.adc_assign" false [[MAXW]; [3; 7]; [0]] = Val [[2]; [1]] /\
  run_tab ops_addsub_model "boxed.add_assign" true [[MAXW]; [3; 7]] = PanicV /\
  run_tab ops_addsub_spec "boxed.add_assign" true [[MAXW]; [3; 7]] = PanicV /\
  run_tab ops_addsub_model "uint.checked_add" false [[MAXW; MAXW]; [1; 0]] = NoneV /\
  run_tab ops_addsub_model "uint.checked_expr" false [[1]; [2]; [5]; [1]; [0]; [0]; [0]] = NoneV /\
  run_tab ops_addsub_spec "uint.checked_expr" false [[1]; [2]; [5]; [1]; [0]; [0]; [0]] = NoneV /\
  run_tab ops_addsub_model "uint.saturating_sub" false [[1; 0]; [2; 0]] = Val [[0; 0]] /\
  typedb addsub_tbl_ty "uint.sbb" [[0; 5]; [1; 0]; [2 ^ 63]] = true /\
  run_tab ops_addsub_model "no.such.key" false [[1]] = Unsupported.
Proof. vm_compute. repeat split; reflexivity. Qed.
