(** C05 — shifts and bit queries agree with the binary expansion for every shift amount.
    Only statements, each closed by [exact] of a lemma from Proofs/, pinned by [Print Assumptions].
    All statements quantify over every limb count (list length), every word value and every shift
    amount / bit index.  [eval] = the represented unsigned integer, [seval] = the two's complement reading,
    [Bn n] = 2^(64 n).  Hypotheses of the form [64 * length a < U32] / [s < U32] state that widths and shift
    amounts are u32 values, as in the Rust signatures. *)
From CB Require Import Model.Limbs Model.AddSub Model.Bits Proofs.WordP Proofs.LimbsP Proofs.AddSubP
  Proofs.BitsWordP Proofs.ShiftP Proofs.LadderP Proofs.BitQueryP Proofs.IntShiftP Proofs.WideP Proofs.BitsAllP.
From Coq Require Import ZArith List Bool.
Open Scope Z_scope.

(* ================================================================== shifts of Uint *)

(** Uint::overflowing_shl_vartime (limb move + intra-limb carry): x * 2^s mod 2^BITS, `none` (value 0) iff s >= BITS *)
Theorem C05_shl_vartime : forall a s, wf a -> 0 <= s ->
  let r := uint_overflowing_shl_vartime a s in
  let bits := 64 * Z.of_nat (length a) in
  snd r = choice_of_bool (s <? bits) /\ wf (fst r) /\ length (fst r) = length a /\
  eval (fst r) = if s <? bits then (eval a * 2 ^ s) mod Bn (length a) else 0.
Proof. exact shl_vartime_correct. Qed.
Print Assumptions C05_shl_vartime.

(** Uint::overflowing_shr_vartime: floor(x / 2^s), `none` (value 0) iff s >= BITS *)
Theorem C05_shr_vartime : forall a s, wf a -> 0 <= s ->
  let r := uint_overflowing_shr_vartime a s in
  let bits := 64 * Z.of_nat (length a) in
  snd r = choice_of_bool (s <? bits) /\ wf (fst r) /\ length (fst r) = length a /\
  eval (fst r) = if s <? bits then eval a / 2 ^ s else 0.
Proof. exact shr_vartime_correct. Qed.
Print Assumptions C05_shr_vartime.

(** the overflow mask ConstChoice::from_u32_lt is exact on all of u32 x u32 *)
Theorem C05_from_u32_lt : forall x y, 0 <= x < U32 -> 0 <= y < U32 ->
  from_u32_lt x y = choice_of_bool (x <? y).
Proof. exact from_u32_lt_bool. Qed.
Print Assumptions C05_from_u32_lt.

(** Uint::overflowing_shl (constant-time ladder over ceil(log2 BITS) fixed shifts + overflow mask), any
    number of limbs (power of two or not), any u32 shift: never panics, is_some iff s < BITS *)
Theorem C05_overflowing_shl : forall a s,
  wf a -> a <> [] -> 64 * Z.of_nat (length a) < U32 -> 0 <= s < U32 ->
  let bits := 64 * Z.of_nat (length a) in
  exists v, uint_overflowing_shl a s = Some (v, choice_of_bool (s <? bits)) /\
            wf v /\ length v = length a /\
            eval v = if s <? bits then (eval a * 2 ^ s) mod Bn (length a) else 0.
Proof. exact uint_overflowing_shl_correct. Qed.
Print Assumptions C05_overflowing_shl.


Theorem C05_overflowing_shr : forall a s,
  wf a -> a <> [] -> 64 * Z.of_nat (length a) < U32 -> 0 <= s < U32 ->
  let bits := 64 * Z.of_nat (length a) in
  exists v, uint_overflowing_shr a s = Some (v, choice_of_bool (s <? bits)) /\
            wf v /\ length v = length a /\
            eval v = if s <? bits then eval a / 2 ^ s else 0.
Proof. exact uint_overflowing_shr_correct. Qed.
Print Assumptions C05_overflowing_shr.

(** constant-time and variable-time shifts return identical results (value and is_some), for every u32 shift *)
Theorem C05_ct_eq_vartime :
  (forall a s,
  wf a -> a <> [] -> 64 * Z.of_nat (length a) < U32 -> 0 <= s < U32 ->
  uint_overflowing_shl a s = Some (uint_overflowing_shl_vartime a s)) /\
  (forall a s,
  wf a -> a <> [] -> 64 * Z.of_nat (length a) < U32 -> 0 <= s < U32 ->
  uint_overflowing_shr a s = Some (uint_overflowing_shr_vartime a s)).
Proof. exact ct_eq_vartime_all. Qed.
Print Assumptions C05_ct_eq_vartime.

(** every API form built on them (overflowing_* -> Option, shl/shr/<< >> -> panic, wrapping_* -> zero),
    as the outcome the op table of Model/Bits.v reports *)
Theorem C05_shl_all_forms : forall a s,
  wf a -> a <> [] -> 64 * Z.of_nat (length a) < U32 -> 0 <= s < U32 ->
  let spec := to_limbs (length a) ((eval a * 2 ^ s) mod Bn (length a)) in
  let inr := s <? 64 * Z.of_nat (length a) in
  out_ctopt (uint_overflowing_shl a s) = (if inr then Val [spec] else NoneV) /\
  out_ctopt (Some (uint_overflowing_shl_vartime a s)) = (if inr then Val [spec] else NoneV) /\
  out_expect (uint_overflowing_shl a s) = (if inr then Val [spec] else PanicV) /\
  out_expect (Some (uint_overflowing_shl_vartime a s)) = (if inr then Val [spec] else PanicV) /\
  out_unwrap_or (uint_overflowing_shl a s) (zeros (length a)) = Val [if inr then spec else zeros (length a)] /\
  out_unwrap_or (Some (uint_overflowing_shl_vartime a s)) (zeros (length a)) = Val [if inr then spec else zeros (length a)].
Proof. exact uint_shl_forms. Qed.
Print Assumptions C05_shl_all_forms.


Theorem C05_shr_all_forms : forall a s,
  wf a -> a <> [] -> 64 * Z.of_nat (length a) < U32 -> 0 <= s < U32 ->
  let spec := to_limbs (length a) (eval a / 2 ^ s) in
  let inr := s <? 64 * Z.of_nat (length a) in
  out_ctopt (uint_overflowing_shr a s) = (if inr then Val [spec] else NoneV) /\
  out_ctopt (Some (uint_overflowing_shr_vartime a s)) = (if inr then Val [spec] else NoneV) /\
  out_expect (uint_overflowing_shr a s) = (if inr then Val [spec] else PanicV) /\
  out_expect (Some (uint_overflowing_shr_vartime a s)) = (if inr then Val [spec] else PanicV) /\
  out_unwrap_or (uint_overflowing_shr a s) (zeros (length a)) = Val [if inr then spec else zeros (length a)] /\
  out_unwrap_or (Some (uint_overflowing_shr_vartime a s)) (zeros (length a)) = Val [if inr then spec else zeros (length a)].
Proof. exact uint_shr_forms. Qed.
Print Assumptions C05_shr_all_forms.

(* ================================================================== double-width shifts *)

(** Uint::overflowing_shl_vartime_wide / shr_vartime_wide on (lo, hi), every 0 <= s < 2*BITS (all three branches of
    the case split, including the zero shift, which returns the input) *)
Theorem C05_shl_wide : forall lo hi, wf lo -> wf hi -> length hi = length lo -> lo <> [] ->
  forall s, 0 <= s < 2 * (64 * Z.of_nat (length lo)) ->
  exists l h, uint_shl_vartime_wide lo hi s = Some (Some (l, h)) /\
    wf l /\ wf h /\ length l = length lo /\ length h = length lo /\
    eval l + Bn (length lo) * eval h =
    ((eval lo + Bn (length lo) * eval hi) * 2 ^ s) mod (Bn (length lo) * Bn (length lo)).
Proof. exact uint_shl_vartime_wide_correct. Qed.
Print Assumptions C05_shl_wide.


Theorem C05_shr_wide : forall lo hi, wf lo -> wf hi -> length hi = length lo -> lo <> [] ->
  forall s, 0 <= s < 2 * (64 * Z.of_nat (length lo)) ->
  exists l h, uint_shr_vartime_wide lo hi s = Some (Some (l, h)) /\
    wf l /\ wf h /\ length l = length lo /\ length h = length lo /\
    eval l + Bn (length lo) * eval h = (eval lo + Bn (length lo) * eval hi) / 2 ^ s.
Proof. exact uint_shr_vartime_wide_correct. Qed.
Print Assumptions C05_shr_wide.

(** `none` for every s >= 2*BITS *)
Theorem C05_wide_overflow : forall lo hi, length hi = length lo ->
  forall s, 2 * (64 * Z.of_nat (length lo)) <= s ->
  uint_shl_vartime_wide lo hi s = Some None /\ uint_shr_vartime_wide lo hi s = Some None.
Proof. exact uint_wide_overflow. Qed.
Print Assumptions C05_wide_overflow.

(** the zero shift returns the input unchanged *)
Theorem C05_wide_shift_zero : forall lo hi, wf lo -> wf hi -> length hi = length lo -> lo <> [] ->
  uint_shl_vartime_wide lo hi 0 = Some (Some (lo, hi)) /\ uint_shr_vartime_wide lo hi 0 = Some (Some (lo, hi)).
Proof. exact uint_wide_shift_zero. Qed.
Print Assumptions C05_wide_shift_zero.

(* ================================================================== arithmetic right shift of Int *)

(** Int::overflowing_shr_vartime: floor(x / 2^s) of the SIGNED value for every s; `none` iff s >= BITS, and the
    value returned then (0 or -1) is still that floor *)
Theorem C05_int_shr_vartime : forall a s, wf a -> a <> [] -> 0 <= s ->
  let r := int_overflowing_shr_vartime a s in
  snd r = choice_of_bool (s <? 64 * Z.of_nat (length a)) /\ wf (fst r) /\ length (fst r) = length a /\
  seval (fst r) = seval a / 2 ^ s.
Proof. exact int_shr_vartime_correct. Qed.
Print Assumptions C05_int_shr_vartime.

(** Int::overflowing_shr (constant-time ladder) *)
Theorem C05_int_overflowing_shr : forall a s,
  wf a -> a <> [] -> 64 * Z.of_nat (length a) < U32 -> 0 <= s < U32 ->
  exists v, int_overflowing_shr a s = Some (v, choice_of_bool (s <? 64 * Z.of_nat (length a))) /\
            wf v /\ length v = length a /\
            (s < 64 * Z.of_nat (length a) -> seval v = seval a / 2 ^ s).
Proof. exact int_overflowing_shr_correct. Qed.
Print Assumptions C05_int_overflowing_shr.

(** Int::wrapping_shr / wrapping_shr_vartime: floor(x / 2^s) of the signed value for EVERY shift (the sign fill beyond the width is that floor); the sign test used for the fill *)
Theorem C05_int_wrapping_shr :
  (forall a s,
  wf a -> a <> [] -> 64 * Z.of_nat (length a) < U32 -> 0 <= s < U32 ->
  exists v, int_overflowing_shr a s = Some v /\
    let r := ct_unwrap_or v (int_sign_fill a) in
    wf r /\ length r = length a /\ seval r = seval a / 2 ^ s) /\
  (forall a s, wf a -> a <> [] -> 0 <= s ->
  let r := ct_unwrap_or (int_overflowing_shr_vartime a s) (int_sign_fill a) in
  wf r /\ length r = length a /\ seval r = seval a / 2 ^ s) /\
  (forall a, wf a -> a <> [] ->
  int_is_negative a = choice_of_bool (seval a <? 0)).
Proof. exact int_wrapping_shr_all. Qed.
Print Assumptions C05_int_wrapping_shr.

(* ================================================================== BoxedUint shifts *)

(** BoxedUint::overflowing_shl / overflowing_shr (ladder + conditional_set_zero): (value, overflow) *)
Theorem C05_boxed_overflowing_shift :
  (forall a s, wf a -> a <> [] -> 0 <= s ->
  let bits := 64 * Z.of_nat (length a) in
  exists v, boxed_overflowing_shl a s = Some (v, negb (s <? bits)) /\ wf v /\ length v = length a /\
            eval v = if s <? bits then (eval a * 2 ^ s) mod Bn (length a) else 0) /\
  (forall a s, wf a -> a <> [] -> 0 <= s ->
  let bits := 64 * Z.of_nat (length a) in
  exists v, boxed_overflowing_shr a s = Some (v, negb (s <? bits)) /\ wf v /\ length v = length a /\
            eval v = if s <? bits then eval a / 2 ^ s else 0).
Proof. exact boxed_overflowing_shift_all. Qed.
Print Assumptions C05_boxed_overflowing_shift.

(** BoxedUint::shl_vartime / shr_vartime / wrapping_*_vartime (shr uses its own pairwise loop) *)
Theorem C05_boxed_shift_vartime :
  (forall a s, wf a -> 0 <= s ->
  let r := boxed_shl_vartime_into a s in
  let bits := 64 * Z.of_nat (length a) in
  snd r = choice_of_bool (s <? bits) /\ wf (fst r) /\ length (fst r) = length a /\
  eval (fst r) = if s <? bits then (eval a * 2 ^ s) mod Bn (length a) else 0) /\
  (forall a s, wf a -> 0 <= s ->
  let r := boxed_shr_vartime_into a s in
  let bits := 64 * Z.of_nat (length a) in
  snd r = choice_of_bool (s <? bits) /\ wf (fst r) /\ length (fst r) = length a /\
  eval (fst r) = if s <? bits then eval a / 2 ^ s else 0).
Proof. exact boxed_shift_vartime_all. Qed.
Print Assumptions C05_boxed_shift_vartime.

(* ================================================================== Limb *)

(** Limb: shl / shr / << >> <<= >>= give the shifted word for s < 64 and PANIC for every s >= 64 in both build
    profiles ([dbg] arbitrary); bit length, trailing zeros / ones (u64 intrinsics) against the binary expansion *)
Theorem C05_limb :
  (forall lft dbg x s, is_word x -> 0 <= s ->
     limb_shift lft dbg x s = if s <? 64 then Val [[if lft then (x * 2 ^ s) mod B else x / 2 ^ s]] else PanicV) /\
  (forall (lft : bool) x s, is_word x -> 0 <= s < 64 -> is_word (if lft then (x * 2 ^ s) mod B else x / 2 ^ s)) /\
  (forall x, is_word x -> 64 - wlz x = spec_bits x) /\
  (forall x, is_word x -> wtz x = spec_trailing_zeros 64 x) /\
  (forall x, is_word x -> wto x = spec_trailing_ones 64 x).
Proof. exact limb_all. Qed.
Print Assumptions C05_limb.

(* ================================================================== bit queries *)

(** bit / bit_vartime return the bit of the binary expansion (false for every index outside the value); bit i of the value is bit (i mod 64) of limb (i / 64) *)
Theorem C05_bit :
  (forall ls, wf ls -> forall i, 0 <= i ->
  Z.testbit (eval ls) i = Z.testbit (nthz ls (Z.to_nat (i / 64))) (i mod 64)) /\
  (forall ls index, wf ls -> Z.of_nat (length ls) < U32 -> 0 <= index < U32 ->
  limbs_bit ls index = choice_of_bool (Z.testbit (eval ls) index)) /\
  (forall ls index, wf ls -> 0 <= index ->
  limbs_bit_vartime ls index = Z.testbit (eval ls) index).
Proof. exact bit_all. Qed.
Print Assumptions C05_bit.

(** leading_zeros = BITS - bit length; bits_vartime = bit length; constant-time = variable-time; spec_bits v is one more than the index of the highest set bit *)
Theorem C05_bit_length :
  (forall ls, wf ls ->
  limbs_leading_zeros ls = 64 * Z.of_nat (length ls) - spec_bits (eval ls)) /\
  (forall ls, wf ls -> ls <> [] -> limbs_bits_vartime ls = Some (spec_bits (eval ls))) /\
  (forall ls, wf ls -> ls <> [] ->
  limbs_bits_vartime ls = Some (64 * Z.of_nat (length ls) - limbs_leading_zeros ls)) /\
  (forall v, 0 < v ->
  Z.testbit v (spec_bits v - 1) = true /\ forall i, spec_bits v <= i -> Z.testbit v i = false).
Proof. exact bit_length_all. Qed.
Print Assumptions C05_bit_length.

(** trailing zeros / ones, constant-time and variable-time: the least index whose bit is 1 / 0 (BITS if there is none); the meaning of the spec function first_bit *)
Theorem C05_trailing :
  (forall ls, wf ls ->
  limbs_trailing_zeros ls = spec_trailing_zeros (64 * length ls) (eval ls)) /\
  (forall ls, wf ls ->
  limbs_trailing_zeros_vartime ls = spec_trailing_zeros (64 * length ls) (eval ls)) /\
  (forall ls, wf ls ->
  limbs_trailing_ones ls = spec_trailing_ones (64 * length ls) (eval ls)) /\
  (forall ls, wf ls ->
  limbs_trailing_ones_vartime ls = spec_trailing_ones (64 * length ls) (eval ls)) /\
  (forall b v k i, 0 <= i ->
  let t := first_bit b k i v in
  i <= t <= i + Z.of_nat k /\ (forall j, i <= j < t -> Z.testbit v j = negb b) /\
  (t < i + Z.of_nat k -> Z.testbit v t = b)).
Proof. exact trailing_all. Qed.
Print Assumptions C05_trailing.

(** set_bit (constant-time; unchanged for an index outside the value) / set_bit_vartime (panics outside): bit [index] becomes b, all other bits are unchanged *)
Theorem C05_set_bit :
  (forall ls index b,
  wf ls -> Z.of_nat (length ls) < U32 -> 0 <= index < 64 * Z.of_nat (length ls) ->
  let r := limbs_set_bit ls index (choice_of_bool b) in
  wf r /\ length r = length ls /\ eval r = spec_set_bit (eval ls) index b) /\
  (forall ls index b,
  wf ls -> Z.of_nat (length ls) < U32 -> 64 * Z.of_nat (length ls) <= index < U32 ->
  limbs_set_bit ls index (choice_of_bool b) = ls) /\
  (forall ls index b, wf ls -> 0 <= index ->
  if index <? 64 * Z.of_nat (length ls)
  then exists r, limbs_set_bit_vartime ls index b = Some r /\ wf r /\ length r = length ls /\
                 eval r = spec_set_bit (eval ls) index b
  else limbs_set_bit_vartime ls index b = None) /\
  (forall v i b j, 0 <= v -> 0 <= i -> 0 <= j ->
  Z.testbit (spec_set_bit v i b) j = if j =? i then b else Z.testbit v j).
Proof. exact set_bit_all. Qed.
Print Assumptions C05_set_bit.

(* ================================================================== bitwise operators *)

(** & | ^ ! and bitand_limb on Uint / Int limbs *)
Theorem C05_bitwise :
  (forall a b, wf a -> wf b -> length a = length b ->
  wf (limbs_and a b) /\ length (limbs_and a b) = length a /\ eval (limbs_and a b) = Z.land (eval a) (eval b)) /\
  (forall a b, wf a -> wf b -> length a = length b ->
  wf (limbs_or a b) /\ length (limbs_or a b) = length a /\ eval (limbs_or a b) = Z.lor (eval a) (eval b)) /\
  (forall a b, wf a -> wf b -> length a = length b ->
  wf (limbs_xor a b) /\ length (limbs_xor a b) = length a /\ eval (limbs_xor a b) = Z.lxor (eval a) (eval b)) /\
  (forall a, wf a ->
  wf (limbs_not a) /\ length (limbs_not a) = length a /\ eval (limbs_not a) = Bn (length a) - 1 - eval a) /\
  (forall a i, wf a -> 0 <= i < 64 * Z.of_nat (length a) ->
  Z.testbit (eval (limbs_not a)) i = negb (Z.testbit (eval a) i)) /\
  (forall a l, wf a -> is_word l ->
  wf (limbs_and_limb a l) /\ length (limbs_and_limb a l) = length a /\
  eval (limbs_and_limb a l) = Z.land (eval a) (eval (repeat l (length a)))).
Proof. exact bitwise_all. Qed.
Print Assumptions C05_bitwise.

(** BoxedUint & | ^ with operands of different precisions: zero-extension to the wider one *)
Theorem C05_boxed_bitwise :
  (forall a b, wf a -> wf b ->
  let n := Nat.max (length a) (length b) in
  wf (boxed_map2 limbs_and a b) /\ length (boxed_map2 limbs_and a b) = n /\
  eval (boxed_map2 limbs_and a b) = Z.land (eval a) (eval b)) /\
  (forall a b, wf a -> wf b ->
  let n := Nat.max (length a) (length b) in
  wf (boxed_map2 limbs_or a b) /\ length (boxed_map2 limbs_or a b) = n /\
  eval (boxed_map2 limbs_or a b) = Z.lor (eval a) (eval b)) /\
  (forall a b, wf a -> wf b ->
  let n := Nat.max (length a) (length b) in
  wf (boxed_map2 limbs_xor a b) /\ length (boxed_map2 limbs_xor a b) = n /\
  eval (boxed_map2 limbs_xor a b) = Z.lxor (eval a) (eval b)).
Proof. exact boxed_bitwise_all. Qed.
Print Assumptions C05_boxed_bitwise.

(** BoxedUint |= (by value, by reference, on Wrapping) is `*self = self | rhs`: for ALL pairs of precisions it
    equals | , i.e. it widens to the larger precision and holds the value x | y *)
Theorem C05_boxed_or_assign : forall a b, wf a -> wf b ->
  let n := Nat.max (length a) (length b) in
  boxed_or_assign a b = boxed_map2 limbs_or a b /\
  wf (boxed_or_assign a b) /\ length (boxed_or_assign a b) = n /\
  eval (boxed_or_assign a b) = Z.lor (eval a) (eval b).
Proof. exact boxed_or_assign_correct. Qed.
Print Assumptions C05_boxed_or_assign.

(** non-vacuity: a 3-limb (non-power-of-two width) shift across a limb boundary in all forms, shift = BITS,
    the sign-filling shift of a negative value, the wide shift's upper and zero branches, |= with a wider right-hand side, a Limb shift by 64, and bit queries *)
Example C05_nonvacuous :
  uint_overflowing_shl [MAXW; 1; 0] 65 = Some ([0; MAXW - 1; 3], MAXW) /\
  uint_overflowing_shl_vartime [MAXW; 1; 0] 65 = ([0; MAXW - 1; 3], MAXW) /\
  uint_overflowing_shr [0; 0; 6] 129 = Some ([3; 0; 0], MAXW) /\
  uint_overflowing_shl [1; 0; 0] 192 = Some ([0; 0; 0], 0) /\
  int_overflowing_shr_vartime [0; 2 ^ 63] 127 = ([MAXW; MAXW], MAXW) /\
  uint_shl_vartime_wide [1; 0] [0; 0] 129 = Some (Some ([0; 0], [2; 0])) /\
  uint_shr_vartime_wide [5; 0] [7; 0] 0 = Some (Some ([5; 0], [7; 0])) /\
  boxed_or_assign [0] [0; 1] = [0; 1] /\ limb_shift true false MAXW 64 = PanicV /\
  limbs_leading_zeros [5; 0; 0] = 189 /\ limbs_trailing_zeros [0; 8; 0] = 67 /\
  limbs_trailing_ones [MAXW; 7; 0] = 67 /\ choice_to_bool (limbs_bit [0; 4] 66) = true /\
  limbs_set_bit [0; 0] 65 MAXW = [0; 2].
Proof. vm_compute. repeat split; reflexivity. Qed.
