(** C06 — comparison, equality, hashing and conditional selection are mutually coherent.
    Only statements, each closed by [exact] of a lemma from Proofs/.  Every statement quantifies over all
    word values and all limb counts (list lengths).  Truth values: ConstChoice = [choice_of_bool _] (0 / MAXW),
    subtle::Choice = [b2z _] (0 / 1), Ordering = [ordz _ _] (-1 / 0 / 1); [eval] = unsigned value of a limb
    list, [seval] = its two's complement value.  The single forms are separate lemmas in Proofs/
    (WordPredP, CmpWordP, CmpP, CmpIntP, CmpBoxedP); here they are grouped by type. *)
From CB Require Import Model.Limbs Model.AddSub Model.Cmp Proofs.WordP Proofs.LimbsP Proofs.AddSubP
  Proofs.CmpWordP Proofs.CmpP Proofs.CmpIntP Proofs.CmpBoxedP Proofs.CmpAllP.
From Coq Require Import ZArith List Bool.
Open Scope Z_scope.

(* ================= word predicates of src/const_choice.rs, all 2^64 / 2^128 inputs ================= *)
Theorem C06_word_predicates : forall x y, is_word x -> is_word y ->
  from_word_nonzero x = choice_of_bool (negb (x =? 0)) /\
  from_word_msb x = choice_of_bool (2 ^ 63 <=? x) /\
  from_word_eq x y = choice_of_bool (x =? y) /\
  from_word_lt x y = choice_of_bool (x <? y) /\
  from_word_gt x y = choice_of_bool (y <? x) /\
  from_word_le x y = choice_of_bool (x <=? y).
Proof. exact word_predicates_spec. Qed.
Print Assumptions C06_word_predicates.

(** select_word returns exactly one of its operands, never a mixture *)
Theorem C06_select_word : forall c a b, is_word a -> is_word b ->
  select_word (choice_of_bool c) a b = if c then b else a.
Proof. exact select_word_choice. Qed.
Print Assumptions C06_select_word.

(* ================= Limb ================= *)
(** ct_eq / ct_ne / ct_lt / ct_gt / is_zero / is_odd / conditional_select on a word *)
Theorem C06_limb_predicates : forall x y (c : bool), is_word x -> is_word y ->
  limb_ct_eq x y = b2z (x =? y) /\ limb_ct_ne x y = b2z (negb (x =? y)) /\
  limb_ct_lt x y = b2z (x <? y) /\ limb_ct_gt x y = b2z (y <? x) /\
  limb_is_zero x = b2z (x =? 0) /\ limb_is_odd x = b2z (Z.odd x) /\
  st_select x y (b2z c) = (if c then y else x).
Proof. exact limb_predicates_spec. Qed.
Print Assumptions C06_limb_predicates.

(** Ord / PartialOrd on Limb: the order of the words; the debug assertion inside never fires *)
Theorem C06_limb_cmp : forall dbg x y, is_word x -> is_word y -> limb_cmp dbg x y = Some (ordz x y).
Proof. exact limb_cmp_spec. Qed.
Print Assumptions C06_limb_cmp.

(* ================= Uint<N>, every N ================= *)
(** Uint::eq (xor-accumulate) *)
Theorem C06_uint_eq : forall a b, wf a -> wf b -> length a = length b ->
  uint_eq a b = choice_of_bool (eval a =? eval b).
Proof. exact uint_eq_spec. Qed.
Print Assumptions C06_uint_eq.

(** borrow-based lt / gt / lte *)
Theorem C06_uint_order : forall a b, wf a -> wf b -> length a = length b ->
  uint_lt a b = choice_of_bool (eval a <? eval b) /\
  uint_gt a b = choice_of_bool (eval b <? eval a) /\
  uint_lte a b = choice_of_bool (eval a <=? eval b).
Proof. exact uint_order_spec. Qed.
Print Assumptions C06_uint_order.

(** three-way cmp (final borrow and OR of the differences) *)
Theorem C06_uint_cmp : forall a b, wf a -> wf b -> length a = length b ->
  uint_cmp a b = ordz (eval a) (eval b).
Proof. exact uint_cmp_spec. Qed.
Print Assumptions C06_uint_cmp.

Theorem C06_uint_cmp_vartime : forall a b, wf a -> wf b -> length a = length b ->
  uint_cmp_vartime a b = ordz (eval a) (eval b).
Proof. exact uint_cmp_vartime_spec. Qed.
Print Assumptions C06_uint_cmp_vartime.

(** all forms describe one total order: exactly one of lt / eq / gt holds and cmp, cmp_vartime name it *)
Theorem C06_uint_coherent : forall a b, wf a -> wf b -> length a = length b ->
  let r := uint_cmp a b in
  uint_cmp_vartime a b = r /\
  (r = -1 <-> cc_true (uint_lt a b) = true) /\
  (r = 0 <-> cc_true (uint_eq a b) = true) /\
  (r = 1 <-> cc_true (uint_gt a b) = true) /\
  (r <> 1 <-> cc_true (uint_lte a b) = true) /\
  (r = -1 \/ r = 0 \/ r = 1).
Proof. exact uint_coherent. Qed.
Print Assumptions C06_uint_coherent.

(** is_nonzero (to_nz), Zero::is_zero, One::is_one, Integer::is_odd (Choice) and the inherent is_odd (to_odd) *)
Theorem C06_uint_tests : forall a, wf a ->
  uint_is_nonzero a = choice_of_bool (negb (eval a =? 0)) /\
  uint_is_zero a = b2z (eval a =? 0) /\
  (a <> [] -> uint_is_one a = b2z (eval a =? 1)) /\
  integer_is_odd a = b2z (Z.odd (eval a)) /\
  uint_is_odd a = choice_of_bool (Z.odd (eval a)).
Proof. exact uint_tests_spec. Qed.
Print Assumptions C06_uint_tests.

(** conditional_select / ct_select / conditional_assign / ct_assign (Choice): the chosen operand itself *)
Theorem C06_ct_select : forall a b (c : bool), wf a -> wf b -> length a = length b ->
  ct_select_limbs a b (b2z c) = spec_select c a b.
Proof. exact ct_select_limbs_spec. Qed.
Print Assumptions C06_ct_select.

(** conditional_swap / ct_swap: both operands exchanged or both untouched *)
Theorem C06_ct_swap : forall a b (c : bool), wf a -> wf b -> length a = length b ->
  ct_swap_limbs a b (b2z c) = (spec_select c a b, spec_select c b a).
Proof. exact ct_swap_limbs_spec. Qed.
Print Assumptions C06_ct_swap.

(** Uint::select with a ConstChoice; this is also ConstCtOption::unwrap_or(def) = select(def, value, is_some) *)
Theorem C06_uint_select : forall a b (c : bool), wf a -> wf b -> length a = length b ->
  uint_select a b (choice_of_bool c) = spec_select c a b.
Proof. exact uint_select_spec. Qed.
Print Assumptions C06_uint_select.

Theorem C06_uint_neg_if : forall a (c : bool), wf a ->
  eval (uint_neg_if a (choice_of_bool c)) = (if c then - eval a else eval a) mod Bn (length a)
  /\ wf (uint_neg_if a (choice_of_bool c)) /\ length (uint_neg_if a (choice_of_bool c)) = length a.
Proof. exact uint_neg_if_spec. Qed.
Print Assumptions C06_uint_neg_if.

Theorem C06_conditional_negate : forall a (c : bool), wf a ->
  let r := ct_select_limbs a (uint_wrapping_neg a) (b2z c) in
  eval r = (if c then - eval a else eval a) mod Bn (length a) /\ wf r /\ length r = length a.
Proof. exact conditional_negate_spec. Qed.
Print Assumptions C06_conditional_negate.

(** values of one fixed width that compare equal feed identical data to the (derived) Hash *)
Theorem C06_uint_eq_hash : forall a b, wf a -> wf b -> length a = length b ->
  uint_ct_eq a b = 1 -> hash_input a = hash_input b.
Proof. exact uint_eq_hash. Qed.
Print Assumptions C06_uint_eq_hash.

(* ================= Int<N>, every N >= 1: two's complement values ================= *)
(** eq, and lt / gt / cmp / cmp_vartime by flipping the sign bit *)
Theorem C06_int_order : forall a b, wf a -> wf b -> length a = length b -> a <> [] ->
  uint_eq a b = choice_of_bool (seval a =? seval b) /\
  int_lt a b = choice_of_bool (seval a <? seval b) /\
  int_gt a b = choice_of_bool (seval b <? seval a) /\
  int_cmp a b = ordz (seval a) (seval b) /\
  int_cmp_vartime a b = ordz (seval a) (seval b).
Proof. exact int_order_spec. Qed.
Print Assumptions C06_int_order.

(** is_negative / is_positive / is_min / is_max / to_nz / to_odd *)
Theorem C06_int_tests : forall a, wf a -> a <> [] ->
  int_is_negative a = choice_of_bool (seval a <? 0) /\
  int_is_positive a = choice_of_bool (0 <? seval a) /\
  int_is_min a = choice_of_bool (seval a =? - half (length a)) /\
  int_is_max a = choice_of_bool (seval a =? half (length a) - 1) /\
  uint_is_nonzero a = choice_of_bool (negb (seval a =? 0)) /\
  uint_is_odd a = choice_of_bool (Z.odd (seval a)).
Proof. exact int_tests_spec. Qed.
Print Assumptions C06_int_tests.

(** abs_sign / abs: sign = (value < 0), magnitude = |value| exactly (|MIN| = 2^(BITS-1) fits the Uint) *)
Theorem C06_int_abs_sign : forall a m sg, wf a -> a <> [] -> int_abs_sign a = (m, sg) ->
  sg = choice_of_bool (seval a <? 0) /\ eval m = Z.abs (seval a) /\ wf m /\ length m = length a.
Proof. exact int_abs_sign_spec. Qed.
Print Assumptions C06_int_abs_sign.

(** new_from_abs_sign: is_some exactly when (+-)abs lies in [-2^(BITS-1), 2^(BITS-1)), and then that value *)
Theorem C06_int_new_from_abs_sign : forall ab (c : bool) v fits, wf ab -> ab <> [] ->
  int_new_from_abs_sign ab (choice_of_bool c) = (v, fits) ->
  let n := length ab in
  let s := if c then - eval ab else eval ab in
  fits = choice_of_bool ((- half n <=? s) && (s <? half n)) /\
  wf v /\ length v = n /\ eval v = s mod Bn n /\
  ((- half n <=? s) && (s <? half n) = true -> seval v = s).
Proof. exact int_new_from_abs_sign_spec. Qed.
Print Assumptions C06_int_new_from_abs_sign.

(* ================= BoxedUint: any two precisions ================= *)
(** ct_eq / ct_lt / ct_gt and Ord / PartialOrd / the comparison operators (also in debug builds): the order
    of the represented integers, whatever the two precisions *)
Theorem C06_boxed_order : forall dbg a b, wf a -> wf b ->
  boxed_ct_eq a b = b2z (eval a =? eval b) /\
  boxed_ct_lt a b = b2z (eval a <? eval b) /\
  boxed_ct_gt a b = b2z (eval b <? eval a) /\
  boxed_cmp dbg a b = Some (ordz (eval a) (eval b)).
Proof. exact boxed_order_spec. Qed.
Print Assumptions C06_boxed_order.

(** cmp_vartime (zero-padding both operands): the three-way order of the values for ALL precision pairs *)
Theorem C06_boxed_cmp_vartime : forall a b, wf a -> wf b ->
  boxed_cmp_vartime a b = ordz (eval a) (eval b).
Proof. exact boxed_cmp_vartime_spec. Qed.
Print Assumptions C06_boxed_cmp_vartime.

(** is_zero / is_nonzero / is_one / is_odd *)
Theorem C06_boxed_tests : forall a, wf a ->
  boxed_is_zero a = b2z (eval a =? 0) /\
  boxed_is_nonzero a = b2z (negb (eval a =? 0)) /\
  boxed_is_one a = b2z (eval a =? 1) /\
  integer_is_odd a = b2z (Z.odd (eval a)).
Proof. exact boxed_tests_spec. Qed.
Print Assumptions C06_boxed_tests.

(** ct_select / ct_assign / ct_swap on operands of the same precision ... *)
Theorem C06_boxed_select_swap_partial : forall dbg a b (c : bool), wf a -> wf b -> length a = length b ->
  boxed_ct_select dbg a b (b2z c) = Some (spec_select c a b) /\
  boxed_ct_swap dbg a b (b2z c) = Some (spec_select c a b, spec_select c b a).
Proof. exact boxed_select_swap_partial. Qed.
Print Assumptions C06_boxed_select_swap_partial.

(** ... on different precisions the release build returns a truncated operand / a mixture
    (GENUINE DEFECT, open finding F16) *)
Theorem C06_boxed_ct_select_refuted :
  exists a b r, wf a /\ wf b /\ boxed_ct_select false a b 1 = Some r /\ r <> b.
Proof. exact boxed_ct_select_refuted. Qed.
Print Assumptions C06_boxed_ct_select_refuted.

Theorem C06_boxed_ct_swap_refuted :
  exists a b a' b', wf a /\ wf b /\ boxed_ct_swap false a b 1 = Some (a', b') /\ b' <> a /\ b' <> b.
Proof. exact boxed_ct_swap_refuted. Qed.
Print Assumptions C06_boxed_ct_swap_refuted.

Theorem C06_boxed_conditional_negate : forall a (c : bool), wf a ->
  let r := boxed_conditional_negate a (b2z c) in
  eval r = (if c then - eval a else eval a) mod Bn (length a) /\ wf r /\ length r = length a.
Proof. exact boxed_conditional_negate_spec. Qed.
Print Assumptions C06_boxed_conditional_negate.

(** Hash vs Eq for ALL precision pairs: a == b exactly when the manual Hash (limbs below the most significant
    non-zero one, with their count) feeds identical data to the hasher; so equal values hash equally and equal
    hasher input means equal values *)
Theorem C06_boxed_eq_hash : forall a b, wf a -> wf b ->
  (boxed_ct_eq a b = 1 <-> boxed_hash_input a = boxed_hash_input b).
Proof. exact boxed_eq_iff_hash. Qed.
Print Assumptions C06_boxed_eq_hash.

(** non-vacuity: borrow through equal high limbs, the signed order around the sign bit, zero-padded boxed
    operands, both choice values of select / swap *)
Example C06_nonvacuous :
  uint_lt [MAXW; 7; 7] [0; 8; 7] = MAXW /\ uint_cmp [1; 7; 7] [0; 7; 7] = 1 /\
  uint_cmp_vartime [0; 0; 1] [MAXW; MAXW; 0] = 1 /\ uint_eq [5; 6] [5; 6] = MAXW /\
  int_lt [0; 2 ^ 63] [MAXW; 2 ^ 63 - 1] = MAXW /\ int_cmp [MAXW; MAXW] [0; 0] = -1 /\
  boxed_ct_eq [1] [1; 0; 0] = 1 /\ boxed_ct_lt [MAXW] [0; 1] = 1 /\ boxed_cmp true [0; 1] [MAXW] = Some 1 /\
  boxed_cmp_vartime [1] [0; 1] = -1 /\ boxed_cmp_vartime [0; 0; 1] [MAXW] = 1 /\
  boxed_hash_input [1; 0; 0] = boxed_hash_input [1] /\ boxed_hash_input [0; 0] = [0] /\
  ct_select_limbs [1; 2] [3; 4] 1 = [3; 4] /\ ct_swap_limbs [1; 2] [3; 4] 1 = ([3; 4], [1; 2]) /\
  ct_swap_limbs [1; 2] [3; 4] 0 = ([1; 2], [3; 4]).
Proof. vm_compute. repeat split; reflexivity. Qed.
