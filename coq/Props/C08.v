(** C08 — Montgomery-form values stay canonical and track Z/mZ over any operation history.
    Statements only; every statement is for ALL limb counts, ALL odd moduli (incl. m = 1), ALL values and ALL
    operation lists.  The model (Model/Monty.v) follows src/modular/reduction.rs, boxed_monty_form/mul.rs
    (almost-Montgomery CIOS multiplication), div_by_2.rs and the parameter constructors loop for loop; `one` follows
    the REPAIRED code (commit b8bb467 = tools/fix_C08_1.diff, finding F6; [C08_params_one_before_fix_refuted] is
    about the original expression).  Everything is proved outright (no `_partial` theorem).
    Value level inside the model (owned and proved by other properties): Uint::rem / rem_vartime / rem_wide_vartime
    (C02), shr1 / set_bit of div_by_2 (C05); the wide products (C03) and add_mod / sub_mod / neg_mod / double_mod (C07)
    are the limb-level models of those properties, used through their proved lemmas. *)
From CB Require Import Model.Limbs Model.AddSub Model.Mul Model.Div Model.ModArith Model.Monty
  Proofs.WordP Proofs.LimbsP
  Proofs.MontyNumP Proofs.MontyRedP Proofs.MontyAmmP Proofs.MontyFormP Proofs.MontyHistP Proofs.MontyTablesP
  Proofs.MontyClaimsP.
From Coq Require Import ZArith List String.
Import ListNotations.
Open Scope Z_scope.
Notation length := List.length.

(** * The specification's own arithmetic *)
(** redc_spec n m x (64 n halvings in Z/mZ) is THE residue r < m with r * R = x (mod m), R = 2^(64 n) *)
Theorem C08_spec_redc_char : forall n m x, Z.odd m = true -> 0 < m ->
  0 <= redc_spec n m x < m /\ (redc_spec n m x * Bn n) mod m = x mod m.
Proof. exact redc_spec_char. Qed.
Print Assumptions C08_spec_redc_char.

Theorem C08_spec_redc_unique : forall n m x r, Z.odd m = true -> 0 < m ->
  0 <= r < m -> (r * Bn n) mod m = x mod m -> r = redc_spec n m x.
Proof. exact redc_spec_unique. Qed.
Print Assumptions C08_spec_redc_unique.

(** retrieving the Montgomery form of v gives v back *)
Theorem C08_spec_redc_of_form : forall n m v, Z.odd m = true -> 0 < m -> 0 <= v < m ->
  redc_spec n m ((v * Bn n) mod m) = v.
Proof. exact redc_of_form. Qed.
Print Assumptions C08_spec_redc_of_form.

(** half_mod m x is x / 2 in Z/mZ *)
Theorem C08_spec_half : forall m x, Z.odd m = true -> 0 < m -> 0 <= x < m ->
  0 <= half_mod m x < m /\ (2 * half_mod m x = x \/ 2 * half_mod m x = x + m).
Proof. exact half_mod_correct. Qed.
Print Assumptions C08_spec_half.

(** * Montgomery reduction (src/modular/reduction.rs) *)
(** the inner loops with the meta-carry: R * (upper' + R * meta) = T + U * m, 0 <= U < R, meta <= 1 *)
Theorem C08_reduction_inner : forall (lower upper m : list Z) (k : Z) (up : list Z) (meta : Z),
  wf lower -> wf upper -> wf m -> length lower = length m -> length upper = length m -> length m <> 0%nat ->
  (hd 0 m * k + 1) mod B = 0 ->
  montgomery_reduction_inner lower upper m k = (up, meta) ->
  wf up /\ length up = length m /\ 0 <= meta <= 1 /\
  (exists U : Z, 0 <= U < Bn (length m) /\
     Bn (length m) * (eval up + Bn (length m) * meta) = eval lower + Bn (length m) * eval upper + U * eval m).
Proof. exact mred_inner_correct. Qed.
Print Assumptions C08_reduction_inner.

(** one meta-carry bit is always enough (any T < R * R) *)
Theorem C08_reduction_meta_carry_bound : forall (lower upper m : list Z) (k : Z) (up : list Z) (meta : Z),
  wf lower -> wf upper -> wf m -> length lower = length m -> length upper = length m -> length m <> 0%nat ->
  (hd 0 m * k + 1) mod B = 0 ->
  montgomery_reduction_inner lower upper m k = (up, meta) ->
  eval up + Bn (length m) * meta < Bn (length m) + eval m.
Proof. exact mred_inner_bound. Qed.
Print Assumptions C08_reduction_meta_carry_bound.

(** T < m * R: the single final conditional subtraction suffices; the result is canonical and is T * R^-1 mod m *)
Theorem C08_montgomery_reduction_correct : forall (lower upper m : list Z) (k : Z),
  wf lower -> wf upper -> wf m -> length lower = length m -> length upper = length m -> length m <> 0%nat ->
  (hd 0 m * k + 1) mod B = 0 ->
  eval lower + Bn (length m) * eval upper < eval m * Bn (length m) ->
  let r := montgomery_reduction lower upper m k in
  wf r /\ length r = length m /\ 0 <= eval r < eval m /\
  (eval r * Bn (length m)) mod eval m = (eval lower + Bn (length m) * eval upper) mod eval m.
Proof. exact mont_red_correct. Qed.
Print Assumptions C08_montgomery_reduction_correct.

Theorem C08_sub_mod_with_carry : forall (a : list Z) (carry : Z) (b p : list Z),
  wf a -> wf b -> wf p -> length a = length b -> length a = length p -> length a <> 0%nat ->
  0 <= carry <= 1 ->
  - eval p <= eval a + Bn (length a) * carry - eval b < eval p ->
  eval (sub_mod_with_carry a carry b p) = (eval a + Bn (length a) * carry - eval b) mod eval p /\
  wf (sub_mod_with_carry a carry b p) /\ length (sub_mod_with_carry a carry b p) = length a.
Proof. exact sub_mod_with_carry_correct. Qed.
Print Assumptions C08_sub_mod_with_carry.

(** * Almost-Montgomery multiplication (src/modular/boxed_monty_form/mul.rs) *)
(** any x, y < R (not necessarily reduced): R * (AMM + e m) = x y + U m, AMM < R *)
Theorem C08_amm_correct : forall (m : list Z) (k : Z), wf m -> length m <> 0%nat -> (hd 0 m * k + 1) mod B = 0 ->
  forall x y : list Z, wf x -> wf y -> length x = length m -> length y = length m -> 0 < eval m ->
  let a := almost_montgomery_mul x y m k in
  wf a /\ length a = length m /\ 0 <= eval a < Bn (length m) /\
  (exists U e : Z, 0 <= U < Bn (length m) /\ 0 <= e <= 1 /\
     Bn (length m) * (eval a + e * eval m) = eval x * eval y + U * eval m).
Proof. exact amm_correct. Qed.
Print Assumptions C08_amm_correct.

Theorem C08_amm_congruent : forall (m : list Z) (k : Z), wf m -> length m <> 0%nat -> (hd 0 m * k + 1) mod B = 0 ->
  forall x y : list Z, wf x -> wf y -> length x = length m -> length y = length m -> 0 < eval m ->
  (eval (almost_montgomery_mul x y m k) * Bn (length m)) mod eval m = (eval x * eval y) mod eval m.
Proof. exact amm_congr. Qed.
Print Assumptions C08_amm_congruent.

(** remark 1 of the source ("discovered via randomized tests, not proven"): f(AMM(x, y)) <= min(f x, f y) + 1 *)
Theorem C08_amm_bound : forall (m : list Z) (k : Z), wf m -> length m <> 0%nat -> (hd 0 m * k + 1) mod B = 0 ->
  forall x y : list Z, wf x -> wf y -> length x = length m -> length y = length m -> 0 < eval m ->
  eval (almost_montgomery_mul x y m k) / eval m <= Z.min (eval x / eval m) (eval y / eval m) + 1.
Proof. exact amm_bound. Qed.
Print Assumptions C08_amm_bound.

(** one canonical operand: AMM < 2 m, so ONE conditional subtraction fully reduces *)
Theorem C08_amm_lt_2m : forall (m : list Z) (k : Z), wf m -> length m <> 0%nat -> (hd 0 m * k + 1) mod B = 0 ->
  forall x y : list Z, wf x -> wf y -> length x = length m -> length y = length m -> 0 < eval m ->
  eval x < eval m \/ eval y < eval m -> eval (almost_montgomery_mul x y m k) < 2 * eval m.
Proof. exact amm_lt_2m. Qed.
Print Assumptions C08_amm_lt_2m.

Theorem C08_boxed_sub_assign_mod_with_carry : forall m : list Z, wf m -> length m <> 0%nat ->
  forall a b : list Z, wf a -> wf b -> length a = length m -> length b = length m ->
  - eval m <= eval a - eval b < eval m ->
  let r := boxed_sub_assign_mod_with_carry a 0 b m in
  wf r /\ length r = length m /\ eval r = (eval a - eval b) mod eval m.
Proof. exact boxed_sub_assign_mod_with_carry_correct. Qed.
Print Assumptions C08_boxed_sub_assign_mod_with_carry.

(** BoxedMontyMultiplier::mul_assign / square_assign: canonical result, x y R^-1 mod m *)
Theorem C08_boxed_mul_correct : forall (m : list Z) (k : Z), wf m -> length m <> 0%nat -> (hd 0 m * k + 1) mod B = 0 ->
  forall x y : list Z, wf x -> wf y -> length x = length m -> length y = length m -> 0 < eval m ->
  eval x < eval m \/ eval y < eval m ->
  let r := boxed_monty_mul x y m k in
  wf r /\ length r = length m /\ 0 <= eval r < eval m /\
  (eval r * Bn (length m)) mod eval m = (eval x * eval y) mod eval m.
Proof. exact boxed_monty_mul_correct. Qed.
Print Assumptions C08_boxed_mul_correct.

(** retrieve = multiplication by one WITHOUT a final subtraction: fully reduced for canonical input *)
Theorem C08_amm_by_one_reduced : forall (m : list Z) (k : Z), wf m -> length m <> 0%nat -> (hd 0 m * k + 1) mod B = 0 ->
  forall x : list Z, wf x -> length x = length m -> eval x < eval m ->
  let a := almost_montgomery_mul_by_one x m k in
  wf a /\ length a = length m /\ 0 <= eval a < eval m /\
  (eval a * Bn (length m)) mod eval m = eval x mod eval m.
Proof. exact amm_by_one_reduced. Qed.
Print Assumptions C08_amm_by_one_reduced.

(** remarks 2 and 3 of the same source comment are false as stated (and not relied upon by any caller) *)
Theorem C08_amm_by_one_remark_refuted :
  exists m x, wf m /\ wf x /\ length x = length m /\ Z.odd (eval m) = true /\
              ~ eval (almost_montgomery_mul_by_one x m (mod_neg_inv_of m)) < eval m.
Proof. exact amm_by_one_remark_refuted. Qed.
Print Assumptions C08_amm_by_one_remark_refuted.

Theorem C08_amm_square_remark_refuted :
  exists m x, wf m /\ wf x /\ length x = length m /\ Z.odd (eval m) = true /\
              ~ eval (almost_montgomery_mul x x m (mod_neg_inv_of m)) / eval m <= 1.
Proof. exact amm_square_remark_refuted. Qed.
Print Assumptions C08_amm_square_remark_refuted.

(** * Halving (src/modular/div_by_2.rs) *)
Theorem C08_div_by_2 : forall m : list Z, wf m -> length m <> 0%nat -> Z.odd (eval m) = true ->
  forall a : list Z, canon m a ->
  let h := div_by_2 a m in canon m h /\ eval h = half_mod (eval m) (eval a).
Proof. exact div_by_2_val. Qed.
Print Assumptions C08_div_by_2.

Theorem C08_boxed_div_by_2 : forall m : list Z, wf m -> length m <> 0%nat -> Z.odd (eval m) = true ->
  forall a : list Z, canon m a ->
  let h := boxed_div_by_2 a m in canon m h /\ eval h = half_mod (eval m) (eval a).
Proof. exact boxed_div_by_2_val. Qed.
Print Assumptions C08_boxed_div_by_2.

(** * Parameters *)
(** the 64-step loop of inv_mod2k_vartime on the low word *)
Theorem C08_inv_mod2k_word : forall a : Z, Z.odd a = true -> 0 <= a < B ->
  0 <= inv_mod2k_word a < B /\ (a * inv_mod2k_word a) mod B = 1.
Proof. exact inv_mod2k_word_correct. Qed.
Print Assumptions C08_inv_mod2k_word.

(** mod_neg_inv = -m^-1 mod 2^64, and it equals the independent (Hensel) computation of the specification *)
Theorem C08_mod_neg_inv : forall m : list Z, Z.odd (hd 0 m) = true -> is_word (hd 0 m) ->
  is_word (mod_neg_inv_of m) /\ (hd 0 m * mod_neg_inv_of m + 1) mod B = 0.
Proof. exact mod_neg_inv_of_ok. Qed.
Print Assumptions C08_mod_neg_inv.

Theorem C08_mod_neg_inv_eq_spec : forall m0 : Z, Z.odd m0 = true -> 0 <= m0 < B ->
  wsub 0 (inv_mod2k_word m0) = spec_neg_inv m0.
Proof. exact neg_inv_model_eq_spec. Qed.
Print Assumptions C08_mod_neg_inv_eq_spec.

(** MontyParams::new / new_vartime / impl_modulus!: every field equals its definition, for every odd modulus *)
Theorem C08_params_fixed_correct : forall m : list Z, wf m -> length m <> 0%nat -> Z.odd (eval m) = true ->
  let n := length m in let N := Bn n in let M := eval m in
  params_fixed m = {| mp_m := m; mp_one := to_limbs n (N mod M); mp_r2 := to_limbs n ((N * N) mod M);
                      mp_r3 := to_limbs n ((N * N * N) mod M); mp_k := spec_neg_inv (M mod B);
                      mp_lz := Z.min (64 * Z.of_nat n - mt_bitlen M) 63 |}
  /\ (hd 0 m * mp_k (params_fixed m) + 1) mod B = 0.
Proof. exact params_fixed_correct. Qed.
Print Assumptions C08_params_fixed_correct.

(** BoxedMontyParams::new / new_vartime (r3 through the almost-Montgomery square) *)
Theorem C08_params_boxed_correct : forall m : list Z, wf m -> length m <> 0%nat -> Z.odd (eval m) = true ->
  let n := length m in let N := Bn n in let M := eval m in
  params_boxed m = {| mp_m := m; mp_one := to_limbs n (N mod M); mp_r2 := to_limbs n ((N * N) mod M);
                      mp_r3 := to_limbs n ((N * N * N) mod M); mp_k := spec_neg_inv (M mod B);
                      mp_lz := Z.min (64 * Z.of_nat n - mt_bitlen M) 63 |}
  /\ (hd 0 m * mp_k (params_boxed m) + 1) mod B = 0.
Proof. exact params_boxed_correct. Qed.
Print Assumptions C08_params_boxed_correct.

Theorem C08_params_constructors_agree : forall m : list Z, wf m -> length m <> 0%nat -> Z.odd (eval m) = true ->
  params_fixed m = params_boxed m.
Proof. exact params_constructors_agree. Qed.
Print Assumptions C08_params_constructors_agree.

(** the modulus 1 (F6, repaired by b8bb467): one = r2 = r3 = 0 at every width, all constructors *)
Theorem C08_params_modulus_one : forall m : list Z, wf m -> length m <> 0%nat -> eval m = 1 ->
  let z := zeros (length m) in
  mp_one (params_fixed m) = z /\ mp_r2 (params_fixed m) = z /\ mp_r3 (params_fixed m) = z /\
  mp_one (params_boxed m) = z /\ mp_r2 (params_boxed m) = z /\ mp_r3 (params_boxed m) = z.
Proof. exact params_modulus_one. Qed.
Print Assumptions C08_params_modulus_one.

(** the expression of the tree before b8bb467, Uint::MAX.rem(m).wrapping_add(ONE), is not R mod m (and not < m) at m = 1 *)
Theorem C08_params_one_before_fix_refuted :
  exists m, wf m /\ Z.odd (eval m) = true /\ eval (params_one_head m) <> Bn (length m) mod eval m
            /\ ~ eval (params_one_head m) < eval m.
Proof. exact params_one_head_refuted. Qed.
Print Assumptions C08_params_one_before_fix_refuted.

(** * One operation on representatives: [repr m a v] = a is canonical (< m) and eval a = v R mod m *)
Theorem C08_backend_fixed_ok : forall (m : list Z) (k : Z), wf m -> length m <> 0%nat -> Z.odd (eval m) = true ->
  (hd 0 m * k + 1) mod B = 0 ->
  forall p : mparams, mp_m p = m -> mp_k p = k -> canon m (mp_r2 p) ->
  eval (mp_r2 p) = (Bn (length m) * Bn (length m)) mod eval m -> backend_ok m (backend_fixed p).
Proof. exact backend_fixed_ok. Qed.
Print Assumptions C08_backend_fixed_ok.

Theorem C08_backend_boxed_ok : forall (m : list Z) (k : Z), wf m -> length m <> 0%nat -> Z.odd (eval m) = true ->
  (hd 0 m * k + 1) mod B = 0 ->
  forall p : mparams, mp_m p = m -> mp_k p = k -> canon m (mp_r2 p) ->
  eval (mp_r2 p) = (Bn (length m) * Bn (length m)) mod eval m -> backend_ok m (backend_boxed p).
Proof. exact backend_boxed_ok. Qed.
Print Assumptions C08_backend_boxed_ok.

(** * Operation histories *)
(** any representation that satisfies [backend_ok]: after ANY admissible op list the stored values are the canonical
    representatives of the residues of the plain Z/mZ evaluation (index by index), and every output emitted
    (as_montgomery() and retrieve() after EVERY step) is the output of the plain evaluation.
    Proved by induction over fold_left (h_step ..) ops with the invariant [hinv]. *)
Theorem C08_histories_generic : forall (m : list Z) (be : backend) (p : mparams) (inputs : list (list Z)),
  wf m -> length m <> 0%nat -> Z.odd (eval m) = true ->
  backend_ok m be -> mp_m p = m -> repr m (mp_one p) (1 mod eval m) ->
  Forall (fun x : list Z => wf x /\ length x = length m) inputs ->
  forall ops : list mop, ops_ok (length inputs) 0 ops = true ->
  Forall2 (repr m) (fst (history be p inputs ops)) (fst (sp_history (eval m) (length m) inputs ops)) /\
  snd (history be p inputs ops) = snd (sp_history (eval m) (length m) inputs ops).
Proof. exact history_correct. Qed.
Print Assumptions C08_histories_generic.

(** one step preserves the invariant *)
Theorem C08_history_step_invariant : forall (m : list Z) (be : backend) (p : mparams) (inputs : list (list Z)),
  wf m -> length m <> 0%nat -> Z.odd (eval m) = true ->
  backend_ok m be -> mp_m p = m -> repr m (mp_one p) (1 mod eval m) ->
  Forall (fun x : list Z => wf x /\ length x = length m) inputs ->
  forall (st : hstate) (sst : sstate) (o : mop), hinv m st sst -> op_ok (length inputs) (length (fst st)) o = true ->
  hinv m (h_step be p inputs st o) (sp_step (eval m) (length m) inputs sst o).
Proof. exact h_step_inv. Qed.
Print Assumptions C08_history_step_invariant.

(** MontyForm / ConstMontyForm with the parameters of their constructors *)
Theorem C08_histories_fixed : forall (m : list Z) (inputs : list (list Z)) (ops : list mop),
  wf m -> length m <> 0%nat -> Z.odd (eval m) = true ->
  Forall (fun x => wf x /\ length x = length m) inputs -> ops_ok (length inputs) 0 ops = true ->
  let h := history (backend_fixed (params_fixed m)) (params_fixed m) inputs ops in
  let s := sp_history (eval m) (length m) inputs ops in
  Forall2 (repr m) (fst h) (fst s) /\ snd h = snd s.
Proof. exact history_fixed_correct. Qed.
Print Assumptions C08_histories_fixed.

(** BoxedMontyForm (almost-Montgomery multiplication) with the parameters of its constructors *)
Theorem C08_histories_boxed : forall (m : list Z) (inputs : list (list Z)) (ops : list mop),
  wf m -> length m <> 0%nat -> Z.odd (eval m) = true ->
  Forall (fun x => wf x /\ length x = length m) inputs -> ops_ok (length inputs) 0 ops = true ->
  let h := history (backend_boxed (params_boxed m)) (params_boxed m) inputs ops in
  let s := sp_history (eval m) (length m) inputs ops in
  Forall2 (repr m) (fst h) (fst s) /\ snd h = snd s.
Proof. exact history_boxed_correct. Qed.
Print Assumptions C08_histories_boxed.

(** every stored value after every prefix of the history is canonical (< m) *)
Theorem C08_histories_fixed_canonical : forall (m : list Z) (inputs : list (list Z)) (ops : list mop) (k : nat),
  wf m -> length m <> 0%nat -> Z.odd (eval m) = true ->
  Forall (fun x => wf x /\ length x = length m) inputs -> ops_ok (length inputs) 0 ops = true ->
  Forall (fun v => wf v /\ length v = length m /\ 0 <= eval v < eval m)
         (fst (history (backend_fixed (params_fixed m)) (params_fixed m) inputs (firstn k ops))).
Proof. exact history_fixed_canonical. Qed.
Print Assumptions C08_histories_fixed_canonical.

Theorem C08_histories_boxed_canonical : forall (m : list Z) (inputs : list (list Z)) (ops : list mop) (k : nat),
  wf m -> length m <> 0%nat -> Z.odd (eval m) = true ->
  Forall (fun x => wf x /\ length x = length m) inputs -> ops_ok (length inputs) 0 ops = true ->
  Forall (fun v => wf v /\ length v = length m /\ 0 <= eval v < eval m)
         (fst (history (backend_boxed (params_boxed m)) (params_boxed m) inputs (firstn k ops))).
Proof. exact history_boxed_canonical. Qed.
Print Assumptions C08_histories_boxed_canonical.

(** conversions const -> dyn -> boxed reuse the stored parameters: ANY parameter record holding the defined values
    ([params_good]: modulus, one = R mod m, r2 = R^2 mod m, m * k = -1 mod 2^64) drives either backend correctly *)
Theorem C08_histories_fixed_any_good_params : forall m : list Z, wf m -> length m <> 0%nat -> Z.odd (eval m) = true ->
  forall (p : mparams) (inputs : list (list Z)) (ops : list mop), params_good m p ->
  Forall (fun x : list Z => wf x /\ length x = length m) inputs -> ops_ok (length inputs) 0 ops = true ->
  Forall2 (repr m) (fst (history (backend_fixed p) p inputs ops)) (fst (sp_history (eval m) (length m) inputs ops)) /\
  snd (history (backend_fixed p) p inputs ops) = snd (sp_history (eval m) (length m) inputs ops).
Proof. exact history_fixed_good. Qed.
Print Assumptions C08_histories_fixed_any_good_params.

Theorem C08_histories_boxed_any_good_params : forall m : list Z, wf m -> length m <> 0%nat -> Z.odd (eval m) = true ->
  forall (p : mparams) (inputs : list (list Z)) (ops : list mop), params_good m p ->
  Forall (fun x : list Z => wf x /\ length x = length m) inputs -> ops_ok (length inputs) 0 ops = true ->
  Forall2 (repr m) (fst (history (backend_boxed p) p inputs ops)) (fst (sp_history (eval m) (length m) inputs ops)) /\
  snd (history (backend_boxed p) p inputs ops) = snd (sp_history (eval m) (length m) inputs ops).
Proof. exact history_boxed_good. Qed.
Print Assumptions C08_histories_boxed_any_good_params.

Theorem C08_constructor_params_good : forall m : list Z, wf m -> length m <> 0%nat -> Z.odd (eval m) = true ->
  params_good m (params_fixed m) /\ params_good m (params_boxed m).
Proof. exact (fun m Hm Hn Ho => conj (params_fixed_good m Hm Hn Ho) (params_boxed_good m Hm Hn Ho)). Qed.
Print Assumptions C08_constructor_params_good.

(** * The table theorem: what the correspondence runs compare the crate with is, on the documented domain, the
      specification — every key of ops_monty_model *)
Theorem C08_table_keys : map fst ops_monty_model = monty_keys /\ map fst ops_monty_spec = monty_keys.
Proof. exact (conj monty_keys_model monty_keys_spec). Qed.
Print Assumptions C08_table_keys.

Theorem C08_tables_agree : forall k dbg a, In k monty_keys -> wf_args8 a ->
  run_op8 ops_monty_spec k dbg a <> Unsupported ->
  run_op8 ops_monty_model k dbg a = run_op8 ops_monty_spec k dbg a.
Proof. exact monty_tables_agree. Qed.
Print Assumptions C08_tables_agree.

(** * Non-vacuity (concrete multi-limb values, vm_compute) *)
(** m = 2^128 - 159 (two limbs); New(2^128 - 1), One, Mul, Square, Half, SubAssign, Select, Retrieve ... *)
Definition ex_m : list Z := [18446744073709551457; 18446744073709551615].
Definition ex_inputs : list (list Z) := [[18446744073709551615; 18446744073709551615]; [5; 7]].
Definition ex_ops : list mop :=
  [(0,0,0,0); (0,1,0,1); (2,0,0,0); (7,0,1,3); (8,3,0,0); (9,4,0,0); (14,0,1,0); (10,0,5,1); (3,2,6,0); (5,7,0,0);
   (11,1,0,0); (15,1,0,0); (6,1,0,0); (4,2,1,0); (12,3,0,0); (13,3,2,0); (16,3,0,0); (17,1,0,0); (1,0,0,0)].

Example C08_nonvacuous_history_admissible : ops_ok (length ex_inputs) 0 ex_ops = true.
Proof. vm_compute. reflexivity. Qed.
Example C08_nonvacuous_history_fixed :
  snd (history (backend_fixed (params_fixed ex_m)) (params_fixed ex_m) ex_inputs ex_ops)
  = snd (sp_history (eval ex_m) 2 ex_inputs ex_ops)
  /\ length (snd (sp_history (eval ex_m) 2 ex_inputs ex_ops)) = 38%nat
  /\ nth 7 (snd (sp_history (eval ex_m) 2 ex_inputs ex_ops)) [] = to_limbs 2 ((158 * (5 + 7 * 2 ^ 64)) mod eval ex_m).
Proof. vm_compute. repeat split; reflexivity. Qed.
Example C08_nonvacuous_history_boxed :
  snd (history (backend_boxed (params_boxed ex_m)) (params_boxed ex_m) ex_inputs ex_ops)
  = snd (sp_history (eval ex_m) 2 ex_inputs ex_ops).
Proof. vm_compute. reflexivity. Qed.
(** T = m R - 1, the largest admissible input of the reduction *)
Example C08_nonvacuous_reduction :
  let T := eval ex_m * Bn 2 - 1 in
  montgomery_reduction (to_limbs 2 T) (to_limbs 2 (T / Bn 2)) ex_m (mod_neg_inv_of ex_m) = to_limbs 2 (redc_spec 2 (eval ex_m) T)
  /\ 0 < redc_spec 2 (eval ex_m) T.
Proof. vm_compute. split; reflexivity. Qed.
(** the modulus 1 on two limbs after the repair, and a three-limb modulus with a whole zero high limb (lz clamps at 63) *)
Example C08_nonvacuous_params_one :
  params_fixed [1; 0] = {| mp_m := [1; 0]; mp_one := [0; 0]; mp_r2 := [0; 0]; mp_r3 := [0; 0]; mp_k := MAXW; mp_lz := 63 |}.
Proof. vm_compute. reflexivity. Qed.
Example C08_nonvacuous_params :
  mp_one (params_boxed [3; 5; 0]) = to_limbs 3 (2 ^ 192 mod (3 + 5 * 2 ^ 64)) /\
  mp_r3 (params_boxed [3; 5; 0]) = to_limbs 3 ((2 ^ 192 * 2 ^ 192 * 2 ^ 192) mod (3 + 5 * 2 ^ 64)) /\
  mp_lz (params_boxed [3; 5; 0]) = 63 /\ mp_r3 (params_boxed [3; 5; 0]) <> zeros 3.
Proof. vm_compute. repeat split; try reflexivity. intro H; discriminate H. Qed.
(** table lookups really find functions: a value, a panic (even modulus), an Unsupported (T >= m R) *)
Example C08_nonvacuous_tables :
  run_op8 ops_monty_model "monty.boxed_mul_mod" false [[7; 1]; [9; 2]; ex_m]
    = Val [to_limbs 2 (((7 + 2 ^ 64) * (9 + 2 * 2 ^ 64)) mod eval ex_m)] /\
  run_op8 ops_monty_spec "monty.uint_mul_mod" false [[7; 1]; [9; 2]; [4; 1]] = PanicV /\
  run_op8 ops_monty_model "monty.uint_mul_mod" false [[7; 1]; [9; 2]; [4; 1]] = PanicV /\
  run_op8 ops_monty_spec "monty.reduction" false [[0; 0]; ex_m; ex_m; [mod_neg_inv_of ex_m]] = Unsupported.
Proof. vm_compute. repeat split; reflexivity. Qed.
