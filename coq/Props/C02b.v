(** C02 (continued) — the constant-time division WITHOUT the value-level shortcut.
    Model/Div.v evaluates three sub-operations of Uint::div_rem / BoxedUint::div_rem at the value level (`rhs.bits()`,
    `rhs.shl(BITS - dbits)`, the two final `.shr(..)`), because they belong to property C05.  Model/DivL0.v is the same
    algorithm text calling the limb-level models of Model/Bits.v (leading-zero scan, constant-time shift ladder with
    its overflow mask, and the panicking wrappers Uint::shl / shr, BoxedUint::shl / shr; a panic = None).
    Statements only (proofs in Proofs/DivL0P.v): the two models are equal on every input, so the wrappers never panic
    and the limb-level model is exact.  [eval] = the represented integer, [wf] = every limb is a 64-bit word;
    `64 * length x < 2^32` states that the width in bits is a u32, as `Uint::BITS : u32` is. *)
From CB Require Import Model.Limbs Model.Div Model.DivL0 Proofs.WordP Proofs.LimbsP Proofs.DivFinalP Proofs.DivL0P.
From Coq Require Import ZArith List.
Open Scope Z_scope.

(** Uint::div_rem with limb-level bits / shl / shr returns exactly what the model of Div.v returns (None = panic
    included, e.g. for a zero divisor): the value-level shortcut is harmless *)
Theorem C02_uint_div_rem_limb_level_shifts : forall x y,
  wf x -> wf y -> length y = length x -> x <> [] -> 64 * Z.of_nat (length x) < 2 ^ 32 ->
  uint_div_rem_l0 x y = uint_div_rem x y.
Proof. exact uint_div_rem_l0_eq. Qed.
Print Assumptions C02_uint_div_rem_limb_level_shifts.

(** the same for BoxedUint::div_rem, for all pairs of precisions (unequal precisions: both panic) *)
Theorem C02_boxed_div_rem_limb_level_shifts : forall x y,
  wf x -> wf y -> x <> [] -> boxed_div_rem_l0 x y = boxed_div_rem x y.
Proof. exact boxed_div_rem_l0_eq. Qed.
Print Assumptions C02_boxed_div_rem_limb_level_shifts.

(** the lists handed to the two final shifts are well-formed full-width values, whatever the shifted divisor is *)
Theorem C02_div_rem_l0_shift_inputs_wf : forall y x0 dbits, wf x0 -> (1 <= length x0)%nat ->
  wf (fst (ct_mid y x0 dbits)) /\ length (fst (ct_mid y x0 dbits)) = length x0 /\
  wf (snd (ct_mid y x0 dbits)) /\ length (snd (ct_mid y x0 dbits)) = length x0.
Proof. exact l0_ct_mid_wf. Qed.
Print Assumptions C02_div_rem_l0_shift_inputs_wf.

(** Uint::div_rem, limb-level model: total correctness (the statement of C02_uint_div_rem) *)
Theorem C02_uint_div_rem_l0 : forall x0 y0,
  wf x0 -> wf y0 -> length y0 = length x0 -> 64 * Z.of_nat (length x0) < 2 ^ 32 -> eval y0 <> 0 ->
  exists q r, uint_div_rem_l0 x0 y0 = Some (q, r) /\
  eval x0 = eval q * eval y0 + eval r /\ 0 <= eval r < eval y0 /\
  length q = length x0 /\ length r = length x0 /\ wf q /\ wf r.
Proof. exact uint_div_rem_l0_total. Qed.
Print Assumptions C02_uint_div_rem_l0.

(** a zero divisor is rejected by the limb-level model too *)
Theorem C02_uint_div_rem_l0_zero : forall x0 y0,
  wf x0 -> wf y0 -> length y0 = length x0 -> x0 <> [] -> 64 * Z.of_nat (length x0) < 2 ^ 32 -> eval y0 = 0 ->
  uint_div_rem_l0 x0 y0 = None.
Proof. exact uint_div_rem_l0_zero. Qed.
Print Assumptions C02_uint_div_rem_l0_zero.

(** BoxedUint::div_rem, limb-level model: total correctness (exactly the statement of C02_boxed_div_rem) *)
Theorem C02_boxed_div_rem_l0 : forall x0 y0,
  wf x0 -> wf y0 -> length y0 = length x0 -> eval y0 <> 0 ->
  exists q r, boxed_div_rem_l0 x0 y0 = Some (q, r) /\
  eval x0 = eval q * eval y0 + eval r /\ 0 <= eval r < eval y0 /\
  length q = length x0 /\ length r = length x0 /\ wf q /\ wf r.
Proof. exact boxed_div_rem_l0_total. Qed.
Print Assumptions C02_boxed_div_rem_l0.

(** non-vacuity: a 3-limb division whose Knuth step needs the add-back, a 5-limb one with a 3-limb divisor (both final
    shifts non-trivial), the boxed twin, and the zero divisor *)
Example C02b_nonvacuous :
  uint_div_rem_l0 [MAXW; MAXW; MAXW - 1] [MAXW; MAXW; 0] = Some ([MAXW; 0; 0], [MAXW - 1; 0; 0]) /\
  uint_div_rem_l0 [5; 7; 9; 11; 13] [3; 1; 1; 0; 0] = Some ([MAXW - 27; MAXW - 2; 12; 0; 0], [89; 41; 0; 0; 0]) /\
  boxed_div_rem_l0 [MAXW; MAXW; MAXW - 1] [MAXW; MAXW; 0] = Some ([MAXW; 0; 0], [MAXW - 1; 0; 0]) /\
  boxed_div_rem_l0 [5; 7; 9] [0; 0; 0] = None /\ boxed_div_rem_l0 [5; 7; 9] [1; 0] = None.
Proof. vm_compute. repeat split; reflexivity. Qed.
