(** C05 (tables) — the two op tables of Model/Bits.v that the correspondence check evaluates agree on the whole
    documented domain, for EVERY key: the model entry (the limb-level model of the Rust code together with the glue of
    the entry: ConstCtOption / flag plumbing, `expect`, the u32 conversion of the operator forms << >>, the wrapping /
    panicking / overflowing selection, argument decoding, the sign fill, mixed boxed precisions) returns the same
    outcome (value, None, or panic) as the spec entry (plain Z arithmetic on the represented integers).
    [run_tab t k dbg a] is the lookup of Model/Api.v restricted to one table; [bits_keys] (65 keys) is the whole key
    set of the table; [typedb bits_tbl_ty k a] is the typing side condition of the key class of [k] (only what Rust's
    types enforce: BITS and a u32 shift / index below 2^32, equal limb counts of two Uint<N>); [wf_args]: limbs are words. *)
From CB Require Import Model.Limbs Model.AddSub Model.Bits Proofs.TotalityP Proofs.TotalityBitsP Proofs.BitsTablesP.
From Coq Require Import ZArith List String Bool.
Open Scope Z_scope.

Theorem C05_tables_agree : forall k dbg a, In k bits_keys -> wf_args a -> typedb bits_tbl_ty k a = true ->
  run_tab ops_bits_spec k dbg a <> Unsupported ->
  run_tab ops_bits_model k dbg a = run_tab ops_bits_spec k dbg a.
Proof. exact bits_tables_agree. Qed.
Print Assumptions C05_tables_agree.

(** the key list of the theorem is the whole key set of both tables (65 keys) *)
Theorem C05_tables_keys_complete :
  map fst ops_bits_model = map fst ops_bits_spec /\
  (forall k, In k (map fst ops_bits_model) <-> In k bits_keys) /\
  List.length bits_keys = 65%nat /\ List.length ops_bits_model = 65%nat.
Proof. exact (conj bits_tables_same_keys (conj bits_keys_iff bits_keys_count)). Qed.
Print Assumptions C05_tables_keys_complete.

(** the side conditions, spelled out (one boolean predicate per key class; a key without an entry has none) *)
Theorem C05_tables_side_conditions :
  bits_tbl_ty =
  [("uint.overflowing_shl", u32_bits_shift); ("uint.wrapping_shl", u32_bits_shift);
   ("uint.overflowing_shr", u32_bits_shift); ("uint.wrapping_shr", u32_bits_shift);
   ("int.overflowing_shr", u32_bits_shift); ("int.wrapping_shr", u32_bits_shift);
   ("uint.shl", u32_bits); ("uint.shr", u32_bits); ("int.shr", u32_bits); ("boxed.shl", u32_bits); ("boxed.shr", u32_bits);
   ("bits.bit", u32_index); ("bits.set_bit", u32_index);
   ("uint.shl_vartime_wide", halves_eq); ("uint.shr_vartime_wide", halves_eq);
   ("uint.and", same_lenb); ("uint.or", same_lenb); ("uint.xor", same_lenb)]%string /\
  (forall a, u32_bits a = (64 * Z.of_nat (List.length (arg 0 a)) <? 2 ^ 32)) /\
  (forall a, u32_bits_shift a = (u32_bits a && (sarg 1 a <? 2 ^ 32))) /\
  (forall a, u32_index a = ((Z.of_nat (List.length (arg 0 a)) <? 2 ^ 32) && (sarg 1 a <? 2 ^ 32))) /\
  (forall a, halves_eq a = (List.length (arg 1 a) =? List.length (arg 0 a))%nat) /\
  (forall a, same_lenb a = (List.length (arg 0 a) =? List.length (arg 1 a))%nat).
Proof. repeat split. Qed.
Print Assumptions C05_tables_side_conditions.

(** non-vacuity: lookups that find a function, satisfy the side condition and return a non-trivial value (a 3-limb
    shift across a limb boundary through the operator form, the sign-filling wrapping shift of a negative Int beyond its
    width, a boxed OR of mixed precisions), NoneV (overflowing_shl by BITS) and PanicV (<< by BITS; << by 2^32, which is
    no u32; set_bit_vartime outside the value) — in both tables *)
Open Scope string_scope. Open Scope Z_scope.
Example C05_tables_nonvacuous :
  let M := run_tab ops_bits_model in let S := run_tab ops_bits_spec in
  typedb bits_tbl_ty "uint.shl" [[MAXW; 1; 0]; [65]] = true /\
  M "uint.shl" false [[MAXW; 1; 0]; [65]] = Val [[0; MAXW - 1; 3]] /\
  S "uint.shl" false [[MAXW; 1; 0]; [65]] = Val [[0; MAXW - 1; 3]] /\
  M "uint.shl" false [[1; 0; 0]; [192]] = PanicV /\ S "uint.shl" false [[1; 0; 0]; [192]] = PanicV /\
  M "uint.shl" false [[1; 0; 0]; [2 ^ 32]] = PanicV /\ S "uint.shl" false [[1; 0; 0]; [2 ^ 32]] = PanicV /\
  typedb bits_tbl_ty "uint.overflowing_shl" [[1; 0; 0]; [192]] = true /\
  M "uint.overflowing_shl" false [[1; 0; 0]; [192]] = NoneV /\ S "uint.overflowing_shl" false [[1; 0; 0]; [192]] = NoneV /\
  M "int.wrapping_shr" false [[0; 2 ^ 63]; [200]] = Val [[MAXW; MAXW]] /\
  S "int.wrapping_shr" false [[0; 2 ^ 63]; [200]] = Val [[MAXW; MAXW]] /\
  M "boxed.or" false [[1]; [0; 2]] = Val [[1; 2]] /\ S "boxed.or" false [[1]; [0; 2]] = Val [[1; 2]] /\
  M "bits.set_bit_vartime" false [[0; 0]; [128]; [1]] = PanicV /\ S "bits.set_bit_vartime" false [[0; 0]; [128]; [1]] = PanicV /\
  S "uint.shl" false [[]; [0]] = Unsupported.
Proof. vm_compute. repeat split; reflexivity. Qed.
