(** C17 — radix strings: canonical output, exact parse, overflow always reported.
    Statements only; every statement is for ALL radixes 2..=36, ALL limb counts / precisions, ALL values and ALL
    strings (lists of byte values).  The model (Model/Radix.v) follows src/uint/encoding.rs loop for loop and, for the
    encoder, the REPAIRED code (tools/fix_C17_1.diff, finding F30; [C17_format_original_refuted] is about the
    original test).  Everything is proved outright (no `_partial` theorem): parsing, the power-of-two formatter and
    the division formatter INCLUDING the large-divisor recursion for more than 32 limbs.  Reused: div2by1 /
    reciprocal correctness (C02: Proofs/DivP.v, RecipP.v) and the in-place Knuth division (Proofs/DivBoxedP.v). *)
From CB Require Import Model.Limbs Model.Div Model.Conv Model.Radix
  Proofs.WordP Proofs.LimbsP Proofs.ConvDigitsP Proofs.DivP
  Proofs.RadixSpecP Proofs.RadixParseP Proofs.RadixParseApiP Proofs.RadixParamsP Proofs.RadixPow2P Proofs.RadixEncP
  Proofs.RadixTablesP.
From Coq Require Import ZArith List String.
Import ListNotations.
Open Scope Z_scope.
Notation length := List.length.

(** * Specification level *)
(** the value of the canonical numeral is the number *)
Theorem C17_spec_roundtrip : forall r x, 2 <= r <= 36 -> 0 <= x -> value r (numeral r x) = x.
Proof. exact spec_roundtrip. Qed.
Print Assumptions C17_spec_roundtrip.

Theorem C17_numeral_well_formed : forall r x, 2 <= r <= 36 -> 0 <= x -> well_formed r (numeral r x).
Proof. exact numeral_well_formed. Qed.
Print Assumptions C17_numeral_well_formed.

(** canonical = the m-digit big-endian digit string with its leading zeros stripped ("0" for zero), any m that fits *)
Theorem C17_numeral_canonical : forall r (m : nat) x, 2 <= r <= 36 -> (1 <= m)%nat -> 0 <= x < r ^ Z.of_nat m ->
  strip_zeros (map sp_digit_char (rev (digits r m x))) = numeral r x.
Proof. exact numeral_fixed. Qed.
Print Assumptions C17_numeral_canonical.

(** * Parsing *)
(** radix_decode_str on any target ([cap = Some n]: n limbs, [None]: growable): Ok exactly for numerals that fit,
    with the denoted value in limbs of minimal length; each error code characterised; never a panic *)
Theorem C17_decode_str_spec : forall r s cap, 2 <= r <= 36 ->
  match radix_decode_str s r cap with
  | DOk o => well_formed r s /\ wf o /\ capfit cap (length o) /\ minimal o /\ eval o = value r s
  | DErr c => (c = E_Empty /\ sp_body s = []) \/
              (c = E_InvalidDigit /\ sp_body s <> [] /\ ~ well_formed r s) \/
              (c = E_InputSize /\ sp_body s <> [] /\ exists n, cap = Some n /\ (well_formed r s -> Bn n <= value r s))
  | DPanic => False
  end.
Proof. exact radix_decode_str_spec. Qed.
Print Assumptions C17_decode_str_spec.

(** Uint::<n>::from_str_radix_vartime = num_traits::Num::from_str_radix *)
Theorem C17_parse_correct : forall n r s x, 2 <= r <= 36 ->
  uint_from_str_radix n s r = Val [x] <->
  well_formed r s /\ value r s < Bn n /\ x = to_limbs n (value r s).
Proof. exact uint_parse_correct. Qed.
Print Assumptions C17_parse_correct.

(** InputSize exactly when the denoted value does not fit: never a wrapped or truncated value *)
Theorem C17_parse_overflow_iff : forall n r s, 2 <= r <= 36 -> well_formed r s ->
  (uint_from_str_radix n s r = ErrV E_InputSize <-> Bn n <= value r s).
Proof. exact uint_parse_overflow_iff. Qed.
Print Assumptions C17_parse_overflow_iff.

Theorem C17_parse_invalid_iff : forall n r s, 2 <= r <= 36 ->
  (uint_from_str_radix n s r = ErrV E_Empty <-> sp_body s = []) /\
  (uint_from_str_radix n s r = ErrV E_InvalidDigit -> sp_body s <> [] /\ ~ well_formed r s) /\
  (sp_body s <> [] -> ~ well_formed r s ->
     uint_from_str_radix n s r = ErrV E_InvalidDigit \/ uint_from_str_radix n s r = ErrV E_InputSize) /\
  uint_from_str_radix n s r <> PanicV /\ uint_from_str_radix n s r <> NoneV /\
  uint_from_str_radix n s r <> ErrV E_Precision.
Proof. exact uint_parse_errors. Qed.
Print Assumptions C17_parse_invalid_iff.

(** finding F31: a non-numeral can be reported as InputSize (the documentation promises InvalidDigit) *)
Theorem C17_parse_error_precedence_refuted :
  exists n r s, 2 <= r <= 36 /\ ~ well_formed r s /\ uint_from_str_radix n s r = ErrV E_InputSize.
Proof. exact parse_error_precedence_refuted. Qed.
Print Assumptions C17_parse_error_precedence_refuted.

Theorem C17_parse_unsupported_radix_panics : forall n r s, r < 2 \/ 36 < r -> uint_from_str_radix n s r = PanicV.
Proof. exact parse_unsupported_radix_panics. Qed.
Print Assumptions C17_parse_unsupported_radix_panics.

(** BoxedUint::from_str_radix_vartime: the value at its minimal width (one zero limb for "0"); no size error *)
Theorem C17_boxed_parse_correct : forall r s x, 2 <= r <= 36 ->
  boxed_from_str_radix s r = Val [x] <->
  well_formed r s /\ x = to_limbs (sp_nlimbs (value r s)) (value r s).
Proof. exact boxed_parse_correct. Qed.
Print Assumptions C17_boxed_parse_correct.

Theorem C17_boxed_parse_errors : forall r s, 2 <= r <= 36 ->
  (boxed_from_str_radix s r = ErrV E_Empty <-> sp_body s = []) /\
  (boxed_from_str_radix s r = ErrV E_InvalidDigit <-> sp_body s <> [] /\ ~ well_formed r s) /\
  boxed_from_str_radix s r <> ErrV E_InputSize /\ boxed_from_str_radix s r <> ErrV E_Precision /\
  boxed_from_str_radix s r <> PanicV.
Proof. exact boxed_parse_errors. Qed.
Print Assumptions C17_boxed_parse_errors.

(** BoxedUint::from_str_radix_with_precision_vartime *)
Theorem C17_boxed_prec_parse_correct : forall r s p x, 2 <= r <= 36 -> 0 <= p ->
  boxed_from_str_radix_prec s r p = Val [x] <->
  well_formed r s /\ value r s < 2 ^ p /\ x = to_limbs (sp_prec_limbs p) (value r s).
Proof. exact boxed_prec_parse_correct. Qed.
Print Assumptions C17_boxed_prec_parse_correct.

Theorem C17_boxed_prec_parse_overflow_iff : forall r s p, 2 <= r <= 36 -> 0 <= p -> well_formed r s ->
  (boxed_from_str_radix_prec s r p = ErrV E_InputSize <-> Bn (sp_prec_limbs p) <= value r s) /\
  (boxed_from_str_radix_prec s r p = ErrV E_Precision <-> 2 ^ p <= value r s < Bn (sp_prec_limbs p)).
Proof. exact boxed_prec_parse_overflow_iff. Qed.
Print Assumptions C17_boxed_prec_parse_overflow_iff.

(** the multiply-accumulate pass of the decoder, any number of limbs *)
Theorem C17_mul_add_limbs_correct : forall m, is_word m -> forall ls carry ls' c', wf ls -> is_word carry ->
  mul_add_limbs ls m carry = (ls', c') ->
  eval ls' + Bn (length ls) * c' = eval ls * m + carry /\ wf ls' /\ length ls' = length ls /\ is_word c'.
Proof. exact mul_add_limbs_correct. Qed.
Print Assumptions C17_mul_add_limbs_correct.

(** * Formatting *)
(** the per-radix constants recomputed by the loops of the source (RadixDivisionParams::ALL, radix_large_divisor):
    div_limb = radix^digits_limb is the largest power below 2^64, its reciprocal is exact, div_large =
    radix^digits_large has 32 limbs with a non-zero top limb *)
Theorem C17_params_table : forall r, 2 <= r <= 36 -> is_power_of_two r = false ->
  exists rp, for_radix r = Some rp /\ params_good r rp.
Proof. exact params_facts. Qed.
Print Assumptions C17_params_table.

(** one round of encode_limbs divides  hi * B^limb_count + limbs  by div_limb exactly *)
Theorem C17_encode_step_divides : forall r rp, 2 <= r <= 36 -> params_good r rp ->
  forall act hi act' hi' dw, wf act -> 0 <= hi < r ^ Z.of_nat (rp_digits_limb rp) ->
  enc_step true rp act hi = (act', hi', dw) ->
  let V := hi * Bn (length act) + eval act in
  wf act' /\ 0 <= hi' < r ^ Z.of_nat (rp_digits_limb rp) /\
  hi' * Bn (length act') + eval act' = V / r ^ Z.of_nat (rp_digits_limb rp) /\
  dw = V mod r ^ Z.of_nat (rp_digits_limb rp) /\ (length act' <= length act)%nat.
Proof. exact enc_step_spec. Qed.
Print Assumptions C17_encode_step_divides.

(** encode_limbs (any number of limbs, with the large-divisor loop above 32) fills the buffer with the low `size`
    digits of the value, most significant first *)
Theorem C17_encode_limbs_spec : forall r rp, 2 <= r <= 36 -> params_good r rp -> forall limbs size, wf limbs ->
  encode_limbs true rp limbs size = map digit_char (rev (digits r size (eval limbs))).
Proof. exact encode_limbs_spec. Qed.
Print Assumptions C17_encode_limbs_spec.

(** the fuel of the model's large-divisor loop is never exhausted (it ends with fewer than 32 limbs, as in the source) *)
Theorem C17_large_loop_fuel : forall fixed rp fuel act oi w, (length act <= fuel)%nat ->
  (length (fst (fst (large_go fuel fixed rp act oi w))) < 32)%nat.
Proof. exact large_go_fuel. Qed.
Print Assumptions C17_large_loop_fuel.

Theorem C17_format_pow2_correct : forall fixed r limbs,
  2 <= r <= 36 -> is_power_of_two r = true -> wf limbs -> limbs <> [] ->
  radix_encode_limbs_to_string fixed r limbs = Some (numeral r (eval limbs)).
Proof. exact format_pow2_correct. Qed.
Print Assumptions C17_format_pow2_correct.

Theorem C17_format_generic_correct : forall r limbs,
  2 <= r <= 36 -> is_power_of_two r = false -> wf limbs -> limbs <> [] ->
  radix_encode_limbs_to_string true r limbs = Some (numeral r (eval limbs)).
Proof. exact format_generic_correct. Qed.
Print Assumptions C17_format_generic_correct.

(** Uint / BoxedUint :: to_string_radix_vartime, every supported radix, every width *)
Theorem C17_format_correct : forall r limbs, 2 <= r <= 36 -> wf limbs -> limbs <> [] ->
  radix_encode_limbs_to_string true r limbs = Some (numeral r (eval limbs)).
Proof. exact format_correct. Qed.
Print Assumptions C17_format_correct.

Theorem C17_format_unsupported_radix_panics : forall fixed r limbs, r < 2 \/ 36 < r ->
  radix_encode_limbs_to_string fixed r limbs = None.
Proof. exact format_unsupported_radix_panics. Qed.
Print Assumptions C17_format_unsupported_radix_panics.

(** finding F30: the code before the repair formats a 14-limb value wrongly in radix 31 *)
Theorem C17_format_original_refuted :
  exists r limbs, 2 <= r <= 36 /\ wf limbs /\ limbs <> [] /\
    radix_encode_limbs_to_string false r limbs <> Some (numeral r (eval limbs)) /\
    radix_encode_limbs_to_string true r limbs = Some (numeral r (eval limbs)).
Proof. exact format_original_refuted. Qed.
Print Assumptions C17_format_original_refuted.

(** * Round trip *)
Theorem C17_roundtrip : forall r ls, 2 <= r <= 36 -> wf ls -> ls <> [] -> m_uint_roundtrip ls r = Val [ls].
Proof. exact uint_roundtrip. Qed.
Print Assumptions C17_roundtrip.

Theorem C17_boxed_roundtrip : forall r ls, 2 <= r <= 36 -> wf ls -> ls <> [] -> m_boxed_roundtrip ls r = Val [ls].
Proof. exact boxed_roundtrip. Qed.
Print Assumptions C17_boxed_roundtrip.

Theorem C17_boxed_parse_format : forall r ls, 2 <= r <= 36 -> wf ls -> ls <> [] ->
  boxed_from_str_radix (numeral r (eval ls)) r = Val [to_limbs (sp_nlimbs (eval ls)) (eval ls)].
Proof. exact boxed_parse_format. Qed.
Print Assumptions C17_boxed_parse_format.

(** * The two op tables agree wherever the specification is defined, except the F31 class *)
Theorem C17_tables_agree : forall dbg a k, In k radix_keys -> S17 k dbg a <> Unsupported ->
  M17 k dbg a = S17 k dbg a \/ f31_class k dbg a.
Proof. exact tables_agree_radix. Qed.
Print Assumptions C17_tables_agree.

(** non-vacuity: the hypotheses are satisfiable and the statements compute the expected things *)
Example C17_nonvacuous :
  numeral 10 1234 = [49; 50; 51; 52] /\ numeral 36 0 = [48] /\
  value 16 [43; 48; 95; 70; 102] = 255 /\ well_formed 16 [43; 48; 95; 70; 102] /\ ~ well_formed 16 [43; 95; 49] /\
  uint_from_str_radix 1 [43; 48; 95; 70; 102] 16 = Val [[255]] /\
  uint_from_str_radix 1 (numeral 7 (2 ^ 64)) 7 = ErrV E_InputSize /\
  uint_from_str_radix 1 (numeral 7 (2 ^ 64 - 1)) 7 = Val [[2 ^ 64 - 1]] /\
  boxed_from_str_radix [48] 10 = Val [[0]] /\
  boxed_from_str_radix_prec [49; 48; 50; 52] 10 10 = ErrV E_Precision /\
  radix_encode_limbs_to_string true 10 [1234; 0] = Some [49; 50; 51; 52] /\
  S17 "uint.to_string_radix" false [[255]; [16]] = Val [[102; 102]] /\
  (exists rp, for_radix 10 = Some rp /\ params_good 10 rp).
Proof.
  split; [vm_compute; reflexivity|]. split; [vm_compute; reflexivity|].
  split; [vm_compute; reflexivity|]. split; [vm_compute; reflexivity|].
  split; [vm_compute; discriminate|].
  split; [vm_compute; reflexivity|]. split; [vm_compute; reflexivity|].
  split; [vm_compute; reflexivity|]. split; [vm_compute; reflexivity|].
  split; [vm_compute; reflexivity|]. split; [vm_compute; reflexivity|].
  split; [vm_compute; reflexivity|].
  apply params_facts; [lia | reflexivity].
Qed.
