(** C13 — signed integers behave as two's-complement mathematical integers.
    Only statements, each closed by [exact] of a lemma from Proofs/IntArithP.v.
    Notation of the statements: [seval a] is the signed value of the limb list [a] (two's complement),
    [to_limbs_s n x] is the n-limb two's-complement encoding of [x mod 2^(64 n)], [isp_fits n x] decides
    MIN <= x <= MAX for n limbs ([- Bn n <= 2 x < Bn n]), [choice_of_bool] is a ConstChoice.
    All statements hold for every limb count (list length) and every word value.
    The unsigned multiplication the Int code calls is modelled at the value level (see Model/IntArith.v). *)
From CB Require Import Model.Limbs Model.AddSub Model.IntArith Model.IntDiv Proofs.WordP Proofs.LimbsP Proofs.AddSubP
  Proofs.IntArithP Proofs.IntDivP Proofs.IntTablesP.
From Coq Require Import ZArith List Bool String.
Open Scope string_scope.
Open Scope Z_scope.
Notation length := List.length.

(** meaning of the encoding used in every statement below: reading back gives x whenever x is in range,
    and gives x modulo 2^BITS in any case *)
Theorem C13_encoding_exact : forall n x, - Bn n <= 2 * x < Bn n -> seval (to_limbs_s n x) = x.
Proof. exact seval_to_limbs_s. Qed.
Print Assumptions C13_encoding_exact.

Theorem C13_encoding_mod : forall n x,
  eval (to_limbs_s n x) = x mod Bn n /\ wf (to_limbs_s n x) /\ length (to_limbs_s n x) = n.
Proof. intros. repeat split. apply eval_to_limbs_s. apply wf_to_limbs_s. apply length_to_limbs_s. Qed.
Print Assumptions C13_encoding_mod.

Theorem C13_signed_range : forall a, wf a -> - Bn (length a) <= 2 * seval a < Bn (length a).
Proof. exact seval_range. Qed.
Print Assumptions C13_signed_range.

(** sign predicates *)
Theorem C13_is_negative : forall a, wf a -> int_is_negative a = choice_of_bool (seval a <? 0).
Proof. exact int_is_negative_spec. Qed.
Print Assumptions C13_is_negative.

Theorem C13_is_positive : forall a, wf a -> int_is_positive a = choice_of_bool (0 <? seval a).
Proof. exact int_is_positive_spec. Qed.
Print Assumptions C13_is_positive.

Theorem C13_is_min : forall a, wf a -> a <> [] ->
  int_is_min a = choice_of_bool (2 * seval a =? - Bn (length a)).
Proof. exact int_is_min_spec. Qed.
Print Assumptions C13_is_min.

Theorem C13_is_max : forall a, wf a -> a <> [] ->
  int_is_max a = choice_of_bool (2 * seval a =? Bn (length a) - 2).
Proof. exact int_is_max_spec. Qed.
Print Assumptions C13_is_max.

(** the constants Int::MIN and Int::MAX are -2^(BITS-1) and 2^(BITS-1) - 1 *)
Theorem C13_min_max_constants : forall n, n <> 0%nat ->
  2 * seval (int_min_limbs n) = - Bn n /\ 2 * seval (int_max_limbs n) = Bn n - 2.
Proof. exact int_min_max_values. Qed.
Print Assumptions C13_min_max_constants.

(** addition: wrapped result and exact overflow flag *)
Theorem C13_overflowing_add : forall a b, wf a -> wf b -> length a = length b ->
  int_overflowing_add a b =
    (to_limbs_s (length a) (seval a + seval b),
     choice_of_bool (negb (isp_fits (length a) (seval a + seval b)))).
Proof. exact int_overflowing_add_spec. Qed.
Print Assumptions C13_overflowing_add.

Theorem C13_checked_add : forall a b, wf a -> wf b -> length a = length b ->
  int_checked_add a b =
    if isp_fits (length a) (seval a + seval b) then Some (to_limbs_s (length a) (seval a + seval b)) else None.
Proof. exact int_checked_add_spec. Qed.
Print Assumptions C13_checked_add.

Theorem C13_wrapping_add : forall a b, wf a -> wf b -> length a = length b ->
  int_wrapping_add a b = to_limbs_s (length a) (seval a + seval b).
Proof. exact int_wrapping_add_spec. Qed.
Print Assumptions C13_wrapping_add.

(** subtraction *)
Theorem C13_checked_sub : forall a b, wf a -> wf b -> length a = length b ->
  int_checked_sub a b =
    if isp_fits (length a) (seval a - seval b) then Some (to_limbs_s (length a) (seval a - seval b)) else None.
Proof. exact int_checked_sub_spec. Qed.
Print Assumptions C13_checked_sub.

Theorem C13_wrapping_sub : forall a b, wf a -> wf b -> length a = length b ->
  int_wrapping_sub a b = to_limbs_s (length a) (seval a - seval b).
Proof. exact int_wrapping_sub_spec. Qed.
Print Assumptions C13_wrapping_sub.

(** negation: overflow exactly for MIN *)
Theorem C13_overflowing_neg : forall a, wf a ->
  int_overflowing_neg a =
    (to_limbs_s (length a) (- seval a), choice_of_bool (negb (isp_fits (length a) (- seval a)))).
Proof. exact int_overflowing_neg_spec. Qed.
Print Assumptions C13_overflowing_neg.

Theorem C13_neg_overflow_iff_min : forall a, wf a -> a <> [] ->
  (isp_fits (length a) (- seval a) = false <-> 2 * seval a = - Bn (length a)).
Proof. exact neg_fits_iff. Qed.
Print Assumptions C13_neg_overflow_iff_min.

Theorem C13_checked_neg : forall a, wf a ->
  int_checked_neg a = if isp_fits (length a) (- seval a) then Some (to_limbs_s (length a) (- seval a)) else None.
Proof. exact int_checked_neg_spec. Qed.
Print Assumptions C13_checked_neg.

Theorem C13_wrapping_neg : forall a, wf a -> int_wrapping_neg a = to_limbs_s (length a) (- seval a).
Proof. exact int_wrapping_neg_spec. Qed.
Print Assumptions C13_wrapping_neg.

Theorem C13_wrapping_neg_if : forall a (b : bool), wf a ->
  int_wrapping_neg_if a (choice_of_bool b) = to_limbs_s (length a) (if b then - seval a else seval a).
Proof. exact int_wrapping_neg_if_spec. Qed.
Print Assumptions C13_wrapping_neg_if.

(** sign / magnitude decomposition (|MIN| = 2^(BITS-1) is returned exactly) and reconstruction
    (exact for MIN and for negative zero) *)
Theorem C13_abs_sign : forall a, wf a ->
  int_abs_sign a = (to_limbs (length a) (Z.abs (seval a)), choice_of_bool (seval a <? 0)) /\
  eval (to_limbs (length a) (Z.abs (seval a))) = Z.abs (seval a).
Proof. intros a H. split; [apply int_abs_sign_spec | apply eval_abs]; assumption. Qed.
Print Assumptions C13_abs_sign.

Theorem C13_new_from_abs_sign : forall ab (b : bool), wf ab ->
  let x := if b then - eval ab else eval ab in
  int_new_from_abs_sign ab (choice_of_bool b) =
    if isp_fits (length ab) x then Some (to_limbs_s (length ab) x) else None.
Proof. exact int_new_from_abs_sign_spec. Qed.
Print Assumptions C13_new_from_abs_sign.

(** multiplication, equal and mixed widths (the result has the width of the first factor) *)
Theorem C13_split_mul : forall a b, wf a -> wf b ->
  let p := Z.abs (seval a) * Z.abs (seval b) in
  int_split_mul a b = (to_limbs (length a) p, to_limbs (length b) (p / Bn (length a)),
                       choice_of_bool (xorb (seval a <? 0) (seval b <? 0))).
Proof. exact int_split_mul_spec. Qed.
Print Assumptions C13_split_mul.

Theorem C13_checked_mul : forall a b, wf a -> wf b ->
  int_checked_mul a b =
    if isp_fits (length a) (seval a * seval b) then Some (to_limbs_s (length a) (seval a * seval b)) else None.
Proof. exact int_checked_mul_spec. Qed.
Print Assumptions C13_checked_mul.

Theorem C13_checked_mul_uint : forall a b, wf a -> wf b ->
  int_checked_mul_uint a b =
    if isp_fits (length a) (seval a * eval b) then Some (to_limbs_s (length a) (seval a * eval b)) else None.
Proof. exact int_checked_mul_uint_spec. Qed.
Print Assumptions C13_checked_mul_uint.

Theorem C13_checked_mul_uint_right : forall a b, wf a -> wf b ->
  int_checked_mul_uint_right a b =
    if isp_fits (length b) (seval a * eval b) then Some (to_limbs_s (length b) (seval a * eval b)) else None.
Proof. exact int_checked_mul_uint_right_spec. Qed.
Print Assumptions C13_checked_mul_uint_right.

Theorem C13_widening_mul : forall a b, wf a -> wf b ->
  int_widening_mul a b = to_limbs_s (length a + length b) (seval a * seval b).
Proof. exact int_widening_mul_spec. Qed.
Print Assumptions C13_widening_mul.

Theorem C13_widening_mul_uint : forall a b, wf a -> wf b ->
  int_widening_mul_uint a b = to_limbs_s (length a + length b) (seval a * eval b).
Proof. exact int_widening_mul_uint_spec. Qed.
Print Assumptions C13_widening_mul_uint.

(** the widening product never wraps *)
Theorem C13_widening_mul_fits : forall a b, wf a -> wf b -> a <> [] -> b <> [] ->
  - Bn (length a + length b) <= 2 * (seval a * seval b) < Bn (length a + length b).
Proof. exact widening_fits. Qed.
Print Assumptions C13_widening_mul_fits.

(** squares (unsigned results) *)
Theorem C13_widening_square : forall a, wf a ->
  int_widening_square a = to_limbs (length a + length a) (seval a * seval a).
Proof. exact int_widening_square_spec. Qed.
Print Assumptions C13_widening_square.

Theorem C13_checked_square : forall a, wf a ->
  int_checked_square a =
    if seval a * seval a <? Bn (length a) then Some (to_limbs (length a) (seval a * seval a)) else None.
Proof. exact int_checked_square_spec. Qed.
Print Assumptions C13_checked_square.

Theorem C13_wrapping_square : forall a, wf a ->
  int_wrapping_square a = to_limbs (length a) ((seval a * seval a) mod Bn (length a)).
Proof. exact int_wrapping_square_spec. Qed.
Print Assumptions C13_wrapping_square.

Theorem C13_saturating_square : forall a, wf a ->
  int_saturating_square a =
    to_limbs (length a) (if seval a * seval a <? Bn (length a) then seval a * seval a else Bn (length a) - 1).
Proof. exact int_saturating_square_spec. Qed.
Print Assumptions C13_saturating_square.

(** resize to any width: sign extension when widening, reduction modulo 2^BITS when narrowing *)
Theorem C13_resize : forall t a, wf a -> int_resize t a = to_limbs_s t (seval a).
Proof. exact int_resize_spec. Qed.
Print Assumptions C13_resize.

(** conversion from the signed primitives i8 .. i64 (bits in 8/16/32/64, x = bit pattern) and i128 *)
Theorem C13_from_prim : forall bits t x, 1 <= bits <= 64 -> 0 <= x < 2 ^ bits ->
  int_from_prim bits t x = to_limbs_s t (prim_sval bits x).
Proof. exact int_from_prim_spec. Qed.
Print Assumptions C13_from_prim.

Theorem C13_from_i128 : forall t lo hi, is_word lo -> is_word hi ->
  int_from_i128 t lo hi = to_limbs_s t (seval [lo; hi]).
Proof. exact int_from_i128_spec. Qed.
Print Assumptions C13_from_i128.

(** Checked<Int> arithmetic: a binary + - * on two Checked values is none iff an operand is none or the exact
    result leaves [MIN, MAX] ([opt_enc n o s]: the model option o encodes the mathematical option s) ... *)
Theorem C13_checked_bin : forall n op xo xs yo ys, opt_enc n xo xs -> opt_enc n yo ys ->
  opt_enc n (int_checked_bin op xo yo) (isp_checked_bin n op xs ys).
Proof. exact int_checked_bin_spec. Qed.
Print Assumptions C13_checked_bin.

(** ... hence both nestings (a op1 b) op2 c and a op2 (b op1 c) are none iff some intermediate result overflowed *)
Theorem C13_checked_expr : forall shape op1 op2 a b c,
  wf a -> wf b -> wf c -> length a = length b -> length a = length c ->
  opt_enc (length a) (int_checked_expr shape op1 op2 a b c)
                     (isp_checked_expr (length a) shape op1 op2 (seval a) (seval b) (seval c)).
Proof. exact int_checked_expr_spec. Qed.
Print Assumptions C13_checked_expr.

(** the two op tables evaluated by the correspondence check (model entry = limb-level model of the Rust code,
    spec entry = plain arithmetic on the signed values) agree, key by key, on all well-formed arguments;
    [run_op t key dbg args] is the table lookup of Model/Api.v *)
Theorem C13_tables_agree_binary : forall dbg a b, wf a -> wf b -> length a = length b ->
  let M := run_op ops_intarith_model in let S := run_op ops_intarith_spec in
  M "sint.checked_add" dbg [a; b] = S "sint.checked_add" dbg [a; b] /\
  M "sint.overflowing_add" dbg [a; b] = S "sint.overflowing_add" dbg [a; b] /\
  M "sint.wrapping_add" dbg [a; b] = S "sint.wrapping_add" dbg [a; b] /\
  M "sint.add" dbg [a; b] = S "sint.add" dbg [a; b] /\
  M "sint.checked_sub" dbg [a; b] = S "sint.checked_sub" dbg [a; b] /\
  M "sint.wrapping_sub" dbg [a; b] = S "sint.wrapping_sub" dbg [a; b] /\
  M "sint.sub" dbg [a; b] = S "sint.sub" dbg [a; b].
Proof.
  intros dbg a b Ha Hb Hl M S. unfold M, S.
  repeat split; [apply tbl_checked_add | apply tbl_overflowing_add | apply tbl_wrapping_add | apply tbl_add
    | apply tbl_checked_sub | apply tbl_wrapping_sub | apply tbl_sub]; assumption.
Qed.
Print Assumptions C13_tables_agree_binary.

Theorem C13_tables_agree_unary : forall dbg a c t, wf a -> a <> [] -> 0 <= t ->
  let M := run_op ops_intarith_model in let S := run_op ops_intarith_spec in
  M "sint.overflowing_neg" dbg [a] = S "sint.overflowing_neg" dbg [a] /\
  M "sint.wrapping_neg" dbg [a] = S "sint.wrapping_neg" dbg [a] /\
  M "sint.checked_neg" dbg [a] = S "sint.checked_neg" dbg [a] /\
  M "sint.wrapping_neg_if" dbg [a; [c]] = S "sint.wrapping_neg_if" dbg [a; [c]] /\
  M "sint.abs_sign" dbg [a] = S "sint.abs_sign" dbg [a] /\
  M "sint.abs" dbg [a] = S "sint.abs" dbg [a] /\
  M "sint.is_negative" dbg [a] = S "sint.is_negative" dbg [a] /\
  M "sint.is_positive" dbg [a] = S "sint.is_positive" dbg [a] /\
  M "sint.is_min" dbg [a] = S "sint.is_min" dbg [a] /\
  M "sint.is_max" dbg [a] = S "sint.is_max" dbg [a] /\
  M "sint.new_from_abs_sign" dbg [a; [c]] = S "sint.new_from_abs_sign" dbg [a; [c]] /\
  M "sint.widening_square" dbg [a] = S "sint.widening_square" dbg [a] /\
  M "sint.checked_square" dbg [a] = S "sint.checked_square" dbg [a] /\
  M "sint.wrapping_square" dbg [a] = S "sint.wrapping_square" dbg [a] /\
  M "sint.saturating_square" dbg [a] = S "sint.saturating_square" dbg [a] /\
  M "sint.resize" dbg [a; [t]] = S "sint.resize" dbg [a; [t]] /\
  M "sint.to_prim" dbg [a] = S "sint.to_prim" dbg [a].
Proof.
  intros dbg a c t Ha Hne Ht M S. unfold M, S.
  repeat split; [apply tbl_overflowing_neg | apply tbl_wrapping_neg | apply tbl_checked_neg | apply tbl_wrapping_neg_if
    | apply tbl_abs_sign | apply tbl_abs | apply tbl_is_negative | apply tbl_is_positive | apply tbl_is_min | apply tbl_is_max
    | apply tbl_new_from_abs_sign | apply tbl_widening_square | apply tbl_checked_square | apply tbl_wrapping_square
    | apply tbl_saturating_square | apply tbl_resize | apply tbl_to_prim]; assumption.
Qed.
Print Assumptions C13_tables_agree_unary.

Theorem C13_tables_agree_mul : forall dbg a b, wf a -> wf b ->
  let M := run_op ops_intarith_model in let S := run_op ops_intarith_spec in
  M "sint.split_mul" dbg [a; b] = S "sint.split_mul" dbg [a; b] /\
  M "sint.split_mul_uint" dbg [a; b] = S "sint.split_mul_uint" dbg [a; b] /\
  M "sint.split_mul_uint_right" dbg [a; b] = S "sint.split_mul_uint_right" dbg [a; b] /\
  M "sint.widening_mul" dbg [a; b] = S "sint.widening_mul" dbg [a; b] /\
  M "sint.widening_mul_uint" dbg [a; b] = S "sint.widening_mul_uint" dbg [a; b] /\
  M "sint.checked_mul" dbg [a; b] = S "sint.checked_mul" dbg [a; b] /\
  M "sint.checked_mul_uint" dbg [a; b] = S "sint.checked_mul_uint" dbg [a; b] /\
  M "sint.checked_mul_uint_right" dbg [a; b] = S "sint.checked_mul_uint_right" dbg [a; b] /\
  M "sint.mul" dbg [a; b] = S "sint.mul" dbg [a; b] /\
  M "sint.mul_uint" dbg [a; b] = S "sint.mul_uint" dbg [a; b].
Proof.
  intros dbg a b Ha Hb M S. unfold M, S.
  repeat split; [apply tbl_split_mul | apply tbl_split_mul_uint | apply tbl_split_mul_uint_right | apply tbl_widening_mul
    | apply tbl_widening_mul_uint | apply tbl_checked_mul | apply tbl_checked_mul_uint | apply tbl_checked_mul_uint_right
    | apply tbl_mul | apply tbl_mul_uint]; assumption.
Qed.
Print Assumptions C13_tables_agree_mul.

(** conversions from primitives (x = bit pattern, t = target limb count), constants, Checked<Int> expressions *)
Theorem C13_tables_agree_from : forall dbg x t, 0 <= t ->
  let M := run_op ops_intarith_model in let S := run_op ops_intarith_spec in
  (0 <= x < 2 ^ 8 -> M "sint.from_i8" dbg [[x]; [t]] = S "sint.from_i8" dbg [[x]; [t]]) /\
  (0 <= x < 2 ^ 16 -> M "sint.from_i16" dbg [[x]; [t]] = S "sint.from_i16" dbg [[x]; [t]]) /\
  (0 <= x < 2 ^ 32 -> M "sint.from_i32" dbg [[x]; [t]] = S "sint.from_i32" dbg [[x]; [t]]) /\
  (0 <= x < 2 ^ 64 -> M "sint.from_i64" dbg [[x]; [t]] = S "sint.from_i64" dbg [[x]; [t]]) /\
  (1 <= t -> M "sint.consts" dbg [[t]] = S "sint.consts" dbg [[t]]).
Proof.
  intros dbg x t Ht M S. unfold M, S.
  repeat split; intros; [apply tbl_from_i8 | apply tbl_from_i16 | apply tbl_from_i32 | apply tbl_from_i64 | apply tbl_consts];
    assumption.
Qed.
Print Assumptions C13_tables_agree_from.

(** from_i128 / From<i128>: both entries panic (assertion) for a target of fewer than two limbs and agree otherwise *)
Theorem C13_tables_agree_from_i128 : forall dbg lo hi t, is_word lo -> is_word hi ->
  run_op ops_intarith_model "sint.from_i128" dbg [[lo; hi]; [t]] = run_op ops_intarith_spec "sint.from_i128" dbg [[lo; hi]; [t]] /\
  run_op ops_intarith_model "sint.from_i128_trait" dbg [[lo; hi]; [t]] = run_op ops_intarith_spec "sint.from_i128_trait" dbg [[lo; hi]; [t]].
Proof. exact tbl_from_i128. Qed.
Print Assumptions C13_tables_agree_from_i128.

Theorem C13_tables_agree_checked_expr : forall dbg a b c o1 o2 f shape,
  wf a -> wf b -> wf c -> length a = length b -> length a = length c ->
  run_op ops_intarith_model "sint.checked_expr" dbg [a; b; c; [o1]; [o2]; [f]; [shape]] =
  run_op ops_intarith_spec "sint.checked_expr" dbg [a; b; c; [o1]; [o2]; [f]; [shape]].
Proof. exact tbl_checked_expr. Qed.
Print Assumptions C13_tables_agree_checked_expr.

(** non-vacuity: MAX + 1 overflows, -MIN overflows, MIN = -(2^127) is reconstructed from (2^127, negative),
    (2^127, positive) is rejected, negative zero is zero, (-2^64) * 2^63 = MIN fits while 2^64 * 2^63 does not *)
Example C13_nonvacuous :
  int_checked_add [MAXW; 2 ^ 63 - 1] [1; 0] = None /\
  int_overflowing_neg [0; 2 ^ 63] = ([0; 2 ^ 63], MAXW) /\
  int_new_from_abs_sign [0; 2 ^ 63] MAXW = Some [0; 2 ^ 63] /\
  int_new_from_abs_sign [0; 2 ^ 63] 0 = None /\
  int_new_from_abs_sign [0; 0] MAXW = Some [0; 0] /\
  int_checked_mul [0; MAXW] [2 ^ 63; 0] = Some [0; 2 ^ 63] /\
  int_checked_mul [0; 1] [2 ^ 63; 0] = None /\
  int_resize 3 [5; 2 ^ 63] = [5; 2 ^ 63; MAXW] /\
  seval [0; 2 ^ 63] = - 2 ^ 127.
Proof. vm_compute. repeat split; reflexivity. Qed.
