(** C16 (continued) -- the two op tables of Model/Conv.v that the correspondence check evaluates agree on EVERY key.
    For each of the 37 keys of [ops_conv_model] / [ops_conv_spec] (Limb / Uint / Int / BoxedUint to and from big- and
    little-endian bytes, strict hex decoding, Display / LowerHex / UpperHex / Binary / Debug formatting, word and limb
    views, conversions from and to primitive integers, concat / split / resize, BoxedUint widen / shorten, the boxed
    byte and hex decoders with their InputSize / Precision errors, the serde payload, the NonZero and Odd decoders),
    in both profiles and for all well-formed argument lists, wherever the spec entry is defined (not [Unsupported]),
    the model entry (the loops of the Rust code: limb-wise (de)serialisation, the branch-free nibble decoder with
    its error accumulator, copy loops, length / precision assertions and the option / error / panic plumbing of the
    entry) returns exactly what the spec entry (positional formulas on plain integers) returns.
    [run_tab t k dbg a] = the table lookup of Model/Api.v; [wf_args a] = every limb of every argument is a 64-bit word;
    [typedb conv_tbl_ty k a] = the typing side condition of key k (Proofs/ConvTablesP.v): 35 keys have none; for
    "uint.from_prim" / "int.from_prim" the tag that names the Rust source type of the conversion names a type
    (unsigned: at most 64 bits, Word, u128, WideWord; signed: i2 .. i64, i128).  That bytes are < 256, sizes match,
    values fit the named type ... are domain tests of the SPEC entries, not hypotheses.
    Statements only; proofs in Proofs/ConvTablesP.v. *)
From CB Require Import Model.Limbs Model.Conv Proofs.TotalityP Proofs.ConvTablesP.
From Coq Require Import ZArith List String.
Import ListNotations.
Open Scope Z_scope.
Open Scope string_scope.

(** every key of the table (the key list is [map fst] of the table itself: nothing is left out) *)
Theorem C16_tables_agree : forall k dbg a,
  In k (map fst ops_conv_model) -> wf_args a -> typedb conv_tbl_ty k a = true ->
  run_tab ops_conv_spec k dbg a <> Unsupported ->
  run_tab ops_conv_model k dbg a = run_tab ops_conv_spec k dbg a.
Proof. exact conv_tables_agree. Qed.
Print Assumptions C16_tables_agree.

(** the same over the key list [conv_keys] of C11, which is the same set of 37 keys *)
Theorem C16_tables_agree_c11_keys : forall k dbg a,
  In k conv_keys -> wf_args a -> typedb conv_tbl_ty k a = true ->
  run_tab ops_conv_spec k dbg a <> Unsupported ->
  run_tab ops_conv_model k dbg a = run_tab ops_conv_spec k dbg a.
Proof. exact conv_tables_agree_c11_keys. Qed.
Print Assumptions C16_tables_agree_c11_keys.

Theorem C16_tables_key_set :
  map fst ops_conv_spec = map fst ops_conv_model /\ List.length (map fst ops_conv_model) = 37%nat /\
  (forall k, In k conv_keys <-> In k (map fst ops_conv_model)).
Proof. exact conv_key_set. Qed.
Print Assumptions C16_tables_key_set.

(** only the two tagged from_prim keys have a side condition *)
Theorem C16_tables_typing_trivial : forall k a, k <> "uint.from_prim" -> k <> "int.from_prim" ->
  typedb conv_tbl_ty k a = true.
Proof. exact conv_typing_trivial. Qed.
Print Assumptions C16_tables_typing_trivial.

(** ... and there it is not decoration: with a tag that names no source type the two entries differ *)
Theorem C16_tables_typing_needed :
  run_tab ops_conv_spec "uint.from_prim" false [[0; 1]; [100]; [2]] <> Unsupported /\
  run_tab ops_conv_model "uint.from_prim" false [[0; 1]; [100]; [2]] <> run_tab ops_conv_spec "uint.from_prim" false [[0; 1]; [100]; [2]] /\
  run_tab ops_conv_spec "int.from_prim" false [[2 ^ 63]; [65]; [2]] <> Unsupported /\
  run_tab ops_conv_model "int.from_prim" false [[2 ^ 63]; [65]; [2]] <> run_tab ops_conv_spec "int.from_prim" false [[2 ^ 63]; [65]; [2]].
Proof. exact conv_typing_needed. Qed.
Print Assumptions C16_tables_typing_needed.

(** non-vacuity: the lookups find functions and return non-trivial values: "0123456789aBcDeF" decodes to
    0x0123456789abcdef in both tables; a 3-byte input for a one-limb Uint panics in both; eight zero bytes are none
    for NonZero; 0x0200 at precision 9 is a Precision error; i8 -2 sign-extends to two limbs (side condition true);
    a 'g' in a boxed hex string of the right size is none; from_u128 into one limb panics; the spec is undefined on a
    byte value 256 and on an unknown key *)
Example C16_tables_nonvacuous :
  run_tab ops_conv_model "uint.from_be_hex" false [[48; 49; 50; 51; 52; 53; 54; 55; 56; 57; 97; 66; 99; 68; 101; 70]; [1]] = Val [[81985529216486895]] /\
  run_tab ops_conv_spec "uint.from_be_hex" false [[48; 49; 50; 51; 52; 53; 54; 55; 56; 57; 97; 66; 99; 68; 101; 70]; [1]] = Val [[81985529216486895]] /\
  run_tab ops_conv_model "uint.from_be_slice" false [[1; 2; 3]; [1]] = PanicV /\
  run_tab ops_conv_spec "uint.from_be_slice" false [[1; 2; 3]; [1]] = PanicV /\
  run_tab ops_conv_model "nonzero.from_le_bytes" false [[0; 0; 0; 0; 0; 0; 0; 0]; [1]] = NoneV /\
  run_tab ops_conv_spec "nonzero.from_le_bytes" false [[0; 0; 0; 0; 0; 0; 0; 0]; [1]] = NoneV /\
  run_tab ops_conv_model "boxed.from_be_slice" false [[2; 0]; [9]] = ErrV 3 /\
  run_tab ops_conv_spec "boxed.from_be_slice" false [[2; 0]; [9]] = ErrV 3 /\
  run_tab ops_conv_model "int.from_prim" false [[254]; [8]; [2]] = Val [[MAXW - 1; MAXW]] /\
  run_tab ops_conv_spec "int.from_prim" false [[254]; [8]; [2]] = Val [[MAXW - 1; MAXW]] /\
  typedb conv_tbl_ty "int.from_prim" [[254]; [8]; [2]] = true /\
  run_tab ops_conv_model "boxed.from_be_hex" false [[48; 49; 50; 51; 52; 53; 54; 55; 56; 57; 97; 66; 99; 68; 101; 103]; [64]] = NoneV /\
  run_tab ops_conv_spec "boxed.from_be_hex" false [[48; 49; 50; 51; 52; 53; 54; 55; 56; 57; 97; 66; 99; 68; 101; 103]; [64]] = NoneV /\
  run_tab ops_conv_model "uint.from_prim" false [[5; 7]; [128]; [1]] = PanicV /\
  run_tab ops_conv_spec "uint.from_prim" false [[5; 7]; [128]; [1]] = PanicV /\
  run_tab ops_conv_model "uint.split" false [[1; 2; 3]; [1]] = Val [[1]; [2; 3]] /\
  run_tab ops_conv_spec "limb.from_be_bytes" false [[0; 0; 0; 0; 0; 0; 0; 256]] = Unsupported /\
  run_tab ops_conv_model "no.such.key" false [[1]] = Unsupported.
Proof. vm_compute. repeat split; reflexivity. Qed.
