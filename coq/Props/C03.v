(** C03 — multiplication and squaring. Statements only; proofs in Proofs/MulBaseP.v (rows, schoolbook,
    adc_mul_limbs), MulSqP.v (schoolbook squaring), MulKaraP.v (fixed-size Karatsuba mul / square),
    MulBoxedP.v (BoxedUint Karatsuba mul / square), MulApiP.v (API level, model table = spec table).
    Every statement holds for ALL limb counts and ALL limb values; nothing is assumed beyond well-formedness
    ([wf] = every limb is a 64-bit word). [eval] is the little-endian value, [Bn n] = 2^(64 n). *)
From CB Require Import Model.Limbs Model.AddSub Model.Mul Proofs.WordP Proofs.LimbsP Proofs.AddSubP
  Proofs.MulBaseP Proofs.MulSqP Proofs.MulKaraP Proofs.MulBoxedP Proofs.MulApiP.
From Coq Require Import ZArith String List.
Open Scope Z_scope.

Theorem placeholder : True. Proof. exact I. Qed.
Print Assumptions placeholder.

(* ---------------- 1. one multiply-accumulate row ---------------- *)
(** out[off .. off+len ys) += xi * ys + carry; limbs outside the window are untouched *)
Theorem C03_mac_row_exact : forall out off xi ys carry out' c,
  wf out -> wf ys -> is_word xi -> is_word carry -> (off + length ys <= length out)%nat ->
  mac_row out off xi ys carry = (out', c) ->
  eval out' + Bn (off + length ys) * c = eval out + Bn off * (xi * eval ys + carry) /\
  wf out' /\ length out' = length out /\ is_word c /\
  firstn off out' = firstn off out /\ skipn (off + length ys) out' = skipn (off + length ys) out.
Proof. exact mac_row_correct. Qed.
Print Assumptions C03_mac_row_exact.

(* ---------------- 2. schoolbook multiplication ---------------- *)
Theorem C03_schoolbook_mul_exact : forall xs ys, wf xs -> wf ys ->
  eval (schoolbook_mul xs ys) = eval xs * eval ys /\ wf (schoolbook_mul xs ys) /\
  length (schoolbook_mul xs ys) = (length xs + length ys)%nat.
Proof. exact schoolbook_mul_correct. Qed.
Print Assumptions C03_schoolbook_mul_exact.

(** the (lo, hi) halves returned on the schoolbook path of split_mul *)
Theorem C03_schoolbook_split_exact : forall xs ys lo hi, wf xs -> wf ys ->
  split_at (length xs) (schoolbook_mul xs ys) = (lo, hi) ->
  eval lo + Bn (length xs) * eval hi = eval xs * eval ys /\ wf lo /\ wf hi /\
  length lo = length xs /\ length hi = length ys.
Proof. exact schoolbook_split_correct. Qed.
Print Assumptions C03_schoolbook_split_exact.

(* ---------------- 6. adc_mul_limbs ---------------- *)
(** out += xs * ys for ANY incoming accumulator: the carry out of every row is propagated, none is lost *)
Theorem C03_adc_mul_limbs_exact : forall xs ys out out' c,
  wf xs -> wf ys -> wf out -> length out = (length xs + length ys)%nat ->
  adc_mul_limbs xs ys out = (out', c) ->
  eval out' + Bn (length out) * c = eval out + eval xs * eval ys /\
  wf out' /\ length out' = length out /\ 0 <= c <= 1.
Proof. exact adc_mul_limbs_correct. Qed.
Print Assumptions C03_adc_mul_limbs_exact.

(* ---------------- 3. schoolbook squaring ---------------- *)
(** half grid, doubling by shl1_go, diagonal *)
Theorem C03_schoolbook_sq_exact : forall xs, wf xs ->
  eval (schoolbook_sq xs) = eval xs * eval xs /\ wf (schoolbook_sq xs) /\
  length (schoolbook_sq xs) = (2 * length xs)%nat.
Proof. exact schoolbook_sq_correct. Qed.
Print Assumptions C03_schoolbook_sq_exact.

(* ---------------- 4. / 5. fixed-size Karatsuba ---------------- *)
(** every level, every operand length divisible by 2^level: |x0-x1|*|y1-y0|, sign mask, ones'-complement
    trick and multi-carry recombination lose nothing *)
Theorem C03_kmul_exact : forall l x y lo hi m,
  wf x -> wf y -> length x = (2 ^ l * m)%nat -> length y = length x ->
  kmul l x y = (lo, hi) ->
  eval lo + Bn (length x) * eval hi = eval x * eval y /\ wf lo /\ wf hi /\
  length lo = length x /\ length hi = length x.
Proof. exact kmul_correct. Qed.
Print Assumptions C03_kmul_exact.

Theorem C03_ksq_exact : forall l x lo hi m,
  wf x -> length x = (2 ^ l * m)%nat -> ksq l x = (lo, hi) ->
  eval lo + Bn (length x) * eval hi = eval x * eval x /\ wf lo /\ wf hi /\
  length lo = length x /\ length hi = length x.
Proof. exact ksq_correct. Qed.
Print Assumptions C03_ksq_exact.

(** the ingredients of the Karatsuba step, stated on their own *)
(** |a - b| by sbb_limbs + conditional two's-complement negation on the borrow mask, with the sign *)
Theorem C03_abs_diff : forall a b d bo,
  wf a -> wf b -> length a = length b -> sbb_limbs a b 0 = (d, bo) ->
  wf (sel_limbs (is_mask bo) d (uint_wrapping_neg d)) /\
  length (sel_limbs (is_mask bo) d (uint_wrapping_neg d)) = length a /\
  eval (sel_limbs (is_mask bo) d (uint_wrapping_neg d)) = (if is_mask bo then eval b - eval a else eval a - eval b).
Proof. exact abs_diff. Qed.
Print Assumptions C03_abs_diff.

(** the eight carry chains of the fixed-size recombination lose nothing but the final carry c8 (weight B^(4h)) *)
Theorem C03_kmul_recombination : forall H R0 R1 R2 R3 cin z0lo z0hi z2lo z2hi r0a r1a r1b r1c r2a r2b r2c r3a
    c1 c2 c3 c4 c5 c6 c7 c8,
  r0a + H * c1 = R0 + z0lo + cin ->
  r1a + H * c2 = R1 + z0hi + c1 ->
  r1b + H * c3 = r1a + z0lo + 0 ->
  r2a + H * c4 = R2 + z0hi + (c2 + c3) ->
  r1c + H * c5 = r1b + z2lo + 0 ->
  r2b + H * c6 = r2a + z2hi + c5 ->
  r2c + H * c7 = r2b + z2lo + 0 ->
  r3a + H * c8 = R3 + z2hi + (c4 + c6 + c7) ->
  (r0a + H * r1c) + H * H * (r2c + H * r3a) + H * H * H * H * c8 =
    (R0 + H * R1 + H * H * R2 + H * H * H * R3) + cin
    + (z0lo + H * z0hi) * (1 + H) + (z2lo + H * z2hi) * (H + H * H).
Proof. exact kara_recomb. Qed.
Print Assumptions C03_kmul_recombination.

(** the six accumulating additions of the boxed recombination (wadd carry sums never wrap): only the carry out
    of the top of the 4*half-limb window is dropped, the tail of the buffer is untouched *)
Theorem C03_boxed_recombination : forall out z0 z2 half size cin o1 c1 o2 c2 o3 c3 o4 c4 o5 c5 o6 c6,
  wf out -> wf z0 -> wf z2 -> size = (2 * half)%nat -> length z0 = size -> length z2 = size ->
  (4 * half <= length out)%nat -> 0 <= cin <= 1 ->
  adc_into out 0 z0 cin = (o1, c1) ->
  adc_into o1 half (firstn half z0) 0 = (o2, c2) ->
  adc_into o2 size (skipn half z0) (wadd c1 c2) = (o3, c3) ->
  adc_into o3 half z2 0 = (o4, c4) ->
  adc_into o4 size (firstn half z2) 0 = (o5, c5) ->
  adc_into o5 (size + half) (skipn half z2) (wadd (wadd c3 c4) c5) = (o6, c6) ->
  wf o6 /\ length o6 = length out /\ skipn (4 * half) o6 = skipn (4 * half) out /\ 0 <= c6 /\
  eval o6 + Bn half * Bn half * Bn half * Bn half * c6 =
    eval out + cin + eval z0 * (1 + Bn half) + eval z2 * (Bn half + Bn half * Bn half).
Proof. exact recomb6_correct. Qed.
Print Assumptions C03_boxed_recombination.

(* ---------------- 7. BoxedUint ---------------- *)
(** recursive Karatsuba on the even overlap, trailing-limb paths, carry ripple: any fuel, any pair of lengths *)
Theorem C03_kara_boxed_exact : forall f lhs rhs, wf lhs -> wf rhs ->
  eval (kara_boxed f lhs rhs) = eval lhs * eval rhs /\ wf (kara_boxed f lhs rhs) /\
  length (kara_boxed f lhs rhs) = (length lhs + length rhs)%nat.
Proof. exact kara_boxed_correct. Qed.
Print Assumptions C03_kara_boxed_exact.

Theorem C03_boxed_mul_exact : forall x y, wf x -> wf y ->
  eval (boxed_mul x y) = eval x * eval y /\ wf (boxed_mul x y) /\
  length (boxed_mul x y) = (length x + length y)%nat.
Proof. exact boxed_mul_correct. Qed.
Print Assumptions C03_boxed_mul_exact.

Theorem C03_kara_sq_boxed_exact : forall f x, wf x ->
  eval (kara_sq_boxed f x) = eval x * eval x /\ wf (kara_sq_boxed f x) /\
  length (kara_sq_boxed f x) = (2 * length x)%nat.
Proof. exact kara_sq_boxed_correct. Qed.
Print Assumptions C03_kara_sq_boxed_exact.

Theorem C03_boxed_square_exact : forall x, wf x ->
  eval (boxed_square x) = eval x * eval x /\ wf (boxed_square x) /\
  length (boxed_square x) = (2 * length x)%nat.
Proof. exact boxed_square_correct. Qed.
Print Assumptions C03_boxed_square_exact.

Theorem C03_boxed_square_is_mul : forall x, wf x -> boxed_square x = boxed_mul x x.
Proof. exact boxed_square_is_mul. Qed.
Print Assumptions C03_boxed_square_is_mul.

(* ---------------- 8. the API level ---------------- *)
(** Uint::split_mul / square_wide with their Karatsuba dispatch *)
Theorem C03_uint_split_mul_exact : forall x y lo hi, wf x -> wf y -> uint_split_mul x y = (lo, hi) ->
  eval lo + Bn (length x) * eval hi = eval x * eval y /\ wf lo /\ wf hi /\
  length lo = length x /\ length hi = length y.
Proof. exact uint_split_mul_eval. Qed.
Print Assumptions C03_uint_split_mul_exact.

Theorem C03_uint_square_wide_exact : forall x lo hi, wf x -> uint_square_wide x = (lo, hi) ->
  eval lo + Bn (length x) * eval hi = eval x * eval x /\ wf lo /\ wf hi /\
  length lo = length x /\ length hi = length x.
Proof. exact uint_square_wide_eval. Qed.
Print Assumptions C03_uint_square_wide_exact.

(** square = mul self self, limb for limb *)
Theorem C03_uint_square_is_mul : forall x, wf x -> uint_square_wide x = uint_split_mul x x.
Proof. exact uint_square_is_mul. Qed.
Print Assumptions C03_uint_square_is_mul.

(** wrapping_mul = product mod 2^BITS *)
Theorem C03_uint_wrapping_mul : forall x y, wf x -> wf y ->
  eval (fst (uint_split_mul x y)) = (eval x * eval y) mod Bn (length x).
Proof. exact uint_wrapping_mul_eval. Qed.
Print Assumptions C03_uint_wrapping_mul.

(** checked_mul (is_some = high half all zero) succeeds exactly when the product fits, and then returns it *)
Theorem C03_uint_checked_mul : forall x y lo hi, wf x -> wf y -> uint_split_mul x y = (lo, hi) ->
  (all_zero hi = true <-> eval x * eval y < Bn (length x)) /\
  (all_zero hi = true -> eval lo = eval x * eval y).
Proof. exact uint_checked_mul_eval. Qed.
Print Assumptions C03_uint_checked_mul.

(** saturating_mul = min(product, MAX) *)
Theorem C03_uint_saturating_mul : forall x y lo hi, wf x -> wf y -> uint_split_mul x y = (lo, hi) ->
  eval (if all_zero hi then lo else maxs (length lo)) = Z.min (eval x * eval y) (Bn (length x) - 1).
Proof. exact uint_saturating_mul_eval. Qed.
Print Assumptions C03_uint_saturating_mul.

(** every entry of the model op table (the functions compared bit for bit with the Rust crate) equals the
    specification entry (plain Z arithmetic) on all well-formed arguments: 4 + 6 + 5 + 4 + 1 = all 20 ops *)
Theorem C03_limb_api : forall name dbg a b, is_word a -> is_word b ->
  In name ["limb.wrapping_mul"; "limb.saturating_mul"; "limb.checked_mul"; "limb.mul"]%string ->
  op_of ops_mul_model name dbg [[a]; [b]] = op_of ops_mul_spec name dbg [[a]; [b]].
Proof. exact limb_ops_correct. Qed.
Print Assumptions C03_limb_api.

Theorem C03_uint_mul_api : forall name dbg x y, wf x -> wf y ->
  In name ["uint.split_mul"; "uint.widening_mul"; "uint.wrapping_mul"; "uint.checked_mul";
           "uint.saturating_mul"; "uint.mul"]%string ->
  op_of ops_mul_model name dbg [x; y] = op_of ops_mul_spec name dbg [x; y].
Proof. exact uint_mul_ops_correct. Qed.
Print Assumptions C03_uint_mul_api.

Theorem C03_uint_square_api : forall name dbg x, wf x ->
  In name ["uint.square_wide"; "uint.widening_square"; "uint.wrapping_square"; "uint.checked_square";
           "uint.saturating_square"]%string ->
  op_of ops_mul_model name dbg [x] = op_of ops_mul_spec name dbg [x].
Proof. exact uint_square_ops_correct. Qed.
Print Assumptions C03_uint_square_api.

Theorem C03_boxed_mul_api : forall name dbg x y, wf x -> wf y ->
  In name ["boxed.mul"; "boxed.wrapping_mul"; "boxed.checked_mul"; "boxed.mul_panicking"]%string ->
  op_of ops_mul_model name dbg [x; y] = op_of ops_mul_spec name dbg [x; y].
Proof. exact boxed_ops_correct. Qed.
Print Assumptions C03_boxed_mul_api.

Theorem C03_boxed_square_api : forall dbg x, wf x ->
  op_of ops_mul_model "boxed.square" dbg [x] = op_of ops_mul_spec "boxed.square" dbg [x].
Proof. exact boxed_square_op_correct. Qed.
Print Assumptions C03_boxed_square_api.

(** non-vacuity: extreme operands through the schoolbook, squaring, adc_mul_limbs-with-carry, fixed Karatsuba
    (level 1, sign mask set), boxed Karatsuba with both trailing-limb paths, and API paths; the table lookups really find functions *)
Example C03_nonvacuous :
  schoolbook_mul [MAXW; MAXW] [MAXW; MAXW] = [1; 0; MAXW - 1; MAXW] /\
  schoolbook_sq [MAXW; MAXW; 3] = schoolbook_mul [MAXW; MAXW; 3] [MAXW; MAXW; 3] /\
  adc_mul_limbs [MAXW] [MAXW] [MAXW; MAXW] = ([0; MAXW - 1], 1) /\
  kmul 1 [0; 1] [1; 0] = ([0; 1], [0; 0]) /\
  kmul 1 [MAXW; MAXW] [MAXW; MAXW] = ([1; 0], [MAXW - 1; MAXW]) /\
  ksq 1 [MAXW; 5] = split_at 2 (schoolbook_mul [MAXW; 5] [MAXW; 5]) /\
  boxed_mul (repeat MAXW 36 ++ [7]) (repeat MAXW 35) = schoolbook_mul (repeat MAXW 36 ++ [7]) (repeat MAXW 35) /\
  boxed_square (repeat MAXW 64) = schoolbook_sq (repeat MAXW 64) /\
  op_of ops_mul_model "uint.checked_mul" false [[MAXW; 1]; [2; 0]] = Val [[MAXW - 1; 3]] /\
  op_of ops_mul_model "uint.checked_mul" false [[MAXW; 1]; [0; 1]] = NoneV /\
  op_of ops_mul_spec "uint.saturating_mul" false [[MAXW; 1]; [0; 1]] = Val [[MAXW; MAXW]].
Proof. vm_compute. repeat split; reflexivity. Qed.
