(** C03 — multiplication and squaring. Statements only. (The row / schoolbook / Karatsuba theorems are added
    by Proofs/MulP.v as they are completed; until then the model of Model/Mul.v is tied to the specification
    a*b by evaluating both on every generated case.) *)
From CB Require Import Model.Limbs Model.Mul Proofs.WordP.
From Coq Require Import ZArith List.
Open Scope Z_scope.

(** multiply-accumulate primitive: exact for all words, the high word cannot overflow *)
Theorem C03_mac_word_exact : forall a b c carry lo hi,
  is_word a -> is_word b -> is_word c -> is_word carry -> mac a b c carry = (lo, hi) ->
  lo + B * hi = a + b * c + carry /\ is_word lo /\ is_word hi.
Proof. exact mac_exact. Qed.
Print Assumptions C03_mac_word_exact.

Example C03_nonvacuous :
  schoolbook_mul [MAXW; MAXW] [MAXW; MAXW] = [1; 0; MAXW - 1; MAXW] /\
  schoolbook_sq [MAXW; MAXW; 1] = schoolbook_mul [MAXW; MAXW; 1] [MAXW; MAXW; 1].
Proof. vm_compute. split; reflexivity. Qed.
