From CB Require Import Model.Mul.
Theorem placeholder : True. Proof. exact I. Qed.
Print Assumptions placeholder.
