(** C07 (continued) — the table theorems of Props/C07.v that were stated GIVEN facts of other areas, now WITHOUT them.
    Props/C07.v proves, for the keys "uint.mul_mod_special", "boxed.mul_mod_special", "uint.mul_mod_vartime" and
    "uint.mul_mod_trait" of ops_modarith_model / ops_modarith_spec (Model/ModArith.v), that the model entry equals the
    spec entry under the hypotheses [split_mul_ok] (the multiplication routine returns the double-width product),
    [recip_ok] (the 64-bit reciprocal of 2^64 - c is exact) and [rem_wide_ok] (the wide Knuth remainder is exact).
    These facts are theorems of the development (C03: Proofs/MulApiP.v uint_split_mul_correct / boxed_mul_wide over
    MulBaseP / MulKaraP / MulBoxedP; C02: Proofs/RecipP.v reciprocal_correct, Proofs/RemWideP.v
    rem_wide_vartime_correct, Proofs/DivFinalP.v), and Proofs/ModArithTables2P.v plugs them in.
    What is left in the statements: [wf_args a] (every limb is a 64-bit word), the spec-domain hypothesis
    (spec entry <> Unsupported: operands reduced, 1 <= c <= MAX, equal widths, p <> 0) and, for mul_mod_vartime / MulMod
    whose spec entry does not test the widths, the boolean typing condition [ty_same3 a] (self, rhs and p are Uint<N>
    of one N: Rust's types).  Statements only; proofs in Proofs/ModArithTables2P.v. *)
From CB Require Import Model.Limbs Model.AddSub Model.Mul Model.Div Model.ModArith
  Proofs.DivP Proofs.ModArithP Proofs.ModArithTablesP Proofs.ModArithTables2P.
From Coq Require Import ZArith List String.
Open Scope Z_scope.
Open Scope string_scope.

(** Uint::mul_mod_special at every width (one limb: mul_rem through the reciprocal of 2^64 - c; n >= 2: HAC 14.47 on the
    product returned by Uint::split_mul, schoolbook or Karatsuba), both profiles *)
Theorem C07_tables_agree_uint_mul_mod_special_full : forall dbg a, wf_args a ->
  run_op7 ops_modarith_spec "uint.mul_mod_special" dbg a <> Unsupported ->
  run_op7 ops_modarith_model "uint.mul_mod_special" dbg a = run_op7 ops_modarith_spec "uint.mul_mod_special" dbg a.
Proof. exact tbl_uint_mul_mod_special_full. Qed.
Print Assumptions C07_tables_agree_uint_mul_mod_special_full.

(** BoxedUint::mul_mod_special at every precision (product by BoxedUint::mul, schoolbook or boxed Karatsuba) *)
Theorem C07_tables_agree_boxed_mul_mod_special_full : forall dbg a, wf_args a ->
  run_op7 ops_modarith_spec "boxed.mul_mod_special" dbg a <> Unsupported ->
  run_op7 ops_modarith_model "boxed.mul_mod_special" dbg a = run_op7 ops_modarith_spec "boxed.mul_mod_special" dbg a.
Proof. exact tbl_boxed_mul_mod_special_full. Qed.
Print Assumptions C07_tables_agree_boxed_mul_mod_special_full.

(** Uint::mul_mod_vartime = split_mul followed by rem_wide_vartime, for every non-zero modulus (odd or even) *)
Theorem C07_tables_agree_uint_mul_mod_vartime_full : forall dbg a, wf_args a -> ty_same3 a = true ->
  run_op7 ops_modarith_spec "uint.mul_mod_vartime" dbg a <> Unsupported ->
  run_op7 ops_modarith_model "uint.mul_mod_vartime" dbg a = run_op7 ops_modarith_spec "uint.mul_mod_vartime" dbg a.
Proof. exact tbl_uint_mul_mod_vartime_full. Qed.
Print Assumptions C07_tables_agree_uint_mul_mod_vartime_full.

(** the MulMod trait panics exactly on p = 0 and returns the canonical residue otherwise: no domain hypothesis *)
Theorem C07_tables_agree_uint_mul_mod_trait_full : forall dbg a, wf_args a -> ty_same3 a = true ->
  run_op7 ops_modarith_model "uint.mul_mod_trait" dbg a = run_op7 ops_modarith_spec "uint.mul_mod_trait" dbg a.
Proof. exact tbl_uint_mul_mod_trait_full. Qed.
Print Assumptions C07_tables_agree_uint_mul_mod_trait_full.

(** the facts of the other areas in exactly the form the `_given_` theorems of Props/C07.v ask for *)
Theorem C07_split_mul_ok_uint : forall x y, wf x -> wf y -> List.length x = List.length y ->
  split_mul_ok uint_split_mul x y.
Proof. exact uint_split_mul_ok. Qed.
Print Assumptions C07_split_mul_ok_uint.
Theorem C07_split_mul_ok_boxed : forall x y, wf x -> wf y -> List.length x = List.length y ->
  split_mul_ok boxed_split_mul x y.
Proof. exact boxed_split_mul_ok. Qed.
Print Assumptions C07_split_mul_ok_boxed.
Theorem C07_recip_ok_special : forall c, 1 <= c < B ->
  recip_ok (r_d (recip_new (B - c))) (reciprocal (r_d (recip_new (B - c)))).
Proof. exact recip_new_special_ok. Qed.
Print Assumptions C07_recip_ok_special.
Theorem C07_rem_wide_ok : forall p, wf p -> eval p <> 0 -> rem_wide_ok p.
Proof. exact rem_wide_ok_nonzero. Qed.
Print Assumptions C07_rem_wide_ok.

(** with these four keys closed: EVERY key of ops_modarith_model / ops_modarith_spec (19 of 19; the key list is
    [map fst] of the table).  [typedb7 modarith_tbl_ty k a] is [ty_same3 a] for "uint.mul_mod_vartime" and
    "uint.mul_mod_trait" and [true] for the other 17 keys.  For "uint.mul_mod" / "boxed.mul_mod" the MODEL entry is
    value-level by design (the Montgomery route belongs to C08), so for these two keys the statement only says that the
    panic / unsupported split of the two tables is consistent. *)
Theorem C07_tables_agree_all_keys : forall k dbg a,
  In k (map fst ops_modarith_model) -> wf_args a -> typedb7 modarith_tbl_ty k a = true ->
  run_op7 ops_modarith_spec k dbg a <> Unsupported ->
  run_op7 ops_modarith_model k dbg a = run_op7 ops_modarith_spec k dbg a.
Proof. exact modarith_tables_agree. Qed.
Print Assumptions C07_tables_agree_all_keys.

Theorem C07_tables_key_set :
  map fst ops_modarith_spec = map fst ops_modarith_model /\ List.length (map fst ops_modarith_model) = 19%nat.
Proof. exact modarith_key_set. Qed.
Print Assumptions C07_tables_key_set.

(** the typing condition is not decoration *)
Theorem C07_tables_typing_needed :
  run_op7 ops_modarith_model "uint.mul_mod_vartime" false [[MAXW]; [MAXW]; [7; 1]] <>
  run_op7 ops_modarith_spec "uint.mul_mod_vartime" false [[MAXW]; [MAXW]; [7; 1]].
Proof. exact modarith_typing_needed. Qed.
Print Assumptions C07_tables_typing_needed.

(** non-vacuity: the lookups find functions, the hypotheses hold and the entries return non-trivial values:
    mul_mod_special at three limbs with c = MAX (the carry + 1 case) and at one limb (reciprocal route) in both profiles;
    the boxed twin at two limbs; mul_mod_vartime with an even two-limb modulus 2^127 + 11; the trait with p = 0 panics
    in both tables; c = 0 at one limb is outside the spec domain (the model reports the zero-divisor panic) *)
Example C07_tables_full_nonvacuous :
  run_op7 ops_modarith_model "uint.mul_mod_special" false [[0; MAXW - 1; MAXW]; [0; MAXW - 1; MAXW]; [MAXW]] = Val [[1; 2; 1]] /\
  run_op7 ops_modarith_spec "uint.mul_mod_special" false [[0; MAXW - 1; MAXW]; [0; MAXW - 1; MAXW]; [MAXW]] = Val [[1; 2; 1]] /\
  run_op7 ops_modarith_model "uint.mul_mod_special" true [[MAXW - 7]; [MAXW - 9]; [5]] = Val [[15]] /\
  run_op7 ops_modarith_spec "uint.mul_mod_special" true [[MAXW - 7]; [MAXW - 9]; [5]] = Val [[15]] /\
  run_op7 ops_modarith_model "boxed.mul_mod_special" false [[MAXW - 7; MAXW]; [MAXW - 9; MAXW]; [3]] = Val [[35; 0]] /\
  run_op7 ops_modarith_spec "boxed.mul_mod_special" false [[MAXW - 7; MAXW]; [MAXW - 9; MAXW]; [3]] = Val [[35; 0]] /\
  run_op7 ops_modarith_model "uint.mul_mod_vartime" false [[MAXW; 5]; [MAXW; 9]; [11; 2 ^ 63]] = Val [[MAXW - 1307; 2 ^ 63 - 17]] /\
  run_op7 ops_modarith_spec "uint.mul_mod_vartime" false [[MAXW; 5]; [MAXW; 9]; [11; 2 ^ 63]] = Val [[MAXW - 1307; 2 ^ 63 - 17]] /\
  ty_same3 [[MAXW; 5]; [MAXW; 9]; [11; 2 ^ 63]] = true /\
  run_op7 ops_modarith_model "uint.mul_mod_trait" false [[MAXW; 5]; [MAXW; 9]; [0; 0]] = PanicV /\
  run_op7 ops_modarith_spec "uint.mul_mod_trait" false [[MAXW; 5]; [MAXW; 9]; [0; 0]] = PanicV /\
  run_op7 ops_modarith_model "uint.mul_mod_special" false [[1]; [2]; [0]] = PanicV /\
  run_op7 ops_modarith_spec "uint.mul_mod_special" false [[1]; [2]; [0]] = Unsupported /\
  run_op7 ops_modarith_model "no.such.key" false [[1]] = Unsupported.
Proof. vm_compute. repeat split; reflexivity. Qed.
