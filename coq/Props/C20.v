(** C20 — the integer square root is the exact floor for every input.
    Only statements, each closed by [exact] of a lemma from Proofs/. All statements quantify over every
    limb count (list length <> 0) and every word value.  Models: Model/Sqrt.v (the inner division and the
    squaring of the checked forms are value-level; everything else follows the Rust code limb by limb). *)
From CB Require Import Model.Limbs Model.AddSub Model.Sqrt Proofs.WordP Proofs.LimbsP Proofs.SqrtMathP
  Proofs.SqrtLimbsP Proofs.SqrtP.
From Coq Require Import ZArith List.
Open Scope Z_scope.

(** ---- Newton's iteration on the integers: newton n x = floor((x + floor(n / x)) / 2) ---- *)

(** a Newton step never goes below floor(sqrt n), whatever the (positive) starting point *)
Theorem C20_newton_never_below_root : forall n x, 0 <= n -> 0 < x -> Z.sqrt n <= newton n x.
Proof. exact newton_ge. Qed.
Print Assumptions C20_newton_never_below_root.

(** strict decrease above the root *)
Theorem C20_newton_decreases_above_root : forall n x, 0 <= n -> Z.sqrt n < x -> newton n x < x.
Proof. exact newton_lt. Qed.
Print Assumptions C20_newton_decreases_above_root.

(** from the root itself the step yields the root or root + 1 (the oscillation the final min() resolves) *)
Theorem C20_newton_at_root : forall n, 0 < n -> Z.sqrt n <= newton n (Z.sqrt n) <= Z.sqrt n + 1.
Proof. exact newton_root. Qed.
Print Assumptions C20_newton_at_root.

(** quadratic convergence in integers: with e = x - s - 2 and e' = newton n x - s - 2,  2 x e' <= e^2 *)
Theorem C20_newton_quadratic : forall n x, 0 <= n -> Z.sqrt n <= x -> 0 < x ->
  2 * x * (newton n x - Z.sqrt n - 2) <= (x - Z.sqrt n - 2) * (x - Z.sqrt n - 2).
Proof. exact newton_quad. Qed.
Print Assumptions C20_newton_quadratic.

(** the initial estimate 2^ceil(bits/2) lies in (s, 2 s] *)
Theorem C20_initial_estimate : forall n, 0 < n ->
  Z.sqrt n < 2 ^ ((bitlen n + 1) / 2) <= 2 * Z.sqrt n.
Proof. exact init_bounds. Qed.
Print Assumptions C20_initial_estimate.

(** the iteration count: if s < 2^h and h <= 2^k - 1 then k + 1 rounds from any start in [s, 2s + 2] end
    within 1 of the root (for BITS-bit inputs h = BITS/2 and k = floor(log2 BITS) qualify, next theorem) *)
Theorem C20_rounds_suffice : forall n x0 h k,
  0 < n -> 0 <= h -> Z.sqrt n < 2 ^ h -> h <= 2 ^ Z.of_nat k - 1 ->
  Z.sqrt n <= x0 <= 2 * Z.sqrt n + 2 ->
  Z.sqrt n <= SqrtMathP.iter (S k) n x0 <= Z.sqrt n + 1.
Proof. exact ct_rounds_enough. Qed.
Print Assumptions C20_rounds_suffice.

Theorem C20_log2_bits_rounds : forall bits, 0 < bits -> Z.even bits = true ->
  bits / 2 <= 2 ^ Z.log2 bits - 1.
Proof. exact log2_rounds. Qed.
Print Assumptions C20_log2_bits_rounds.

(** min(x_n, x_{n+1}) is the root once x_n is within 1 of it *)
Theorem C20_final_min : forall n xp, 0 < n -> Z.sqrt n <= xp <= Z.sqrt n + 1 ->
  Z.min xp (newton n xp) = Z.sqrt n.
Proof. exact ct_result. Qed.
Print Assumptions C20_final_min.

(** ---- limb-level helpers the algorithms use ---- *)
Theorem C20_bits_exact : forall a, wf a -> bits_limbs a = bitlen (eval a).
Proof. exact bits_limbs_spec. Qed.
Print Assumptions C20_bits_exact.

Theorem C20_overflowing_shl_exact : forall a shift,
  wf a -> length a <> 0%nat -> 0 <= shift < 64 * Z.of_nat (length a) ->
  exists r, overflowing_shl_limbs a shift = Some (r, 0) /\ wf r /\ length r = length a /\
            eval r = (eval a * 2 ^ shift) mod Bn (length a).
Proof. exact overflowing_shl_limbs_spec. Qed.
Print Assumptions C20_overflowing_shl_exact.

Theorem C20_shr1_exact : forall a, wf a ->
  eval (shr1_limbs a) = eval a / 2 /\ wf (shr1_limbs a) /\ length (shr1_limbs a) = length a.
Proof. exact shr1_limbs_spec. Qed.
Print Assumptions C20_shr1_exact.

(** ---- the property: s = sqrt(x) is the unique s with s^2 <= x < (s+1)^2 ---- *)
Theorem C20_floor_unique : forall x s t,
  (0 <= s /\ s * s <= x < (s + 1) * (s + 1)) -> (0 <= t /\ t * t <= x < (t + 1) * (t + 1)) -> s = t.
Proof. exact is_floor_sqrt_unique. Qed.
Print Assumptions C20_floor_unique.

(** Uint::sqrt / wrapping_sqrt / SquareRoot::sqrt (constant time, LOG2_BITS + 2 rounds): no panic, exact floor *)
Theorem C20_uint_sqrt_exact : forall a, wf a -> length a <> 0%nat ->
  exists r, uint_sqrt a = SOk r /\ wf r /\ length r = length a /\
            (0 <= eval r /\ eval r * eval r <= eval a < (eval r + 1) * (eval r + 1)).
Proof. exact uint_sqrt_exact. Qed.
Print Assumptions C20_uint_sqrt_exact.

(** Uint::sqrt_vartime / wrapping_sqrt_vartime: the loop terminates within the fuel 64 * LIMBS, exact floor *)
Theorem C20_uint_sqrt_vartime_exact : forall a, wf a -> length a <> 0%nat ->
  exists r, uint_sqrt_vartime a = SOk r /\ wf r /\ length r = length a /\
            (0 <= eval r /\ eval r * eval r <= eval a < (eval r + 1) * (eval r + 1)).
Proof. exact uint_sqrt_vartime_exact. Qed.
Print Assumptions C20_uint_sqrt_vartime_exact.

(** BoxedUint::sqrt (in-place variant), any precision *)
Theorem C20_boxed_sqrt_exact : forall a, wf a -> length a <> 0%nat ->
  exists r, boxed_sqrt a = SOk r /\ wf r /\ length r = length a /\
            (0 <= eval r /\ eval r * eval r <= eval a < (eval r + 1) * (eval r + 1)).
Proof. exact boxed_sqrt_exact. Qed.
Print Assumptions C20_boxed_sqrt_exact.

Theorem C20_boxed_sqrt_vartime_exact : forall a, wf a -> length a <> 0%nat ->
  exists r, boxed_sqrt_vartime a = SOk r /\ wf r /\ length r = length a /\
            (0 <= eval r /\ eval r * eval r <= eval a < (eval r + 1) * (eval r + 1)).
Proof. exact boxed_sqrt_vartime_exact. Qed.
Print Assumptions C20_boxed_sqrt_vartime_exact.

(** the in-place boxed loop computes limb for limb what the Uint loop computes (under the loop invariant P) *)
Theorem C20_boxed_loop_is_uint_loop : forall nl (P : Z -> Prop), wf nl -> length nl <> 0%nat ->
  (forall X, P X -> fits (length nl) (eval nl) X /\ P (stepz (eval nl) X)) ->
  forall k x xp nzx, good (length nl) x -> good (length nl) nzx -> P (eval x) ->
  boxed_sqrt_loop k nl x xp nzx = sqrt_ct_loop k nl x xp.
Proof. exact boxed_loop_eq. Qed.
Print Assumptions C20_boxed_loop_is_uint_loop.

(** checked forms: the root, and is_some exactly when the input is a perfect square *)
Theorem C20_uint_checked_sqrt_exact : forall a, wf a -> length a <> 0%nat ->
  exists r b, uint_checked_sqrt a = (SOk r, b) /\ (b = true <-> exists t, eval a = t * t) /\
              wf r /\ length r = length a /\
              (0 <= eval r /\ eval r * eval r <= eval a < (eval r + 1) * (eval r + 1)).
Proof. exact uint_checked_sqrt_exact. Qed.
Print Assumptions C20_uint_checked_sqrt_exact.

Theorem C20_uint_checked_sqrt_vartime_exact : forall a, wf a -> length a <> 0%nat ->
  exists r b, uint_checked_sqrt_vartime a = (SOk r, b) /\ (b = true <-> exists t, eval a = t * t) /\
              wf r /\ length r = length a /\
              (0 <= eval r /\ eval r * eval r <= eval a < (eval r + 1) * (eval r + 1)).
Proof. exact uint_checked_sqrt_vartime_exact. Qed.
Print Assumptions C20_uint_checked_sqrt_vartime_exact.

Theorem C20_boxed_checked_sqrt_exact : forall a, wf a -> length a <> 0%nat ->
  exists r b, boxed_checked_sqrt a = (SOk r, b) /\ (b = true <-> exists t, eval a = t * t) /\
              wf r /\ length r = length a /\
              (0 <= eval r /\ eval r * eval r <= eval a < (eval r + 1) * (eval r + 1)).
Proof. exact boxed_checked_sqrt_exact. Qed.
Print Assumptions C20_boxed_checked_sqrt_exact.

Theorem C20_boxed_checked_sqrt_vartime_exact : forall a, wf a -> length a <> 0%nat ->
  exists r b, boxed_checked_sqrt_vartime a = (SOk r, b) /\ (b = true <-> exists t, eval a = t * t) /\
              wf r /\ length r = length a /\
              (0 <= eval r /\ eval r * eval r <= eval a < (eval r + 1) * (eval r + 1)).
Proof. exact boxed_checked_sqrt_vartime_exact. Qed.
Print Assumptions C20_boxed_checked_sqrt_vartime_exact.

(** the round count has exactly one round of slack: the source's TODO (#378) suggests that LOG2_BITS rounds
    "may be enough"; for the 448-bit input 2^414 + 2^212 + 255 (LOG2_BITS = 8) eight rounds return root + 1
    (fixed and boxed variant alike), nine rounds return the root.  (Not a defect of the code as written.) *)
Theorem C20_log2_bits_rounds_would_not_suffice :
  log2_bits 7 = 8 /\
  (exists r, uint_sqrt_rounds 8 slow_input_448 = SOk r /\ eval r = Z.sqrt (eval slow_input_448) + 1) /\
  (exists r, boxed_sqrt_rounds 8 slow_input_448 = SOk r /\ eval r = Z.sqrt (eval slow_input_448) + 1) /\
  (exists r, uint_sqrt_rounds 9 slow_input_448 = SOk r /\ eval r = Z.sqrt (eval slow_input_448)).
Proof. exact log2_bits_rounds_not_enough. Qed.
Print Assumptions C20_log2_bits_rounds_would_not_suffice.

(** the model table and the specification table (Z.sqrt on the represented integer) of the correspondence
    check give the same outcome, entry by entry, on every well-formed argument *)
Theorem C20_model_table_equals_spec_table :
  Forall2 (fun m s => fst m = fst s /\ forall dbg args, wf (arg 0 args) -> snd m dbg args = snd s dbg args)
          ops_sqrt_model ops_sqrt_spec.
Proof. exact sqrt_tables_agree. Qed.
Print Assumptions C20_model_table_equals_spec_table.

(** non-vacuity: the worst-case input of the crate's own test ((r+1)^2 - 583, 192 bits), a radicand one below
    a square at full width, the oscillating case t^2 + 2t, zero, and a non-square / square pair for checked *)
Example C20_nonvacuous :
  uint_sqrt [15850601984282720829; 1685072410847819194; 387207949610491688]
    = SOk [3049934400608706081; 622260355; 0] /\
  uint_sqrt_vartime [0; MAXW - 1] = SOk [MAXW - 1; 0] /\
  boxed_sqrt [MAXW; MAXW] = SOk [MAXW; 0] /\
  boxed_sqrt_vartime [24; 0; 0] = SOk [4; 0; 0] /\
  uint_sqrt [0] = SOk [0] /\ boxed_sqrt_vartime [0; 0] = SOk [0; 0] /\
  uint_checked_sqrt [15] = (SOk [3], false) /\ boxed_checked_sqrt_vartime [0; 1] = (SOk [4294967296; 0], true).
Proof. vm_compute. repeat split; reflexivity. Qed.
