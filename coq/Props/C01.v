(** C01 — secret-independent execution of every operation not marked vartime.
    Statements only, each closed by [exact] of a lemma of Proofs/LeakP.v.

    What is proved: NONINTERFERENCE OF THE LEAKAGE TWINS (Model/Leak.v). A twin returns the source-level
    event list (conditions evaluated on data [Br], non-constant indices [Ix], division operands [Dv], trip
    counts [Ln]) of one call; [same_shape a b] (equal limb counts) is the public part of a limb-list
    operand. For every twin of a constant-time routine: operands of the same shape (and inside the
    documented domain: NonZero divisors, in-range shifts for the panicking forms) give the SAME trace.
    For the `_vartime` twins the documented-public operand is shared by both sides. For safegcd's
    [jump] / [divsteps] the statement is REFUTED with a machine-checked witness (genuine finding F10).
    What is NOT proved here: that the optimized binary leaks no more than the twin — that link is the
    sampled trace comparison of tools/vlib/c01.py (ct/ crate). *)
From CB Require Import Model.Leak Proofs.LeakP.
From Coq Require Import ZArith List.
Import ListNotations.
Open Scope Z_scope.

(** ** mask / select primitives, comparison, carry chains *)
Theorem C01_select_word_ni : forall c1 a1 b1 c2 a2 b2, lk_select_word c1 a1 b1 = lk_select_word c2 a2 b2.
Proof. exact lk_select_word_ni. Qed.
Print Assumptions C01_select_word_ni.

Theorem C01_limb_select_ni : forall a1 b1 c1 a2 b2 c2, lk_limb_select a1 b1 c1 = lk_limb_select a2 b2 c2.
Proof. exact lk_limb_select_ni. Qed.
Print Assumptions C01_limb_select_ni.

Theorem C01_uint_select_ni : forall a1 b1 c1 a2 b2 c2,
  same_shape a1 a2 -> lk_uint_select a1 b1 c1 = lk_uint_select a2 b2 c2.
Proof. exact lk_uint_select_ni. Qed.
Print Assumptions C01_uint_select_ni.

Theorem C01_eq_ni : forall a1 b1 a2 b2, same_shape a1 a2 -> lk_eq a1 b1 = lk_eq a2 b2.
Proof. exact lk_eq_ni. Qed.
Print Assumptions C01_eq_ni.

Theorem C01_lt_ni : forall a1 b1 a2 b2, same_shape a1 a2 -> lk_lt a1 b1 = lk_lt a2 b2.
Proof. exact lk_lt_ni. Qed.
Print Assumptions C01_lt_ni.

Theorem C01_gt_ni : forall a1 b1 a2 b2, same_shape b1 b2 -> lk_gt a1 b1 = lk_gt a2 b2.
Proof. exact lk_gt_ni. Qed.
Print Assumptions C01_gt_ni.

Theorem C01_cmp_ni : forall a1 b1 a2 b2, same_shape a1 a2 -> lk_cmp a1 b1 = lk_cmp a2 b2.
Proof. exact lk_cmp_ni. Qed.
Print Assumptions C01_cmp_ni.

Theorem C01_adc_ni : forall a1 b1 c1 a2 b2 c2, same_shape a1 a2 -> lk_adc a1 b1 c1 = lk_adc a2 b2 c2.
Proof. exact lk_adc_ni. Qed.
Print Assumptions C01_adc_ni.

Theorem C01_sbb_ni : forall a1 b1 c1 a2 b2 c2, same_shape a1 a2 -> lk_sbb a1 b1 c1 = lk_sbb a2 b2 c2.
Proof. exact lk_sbb_ni. Qed.
Print Assumptions C01_sbb_ni.

(** ** shifts: the ladder is constant in the value AND in the (secret) shift amount *)
Theorem C01_overflowing_shl_ni : forall x1 s1 x2 s2,
  same_shape x1 x2 -> lk_overflowing_shl x1 s1 = lk_overflowing_shl x2 s2.
Proof. exact lk_overflowing_shl_ni. Qed.
Print Assumptions C01_overflowing_shl_ni.

Theorem C01_overflowing_shr_ni : forall x1 s1 x2 s2,
  same_shape x1 x2 -> lk_overflowing_shr x1 s1 = lk_overflowing_shr x2 s2.
Proof. exact lk_overflowing_shr_ni. Qed.
Print Assumptions C01_overflowing_shr_ni.

Theorem C01_wrapping_shl_ni : forall x1 s1 x2 s2,
  same_shape x1 x2 -> lk_wrapping_shl x1 s1 = lk_wrapping_shl x2 s2.
Proof. exact lk_wrapping_shl_ni. Qed.
Print Assumptions C01_wrapping_shl_ni.

(** the panicking forms: constant on their documented domain (shift < BITS) *)
Theorem C01_shl_ni : forall x1 s1 x2 s2, same_shape x1 x2 ->
  s1 < BITSn (length x1) -> s2 < BITSn (length x2) -> lk_shl x1 s1 = lk_shl x2 s2.
Proof. exact lk_shl_ni. Qed.
Print Assumptions C01_shl_ni.

Theorem C01_shr_ni : forall x1 s1 x2 s2, same_shape x1 x2 ->
  s1 < BITSn (length x1) -> s2 < BITSn (length x2) -> lk_shr x1 s1 = lk_shr x2 s2.
Proof. exact lk_shr_ni. Qed.
Print Assumptions C01_shr_ni.

(** sub-limb shift with zero-shift masking: no test on the shift amount at source level *)
Theorem C01_shl_limb_ni : forall x1 s1 x2 s2, same_shape x1 x2 -> lk_shl_limb x1 s1 = lk_shl_limb x2 s2.
Proof. exact lk_shl_limb_ni. Qed.
Print Assumptions C01_shl_limb_ni.

(** `_vartime` shift: the shift amount is the shared, public operand *)
Theorem C01_shl_vartime_ni : forall x1 x2 s, same_shape x1 x2 -> lk_shl_vartime x1 s = lk_shl_vartime x2 s.
Proof. exact lk_shl_vartime_ni. Qed.
Print Assumptions C01_shl_vartime_ni.

Theorem C01_shl_vartime_varies_with_shift : exists x s1 s2,
  lk_overflowing_shl_vartime x s1 <> lk_overflowing_shl_vartime x s2.
Proof. exact lk_overflowing_shl_vartime_varies. Qed.
Print Assumptions C01_shl_vartime_varies_with_shift.

(** BoxedUint: select / assign / swap and the shift ladder (precision = limb count is public) *)
Theorem C01_boxed_ct_select_ni : forall a1 b1 c1 a2 b2 c2,
  same_shape a1 a2 -> lk_boxed_ct_select a1 b1 c1 = lk_boxed_ct_select a2 b2 c2.
Proof. exact lk_boxed_ct_select_ni. Qed.
Print Assumptions C01_boxed_ct_select_ni.

Theorem C01_boxed_ct_swap_ni : forall a1 b1 c1 a2 b2 c2,
  same_shape a1 a2 -> lk_boxed_ct_swap a1 b1 c1 = lk_boxed_ct_swap a2 b2 c2.
Proof. exact lk_boxed_ct_swap_ni. Qed.
Print Assumptions C01_boxed_ct_swap_ni.

Theorem C01_boxed_overflowing_shl_ni : forall x1 s1 x2 s2, same_shape x1 x2 ->
  lk_boxed_overflowing_shl x1 s1 = lk_boxed_overflowing_shl x2 s2.
Proof. exact lk_boxed_overflowing_shl_ni. Qed.
Print Assumptions C01_boxed_overflowing_shl_ni.

Theorem C01_boxed_shl_ni : forall x1 s1 x2 s2, same_shape x1 x2 ->
  s1 < BITSn (length x1) -> s2 < BITSn (length x2) -> lk_boxed_shl x1 s1 = lk_boxed_shl x2 s2.
Proof. exact lk_boxed_shl_ni. Qed.
Print Assumptions C01_boxed_shl_ni.

(** ** bit queries *)
Theorem C01_bits_ni : forall x1 x2, same_shape x1 x2 -> lk_bits x1 = lk_bits x2.
Proof. exact lk_bits_ni. Qed.
Print Assumptions C01_bits_ni.

Theorem C01_leading_zeros_ni : forall x1 x2, same_shape x1 x2 -> lk_leading_zeros x1 = lk_leading_zeros x2.
Proof. exact lk_leading_zeros_ni. Qed.
Print Assumptions C01_leading_zeros_ni.

Theorem C01_trailing_zeros_ni : forall x1 x2, same_shape x1 x2 -> lk_trailing_zeros x1 = lk_trailing_zeros x2.
Proof. exact lk_trailing_zeros_ni. Qed.
Print Assumptions C01_trailing_zeros_ni.

Theorem C01_bit_ni : forall x1 i1 x2 i2, same_shape x1 x2 -> lk_bit x1 i1 = lk_bit x2 i2.
Proof. exact lk_bit_ni. Qed.
Print Assumptions C01_bit_ni.

Theorem C01_bit_vartime_ni : forall x1 x2 i, same_shape x1 x2 -> lk_bit_vartime x1 i = lk_bit_vartime x2 i.
Proof. exact lk_bit_vartime_ni. Qed.
Print Assumptions C01_bit_vartime_ni.

Theorem C01_bits_vartime_varies : exists x1 x2, same_shape x1 x2 /\ lk_bits_vartime x1 <> lk_bits_vartime x2.
Proof. exact lk_bits_vartime_varies. Qed.
Print Assumptions C01_bits_vartime_varies.

Theorem C01_cmp_vartime_varies : exists a b1 b2, same_shape b1 b2 /\ lk_cmp_vartime a b1 <> lk_cmp_vartime a b2.
Proof. exact lk_cmp_vartime_varies. Qed.
Print Assumptions C01_cmp_vartime_varies.

(** ** division *)
Theorem C01_div2by1_ni : forall a1 b1 a2 b2, lk_div2by1 a1 b1 = lk_div2by1 a2 b2.
Proof. exact lk_div2by1_ni. Qed.
Print Assumptions C01_div2by1_ni.

Theorem C01_div3by2_ni : forall a1 b1 c1 d1 a2 b2 c2 d2, lk_div3by2 a1 b1 c1 d1 = lk_div3by2 a2 b2 c2 d2.
Proof. exact lk_div3by2_ni. Qed.
Print Assumptions C01_div3by2_ni.

Theorem C01_rem_limb_ni : forall u1 d1 u2 d2, same_shape u1 u2 -> lk_rem_limb u1 d1 = lk_rem_limb u2 d2.
Proof. exact lk_rem_limb_ni. Qed.
Print Assumptions C01_rem_limb_ni.

(** Uint::div_rem / rem / wrapping_div: constant in dividend AND divisor, for NonZero divisors. The tests on data
    ([assert!(dbits > 0)], the [expect]s after normalisation, the final [shr]s) are shown to have one outcome. *)
Theorem C01_div_rem_ni : forall x1 y1 x2 y2,
  same_shape x1 x2 -> same_shape x1 y1 -> same_shape x2 y2 ->
  wf y1 -> wf y2 -> 0 < eval y1 -> 0 < eval y2 ->
  lk_div_rem x1 y1 = lk_div_rem x2 y2.
Proof. exact lk_div_rem_ni. Qed.
Print Assumptions C01_div_rem_ni.

(** ** modular arithmetic *)
Theorem C01_neg_mod_ni : forall a1 p1 a2 p2, same_shape a1 a2 -> same_shape p1 p2 -> lk_neg_mod a1 p1 = lk_neg_mod a2 p2.
Proof. exact lk_neg_mod_ni. Qed.
Print Assumptions C01_neg_mod_ni.

Theorem C01_add_mod_ni : forall a1 b1 p1 a2 b2 p2, same_shape a1 a2 -> same_shape p1 p2 ->
  lk_add_mod a1 b1 p1 = lk_add_mod a2 b2 p2.
Proof. exact lk_add_mod_ni. Qed.
Print Assumptions C01_add_mod_ni.

Theorem C01_sub_mod_ni : forall a1 b1 p1 a2 b2 p2, same_shape a1 a2 -> same_shape p1 p2 ->
  lk_sub_mod a1 b1 p1 = lk_sub_mod a2 b2 p2.
Proof. exact lk_sub_mod_ni. Qed.
Print Assumptions C01_sub_mod_ni.

(** inv_mod2k: constant in the value and in k (dummy iterations); the vartime form only in the value *)
Theorem C01_inv_mod2k_ni : forall x1 k1 x2 k2, same_shape x1 x2 -> lk_inv_mod2k x1 k1 = lk_inv_mod2k x2 k2.
Proof. exact lk_inv_mod2k_ni. Qed.
Print Assumptions C01_inv_mod2k_ni.

Theorem C01_inv_mod2k_vartime_ni : forall x1 x2 k, same_shape x1 x2 ->
  lk_inv_mod2k_vartime x1 k = lk_inv_mod2k_vartime x2 k.
Proof. exact lk_inv_mod2k_vartime_ni. Qed.
Print Assumptions C01_inv_mod2k_vartime_ni.

Theorem C01_inv_mod2k_vartime_varies_with_k : exists x k1 k2, lk_inv_mod2k_vartime x k1 <> lk_inv_mod2k_vartime x k2.
Proof. exact lk_inv_mod2k_vartime_varies. Qed.
Print Assumptions C01_inv_mod2k_vartime_varies_with_k.

(** sqrt: fixed rounds; each round divides by a selected non-zero divisor *)
Theorem C01_sqrt_ni : forall s1 s2, same_shape s1 s2 -> wf s1 -> wf s2 -> lk_sqrt s1 = lk_sqrt s2.
Proof. exact lk_sqrt_ni. Qed.
Print Assumptions C01_sqrt_ni.

(** Montgomery reduction and the 4-bit window ladder with constant-time table scan *)
Theorem C01_montgomery_reduction_ni : forall l1 u1 m1 l2 u2 m2, same_shape u1 u2 -> same_shape m1 m2 ->
  lk_montgomery_reduction l1 u1 m1 = lk_montgomery_reduction l2 u2 m2.
Proof. exact lk_montgomery_reduction_ni. Qed.
Print Assumptions C01_montgomery_reduction_ni.

Theorem C01_pow_ni : forall x1 e1 m1 x2 e2 m2 bits, same_shape x1 x2 -> same_shape m1 m2 ->
  lk_pow x1 e1 m1 bits = lk_pow x2 e2 m2 bits.
Proof. exact lk_pow_ni. Qed.
Print Assumptions C01_pow_ni.

(** ** safegcd — refuted: the inner loop of [jump] and the trip count of [divsteps] depend on the secret g *)
Theorem C01_leak_jump_refuted : exists f g1 g2 delta,
  same_shape g1 g2 /\ lk_jump f g1 delta <> lk_jump f g2 delta.
Proof. exact lk_jump_refuted. Qed.
Print Assumptions C01_leak_jump_refuted.

Theorem C01_divsteps_trip_refuted : exists f g1 g2, lk_divsteps_trip f g1 <> lk_divsteps_trip f g2.
Proof. exact lk_divsteps_trip_refuted. Qed.
Print Assumptions C01_divsteps_trip_refuted.

Theorem C01_divsteps_trip_ni_below_modulus : forall f g1 g2,
  lk_bits_of g1 <= lk_bits_of f -> lk_bits_of g2 <= lk_bits_of f -> lk_divsteps_trip f g1 = lk_divsteps_trip f g2.
Proof. exact lk_divsteps_trip_ni. Qed.
Print Assumptions C01_divsteps_trip_ni_below_modulus.

(** ** non-vacuity: the hypotheses are satisfiable on non-trivial values and the traces are not empty;
       without the preconditions the twins DO distinguish (they look at data that reaches a condition) *)
Example C01_div_rem_nonvacuous :
  let x1 := [5; 7; 9] in let y1 := [3; 0; 0] in let x2 := [MAXW; MAXW; MAXW] in let y2 := [0; 0; 2 ^ 63] in
  lk_div_rem x1 y1 = lk_div_rem x2 y2 /\ Nat.ltb 100 (length (lk_div_rem x1 y1)) = true.
Proof. vm_compute. split; reflexivity. Qed.

Example C01_div_rem_zero_divisor_differs :
  exists x y1 y2, same_shape y1 y2 /\ lk_div_rem x y1 <> lk_div_rem x y2.
Proof. exact lk_div_rem_zero_divisor_differs. Qed.

Example C01_shl_out_of_range_differs : exists x s1 s2, lk_shl x s1 <> lk_shl x s2.
Proof. exact lk_shl_out_of_range_differs. Qed.

Example C01_sqrt_nonvacuous :
  lk_sqrt [0; 0] = lk_sqrt [MAXW; MAXW] /\ Nat.ltb 1000 (length (lk_sqrt [0; 0])) = true.
Proof. vm_compute. split; reflexivity. Qed.

Example C01_jump_witness :
  lk_jump [5] [2] 1 <> lk_jump [5] [3] 1 /\ length (lk_jump [5] [2] 1) <> length (lk_jump [5] [3] 1).
Proof. vm_compute. split; discriminate. Qed.
